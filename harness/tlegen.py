"""Well-formed TLE generator (independent of pyorbital): fields -> two 69-char lines."""


def checksum(body):
    return str((sum(int(c) for c in body if c.isdigit()) + body.count("-")) % 10)


def exp_field(mant5, exp, sign=" "):
    """8 chars: sign, 5 digits, exponent sign, exponent digit: ' 28778-3'"""
    es = "-" if exp < 0 else "+"
    return "%s%05d%s%d" % (sign, mant5, es, abs(exp))


def make(satnum=25544, cls="U", ly=98, ln=67, piece="A  ", yy=8, day=264.51782528, ndot=-.00002182,
         nddot=(0, 0, " "), bstar=(11606, -4, "-"), etype="0", elnum=292, inc=51.6416, raan=247.4627,
         ecc=6703, argp=130.5360, ma=325.0288, mm=15.72125391, rev=56353, exp_plus=False):
    nd = "%.8f" % abs(ndot)
    nd = ("-" if ndot < 0 else " ") + nd[1:]          # ' .00002182'
    f_ndd = exp_field(*nddot)
    f_bs = exp_field(*bstar)
    if not exp_plus:
        f_ndd = f_ndd.replace("+", "-") if f_ndd[6] == "+" and nddot[1] == 0 else f_ndd
        f_bs = f_bs.replace("+", "-") if f_bs[6] == "+" and bstar[1] == 0 else f_bs
    l1 = "1 %05d%s %02d%03d%-3s %02d%012.8f %s %s %s %s %4d" % (
        satnum, cls, ly, ln, piece, yy, day, nd, f_ndd, f_bs, etype, elnum)
    l2 = "2 %05d %8.4f %8.4f %07d %8.4f %8.4f %11.8f%5d" % (satnum, inc, raan, ecc, argp, ma, mm, rev)
    assert len(l1) == 68 and len(l2) == 68, (len(l1), len(l2), l1, l2)
    return l1 + checksum(l1), l2 + checksum(l2)


def random_fields(rng, near_earth=True):
    """field dict for make(); near-earth, perigee comfortably above 220 km unless asked"""
    mm = rng.uniform(11.3, 15.9) if near_earth else rng.uniform(0.5, 16.5)
    a = (8681663.653 / mm) ** (2.0 / 3.0)        # km, two-body
    emax = max(0.0, 1 - (6378.135 + 260) / a)
    ecc = int(min(emax, rng.choice([rng.uniform(0, 0.003), rng.uniform(0, 0.05), rng.uniform(0, 0.4)])) * 1e7)
    ecc = max(ecc, 1)
    yy = rng.choice([rng.randint(0, 56), rng.randint(69, 99)])
    return dict(
        satnum=rng.randint(1, 99999), cls=rng.choice("UCS"), ly=rng.randint(0, 99), ln=rng.randint(1, 999),
        piece=rng.choice(["A  ", "B  ", "AB ", "ABC"]), yy=yy,
        day=rng.choice([rng.uniform(1, 365.99), rng.uniform(1, 365.99), float(rng.randint(1, 365)), 365.99999999]),
        ndot=rng.choice([0.0, rng.uniform(-1e-4, 1e-4), rng.uniform(-1e-6, 1e-6)]),
        nddot=rng.choice([(0, 0, " "), (rng.randint(10000, 99999), -rng.randint(5, 9), rng.choice(" -"))]),
        bstar=rng.choice([(0, 0, " "), (rng.randint(10000, 99999), -rng.randint(3, 6), rng.choice(" -")),
                          (rng.randint(10000, 99999), -rng.randint(4, 5), " ")]),
        etype=rng.choice(["0", "0", " "]), elnum=rng.randint(0, 9999),
        inc=rng.choice([rng.uniform(0.01, 179.99), rng.uniform(95, 102), rng.uniform(50, 66), 63.4349]),
        raan=rng.uniform(0, 359.9999), ecc=ecc, argp=rng.uniform(0, 359.9999), ma=rng.uniform(0, 359.9999),
        mm=mm, rev=rng.randint(0, 99999), exp_plus=rng.random() < 0.3)


def random_tle(rng, **kw):
    return make(**random_fields(rng, **kw))


ISS = ("1 25544U 98067A   08264.51782528 -.00002182  00000-0 -11606-4 0  2927",
       "2 25544  51.6416 247.4627 0006703 130.5360 325.0288 15.72125391563537")
NOAA18 = ("1 28654U 05018A   11284.35271227  .00000478  00000-0  28778-3 0  9246",
          "2 28654  99.0096 235.8581 0014859 135.4286 224.8087 14.11526826329313")
CORPUS = [ISS, NOAA18]
