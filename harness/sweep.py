"""Run every claimed check for a list of seeds and a tier; print one line per run and a summary of
anything that is not OK.  usage: sweep.py <tier> <seed>[,<seed>...] [ID ...]     (-j N via SWEEP_JOBS)"""
import concurrent.futures as cf
import json
import os
import subprocess
import sys
import time

ROOT = os.path.dirname(os.path.dirname(os.path.abspath(__file__)))


def one(pid, tier, seed):
    t0 = time.time()
    env = dict(os.environ, VERIF_TIER=tier, VERIF_SEED=str(seed))
    p = subprocess.run([os.path.join(ROOT, "check"), pid], cwd=ROOT, env=env, capture_output=True, text=True)
    lines = [l for l in p.stdout.splitlines() if l.startswith(("OK ", "VIOLATION", "KNOWN-FINDING"))]
    return pid, seed, p.returncode, lines, time.time() - t0, p.stdout[-800:] + p.stderr[-800:]


def main():
    tier, seeds = sys.argv[1], [int(s) for s in sys.argv[2].split(",")]
    man = json.load(open(os.path.join(ROOT, "MANIFEST.json")))
    ids = sys.argv[3:] or [c["property_id"] for c in man["checks"]]
    bad = []
    with cf.ThreadPoolExecutor(int(os.environ.get("SWEEP_JOBS", "4"))) as ex:
        futs = [ex.submit(one, pid, tier, s) for s in seeds for pid in ids]
        for f in cf.as_completed(futs):
            pid, seed, rc, lines, dt, tail = f.result()
            print("%s seed=%d rc=%d %.0fs %s" % (pid, seed, rc, dt, " | ".join(l[:110] for l in lines)), flush=True)
            if rc != 0 or not any(l.startswith("OK ") for l in lines):
                bad.append((pid, seed, rc, tail))
    print("== %d runs, %d not OK" % (len(futs), len(bad)))
    for pid, seed, rc, tail in bad:
        print("--", pid, seed, rc, "\n", tail)
    sys.exit(1 if bad else 0)


main()
