"""/verif/check <ID> [--tier quick|thorough] [--replay FILE]"""
import argparse
import importlib
import json
import os
import signal
import sys
import threading
import time
import traceback

sys.path.insert(0, os.path.dirname(os.path.dirname(os.path.abspath(__file__))))
from harness import common  # noqa: E402


class BudgetExceeded(BaseException):
    """raised in the main thread when the whole check has used up its wall-clock budget (a BaseException, so that
    the per-call `except Exception` handlers of the checks cannot mistake it for a failure of the implementation)"""


def arm_watchdog(seconds):
    def on_signal(signum, frame):
        where = "".join(traceback.format_stack(frame)[-6:])
        raise BudgetExceeded("no verdict after %d s; the main thread was in:\n%s" % (seconds, where))

    def sleeper():
        time.sleep(seconds)
        os.kill(os.getpid(), signal.SIGUSR1)
    signal.signal(signal.SIGUSR1, on_signal)
    threading.Thread(target=sleeper, daemon=True).start()


def oracle_only_pass(mod, ctx):
    """The machinery stopped before the oracle had its turn (typically: the changed implementation produced a value a
    Coq-side stage could not digest).  The search for a concrete failing input must still happen: run the check
    again with every Coq-side helper stubbed out, and keep only what the oracle finds on the implementation."""
    from harness import numeric
    saved = (numeric.regen, numeric.regen_ast, numeric.selfcheck, numeric.coq_point_check, common.coq_eval, common.Ctx.build_props)
    ctx2 = common.Ctx(ctx.pid, ctx.tier, ctx.seed)
    try:
        numeric.regen = lambda c, kernel: (None, None)
        numeric.regen_ast = lambda c, kernel, what, optional=False: (None, None)
        numeric.selfcheck = lambda *a, **k: None
        numeric.coq_point_check = lambda *a, **k: True
        common.coq_eval = lambda name, text, timeout=600: (False, "skipped: oracle-only pass after a machinery failure")
        common.Ctx.build_props = lambda self, *a, **k: False
        try:
            mod.run(ctx2)
        except BudgetExceeded:
            raise
        except Exception:
            pass
    finally:
        (numeric.regen, numeric.regen_ast, numeric.selfcheck, numeric.coq_point_check, common.coq_eval, common.Ctx.build_props) = saved
    ctx.violations += [v for v in ctx2.violations if v not in ctx.violations][:20 - len(ctx.violations)]
    ctx.known_hits += [k for k in ctx2.known_hits if k not in ctx.known_hits]
    ctx.evaluations += ctx2.evaluations
    ctx.notes["oracle_only_pass"] = "run after a machinery failure; %d failing inputs found" % len(ctx2.violations)


def generic_replay(mod, rp):
    """Checks without their own replay: every input is derived from (seed, tier) by one PRNG, so running the check
    again with the recorded seed and tier regenerates exactly the recorded inputs; report which of the recorded
    failures (by signature / theorem / correspondence) occur again on the tree as it is now."""
    ctx = common.Ctx(rp["property"], rp["tier"], int(rp["seed"]))
    arm_watchdog(int(os.environ.get("VERIF_BUDGET", "2700" if rp["tier"] == "quick" else "14400")))
    try:
        mod.run(ctx)
    except BudgetExceeded as e:
        print("REPLAY %s: no verdict within the time budget (%s)" % (rp["property"], str(e)[:200]))
        sys.stdout.flush()
        os._exit(1)
    except Exception as e:
        ctx.proof_failures.append({"theorem": "(check machinery)", "error": "%s: %s" % (type(e).__name__, e)})
    now = {v.get("signature") for v in ctx.violations}
    again = 0
    for v in rp.get("failing_inputs", []):
        hit = v.get("signature") in now
        again += hit
        print("REPLAY %s input %s: %s -- %s" % (rp["property"], v.get("signature"), "FAILS AGAIN" if hit else "passes now", v.get("what", "")))
    for b in rp.get("broken_proof_obligations", []):
        hit = any(x.get("theorem") == b.get("theorem") for x in ctx.proof_failures)
        again += hit
        print("REPLAY %s obligation %s: %s" % (rp["property"], b.get("theorem"), "STILL BROKEN" if hit else "checks now"))
    for b in rp.get("broken_correspondence", []):
        hit = any(x.get("correspondence") == b.get("correspondence") for x in ctx.corr_failures)
        again += hit
        print("REPLAY %s correspondence %s: %s" % (rp["property"], b.get("correspondence"), "STILL DIFFERS" if hit else "agrees now"))
    new = [v for v in ctx.violations if v.get("signature") not in {w.get("signature") for w in rp.get("failing_inputs", [])}]
    for v in new:
        print("REPLAY %s: additional failing input now: %s -- %s" % (rp["property"], v.get("signature"), v.get("what", "")))
    return 1 if (again or new) else 0


def main():
    ap = argparse.ArgumentParser()
    ap.add_argument("pid")
    ap.add_argument("--tier", default=os.environ.get("VERIF_TIER", "quick"), choices=["quick", "thorough"])
    ap.add_argument("--replay")
    a = ap.parse_args()
    seed = int(os.environ.get("VERIF_SEED", "0") or 0)
    ctx = common.Ctx(a.pid, a.tier, seed)
    mod = importlib.import_module("checks." + a.pid.lower())
    if a.replay:
        with open(a.replay) as f:
            rp = json.load(f)
        if hasattr(mod, "replay"):
            sys.exit(mod.replay(ctx, rp))
        sys.exit(generic_replay(mod, rp))
    # a call into the implementation that never returns (most calls are individually guarded, a few cannot be:
    # threads, scipy callbacks) must not leave the check without a verdict
    arm_watchdog(int(os.environ.get("VERIF_BUDGET", "2700" if a.tier == "quick" else "14400")))
    try:
        mod.run(ctx)
    except BudgetExceeded as e:
        ctx.proof_failures.append({"theorem": "(check did not finish within its time budget)", "error": str(e)[-1500:]})
        common.write_evidence(ctx, getattr(mod, "LEVEL", "proof"))
        rc = common.verdict(ctx)
        sys.stdout.flush()
        os._exit(rc)          # worker threads stuck in the implementation must not keep the process alive
    except Exception as e:  # machinery failure is a broken tie, never a silent pass
        ctx.proof_failures.append({"theorem": "(check machinery)", "error": "%s: %s" % (type(e).__name__, e),
                                   "trace": traceback.format_exc()[-1500:]})
        oracle_only_pass(mod, ctx)
    common.write_evidence(ctx, getattr(mod, "LEVEL", "proof"))
    sys.exit(common.verdict(ctx))


if __name__ == "__main__":
    main()
