"""/verif/check <ID> [--tier quick|thorough] [--replay FILE]"""
import argparse
import importlib
import json
import os
import sys
import traceback

sys.path.insert(0, os.path.dirname(os.path.dirname(os.path.abspath(__file__))))
from harness import common  # noqa: E402


def main():
    ap = argparse.ArgumentParser()
    ap.add_argument("pid")
    ap.add_argument("--tier", default=os.environ.get("VERIF_TIER", "quick"), choices=["quick", "thorough"])
    ap.add_argument("--replay")
    a = ap.parse_args()
    seed = int(os.environ.get("VERIF_SEED", "0") or 0)
    ctx = common.Ctx(a.pid, a.tier, seed)
    mod = importlib.import_module("checks." + a.pid.lower())
    if a.replay:
        with open(a.replay) as f:
            rp = json.load(f)
        rc = mod.replay(ctx, rp)
        sys.exit(rc)
    try:
        mod.run(ctx)
    except Exception as e:  # machinery failure is a broken tie, never a silent pass
        ctx.proof_failures.append({"theorem": "(check machinery)", "error": "%s: %s" % (type(e).__name__, e),
                                   "trace": traceback.format_exc()[-1500:]})
    common.write_evidence(ctx, getattr(mod, "LEVEL", "proof"))
    sys.exit(common.verdict(ctx))


if __name__ == "__main__":
    main()
