"""/verif/check <ID> [--tier quick|thorough] [--replay FILE]"""
import argparse
import importlib
import json
import os
import signal
import sys
import threading
import time
import traceback

sys.path.insert(0, os.path.dirname(os.path.dirname(os.path.abspath(__file__))))
from harness import common  # noqa: E402


class BudgetExceeded(BaseException):
    """raised in the main thread when the whole check has used up its wall-clock budget (a BaseException, so that
    the per-call `except Exception` handlers of the checks cannot mistake it for a failure of the implementation)"""


def arm_watchdog(seconds):
    def on_signal(signum, frame):
        where = "".join(traceback.format_stack(frame)[-6:])
        raise BudgetExceeded("no verdict after %d s; the main thread was in:\n%s" % (seconds, where))

    def sleeper():
        time.sleep(seconds)
        os.kill(os.getpid(), signal.SIGUSR1)
    signal.signal(signal.SIGUSR1, on_signal)
    threading.Thread(target=sleeper, daemon=True).start()


def main():
    ap = argparse.ArgumentParser()
    ap.add_argument("pid")
    ap.add_argument("--tier", default=os.environ.get("VERIF_TIER", "quick"), choices=["quick", "thorough"])
    ap.add_argument("--replay")
    a = ap.parse_args()
    seed = int(os.environ.get("VERIF_SEED", "0") or 0)
    ctx = common.Ctx(a.pid, a.tier, seed)
    mod = importlib.import_module("checks." + a.pid.lower())
    if a.replay:
        with open(a.replay) as f:
            rp = json.load(f)
        rc = mod.replay(ctx, rp)
        sys.exit(rc)
    # a call into the implementation that never returns (most calls are individually guarded, a few cannot be:
    # threads, scipy callbacks) must not leave the check without a verdict
    arm_watchdog(int(os.environ.get("VERIF_BUDGET", "2700" if a.tier == "quick" else "14400")))
    try:
        mod.run(ctx)
    except BudgetExceeded as e:
        ctx.proof_failures.append({"theorem": "(check did not finish within its time budget)", "error": str(e)[-1500:]})
        common.write_evidence(ctx, getattr(mod, "LEVEL", "proof"))
        rc = common.verdict(ctx)
        sys.stdout.flush()
        os._exit(rc)          # worker threads stuck in the implementation must not keep the process alive
    except Exception as e:  # machinery failure is a broken tie, never a silent pass
        ctx.proof_failures.append({"theorem": "(check machinery)", "error": "%s: %s" % (type(e).__name__, e),
                                   "trace": traceback.format_exc()[-1500:]})
    common.write_evidence(ctx, getattr(mod, "LEVEL", "proof"))
    sys.exit(common.verdict(ctx))


if __name__ == "__main__":
    main()
