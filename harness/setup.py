"""setup_cmd: regenerate every generated model from /repo and build the whole Coq development."""
import glob
import importlib
import os
import sys

sys.path.insert(0, os.path.dirname(os.path.dirname(os.path.abspath(__file__))))
from harness import common  # noqa: E402

sys.path.insert(0, os.path.join(common.VERIF, "translator"))


def main():
    bad = common.forbidden_scan()
    if bad:
        print("forbidden constructs:", bad)
        sys.exit(2)
    for path in sorted(glob.glob(os.path.join(common.VERIF, "translator", "gen_*.py"))):
        name = os.path.basename(path)[:-3]
        kernel = name[4:]
        try:
            mod = importlib.import_module(name)
            mod.generate(os.path.join(common.COQ, "gen", "Gen_%s.v" % kernel), common.REPO)
            print("generated Gen_%s.v" % kernel)
        except Exception as e:
            print("WARNING: could not generate Gen_%s.v: %s: %s" % (kernel, type(e).__name__, e))
    targets = [f[:-2] + ".vo" for f in common.coq_files()]
    with common.CoqLock():
        common.coq_makefile()
        rc, log, dt = common.sh(["make", "-f", "Makefile", "-k", "-j16"] + targets, cwd=common.COQ, timeout=3000)
    print(log[-3000:])
    missing = [t for t in targets if not os.path.exists(os.path.join(common.COQ, t))]
    print("build finished in %.0fs; %d of %d files compiled%s" % (dt, len(targets) - len(missing), len(targets),
                                                                  ("; NOT compiled: " + ", ".join(missing)) if missing else ""))
    # every check rebuilds what it needs; a file that does not compile is reported by its own check
    sys.exit(0)


if __name__ == "__main__":
    main()
