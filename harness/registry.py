"""Which properties are claimed, at which level, and why the rest are not (yet)."""
ALL = ["C%02d" % i for i in range(1, 21)]

CLAIMED = {
    "C12": {
        "text": "Coq theorems over the model of jdays/jdays2000/gmst regenerated from astronomy.py on every run: "
                "calendar agreement with Fliegel-Van Flandern for every date 1900-2100 (finite sweep lifted), exact Julian date, "
                "J2000 offset, differences, GMST range, IAU-1982 within 1e-7 rad and sidereal rate within 1e-9 rad/day for |T|<=1; "
                "plus correspondence of the generated model and of the calendar model against the interpreter",
        "design_ref": "DESIGN.md 5/C12",
        "note": "trusted: Coq kernel, stdlib real axioms + Uint63 primitives (Interval), translator (self-checked each run), "
                "numpy's civil-date-to-tick mapping (validated by Coq-evaluated correspondence); binary64 rounding sampled, not proved",
        "technique": "Coq proof over source-regenerated real-number model + Interval; correspondence via vm_compute",
    },
}

_PENDING = "model and theorems not built yet in this round; not claimed on sampling alone (see DESIGN.md 10)"
NOT_APPLICABLE = {p: _PENDING for p in ALL if p not in CLAIMED}
