"""Which properties are claimed, at which level, and why the rest are not (yet)."""
ALL = ["C%02d" % i for i in range(1, 21)]

CLAIMED = {
    "C01": {
        "text": 'Coq theorems tying the model of OrbitElements/_SGDP4Base/_Keplerians/kep2xyz/get_position regenerated from orbital.py on every run (decision trees '
                'over every path + every named quantity + the finishing map as a function of E+omega, with generated composition lemmas checked by conversion) to a '
                "hand transcription of Spacetrack Report #3: on BOTH reachable near-earth-normal paths (e0 > 1e-4; e0 <= 1e-4 with the report's small-eccentricity "
                'convention) every initialisation coefficient, the secular/drag/long-period update, the short-period finishing map, the state vectors and the unit '
                "conversions equal the report's, every Newton exit satisfies Kepler's equation to 1e-12, Kepler's equation has exactly one solution and the returned "
                'E+omega is within 1e-12/(1-sqrt eL2) rad of it (MVT/IVT); the two remaining leaves (|1+cos i| < 1.5e-12) are proved unreachable for inclinations with '
                'four decimals; the ISS set and a small-eccentricity set are proved to be on their paths by interval arithmetic. The 1 mm / 1 um/s claim itself is '
                'PROVED over the reals for EVERY answered propagation with a <= 4 earth radii and eL^2 <= 4/25 (a near-earth orbit has a0 < 1.93, so a <= 4 is the '
                'whole range in which the model keeps the semi-major axis within a factor of two of its epoch value), with no hypothesis on the Newton loop: each '
                "coordinate of the returned position is within 1e-6 km, and of the returned velocity within 1e-9 km/s, of the report's at the unique exact solution of "
                "Kepler's equation (C01_answered_position_accuracy*), via a compositional Lipschitz calculus (570000 km/rad, 460 (km/s)/rad) and a convergence proof of"
                ' the loop regenerated from source: the iterates are the second-order step, the first-step clamp is inactive, each step squares the error (Taylor '
                'remainder by a monotone comparison function + MVT), the sixth stopping test cannot fail, so the unchecked eleventh exit is unreachable (C01_newton_*).'
                ' A healthy orbit is proved to be answered, example sets on both paths are proved to meet every hypothesis (no vacuous theorem), and the claim has an '
                'input-only form: an accepted set with e0 <= 0.39 and TLE mean motion 6.4-18 rev/day, at its epoch or drag-free at any time, is answered within 1 mm / '
                '1 um/s (C01_accuracy_at_epoch_or_drag_free). For eL <= 0.47 (every eccentricity an accepted ordinary orbit can have) the loop is proved to leave by '
                'its seventh test. PARTIAL: binary64 rounding, and the Lipschitz step for 0.4 < eL <= 0.47, are sampled: implementation vs an independent binary64 '
                'evaluation of the report AND vs the same equations evaluated at 60 digits (ordinary orbits: 2e-10 km; this oracle found the 1 + cos i cancellation '
                'near 180 deg, fixed in c31ed46), and the AIAA vectors',
        "design_ref": 'DESIGN.md 5/C01',
        "note": 'trusted: Coq kernel, stdlib real axioms (+ Uint63/float primitives via Interval in the example), translator (self-checked each run on outcome class '
                'and state), Spec_SGP4.v transcription (cross-checked by the Gen=Spec proofs: a slip in D4 was caught that way). Known findings: C01:aiaa:29141 '
                '(decaying SL-14 DEB entry of the AIAA set, 0.35 m); C01:binary64-conditioning:eL2>=0.9 (accepted high-eccentricity island, metres at 1e6-1e10 km); '
                'C01:binary64-inclination-rounding:i>=179.998 (inclinations >= 179.998 deg, below 1 m, what is left after fix c31ed46). Exact oracle: '
                'checks/mpref_tool.py under python3-vt (mpmath)',
        "technique": 'Coq proof over source-regenerated model (symbolic tracing with path enumeration, decision trees, generated conversion lemmas); field/ring; Coquelicot '
                'MVT/IVT, Lipschitz calculus, quadratic-convergence analysis of the Kepler iteration; independent STR#3 oracle + AIAA vectors',
    },
    "C02": {
        "text": 'Coq theorems (no axioms) for every well-formed field record of the standard TLE column layout (a printer written from the format definition): the '
                'model of Tle.__init__/_parse_tle decodes the printed lines to exactly the values the columns denote (strings and integers exactly, each float as exact'
                ' sign/digits/implied point/signed exponent), the epoch is exactly 1 January of the %y-pivoted year plus (day-1) days in whole microseconds, '
                'line1/line2 are the stripped inputs, printed sets pass the checksum, every decimal has mantissa < 2^53 and |power of ten| <= 22',
        "design_ref": 'DESIGN.md 5/C02',
        "note": 'trusted: Coq kernel; translator/gen_tle.py (fail-closed Python-AST to Gallina: Tle._parse_tle, _read_tle, its nested helper and the __init__ call '
                'order are REGENERATED on every run and proved equal to the hand model on every pair of lines: C02_source_*); the hand models of '
                'float()/int()/strptime/timedelta (tied to CPython by the Coq-evaluated correspondence on generated sets, premise wf/encode re-checked per input). '
                'Validated, not proved: CPython float() correct rounding (bit-exact hex), eccentricity within 1 ulp, the timedelta float path reaching the exact '
                'microsecond, file/StringIO readers. Years 57-68 follow %y and are not judged',
        "technique": 'Coq proof of decode∘encode = values over an executable Gallina model and a literature printer; source-regenerated definitions proved equal to the '
                'model; correspondence by vm_compute against the implementation (float.hex(), integer microseconds) plus an independent column-table oracle',
    },
    "C03": {
        "text": "PARTIAL. Coq theorems over a hand-written executable model of get_next_passes' control logic (sign-bit crossings, rise/fall pairing with persisting "
                'rise, rise<fall guard, argmax slice, culmination bracket), for every sample list and every root oracle meeting its contract: rise<fall, time order and'
                ' disjointness, sample-level soundness, discrete and continuous completeness with explicit flanking hypotheses, bracket containment, unimodal maximiser'
                ' inside the bracket. brentq accuracy (1e-4 deg), the culmination optimiser (0.01 deg) and behaviour between samples are oracle hypotheses checked by '
                'sampling against a 1-2 s dense scan',
        "design_ref": 'DESIGN.md 5/C03',
        "note": 'trusted: Coq kernel, standard reals axioms in two theorems only, the order/sign-preserving IEEE-bits encoding used by the correspondence; scipy brentq'
                ' / minimize_scalar contracts as Section hypotheses; additionally translator/gen_passes.py (fail-closed) compares the body of get_next_passes, '
                'constants masked, with the skeleton the model was written from (translator/passes_skeleton.txt) and extracts its numeric constants on every run; the '
                "model's pairing loop is proved to take the action of the source's loop body at every crossing and its slice / culmination bracket to use the source's "
                'constants (C03_source_*)',
        "technique": "Coq proof over a hand-written Gallina model; correspondence by replaying the implementation's own samples and recorded roots via vm_compute; "
                'dense-scan oracle',
    },
    "C04": {
        "text": 'Coq theorems over the real-number model of Orbital.get_lonlatalt, geoloc.get_lonlatalt, astronomy.observer_position and utc2local regenerated from '
                'source on every run (geodetic loop unrolled per exit path): longitude in (-180,180] and latitude in [-90,90] for all inputs; on EVERY exit path, from '
                'the exit test alone, the WGS-84 + GMST reconstruction of (lon,lat,alt) equals (A/XKMPER) x position within A*2e-12 km per component (Lipschitz bounds '
                "by MVT), with A/XKMPER-1 < 3.2e-7 inside the property's 2e-6; observer_position is exactly the WGS-84 geodetic->ECI map with velocity = earth-rotation"
                ' x position; method and module function are the same real function; local time = UTC + lon/15 h; the loop TERMINATES: for every position at least '
                '6355.8 km from the centre (on or outside the ellipsoid) and off the polar axis the iteration is a contraction (factor < 0.0069) and the exit test '
                'succeeds at the fifth test at the latest (Coquelicot MVT), so some exit is taken and its result satisfies the round trip',
        "design_ref": 'DESIGN.md 5/C04',
        "note": 'trusted: Coq kernel, stdlib real axioms (+ classic/funext via Coquelicot, Uint63/float primitives via Interval), translator (self-checked each run: '
                'binary64 DAG evaluation and Coq-Interval point evaluation against the interpreter). Paths beyond 6 loop iterations are outside the model and proved '
                'unreachable above one earth radius. Binary64 rounding, incl. near the polar axis, sampled not proved',
        "technique": 'Coq proof over source-regenerated real-number model (symbolic tracing with path enumeration), Coquelicot MVT + Interval; oracle vs independent '
                'WGS-84/IAU-82 code',
    },
    "C05": {
        "text": 'Coq theorems over the regenerated real-number model of Orbital.get_observer_look and the module function: both are the core formula applied to the '
                "observer-position and GMST kernels (by conversion); elevation = asin(up-component/range) in the observer's WGS-84 east-north-up frame, the clips being"
                ' the identity over the reals (Cauchy-Schwarz); elevation in [-90,90] and the asin argument in [-1,1] for every input; azimuth is the '
                "clockwise-from-north angle in [0,2pi] (the property's closed [0,360] deg) (module: any direction with a horizontal component; method: north component "
                "non-zero); a satellite on the observer's geodetic normal is at elevation exactly 90",
        "design_ref": 'DESIGN.md 5/C05',
        "note": 'trusted: Coq kernel, stdlib real axioms, translator (self-checked each run). 1e-4 deg accuracy, finiteness in binary64 and the 5e-3 deg method/module '
                'agreement are sampled against an independent ENU computation (incl. the exact sub-satellite point, poles, date line, antipode, geostationary '
                "altitudes). The method's exact-zero north component (division by zero) is not constructed",
        "technique": 'Coq proof over source-regenerated real-number model; atan2/asin library lemmas; oracle vs independent ENU code',
    },
    "C06": {
        "text": 'Coq theorems over the model of sun_ecliptic_longitude, sun_ra_dec, cos_zen, sun_zenith_angle, get_alt_az and sun_earth_distance_correction regenerated'
                " from astronomy.py on every run: for every instant 1950-2050 the code's ecliptic longitude, obliquity and distance factor are within 0.0275 deg, 0.002"
                ' deg and 0.0015 AU of the Astronomical-Almanac low-precision formulas; (ra, dec) are exactly the spherical coordinates of the ecliptic point; the sun '
                'direction is within a chord of 5.15e-4 (< 0.03 deg) of the Almanac direction; cos_zen is the sun-zenith dot product, lies in [-1,1] and is within '
                "5.16e-4 of the Almanac/IAU-82 value; azimuth = atan2(east, north); zenith/altitude/arccos mutually consistent (the code's clip is the identity over "
                'the reals); zenith 0 / 180 at the sub-solar point / antipode',
        "design_ref": 'DESIGN.md 5/C06',
        "note": 'trusted: Coq kernel, stdlib real axioms, FloatAxioms/Uint63 primitives used by Interval, translator (self-checked each run), independent numpy Almanac'
                ' oracle with UT1=UTC. Binary64 rounding and the angle-form 0.03 deg for zenith/altitude/azimuth are sampled, not proved. One singular instant per year'
                ' of the half-angle RA formula is excluded from the direction theorems and proved to exist (unreachable in binary64)',
        "technique": 'Coq proof over source-regenerated real-number model; Interval (Taylor models + bisection) for series bounds; atan2/half-angle library; IVT for the '
                'singular instant',
    },
    "C07": {
        "text": 'Coq theorems over the regenerated model of the compute_pixels core and ScanGeometry.vectors: the pixel lies exactly on WGS-84, on the ray at the '
                'smaller of the only two roots and in front of the satellite; horizon inequality; an intersection exists iff discriminant >= 0; unit view vectors; zero'
                ' angles give nadir; roll and pitch add; yaw leaves the off-nadir angle unchanged; closed-form across/along-track sense; exit of the NaN-tolerant '
                'vectorised loop (pre-fix loop refuted), whose per-pixel hypothesis is discharged: for a pixel on the ellipsoid off the polar axis the latitude '
                "iteration of geoloc.get_lonlatalt exits by its fifth test (C07_pixel_conversion_terminates, from C04's contraction). Sub-point conversion range/round "
                "trip come from C04's theorems",
        "design_ref": 'DESIGN.md 5/C07',
        "note": 'the NaN <-> miss link, nadir 0.2 deg, the 1e-9 / 10 m tolerances, 2-D shapes and get_lonlatalt termination are validated by the oracle (hit/miss '
                'decided in exact rationals). Orbital.get_position is taken as the state source. M_VecLoop.v is hand-written from geoloc.py:54-59,197-202',
        "technique": 'Coq proof over a source-regenerated model with recorded qrotate calls + hand-written loop-exit model + implementation oracle',
    },
    "C08": {
        "text": 'Coq theorems (no axioms) by complete case analysis over a hand-written (container, dtype) model of every numeric entry point: 14 input kinds x 10 time'
                ' kinds return the documented kind and never raise; the tick->day and tick->minute conversions as coded give identical binary64 bits for one instant in'
                ' any datetime64 unit (executable rational model of IEEE rounding)',
        "design_ref": 'DESIGN.md 5/C08',
        "note": "the model's numpy/dask oracle-fact table and every entry-point cell are compared EXHAUSTIVELY with the installed numpy/dask and the implementation on "
                'each run (6322 cells); the binary64 time model is compared bit-exactly with numpy; array-vs-scalar agreement (1e-6) and bit identity across time kinds'
                ' are sampled with regression instants. Trusted: numpy promotion and division rules as tabulated',
        "technique": 'finite kind model + vm_compute case sweep; rational IEEE-rounding model with invariance proof; exhaustive table correspondence via coq_eval',
    },
    "C09": {
        "text": 'Coq theorems (no axioms) over a hand-written executable model of Tle._checksum and the constructor order, for lines of ANY length: accepted iff the '
                "last character is the digit of (digit sum + number of '-') mod 10 of the rest; any single digit replaced by a different digit (check digit included) "
                'is rejected; any replacement changing the weight mod 10 is rejected; both lines must pass; parsing is reached only through an accepted checksum. '
                'Tle._checksum and the constructor order are additionally REGENERATED from tlefile.py on every run (translator/gen_tle.py, fail-closed) and proved '
                'equal to the model for all inputs (C09_source_*). The model is also tied to tlefile.py by an exhaustive sweep per TLE of all 2x69 positions x 95 '
                'printable replacements, evaluated inside Coq (vm_compute) and on the implementation (lines, files, streams)',
        "design_ref": 'DESIGN.md 5/C09',
        "note": 'trusted: Coq kernel; translator/gen_tle.py; the hand models of str.isdigit / int on one character (correspondence-checked every run); domain 7-bit '
                'ASCII (Python isdigit/int on non-ASCII digits not modelled)',
        "technique": 'Coq proof by induction over an executable Gallina model; exhaustive per-TLE correspondence via vm_compute',
    },
    "C10": {
        "text": 'Coq theorems (no axioms) over a hand-written executable model of the line scanner (explicit cursor, StopIteration, prefix designator, SATELLITES as '
                'finite map), the bulk readers and read_platform_numbers: for well-formed collections of any length the result is the first entry matching by name line'
                ' or registered 5-character id (empty name on a stream -> first entry), else KeyError; both lines come from one entry (adjacent source lines even '
                'without well-formedness); bulk reads return every entry in order; the platforms mapping is leading words -> last token with the last row winning. '
                'Necessity of each hypothesis proved by _refuted witnesses',
        "design_ref": 'DESIGN.md 5/C10',
        "note": 'trusted: Coq kernel, Python line iteration and XML parsing, ASCII domain; model-code tie by (a) translator/gen_collection.py (fail-closed AST '
                "extraction): the per-line decision of _decode_lines is REGENERATED on every run and proved to be the model's classify/take_cond decision, and the "
                "model's loop is proved to be the application of that regenerated decision at every line (C10_source_*); (b) generated correspondence (about 1.8k "
                'quick, 12k thorough cases, model evaluated in Coq), sats_ok (5-character ids) discharged by computation for the active platforms file',
        "technique": 'hand-written Gallina model + structural induction; vm_compute correspondence + independent oracle',
    },
    "C11": {
        "text": 'PARTIAL. Coq theorems over a tick-level executable model of get_last_an_time: post-condition, termination for every unit under a Lipschitz hypothesis,'
                ' non-termination without the unit guard, refined result not late under explicit Newton-step hypotheses; truncation/TBUS/monotonicity of the orbit '
                'number, strict monotonicity of the cubic over [-1, 5] d under stated TLE field bounds (the continuous formula is additionally REGENERATED from '
                'Orbital.get_orbit_number on every run by symbolic execution and proved to be that cubic, TBUS = +1: C11_source_*), cache purity, the crossing-time '
                "bracket with IVT under scipy's contract. Agreement of the count with the trajectory's crossings, v_z > 0, 'no later node', the Lipschitz bound on z, "
                'scipy bisect and binary64 rounding are sampled against a 1 s z scan',
        "design_ref": 'DESIGN.md 5/C11',
        "note": 'trusted: Coq kernel, stdlib real axioms; one known class (eccentric orbits, errors within the apsidal-rotation bound 5 s + 1.25 (e/n) dw^2, signature '
                'C11:count:eccentric-apsidal-rotation) is suppressed by signature with an error cap',
        "technique": 'Coq proof over a hand-written Gallina model; bit-exact replay of recorded (tick, z, shift) samples for all 7 time representations via vm_compute; scan'
                ' oracle',
    },
    "C12": {
        "text": 'Coq theorems over the model of jdays/jdays2000/gmst regenerated from astronomy.py on every run: calendar agreement with Fliegel-Van Flandern for every'
                ' date 1900-2100 (finite sweep lifted), exact Julian date, J2000 offset, differences, GMST range, IAU-1982 within 1e-7 rad and sidereal rate within '
                '1e-9 rad/day for |T|<=1; plus correspondence of the generated model and of the calendar model against the interpreter',
        "design_ref": 'DESIGN.md 5/C12',
        "note": "trusted: Coq kernel, stdlib real axioms + Uint63 primitives (Interval), translator (self-checked each run), numpy's civil-date-to-tick mapping "
                '(validated by Coq-evaluated correspondence); binary64 rounding sampled, not proved',
        "technique": 'Coq proof over source-regenerated real-number model + Interval; correspondence via vm_compute',
    },
    "C13": {
        "text": 'Coq theorems over the constructor and propagation decision trees regenerated from orbital.py by exhaustive path enumeration: OrbitalError exactly when'
                ' the element-range guards fail, NotImplementedError exactly for in-range elements with period >= 225 min, simplified mode exactly for perigee < 220 km'
                ' and propagate refuses that mode, near-earth-normal otherwise; the outcome is a total function of the elements; every returned state has passed the '
                'decay guards and each decayed condition ends in an exception; on a returned state every denominator and sqrt argument of the propagation stage is '
                "positive (real-number half of 'never NaN'); conversely an orbit that is not decaying IS answered (decay guards at the requested time, eL^2 <= 4/25, "
                'osculating perigee >= 1.005 earth radii imply a returned state, via the convergence proof of the Kepler loop and rk >= 1: C13_healthy_is_answered*), '
                'and in terms of the input only: every accepted near-earth set with e0 <= 0.39 is answered at its epoch and, when B* = 0, at every time '
                '(C13_answered_at_epoch_or_drag_free*), and more generally EVERY accepted element set outside the degenerate island (TLE mean motion 6.4-18 rev/day, e0'
                ' <= 0.9, which the perigee guard turns into e0 <= 0.467) at its epoch or drag-free (C13_accepted_is_answered_at_epoch_or_drag_free; rk >= 1 from the '
                "osculating perigee alone, loop convergence up to eL = 0.47). PARTIAL: 'a state is returned' with drag away from epoch, constructor denominators and "
                'binary64 overflow are sampled over the printable range of every field, incl. the accepted high-eccentricity island',
        "design_ref": 'DESIGN.md 5/C13',
        "note": "trusted: Coq kernel, stdlib real axioms, translator (self-checked each run on every outcome class); guard thresholds are tied to the report's "
                'period/perigee by C13_period_is_model_period',
        "technique": 'Coq proof by case analysis over source-regenerated decision trees; oracle over the printable field ranges',
    },
    "C14": {
        "text": 'Coq theorems over the model of qrotate (all accepted axis/angle/shape variants, proved column-wise identical) and subpoint, regenerated from geoloc.py'
                " on every run: equality with Rodrigues' rotation about axis/|axis| by minus the angle for every vector, non-zero axis and angle; length and "
                'inner-product preservation; axis fixed; identity at 0 and 2pi; additivity; the subpoint lies on the (A, B) ellipsoid for every latitude value; the '
                'geodetic-latitude loop regenerated from source is a contraction (factor 0.0069, Coquelicot MVT) for every point off the polar axis and on or outside '
                'the ellipsoid, so its np.allclose exit is taken by the fourth comparison (termination), and from the exit test alone the point is within 1 m of the '
                "line through its subpoint along the ellipsoid's unit normal there (the property's 1 m clause, proved). Translator self-check and implementation oracle"
                ' against an independent Rodrigues formula',
        "design_ref": 'DESIGN.md 5/C14',
        "note": 'trusted: Coq kernel, stdlib real axioms, translator (self-checked each run in binary64 and by Coq-Interval). Shape/broadcast semantics, the 1 m normal'
                ' distance, geodetic_lat termination and binary64 rounding at 1e-9 are sampled',
        "technique": 'Coq proof (nsatz / field) over a source-regenerated real-number model + sampling oracle',
    },
    "C15": {
        "text": 'Coq theorems (no axioms) over a hand-written executable model of SQLiteTLE for histories of any length with crashes at every statement boundary: row '
                'set = first-seen (text, source) per distinct (configured satellite, epoch), nothing for unconfigured satellites; flag iff a row was added since open; '
                'a crash is indistinguishable from a reopen for every later observation; export = temporally newest first-seen entry per platform with data, in '
                'configuration order, nothing unless added or write_always; bytewise order of the stored ISO strings = temporal order incl. prefix-related whole-second'
                ' strings. Correspondence of model and implementation after every operation on random, corpus and bounded-exhaustive histories plus fetch_tles.run',
        "design_ref": 'DESIGN.md 5/C15',
        "note": 'trusted: Coq kernel, sqlite semantics (unique-key insert, transaction atomicity, BINARY text order), crash = exception at a statement boundary through'
                ' a proxy on db.db, epoch taken from the parsed Tle, insertion_time not modelled; platform_names may permanently lack a row after a crash (proved; not '
                'required by the property); additionally translator/gen_db.py (fail-closed AST extraction) REGENERATES on every run the SQL texts class SQLiteTLE '
                "issues, the epoch-key expression and the inserted row, and C15_source_sql states that they are the statements the model's sqlite oracle was written "
                'for',
        "technique": 'refinement proof in Coq to a history-level abstract spec + Coq-evaluated (vm_compute) history correspondence with crash injection',
    },
    "C16": {
        "text": 'Coq theorems (no axioms) by complete case analysis over a hand-written decision model of _read_tle / _get_uris_and_open_func / _get_config_path / '
                'get_platforms_filepath: precedence lines > file/stream > newest TLES file > network; no network request whenever a local source is configured even if '
                'it yields nothing; registry from PYORBITAL_CONFIG_PATH iff it holds platforms.txt; PPP_CONFIG_DIR irrelevant; newest-by-ctime proved for arbitrary '
                'file lists. Model tied to the code by an EXHAUSTIVE run of all 216 configurations (x present/absent) in fresh interpreters with '
                'urlopen/requests/socket interposed and file opens logged',
        "design_ref": 'DESIGN.md 5/C16',
        "note": 'trusted: Coq kernel, OS change-time ordering, existence of the packaged platforms.txt; exhaustive for the stated abstraction; additionally '
                'translator/gen_source.py (fail-closed AST extraction) REGENERATES the if/elif/else tree of _get_uris_and_open_func on every run, proved to be the '
                "model's decision on all inputs, with 'network iff no file and TLES unset' read off the regenerated tree (C16_source_*)",
        "technique": 'finite-enum Gallina model + destruct/vm_compute; exhaustive subprocess correspondence',
    },
    "C17": {
        "text": 'Coq theorems (no axioms) over a hand-written model of fetch_plain_tle / fetch_spacetrack and of the line scanner, for unbounded source and URI lists: '
                'any result is the per-source in-order concatenation with every configured source present; a non-200 URI is equivalent to its deletion; a result '
                "implies no timeout and a reached timeout is TleDownloadTimeoutError; text without a line starting '1 ' yields no entries; the Space-Track case table. "
                'Every outcome assignment over <= 5 URIs in <= 3 sources is run on the implementation under an interposed requests layer and on the model inside Coq',
        "design_ref": 'DESIGN.md 5/C17',
        "note": 'trusted: Coq kernel, interposed requests (status_code/text, Timeout subclasses), TLE lines abstracted to 5 classes; known finding '
                'C17:body-line-starting-with-1-not-tle is modelled faithfully and proved as C17_line1_refuted; additionally translator/gen_download.py (fail-closed AST'
                ' extraction) REGENERATES the per-URI action of fetch_plain_tle (timeout handler, status test, the two arms) on every run and checks the loop structure'
                " around it; the model's loop is proved to be the application of that action at every URI (C17_source_*)",
        "technique": 'Coq proof by induction over the fetch loops + exhaustive Coq-evaluated correspondence',
    },
    "C18": {
        "text": "Coq theorems (no axioms) over an atomic-step model of the orbit object's shared state: every history and every interleaving (unbounded thread counts "
                'and lengths) returns fresh-object results, and nothing but the two lazy cache cells is ever stored to. The premises are boolean checks (vm_compute) on'
                ' facts REGENERATED from orbital.py on every run by a fail-closed AST dataflow pass: which pre-existing attributes each query may store to, whether a '
                'stored value can depend on an argument, whether an argument is modified in place',
        "design_ref": 'DESIGN.md 5/C18',
        "note": "the facts are cross-checked against a dynamic setattr log and the model's cell-access traces; bit-identity on the implementation is validated (not "
                'proved) by sampled histories and a settrace-driven scheduler with exhaustive single preemption at source lines. Trusted: GIL atomicity, numpy/scipy '
                'purity, soundness of the AST pass',
        "technique": 'generated facts as computed premises + interaction-tree model with invariant proof in Coq; deterministic thread scheduler as oracle',
    },
    "C19": {
        "text": 'Coq theorems over hand-written templates of the nine timed instrument definitions plus OLCI/SLSTR, for every scan count and every position selection: '
                'shapes, per-scan equality, swath bounds, zero along-track angles, antisymmetry, strictly increasing integer-ns times, line-before-next, scan period '
                'within 1 ns after truncation, subset = columns of the full geometry. A second, bit-exact binary64 (PrimFloat) instance of the same formulas is proved '
                'within 1 ns of the exact one, period within 2 ns, monotone and line-ordered, for scans 0..50 by kernel-checked sweep (bound in the statement)',
        "design_ref": 'DESIGN.md 5/C19',
        "note": 'template-equals-code is a Coq-evaluated correspondence run (angles 1e-12 rad, nanoseconds exactly), sampled not proved; binary64 results bounded to 50'
                ' scans; default options only; the angle floats are not modelled. Trusted: Coq kernel with primitive floats/Int63 (listed under the three B64 '
                "theorems), numpy's truncating float x timedelta64, doc-transcribed limits in the oracle; additionally translator/gen_instruments.py (fail-closed) "
                'evaluates the constants of amsua, mhs, hirs4, atms, mwhs2 and avhrr EXACTLY from the source text on every run, and C19_source_numbers* state that the '
                'templates are built from those numbers (positions, scan period, swath, end angles, sampling interval, start delay, scan offset)',
        "technique": 'hand-written executable Gallina templates parameterised over an arithmetic (Q / PrimFloat); lra/lia over Q + forallb sweeps; correspondence via '
                'vm_compute',
    },
    "C20": {
        "text": 'PARTIAL. Coq theorems over the regenerated model of kep2xyz/get_position: |position| = radius, <position,velocity> = radius*rdot, |velocity|^2 = '
                "rdot^2 + rfdot^2, r x v = radius*rfdot*(sin i sin O, -sin i cos O, cos i) (orbital plane has the model's inclination and node), unit conversion of the"
                ' normalised output; and over the regenerated SGP4 model: (cos u, sin u) is a unit vector, and on every answered propagation of both reachable leaves '
                "the plane's inclination is within (3/4) k2/pL^2 of the element set's (hence within 0.05 deg for pL >= 0.69 earth radii) and the node within (3/2) "
                "k2/pL^2 of the secular node. The report's pre-correction rates and radius satisfy vis-viva exactly (v^2/2 - mu/r = -mu/2a) and the rate corrections "
                'are bounded by k2 n/pL and 3 k2 n/pL; on every answered propagation the geocentric distance satisfies a(1-eL) <= r <= a(1+eL) and |returned radius - '
                'r| <= (3 k2/pL^2 r + k2/(2 pL)) XKMPER (below 23 km for pL >= 1, r <= 2 earth radii: the osculating half of the perigee/apogee clause). The specific '
                'orbital energy of the returned state is within 1 % of -mu/2a(t) on every answered propagation with eL^2 <= 4/25 and osculating perigee >= 1.03 earth '
                'radii (exact vis-viva of the pre-correction state + a perturbation budget for the three corrections, its numeric core closed by interval arithmetic; '
                'mu = ke^2 XKMPER^3/3600 = 398600.8). In the drag-free case (at epoch, or B* = 0 at any time; accepted set with e0 <= 0.39) both clauses are proved in '
                "the property's own terms: the returned distance lies between the model's perigee and apogee radii a0''(1 -+ e0) XKMPER widened by 40 km, and the "
                "energy is within 1 % of -mu/(2 a0'' XKMPER). The exposed summary (OrbitElements.semi_major_axis, .perigee) is proved to lie within 1.3 km of the "
                "propagator's own a0'' / perigee height for every e0 <= 0.4 and 6.4 <= n <= 17 rev/day (mean-value theorem on the shared function of the oblateness "
                'term, derivative bounded by interval arithmetic). The other clauses (velocity = d position/dt within 0.15 %, both clauses with drag away from epoch, '
                'the summary against the trajectory, period) are facts about the SGP4 theory and are checked by sampling',
        "design_ref": 'DESIGN.md 5/C20',
        "note": 'trusted: Coq kernel, stdlib real axioms, translator (self-checked each run). Sampled clauses are not proved; say so in evidence.assumptions',
        "technique": 'Coq proof (ring with trigonometric identities) over source-regenerated model; finite-difference and node-scan oracle on the implementation',
    },
}

_PENDING = "model and theorems not built yet in this round; not claimed on sampling alone (see DESIGN.md 10)"
NOT_APPLICABLE = {p: _PENDING for p in ALL if p not in CLAIMED}
