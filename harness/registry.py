"""Which properties are claimed, at which level, and why the rest are not (yet)."""
ALL = ["C%02d" % i for i in range(1, 21)]

CLAIMED = {
    "C12": {
        "text": "Coq theorems over the model of jdays/jdays2000/gmst regenerated from astronomy.py on every run: "
                "calendar agreement with Fliegel-Van Flandern for every date 1900-2100 (finite sweep lifted), exact Julian date, "
                "J2000 offset, differences, GMST range, IAU-1982 within 1e-7 rad and sidereal rate within 1e-9 rad/day for |T|<=1; "
                "plus correspondence of the generated model and of the calendar model against the interpreter",
        "design_ref": "DESIGN.md 5/C12",
        "note": "trusted: Coq kernel, stdlib real axioms + Uint63 primitives (Interval), translator (self-checked each run), "
                "numpy's civil-date-to-tick mapping (validated by Coq-evaluated correspondence); binary64 rounding sampled, not proved",
        "technique": "Coq proof over source-regenerated real-number model + Interval; correspondence via vm_compute",
    },
    "C09": {
        "text": "Coq theorems (no axioms) over a hand-written executable model of Tle._checksum and the constructor order, for lines of ANY length: "
                "accepted iff the last character is the digit of (digit sum + number of '-') mod 10 of the rest; any single digit replaced by a "
                "different digit (check digit included) is rejected; any replacement changing the weight mod 10 is rejected; both lines must pass; "
                "parsing is reached only through an accepted checksum. The model is tied to tlefile.py by an exhaustive sweep per TLE of all "
                "2x69 positions x 95 printable replacements, evaluated inside Coq (vm_compute) and on the implementation (lines, files, streams)",
        "design_ref": "DESIGN.md 5/C09",
        "note": "trusted: Coq kernel; hand-written model (correspondence-checked every run); domain 7-bit ASCII (Python isdigit/int on non-ASCII digits not modelled)",
        "technique": "Coq proof by induction over an executable Gallina model; exhaustive per-TLE correspondence via vm_compute",
    },
    "C02": {
        "text": "Coq theorems (no axioms) for every well-formed field record of the standard TLE column layout (a printer written from the format "
                "definition): the model of Tle.__init__/_parse_tle decodes the printed lines to exactly the values the columns denote (strings and "
                "integers exactly, each float as exact sign/digits/implied point/signed exponent), the epoch is exactly 1 January of the %y-pivoted "
                "year plus (day-1) days in whole microseconds, line1/line2 are the stripped inputs, printed sets pass the checksum, every decimal "
                "has mantissa < 2^53 and |power of ten| <= 22",
        "design_ref": "DESIGN.md 5/C02",
        "note": "trusted: Coq kernel; hand-written model tied to tlefile.py by the Coq-evaluated correspondence on generated sets (premise wf/encode "
                "re-checked per input). Validated, not proved: CPython float() correct rounding (bit-exact hex), eccentricity within 1 ulp, the timedelta "
                "float path reaching the exact microsecond, file/StringIO readers. Years 57-68 follow %y and are not judged",
        "technique": "Coq proof of decode∘encode = values over an executable Gallina model and a literature printer; correspondence by vm_compute "
                     "against the implementation (float.hex(), integer microseconds) plus an independent column-table oracle",
    },
    "C04": {
        "text": "Coq theorems over the real-number model of Orbital.get_lonlatalt, geoloc.get_lonlatalt, astronomy.observer_position and utc2local "
                "regenerated from source on every run (geodetic loop unrolled per exit path): longitude in (-180,180] and latitude in [-90,90] for all "
                "inputs; on EVERY exit path, from the exit test alone, the WGS-84 + GMST reconstruction of (lon,lat,alt) equals (A/XKMPER) x position "
                "within A*2e-12 km per component (Lipschitz bounds by MVT), with A/XKMPER-1 < 3.2e-7 inside the property's 2e-6; observer_position is "
                "exactly the WGS-84 geodetic->ECI map with velocity = earth-rotation x position; method and module function are the same real function; "
                "local time = UTC + lon/15 h",
        "design_ref": "DESIGN.md 5/C04",
        "note": "trusted: Coq kernel, stdlib real axioms (+ classic/funext via Coquelicot, Uint63/float primitives via Interval), translator (self-checked "
                "each run: binary64 DAG evaluation and Coq-Interval point evaluation against the interpreter). Paths beyond 6 loop iterations are outside "
                "the model (the correspondence run reports any input needing them). Binary64 rounding, incl. near the polar axis, sampled not proved",
        "technique": "Coq proof over source-regenerated real-number model (symbolic tracing with path enumeration), Coquelicot MVT + Interval; oracle vs independent WGS-84/IAU-82 code",
    },
    "C05": {
        "text": "Coq theorems over the regenerated real-number model of Orbital.get_observer_look and the module function: both are the core formula "
                "applied to the observer-position and GMST kernels (by conversion); elevation = asin(up-component/range) in the observer's WGS-84 "
                "east-north-up frame, the clips being the identity over the reals (Cauchy-Schwarz); elevation in [-90,90] and the asin argument in "
                "[-1,1] for every input; azimuth is the clockwise-from-north angle in [0,2pi) (module: any direction with a horizontal component; "
                "method: north component non-zero); a satellite on the observer's geodetic normal is at elevation exactly 90",
        "design_ref": "DESIGN.md 5/C05",
        "note": "trusted: Coq kernel, stdlib real axioms, translator (self-checked each run). 1e-4 deg accuracy, finiteness in binary64 and the 5e-3 deg "
                "method/module agreement are sampled against an independent ENU computation (incl. the exact sub-satellite point, poles, date line, "
                "antipode, geostationary altitudes). The method's exact-zero north component (division by zero) is not constructed",
        "technique": "Coq proof over source-regenerated real-number model; atan2/asin library lemmas; oracle vs independent ENU code",
    },
    "C20": {
        "text": "PARTIAL. Coq theorems over the regenerated model of kep2xyz/get_position: |position| = radius, <position,velocity> = radius*rdot, "
                "|velocity|^2 = rdot^2 + rfdot^2, r x v = radius*rfdot*(sin i sin O, -sin i cos O, cos i) (orbital plane has the model's inclination and "
                "node), unit conversion of the normalised output. The other clauses (velocity = d position/dt within 0.15 %, perigee/apogee band, "
                "inclination within 0.05 deg of the TLE, energy within 1 %, orbit summary) are facts about the SGP4 theory and are checked by sampling",
        "design_ref": "DESIGN.md 5/C20",
        "note": "trusted: Coq kernel, stdlib real axioms, translator (self-checked each run). Sampled clauses are not proved; say so in evidence.assumptions",
        "technique": "Coq proof (ring with trigonometric identities) over source-regenerated model; finite-difference and node-scan oracle on the implementation",
    },
}

_PENDING = "model and theorems not built yet in this round; not claimed on sampling alone (see DESIGN.md 10)"
NOT_APPLICABLE = {p: _PENDING for p in ALL if p not in CLAIMED}
