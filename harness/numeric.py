"""Helpers for the K1 (real-valued kernel) checks."""
import importlib
import math
import os
import re
import sys
import traceback
from fractions import Fraction

from harness import common

sys.path.insert(0, os.path.join(common.VERIF, "translator"))


def regen(ctx, kernel):
    """Regenerate coq/gen/Gen_<kernel>.v from /repo and build it. Returns (tracer, defs)."""
    try:
        mod = importlib.import_module("gen_" + kernel)
        out = os.path.join(common.COQ, "gen", "Gen_%s.v" % kernel)
        with common.time_limit(300):
            tr, defs = mod.generate(out, common.REPO)
    except Exception as e:
        ctx.proof_failures.append({"theorem": "(translator: Gen_%s.v could not be regenerated from source)" % kernel,
                                   "error": "%s: %s" % (type(e).__name__, e), "trace": traceback.format_exc()[-800:]})
        return None, None
    ok, log, dt = common.coq_make(["gen/Gen_%s.vo" % kernel])
    if not ok:
        ctx.proof_failures.append({"theorem": "(generated model Gen_%s.v does not compile)" % kernel, **common.first_error(log)})
        return None, None
    ctx.extra.setdefault("generated", {})[kernel] = {"definitions": len(defs), "dag_nodes": len(tr.g.nodes)}
    ctx.trusted.append("translator /verif/translator (symtrace.py, emit.py, gen_%s.py): model Gen_%s.v regenerated from %s/pyorbital on this run" % (kernel, kernel, common.REPO))
    return tr, defs


def regen_ast(ctx, kernel, what, optional=False):
    """Regenerate coq/gen/Gen_<kernel>.v with an AST translator (translator/gen_<kernel>.py: generate(out, repo) ->
    (info, names)) and build it.  A translator that refuses the source, or a generated file that does not compile,
    is a broken proof obligation.  Returns (info, names) or (None, None)."""
    try:
        mod = importlib.import_module("gen_" + kernel)
        out = os.path.join(common.COQ, "gen", "Gen_%s.v" % kernel)
        with common.time_limit(120):
            info, names = mod.generate(out, common.REPO)
    except Exception as e:
        if optional and type(e).__name__ == "Unsupported":
            # the translator refuses a construct outside its subset: no model of the current source exists, so no
            # theorem about one is claimed; the stale file is removed and the caller falls back on its other tie
            for ext in (".v", ".vo", ".vok", ".vos", ".glob"):
                try:
                    os.remove(out[:-2] + ext)
                except OSError:
                    pass
            ctx.extra["source_tie_" + kernel] = "unavailable on this run: translator refused the source (%s)" % e
            ctx.assumptions.append("SOURCE TIE UNAVAILABLE: translator/gen_%s.py refused the current source (%s); the theorems of the "
                                   "*_source.v file are NOT claimed on this run, the tie is the correspondence run of the hand model only" % (kernel, e))
            return None, None
        ctx.proof_failures.append({"theorem": "(translator: Gen_%s.v could not be regenerated from source)" % kernel,
                                   "error": "%s: %s" % (type(e).__name__, e), "trace": traceback.format_exc()[-800:]})
        return None, None
    ok, log, dt = common.coq_make(["gen/Gen_%s.vo" % kernel])
    if not ok:
        ctx.proof_failures.append({"theorem": "(generated model Gen_%s.v does not compile)" % kernel, **common.first_error(log)})
        return None, None
    ctx.extra.setdefault("generated", {})[kernel] = {"definitions": names}
    ctx.trusted.append("translator /verif/translator/gen_%s.py (fail-closed Python-AST to Gallina): Gen_%s.v regenerated from %s/pyorbital on this run; %s"
                       % (kernel, kernel, common.REPO, what))
    return info, names


def selfcheck(ctx, tr, defs, names, gen_env, impl, n, rtol=1e-9, atol=1e-9, label="translator DAG (binary64) vs interpreter"):
    import symtrace as st
    dd = {d[0]: d for d in defs}
    for _ in range(n):
        env = gen_env(ctx.rng)
        for name in names:
            _, ins, node = dd[name]
            try:
                (v,), _c = st.evalf(tr.g, env, [node])
            except (ValueError, ZeroDivisionError, OverflowError) as e:
                v = float("nan")
            try:
                with common.time_limit(20):
                    w = impl(name, env)
            except Exception as e:
                w = "raise:" + type(e).__name__
            ctx.case(("self", name, tuple(sorted(env.items()))), {"kernel": name, "env": env, "dag": v, "impl": w})
            if isinstance(w, str) or not (abs(v - w) <= atol + rtol * abs(w) or (math.isnan(v) and math.isnan(w))):
                ctx.corr_fail(label, {"definition": name, "env": env, "model": v, "impl": w})


def q(x):
    f = Fraction(x)
    if f.denominator == 1:
        return "(%d)" % f.numerator
    return "((%d) / %d)" % (f.numerator, f.denominator)


def coq_point_check(ctx, genfile, defs, names, gen_env, impl, n, tol, unfold, prec=100, imports=""):
    """Evaluate the PRINTED Coq definitions at exact binary inputs with Coq-Interval and
    require the interpreter's binary64 result to lie within tol."""
    dd = {d[0]: d for d in defs}
    goals = []
    meta = []
    for _ in range(n):
        env = gen_env(ctx.rng)
        for name in names:
            _, ins, node = dd[name]
            try:
                with common.time_limit(20):
                    w = impl(name, env)
            except Exception as e:
                ctx.corr_fail("printed Coq term vs interpreter", {"definition": name, "env": env, "impl": "raise:" + type(e).__name__})
                continue
            if not (isinstance(w, (int, float)) and math.isfinite(w)):
                # the implementation returned NaN / inf where the real-number model has a value: a disagreement, not
                # a machinery failure (the oracle that follows will look for the property-level failing input)
                ctx.corr_fail("printed Coq term vs interpreter", {"definition": name, "env": env, "impl": repr(w)})
                continue
            args = " ".join(q(env[i]) for i in ins)
            goals.append("Goal Rabs (%s %s - %s) <= %s.\nProof. unfold %s; cbv zeta. interval with (i_prec %d). Qed.\n" % (
                name, args, q(w), tol, ", ".join(unfold.split()), prec))
            meta.append((name, env, w))
    text = ("From Coq Require Import Reals.\nFrom Flocq Require Import Core.\nFrom Interval Require Import Tactic.\n"
            "From PyOrb.lib Require Import PyReal.\nFrom PyOrb.gen Require Import %s.\n%s\nOpen Scope R_scope.\n" % (genfile, imports))
    text += "\n".join(goals)
    ok, out = common.coq_eval(ctx.pid.lower() + "_pt", text)
    for name, env, w in meta:
        ctx.case(("pt", name, tuple(sorted(env.items()))), {"coq_interval_point": name, "env": env, "impl": w})
    if not ok:
        err = common.first_error(out)
        k = None
        m = re.search(r"line (\d+)", str(err.get("line")))
        ctx.corr_fail("printed Coq term (Interval evaluation) vs interpreter", {"error": err, "cases": [(a, b, c) for a, b, c in meta][:3]})
    ctx.checker_cmds.append("coqc cases_%s_pt.v (%d interval evaluations of generated definitions)" % (ctx.pid.lower(), len(goals)))
    return ok


def parse_z_pairs(out):
    """parse '= [(a, b); (c, d)]' printed by Eval vm_compute"""
    body = out[out.index("="):] if "=" in out else ""
    body = body.split(": list")[0]
    return [(int(a), int(b)) for a, b in re.findall(r"\(\s*(-?\d+)\s*,\s*(-?\d+)\s*\)", body.replace("%Z", ""))]


def parse_list(out):
    body = out[out.index("=") + 1:] if "=" in out else ""
    body = re.split(r"\n\s*:\s", body)[0]
    return body
