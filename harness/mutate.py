"""Mutation sweep: how well do the checks detect small semantic changes that the test-suite lets through?

usage: mutate.py <out.jsonl> <n_workers> <max_mutants> [seed] [file-filter]

Mutants are single-token edits of /repo/pyorbital/*.py located with `ast` (comparison flips, arithmetic swaps,
numeric-constant nudges, slice-bound shifts, all<->any, and<->or, sin<->cos, dropped abs/clip, `not` removal).
Each runs in a private scratch copy of /repo (never in /repo): byte-compile, the pinned test-suite (the 12
xarray tests fail on the unchanged tree and are ignored), then -- only for mutants the tests let through -- the
checks that own the mutated function, with VERIF_REPO pointing at the copy.  One JSON line per mutant.
Nothing here is part of a registered check; it measures them."""
import ast
import json
import os
import random
import re
import shutil
import subprocess
import sys
import time
from concurrent.futures import ThreadPoolExecutor

REPO = "/repo"
FILES = ["pyorbital/orbital.py", "pyorbital/astronomy.py", "pyorbital/tlefile.py", "pyorbital/geoloc.py",
         "pyorbital/geoloc_instrument_definitions.py"]

# function / class name (innermost first) -> checks that own it
OWNERS = [
    (r"get_lonlatalt|utc2local", ["C04", "C07"]),
    (r"get_observer_look", ["C05"]),
    (r"get_last_an_time|get_orbit_number|get_equatorial_crossing_time|_refine_an_time|_nprime", ["C11", "C18"]),
    (r"get_next_passes|_get_root|_get_max_parab|_elevation|_get_tolerance|get_max_elevation|_find_|_get_time_at_horizon|_successive_parabolic|find_aos|find_aol", ["C03"]),
    (r"_check_orbital_elements|_set_mode", ["C13", "C01"]),
    (r"get_position|kep2xyz|OrbitElements|_SGDP4|_Keplerians|_InitialisationParameters|propagate|_calculate|_update|_iterate|_get_timedelta|Orbital\b", ["C01", "C13", "C20", "C08"]),
    (r"jdays|gmst|_days|_lmst", ["C12", "C06", "C04"]),
    (r"sun_|_local_hour|get_alt_az|cos_zen|sun_zenith|sun_earth|sun_ecliptic|sun_ra_dec|_float_to_sibling", ["C06", "C08"]),
    (r"observer_position", ["C04", "C05"]),
    (r"_checksum|_parse_tle|_read_tle|Tle\b", ["C02", "C09"]),
    (r"_decode_lines|_get_tles_from_url|_get_tles_from_uris|_get_first_tle|read\b|_merge_tle|_decode\b|read_tle_from_mmam|read_tles_from_mmam|_group_iterable", ["C10"]),
    (r"_get_uris_and_open_func|_get_local_tle_path|_dummy_open|_get_local_uris|_get_config_path", ["C16", "C10"]),
    (r"Downloader|fetch_plain_tle|_parse_tles_for_downloader|collect_filenames", ["C17"]),
    (r"SQLiteTLE|update_db|write_tle_txt|table_exists", ["C15"]),
    (r"geoloc_instrument|avhrr|viirs|amsua|mhs|hirs4|atms|mwhs2|ascat|olci|slstr|_shape", ["C19"]),
    (r"ScanGeometry|vectors|times|compute_pixels|qrotate|Quaternion|subpoint|mnorm|get_lonlatalt", ["C07", "C14"]),
]


def sh(cmd, cwd=None, env=None, timeout=3000):
    try:
        p = subprocess.run(cmd, shell=True, cwd=cwd, env=env, stdout=subprocess.PIPE, stderr=subprocess.STDOUT, text=True, timeout=timeout)
        return p.returncode, p.stdout
    except subprocess.TimeoutExpired:
        return 124, "timeout"


class Sites(ast.NodeVisitor):
    def __init__(self, src, rel):
        self.src, self.rel = src, rel
        self.lines = src.splitlines(keepends=True)
        self.stack = []
        self.out = []

    def seg(self, node):
        return ast.get_source_segment(self.src, node)

    def add(self, node, new, kind):
        old = self.seg(node)
        if old is None or new == old:
            return
        self.out.append({"file": self.rel, "line": node.lineno, "col": node.col_offset, "end_line": node.end_lineno,
                         "end_col": node.end_col_offset, "old": old, "new": new, "kind": kind,
                         "scope": ".".join(self.stack[::-1])})

    def visit_FunctionDef(self, node):
        self.stack.insert(0, node.name)
        self.generic_visit(node)
        self.stack.pop(0)
    visit_ClassDef = visit_FunctionDef

    def visit_Compare(self, node):
        if len(node.ops) == 1:
            l, r = self.seg(node.left), self.seg(node.comparators[0])
            flips = {ast.Lt: ["<=", ">"], ast.LtE: ["<"], ast.Gt: [">=", "<"], ast.GtE: [">"], ast.Eq: ["!="], ast.NotEq: ["=="]}
            for op in flips.get(type(node.ops[0]), []):
                if l and r:
                    self.add(node, "%s %s %s" % (l, op, r), "cmp")
        self.generic_visit(node)

    def visit_BinOp(self, node):
        l, r = self.seg(node.left), self.seg(node.right)
        swaps = {ast.Add: "-", ast.Sub: "+", ast.Mult: "/", ast.Div: "*"}
        strs = [x for x in (node.left, node.right) if isinstance(x, ast.Constant) and isinstance(x.value, str)]
        if type(node.op) in swaps and l and r and not strs:
            self.add(node, "%s %s %s" % (l, swaps[type(node.op)], r), "arith")
        self.generic_visit(node)

    def visit_Constant(self, node):
        v = node.value
        if isinstance(v, bool) or v is None:
            return
        if isinstance(v, float) and v not in (0.0,):
            self.add(node, repr(v * (1 + 1e-3)), "const")
            if v in (1.0, 2.0, 0.5, 1.5):
                self.add(node, repr(v + 0.5), "const")
        elif isinstance(v, int) and not isinstance(v, bool) and abs(v) < 10**6:
            self.add(node, repr(v + 1), "const")
            if v > 0:
                self.add(node, repr(v - 1), "const")

    def visit_BoolOp(self, node):
        segs = [self.seg(v) for v in node.values]
        if all(segs) and len(segs) == 2:
            self.add(node, (" or " if isinstance(node.op, ast.And) else " and ").join(segs), "bool")
        self.generic_visit(node)

    def visit_UnaryOp(self, node):
        if isinstance(node.op, ast.Not):
            s = self.seg(node.operand)
            if s:
                self.add(node, "(%s)" % s, "not")
        elif isinstance(node.op, ast.USub) and not isinstance(node.operand, ast.Constant):
            s = self.seg(node.operand)
            if s:
                self.add(node, "(%s)" % s, "neg")
        self.generic_visit(node)

    def visit_Call(self, node):
        f = self.seg(node.func)
        if f:
            swaps = {"np.all": "np.any", "np.any": "np.all", "np.sin": "np.cos", "np.cos": "np.sin", "np.floor": "np.ceil",
                     "np.minimum": "np.maximum", "np.maximum": "np.minimum", "min": "max", "max": "min",
                     "np.arcsin": "np.arccos", "np.deg2rad": "np.rad2deg", "np.rad2deg": "np.deg2rad"}
            if f in swaps:
                self.add(node.func, swaps[f], "call")
            if f in ("abs", "np.abs", "np.fabs") and len(node.args) == 1:
                self.add(node, "(%s)" % self.seg(node.args[0]), "dropabs")
            if f == "np.clip" and len(node.args) == 3:
                self.add(node, "(%s)" % self.seg(node.args[0]), "dropclip")
        self.generic_visit(node)


def sites():
    out = []
    for rel in FILES:
        src = open(os.path.join(REPO, rel)).read()
        s = Sites(src, rel)
        s.visit(ast.parse(src))
        out += s.out
    return out


def owners(m):
    for pat, ids in OWNERS:
        if re.search(pat, m["scope"]):
            return ids
    return {"pyorbital/orbital.py": ["C01", "C13"], "pyorbital/astronomy.py": ["C12", "C06"], "pyorbital/tlefile.py": ["C02", "C10"],
            "pyorbital/geoloc.py": ["C07", "C14"], "pyorbital/geoloc_instrument_definitions.py": ["C19"]}[m["file"]]


def apply(m, root):
    path = os.path.join(root, m["file"])
    lines = open(path).read().splitlines(keepends=True)
    if m["line"] != m["end_line"]:
        first = lines[m["line"] - 1][:m["col"]]
        last = lines[m["end_line"] - 1][m["end_col"]:]
        lines[m["line"] - 1:m["end_line"]] = [first + m["new"] + last]
    else:
        ln = lines[m["line"] - 1]
        # col offsets are in UTF-8 bytes
        b = ln.encode("utf-8")
        lines[m["line"] - 1] = (b[:m["col"]] + m["new"].encode("utf-8") + b[m["end_col"]:]).decode("utf-8")
    open(path, "w").write("".join(lines))


def worker(wid, jobs, outpath):
    scratch = "/var/tmp/verif-mut-%s-%d-repo" % (os.environ.get("MUT_TAG", "a"), wid)
    shutil.rmtree(scratch, ignore_errors=True)
    sh("rsync -a %s/ %s/" % (REPO, scratch))
    env = dict(os.environ, PYTHONPATH=scratch, PYTHONHASHSEED="0", PYTHONDONTWRITEBYTECODE="1")
    for m in jobs:
        t0 = time.time()
        sh("git checkout -q -- .", cwd=scratch)
        rec = dict(m)
        try:
            apply(m, scratch)
        except Exception as e:
            rec["status"] = "apply-error:%s" % e
            continue
        rc, out = sh("/venv/bin/python -m py_compile %s" % m["file"], cwd=scratch, env=env)
        if rc != 0:
            rec["status"] = "syntax"
        else:
            rc2, out2 = sh("/venv/bin/python -m pytest -q -p no:cacheprovider --timeout=300 2>&1 | tail -1", cwd=scratch, env=env, timeout=1200)
            rec["suite"] = out2.strip()[-60:]
            if "84 passed" not in out2:
                rec["status"] = "killed-by-tests"
            else:
                rec["status"] = "survived-tests"
                rec["checks"] = {}
                for c in owners(m):
                    e2 = dict(os.environ, VERIF_REPO=scratch)
                    rcc, oc = sh("./check %s" % c, cwd="/verif", env=e2, timeout=2400)
                    line = [l for l in oc.splitlines() if l.startswith(("VIOLATION", "OK "))]
                    rec["checks"][c] = (line[-1][:140] if line else "rc=%d %s" % (rcc, oc[-200:]))
                vio = [v for v in rec["checks"].values() if v.startswith("VIOLATION")]
                rec["caught"] = bool(vio)
                rec["caught_with_input"] = any("no-failing-input-found" not in v for v in vio)
        rec["secs"] = round(time.time() - t0, 1)
        with open(outpath, "a") as f:
            f.write(json.dumps(rec) + "\n")
    import hashlib
    h = hashlib.md5(os.path.realpath(scratch).encode()).hexdigest()[:8]
    sh("rm -rf /var/tmp/verif-coq-%s /var/tmp/verif-coq-%s-evidence /var/tmp/verif-coq-%s-replays" % (h, h, h))
    shutil.rmtree(scratch, ignore_errors=True)


def main():
    outpath, nw, maxm = sys.argv[1], int(sys.argv[2]), int(sys.argv[3])
    seed = int(sys.argv[4]) if len(sys.argv) > 4 else 0
    filt = sys.argv[5] if len(sys.argv) > 5 else ""
    ms = [m for m in sites() if re.search(filt, m["file"] + ":" + m["scope"])]
    # skip test-irrelevant scopes: module-level tables, logging, main()
    ms = [m for m in ms if m["scope"] and not re.search(r"^main$|__str__|__repr__", m["scope"])]
    random.Random(seed).shuffle(ms)
    ms = ms[:maxm]
    print("%d mutants" % len(ms), flush=True)
    chunks = [ms[i::nw] for i in range(nw)]
    with ThreadPoolExecutor(nw) as ex:
        list(ex.map(lambda a: worker(a[0], a[1], outpath), enumerate(chunks)))


if __name__ == "__main__":
    main()
