"""Commit a fix to /repo built from HEAD's blob (never from the working tree, which a mutation
trial may have touched), then bring the working-tree file up to date if it was unmodified."""
import subprocess
import sys


def git(*a, inp=None):
    return subprocess.run(["git", "-C", "/repo"] + list(a), input=inp, stdout=subprocess.PIPE, check=True).stdout


def commit(msg, path, edits):
    head = git("show", "HEAD:" + path).decode()
    new = head
    for a, b in edits:
        assert new.count(a) == 1, (a[:60], new.count(a))
        new = new.replace(a, b)
    blob = git("hash-object", "-w", "--stdin", inp=new.encode()).decode().strip()
    mode = git("ls-files", "-s", path).decode().split()[0]
    wt = open("/repo/" + path).read()
    git("update-index", "--cacheinfo", "%s,%s,%s" % (mode, blob, path))
    git("commit", "-q", "-m", msg)
    if wt == head:
        open("/repo/" + path, "w").write(new)
        print("working tree updated")
    else:
        print("working tree had foreign modifications: left as is (HEAD has the fix)")
    print(git("log", "--oneline", "-1").decode())
