"""Shared machinery for every property check: Coq build, evidence, verdict protocol."""
import fcntl
import glob
import hashlib
import json
import os
import random
import re
import signal
import subprocess
import sys
import time

VERIF = os.path.dirname(os.path.dirname(os.path.abspath(__file__)))
REPO = os.environ.get("VERIF_REPO", "/repo")
COQ = os.path.join(VERIF, "coq")
EVID = os.path.join(VERIF, "evidence")
REPLAYS = os.path.join(VERIF, "replays")
if os.path.realpath(REPO) != "/repo":
    # mutation trials against a private copy of the repository get a private Coq build directory,
    # so that regenerated models never disturb the shared one
    COQ = "/var/tmp/verif-coq-" + hashlib.md5(os.path.realpath(REPO).encode()).hexdigest()[:8]
    for _try in range(3):    # files of the shared directory may be rewritten by a concurrent build (rsync exit 23/24): retry
        if subprocess.run(["rsync", "-a", "--exclude", ".lock", "--exclude", "cases_*", os.path.join(VERIF, "coq") + "/", COQ + "/"]).returncode == 0:
            break
    EVID = COQ + "-evidence"
    REPLAYS = COQ + "-replays"
PY = "/venv/bin/python"
COQ_DIRS = ["lib", "spec", "model", "gen", "proofs", "props"]
# coq/gen holds only regenerated (git-ignored) files: it does not exist in a tree restored from the commit alone
os.makedirs(os.path.join(COQ, "gen"), exist_ok=True)
for _d in (EVID, REPLAYS):
    os.makedirs(_d, exist_ok=True)
QFLAGS = []
for _d in COQ_DIRS:
    QFLAGS += ["-Q", _d, "PyOrb." + _d]

BASE_TRUSTED = [
    "Coq 8.16.1 kernel; vm_compute used, native_compute not used",
    "no Axiom/Parameter/Admitted in /verif/coq (grep run by setup_cmd and by every check)",
]


class Timeout(Exception):
    pass


class time_limit:
    """signal.alarm guard around calls into the implementation (a mutant may hang)"""

    def __init__(self, seconds):
        self.seconds = seconds

    def __enter__(self):
        def h(signum, frame):
            raise Timeout("no result after %ds" % self.seconds)
        self.old = signal.signal(signal.SIGALRM, h)
        signal.alarm(self.seconds)

    def __exit__(self, *a):
        signal.alarm(0)
        signal.signal(signal.SIGALRM, self.old)
        return False


def sh(cmd, timeout=None, cwd=None, env=None):
    t0 = time.time()
    try:
        p = subprocess.run(cmd, cwd=cwd, env=env, stdout=subprocess.PIPE, stderr=subprocess.STDOUT,
                           timeout=timeout, text=True, errors="replace")
        return p.returncode, p.stdout, time.time() - t0
    except subprocess.TimeoutExpired as e:
        out = e.stdout if isinstance(e.stdout, str) else (e.stdout or b"").decode("utf-8", "replace")
        return 124, out + "\n[timeout after %ss]" % timeout, time.time() - t0


class CoqLock:
    def __enter__(self):
        self.f = open(os.path.join(COQ, ".lock"), "w")
        fcntl.flock(self.f, fcntl.LOCK_EX)

    def __exit__(self, *a):
        fcntl.flock(self.f, fcntl.LOCK_UN)
        self.f.close()


def coq_files():
    fs = []
    for d in COQ_DIRS:
        fs += sorted(glob.glob(os.path.join(COQ, d, "*.v")))
    return [os.path.relpath(f, COQ) for f in fs if not os.path.basename(f).startswith("cases_")]


def write_if_changed(path, text):
    old = None
    if os.path.exists(path):
        with open(path) as f:
            old = f.read()
    if old != text:
        os.makedirs(os.path.dirname(path), exist_ok=True)
        with open(path, "w") as f:
            f.write(text)
        return True
    return False


def coq_makefile():
    files = coq_files()
    proj = "\n".join("-Q %s PyOrb.%s" % (d, d) for d in COQ_DIRS) + "\n-arg -w -arg -all\n" + "\n".join(files) + "\n"
    changed = write_if_changed(os.path.join(COQ, "_CoqProject"), proj)
    if changed or not os.path.exists(os.path.join(COQ, "Makefile")):
        rc, out, _ = sh(["coq_makefile", "-f", "_CoqProject", "-o", "Makefile"], cwd=COQ, timeout=120)
        if rc != 0:
            raise RuntimeError("coq_makefile failed: " + out)


def coq_make(targets, timeout=900, jobs=8):
    """Full .vo build of targets (relative to coq/). Returns (ok, log, seconds)."""
    with CoqLock():
        coq_makefile()
        rc, out, dt = sh(["make", "-f", "Makefile", "-j%d" % jobs] + list(targets), cwd=COQ, timeout=timeout)
    return rc == 0, out, dt


def coqc_file(rel, timeout=400):
    """Compile one file directly (used for props files: re-checks the statements and
    captures Print Assumptions).  Returns (ok, log, seconds)."""
    with CoqLock():
        rc, out, dt = sh(["coqc", "-w", "-all"] + QFLAGS + [rel], cwd=COQ, timeout=timeout)
    return rc == 0, out, dt


def coq_eval(name, text, timeout=600):
    """Write a scratch cases file, compile it, return (ok, output)."""
    name = "%s_p%d" % (name, os.getpid())      # concurrent runs of one check must not share a scratch file
    rel = os.path.join("gen", "cases_%s.v" % name)
    path = os.path.join(COQ, rel)
    with open(path, "w") as f:
        f.write(text)
    try:
        rc, out, dt = sh(["coqc", "-w", "-all"] + QFLAGS + [rel], cwd=COQ, timeout=timeout)
    finally:
        for ext in (".v", ".vo", ".vok", ".vos", ".glob"):
            try:
                os.remove(path[:-2] + ext)
            except OSError:
                pass
        try:
            os.remove(os.path.join(COQ, "gen", ".cases_%s.aux" % name))
        except OSError:
            pass
    return rc == 0, out


THEOREM_RE = re.compile(r"^\s*(Theorem|Example)\s+([A-Za-z0-9_']+)", re.M)


def theorems_in(rel):
    with open(os.path.join(COQ, rel)) as f:
        return [(k, n) for k, n in THEOREM_RE.findall(f.read())]


def parse_assumptions(log):
    """Split a props-file log into per-Print-Assumptions axiom name lists."""
    blocks = []
    curb = None
    for line in log.splitlines():
        if line.startswith("Closed under the global context"):
            blocks.append([])
            curb = None
        elif line.startswith("Axioms:"):
            curb = []
            blocks.append(curb)
        elif curb is not None:
            m = re.match(r"^([A-Za-z_][A-Za-z0-9_.']*)\s*$|^([A-Za-z_][A-Za-z0-9_.']*)\s+:", line)
            if m:
                curb.append(m.group(1) or m.group(2))
    return blocks


FORBIDDEN_RE = re.compile(
    r"\b(Admitted|admit|Axiom|Axioms|Parameter|Parameters|Conjecture|Hypothesis|Variable|Variables|Hypotheses)\b"
    r"|Unset\s+Guard|bypass_check|Admit\s+Obligations|type-in-type|impredicative-set|Unset\s+Universe|Unset\s+Positivity")


def forbidden_scan():
    """No declared axioms, no admits, no kernel switches anywhere in the development.
    Variable/Hypothesis are allowed only inside a Section (checked textually)."""
    bad = []
    for rel in coq_files():
        with open(os.path.join(COQ, rel)) as f:
            txt = f.read()
        txt = re.sub(r"\(\*.*?\*\)", "", txt, flags=re.S)
        depth = 0
        for ln, line in enumerate(txt.splitlines(), 1):
            if re.match(r"\s*Section\s", line):
                depth += 1
            if re.match(r"\s*End\s", line) and depth > 0:
                depth -= 1
            for m in FORBIDDEN_RE.finditer(line):
                w = m.group(0)
                if w in ("Variable", "Variables", "Hypothesis", "Hypotheses") and depth > 0:
                    continue
                bad.append("%s:%d: %s" % (rel, ln, w))
    return bad


def first_error(log):
    m = re.search(r'File "([^"]+)", line (\d+), characters[^\n]*\n(Error:.*?)(?:\n\n|\nmake|\Z)', log, re.S)
    if m:
        return {"file": m.group(1), "line": int(m.group(2)), "error": m.group(3)[:600]}
    if "[timeout" in log:
        return {"file": "?", "line": 0, "error": "timeout"}
    return {"file": "?", "line": 0, "error": log[-600:]}


# --------------------------------------------------------------------------
# known findings
# --------------------------------------------------------------------------
def known_findings(pid):
    path = os.path.join(VERIF, "known_findings.json")
    if not os.path.exists(path):
        return []
    with open(path) as f:
        data = json.load(f)
    return [k for k in data.get("known", []) if k.get("property") == pid]


# --------------------------------------------------------------------------
# context handed to a property module
# --------------------------------------------------------------------------
class Ctx:
    def __init__(self, pid, tier, seed):
        self.pid = pid
        self.tier = tier
        self.seed = seed
        self.rng = random.Random((seed * 1000003) ^ int(hashlib.sha256(pid.encode()).hexdigest()[:8], 16))
        self.t0 = time.time()
        self.obligations = 0
        self.discharged = 0
        self.proof_failures = []      # dicts naming theorem/file that no longer checks
        self.corr_failures = []       # dicts: correspondence name + disagreeing input
        self.violations = []          # dicts: concrete failing input of the property on the implementation
        self.known_hits = []
        self.evaluations = 0
        self.distinct = set()
        self.samples = []
        self.trusted = list(BASE_TRUSTED)
        self.assumptions = []
        self.axioms = {}
        self.notes = {}
        self.checker_cmds = []
        self.rule = ""
        self.extra = {}

    @property
    def quick(self):
        return self.tier == "quick"

    def n(self, quick, thorough):
        return quick if self.quick else thorough

    # ---- proof side
    def build_props(self, props_rel, deps=()):
        """make the proof files, then re-check the props file and collect assumptions."""
        bad = forbidden_scan()
        if bad:
            self.proof_failures.append({"theorem": "<development hygiene>", "error": "forbidden construct: " + "; ".join(bad[:5])})
        thms = [n for k, n in theorems_in(props_rel) if k == "Theorem"]
        self.obligations += len(thms)
        target = props_rel[:-2] + ".vo"
        ok, log, dt = coq_make([target] + [d[:-2] + ".vo" for d in deps])
        self.checker_cmds.append("make -f Makefile %s (coqc 8.16.1, full .vo)" % target)
        self.notes["make_s"] = round(dt, 1)
        if not ok:
            err = first_error(log)
            self.proof_failures.append({"theorem": "(build of %s)" % props_rel, **err})
            return False
        ok, log, dt = coqc_file(props_rel)
        self.checker_cmds.append("coqc %s (re-check statements, Print Assumptions)" % props_rel)
        if not ok:
            err = first_error(log)
            self.proof_failures.append({"theorem": "(statements in %s)" % props_rel, **err})
            return False
        blocks = parse_assumptions(log)
        axs = set()
        for b in blocks:
            axs.update(b)
        self.axioms[props_rel] = sorted(axs)
        if len(blocks) < len(thms):
            self.proof_failures.append({"theorem": "(Print Assumptions missing in %s)" % props_rel,
                                        "error": "%d theorems, %d Print Assumptions" % (len(thms), len(blocks))})
            return False
        self.discharged += len(thms)
        self.trusted.append("axioms reported by Print Assumptions under the theorems of %s: %s" % (
            props_rel, ", ".join(sorted(axs)) if axs else "none (closed under the global context)"))
        return True

    # ---- correspondence / oracle bookkeeping
    def case(self, key, sample=None):
        self.evaluations += 1
        self.distinct.add(key)
        if sample is not None and len(self.samples) < 6:
            self.samples.append(sample)

    def corr_fail(self, name, detail):
        if len(self.corr_failures) < 20:
            self.corr_failures.append({"correspondence": name, **detail})

    def violation(self, what, replay):
        """a concrete input on which the property fails on the implementation"""
        for k in known_findings(self.pid):
            if k["signature"] == replay.get("signature"):
                if k not in self.known_hits:
                    self.known_hits.append(k)
                return
        if len(self.violations) < 20:
            self.violations.append({"what": what, **replay})


def write_evidence(ctx, level="proof"):
    os.makedirs(EVID, exist_ok=True)
    cov = {
        "obligations": ctx.obligations,
        "discharged": ctx.discharged,
        "checker_cmd": "; ".join(ctx.checker_cmds) or "none",
        "trusted_base": ctx.trusted,
        "evaluations": ctx.evaluations,
        "distinct_nontrivial": len(ctx.distinct),
        "rule": ctx.rule,
        "samples": ctx.samples if ctx.samples else ["(no correspondence cases ran)"],
        "axioms_by_file": ctx.axioms,
        "proof_failures": ctx.proof_failures,
        "correspondence_failures": ctx.corr_failures,
        "known_findings_reproduced": [k["signature"] for k in ctx.known_hits],
    }
    cov.update(ctx.extra)
    ev = {
        "property_id": ctx.pid,
        "tier": ctx.tier,
        "seed": ctx.seed,
        "level": level,
        "coverage": cov,
        "assumptions": ctx.assumptions,
        "wall_s": round(time.time() - ctx.t0, 2),
        "violations": len(ctx.violations) + (1 if (ctx.proof_failures or ctx.corr_failures) and not ctx.violations else 0),
    }
    with open(os.path.join(EVID, ctx.pid + ".json"), "w") as f:
        json.dump(ev, f, indent=1, default=str)


def verdict(ctx):
    """Print KNOWN-FINDING / VIOLATION lines, write replay, return exit code."""
    for k in ctx.known_hits:
        print("KNOWN-FINDING: property=%s %s" % (ctx.pid, k["what"]))
    if not (ctx.violations or ctx.proof_failures or ctx.corr_failures):
        print("OK property=%s tier=%s obligations=%d discharged=%d evaluations=%d wall=%.1fs" % (
            ctx.pid, ctx.tier, ctx.obligations, ctx.discharged, ctx.evaluations, time.time() - ctx.t0))
        try:
            os.remove(os.path.join(REPLAYS, "%s-%s-%d.json" % (ctx.pid, ctx.tier, ctx.seed)))
        except OSError:
            pass
        return 0
    os.makedirs(REPLAYS, exist_ok=True)
    path = os.path.join(REPLAYS, "%s-%s-%d.json" % (ctx.pid, ctx.tier, ctx.seed))
    replay = {
        "property": ctx.pid, "seed": ctx.seed, "tier": ctx.tier,
        "failing_inputs": ctx.violations,
        "broken_proof_obligations": ctx.proof_failures,
        "broken_correspondence": ctx.corr_failures,
        "how_to_replay": "./check %s --replay %s" % (ctx.pid, path),
    }
    with open(path, "w") as f:
        json.dump(replay, f, indent=1, default=str)
    if ctx.violations:
        print("VIOLATION property=%s replay=%s" % (ctx.pid, path))
    else:
        print("VIOLATION property=%s replay=%s no-failing-input-found" % (ctx.pid, path))
    return 1
