"""Confirm a seeded change and run the property's check against it.
usage: seedtest.py <ID> <worktree-with-patch.diff-and-demo>   (writes /verif/seeded/<ID>/)"""
import json
import os
import shutil
import subprocess
import sys
import tempfile


def sh(cmd, cwd=None, env=None, timeout=3000):
    p = subprocess.run(cmd, shell=True, cwd=cwd, env=env, stdout=subprocess.PIPE, stderr=subprocess.STDOUT, text=True, timeout=timeout)
    return p.returncode, p.stdout


def main():
    pid, wt = sys.argv[1], sys.argv[2]
    checks = sys.argv[3:] or [pid]
    if not os.path.exists(os.path.join(wt, "patch.diff")):      # worktree gone: re-evaluate the kept seed
        wt = tempfile.mkdtemp(prefix="verif-seedsrc-", dir="/var/tmp")
        for f in ("patch.diff", "demo_%s.py" % pid):
            shutil.copy(os.path.join("/verif/seeded", pid, f), wt)
    patch = os.path.join(wt, "patch.diff")
    demo = os.path.join(wt, "demo_%s.py" % pid)
    scratch = "/var/tmp/verif-seed-%s-repo" % pid
    shutil.rmtree(scratch, ignore_errors=True)
    sh("rsync -a /repo/ %s/" % scratch)
    out = {"property": pid, "ran": []}
    env = dict(os.environ, PYTHONPATH=scratch)
    shutil.copy(demo, os.path.join(scratch, os.path.basename(demo)))
    demo_run = os.path.join(scratch, os.path.basename(demo))
    # demo on the unchanged copy
    rc0, o0 = sh("/venv/bin/python -W ignore %s" % demo_run, cwd=scratch, env=env, timeout=900)
    out["demo_without_change"] = {"exit": rc0, "tail": o0[-400:]}
    rc, o = sh("git apply --whitespace=nowarn %s" % patch, cwd=scratch)
    out["patch_applies"] = (rc == 0)
    if rc != 0:
        out["apply_error"] = o[-400:]
    rc1, o1 = sh("/venv/bin/python -W ignore %s" % demo_run, cwd=scratch, env=env, timeout=900)
    if os.path.exists(demo_run):
        os.remove(demo_run)
    out["demo_with_change"] = {"exit": rc1, "tail": o1[-600:]}
    rct, ot = sh("/venv/bin/python -m pytest -q -p no:cacheprovider --timeout=900 2>&1 | tail -1", cwd=scratch)
    out["suite_with_change"] = ot.strip()
    out["confirmed"] = bool(rc == 0 and rc0 == 0 and rc1 != 0 and "84 passed" in ot)
    results = {}
    for c in checks:
        e2 = dict(os.environ, VERIF_REPO=scratch)
        rcc, oc = sh("./check %s" % c, cwd="/verif", env=e2, timeout=3000)
        line = [l for l in oc.splitlines() if l.startswith(("VIOLATION", "OK "))]
        results[c] = {"exit": rcc, "line": line[-1] if line else oc[-300:]}
        rp = [w.split("=", 1)[1] for w in (line[-1].split() if line else []) if w.startswith("replay=")]
        if rp and os.path.exists(rp[0]):
            r = json.load(open(rp[0]))
            results[c]["failing_inputs"] = len(r["failing_inputs"])
            results[c]["first_failing_input"] = r["failing_inputs"][:1]
            results[c]["broken_proof_obligations"] = [{k: str(v)[:300] for k, v in b.items() if k != "trace"} for b in r["broken_proof_obligations"][:2]]
            results[c]["broken_correspondence"] = r["broken_correspondence"][:1]
    out["checks"] = results
    dest = "/verif/seeded/%s" % pid
    os.makedirs(dest, exist_ok=True)
    shutil.copy(patch, os.path.join(dest, "patch.diff"))
    shutil.copy(demo, os.path.join(dest, os.path.basename(demo)))
    meta = {"breaks_property": pid, "confirmed": out["confirmed"], "what_i_ran": [
        "rsync of /repo to %s; demo before patch (exit %d); git apply patch.diff; demo after patch (exit %d); pytest (%s); VERIF_REPO=<copy> ./check %s" % (
            scratch, rc0, rc1, out["suite_with_change"], " ".join(checks))], "results": out}
    json.dump(meta, open(os.path.join(dest, "meta.json"), "w"), indent=1)
    import hashlib
    h = hashlib.md5(os.path.realpath(scratch).encode()).hexdigest()[:8]
    sh("rm -rf /var/tmp/verif-coq-%s /var/tmp/verif-coq-%s-evidence /var/tmp/verif-coq-%s-replays" % (h, h, h))
    shutil.rmtree(scratch, ignore_errors=True)
    print(json.dumps({"confirmed": out["confirmed"], "demo": [rc0, rc1], "suite": out["suite_with_change"],
                      "checks": {c: (v["line"][:110], v.get("failing_inputs")) for c, v in results.items()}}, indent=1))


if __name__ == "__main__":
    main()
