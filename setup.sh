#!/bin/bash
cd "$(dirname "$0")"
exec env PYTHONPATH=/repo:/verif PYTHONHASHSEED=0 PYTHONDONTWRITEBYTECODE=1 /venv/bin/python -W ignore harness/setup.py
