(* C18 — queries are pure: independent of call history, aliasing and concurrent use.  Statements only.
   Model: model/M_Purity.v (hand-written: shared state = immutable parameters + two lazily set cache cells,
   queries = programs of atomic steps, thread pool = any schedule), parameterised by the FACTS that
   translator/purity_facts.py regenerates from /repo/pyorbital on every run (gen/Gen_Purity.v, bundled as
   P_Purity.gen_facts).  The premise [facts_ok gen_facts = true] is discharged HERE by computation: a store
   to any other pre-existing object, a cached value that may depend on an argument, an in-place operation on
   an argument, an unclassifiable construct -> this file no longer compiles.
   Every theorem quantifies over ALL interpretations of the store-free code (time_of, period_of, ...). *)
From Coq Require Import List String Bool.
From PyOrb.model Require Import M_Purity.
From PyOrb.gen Require Import Gen_Purity.
From PyOrb.proofs Require Import P_Purity.
Import ListNotations.
Open Scope list_scope.

(* any sequence of queries of any length on one object: each returns what it returns on a fresh object *)
Theorem C18_history :
  forall (tle arg val res : Type) (time_of : tle -> val) (period_of : tle -> val -> val -> val)
    (time_dep : tle -> arg -> val) (period_dep : tle -> arg -> val -> val -> val)
    (orbit_result : tle -> arg -> val -> val -> res) (pure_result : string -> tle -> arg -> res)
    (driver : string -> tle -> arg -> list res -> arg + res) (raise_attr out_of_fuel : res) (fuel : nat)
    (t : tle) (calls : list (string * arg)),
    fst (run_history val res
          (map (fun qa => query_prog tle arg val res time_of period_of time_dep period_dep orbit_result
                            pure_result driver raise_attr out_of_fuel fuel gen_facts (fst qa) t (snd qa)) calls)
          fresh_state)
    = map (fun qa => fresh_result tle arg val res time_of period_of time_dep period_dep orbit_result
                       pure_result driver raise_attr out_of_fuel fuel gen_facts (fst qa) t (snd qa)) calls.
Proof. intros; apply history; vm_compute; reflexivity. Qed.
Print Assumptions C18_history.

(* any number of concurrent queries under ANY schedule, on an object that has already served any history
   under any schedule: a thread that has finished holds exactly its fresh-object result *)
Theorem C18_interleaving :
  forall (tle arg val res : Type) (time_of : tle -> val) (period_of : tle -> val -> val -> val)
    (time_dep : tle -> arg -> val) (period_dep : tle -> arg -> val -> val -> val)
    (orbit_result : tle -> arg -> val -> val -> res) (pure_result : string -> tle -> arg -> res)
    (driver : string -> tle -> arg -> list res -> arg + res) (raise_attr out_of_fuel : res) (fuel : nat)
    (t : tle) (s0 : state val),
    reachable tle arg val res time_of period_of time_dep period_dep orbit_result pure_result driver
      raise_attr out_of_fuel fuel gen_facts t s0 ->
    forall (calls : list (string * arg)) (sched : list nat) (i : nat) (r : res),
      result_of val res
        (fst (run val res sched
               (map (fun qa => query_prog tle arg val res time_of period_of time_dep period_dep orbit_result
                                 pure_result driver raise_attr out_of_fuel fuel gen_facts (fst qa) t (snd qa)) calls)
               s0)) i = Some r ->
      exists q a, nth_error calls i = Some (q, a) /\
        r = fresh_result tle arg val res time_of period_of time_dep period_dep orbit_result pure_result driver
              raise_attr out_of_fuel fuel gen_facts q t a.
Proof. intros until s0; apply interleaving; vm_compute; reflexivity. Qed.
Print Assumptions C18_interleaving.

(* ... and every pool of queries can be scheduled to completion (the previous theorem is not vacuous) *)
Theorem C18_schedules_complete :
  forall (tle arg val res : Type) (time_of : tle -> val) (period_of : tle -> val -> val -> val)
    (time_dep : tle -> arg -> val) (period_dep : tle -> arg -> val -> val -> val)
    (orbit_result : tle -> arg -> val -> val -> res) (pure_result : string -> tle -> arg -> res)
    (driver : string -> tle -> arg -> list res -> arg + res) (raise_attr out_of_fuel : res) (fuel : nat)
    (t : tle) (calls : list (string * arg)) (s0 : state val),
    exists sched, all_done val res
      (fst (run val res sched
             (map (fun qa => query_prog tle arg val res time_of period_of time_dep period_dep orbit_result
                               pure_result driver raise_attr out_of_fuel fuel gen_facts (fst qa) t (snd qa)) calls)
             s0)) = true.
Proof. intros; apply schedules_complete. Qed.
Print Assumptions C18_schedules_complete.

(* no step of any query under any schedule stores to anything that pre-exists except the two cache cells:
   argument arrays, the Tle object, module-level tables and all other attributes stay untouched *)
Theorem C18_args_untouched :
  forall (tle arg val res : Type) (time_of : tle -> val) (period_of : tle -> val -> val -> val)
    (time_dep : tle -> arg -> val) (period_dep : tle -> arg -> val -> val -> val)
    (orbit_result : tle -> arg -> val -> val -> res) (pure_result : string -> tle -> arg -> res)
    (driver : string -> tle -> arg -> list res -> arg + res) (raise_attr out_of_fuel : res) (fuel : nat)
    (t : tle) (calls : list (string * arg)) (sched : list nat),
    st_touched val
      (snd (run val res sched
             (map (fun qa => query_prog tle arg val res time_of period_of time_dep period_dep orbit_result
                               pure_result driver raise_attr out_of_fuel fuel gen_facts (fst qa) t (snd qa)) calls)
             fresh_state)) = false.
Proof. intros; apply args_untouched; vm_compute; reflexivity. Qed.
Print Assumptions C18_args_untouched.

(* the fresh-object result of the orbit-number query is a function of the TLE and the arguments alone *)
Theorem C18_orbit_number_formula :
  forall (tle arg val res : Type) (time_of : tle -> val) (period_of : tle -> val -> val -> val)
    (time_dep : tle -> arg -> val) (period_dep : tle -> arg -> val -> val -> val)
    (orbit_result : tle -> arg -> val -> val -> res) (pure_result : string -> tle -> arg -> res)
    (driver : string -> tle -> arg -> list res -> arg + res) (raise_attr out_of_fuel : res) (fuel : nat)
    (t : tle) (a : arg),
    fresh_result tle arg val res time_of period_of time_dep period_dep orbit_result pure_result driver
      raise_attr out_of_fuel fuel gen_facts "get_orbit_number" t a
    = orbit_result t a (time_of t) (period_of t (time_of t) (time_of t)).
Proof. intros; reflexivity. Qed.
Print Assumptions C18_orbit_number_formula.

(* the premise is needed: flip ONE generated fact to "argument-dependent" and the same model is
   history-dependent (second query differs from its fresh-object result) *)
Theorem C18_premise_needed :
  facts_ok bad_facts = false /\
  fst (run_history nat nat [demo_prog bad_facts 1; demo_prog bad_facts 2] fresh_state)
   <> [fst (exec nat nat (demo_prog bad_facts 1) fresh_state); fst (exec nat nat (demo_prog bad_facts 2) fresh_state)].
Proof. exact premise_needed. Qed.
Print Assumptions C18_premise_needed.

(* non-vacuity on the generated facts: two orbit-number queries racing on a fresh object (thread 1 runs
   between thread 0's failed load and its first store) both finish with their fresh-object results,
   and the premise evaluates to true *)
Example C18_inhabited :
  facts_ok gen_facts = true /\
  let pool := [demo_prog gen_facts 1; demo_prog gen_facts 2] in
  let sched := [0; 1; 1; 1; 1; 1; 1; 1; 1; 0; 0; 0; 0; 0; 0; 0] in
  all_done nat nat (fst (run nat nat sched pool fresh_state)) = true /\
  result_of nat nat (fst (run nat nat sched pool fresh_state)) 0 = Some (1 + 100 + 7) /\
  result_of nat nat (fst (run nat nat sched pool fresh_state)) 1 = Some (2 + 100 + 7).
Proof. vm_compute. repeat split; reflexivity. Qed.
