(* C16, source tie.  Statements only.  Built when translator/gen_source.py accepts the current source (fail-closed;
   otherwise the check rests on the exhaustive correspondence of the hand model of props/C16.v alone and says so). *)
From Coq Require Import List Bool Arith.
From PyOrb.model Require Import M_Source.
From PyOrb.gen Require Import Gen_source.
From PyOrb.proofs Require Import P_GenSource.
Import ListNotations.

(* gen_source_decision is REGENERATED on every run from the if / elif / else tree of tlefile._get_uris_and_open_func
   over its four tests (tle_file given, is a StringIO, names an ADMIN_MESSAGE file, TLES set).  On the model's inputs
   it is the model's decision: *)
Theorem C16_source_decision : forall f local,
  get_uris_and_open_func f local
  = interpret (gen_source_decision (t_file_given f) (t_is_stream f) (t_has_admin f) (t_local_set local)) f local.
Proof. exact gen_source_decision_correct. Qed.
Print Assumptions C16_source_decision.

(* read off the regenerated tree alone: the network opener is chosen exactly when no file is given and TLES is
   unset (a set TLES that matches nothing does NOT fall through to the network), and a given file always wins *)
Theorem C16_source_network_iff : forall a b c d,
  snd (gen_source_decision a b c d) = GUrlopen <-> a = false /\ d = false.
Proof. exact gen_network_only_when_nothing_local. Qed.
Print Assumptions C16_source_network_iff.

Theorem C16_source_file_wins : forall a b c d, a = true ->
  fst (gen_source_decision a b c d) = GGiven \/ fst (gen_source_decision a b c d) = GXml.
Proof. exact gen_given_file_wins. Qed.
Print Assumptions C16_source_file_wins.
