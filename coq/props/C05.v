(* C05 — observer look angles.  Statements only; gen_* regenerated from /repo/pyorbital/orbital.py
   and astronomy.py on every run.  (x, y, z) = satellite ECI position in km, d = days since J2000,
   lon/lat in degrees, alt in km.  gen_look_* is the object method, gen_mlook_* the module function;
   *_core_* are the same functions with the observer position (ox, oy, oz) and GMST g as inputs. *)
From Coq Require Import Reals ZArith Lra.
From PyOrb.lib Require Import PyReal.
From PyOrb.spec Require Import Spec_Geodesy Spec_Topo.
From PyOrb.gen Require Import Gen_astronomy Gen_orbital.
From PyOrb.proofs Require Import P_Look.
Open Scope R_scope.

Theorem C05_compose_method : forall x y z d lon lat alt,
  gen_look_az x y z d lon lat alt =
    gen_look_core_az x y z (gen_observer_x d lon lat alt) (gen_observer_y d lon lat alt)
                     (gen_observer_z d lon lat alt) (gen_gmst d) lon lat /\
  gen_look_el x y z d lon lat alt =
    gen_look_core_el x y z (gen_observer_x d lon lat alt) (gen_observer_y d lon lat alt)
                     (gen_observer_z d lon lat alt) (gen_gmst d) lon lat.
Proof. exact look_compose. Qed.
Print Assumptions C05_compose_method.

Theorem C05_compose_module : forall slon slat salt d lon lat alt,
  gen_mlook_az slon slat salt d lon lat alt =
    gen_mlook_core_az (gen_observer_x d slon slat salt) (gen_observer_y d slon slat salt)
                      (gen_observer_z d slon slat salt)
                      (gen_observer_x d lon lat alt) (gen_observer_y d lon lat alt)
                      (gen_observer_z d lon lat alt) (gen_gmst d) lon lat /\
  gen_mlook_el slon slat salt d lon lat alt =
    gen_mlook_core_el (gen_observer_x d slon slat salt) (gen_observer_y d slon slat salt)
                      (gen_observer_z d slon slat salt)
                      (gen_observer_x d lon lat alt) (gen_observer_y d lon lat alt)
                      (gen_observer_z d lon lat alt) (gen_gmst d) lon lat.
Proof. exact mlook_compose. Qed.
Print Assumptions C05_compose_module.

(* elevation = asin of the up-component of the unit line-of-sight vector in the observer's
   WGS-84 east-north-up frame; the clips are the identity over the reals (Cauchy-Schwarz) *)
Theorem C05_elevation_method : forall x y z ox oy oz g lon lat,
  0 < (x - ox) * (x - ox) + (y - oy) * (y - oy) + (z - oz) * (z - oz) ->
  gen_look_core_el x y z ox oy oz g lon lat =
  rad2deg (asin (topo_U (deg2rad lat) (g + deg2rad lon) (x - ox) (y - oy) (z - oz)
                 / norm3 (x - ox) (y - oy) (z - oz))).
Proof. exact look_core_el_spec. Qed.
Print Assumptions C05_elevation_method.

Theorem C05_elevation_module : forall x y z ox oy oz g lon lat,
  0 < (x - ox) * (x - ox) + (y - oy) * (y - oy) + (z - oz) * (z - oz) ->
  gen_mlook_core_el x y z ox oy oz g lon lat =
  rad2deg (asin (topo_U (deg2rad lat) (g + deg2rad lon) (x - ox) (y - oy) (z - oz)
                 / norm3 (x - ox) (y - oy) (z - oz))).
Proof. exact mlook_core_el_spec. Qed.
Print Assumptions C05_elevation_module.

(* for EVERY input (no hypothesis): elevation in [-90, 90], and the method never feeds asin an
   argument outside [-1, 1] *)
Theorem C05_elevation_range : forall x y z d lon lat alt slon slat salt,
  (-90 <= gen_look_el x y z d lon lat alt <= 90) /\
  (-90 <= gen_mlook_el slon slat salt d lon lat alt <= 90) /\
  (exists q, -1 <= q <= 1 /\ gen_look_el x y z d lon lat alt = rad2deg (asin q)).
Proof.
  intros. exact (conj (look_el_range x y z d lon lat alt)
                (conj (mlook_el_range slon slat salt d lon lat alt) (look_asin_arg_safe x y z d lon lat alt))).
Qed.
Print Assumptions C05_elevation_range.

(* azimuth, clockwise from north, in [0, 2 pi] (the property's closed [0, 360] deg): module function for every direction that has a
   horizontal component; object method (arctan + quadrant fixes) whenever the north component
   is non-zero (with N = 0 exactly the code divides by zero: see DESIGN.md N3) *)
Theorem C05_azimuth_module : forall x y z ox oy oz g lon lat,
  let E := topo_E (deg2rad lat) (g + deg2rad lon) (x - ox) (y - oy) (z - oz) in
  let N := topo_N (deg2rad lat) (g + deg2rad lon) (x - ox) (y - oy) (z - oz) in
  (N <> 0 \/ E <> 0) ->
  is_azimuth (deg2rad (gen_mlook_core_az x y z ox oy oz g lon lat)) E N.
Proof. exact mlook_core_az_spec. Qed.
Print Assumptions C05_azimuth_module.

Theorem C05_azimuth_method : forall x y z ox oy oz g lon lat,
  let E := topo_E (deg2rad lat) (g + deg2rad lon) (x - ox) (y - oy) (z - oz) in
  let N := topo_N (deg2rad lat) (g + deg2rad lon) (x - ox) (y - oy) (z - oz) in
  N <> 0 ->
  is_azimuth (deg2rad (gen_look_core_az x y z ox oy oz g lon lat)) E N.
Proof. exact look_core_az_spec. Qed.
Print Assumptions C05_azimuth_method.

(* a satellite anywhere on the observer's geodetic normal (height h above it) is at elevation 90 *)
Theorem C05_zenith : forall lon lat alt h d, 0 < h ->
  gen_mlook_el lon lat (alt + h) d lon lat alt = 90.
Proof. exact zenith_module. Qed.
Print Assumptions C05_zenith.

Example C05_inhabited :
  0 < (7000 - 6378) * (7000 - 6378) + (0 - 0) * (0 - 0) + (100 - 0) * (100 - 0) /\ 0 < 800.
Proof. split; lra. Qed.
