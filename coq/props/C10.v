(* C10 — reading a platform from a TLE collection.  Statements only.  Model: model/M_Collection.v
   (hand-written line scanner with an explicit cursor, tied to tlefile.py by checks/c10.py).
   Hypotheses carried explicitly:
     sats_ok sats    every registered name is non-empty and every registered id has 5 characters
                     (discharged for the active platforms file by computation in the check);
     wf_entry e      a name line (if any) does not start with "1 ", line 1 starts with "1 ", line 2 with "2 "
                     (after strip(); blank "name" lines, CR/LF endings, surrounding blanks are allowed);
     plain p         the requested name is not itself of the form "1 ..." / "2 ..."
   each shown necessary by a `_refuted` witness below. *)
From Coq Require Import List Ascii Bool Arith.
From Coq Require Import String.
Local Notation length := List.length.
From PyOrb.model Require Import M_Collection.
From PyOrb.proofs Require Import P_Collection.
Import ListNotations.

(* the result is the FIRST entry whose name line equals the requested (stripped, upper-cased) name or
   whose line-1 catalogue field equals the registered id; an empty name on a stream selects the first
   entry; otherwise KeyError.  For collections of ANY length, from a path (stream = false) or a stream. *)
Theorem C10_first_match : forall sats stream p es,
  sats_ok sats = true -> forallb wf_entry es = true -> plain p = true ->
  read_tle sats stream p [lines_of es] = spec_read sats stream p es.
Proof. exact first_match. Qed.
Print Assumptions C10_first_match.

(* both result lines come from one and the same entry *)
Theorem C10_same_entry : forall sats stream p es a b,
  sats_ok sats = true -> forallb wf_entry es = true -> plain p = true ->
  read_tle sats stream p [lines_of es] = Found a b ->
  exists i e, nth_error es i = Some e /\ a = strip (e_l1 e) /\ b = strip (e_l2 e).
Proof. exact same_entry. Qed.
Print Assumptions C10_same_entry.

(* another satellite's elements are never returned; if no entry qualifies the read fails with KeyError *)
Theorem C10_no_foreign_entry : forall sats stream p es,
  sats_ok sats = true -> forallb wf_entry es = true -> plain p = true ->
  (forall a b, read_tle sats stream p [lines_of es] = Found a b ->
     exists e, In e es /\ a = strip (e_l1 e) /\ b = strip (e_l2 e) /\
               (qualifies sats p e = true \/ (stream = true /\ p = [] /\ hd_error es = Some e)))
  /\ ((forall e, In e es -> qualifies sats p e = false) ->
      (stream = false \/ p <> [] \/ es = []) ->
      read_tle sats stream p [lines_of es] = KeyError).
Proof. exact no_foreign_entry. Qed.
Print Assumptions C10_no_foreign_entry.

(* what "qualifies" means, in plain terms *)
Theorem C10_qualifies_meaning : forall sats p e,
  qualifies sats p e = true ->
  (p <> [] /\ exists n, e_name e = Some n /\ strip n = p) \/
  (exists id, dict_get sats p = Some id /\ cat_field (strip (e_l1 e)) = id).
Proof. exact qualifies_meaning. Qed.
Print Assumptions C10_qualifies_meaning.

(* an MMAM XML admin message is read exactly like the stream of its (line-1, line-2) pairs *)
Theorem C10_xml_as_stream : forall sats p navs,
  read_tle sats true p [xml_lines navs] = read_tle sats true p [lines_of (map nav_entry navs)].
Proof. exact xml_as_stream. Qed.
Print Assumptions C10_xml_as_stream.

(* bulk reads (Downloader.read_tle_files): every entry of every file, in order *)
Theorem C10_bulk_order : forall sats fs,
  sats_ok sats = true -> forallb (forallb wf_entry) fs = true ->
  read_tle_files sats (map lines_of fs) = BulkOk (map entry_tle (List.concat fs)).
Proof. exact bulk_order. Qed.
Print Assumptions C10_bulk_order.

(* bulk reads of XML admin messages (read_xml_admin_messages), including messages with no entry *)
Theorem C10_bulk_order_xml : forall sats (fs : list (list (line * line))),
  sats_ok sats = true -> forallb (forallb (fun p => wf_entry (nav_entry p))) fs = true ->
  read_xml_files sats fs = BulkOk (map (fun p => entry_tle (nav_entry p)) (List.concat fs)).
Proof. exact bulk_order_xml. Qed.
Print Assumptions C10_bulk_order_xml.

(* platforms file: a row made of words separated by white space maps its leading words (joined by one
   blank, upper-cased on request) to its last word; rows with fewer than two words are skipped *)
Theorem C10_platform_file : forall up lead toks,
  spaces lead -> good toks -> prefixb [ch 35] (lead ++ build toks) = false ->
  platform_row up (lead ++ build toks) =
  if length toks <? 2 then None
  else Some (let name := join_sp (removelast (map fst toks)) in if up then upper name else name,
             last (map fst toks) []).
Proof. exact platform_row_spec. Qed.
Print Assumptions C10_platform_file.

Theorem C10_platform_file_comment : forall up row,
  prefixb [ch 35] row = true -> platform_row up row = None.
Proof. exact platform_row_comment. Qed.
Print Assumptions C10_platform_file_comment.

(* the registry maps a name to the value of the LAST row naming it *)
Theorem C10_platform_file_registry : forall up rows k,
  dict_get (read_platform_numbers up rows) k = last_binding (bindings up rows) k.
Proof. exact platform_numbers_spec. Qed.
Print Assumptions C10_platform_file_registry.

(* several sources (the URL list of the network case): all are scanned, the first hit in source order wins *)
Theorem C10_first_match_sources : forall sats stream p fs,
  sats_ok sats = true -> forallb (forallb wf_entry) fs = true -> plain p = true ->
  read_tle sats stream p (map lines_of fs) = spec_read sats stream p (List.concat fs).
Proof. exact first_match_sources. Qed.
Print Assumptions C10_first_match_sources.

(* with NO well-formedness hypothesis at all: the two result lines are adjacent lines of the source *)
Theorem C10_result_lines_adjacent : forall sats d p fid a b,
  read_tle sats d p [fid] = Found a b ->
  exists pre l1 l2 post, fid = pre ++ l1 :: l2 :: post /\ (a, b) = (strip l1, strip l2).
Proof. exact result_lines_adjacent. Qed.
Print Assumptions C10_result_lines_adjacent.

(* for the registry read from ANY platforms file, names are never empty: "ids have 5 characters" is
   all that remains of sats_ok (checked by computation for the packaged file) *)
Theorem C10_registry_sats_ok : forall up rows,
  ids5 (read_platform_numbers up rows) = true -> sats_ok (read_platform_numbers up rows) = true.
Proof. exact registry_sats_ok. Qed.
Print Assumptions C10_registry_sats_ok.

(* ---- the hypotheses are necessary on the faithful model ---- *)
Theorem C10_short_id_refuted :
  exists sats p es a b,
    forallb wf_entry es = true /\ plain p = true /\
    (forall e, In e es -> qualifies sats p e = false) /\
    read_tle sats false p [lines_of es] = Found a b.
Proof. exact short_id_refuted. Qed.
Print Assumptions C10_short_id_refuted.

Theorem C10_plain_name_refuted :
  exists sats p es a b,
    sats_ok sats = true /\ forallb wf_entry es = true /\
    read_tle sats true p [lines_of es] = Found a b /\
    ~ exists e, In e es /\ a = strip (e_l1 e) /\ b = strip (e_l2 e).
Proof. exact plain_name_refuted. Qed.
Print Assumptions C10_plain_name_refuted.

(* non-vacuity: a collection with name lines, without name lines, CR/LF endings, a duplicate, surrounding
   blanks; read by name, by registered alias, with an unknown name, with an empty name, and in bulk *)
Definition L (s : string) : line := list_ascii_of_string s.
Definition crlf (s : string) : line := list_ascii_of_string s ++ [ch 13; ch 10].
Definition lf (s : string) : line := list_ascii_of_string s ++ [ch 10].
Definition ex_sats : dict := read_platform_numbers true [lf "# comment"; lf "NOAA-19 33591"; lf "Metop-B  38771"; lf "short"].
Definition ex_coll : list entry :=
  [ mk_entry (Some (lf "ISS (ZARYA)")) (lf "1 25544U 98067A   08264.51782528") (lf "2 25544  51.6416 247.4627");
    mk_entry None (crlf "1 33591U 09005A   21355.91138073") (crlf "2 33591  99.1688  21.1338");
    mk_entry (Some (crlf "  METOP-B  ")) (crlf "1 38771U 12049A   21355.5") (crlf "2 38771  98.7 ");
    mk_entry None (lf "1 33591U 09005A   21356.00000000") (lf "2 33591  99.1688  22.0000") ].
Example C10_inhabited :
  sats_ok ex_sats = true /\ forallb wf_entry ex_coll = true /\
  tle_read ex_sats false (L " noaa-19 ") [lines_of ex_coll] = Found (L "1 33591U 09005A   21355.91138073") (L "2 33591  99.1688  21.1338") /\
  tle_read ex_sats true (L "iss (zarya)") [lines_of ex_coll] = Found (L "1 25544U 98067A   08264.51782528") (L "2 25544  51.6416 247.4627") /\
  tle_read ex_sats true (L "metop-b") [lines_of ex_coll] = Found (L "1 38771U 12049A   21355.5") (L "2 38771  98.7") /\
  tle_read ex_sats true (L "ISS") [lines_of ex_coll] = KeyError /\
  tle_read ex_sats false (L "") [lines_of ex_coll] = KeyError /\
  tle_read ex_sats true (L "") [lines_of ex_coll] = Found (L "1 25544U 98067A   08264.51782528") (L "2 25544  51.6416 247.4627") /\
  tle_read ex_sats false (L "ISS (ZARYA)") [[lf "ISS (ZARYA)"; lf "1 25544U"]] = StopIteration /\
  read_tle_files ex_sats [lines_of ex_coll] = BulkOk (map entry_tle ex_coll) /\
  plain (upper (strip (L " noaa-19 "))) = true.
Proof. vm_compute. repeat split; reflexivity. Qed.
