(* C19, source tie for the numbers.  Statements only.  Built when translator/gen_instruments.py accepts the current
   source (fail-closed; otherwise the check rests on the correspondence of the hand templates alone and says so). *)
From Coq Require Import ZArith QArith.
From PyOrb.model Require Import M_Instruments.
From PyOrb.gen Require Import Gen_instruments.
From PyOrb.proofs Require Import P_GenInstruments.
Open Scope Q_scope.

(* gen_<instrument>_<constant> are the constants of the definitions in geoloc_instrument_definitions.py, evaluated
   EXACTLY from the source text on every run (decimal literals as rationals).  ramp_ok says that a template has that
   many positions, that scan period and documented swath limit, across-track angles running from -angle to +angle
   over the full scan, that sampling interval, start delay and scan offset.  The FORMULAS combining the numbers are the
   hand templates (tied by the Coq-evaluated correspondence run); the NUMBERS are the source's: *)
Theorem C19_source_numbers :
  ramp_ok amsua gen_amsua_scan_len gen_amsua_scan_rate gen_amsua_scan_angle gen_amsua_sampling_interval gen_amsua_sync_time /\
  ramp_ok mhs gen_mhs_scan_len gen_mhs_scan_rate gen_mhs_scan_angle gen_mhs_sampling_interval gen_mhs_sync_time /\
  ramp_ok hirs4 gen_hirs4_scan_len gen_hirs4_scan_rate gen_hirs4_scan_angle gen_hirs4_sampling_interval gen_hirs4_sync_time /\
  ramp_ok atms gen_atms_scan_len gen_atms_scan_rate gen_atms_scan_angle gen_atms_sampling_interval gen_atms_sync_time /\
  ramp_ok mwhs2 gen_mwhs2_scan_len gen_mwhs2_scan_rate gen_mwhs2_scan_angle gen_mwhs2_sampling_interval gen_mwhs2_sync_time.
Proof. exact (conj amsua_numbers (conj mhs_numbers (conj hirs4_numbers (conj atms_numbers mwhs2_numbers)))). Qed.
Print Assumptions C19_source_numbers.

Theorem C19_source_numbers_avhrr :
  period avhrr == gen_avhrr_scan_rate /\ swath avhrr == gen_avhrr_scan_angle /\
  across avhrr 0 == gen_avhrr_scan_angle /\ across avhrr (npos avhrr - 1) == - gen_avhrr_scan_angle /\
  inject_Z (npos avhrr - 1) == 2 * gen_avhrr_half_width /\
  sample avhrr Exact 0 1 - sample avhrr Exact 0 0 == gen_avhrr_sampling_interval /\
  offset avhrr Exact 1 == gen_avhrr_scan_rate.
Proof. exact avhrr_numbers. Qed.
Print Assumptions C19_source_numbers_avhrr.
