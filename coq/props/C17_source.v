(* C17, source tie.  Statements only.  Built when translator/gen_download.py accepts the current source (fail-closed;
   otherwise the check rests on the exhaustive correspondence of the hand model of props/C17.v alone and says so). *)
From Coq Require Import List ZArith Bool.
From PyOrb.model Require Import M_Download.
From PyOrb.gen Require Import Gen_download.
From PyOrb.proofs Require Import P_GenDownload.
Import ListNotations.
Open Scope Z_scope.

(* gen_uri_action is REGENERATED on every run from the body of the inner loop of Downloader.fetch_plain_tle (the
   try/except around requests.get, the status test and its two arms); the translator also checks the loop structure
   around it: every configured source is initialised to [] before its URIs are visited, sources and URIs are
   visited in configuration order, and nothing but logging follows the inner loop.  The model's inner loop is, at
   every URI, the application of that regenerated action: *)
Theorem C17_source_loop : forall o r acc,
  fetch_uris (o :: r) acc = turn (gen_uri_action (timed_out o) (status_of o)) o r acc.
Proof. exact fetch_uris_is_generated_turn. Qed.
Print Assumptions C17_source_loop.

(* read off the regenerated action alone: a timeout always raises, a body is appended exactly for the success
   status, and any other status leaves the result untouched (it is only logged) *)
Theorem C17_source_action : forall st,
  gen_uri_action true st = ARaiseTimeout /\
  (gen_uri_action false st = AAppendParsed <-> st = gen_ok_status) /\
  (gen_uri_action false st = ARecordFailure -> st <> gen_ok_status).
Proof.
  intros st. split; [apply gen_timeout_always_raises|]. split; [apply gen_success_iff|apply gen_failure_leaves_result].
Qed.
Print Assumptions C17_source_action.

Example C17_source_structure : gen_every_source_initialised = true /\ gen_uris_in_configuration_order = true.
Proof. exact gen_structure. Qed.
