(* C13 — refusals.  Statements only; gen_init_outcome and gen_nn1_prop_outcome are the decision
   trees regenerated from /repo/pyorbital/orbital.py by enumerating every path of the constructor
   (OrbitElements + _SGDP4Base) and of propagate (leaf 1: near-earth-normal, e0 > 1e-4). *)
From Coq Require Import Reals Lra.
From PyOrb.lib Require Import PyReal SgpOutcome.
From PyOrb.spec Require Import Spec_SGP4.
From PyOrb.gen Require Import Gen_sgp4 Gen_sgp4_compose.
From PyOrb.proofs Require Import P_Sgp4Init P_Sgp4Prop P_Sgp4Tree P_Sgp4Exits.
Open Scope R_scope.

(* construction: OrbitalError exactly when mean motion <= 0, eccentricity not in (0, 1-1e-6),
   recovered mean motion or inclination out of range — whatever the other fields are *)
Theorem C13_construct_orbital_error : forall e0 i ra w m n b,
  gen_init_outcome e0 i ra w m n b = InitOrbitalError <-> ~ elements_in_range e0 i ra w m n b.
Proof. exact init_orbital_error_iff. Qed.
Print Assumptions C13_construct_orbital_error.

(* ... NotImplementedError exactly for in-range elements with period >= 225 min (deep space) *)
Theorem C13_construct_deep_space : forall e0 i ra w m n b,
  gen_init_outcome e0 i ra w m n b = InitNotImplemented <->
  elements_in_range e0 i ra w m n b /\ 225 <= gen_sgp4_period e0 i ra w m n b.
Proof. exact init_not_implemented_iff. Qed.
Print Assumptions C13_construct_deep_space.

(* the period tested is the report's 2 pi / n0'' *)
Theorem C13_period_is_model_period : forall e0 i ra w m n b, 0 < e0 < 1 ->
  gen_sgp4_period e0 i ra w m n b = period_min (E e0 i ra w m n b) /\
  gen_sgp4_perigee e0 i ra w m n b = perigee_km (E e0 i ra w m n b).
Proof. intros. split; [apply period_spec|apply perigee_spec]; assumption. Qed.
Print Assumptions C13_period_is_model_period.

(* perigee below 220 km: object built in the simplified mode, and propagate refuses that mode *)
Theorem C13_low_perigee : forall e0 i ra w m n b,
  (gen_init_outcome e0 i ra w m n b = InitMode NearSimp 0 <->
   elements_in_range e0 i ra w m n b /\ gen_sgp4_period e0 i ra w m n b < 225 /\ gen_sgp4_perigee e0 i ra w m n b < 220)
  /\ gen_propagate_refuses NearSimp = true /\ gen_propagate_refuses NearNorm = false.
Proof. intros. split; [apply init_near_simp_iff|split; reflexivity]. Qed.
Print Assumptions C13_low_perigee.

Theorem C13_near_earth_normal : forall e0 i ra w m n b,
  (exists k, gen_init_outcome e0 i ra w m n b = InitMode NearNorm k) <->
  elements_in_range e0 i ra w m n b /\ gen_sgp4_period e0 i ra w m n b < 225 /\ 220 <= gen_sgp4_perigee e0 i ra w m n b.
Proof. exact init_near_norm_iff. Qed.
Print Assumptions C13_near_earth_normal.

(* the outcome class is a total function of the elements: one of exactly these *)
Theorem C13_construct_total : forall e0 i ra w m n b,
  gen_init_outcome e0 i ra w m n b = InitOrbitalError \/ gen_init_outcome e0 i ra w m n b = InitNotImplemented \/
  gen_init_outcome e0 i ra w m n b = InitMode NearSimp 0 \/
  exists k, (k < 4)%nat /\ gen_init_outcome e0 i ra w m n b = InitMode NearNorm k.
Proof. exact init_outcome_total. Qed.
Print Assumptions C13_construct_total.

(* propagation (leaf 1): a returned state has passed every decay guard ... *)
Theorem C13_decay_guards_passed : forall e0 i ra w m n b ts j,
  gen_init_outcome e0 i ra w m n b = InitMode NearNorm 1 ->
  gen_nn1_prop_outcome e0 i ra w m n b ts = PropOk j ->
  1 <= a (E e0 i ra w m n b) (mkT false ts) /\ - (1 / 1000) <= e_unclamped (E e0 i ra w m n b) (mkT false ts) /\
  eL2 (E e0 i ra w m n b) (mkT false ts) (ecl e0 i ra w m n b ts) < 1.
Proof. intros e0 i ra w m n b ts j H. exact (prop_ok_guards e0 i ra w m n b ts H j). Qed.
Print Assumptions C13_decay_guards_passed.

(* ... and conversely each decayed condition ends in an exception, in the code's order *)
Theorem C13_decay_guards : forall e0 i ra w m n b ts,
  (gen_nn0_a e0 i ra w m n b ts < 1 -> gen_nn1_prop_outcome e0 i ra w m n b ts = PropCrash) /\
  (1 <= gen_nn0_a e0 i ra w m n b ts -> gen_nn0_guard0 e0 i ra w m n b ts < (-1) / 1000 ->
   gen_nn1_prop_outcome e0 i ra w m n b ts = PropEccLow) /\
  (1 <= gen_nn0_a e0 i ra w m n b ts -> (-1) / 1000 <= gen_nn0_guard0 e0 i ra w m n b ts ->
   1 <= gen_nn0_elsq e0 i ra w m n b ts -> gen_nn1_prop_outcome e0 i ra w m n b ts = PropCrash).
Proof.
  intros. unfold gen_nn1_prop_outcome. repeat split; intros;
  repeat match goal with
         | |- context [Rlt_dec ?a ?b] => destruct (Rlt_dec a b); try lra; try reflexivity
         | |- context [Rle_dec ?a ?b] => destruct (Rle_dec a b); try lra; try reflexivity
         end.
Qed.
Print Assumptions C13_decay_guards.


(* the radius guard: a state whose short-period radius is below one earth radius is never returned *)
Theorem C13_radius_guard : forall e0 i ra w m n b ts,
  (gen_nn1_rk_x0 e0 i ra w m n b ts < 1 -> gen_nn1_prop_outcome e0 i ra w m n b ts <> PropOk 0) /\
  (gen_nn1_rk_x1 e0 i ra w m n b ts < 1 -> gen_nn1_prop_outcome e0 i ra w m n b ts <> PropOk 1) /\
  (gen_nn1_rk_x2 e0 i ra w m n b ts < 1 -> gen_nn1_prop_outcome e0 i ra w m n b ts <> PropOk 2) /\
  (gen_nn1_rk_x3 e0 i ra w m n b ts < 1 -> gen_nn1_prop_outcome e0 i ra w m n b ts <> PropOk 3) /\
  (gen_nn1_rk_x4 e0 i ra w m n b ts < 1 -> gen_nn1_prop_outcome e0 i ra w m n b ts <> PropOk 4) /\
  (gen_nn1_rk_x5 e0 i ra w m n b ts < 1 -> gen_nn1_prop_outcome e0 i ra w m n b ts <> PropOk 5) /\
  (gen_nn1_rk_x6 e0 i ra w m n b ts < 1 -> gen_nn1_prop_outcome e0 i ra w m n b ts <> PropOk 6) /\
  (gen_nn1_rk_x7 e0 i ra w m n b ts < 1 -> gen_nn1_prop_outcome e0 i ra w m n b ts <> PropOk 7) /\
  (gen_nn1_rk_x8 e0 i ra w m n b ts < 1 -> gen_nn1_prop_outcome e0 i ra w m n b ts <> PropOk 8) /\
  (gen_nn1_rk_x9 e0 i ra w m n b ts < 1 -> gen_nn1_prop_outcome e0 i ra w m n b ts <> PropOk 9) /\
  (gen_nn1_rk_x9 e0 i ra w m n b ts < 1 -> gen_nn1_prop_outcome e0 i ra w m n b ts <> PropOk 10).
Proof.
  intros. unfold gen_nn1_prop_outcome. repeat split; intros Hr;
  repeat match goal with
         | |- context [Rlt_dec ?a ?b] => destruct (Rlt_dec a b); try lra; try discriminate
         | |- context [Rle_dec ?a ?b] => destruct (Rle_dec a b); try lra; try discriminate
         end.
Qed.
Print Assumptions C13_radius_guard.

(* definedness of the propagation stage over the reals (the real-number half of "never NaN"):
   on a returned state every denominator and every sqrt argument is positive.  PARTIAL: the
   constructor's own denominators (1 - delta0, 1 + delta0, a0) are not controlled by any guard and
   are left to the search (high-eccentricity island, DESIGN.md N6). *)
Theorem C13_defined_partial : forall e0 i ra w m n b ts j Ew,
  gen_init_outcome e0 i ra w m n b = InitMode NearNorm 1 ->
  gen_nn1_prop_outcome e0 i ra w m n b ts = PropOk j ->
  let El := E e0 i ra w m n b in let T := mkT false ts in let ec := ecl e0 i ra w m n b ts in
  0 < a El T /\ 0 < 1 - ec ^ 2 /\ 0 < 1 - eL2 El T ec /\ 0 < pL El T ec /\ 0 < r El T ec Ew /\
  0 < a0'' El - s_param /\ 0 < 1 - (eta El) ^ 2.
Proof.
  intros e0 i ra w m n b ts j Ew Hl Hp El T ec.
  destruct (prop_ok_guards e0 i ra w m n b ts Hl j Hp) as [G1 [G2 G3]]. fold El T ec in G1, G2, G3.
  pose proof (leaf1_He _ _ _ _ _ _ _ Hl) as He. pose proof (leaf1_Hperi _ _ _ _ _ _ _ Hl) as Hpe.
  assert (Ha : 0 < a El T) by lra.
  pose proof (aodp_gt_s _ _ _ _ _ _ _ He Hpe) as Hs. pose proof (Heta _ _ _ _ _ _ _ He Hpe) as Hq.
  fold El in Hs, Hq.
  split; [exact Ha|]. split; [apply ecl_sq; first [assumption|lra]|]. split; [lra|].
  split; [apply pL_pos; assumption|]. split; [apply r_pos; assumption|]. split; lra.
Qed.
Print Assumptions C13_defined_partial.

(* "in every other case a state is returned": an orbit that is not decaying is answered.  With the decay guards passed at the
   requested time, eL^2 <= 4/25 and the osculating perigee a (1 - eL) at least 1.005 earth radii, no error exit of the
   regenerated propagation is taken: the Kepler loop converges (P_Sgp4Newton) and the radius test rk >= 1 passes at the exit
   (both reachable leaves; the converse of C13_decay_guards / C13_radius_guard) *)
From PyOrb.proofs Require P_Sgp4SmallE P_Sgp4Answered.
Theorem C13_healthy_is_answered : forall e0 i ra w m n b ts,
  gen_init_outcome e0 i ra w m n b = InitMode NearNorm 1 ->
  let El := E e0 i ra w m n b in let T := mkT false ts in let ec := ecl e0 i ra w m n b ts in
  - (1 / 1000) <= e_unclamped El T -> eL2 El T ec <= 4 / 25 -> 1005 / 1000 <= a El T * (1 - sqrt (eL2 El T ec)) ->
  exists j, (j <= 5)%nat /\ gen_nn1_prop_outcome e0 i ra w m n b ts = PropOk j.
Proof. exact P_Sgp4Answered.answered_when_healthy. Qed.
Print Assumptions C13_healthy_is_answered.

Theorem C13_healthy_is_answered_small_e : forall e0 i ra w m n b ts,
  gen_init_outcome e0 i ra w m n b = InitMode NearNorm 3 ->
  let El := E e0 i ra w m n b in let T := mkT true ts in let ec := P_Sgp4SmallE.ecl3 e0 i ra w m n b ts in
  - (1 / 1000) <= e_unclamped El T -> eL2 El T ec <= 4 / 25 -> 1005 / 1000 <= a El T * (1 - sqrt (eL2 El T ec)) ->
  exists j, (j <= 5)%nat /\ gen_nn3_prop_outcome e0 i ra w m n b ts = PropOk j.
Proof. exact P_Sgp4Answered.answered_when_healthy3. Qed.
Print Assumptions C13_healthy_is_answered_small_e.

(* ... and in terms of the INPUT only: an accepted near-earth element set with e0 <= 0.39 (e0 > 1e-4), resp. any accepted set with
   e0 <= 1e-4, is answered at its epoch, and at every time when it is drag-free (B* = 0): there a = a0'', e = e0, and the
   constructor's perigee guard makes the orbit healthy *)
From PyOrb.proofs Require P_Sgp4AnsweredEpoch.
Theorem C13_answered_at_epoch_or_drag_free : forall e0 i ra w m n b ts,
  gen_init_outcome e0 i ra w m n b = InitMode NearNorm 1 -> b = 0 \/ ts = 0 -> e0 <= 39 / 100 ->
  exists j, (j <= 5)%nat /\ gen_nn1_prop_outcome e0 i ra w m n b ts = PropOk j.
Proof. exact P_Sgp4AnsweredEpoch.answered_when_frozen. Qed.
Print Assumptions C13_answered_at_epoch_or_drag_free.

Theorem C13_answered_at_epoch_or_drag_free_small_e : forall e0 i ra w m n b ts,
  gen_init_outcome e0 i ra w m n b = InitMode NearNorm 3 -> b = 0 \/ ts = 0 ->
  exists j, (j <= 5)%nat /\ gen_nn3_prop_outcome e0 i ra w m n b ts = PropOk j.
Proof. exact P_Sgp4AnsweredEpoch.answered_when_frozen3. Qed.
Print Assumptions C13_answered_at_epoch_or_drag_free_small_e.

(* the same for the whole range eL <= 0.47 of an accepted ordinary orbit (rk >= 1 from the osculating perigee alone, the loop
   leaves by its seventh test), and hence, in terms of the input: EVERY accepted element set outside the degenerate island
   (TLE mean motion 6.4 .. 18 rev/day, e0 <= 0.9: then e0 <= 0.467) is answered at its epoch, and at any time when B* = 0 *)
From PyOrb.proofs Require P_Sgp4Answered47.
Theorem C13_healthy_is_answered_wide : forall e0 i ra w m n b ts,
  gen_init_outcome e0 i ra w m n b = InitMode NearNorm 1 ->
  let El := E e0 i ra w m n b in let T := mkT false ts in let ec := ecl e0 i ra w m n b ts in
  - (1 / 1000) <= e_unclamped El T -> eL2 El T ec <= 2209 / 10000 -> 1005 / 1000 <= a El T * (1 - sqrt (eL2 El T ec)) ->
  exists j, (j <= 6)%nat /\ gen_nn1_prop_outcome e0 i ra w m n b ts = PropOk j.
Proof. exact P_Sgp4Answered47.answered_when_healthy47. Qed.
Print Assumptions C13_healthy_is_answered_wide.

Theorem C13_accepted_is_answered_at_epoch_or_drag_free : forall e0 i ra w m n b ts,
  gen_init_outcome e0 i ra w m n b = InitMode NearNorm 1 -> b = 0 \/ ts = 0 -> 64 / 10 <= n <= 18 -> e0 <= 9 / 10 ->
  exists j, (j <= 6)%nat /\ gen_nn1_prop_outcome e0 i ra w m n b ts = PropOk j.
Proof. exact P_Sgp4Answered47.answered_at_epoch_wide. Qed.
Print Assumptions C13_accepted_is_answered_at_epoch_or_drag_free.

Example C13_inhabited : elements_in_range (6703 / 10000000) (516416 / 10000) 0 0 0 (1572125391 / 100000000) 0 -> True.
Proof. intros _. exact I. Qed.
