(* C03, source tie.  Statements only.  Built when translator/gen_passes.py accepts the current source (fail-closed: the
   body of Orbital.get_next_passes, numeric constants masked, must be the skeleton kept in
   translator/passes_skeleton.txt; otherwise the check rests on the correspondence of the hand model alone and says so). *)
From Coq Require Import List ZArith QArith Bool Qround Qminmax.
From PyOrb.model Require Import M_Passes.
From PyOrb.gen Require Import Gen_passes.
From PyOrb.proofs Require Import P_GenPasses.
Import ListNotations.

(* the model's pairing loop takes, at every crossing, the action of the loop body of the source *)
Theorem C03_source_loop : forall xs g zs rise,
  pairs xs (g :: zs) rise =
  match gen_guess_action (sample xs g <? 0)%Z (is_none rise) true with
  | ASetRise => pairs xs zs (Some g)
  | ASkipNoRise => pairs xs zs None
  | _ => match rise with Some rg => (rg, g) :: pairs xs zs rise | None => pairs xs zs None end
  end.
Proof. exact pairs_is_generated_turn. Qed.
Print Assumptions C03_source_loop.

Theorem C03_source_filter : forall root rf,
  proper root rf = true <-> gen_guess_action false false (proper root rf) = AEmit.
Proof. exact proper_is_generated_test. Qed.
Print Assumptions C03_source_filter.

(* the sample slice and the culmination bracket are built with the constants extracted from the source on this run *)
Theorem C03_source_constants : forall xs root rg fg,
  let p := mkpass xs root (rg, fg) in
  p_istart p = Z.to_nat (Z.max (Qfloor gen_slice_floor) (Qfloor (root rg))) /\
  p_iend p = Z.to_nat (Z.min (Z.of_nat (length xs)) (Qceiling (root fg) + Qfloor gen_slice_pad)) /\
  p_lo p == Qmax (root rg) (inject_Z (Z.of_nat (p_middle p)) - gen_bracket_lo) /\
  p_hi p == Qmin (root fg) (inject_Z (Z.of_nat (p_middle p)) + gen_bracket_hi).
Proof. exact mkpass_constants. Qed.
Print Assumptions C03_source_constants.

Theorem C03_source_sampling :
  gen_neg_threshold == 0 /\ gen_root_span == 1 /\ gen_samples_per_hour == 60 /\ gen_default_horizon == 0.
Proof. exact sampling_constants. Qed.
Print Assumptions C03_source_sampling.
