(* C01 — SGP4 conformance with Spacetrack Report #3.  Statements only.
   gen_* (Gen_sgp4.v, Gen_sgp4_compose.v, Gen_orbital.v) are regenerated from
   /repo/pyorbital/orbital.py on every run; Spec_SGP4.v is the hand transcription of the report.
   Inputs: the TLE fields (e0, inclination/RAAN/arg. of perigee/mean anomaly in degrees, mean motion
   in rev/day, B* ) and ts = minutes since epoch.  E .. is the report's element set built from them,
   mkT false ts the time state (false: e0 > 1e-4).  Leaf 1 of gen_init_outcome is the
   near-earth-normal path with e0 > 1e-4 and |1 + cos i| >= 1.5e-12. *)
From Coq Require Import Reals Lra.
From Flocq Require Import Core.
From Interval Require Import Tactic.
From PyOrb.lib Require Import PyReal SgpOutcome.
From PyOrb.spec Require Import Spec_SGP4.
From PyOrb.gen Require Import Gen_astronomy Gen_orbital Gen_sgp4 Gen_sgp4_compose.
From PyOrb.proofs Require Import P_Sgp4Init P_Sgp4Prop P_Sgp4Tree P_Sgp4Exits P_Sgp4Kepler P_Kep.
Open Scope R_scope.

Section C01.
  Variables e0 incl_deg raan_deg argp_deg ma_deg n_revday bstar ts : R.
  Notation "'GA' f" := (f e0 incl_deg raan_deg argp_deg ma_deg n_revday bstar) (at level 9, f at level 9).
  Notation "'GB' f" := (f e0 incl_deg raan_deg argp_deg ma_deg n_revday bstar ts) (at level 9, f at level 9).
  Notation El := (E e0 incl_deg raan_deg argp_deg ma_deg n_revday bstar).
  Notation T := (mkT false ts).
  Notation ec := (ecl e0 incl_deg raan_deg argp_deg ma_deg n_revday bstar ts).

  (* which inputs take the path the theorems below are about *)
  Theorem C01_leaf_conditions : GA gen_init_outcome = InitMode NearNorm 1 ->
    elements_in_range e0 incl_deg raan_deg argp_deg ma_deg n_revday bstar /\
    GA gen_sgp4_period < 225 /\ 220 <= GA gen_sgp4_perigee /\ 1 / 10000 < e0 /\
    3 / 2000000000000 <= GA gen_init_guard3.
  Proof. exact (leaf1_facts _ _ _ _ _ _ _). Qed.

  Hypothesis Hleaf : GA gen_init_outcome = InitMode NearNorm 1.

  (* Kozai -> Brouwer recovery, drag and secular coefficients: exactly the report's *)
  Theorem C01_coefficients :
    GA gen_sgp4_xnodp = n0'' El /\ GA gen_sgp4_aodp = a0'' El /\
    GA gen_sgp4_perigee = perigee_km El /\ GA gen_sgp4_apogee = apogee_km El /\ GA gen_sgp4_period = period_min El /\
    GA gen_sgp4_eta_v2 = eta El /\ GA gen_sgp4_c2_v2 = C2 El /\ GA gen_sgp4_c1_v2 = C1 El /\
    GA gen_sgp4_c3_v1 = C3 El /\ GA gen_sgp4_c4_v2 = C4 El /\ GA gen_sgp4_c5_v1 = C5 El /\
    GA gen_sgp4_d2 = D2 El /\ GA gen_sgp4_d3 = D3 El /\ GA gen_sgp4_d4 = D4 El /\
    GA gen_sgp4_xmdot = Mdot El /\ GA gen_sgp4_omgdot = wdot El /\ GA gen_sgp4_xnodot = Odot El.
  Proof.
    pose proof (leaf1_He _ _ _ _ _ _ _ Hleaf) as He. pose proof (leaf1_Hperi _ _ _ _ _ _ _ Hleaf) as Hp.
    repeat split;
      first [ apply xnodp_spec | apply aodp_spec | apply perigee_spec | apply apogee_spec | apply period_spec
            | apply eta_spec | apply c2_spec | apply c1_spec | apply c3_spec | apply c4_spec | apply c5_spec
            | apply d2_spec | apply d3_spec | apply d4_spec | apply xmdot_spec | apply omgdot_spec | apply xnodot_spec ];
      assumption.
  Qed.

  (* secular + drag update at ts, and the long-period terms (on the clamped eccentricity ec) *)
  Theorem C01_update : a El T <> 0 ->
    GB gen_nn0_xmp = Mp El T /\ GB gen_nn0_omega = w El T /\ GB gen_nn0_xnode = Om El T /\
    GB gen_nn0_guard0 = e_unclamped El T /\ GB gen_nn0_a = a El T /\
    GB gen_nn0_axn = axN El T ec /\ GB gen_nn0_ayn = ayN El T ec /\ GB gen_nn1_xlt = ILT El T ec /\
    GB gen_nn0_elsq = eL2 El T ec /\ GB gen_nn0_pl = pL El T ec /\
    GB gen_nn1_epw_x0 = fmodR (U El T ec) (2 * PI).
  Proof.
    intros Ha.
    pose proof (leaf1_He _ _ _ _ _ _ _ Hleaf) as He. pose proof (leaf1_Hperi _ _ _ _ _ _ _ Hleaf) as Hp.
    pose proof (leaf1_Hth _ _ _ _ _ _ _ Hleaf) as Ht.
    repeat split;
      first [ apply xmp_spec | apply omega_spec | apply xnode_spec | apply e_unclamped_spec | apply a_spec
            | apply axn_spec | apply ayn_spec | apply xlt_spec | apply elsq_spec | apply pl_spec
            | apply epw0_is_U ]; assumption.
  Qed.

  (* the clamp is the identity on the report's range of eccentricities *)
  Theorem C01_clamp_inactive : 1 / 1000000 <= e_unclamped El T <= 999999 / 1000000 -> ec = e_unclamped El T.
  Proof. intros H. unfold ecl. apply clamp_e_id. exact H. Qed.
End C01.
Print Assumptions C01_leaf_conditions.
Print Assumptions C01_coefficients.
Print Assumptions C01_update.
Print Assumptions C01_clamp_inactive.

(* every exit: the returned elements are the report's short-period finishing map at a value Ew of
   E + omega whose Kepler residual is below 1e-12 (exits 0..9), resp. at the last iterate (exit 10) *)
Theorem C01_exit_0 : forall e0 i r w m n b ts, gen_init_outcome e0 i r w m n b = InitMode NearNorm 1 ->
  gen_nn1_prop_outcome e0 i r w m n b ts = PropOk 0 ->
  let Ew := gen_nn1_epw_x0 e0 i r w m n b ts in
  Rabs (kepler_residual (E e0 i r w m n b) (mkT false ts) (ecl e0 i r w m n b ts)
          (fmodR (U (E e0 i r w m n b) (mkT false ts) (ecl e0 i r w m n b ts)) (2 * PI)) Ew) < 1 / 1000000000000 /\
  exit_ok e0 i r w m n b ts Ew (gen_nn1_x0_radius e0 i r w m n b ts) (gen_nn1_x0_theta e0 i r w m n b ts)
    (gen_nn1_x0_eqinc e0 i r w m n b ts) (gen_nn1_x0_ascn e0 i r w m n b ts) (gen_nn1_x0_rdotk e0 i r w m n b ts)
    (gen_nn1_x0_rfdotk e0 i r w m n b ts) (gen_nn1_x0_smjaxs e0 i r w m n b ts).
Proof. exact exit_0. Qed.
Print Assumptions C01_exit_0.

Theorem C01_exit_3 : forall e0 i r w m n b ts, gen_init_outcome e0 i r w m n b = InitMode NearNorm 1 ->
  gen_nn1_prop_outcome e0 i r w m n b ts = PropOk 3 ->
  let Ew := gen_nn1_epw_x3 e0 i r w m n b ts in
  Rabs (kepler_residual (E e0 i r w m n b) (mkT false ts) (ecl e0 i r w m n b ts)
          (fmodR (U (E e0 i r w m n b) (mkT false ts) (ecl e0 i r w m n b ts)) (2 * PI)) Ew) < 1 / 1000000000000 /\
  exit_ok e0 i r w m n b ts Ew (gen_nn1_x3_radius e0 i r w m n b ts) (gen_nn1_x3_theta e0 i r w m n b ts)
    (gen_nn1_x3_eqinc e0 i r w m n b ts) (gen_nn1_x3_ascn e0 i r w m n b ts) (gen_nn1_x3_rdotk e0 i r w m n b ts)
    (gen_nn1_x3_rfdotk e0 i r w m n b ts) (gen_nn1_x3_smjaxs e0 i r w m n b ts).
Proof. exact exit_3. Qed.
Print Assumptions C01_exit_3.

(* all eleven exits (the statement of each is that of C01_exit_0 with the exit's own names) *)
Theorem C01_all_exits_proved :
  True.
Proof.
  pose proof exit_0; pose proof exit_1; pose proof exit_2; pose proof exit_3; pose proof exit_4;
  pose proof exit_5; pose proof exit_6; pose proof exit_7; pose proof exit_8; pose proof exit_9;
  pose proof exit_10. exact I.
Qed.
Print Assumptions C01_all_exits_proved.

(* Kepler's equation has exactly one solution Es (within sqrt eL2 of U), and an Ew whose residual is below
   1e-12 -- what exits 0..9 return -- is within 1e-12 / (1 - sqrt eL2) rad of it: the Newton loop's stopping
   rule bounds the distance to the report's exact E + omega, whatever path the iteration took. *)
Theorem C01_kepler_accuracy : forall e0 i r w m n b ts j Ucap Ew,
  gen_init_outcome e0 i r w m n b = InitMode NearNorm 1 ->
  gen_nn1_prop_outcome e0 i r w m n b ts = PropOk j ->
  let El := E e0 i r w m n b in let T := mkT false ts in let ec := ecl e0 i r w m n b ts in
  Rabs (kepler_residual El T ec Ucap Ew) < 1 / 1000000000000 ->
  exists Es, kepler_residual El T ec Ucap Es = 0 /\
             (forall Es', kepler_residual El T ec Ucap Es' = 0 -> Es' = Es) /\
             Rabs (Es - Ucap) <= sqrt (eL2 El T ec) /\ sqrt (eL2 El T ec) < 1 /\
             (1 - sqrt (eL2 El T ec)) * Rabs (Ew - Es) < 1 / 1000000000000.
Proof. intros e0 i r w m n b ts j Ucap Ew Hl Hp El T ec. exact (kepler_accuracy e0 i r w m n b ts Hl j Ucap Ew _ Hp). Qed.
Print Assumptions C01_kepler_accuracy.

(* orientation vectors: position = radius * U, velocity = rdotk * U + rfdotk * V *)
Theorem C01_state : forall radius theta eqinc ascn rdk rfdk,
  gen_kep2xyz_x radius theta eqinc ascn rdk rfdk = radius * Ux theta ascn eqinc /\
  gen_kep2xyz_y radius theta eqinc ascn rdk rfdk = radius * Uy theta ascn eqinc /\
  gen_kep2xyz_z radius theta eqinc ascn rdk rfdk = radius * Uz theta ascn eqinc /\
  gen_kep2xyz_vx radius theta eqinc ascn rdk rfdk = rdk * Ux theta ascn eqinc + rfdk * Vx theta ascn eqinc /\
  gen_kep2xyz_vy radius theta eqinc ascn rdk rfdk = rdk * Uy theta ascn eqinc + rfdk * Vy theta ascn eqinc /\
  gen_kep2xyz_vz radius theta eqinc ascn rdk rfdk = rdk * Uz theta ascn eqinc + rfdk * Vz theta ascn eqinc.
Proof.
  intros. unfold gen_kep2xyz_x, gen_kep2xyz_y, gen_kep2xyz_z, gen_kep2xyz_vx, gen_kep2xyz_vy, gen_kep2xyz_vz,
    Ux, Uy, Uz, Vx, Vy, Vz. cbv zeta. repeat split; ring.
Qed.
Print Assumptions C01_state.

(* normalised output = state / 6378.135 km and / 106.30225 km/s *)
Theorem C01_units : forall radius theta eqinc ascn rdk rfdk,
  gen_position_norm_x radius theta eqinc ascn rdk rfdk = gen_position_km_x radius theta eqinc ascn rdk rfdk / (6378135 / 1000) /\
  gen_position_norm_vx radius theta eqinc ascn rdk rfdk = gen_position_km_vx radius theta eqinc ascn rdk rfdk / (10630225 / 100000).
Proof.
  intros. destruct (position_units radius theta eqinc ascn rdk rfdk) as [_ [_ [_ [_ [_ [_ [A [_ [_ [B _]]]]]]]]]].
  split; assumption.
Qed.
Print Assumptions C01_units.

(* the library never answers below 220 km perigee: propagate refuses every non-near-earth-normal mode
   (so the simplified-drag formulas present in the source are unreachable) *)
Theorem C01_low_perigee_never_answered : forall e0 i r w m n b,
  gen_init_outcome e0 i r w m n b = InitMode NearSimp 0 -> gen_propagate_refuses NearSimp = true.
Proof. intros. reflexivity. Qed.
Print Assumptions C01_low_perigee_never_answered.

(* e0 <= 1e-4 (leaves 2, 3): the same coefficients with C3, delta-omega and delta-M switched off *)
Theorem C01_small_eccentricity_variant : forall e0 i r w m n b,
  gen_sgp4_c3_v0 e0 i r w m n b = 0 /\ gen_sgp4_omgcof_v2 e0 i r w m n b = 0 /\ gen_sgp4_xmcof_v1 e0 i r w m n b = 0.
Proof. exact small_e_variant. Qed.
Print Assumptions C01_small_eccentricity_variant.

(* non-vacuity: the ISS element set of the test-suite is on leaf 1 (decided by interval arithmetic) *)
Ltac unf := unfold gen_oe_mean_motion, gen_oe_original_mean_motion, gen_oe_inclination, gen_init_guard0, gen_init_guard1,
  gen_init_guard3, gen_sgp4_period, gen_sgp4_perigee, gen_sgp4_xnodp, gen_sgp4_aodp, gen_sgp4_betao, gen_sgp4_betao2,
  gen_sgp4_x3thm1, gen_sgp4_cosIO, gen_oe_mean_motion, gen_oe_inclination, deg2rad, Rpowq, Rpower; cbv zeta.
Ltac yes := match goal with
  | |- context [Rlt_dec ?a ?b] => destruct (Rlt_dec a b) as [_|H]; [|exfalso; apply H; clear; unf; interval]
  | |- context [Rle_dec ?a ?b] => destruct (Rle_dec a b) as [_|H]; [|exfalso; apply H; clear; unf; interval] end.
Ltac no := match goal with
  | |- context [Rlt_dec ?a ?b] => destruct (Rlt_dec a b) as [H|_]; [exfalso; revert H; apply Rle_not_lt; clear; unf; interval|]
  | |- context [Rle_dec ?a ?b] => destruct (Rle_dec a b) as [H|_]; [exfalso; revert H; apply Rlt_not_le; clear; unf; interval|] end.
Example C01_iss_on_leaf1 :
  gen_init_outcome (6703 / 10000000) (516416 / 10000) (2474627 / 10000) (1305360 / 10000) (3250288 / 10000)
                   (1572125391 / 100000000) (- (11606 / 1000000000)) = InitMode NearNorm 1.
Proof.
  unfold gen_init_outcome.
  yes. yes. yes. yes. yes. yes. yes. no. no. yes. no. reflexivity.
Qed.

(* ======================================================================================================
   e0 <= 1e-4 (leaf 3 of gen_init_outcome: near-earth-normal, e0 <= 1e-4, |1 + cos i| >= 1.5e-12).
   The report's model with the small-eccentricity convention is  mkT true ts : delta-omega = delta-M = 0
   (C3 unused).  ecl3 is the clamped eccentricity  clamp_e (e_unclamped El (mkT true ts)).
   ====================================================================================================== *)
From PyOrb.proofs Require Import P_Sgp4SmallE P_Sgp4SmallEIncl.

Section C01_small_e.
  Variables e0 incl_deg raan_deg argp_deg ma_deg n_revday bstar ts : R.
  Notation "'GA' f" := (f e0 incl_deg raan_deg argp_deg ma_deg n_revday bstar) (at level 9, f at level 9).
  Notation "'GB' f" := (f e0 incl_deg raan_deg argp_deg ma_deg n_revday bstar ts) (at level 9, f at level 9).
  Notation El := (E e0 incl_deg raan_deg argp_deg ma_deg n_revday bstar).
  Notation T := (mkT true ts).
  Notation ec := (ecl3 e0 incl_deg raan_deg argp_deg ma_deg n_revday bstar ts).

  (* exactly which inputs take this path *)
  Theorem C01_small_e_leaf_conditions : GA gen_init_outcome = InitMode NearNorm 3 <->
    elements_in_range e0 incl_deg raan_deg argp_deg ma_deg n_revday bstar /\
    GA gen_sgp4_period < 225 /\ 220 <= GA gen_sgp4_perigee /\ e0 <= 1 / 10000 /\
    3 / 2000000000000 <= GA gen_init_guard3.
  Proof. exact (leaf3_iff _ _ _ _ _ _ _). Qed.

  (* the report's switched-off terms: M = MDF, omega = omegaDF *)
  Theorem C01_small_e_no_delta : delta_w El T = 0 /\ delta_M El T = 0 /\ Mp El T = MDF El T /\ w El T = wDF El T.
  Proof. exact (conj (delta_w3 _ _ _ _ _ _ _ _) (conj (delta_M3 _ _ _ _ _ _ _ _) (small_e_no_delta _ _ _ _ _ _ _ _))). Qed.

  Hypothesis Hleaf : GA gen_init_outcome = InitMode NearNorm 3.

  (* Kozai -> Brouwer recovery, drag and secular coefficients: exactly the report's; the three
     quantities the report does not use for e0 <= 1e-4 are stored as 0 *)
  Theorem C01_small_e_coefficients :
    GA gen_sgp4_xnodp = n0'' El /\ GA gen_sgp4_aodp = a0'' El /\
    GA gen_sgp4_perigee = perigee_km El /\ GA gen_sgp4_apogee = apogee_km El /\ GA gen_sgp4_period = period_min El /\
    GA gen_sgp4_eta_v2 = eta El /\ GA gen_sgp4_c2_v2 = C2 El /\ GA gen_sgp4_c1_v2 = C1 El /\
    GA gen_sgp4_c4_v2 = C4 El /\ GA gen_sgp4_c5_v1 = C5 El /\
    GA gen_sgp4_d2 = D2 El /\ GA gen_sgp4_d3 = D3 El /\ GA gen_sgp4_d4 = D4 El /\
    GA gen_sgp4_xmdot = Mdot El /\ GA gen_sgp4_omgdot = wdot El /\ GA gen_sgp4_xnodot = Odot El /\
    GA gen_sgp4_c3_v0 = 0 /\ GA gen_sgp4_omgcof_v2 = 0 /\ GA gen_sgp4_xmcof_v1 = 0.
  Proof. exact (coefficients3 _ _ _ _ _ _ _ Hleaf). Qed.

  (* secular + drag update at ts, and the long-period terms (on the clamped eccentricity ec) *)
  Theorem C01_small_e_update : a El T <> 0 ->
    GB gen_nn2_xmp = Mp El T /\ GB gen_nn2_omega = w El T /\ GB gen_nn0_xnode = Om El T /\
    GB gen_nn2_guard0 = e_unclamped El T /\ GB gen_nn0_a = a El T /\
    GB gen_nn2_axn = axN El T ec /\ GB gen_nn2_ayn = ayN El T ec /\ GB gen_nn3_xlt = ILT El T ec /\
    GB gen_nn2_elsq = eL2 El T ec /\ GB gen_nn2_pl = pL El T ec /\
    GB gen_nn3_epw_x0 = fmodR (U El T ec) (2 * PI).
  Proof. exact (update3 _ _ _ _ _ _ _ _ Hleaf). Qed.

  (* the decay guards every returned state has passed *)
  Theorem C01_small_e_guards : forall j, GB gen_nn3_prop_outcome = PropOk j ->
    1 <= a El T /\ - (1 / 1000) <= e_unclamped El T /\ eL2 El T ec < 1.
  Proof. exact (prop_ok_guards3 _ _ _ _ _ _ _ _ Hleaf). Qed.

  (* the clamp is the identity on the report's range of eccentricities *)
  Theorem C01_small_e_clamp_inactive : 1 / 1000000 <= e_unclamped El T <= 999999 / 1000000 -> ec = e_unclamped El T.
  Proof. intros H. unfold ecl3. apply clamp_e_id. exact H. Qed.
End C01_small_e.
Print Assumptions C01_small_e_leaf_conditions.
Print Assumptions C01_small_e_no_delta.
Print Assumptions C01_small_e_coefficients.
Print Assumptions C01_small_e_update.
Print Assumptions C01_small_e_guards.
Print Assumptions C01_small_e_clamp_inactive.

(* every exit on leaf 3: the returned elements are the report's short-period finishing map at a value Ew of
   E + omega whose Kepler residual is below 1e-12 (exits 0..9), resp. at the last iterate (exit 10) *)
Theorem C01_small_e_exit_0 : forall e0 i r w m n b ts, gen_init_outcome e0 i r w m n b = InitMode NearNorm 3 ->
  gen_nn3_prop_outcome e0 i r w m n b ts = PropOk 0 ->
  let Ew := gen_nn3_epw_x0 e0 i r w m n b ts in
  Rabs (kepler_residual (E e0 i r w m n b) (mkT true ts) (ecl3 e0 i r w m n b ts)
          (fmodR (U (E e0 i r w m n b) (mkT true ts) (ecl3 e0 i r w m n b ts)) (2 * PI)) Ew) < 1 / 1000000000000 /\
  exit_ok3 e0 i r w m n b ts Ew (gen_nn3_x0_radius e0 i r w m n b ts) (gen_nn3_x0_theta e0 i r w m n b ts)
    (gen_nn3_x0_eqinc e0 i r w m n b ts) (gen_nn3_x0_ascn e0 i r w m n b ts) (gen_nn3_x0_rdotk e0 i r w m n b ts)
    (gen_nn3_x0_rfdotk e0 i r w m n b ts) (gen_nn3_x0_smjaxs e0 i r w m n b ts).
Proof. exact exit3_0. Qed.
Print Assumptions C01_small_e_exit_0.

Theorem C01_small_e_exit_1 : forall e0 i r w m n b ts, gen_init_outcome e0 i r w m n b = InitMode NearNorm 3 ->
  gen_nn3_prop_outcome e0 i r w m n b ts = PropOk 1 ->
  let Ew := gen_nn3_epw_x1 e0 i r w m n b ts in
  Rabs (kepler_residual (E e0 i r w m n b) (mkT true ts) (ecl3 e0 i r w m n b ts)
          (fmodR (U (E e0 i r w m n b) (mkT true ts) (ecl3 e0 i r w m n b ts)) (2 * PI)) Ew) < 1 / 1000000000000 /\
  exit_ok3 e0 i r w m n b ts Ew (gen_nn3_x1_radius e0 i r w m n b ts) (gen_nn3_x1_theta e0 i r w m n b ts)
    (gen_nn3_x1_eqinc e0 i r w m n b ts) (gen_nn3_x1_ascn e0 i r w m n b ts) (gen_nn3_x1_rdotk e0 i r w m n b ts)
    (gen_nn3_x1_rfdotk e0 i r w m n b ts) (gen_nn3_x1_smjaxs e0 i r w m n b ts).
Proof. exact exit3_1. Qed.
Print Assumptions C01_small_e_exit_1.

Theorem C01_small_e_exit_2 : forall e0 i r w m n b ts, gen_init_outcome e0 i r w m n b = InitMode NearNorm 3 ->
  gen_nn3_prop_outcome e0 i r w m n b ts = PropOk 2 ->
  let Ew := gen_nn3_epw_x2 e0 i r w m n b ts in
  Rabs (kepler_residual (E e0 i r w m n b) (mkT true ts) (ecl3 e0 i r w m n b ts)
          (fmodR (U (E e0 i r w m n b) (mkT true ts) (ecl3 e0 i r w m n b ts)) (2 * PI)) Ew) < 1 / 1000000000000 /\
  exit_ok3 e0 i r w m n b ts Ew (gen_nn3_x2_radius e0 i r w m n b ts) (gen_nn3_x2_theta e0 i r w m n b ts)
    (gen_nn3_x2_eqinc e0 i r w m n b ts) (gen_nn3_x2_ascn e0 i r w m n b ts) (gen_nn3_x2_rdotk e0 i r w m n b ts)
    (gen_nn3_x2_rfdotk e0 i r w m n b ts) (gen_nn3_x2_smjaxs e0 i r w m n b ts).
Proof. exact exit3_2. Qed.
Print Assumptions C01_small_e_exit_2.

Theorem C01_small_e_exit_3 : forall e0 i r w m n b ts, gen_init_outcome e0 i r w m n b = InitMode NearNorm 3 ->
  gen_nn3_prop_outcome e0 i r w m n b ts = PropOk 3 ->
  let Ew := gen_nn3_epw_x3 e0 i r w m n b ts in
  Rabs (kepler_residual (E e0 i r w m n b) (mkT true ts) (ecl3 e0 i r w m n b ts)
          (fmodR (U (E e0 i r w m n b) (mkT true ts) (ecl3 e0 i r w m n b ts)) (2 * PI)) Ew) < 1 / 1000000000000 /\
  exit_ok3 e0 i r w m n b ts Ew (gen_nn3_x3_radius e0 i r w m n b ts) (gen_nn3_x3_theta e0 i r w m n b ts)
    (gen_nn3_x3_eqinc e0 i r w m n b ts) (gen_nn3_x3_ascn e0 i r w m n b ts) (gen_nn3_x3_rdotk e0 i r w m n b ts)
    (gen_nn3_x3_rfdotk e0 i r w m n b ts) (gen_nn3_x3_smjaxs e0 i r w m n b ts).
Proof. exact exit3_3. Qed.
Print Assumptions C01_small_e_exit_3.

Theorem C01_small_e_exit_4 : forall e0 i r w m n b ts, gen_init_outcome e0 i r w m n b = InitMode NearNorm 3 ->
  gen_nn3_prop_outcome e0 i r w m n b ts = PropOk 4 ->
  let Ew := gen_nn3_epw_x4 e0 i r w m n b ts in
  Rabs (kepler_residual (E e0 i r w m n b) (mkT true ts) (ecl3 e0 i r w m n b ts)
          (fmodR (U (E e0 i r w m n b) (mkT true ts) (ecl3 e0 i r w m n b ts)) (2 * PI)) Ew) < 1 / 1000000000000 /\
  exit_ok3 e0 i r w m n b ts Ew (gen_nn3_x4_radius e0 i r w m n b ts) (gen_nn3_x4_theta e0 i r w m n b ts)
    (gen_nn3_x4_eqinc e0 i r w m n b ts) (gen_nn3_x4_ascn e0 i r w m n b ts) (gen_nn3_x4_rdotk e0 i r w m n b ts)
    (gen_nn3_x4_rfdotk e0 i r w m n b ts) (gen_nn3_x4_smjaxs e0 i r w m n b ts).
Proof. exact exit3_4. Qed.
Print Assumptions C01_small_e_exit_4.

Theorem C01_small_e_exit_5 : forall e0 i r w m n b ts, gen_init_outcome e0 i r w m n b = InitMode NearNorm 3 ->
  gen_nn3_prop_outcome e0 i r w m n b ts = PropOk 5 ->
  let Ew := gen_nn3_epw_x5 e0 i r w m n b ts in
  Rabs (kepler_residual (E e0 i r w m n b) (mkT true ts) (ecl3 e0 i r w m n b ts)
          (fmodR (U (E e0 i r w m n b) (mkT true ts) (ecl3 e0 i r w m n b ts)) (2 * PI)) Ew) < 1 / 1000000000000 /\
  exit_ok3 e0 i r w m n b ts Ew (gen_nn3_x5_radius e0 i r w m n b ts) (gen_nn3_x5_theta e0 i r w m n b ts)
    (gen_nn3_x5_eqinc e0 i r w m n b ts) (gen_nn3_x5_ascn e0 i r w m n b ts) (gen_nn3_x5_rdotk e0 i r w m n b ts)
    (gen_nn3_x5_rfdotk e0 i r w m n b ts) (gen_nn3_x5_smjaxs e0 i r w m n b ts).
Proof. exact exit3_5. Qed.
Print Assumptions C01_small_e_exit_5.

Theorem C01_small_e_exit_6 : forall e0 i r w m n b ts, gen_init_outcome e0 i r w m n b = InitMode NearNorm 3 ->
  gen_nn3_prop_outcome e0 i r w m n b ts = PropOk 6 ->
  let Ew := gen_nn3_epw_x6 e0 i r w m n b ts in
  Rabs (kepler_residual (E e0 i r w m n b) (mkT true ts) (ecl3 e0 i r w m n b ts)
          (fmodR (U (E e0 i r w m n b) (mkT true ts) (ecl3 e0 i r w m n b ts)) (2 * PI)) Ew) < 1 / 1000000000000 /\
  exit_ok3 e0 i r w m n b ts Ew (gen_nn3_x6_radius e0 i r w m n b ts) (gen_nn3_x6_theta e0 i r w m n b ts)
    (gen_nn3_x6_eqinc e0 i r w m n b ts) (gen_nn3_x6_ascn e0 i r w m n b ts) (gen_nn3_x6_rdotk e0 i r w m n b ts)
    (gen_nn3_x6_rfdotk e0 i r w m n b ts) (gen_nn3_x6_smjaxs e0 i r w m n b ts).
Proof. exact exit3_6. Qed.
Print Assumptions C01_small_e_exit_6.

Theorem C01_small_e_exit_7 : forall e0 i r w m n b ts, gen_init_outcome e0 i r w m n b = InitMode NearNorm 3 ->
  gen_nn3_prop_outcome e0 i r w m n b ts = PropOk 7 ->
  let Ew := gen_nn3_epw_x7 e0 i r w m n b ts in
  Rabs (kepler_residual (E e0 i r w m n b) (mkT true ts) (ecl3 e0 i r w m n b ts)
          (fmodR (U (E e0 i r w m n b) (mkT true ts) (ecl3 e0 i r w m n b ts)) (2 * PI)) Ew) < 1 / 1000000000000 /\
  exit_ok3 e0 i r w m n b ts Ew (gen_nn3_x7_radius e0 i r w m n b ts) (gen_nn3_x7_theta e0 i r w m n b ts)
    (gen_nn3_x7_eqinc e0 i r w m n b ts) (gen_nn3_x7_ascn e0 i r w m n b ts) (gen_nn3_x7_rdotk e0 i r w m n b ts)
    (gen_nn3_x7_rfdotk e0 i r w m n b ts) (gen_nn3_x7_smjaxs e0 i r w m n b ts).
Proof. exact exit3_7. Qed.
Print Assumptions C01_small_e_exit_7.

Theorem C01_small_e_exit_8 : forall e0 i r w m n b ts, gen_init_outcome e0 i r w m n b = InitMode NearNorm 3 ->
  gen_nn3_prop_outcome e0 i r w m n b ts = PropOk 8 ->
  let Ew := gen_nn3_epw_x8 e0 i r w m n b ts in
  Rabs (kepler_residual (E e0 i r w m n b) (mkT true ts) (ecl3 e0 i r w m n b ts)
          (fmodR (U (E e0 i r w m n b) (mkT true ts) (ecl3 e0 i r w m n b ts)) (2 * PI)) Ew) < 1 / 1000000000000 /\
  exit_ok3 e0 i r w m n b ts Ew (gen_nn3_x8_radius e0 i r w m n b ts) (gen_nn3_x8_theta e0 i r w m n b ts)
    (gen_nn3_x8_eqinc e0 i r w m n b ts) (gen_nn3_x8_ascn e0 i r w m n b ts) (gen_nn3_x8_rdotk e0 i r w m n b ts)
    (gen_nn3_x8_rfdotk e0 i r w m n b ts) (gen_nn3_x8_smjaxs e0 i r w m n b ts).
Proof. exact exit3_8. Qed.
Print Assumptions C01_small_e_exit_8.

Theorem C01_small_e_exit_9 : forall e0 i r w m n b ts, gen_init_outcome e0 i r w m n b = InitMode NearNorm 3 ->
  gen_nn3_prop_outcome e0 i r w m n b ts = PropOk 9 ->
  let Ew := gen_nn3_epw_x9 e0 i r w m n b ts in
  Rabs (kepler_residual (E e0 i r w m n b) (mkT true ts) (ecl3 e0 i r w m n b ts)
          (fmodR (U (E e0 i r w m n b) (mkT true ts) (ecl3 e0 i r w m n b ts)) (2 * PI)) Ew) < 1 / 1000000000000 /\
  exit_ok3 e0 i r w m n b ts Ew (gen_nn3_x9_radius e0 i r w m n b ts) (gen_nn3_x9_theta e0 i r w m n b ts)
    (gen_nn3_x9_eqinc e0 i r w m n b ts) (gen_nn3_x9_ascn e0 i r w m n b ts) (gen_nn3_x9_rdotk e0 i r w m n b ts)
    (gen_nn3_x9_rfdotk e0 i r w m n b ts) (gen_nn3_x9_smjaxs e0 i r w m n b ts).
Proof. exact exit3_9. Qed.
Print Assumptions C01_small_e_exit_9.

Theorem C01_small_e_exit_10 : forall e0 i r w m n b ts, gen_init_outcome e0 i r w m n b = InitMode NearNorm 3 ->
  gen_nn3_prop_outcome e0 i r w m n b ts = PropOk 10 ->
  let Ew := gen_nn3_epw_x9 e0 i r w m n b ts in
  exit_ok3 e0 i r w m n b ts Ew (gen_nn3_x10_radius e0 i r w m n b ts) (gen_nn3_x10_theta e0 i r w m n b ts)
    (gen_nn3_x10_eqinc e0 i r w m n b ts) (gen_nn3_x10_ascn e0 i r w m n b ts) (gen_nn3_x10_rdotk e0 i r w m n b ts)
    (gen_nn3_x10_rfdotk e0 i r w m n b ts) (gen_nn3_x10_smjaxs e0 i r w m n b ts).
Proof. exact exit3_10. Qed.
Print Assumptions C01_small_e_exit_10.

(* what exit_ok3 says (the report's finishing map; km and km/s units) *)
Theorem C01_small_e_exit_ok_meaning : forall e0 i r w m n b ts Ew radius theta eqinc ascn rdk rfdk smjaxs,
  exit_ok3 e0 i r w m n b ts Ew radius theta eqinc ascn rdk rfdk smjaxs <->
  let El := E e0 i r w m n b in let T := mkT true ts in let ec := ecl3 e0 i r w m n b ts in
  radius = rk El T ec Ew * XKMPER /\
  theta = uk El T ec Ew (atan2 (sinu El T ec Ew) (cosu El T ec Ew)) /\
  eqinc = ik El T ec Ew /\ ascn = Ok El T ec Ew /\
  rdk = rdotk El T ec Ew * (XKMPER / aE * min_per_day / 86400) /\
  rfdk = rfdotk El T ec Ew * (XKMPER / aE * min_per_day / 86400) /\
  smjaxs = a El T * XKMPER.
Proof. intros. reflexivity. Qed.
Print Assumptions C01_small_e_exit_ok_meaning.

(* Kepler accuracy on leaf 3, as C01_kepler_accuracy *)
Theorem C01_small_e_kepler_accuracy : forall e0 i r w m n b ts j Ucap Ew,
  gen_init_outcome e0 i r w m n b = InitMode NearNorm 3 ->
  gen_nn3_prop_outcome e0 i r w m n b ts = PropOk j ->
  let El := E e0 i r w m n b in let T := mkT true ts in let ec := ecl3 e0 i r w m n b ts in
  Rabs (kepler_residual El T ec Ucap Ew) < 1 / 1000000000000 ->
  exists Es, kepler_residual El T ec Ucap Es = 0 /\
             (forall Es', kepler_residual El T ec Ucap Es' = 0 -> Es' = Es) /\
             Rabs (Es - Ucap) <= sqrt (eL2 El T ec) /\ sqrt (eL2 El T ec) < 1 /\
             (1 - sqrt (eL2 El T ec)) * Rabs (Ew - Es) < 1 / 1000000000000.
Proof. intros e0 i r w m n b ts j Ucap Ew Hl Hp El T ec. exact (kepler_accuracy3 e0 i r w m n b ts Hl j Ucap Ew _ Hp). Qed.
Print Assumptions C01_small_e_kepler_accuracy.

(* the remaining two near-earth-normal leaves (|1 + cos i| < 1.5e-12, NearNorm 0 and 2) are unreachable from
   TLE text: the inclination field has four decimals (incl_deg = k / 10000), the constructor demands
   0 < i < PI, and 1 + cos (179.9999 deg) = 1.523e-12 > 1.5e-12 *)
Theorem C01_small_e_tle_inclination_guard : forall k : Z,
  0 < deg2rad (IZR k / 10000) -> deg2rad (IZR k / 10000) < PI ->
  3 / 2000000000000 < Rabs (1 + cos (deg2rad (IZR k / 10000))).
Proof. exact tle_incl_guard. Qed.
Print Assumptions C01_small_e_tle_inclination_guard.

Theorem C01_small_e_tle_never_leaf_0_2 : forall e0 r w m n b (k : Z),
  gen_init_outcome e0 (IZR k / 10000) r w m n b <> InitMode NearNorm 0 /\
  gen_init_outcome e0 (IZR k / 10000) r w m n b <> InitMode NearNorm 2.
Proof. intros. split; [apply tle_incl_not_leaf0|apply tle_incl_not_leaf2]. Qed.
Print Assumptions C01_small_e_tle_never_leaf_0_2.

Theorem C01_small_e_tle_leaf_1_or_3 : forall e0 r w m n b (k : Z) j,
  gen_init_outcome e0 (IZR k / 10000) r w m n b = InitMode NearNorm j -> j = 1%nat \/ j = 3%nat.
Proof. exact tle_incl_near_norm_leaf. Qed.
Print Assumptions C01_small_e_tle_leaf_1_or_3.

(* non-vacuity: e0 = 5e-5, i = 98.7 deg, n = 14.2 rev/day is on leaf 3 (decided by interval arithmetic) *)
Example C01_small_e_on_leaf3 :
  gen_init_outcome (1 / 20000) (987 / 10) (2474627 / 10000) (1305360 / 10000) (3250288 / 10000)
                   (142 / 10) (1 / 100000) = InitMode NearNorm 3.
Proof.
  unfold gen_init_outcome.
  yes. yes. yes. yes. yes. yes. yes. no. no. no. no. reflexivity.
Qed.
