(* C10, source tie.  Statements only.  Built when translator/gen_collection.py accepts the current source (it is
   fail-closed; otherwise the check rests on the correspondence-tied hand model of props/C10.v alone and says so). *)
From Coq Require Import List Ascii Bool Arith.
From PyOrb.model Require Import M_Collection.
From PyOrb.gen Require Import Gen_collection.
From PyOrb.proofs Require Import P_GenCollection.
Import ListNotations.

(* gen_decode_lines is REGENERATED on every run from the if / elif / nested-if tests of tlefile._decode_lines:
   which line becomes line 1 / line 2 of an entry (the line handed in, or the k-th pulled with next(fid)), how
   many lines are pulled, or that nothing is taken.  It is the decision of the hand model, for every registry,
   platform, flag combination and line: *)
Theorem C10_source_decision : forall sats platform only_first dummy l0,
  gen_decode_lines sats platform only_first dummy l0 =
  match classify sats platform l0 with
  | BName => mkAct (Some (Pull 1, Pull 2)) 2
  | BDesig => if take_cond sats platform only_first dummy then mkAct (Some (L0, Pull 1)) 1 else mkAct None 0
  | BOther => mkAct None 0
  end.
Proof. exact gen_decode_lines_correct. Qed.
Print Assumptions C10_source_decision.

(* and the model's loop is, at every line of every source, the application of that regenerated decision to the
   shared cursor (too few lines left: StopIteration; first entry wanted: return it; otherwise append and go on),
   the loop of _get_tles_from_url having the shape the model follows (checked structurally by the translator) *)
Theorem C10_source_loop : forall sats platform only_first dummy l0 fid1 tles,
  scan sats platform only_first dummy (l0 :: fid1) tles
  = turn sats platform only_first dummy (gen_decode_lines sats platform only_first dummy l0) l0 fid1 tles.
Proof. exact scan_is_generated_turn. Qed.
Print Assumptions C10_source_loop.

Theorem C10_source_merge : forall l1 l2, gen_merge l1 l2 = strip l1 ++ [nl] ++ strip l2.
Proof. exact gen_merge_correct. Qed.
Print Assumptions C10_source_merge.

Example C10_source_loop_shape : gen_loop_is_scan = true.
Proof. reflexivity. Qed.
