(* C17 — downloads degrade per URI; timeouts are loud.  Statements only.
   Model: model/M_Download.v (hand-written; tied to tlefile.Downloader by the exhaustive
   outcome-assignment run of checks/c17.py under an interposed requests layer). *)
From Coq Require Import List ZArith Bool.
From PyOrb.model Require Import M_Download.
From PyOrb.proofs Require Import P_Download.
Import ListNotations.
Open Scope Z_scope.

(* `served o` = the entries of a URI answering 200 with parsable text, else nothing;
   `expected cfg` = per source (configuration order) the in-order concatenation of `served`;
   `raises o` = Some TimeoutError for a timeout, Some (ParseError _) for 200-text the parser chokes on. *)

(* the result, whenever there is one, is exactly the concatenation, and every configured source
   is present (in order) — for ANY number of sources and URIs *)
Theorem C17_concat : forall (S : Type) (cfg : list (S * list outcome)) r,
  fetch_sources cfg = Ok r -> r = expected cfg /\ map fst r = map fst cfg.
Proof. intros S. exact (@concat_when_returns S). Qed.
Print Assumptions C17_concat.

(* and there is a result exactly when no URI times out or serves text the parser raises on *)
Theorem C17_concat_total : forall (S : Type) (cfg : list (S * list outcome)),
  (forall o, In o (uris cfg) -> raises o = None) -> fetch_sources cfg = Ok (expected cfg).
Proof. intros S. exact (@concat_total S). Qed.
Print Assumptions C17_concat_total.

Theorem C17_returns_iff : forall (S : Type) (cfg : list (S * list outcome)),
  (exists r, fetch_sources cfg = Ok r) <-> (forall o, In o (uris cfg) -> raises o = None).
Proof. intros S. exact (@returns_iff S). Qed.
Print Assumptions C17_returns_iff.

(* an HTTP error status contributes nothing and removes nothing: the outcome of the whole call
   (result or exception) equals that of the configuration with that URI deleted *)
Theorem C17_isolation : forall (S : Type) (pre post : list (S * list outcome)) s us1 us2 st b,
  st <> 200 ->
  fetch_sources (pre ++ (s, us1 ++ Resp st b :: us2) :: post) =
  fetch_sources (pre ++ (s, us1 ++ us2) :: post).
Proof. intros S. exact (@isolation S). Qed.
Print Assumptions C17_isolation.

(* never a shortened result: a returned result implies no URI timed out *)
Theorem C17_timeout_loud : forall (S : Type) (cfg : list (S * list outcome)) r,
  fetch_sources cfg = Ok r -> forall s us, In (s, us) cfg -> ~ In Timeout us.
Proof. intros S. exact (@no_timeout_in_result S). Qed.
Print Assumptions C17_timeout_loud.

(* a timeout that is reached surfaces as TleDownloadTimeoutError *)
Theorem C17_timeout_reached : forall (S : Type) (pre post : list (S * list outcome)) s us1 us2,
  (forall o, In o (uris pre ++ us1) -> raises o = None) ->
  fetch_sources (pre ++ (s, us1 ++ Timeout :: us2) :: post) = Raise TimeoutError.
Proof. intros S. exact (@timeout_reached S). Qed.
Print Assumptions C17_timeout_reached.

(* with parsable bodies everywhere: TimeoutError iff some URI times out, else the full result *)
Theorem C17_timeout_iff : forall (S : Type) (cfg : list (S * list outcome)),
  (forall o, In o (uris cfg) -> body_clean o) ->
  (In Timeout (uris cfg) -> fetch_sources cfg = Raise TimeoutError) /\
  (~ In Timeout (uris cfg) -> fetch_sources cfg = Ok (expected cfg)).
Proof. intros S. exact (@timeout_iff_clean S). Qed.
Print Assumptions C17_timeout_iff.

(* success with non-TLE text (no line starting with "1 ": blank lines, names, HTML) -> no entries *)
Theorem C17_nontle_text : forall b,
  forallb (fun l => negb (starts1 l)) b = true -> parse_body b = inl [].
Proof. exact nontle_no_entries. Qed.
Print Assumptions C17_nontle_text.

(* a TLE collection with arbitrary filler (names, blank lines) between entries yields exactly
   its entries in order *)
Theorem C17_body_entries : forall bs tail,
  forallb block_ok bs = true -> forallb (fun l => negb (starts1 l)) tail = true ->
  parse_body (flat_map block_lines bs ++ tail) = inl (map block_entry bs).
Proof. exact wellformed_body. Qed.
Print Assumptions C17_body_entries.

Theorem C17_spacetrack : forall ls qs b,
  fetch_spacetrack ls (qs, b) =
    if negb (ls =? 200) then (Ok [], false)                (* failed login: empty, no query *)
    else if negb (qs =? 200) then (Ok [], true)            (* failed query: empty *)
    else (match parse_body b with inl es => Ok es | inr e => Raise (ParseError e) end, true).
Proof. exact spacetrack_all. Qed.
Print Assumptions C17_spacetrack.

(* REFUTED part of "success with non-TLE text": a 200 body with a line that starts with "1 " but
   is no TLE line, or a lone line 1, raises and loses the data of every other URI and source
   (known finding C17:body-line-starting-with-1-not-tle) *)
Theorem C17_line1_refuted : exists cfg : list (Z * list outcome),
  (forall o, In o (uris cfg) -> exists b, o = Resp 200 b) /\
  served (Resp 200 [LText; LOne 1; LTwo 1]) = [(1, 1)] /\
  fetch_sources cfg = Raise (ParseError ETle).
Proof. exact line1_refuted. Qed.
Print Assumptions C17_line1_refuted.

(* non-vacuity: three sources, mixed outcomes *)
Example C17_inhabited :
  fetch_sources [(1, [Resp 200 [LText; LOne 1; LTwo 1; LBlank]; Resp 404 [LJunk1]; Resp 200 [LOne 2; LTwo 2; LOne 3; LTwo 3]]);
                 (2, [Resp 500 []]);
                 (3, [Resp 200 [LText; LBlank; LText]])]
  = Ok [(1, [(1, 1); (2, 2); (3, 3)]); (2, []); (3, [])]
  /\ fetch_sources [(1, [Resp 200 [LOne 1; LTwo 1]]); (2, [Resp 404 []; Timeout])] = Raise TimeoutError
  /\ fetch_spacetrack 200 (200, [LOne 5; LTwo 5]) = (Ok [(5, 5)], true)
  /\ fetch_spacetrack 401 (200, [LOne 5; LTwo 5]) = (Ok [], false).
Proof. vm_compute. repeat split; reflexivity. Qed.
