(* C03 — pass prediction.  Statements only.  Model: model/M_Passes.v (hand-written executable model of
   the control logic of Orbital.get_next_passes over the one-minute samples; tied to orbital.py by the
   correspondence run of checks/c03.py, which feeds the implementation's own samples and recorded
   _get_root results to the model inside Coq).
   PROVED here: everything about the index/pairing/guard/bracket logic, for every sample list of any
   length and every oracle `root` meeting its contract.  NOT proved (oracles, validated by sampling in
   checks/c03.py): _get_root/scipy brentq returns a point of the bracketing minute where the elevation
   is within 1e-4 deg of the horizon; the parabolic iteration `_get_max_parab` ends within 0.01 deg of
   the true maximum and strictly between rise and fall; "above the horizon" BETWEEN minute samples. *)
From Coq Require Import List ZArith QArith Qminmax Reals.
From PyOrb.model Require Import M_Passes.
From PyOrb.proofs Require Import P_Passes.
Import ListNotations.
Open Scope Z_scope.

(* rise < fall for every reported pass, for EVERY oracle (the guard `if not risemins < fallmins`) *)
Theorem C03_rise_before_fall : forall xs root p,
  In p (passes xs root) -> (p_rise p < p_fall p)%Q.
Proof. exact pass_rise_lt_fall. Qed.
Print Assumptions C03_rise_before_fall.

(* each reported pass: rise guess strictly before fall guess, both roots inside their bracketing
   minutes, start <= rise < fall <= last sample *)
Theorem C03_order : forall xs root p,
  root_ok xs root -> In p (passes xs root) ->
  (p_rg p < p_fg p)%nat /\ In (p_rg p) (zcs xs) /\ In (p_fg p) (zcs xs) /\
  (qn (p_rg p) <= p_rise p /\ p_rise p <= qn (S (p_rg p)))%Q /\
  (qn (p_fg p) <= p_fall p /\ p_fall p <= qn (S (p_fg p)))%Q /\
  (0 <= p_rise p /\ p_rise p < p_fall p /\ p_fall p <= qn (length xs - 1))%Q.
Proof. exact pass_order. Qed.
Print Assumptions C03_order.

(* passes are reported in time order and are pairwise disjoint *)
Theorem C03_disjoint : forall xs root l1 p1 l2 p2 l3,
  root_ok xs root -> passes xs root = l1 ++ p1 :: l2 ++ p2 :: l3 ->
  (p_fg p1 < p_rg p2)%nat /\ (p_fall p1 <= p_rise p2)%Q.
Proof. exact passes_disjoint. Qed.
Print Assumptions C03_disjoint.

(* every minute sample between the rise bracket and the fall bracket is not below the horizon; the
   samples just outside are below it *)
Theorem C03_sound_samples : forall xs root p,
  In p (passes xs root) ->
  (forall i, (p_rg p < i <= p_fg p)%nat -> 0 <= sample xs i) /\
  sample xs (p_rg p) < 0 /\ sample xs (S (p_fg p)) < 0.
Proof. exact pass_samples. Qed.
Print Assumptions C03_sound_samples.

Theorem C03_sound_between : forall xs root p,
  root_ok xs root -> In p (passes xs root) ->
  forall i, (p_rise p < qn i /\ qn i < p_fall p)%Q -> 0 <= sample xs i.
Proof. exact pass_samples_between. Qed.
Print Assumptions C03_sound_between.

(* completeness, discrete core: a maximal run r+1..b of non-negative samples preceded and followed by
   a negative sample inside the window yields exactly one reported pass, with these brackets,
   provided the two roots are distinct (automatic when the run has two samples or more) *)
Theorem C03_complete : forall xs root r b,
  root_ok xs root -> root_sep xs root ->
  (r < b)%nat -> (S b < length xs)%nat -> sample xs r < 0 ->
  (forall i, (r < i <= b)%nat -> 0 <= sample xs i) -> sample xs (S b) < 0 ->
  exists p, In p (passes xs root) /\ p_rg p = r /\ p_fg p = b /\
    p_rise p = root r /\ p_fall p = root b /\
    (forall q, In q (passes xs root) -> p_fg q = b -> q = p).
Proof. exact run_pass_sep. Qed.
Print Assumptions C03_complete.

(* completeness for an elevation function of real time (minutes): an interval [t1,t2] longer than one
   minute on which the satellite is not below the horizon, beginning after the start and ending more
   than one minute before the end (last sample = minute len-1), flanked by a minute below the horizon
   on each side, is reported exactly once, with rise/fall roots taken in the minutes containing t1, t2 *)
Theorem C03_complete_continuous : forall (el : R -> R) (xs : list Z) (root : nat -> Q),
  (forall i, (i < length xs)%nat -> ((sample xs i < 0)%Z <-> (el (IZR (Z.of_nat i)) < 0)%R)) ->
  root_ok xs root -> root_sep xs root ->
  forall t1 t2 : R,
  (0 < t1)%R -> (t1 + 1 < t2)%R -> (t2 < IZR (Z.of_nat (length xs)) - 1)%R ->
  (forall t, (t1 <= t <= t2)%R -> (0 <= el t)%R) ->
  (forall t, (t1 - 1 <= t < t1)%R -> (el t < 0)%R) ->
  (forall t, (t2 < t <= t2 + 1)%R -> (el t < 0)%R) ->
  exists p, In p (passes xs root) /\
    (IZR (Z.of_nat (p_rg p)) < t1 <= IZR (Z.of_nat (p_rg p)) + 1)%R /\
    (IZR (Z.of_nat (p_fg p)) <= t2 < IZR (Z.of_nat (p_fg p)) + 1)%R /\
    p_rise p = root (p_rg p) /\ p_fall p = root (p_fg p) /\
    (forall q, In q (passes xs root) -> p_fg q = p_fg p -> q = p).
Proof. exact interval_reported. Qed.
Print Assumptions C03_complete_continuous.

(* culmination bracket: np.argmax never sees an empty slice; the slice covers the in-pass samples;
   the bracket handed to _get_max_parab is [max(rise, middle-1), min(fall, middle+1)], of positive
   length and inside [rise, fall] *)
Theorem C03_bracket : forall xs root p,
  root_ok xs root -> In p (passes xs root) ->
  p_ok p = true /\
  (p_rg p <= p_istart p <= S (p_rg p))%nat /\ (S (p_fg p) <= p_iend p <= S (S (p_fg p)))%nat /\
  (p_iend p <= length xs)%nat /\ (p_istart p <= p_middle p < p_iend p)%nat /\
  (forall i, (p_istart p <= i < p_iend p)%nat -> sample xs i <= sample xs (p_middle p)) /\
  (forall i, (p_istart p <= i < p_middle p)%nat -> sample xs i < sample xs (p_middle p)) /\
  (p_lo p == Qmax (p_rise p) (inject_Z (Z.of_nat (p_middle p) - 1)))%Q /\
  (p_hi p == Qmin (p_fall p) (inject_Z (Z.of_nat (p_middle p) + 1)))%Q /\
  (p_rise p <= p_lo p /\ p_lo p < p_hi p /\ p_hi p <= p_fall p)%Q.
Proof. exact pass_bracket. Qed.
Print Assumptions C03_bracket.

(* ... the best sample is an in-pass sample and lies inside the bracket *)
Theorem C03_bracket_best_sample : forall xs root p,
  root_ok xs root -> In p (passes xs root) ->
  (p_rg p < p_middle p <= p_fg p)%nat /\ 0 <= sample xs (p_middle p) /\
  (forall i, (p_rg p < i <= p_fg p)%nat -> sample xs i <= sample xs (p_middle p)) /\
  (p_lo p <= qn (p_middle p) /\ qn (p_middle p) <= p_hi p)%Q.
Proof. exact pass_bracket_best. Qed.
Print Assumptions C03_bracket_best_sample.

(* if the elevation is strictly unimodal over the pass, its maximiser is within one minute of the
   best sample, i.e. inside the [middle-1, middle+1] part of the bracket *)
Theorem C03_bracket_unimodal : forall (el : R -> R) (xs : list Z) (root : nat -> Q),
  root_ok xs root ->
  (forall i j, (i < length xs)%nat -> (j < length xs)%nat ->
     (sample xs i <= sample xs j)%Z -> (el (IZR (Z.of_nat i)) <= el (IZR (Z.of_nat j)))%R) ->
  forall p, In p (passes xs root) ->
  forall tstar : R,
  (IZR (Z.of_nat (p_rg p)) <= tstar <= IZR (Z.of_nat (p_fg p)) + 1)%R ->
  (forall a b, (IZR (Z.of_nat (p_rg p)) < a)%R -> (a < b)%R -> (b <= tstar)%R -> (el a < el b)%R) ->
  (forall a b, (tstar <= a)%R -> (a < b)%R -> (b < IZR (Z.of_nat (p_fg p)) + 1)%R -> (el b < el a)%R) ->
  (IZR (Z.of_nat (p_middle p)) - 1 <= tstar <= IZR (Z.of_nat (p_middle p)) + 1)%R.
Proof. exact culmination_in_bracket. Qed.
Print Assumptions C03_bracket_unimodal.

(* corners: passes cut by the window edges are not reported (the property allows it); a sample exactly
   on the horizon counts as above it: one pass, once; a single sample touching the horizon with both
   roots on it is not a pass *)
Theorem C03_window_edges_and_zero_samples : forall root,
  passes [3; 2; -1; -2] root = [] /\ passes [-3; -2; 1; 2] root = [] /\
  map (fun p => (p_rg p, p_fg p)) (passes [-2; 0; 3; 5; -1] (fun g => (inject_Z (Z.of_nat g) + (1 # 2))%Q)) = [(0, 3)]%nat /\
  map (fun p => (p_rg p, p_fg p)) (passes [-1; 2; 0; -3] (fun g => (inject_Z (Z.of_nat g) + (1 # 2))%Q)) = [(0, 2)]%nat /\
  passes [-1; 0; -1] (fun _ => 1%Q) = [].
Proof.
  intros root. split; [apply cut_by_start_dropped|]. split; [apply cut_by_end_dropped | exact zero_sample_now].
Qed.
Print Assumptions C03_window_edges_and_zero_samples.

(* why fixes b1a947a / f25c902 were needed: the logic BEFORE them (three-valued np.sign, no guard;
   M_Passes.passes_before_fix) reported a zero-length pass, resp. the same pass twice, when a minute
   sample was exactly on the horizon.  checks/c03.py keeps both inputs as regression cases. *)
Theorem C03_zero_sample_empty_pass_before_fix :
  exists xs root, root_ok3 xs root /\
    exists p1 p2, passes_before_fix xs root = [p1; p2] /\ (p_rise p1 == p_fall p1)%Q /\ (p_lo p1 == p_hi p1)%Q /\
                  (p_rise p2 == p_rise p1)%Q /\ (p_rise p2 < p_fall p2)%Q.
Proof. exact zero_sample_empty_pass_before_fix. Qed.
Print Assumptions C03_zero_sample_empty_pass_before_fix.

Theorem C03_zero_sample_duplicate_before_fix :
  exists xs root, root_ok3 xs root /\
    exists p1 p2, passes_before_fix xs root = [p1; p2] /\ (p_rise p2 < p_fall p1)%Q /\
                  (p_rise p1 == p_rise p2)%Q /\ (p_fall p1 == p_fall p2)%Q /\ p_fg p1 <> p_fg p2.
Proof. exact zero_sample_duplicate_pass_before_fix. Qed.
Print Assumptions C03_zero_sample_duplicate_before_fix.

(* non-vacuity: a 12-minute window with a pass cut by the start (dropped), a full pass, and a pass whose
   only sample is exactly on the horizon; the oracle hypotheses hold and the model reports
   (rise guess, fall guess, middle) *)
Example C03_inhabited :
  root_ok ex_xs ex_root /\ root_sep ex_xs ex_root /\
  map (fun p => (p_rg p, p_fg p, p_middle p)) (passes ex_xs ex_root) = [(2, 6, 5); (8, 9, 9)]%nat.
Proof. split; [apply ex_root_ok|]. split; [apply ex_root_ok | exact ex_passes]. Qed.
