(* C03 — pass prediction.  Statements only.  Model: model/M_Passes.v (hand-written executable model of
   the control logic of Orbital.get_next_passes over the one-minute samples; tied to orbital.py by the
   correspondence run of checks/c03.py, which feeds the implementation's own samples and recorded
   brentq roots to the model inside Coq).
   PROVED here: everything about the index/pairing/bracket logic, for every sample list of any length
   and every oracle `root` meeting its contract.  NOT proved (oracles, validated by sampling in
   checks/c03.py): scipy's brentq returns a point of the bracketing minute where the elevation is
   within 1e-4 deg of the horizon; the parabolic iteration `_get_max_parab` ends within 0.01 deg of
   the true maximum and strictly between rise and fall; "above the horizon" BETWEEN minute samples. *)
From Coq Require Import List ZArith QArith Reals.
From PyOrb.model Require Import M_Passes.
From PyOrb.proofs Require Import P_Passes.
Import ListNotations.
Open Scope Z_scope.

(* each reported pass: rise guess strictly before fall guess, both roots inside their bracketing
   minutes, rise <= fall *)
Theorem C03_order : forall xs root p,
  root_ok xs root -> In p (passes xs root) ->
  (p_rg p < p_fg p)%nat /\ In (p_rg p) (zcs xs) /\ In (p_fg p) (zcs xs) /\
  (qn (p_rg p) <= p_rise p /\ p_rise p <= qn (S (p_rg p)))%Q /\
  (qn (p_fg p) <= p_fall p /\ p_fall p <= qn (S (p_fg p)))%Q /\
  (p_rise p <= p_fall p)%Q.
Proof. exact pass_order. Qed.
Print Assumptions C03_order.

(* rise < fall when the roots are strictly inside their minutes (no sample exactly on the horizon) *)
Theorem C03_order_strict : forall xs root p,
  root_strict xs root -> In p (passes xs root) -> (p_rise p < p_fall p)%Q.
Proof. exact pass_order_strict. Qed.
Print Assumptions C03_order_strict.

(* passes are reported in time order and are pairwise disjoint *)
Theorem C03_disjoint : forall xs root l1 p1 l2 p2 l3,
  nozero xs -> root_ok xs root -> passes xs root = l1 ++ p1 :: l2 ++ p2 :: l3 ->
  (p_fg p1 < p_rg p2)%nat /\ (p_fall p1 <= p_rise p2)%Q.
Proof. exact passes_disjoint. Qed.
Print Assumptions C03_disjoint.

Theorem C03_disjoint_strict : forall xs root l1 p1 l2 p2 l3,
  nozero xs -> root_strict xs root -> passes xs root = l1 ++ p1 :: l2 ++ p2 :: l3 ->
  (p_fall p1 < p_rise p2)%Q.
Proof. exact passes_disjoint_strict. Qed.
Print Assumptions C03_disjoint_strict.

(* every minute sample between the rise bracket and the fall bracket is not below the horizon
   (above it when no sample is exactly on it); the samples just outside are below *)
Theorem C03_sound_samples : forall xs root p,
  In p (passes xs root) ->
  (forall i, (p_rg p < i <= p_fg p)%nat -> 0 <= sample xs i) /\
  (nozero xs -> forall i, (p_rg p < i <= p_fg p)%nat -> 0 < sample xs i) /\
  sample xs (p_rg p) < 0 /\ (nozero xs -> sample xs (S (p_fg p)) < 0).
Proof. exact pass_samples. Qed.
Print Assumptions C03_sound_samples.

Theorem C03_sound_between : forall xs root p,
  root_ok xs root -> nozero xs -> In p (passes xs root) ->
  forall i, (p_rise p < qn i /\ qn i < p_fall p)%Q -> 0 < sample xs i.
Proof. exact pass_samples_between. Qed.
Print Assumptions C03_sound_between.

(* completeness, discrete core: a maximal run r+1..b of positive samples preceded and followed by a
   negative sample inside the window yields exactly one reported pass, with these brackets *)
Theorem C03_complete : forall xs root r b,
  (r < b)%nat -> (S b < length xs)%nat -> sample xs r < 0 ->
  (forall i, (r < i <= b)%nat -> 0 < sample xs i) -> sample xs (S b) < 0 ->
  exists p, In p (passes xs root) /\ p_rg p = r /\ p_fg p = b /\
    p_rise p = root r /\ p_fall p = root b /\
    (forall q, In q (passes xs root) -> p_fg q = b -> q = p).
Proof. exact run_pass. Qed.
Print Assumptions C03_complete.

(* completeness for an elevation function of real time (minutes): an above-horizon interval (t1,t2)
   longer than one minute, beginning after the start and ending at least one minute before the last
   sample, flanked by a minute below the horizon on each side, with crossings off the sample grid,
   is reported once, with rise/fall roots taken in the minutes that contain t1 and t2 *)
Theorem C03_complete_continuous : forall (el : R -> R) (xs : list Z) (root : nat -> Q),
  (forall i, (i < length xs)%nat ->
     ((0 < sample xs i)%Z <-> (0 < el (IZR (Z.of_nat i)))%R) /\
     ((sample xs i < 0)%Z <-> (el (IZR (Z.of_nat i)) < 0)%R)) ->
  forall t1 t2 : R,
  (0 < t1)%R -> (t1 + 1 < t2)%R -> (t2 <= IZR (Z.of_nat (length xs)) - 1)%R ->
  (forall t, (t1 < t < t2)%R -> (0 < el t)%R) ->
  (forall t, (t1 - 1 <= t < t1)%R -> (el t < 0)%R) ->
  (forall t, (t2 < t <= t2 + 1)%R -> (el t < 0)%R) ->
  (forall k : Z, IZR k <> t1) -> (forall k : Z, IZR k <> t2) ->
  exists p, In p (passes xs root) /\
    (IZR (Z.of_nat (p_rg p)) < t1 < IZR (Z.of_nat (p_rg p)) + 1)%R /\
    (IZR (Z.of_nat (p_fg p)) < t2 < IZR (Z.of_nat (p_fg p)) + 1)%R /\
    p_rise p = root (p_rg p) /\ p_fall p = root (p_fg p) /\
    (forall q, In q (passes xs root) -> p_fg q = p_fg p -> q = p).
Proof. exact interval_reported. Qed.
Print Assumptions C03_complete_continuous.

(* culmination bracket: np.argmax never sees an empty slice; the slice covers the in-pass samples;
   the bracket handed to _get_max_parab is [max(rise, middle-1), min(fall, middle+1)], non-empty and
   inside [rise, fall] *)
Theorem C03_bracket : forall xs root p,
  root_ok xs root -> In p (passes xs root) ->
  p_ok p = true /\
  (p_rg p <= p_istart p <= S (p_rg p))%nat /\ (S (p_fg p) <= p_iend p <= S (S (p_fg p)))%nat /\
  (p_iend p <= length xs)%nat /\ (p_istart p <= p_middle p < p_iend p)%nat /\
  (forall i, (p_istart p <= i < p_iend p)%nat -> sample xs i <= sample xs (p_middle p)) /\
  (forall i, (p_istart p <= i < p_middle p)%nat -> sample xs i < sample xs (p_middle p)) /\
  (p_lo p == Qmax (p_rise p) (inject_Z (Z.of_nat (p_middle p) - 1)))%Q /\
  (p_hi p == Qmin (p_fall p) (inject_Z (Z.of_nat (p_middle p) + 1)))%Q /\
  (p_rise p <= p_lo p /\ p_lo p <= p_hi p /\ p_hi p <= p_fall p)%Q.
Proof. exact pass_bracket. Qed.
Print Assumptions C03_bracket.

(* ... and with no sample on the horizon the best sample is an in-pass sample inside the bracket *)
Theorem C03_bracket_best_sample : forall xs root p,
  root_ok xs root -> nozero xs -> In p (passes xs root) ->
  (p_rg p < p_middle p <= p_fg p)%nat /\ 0 < sample xs (p_middle p) /\
  (forall i, (p_rg p < i <= p_fg p)%nat -> sample xs i <= sample xs (p_middle p)) /\
  (p_lo p <= qn (p_middle p) /\ qn (p_middle p) <= p_hi p)%Q.
Proof. exact pass_bracket_nozero. Qed.
Print Assumptions C03_bracket_best_sample.

(* if the elevation is strictly unimodal over the pass, its maximiser is within one minute of the
   best sample, i.e. inside the [middle-1, middle+1] part of the bracket *)
Theorem C03_bracket_unimodal : forall (el : R -> R) (xs : list Z) (root : nat -> Q),
  nozero xs -> root_ok xs root ->
  (forall i j, (i < length xs)%nat -> (j < length xs)%nat ->
     (sample xs i <= sample xs j)%Z -> (el (IZR (Z.of_nat i)) <= el (IZR (Z.of_nat j)))%R) ->
  forall p, In p (passes xs root) ->
  forall tstar : R,
  (IZR (Z.of_nat (p_rg p)) <= tstar <= IZR (Z.of_nat (p_fg p)) + 1)%R ->
  (forall a b, (IZR (Z.of_nat (p_rg p)) < a)%R -> (a < b)%R -> (b <= tstar)%R -> (el a < el b)%R) ->
  (forall a b, (tstar <= a)%R -> (a < b)%R -> (b < IZR (Z.of_nat (p_fg p)) + 1)%R -> (el b < el a)%R) ->
  (IZR (Z.of_nat (p_middle p)) - 1 <= tstar <= IZR (Z.of_nat (p_middle p)) + 1)%R.
Proof. exact culmination_in_bracket. Qed.
Print Assumptions C03_bracket_unimodal.

(* REFUTED corners (a minute sample exactly on the horizon; both replayed on the implementation by
   checks/c03.py with horizon := elevation of a minute sample): *)
Theorem C03_zero_sample_empty_pass_refuted :
  exists xs root, root_ok xs root /\
    exists p1 p2, passes xs root = [p1; p2] /\ (p_rise p1 == p_fall p1)%Q /\ (p_lo p1 == p_hi p1)%Q /\
                  (p_rise p2 == p_rise p1)%Q /\ (p_rise p2 < p_fall p2)%Q.
Proof. exact zero_sample_empty_pass. Qed.
Print Assumptions C03_zero_sample_empty_pass_refuted.

Theorem C03_zero_sample_duplicate_refuted :
  exists xs root, root_ok xs root /\
    exists p1 p2, passes xs root = [p1; p2] /\ (p_rise p2 < p_fall p1)%Q /\
                  (p_rise p1 == p_rise p2)%Q /\ (p_fall p1 == p_fall p2)%Q /\ p_fg p1 <> p_fg p2.
Proof. exact zero_sample_duplicate_pass. Qed.
Print Assumptions C03_zero_sample_duplicate_refuted.

(* passes cut by the window edges are not reported (the property allows it) *)
Theorem C03_window_edges : forall root,
  passes [3; 2; -1; -2] root = [] /\ passes [-3; -2; 1; 2] root = [].
Proof. intros root. split; [apply cut_by_start_dropped | apply cut_by_end_dropped]. Qed.
Print Assumptions C03_window_edges.

(* non-vacuity: a 13-minute window with a pass cut by the start (dropped) and two full passes;
   hypotheses nozero / root_strict hold and the model reports (rise guess, fall guess, middle) *)
Example C03_inhabited :
  nozero ex_xs /\ root_strict ex_xs ex_root /\
  map (fun p => (p_rg p, p_fg p, p_middle p)) (passes ex_xs ex_root) = [(2, 6, 5); (8, 10, 10)]%nat.
Proof. split; [exact ex_nozero|]. split; [exact ex_root_strict | exact ex_passes]. Qed.
