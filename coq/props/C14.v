(* C14 — vector rotation is a proper rotation with the documented (clockwise) sense; geodetic helpers.
   Statements only; proofs in proofs/P_Rot.v.  gen_* are regenerated from /repo/pyorbital/geoloc.py
   on every run (qrotate traced per column through Quaternion.rotation_matrix and the einsum). *)
From Coq Require Import Reals Lra.
From PyOrb.lib Require Import PyReal.
From PyOrb.spec Require Import Spec_Rot.
From PyOrb.gen Require Import Gen_geoloc.
From PyOrb.proofs Require Import P_Rot.
Open Scope R_scope.

(* for every vector, every non-zero axis and every angle the rotated vector is Rodrigues' rotation
   about axis/|axis| by MINUS the angle *)
Theorem C14_rodrigues : forall vx vy vz ax ay az t,
  nonzero3 ax ay az ->
  gen_qrotate_x vx vy vz ax ay az t = cw_rot_x vx vy vz ax ay az t /\
  gen_qrotate_y vx vy vz ax ay az t = cw_rot_y vx vy vz ax ay az t /\
  gen_qrotate_z vx vy vz ax ay az t = cw_rot_z vx vy vz ax ay az t.
Proof. exact qrotate_is_rodrigues. Qed.
Print Assumptions C14_rodrigues.

Theorem C14_length : forall vx vy vz ax ay az t,
  nonzero3 ax ay az ->
  norm3 (gen_qrotate_x vx vy vz ax ay az t) (gen_qrotate_y vx vy vz ax ay az t) (gen_qrotate_z vx vy vz ax ay az t)
  = norm3 vx vy vz.
Proof. exact qrotate_length. Qed.
Print Assumptions C14_length.

(* inner products (hence mutual angles) of vectors rotated together are preserved *)
Theorem C14_dot : forall vx vy vz wx wy wz ax ay az t,
  nonzero3 ax ay az ->
  dot3 (gen_qrotate_x vx vy vz ax ay az t) (gen_qrotate_y vx vy vz ax ay az t) (gen_qrotate_z vx vy vz ax ay az t)
       (gen_qrotate_x wx wy wz ax ay az t) (gen_qrotate_y wx wy wz ax ay az t) (gen_qrotate_z wx wy wz ax ay az t)
  = dot3 vx vy vz wx wy wz.
Proof. exact qrotate_dot. Qed.
Print Assumptions C14_dot.

(* every multiple of the axis is fixed *)
Theorem C14_axis_fixed : forall k ax ay az t,
  nonzero3 ax ay az ->
  gen_qrotate_x (k * ax) (k * ay) (k * az) ax ay az t = k * ax /\
  gen_qrotate_y (k * ax) (k * ay) (k * az) ax ay az t = k * ay /\
  gen_qrotate_z (k * ax) (k * ay) (k * az) ax ay az t = k * az.
Proof. exact qrotate_axis_fixed. Qed.
Print Assumptions C14_axis_fixed.

Theorem C14_identity : forall vx vy vz ax ay az,
  nonzero3 ax ay az ->
  (gen_qrotate_x vx vy vz ax ay az 0 = vx /\ gen_qrotate_y vx vy vz ax ay az 0 = vy /\
   gen_qrotate_z vx vy vz ax ay az 0 = vz) /\
  (gen_qrotate_x vx vy vz ax ay az (2 * PI) = vx /\ gen_qrotate_y vx vy vz ax ay az (2 * PI) = vy /\
   gen_qrotate_z vx vy vz ax ay az (2 * PI) = vz).
Proof. exact qrotate_identity. Qed.
Print Assumptions C14_identity.

(* rotating by a and then by b about the same axis is rotating by a + b *)
Theorem C14_additive : forall vx vy vz ax ay az a b,
  nonzero3 ax ay az ->
  let rx := gen_qrotate_x vx vy vz ax ay az a in
  let ry := gen_qrotate_y vx vy vz ax ay az a in
  let rz := gen_qrotate_z vx vy vz ax ay az a in
  gen_qrotate_x rx ry rz ax ay az b = gen_qrotate_x vx vy vz ax ay az (a + b) /\
  gen_qrotate_y rx ry rz ax ay az b = gen_qrotate_y vx vy vz ax ay az (a + b) /\
  gen_qrotate_z rx ry rz ax ay az b = gen_qrotate_z vx vy vz ax ay az (a + b).
Proof. exact qrotate_additive. Qed.
Print Assumptions C14_additive.

(* shapes (3,1): per-column / shared axis x float / 0-d / per-column angle all give the (3,) formula *)
Theorem C14_variants_one_column : forall vx vy vz ax ay az t,
  (gen_qrotate_cs_x vx vy vz ax ay az t = gen_qrotate_x vx vy vz ax ay az t /\
   gen_qrotate_cs_y vx vy vz ax ay az t = gen_qrotate_y vx vy vz ax ay az t /\
   gen_qrotate_cs_z vx vy vz ax ay az t = gen_qrotate_z vx vy vz ax ay az t) /\
  (gen_qrotate_ca_x vx vy vz ax ay az t = gen_qrotate_x vx vy vz ax ay az t /\
   gen_qrotate_ca_y vx vy vz ax ay az t = gen_qrotate_y vx vy vz ax ay az t /\
   gen_qrotate_ca_z vx vy vz ax ay az t = gen_qrotate_z vx vy vz ax ay az t) /\
  (gen_qrotate_ss_x vx vy vz ax ay az t = gen_qrotate_x vx vy vz ax ay az t /\
   gen_qrotate_ss_y vx vy vz ax ay az t = gen_qrotate_y vx vy vz ax ay az t /\
   gen_qrotate_ss_z vx vy vz ax ay az t = gen_qrotate_z vx vy vz ax ay az t) /\
  (gen_qrotate_sa_x vx vy vz ax ay az t = gen_qrotate_x vx vy vz ax ay az t /\
   gen_qrotate_sa_y vx vy vz ax ay az t = gen_qrotate_y vx vy vz ax ay az t /\
   gen_qrotate_sa_z vx vy vz ax ay az t = gen_qrotate_z vx vy vz ax ay az t) /\
  (gen_qrotate_s0_x vx vy vz ax ay az t = gen_qrotate_x vx vy vz ax ay az t /\
   gen_qrotate_s0_y vx vy vz ax ay az t = gen_qrotate_y vx vy vz ax ay az t /\
   gen_qrotate_s0_z vx vy vz ax ay az t = gen_qrotate_z vx vy vz ax ay az t).
Proof. exact variants_one_column. Qed.
Print Assumptions C14_variants_one_column.

(* shapes (3,2) and (3,1,2): each result column is the one-column formula on that column's
   vector, axis (own or shared, (3,) or (3,1)) and angle (own or shared) *)
Theorem C14_variants_two_columns : forall vx vy vz wx wy wz ax ay az ex ey ez t u,
  (gen_qrotate2_pp_c1_x vx vy vz wx wy wz ax ay az ex ey ez t u = gen_qrotate_x wx wy wz ex ey ez u /\
   gen_qrotate2_pp_c1_y vx vy vz wx wy wz ax ay az ex ey ez t u = gen_qrotate_y wx wy wz ex ey ez u /\
   gen_qrotate2_pp_c1_z vx vy vz wx wy wz ax ay az ex ey ez t u = gen_qrotate_z wx wy wz ex ey ez u) /\
  (gen_qrotate2_pp_c0_x vx vy vz wx wy wz ax ay az ex ey ez t u = gen_qrotate_x vx vy vz ax ay az t /\
   gen_qrotate2_pp_c0_y vx vy vz wx wy wz ax ay az ex ey ez t u = gen_qrotate_y vx vy vz ax ay az t /\
   gen_qrotate2_pp_c0_z vx vy vz wx wy wz ax ay az ex ey ez t u = gen_qrotate_z vx vy vz ax ay az t) /\
  (gen_qrotate2_ps_c1_x vx vy vz wx wy wz ax ay az ex ey ez t = gen_qrotate_x wx wy wz ex ey ez t /\
   gen_qrotate2_ps_c1_y vx vy vz wx wy wz ax ay az ex ey ez t = gen_qrotate_y wx wy wz ex ey ez t /\
   gen_qrotate2_ps_c1_z vx vy vz wx wy wz ax ay az ex ey ez t = gen_qrotate_z wx wy wz ex ey ez t) /\
  (gen_qrotate2_sp_c1_x vx vy vz wx wy wz ax ay az t u = gen_qrotate_x wx wy wz ax ay az u /\
   gen_qrotate2_sp_c1_y vx vy vz wx wy wz ax ay az t u = gen_qrotate_y wx wy wz ax ay az u /\
   gen_qrotate2_sp_c1_z vx vy vz wx wy wz ax ay az t u = gen_qrotate_z wx wy wz ax ay az u) /\
  (gen_qrotate2_ss_c1_x vx vy vz wx wy wz ax ay az t = gen_qrotate_x wx wy wz ax ay az t /\
   gen_qrotate2_ss_c1_y vx vy vz wx wy wz ax ay az t = gen_qrotate_y wx wy wz ax ay az t /\
   gen_qrotate2_ss_c1_z vx vy vz wx wy wz ax ay az t = gen_qrotate_z wx wy wz ax ay az t) /\
  (gen_qrotate2_s1s_c1_x vx vy vz wx wy wz ax ay az t = gen_qrotate_x wx wy wz ax ay az t /\
   gen_qrotate2_s1s_c1_y vx vy vz wx wy wz ax ay az t = gen_qrotate_y wx wy wz ax ay az t /\
   gen_qrotate2_s1s_c1_z vx vy vz wx wy wz ax ay az t = gen_qrotate_z wx wy wz ax ay az t) /\
  (gen_qrotate3_pp_c1_x vx vy vz wx wy wz ax ay az ex ey ez t u = gen_qrotate_x wx wy wz ex ey ez u /\
   gen_qrotate3_pp_c1_y vx vy vz wx wy wz ax ay az ex ey ez t u = gen_qrotate_y wx wy wz ex ey ez u /\
   gen_qrotate3_pp_c1_z vx vy vz wx wy wz ax ay az ex ey ez t u = gen_qrotate_z wx wy wz ex ey ez u) /\
  (gen_qrotate3_ss_c1_x vx vy vz wx wy wz ax ay az t = gen_qrotate_x wx wy wz ax ay az t /\
   gen_qrotate3_ss_c1_y vx vy vz wx wy wz ax ay az t = gen_qrotate_y wx wy wz ax ay az t /\
   gen_qrotate3_ss_c1_z vx vy vz wx wy wz ax ay az t = gen_qrotate_z wx wy wz ax ay az t).
Proof. exact variants_two_columns. Qed.
Print Assumptions C14_variants_two_columns.

(* subpoint's result lies on the module ellipsoid (A = 6378.137, B = 6356.75231414) for ANY value
   of the latitude iteration (converged or not) and any query point *)
Theorem C14_subpoint_on_ellipsoid : forall x y z lat,
  on_ellipsoid A_wgs84 B_grs80 (gen_subpoint_x x y z lat) (gen_subpoint_y x y z lat) (gen_subpoint_z x y z lat).
Proof. exact subpoint_on_ellipsoid. Qed.
Print Assumptions C14_subpoint_on_ellipsoid.

(* geoloc.geodetic_lat: the loop  phi <- atan2(z + a C(phi) e2 sin phi, r)  regenerated from the source (gen_geodetic_step;
   gen_geodetic_lat_1 is its first iterate) TERMINATES: for every point off the polar axis and at least sqrt(0.993) a
   (6355.8 km: on or outside the ellipsoid) from the centre, the np.allclose test |new - old| <= 1e-8 + 1e-5 |old| succeeds at
   the fourth comparison at the latest (contraction factor 0.0069, Coquelicot MVT) *)
From PyOrb.proofs Require P_GeoLatLoop.
Theorem C14_geodetic_lat_step_contracts : forall r z, 0 < r ->
  993 / 1000 * (P_GeoLatLoop.ag * P_GeoLatLoop.ag) <= r * r + z * z -> forall a b,
  Rabs (P_GeoLatLoop.gstep a r z - P_GeoLatLoop.gstep b r z) <= 69 / 10000 * Rabs (a - b).
Proof. exact P_GeoLatLoop.step_contracts. Qed.
Print Assumptions C14_geodetic_lat_step_contracts.

Theorem C14_geodetic_lat_terminates : forall x y z, 0 < x * x + y * y ->
  993 / 1000 * (P_GeoLatLoop.ag * P_GeoLatLoop.ag) <= x * x + y * y + z * z ->
  let p0 := atan2 z (sqrt (x * x + y * y)) in
  let p1 := gen_geodetic_step p0 x y z in let p2 := gen_geodetic_step p1 x y z in
  let p3 := gen_geodetic_step p2 x y z in let p4 := gen_geodetic_step p3 x y z in
  p1 = gen_geodetic_lat_1 x y z /\
  Rabs (p4 - p3) <= 1 / 100000000 + 1 / 100000 * Rabs p3.
Proof. exact P_GeoLatLoop.gen_loop_exits_by_4. Qed.
Print Assumptions C14_geodetic_lat_terminates.

(* ... and FROM THE EXIT TEST ALONE, at whichever comparison the loop is left (phik: the previous iterate, every iterate being
   in [-pi/2, pi/2]): the point is within 1 m of the line through subpoint(point) along the ellipsoid's normal there.
   perp2 x y z lat is the squared distance [km^2] to that line; its direction is the unit normal (gradient of the ellipsoid's
   equation) at the subpoint, with b^2 = a^2 (1 - e2) the module's B *)
Theorem C14_point_on_normal_within_1m : forall x y z phik, 0 < x * x + y * y -> Rabs phik <= PI / 2 ->
  Rabs (gen_geodetic_step phik x y z - phik) <= 1 / 100000000 + 1 / 100000 * Rabs phik ->
  P_GeoLatLoop.perp2 x y z (gen_geodetic_step phik x y z) <= (1 / 1000) ^ 2.
Proof. exact P_GeoLatLoop.exit_implies_1m. Qed.
Print Assumptions C14_point_on_normal_within_1m.

Theorem C14_iterates_in_range : forall x y z phik, 0 < x * x + y * y ->
  Rabs (atan2 z (sqrt (x * x + y * y))) <= PI / 2 /\ Rabs (gen_geodetic_step phik x y z) <= PI / 2.
Proof. intros x y z phik H. exact (conj (P_GeoLatLoop.start_range x y z H) (P_GeoLatLoop.iterate_range x y z phik H)). Qed.
Print Assumptions C14_iterates_in_range.

Theorem C14_perp2_direction_is_the_normal : forall x y z lat,
  (cos lat * cos (atan2 y x)) ^ 2 + (cos lat * sin (atan2 y x)) ^ 2 + (sin lat) ^ 2 = 1 /\
  (let k := P_GeoLatLoop.ag * P_GeoLatLoop.Cg lat / (P_GeoLatLoop.ag * P_GeoLatLoop.ag) in
   0 < k /\
   gen_subpoint_x x y z lat / (P_GeoLatLoop.ag * P_GeoLatLoop.ag) = k * (cos lat * cos (atan2 y x)) /\
   gen_subpoint_y x y z lat / (P_GeoLatLoop.ag * P_GeoLatLoop.ag) = k * (cos lat * sin (atan2 y x)) /\
   gen_subpoint_z x y z lat / (P_GeoLatLoop.ag * P_GeoLatLoop.ag * (1 - P_GeoLatLoop.e2g)) = k * sin lat) /\
  P_GeoLatLoop.ag * P_GeoLatLoop.ag * (1 - P_GeoLatLoop.e2g) = (635675231414 / 100000000) ^ 2.
Proof.
  intros x y z lat. exact (conj (P_GeoLatLoop.normal_unit x y lat) (conj (P_GeoLatLoop.normal_gradient x y z lat) P_GeoLatLoop.b_squared)).
Qed.
Print Assumptions C14_perp2_direction_is_the_normal.

(* the sense, on a concrete input: the x axis turned about +z by +90 deg goes to -y *)
Theorem C14_clockwise_example :
  gen_qrotate_x 1 0 0 0 0 1 (PI / 2) = 0 /\ gen_qrotate_y 1 0 0 0 0 1 (PI / 2) = -1 /\
  gen_qrotate_z 1 0 0 0 0 1 (PI / 2) = 0.
Proof. exact qrotate_sense_example. Qed.
Print Assumptions C14_clockwise_example.

(* non-vacuity: the only hypothesis is satisfiable *)
Example C14_inhabited : nonzero3 1 (-2) 3.
Proof. exact nonzero3_example. Qed.
