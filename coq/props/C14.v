(* C14 — vector rotation is a proper rotation with the documented (clockwise) sense; geodetic helpers.
   Statements only; proofs in proofs/P_Rot.v.  gen_* are regenerated from /repo/pyorbital/geoloc.py
   on every run (qrotate traced per column through Quaternion.rotation_matrix and the einsum). *)
From Coq Require Import Reals Lra.
From PyOrb.lib Require Import PyReal.
From PyOrb.spec Require Import Spec_Rot.
From PyOrb.gen Require Import Gen_geoloc.
From PyOrb.proofs Require Import P_Rot.
Open Scope R_scope.

(* for every vector, every non-zero axis and every angle the rotated vector is Rodrigues' rotation
   about axis/|axis| by MINUS the angle *)
Theorem C14_rodrigues : forall vx vy vz ax ay az t,
  nonzero3 ax ay az ->
  gen_qrotate_x vx vy vz ax ay az t = cw_rot_x vx vy vz ax ay az t /\
  gen_qrotate_y vx vy vz ax ay az t = cw_rot_y vx vy vz ax ay az t /\
  gen_qrotate_z vx vy vz ax ay az t = cw_rot_z vx vy vz ax ay az t.
Proof. exact qrotate_is_rodrigues. Qed.
Print Assumptions C14_rodrigues.

Theorem C14_length : forall vx vy vz ax ay az t,
  nonzero3 ax ay az ->
  norm3 (gen_qrotate_x vx vy vz ax ay az t) (gen_qrotate_y vx vy vz ax ay az t) (gen_qrotate_z vx vy vz ax ay az t)
  = norm3 vx vy vz.
Proof. exact qrotate_length. Qed.
Print Assumptions C14_length.

(* inner products (hence mutual angles) of vectors rotated together are preserved *)
Theorem C14_dot : forall vx vy vz wx wy wz ax ay az t,
  nonzero3 ax ay az ->
  dot3 (gen_qrotate_x vx vy vz ax ay az t) (gen_qrotate_y vx vy vz ax ay az t) (gen_qrotate_z vx vy vz ax ay az t)
       (gen_qrotate_x wx wy wz ax ay az t) (gen_qrotate_y wx wy wz ax ay az t) (gen_qrotate_z wx wy wz ax ay az t)
  = dot3 vx vy vz wx wy wz.
Proof. exact qrotate_dot. Qed.
Print Assumptions C14_dot.

(* every multiple of the axis is fixed *)
Theorem C14_axis_fixed : forall k ax ay az t,
  nonzero3 ax ay az ->
  gen_qrotate_x (k * ax) (k * ay) (k * az) ax ay az t = k * ax /\
  gen_qrotate_y (k * ax) (k * ay) (k * az) ax ay az t = k * ay /\
  gen_qrotate_z (k * ax) (k * ay) (k * az) ax ay az t = k * az.
Proof. exact qrotate_axis_fixed. Qed.
Print Assumptions C14_axis_fixed.

Theorem C14_identity : forall vx vy vz ax ay az,
  nonzero3 ax ay az ->
  (gen_qrotate_x vx vy vz ax ay az 0 = vx /\ gen_qrotate_y vx vy vz ax ay az 0 = vy /\
   gen_qrotate_z vx vy vz ax ay az 0 = vz) /\
  (gen_qrotate_x vx vy vz ax ay az (2 * PI) = vx /\ gen_qrotate_y vx vy vz ax ay az (2 * PI) = vy /\
   gen_qrotate_z vx vy vz ax ay az (2 * PI) = vz).
Proof. exact qrotate_identity. Qed.
Print Assumptions C14_identity.

(* rotating by a and then by b about the same axis is rotating by a + b *)
Theorem C14_additive : forall vx vy vz ax ay az a b,
  nonzero3 ax ay az ->
  let rx := gen_qrotate_x vx vy vz ax ay az a in
  let ry := gen_qrotate_y vx vy vz ax ay az a in
  let rz := gen_qrotate_z vx vy vz ax ay az a in
  gen_qrotate_x rx ry rz ax ay az b = gen_qrotate_x vx vy vz ax ay az (a + b) /\
  gen_qrotate_y rx ry rz ax ay az b = gen_qrotate_y vx vy vz ax ay az (a + b) /\
  gen_qrotate_z rx ry rz ax ay az b = gen_qrotate_z vx vy vz ax ay az (a + b).
Proof. exact qrotate_additive. Qed.
Print Assumptions C14_additive.

(* shapes (3,1): per-column / shared axis x float / 0-d / per-column angle all give the (3,) formula *)
Theorem C14_variants_one_column : forall vx vy vz ax ay az t,
  (gen_qrotate_cs_x vx vy vz ax ay az t = gen_qrotate_x vx vy vz ax ay az t /\
   gen_qrotate_cs_y vx vy vz ax ay az t = gen_qrotate_y vx vy vz ax ay az t /\
   gen_qrotate_cs_z vx vy vz ax ay az t = gen_qrotate_z vx vy vz ax ay az t) /\
  (gen_qrotate_ca_x vx vy vz ax ay az t = gen_qrotate_x vx vy vz ax ay az t /\
   gen_qrotate_ca_y vx vy vz ax ay az t = gen_qrotate_y vx vy vz ax ay az t /\
   gen_qrotate_ca_z vx vy vz ax ay az t = gen_qrotate_z vx vy vz ax ay az t) /\
  (gen_qrotate_ss_x vx vy vz ax ay az t = gen_qrotate_x vx vy vz ax ay az t /\
   gen_qrotate_ss_y vx vy vz ax ay az t = gen_qrotate_y vx vy vz ax ay az t /\
   gen_qrotate_ss_z vx vy vz ax ay az t = gen_qrotate_z vx vy vz ax ay az t) /\
  (gen_qrotate_sa_x vx vy vz ax ay az t = gen_qrotate_x vx vy vz ax ay az t /\
   gen_qrotate_sa_y vx vy vz ax ay az t = gen_qrotate_y vx vy vz ax ay az t /\
   gen_qrotate_sa_z vx vy vz ax ay az t = gen_qrotate_z vx vy vz ax ay az t) /\
  (gen_qrotate_s0_x vx vy vz ax ay az t = gen_qrotate_x vx vy vz ax ay az t /\
   gen_qrotate_s0_y vx vy vz ax ay az t = gen_qrotate_y vx vy vz ax ay az t /\
   gen_qrotate_s0_z vx vy vz ax ay az t = gen_qrotate_z vx vy vz ax ay az t).
Proof. exact variants_one_column. Qed.
Print Assumptions C14_variants_one_column.

(* shapes (3,2) and (3,1,2): each result column is the one-column formula on that column's
   vector, axis (own or shared, (3,) or (3,1)) and angle (own or shared) *)
Theorem C14_variants_two_columns : forall vx vy vz wx wy wz ax ay az ex ey ez t u,
  (gen_qrotate2_pp_c1_x vx vy vz wx wy wz ax ay az ex ey ez t u = gen_qrotate_x wx wy wz ex ey ez u /\
   gen_qrotate2_pp_c1_y vx vy vz wx wy wz ax ay az ex ey ez t u = gen_qrotate_y wx wy wz ex ey ez u /\
   gen_qrotate2_pp_c1_z vx vy vz wx wy wz ax ay az ex ey ez t u = gen_qrotate_z wx wy wz ex ey ez u) /\
  (gen_qrotate2_pp_c0_x vx vy vz wx wy wz ax ay az ex ey ez t u = gen_qrotate_x vx vy vz ax ay az t /\
   gen_qrotate2_pp_c0_y vx vy vz wx wy wz ax ay az ex ey ez t u = gen_qrotate_y vx vy vz ax ay az t /\
   gen_qrotate2_pp_c0_z vx vy vz wx wy wz ax ay az ex ey ez t u = gen_qrotate_z vx vy vz ax ay az t) /\
  (gen_qrotate2_ps_c1_x vx vy vz wx wy wz ax ay az ex ey ez t = gen_qrotate_x wx wy wz ex ey ez t /\
   gen_qrotate2_ps_c1_y vx vy vz wx wy wz ax ay az ex ey ez t = gen_qrotate_y wx wy wz ex ey ez t /\
   gen_qrotate2_ps_c1_z vx vy vz wx wy wz ax ay az ex ey ez t = gen_qrotate_z wx wy wz ex ey ez t) /\
  (gen_qrotate2_sp_c1_x vx vy vz wx wy wz ax ay az t u = gen_qrotate_x wx wy wz ax ay az u /\
   gen_qrotate2_sp_c1_y vx vy vz wx wy wz ax ay az t u = gen_qrotate_y wx wy wz ax ay az u /\
   gen_qrotate2_sp_c1_z vx vy vz wx wy wz ax ay az t u = gen_qrotate_z wx wy wz ax ay az u) /\
  (gen_qrotate2_ss_c1_x vx vy vz wx wy wz ax ay az t = gen_qrotate_x wx wy wz ax ay az t /\
   gen_qrotate2_ss_c1_y vx vy vz wx wy wz ax ay az t = gen_qrotate_y wx wy wz ax ay az t /\
   gen_qrotate2_ss_c1_z vx vy vz wx wy wz ax ay az t = gen_qrotate_z wx wy wz ax ay az t) /\
  (gen_qrotate2_s1s_c1_x vx vy vz wx wy wz ax ay az t = gen_qrotate_x wx wy wz ax ay az t /\
   gen_qrotate2_s1s_c1_y vx vy vz wx wy wz ax ay az t = gen_qrotate_y wx wy wz ax ay az t /\
   gen_qrotate2_s1s_c1_z vx vy vz wx wy wz ax ay az t = gen_qrotate_z wx wy wz ax ay az t) /\
  (gen_qrotate3_pp_c1_x vx vy vz wx wy wz ax ay az ex ey ez t u = gen_qrotate_x wx wy wz ex ey ez u /\
   gen_qrotate3_pp_c1_y vx vy vz wx wy wz ax ay az ex ey ez t u = gen_qrotate_y wx wy wz ex ey ez u /\
   gen_qrotate3_pp_c1_z vx vy vz wx wy wz ax ay az ex ey ez t u = gen_qrotate_z wx wy wz ex ey ez u) /\
  (gen_qrotate3_ss_c1_x vx vy vz wx wy wz ax ay az t = gen_qrotate_x wx wy wz ax ay az t /\
   gen_qrotate3_ss_c1_y vx vy vz wx wy wz ax ay az t = gen_qrotate_y wx wy wz ax ay az t /\
   gen_qrotate3_ss_c1_z vx vy vz wx wy wz ax ay az t = gen_qrotate_z wx wy wz ax ay az t).
Proof. exact variants_two_columns. Qed.
Print Assumptions C14_variants_two_columns.

(* subpoint's result lies on the module ellipsoid (A = 6378.137, B = 6356.75231414) for ANY value
   of the latitude iteration (converged or not) and any query point *)
Theorem C14_subpoint_on_ellipsoid : forall x y z lat,
  on_ellipsoid A_wgs84 B_grs80 (gen_subpoint_x x y z lat) (gen_subpoint_y x y z lat) (gen_subpoint_z x y z lat).
Proof. exact subpoint_on_ellipsoid. Qed.
Print Assumptions C14_subpoint_on_ellipsoid.

(* the sense, on a concrete input: the x axis turned about +z by +90 deg goes to -y *)
Theorem C14_clockwise_example :
  gen_qrotate_x 1 0 0 0 0 1 (PI / 2) = 0 /\ gen_qrotate_y 1 0 0 0 0 1 (PI / 2) = -1 /\
  gen_qrotate_z 1 0 0 0 0 1 (PI / 2) = 0.
Proof. exact qrotate_sense_example. Qed.
Print Assumptions C14_clockwise_example.

(* non-vacuity: the only hypothesis is satisfiable *)
Example C14_inhabited : nonzero3 1 (-2) 3.
Proof. exact nonzero3_example. Qed.
