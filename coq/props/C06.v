(* C06 — sun angles against the Astronomical-Almanac low-precision solar position.
   Statements only; proofs in proofs/P_Sun.v (and lib/Atan2.v).
   gen_* are regenerated from /repo/pyorbital/astronomy.py on every run:
   d = days since J2000.0 (2000-01-01T12:00 UTC), lon/lat in degrees.
   "1950-2050" is -1/2 <= d / 36525 <= 51/100: 1950-01-01T00:00 .. 2051-01-01T06:00 UTC.  Spec: spec/Spec_Sun.v (Almanac formulas, rationals). *)
From Coq Require Import Reals ZArith Lra.
From PyOrb.lib Require Import PyReal Atan2.
From PyOrb.spec Require Import Spec_Sun Spec_Time.
From PyOrb.gen Require Import Gen_astronomy.
From PyOrb.proofs Require Import P_Sun P_SunDir.
Open Scope R_scope.

(* Error budget of the property's 0.03 deg on the sphere (= 5.236e-4 rad):
   ecliptic longitude 0.0275 deg + obliquity 0.002 deg + sidereal time 1e-7 rad = 5.150e-4 rad.
   (Measured maxima: longitude 0.00904 deg, obliquity 0.00111 deg, distance 0.00047 AU.) *)

(* 1. ecliptic longitude (radians, neither side reduced mod 2 PI) within 0.0275 deg of the
      Almanac's lambda = L + 1.915 sin g + 0.020 sin 2g *)
Theorem C06_ecliptic_longitude : forall d, -1 / 2 <= d / 36525 <= 51 / 100 ->
  Rabs (gen_sun_ecliptic_longitude d - deg2rad (lambda_AA d)) <= deg2rad (275 / 10000).
Proof. exact ecliptic_longitude_AA. Qed.
Print Assumptions C06_ecliptic_longitude.

(* 3. sun-earth distance factor within 0.0015 AU of the Almanac's R *)
Theorem C06_distance : forall d, -1 / 2 <= d / 36525 <= 51 / 100 ->
  Rabs (gen_sun_earth_distance_correction d - R_AA d) <= 15 / 10000.
Proof. exact distance_AA. Qed.
Print Assumptions C06_distance.

(* 2 + 4. the generated model does not expose the obliquity as a definition of its own, so it
   is quantified: there is an angle eps within 0.002 deg of the Almanac's
   obliquity such that the code's declination and right ascension are EXACTLY the spherical
   coordinates of the unit vector (cos l, cos eps sin l, sin eps sin l), l = the code's
   ecliptic longitude: the code's atan2 (z, sqrt (1 - z^2)) is asin z, and its half-angle form
   2 atan2 (y, x + r) is atan2 (y, x) — except at the exact instant cos l = -1 (sun on the
   negative x axis, true RA = PI) where the half-angle form evaluates atan2 (0, 0) = 0.
   (No binary64 longitude has sin l = 0 besides l = 0, so that instant is not representable.) *)
Theorem C06_radec_are_spherical : forall d, -1 / 2 <= d / 36525 <= 51 / 100 ->
  exists eps : R,
    Rabs (eps - deg2rad (eps_AA d)) <= deg2rad (2 / 1000) /\
    let lam := gen_sun_ecliptic_longitude d in
    gen_sun_dec d = asin (sin eps * sin lam) /\
    (cos lam <> -1 -> gen_sun_ra d = atan2 (cos eps * sin lam) (cos lam)) /\
    (cos lam = -1 -> gen_sun_ra d = 0).
Proof. exact radec_are_spherical. Qed.
Print Assumptions C06_radec_are_spherical.

Theorem C06_obliquity : forall d, -1 / 2 <= d / 36525 <= 51 / 100 ->
  exists eps : R,
    Rabs (eps - deg2rad (eps_AA d)) <= deg2rad (2 / 1000) /\
    gen_sun_dec d = asin (sin eps * sin (gen_sun_ecliptic_longitude d)).
Proof. exact obliquity_AA. Qed.
Print Assumptions C06_obliquity.

(* the sun's unit vector built from the code's (ra, dec) is the ecliptic point (l, eps) *)
Theorem C06_sun_vector : forall d, -1 / 2 <= d / 36525 <= 51 / 100 ->
  cos (gen_sun_ecliptic_longitude d) <> -1 ->
  exists eps : R,
    Rabs (eps - deg2rad (eps_AA d)) <= deg2rad (2 / 1000) /\
    let lam := gen_sun_ecliptic_longitude d in
    let ra := gen_sun_ra d in let dec := gen_sun_dec d in
    sph_x ra dec = ecl_x lam eps /\ sph_y ra dec = ecl_y lam eps /\ sph_z ra dec = ecl_z lam eps.
Proof. exact sun_vector. Qed.
Print Assumptions C06_sun_vector.

(* 8 (Tier 2). chord between the code's sun direction and the Almanac's (alpha, delta) direction
   is at most 5.15e-4, i.e. an angle 2 asin (chord / 2) < 0.0296 deg < 0.03 deg, over the whole century *)
Theorem C06_sun_direction : forall d, -1 / 2 <= d / 36525 <= 51 / 100 ->
  cos (gen_sun_ecliptic_longitude d) <> -1 ->
  let ra := gen_sun_ra d in let dec := gen_sun_dec d in
  let l' := deg2rad (lambda_AA d) in let e' := deg2rad (eps_AA d) in
  chord3 (sph_x ra dec) (sph_y ra dec) (sph_z ra dec) (ecl_x l' e') (ecl_y l' e') (ecl_z l' e')
  <= 515 / 1000000.
Proof. exact sun_direction. Qed.
Print Assumptions C06_sun_direction.

(* ... and the Almanac's (alpha, delta) direction is that ecliptic point, for every day *)
Theorem C06_almanac_vector : forall n,
  let l' := deg2rad (lambda_AA n) in let e' := deg2rad (eps_AA n) in
  -1 / 2 <= n / 36525 <= 51 / 100 ->
  sph_x (alpha_AA n) (delta_AA n) = ecl_x l' e' /\
  sph_y (alpha_AA n) (delta_AA n) = ecl_y l' e' /\
  sph_z (alpha_AA n) (delta_AA n) = ecl_z l' e'.
Proof. exact almanac_vector. Qed.
Print Assumptions C06_almanac_vector.

(* 5. cos(zenith) = <sun unit vector from (ra, dec), local zenith unit vector from
      (latitude, local sidereal angle gmst + lon)>, for ALL d, lon, lat *)
Theorem C06_coszen_is_dot : forall d lon lat,
  let ra := gen_sun_ra d in let dec := gen_sun_dec d in
  let th := gen_gmst d + deg2rad lon in let phi := deg2rad lat in
  gen_cos_zen d lon lat
  = dot3 (sph_x ra dec) (sph_y ra dec) (sph_z ra dec) (zen_x th phi) (zen_y th phi) (zen_z th phi).
Proof. exact coszen_is_dot. Qed.
Print Assumptions C06_coszen_is_dot.

(* hence cos(zenith) is within 5.16e-4 (0.03 deg = 5.236e-4 rad; |d cos z| <= |d z|) of the cosine of the
   zenith angle of the Almanac sun seen from the same place with IAU-82 sidereal time *)
Theorem C06_coszen_close : forall d lon lat, -1 / 2 <= d / 36525 <= 51 / 100 ->
  cos (gen_sun_ecliptic_longitude d) <> -1 ->
  let l' := deg2rad (lambda_AA d) in let e' := deg2rad (eps_AA d) in
  let th' := gmst82_rad d + deg2rad lon in let phi := deg2rad lat in
  Rabs (gen_cos_zen d lon lat
        - dot3 (ecl_x l' e') (ecl_y l' e') (ecl_z l' e') (zen_x th' phi) (zen_y th' phi) (zen_z th' phi))
  <= 516 / 1000000.
Proof. exact coszen_close. Qed.
Print Assumptions C06_coszen_close.

(* 6. range and mutual consistency, for ALL d, lon, lat *)
Theorem C06_coszen_range : forall d lon lat, -1 <= gen_cos_zen d lon lat <= 1.
Proof. exact coszen_range. Qed.
Print Assumptions C06_coszen_range.

Theorem C06_consistency : forall d lon lat,
  gen_sun_zenith_angle d lon lat = rad2deg (acos (gen_cos_zen d lon lat)) /\
  gen_sun_alt d lon lat = asin (gen_cos_zen d lon lat) /\
  deg2rad (gen_sun_zenith_angle d lon lat) = PI / 2 - gen_sun_alt d lon lat /\
  gen_sun_zenith_angle d lon lat = 90 - rad2deg (gen_sun_alt d lon lat) /\
  0 <= gen_sun_zenith_angle d lon lat <= 180.
Proof.
  intros d lon lat.
  exact (conj (zenith_is_acos d lon lat) (conj (alt_is_asin d lon lat)
        (conj (zenith_alt d lon lat) (conj (zenith_alt_deg d lon lat) (zenith_range d lon lat))))).
Qed.
Print Assumptions C06_consistency.

(* azimuth = atan2 (east component, north component) of the sun direction: clockwise from
   north, in (-PI, PI] *)
Theorem C06_azimuth_clockwise_from_north : forall d lon lat, -1 / 2 <= d / 36525 <= 51 / 100 ->
  let ra := gen_sun_ra d in let dec := gen_sun_dec d in
  let th := gen_gmst d + deg2rad lon in let phi := deg2rad lat in
  gen_sun_az d lon lat
  = atan2 (dot3 (sph_x ra dec) (sph_y ra dec) (sph_z ra dec) (east_x th phi) (east_y th phi) (east_z th phi))
          (dot3 (sph_x ra dec) (sph_y ra dec) (sph_z ra dec) (north_x th phi) (north_y th phi) (north_z th phi))
  /\ - PI < gen_sun_az d lon lat <= PI.
Proof. exact azimuth_is_EN_range. Qed.
Print Assumptions C06_azimuth_clockwise_from_north.

(* 7. sub-solar point (lat = dec, hour angle = 0 mod 2 PI) and its antipode *)
Theorem C06_subsolar : forall d (k : Z),
  let lon := rad2deg (gen_sun_ra d - gen_gmst d + 2 * IZR k * PI) in
  let lat := rad2deg (gen_sun_dec d) in
  gen_cos_zen d lon lat = 1 /\ gen_sun_zenith_angle d lon lat = 0 /\
  gen_cos_zen d (lon + 180) (- lat) = -1 /\ gen_sun_zenith_angle d (lon + 180) (- lat) = 180.
Proof.
  intros d k.
  exact (conj (subsolar_coszen d k) (conj (subsolar_zenith d k)
        (conj (antipode_coszen d k) (antipode_zenith d k)))).
Qed.
Print Assumptions C06_subsolar.

(* the instant excluded above exists (autumn equinox of the model, September 2024):
   a real-number artefact of the half-angle formula *)
Theorem C06_ra_singular_instant : exists d, -1 / 2 <= d / 36525 <= 51 / 100 /\
  cos (gen_sun_ecliptic_longitude d) = -1 /\ gen_sun_ra d = 0.
Proof. exact ra_singular_instant. Qed.
Print Assumptions C06_ra_singular_instant.

(* non-vacuity: 2024-08-22T18:00 UTC (d = 9000.25) is inside every hypothesis *)
Example C06_inhabited :
  -1 / 2 <= 900025 / 100 / 36525 <= 51 / 100 /\ cos (gen_sun_ecliptic_longitude (900025 / 100)) <> -1.
Proof. exact inhabited. Qed.
