(* C07 — geolocated pixels lie on the WGS-84 ellipsoid along the line of sight.
   Statements only; proofs in proofs/P_Pixels.v (and P_Rot.v).  gen_* are regenerated from
   /repo/pyorbital/geoloc.py on every run: gen_pixel_* = the core of compute_pixels for one column
   with satellite position (x,y,z) and view vector (lx,ly,lz); gen_vec_* / gen_vectors_* =
   ScanGeometry.vectors for one column with position (px,py,_), velocity (ux,uy,uz), the geodetic
   latitude iteration's value lat, scan angles f0 f1 and attitude roll pitch yaw. *)
From Coq Require Import Reals Lra List Bool.
From PyOrb.lib Require Import PyReal.
From PyOrb.spec Require Import Spec_Rot.
From PyOrb.model Require Import M_VecLoop.
From PyOrb.gen Require Import Gen_geoloc.
From PyOrb.proofs Require Import P_Rot P_Pixels.
Open Scope R_scope.

(* the returned pixel satisfies the WGS-84 ellipsoid equation exactly (a = 6378.137, b = 6356.752314245) *)
Theorem C07_on_ellipsoid : forall x y z lx ly lz,
  0 < gen_pixel_lsq x y z lx ly lz -> 0 <= gen_pixel_disc x y z lx ly lz ->
  on_ellipsoid A_wgs84 B_wgs84 (gen_pixel_x x y z lx ly lz) (gen_pixel_y x y z lx ly lz) (gen_pixel_z x y z lx ly lz).
Proof. exact c07_on_ellipsoid. Qed.
Print Assumptions C07_on_ellipsoid.

(* the pixel is on the ray pos + d1 * view; d1 is the smaller of the two parameters at which the
   line meets the ellipsoid, and there are no others *)
Theorem C07_near_root : forall x y z lx ly lz,
  0 < gen_pixel_lsq x y z lx ly lz -> 0 <= gen_pixel_disc x y z lx ly lz ->
  let d1 := gen_pixel_d1 x y z lx ly lz in
  let d2 := pixel_d2 x y z lx ly lz in
  (gen_pixel_x x y z lx ly lz = x + d1 * lx /\ gen_pixel_y x y z lx ly lz = y + d1 * ly /\
   gen_pixel_z x y z lx ly lz = z + d1 * lz) /\
  d1 <= d2 /\
  on_ellipsoid A_wgs84 B_wgs84 (x + d2 * lx) (y + d2 * ly) (z + d2 * lz) /\
  (forall d, on_ellipsoid A_wgs84 B_wgs84 (x + d * lx) (y + d * ly) (z + d * lz) -> d = d1 \/ d = d2).
Proof. exact c07_near_root. Qed.
Print Assumptions C07_near_root.

(* satellite outside the ellipsoid and view pointing towards it (<view, -pos> > 0 in the scaled metric):
   the chosen intersection is in front of the satellite *)
Theorem C07_forward : forall x y z lx ly lz,
  0 < gen_pixel_lsq x y z lx ly lz -> 0 <= gen_pixel_disc x y z lx ly lz ->
  1 < ellipsoid_form A_wgs84 B_wgs84 x y z -> 0 < gen_pixel_ldotc x y z lx ly lz ->
  0 < gen_pixel_d1 x y z lx ly lz.
Proof. exact c07_forward. Qed.
Print Assumptions C07_forward.

(* the satellite is on the outer side of the tangent plane at the pixel (above its horizon):
   <gradient of the ellipsoid form at the pixel, sat - pixel> = 2 d1 sqrt(disc) >= 0 for d1 >= 0 *)
Theorem C07_horizon : forall x y z lx ly lz,
  0 < gen_pixel_lsq x y z lx ly lz -> 0 <= gen_pixel_disc x y z lx ly lz ->
  0 <= gen_pixel_d1 x y z lx ly lz ->
  let px := gen_pixel_x x y z lx ly lz in let py := gen_pixel_y x y z lx ly lz in
  let pz := gen_pixel_z x y z lx ly lz in
  0 <= (2 * px / (A_wgs84 * A_wgs84)) * (x - px) + (2 * py / (A_wgs84 * A_wgs84)) * (y - py)
       + (2 * pz / (B_wgs84 * B_wgs84)) * (z - pz).
Proof. exact c07_horizon. Qed.
Print Assumptions C07_horizon.

(* a real intersection exists exactly when the discriminant under the code's square root is
   non-negative; for a negative discriminant no point of the line is on the ellipsoid (the code
   then takes np.sqrt of a negative number: NaN — tied to the implementation by correspondence) *)
Theorem C07_miss : forall x y z lx ly lz,
  0 < gen_pixel_lsq x y z lx ly lz ->
  ((exists d, on_ellipsoid A_wgs84 B_wgs84 (x + d * lx) (y + d * ly) (z + d * lz))
   <-> 0 <= gen_pixel_disc x y z lx ly lz).
Proof. exact c07_miss. Qed.
Print Assumptions C07_miss.

(* view vectors have unit length (velocity non-zero and not along the nadir direction) *)
Theorem C07_unit : forall px py ux uy uz lat f0 f1 roll pitch yaw,
  let nx := gen_vec_nadir_x px py lat in let ny := gen_vec_nadir_y px py lat in
  let nz := gen_vec_nadir_z px py lat in
  nonzero3 ux uy uz ->
  nonzero3 (cross_x nx ny nz ux uy uz) (cross_y nx ny nz ux uy uz) (cross_z nx ny nz ux uy uz) ->
  norm3 (gen_vectors_x px py ux uy uz lat f0 f1 roll pitch yaw) (gen_vectors_y px py ux uy uz lat f0 f1 roll pitch yaw)
        (gen_vectors_z px py ux uy uz lat f0 f1 roll pitch yaw) = 1.
Proof. exact c07_unit. Qed.
Print Assumptions C07_unit.

(* the nadir direction used is the normalised subpoint of -pos, a unit vector *)
Theorem C07_nadir : forall px py pz lat,
  let sx := gen_subpoint_x (- px) (- py) (- pz) lat in
  let sy := gen_subpoint_y (- px) (- py) (- pz) lat in
  let sz := gen_subpoint_z (- px) (- py) (- pz) lat in
  (gen_vec_nadir_x px py lat = sx / norm3 sx sy sz /\ gen_vec_nadir_y px py lat = sy / norm3 sx sy sz /\
   gen_vec_nadir_z px py lat = sz / norm3 sx sy sz) /\
  norm3 (gen_vec_nadir_x px py lat) (gen_vec_nadir_y px py lat) (gen_vec_nadir_z px py lat) = 1.
Proof. exact c07_nadir. Qed.
Print Assumptions C07_nadir.

(* zero scan angles and zero attitude give the nadir direction *)
Theorem C07_zero_angles : forall px py ux uy uz lat,
  let nx := gen_vec_nadir_x px py lat in let ny := gen_vec_nadir_y px py lat in
  let nz := gen_vec_nadir_z px py lat in
  nonzero3 ux uy uz ->
  nonzero3 (cross_x nx ny nz ux uy uz) (cross_y nx ny nz ux uy uz) (cross_z nx ny nz ux uy uz) ->
  gen_vectors_x px py ux uy uz lat 0 0 0 0 0 = nx /\ gen_vectors_y px py ux uy uz lat 0 0 0 0 0 = ny /\
  gen_vectors_z px py ux uy uz lat 0 0 0 0 0 = nz.
Proof. exact c07_zero_angles. Qed.
Print Assumptions C07_zero_angles.

(* roll and pitch add to the across- and along-track scan angles *)
Theorem C07_attitude_adds : forall px py ux uy uz lat f0 f1 roll pitch yaw,
  gen_vectors_x px py ux uy uz lat f0 f1 roll pitch yaw = gen_vectors_x px py ux uy uz lat (f0 + roll) (f1 + pitch) 0 0 yaw /\
  gen_vectors_y px py ux uy uz lat f0 f1 roll pitch yaw = gen_vectors_y px py ux uy uz lat (f0 + roll) (f1 + pitch) 0 0 yaw /\
  gen_vectors_z px py ux uy uz lat f0 f1 roll pitch yaw = gen_vectors_z px py ux uy uz lat (f0 + roll) (f1 + pitch) 0 0 yaw.
Proof. exact vectors_attitude_adds. Qed.
Print Assumptions C07_attitude_adds.

(* yaw leaves the off-nadir angle unchanged: <view, nadir> does not depend on yaw *)
Theorem C07_yaw : forall px py ux uy uz lat f0 f1 roll pitch yaw yaw',
  let nx := gen_vec_nadir_x px py lat in let ny := gen_vec_nadir_y px py lat in
  let nz := gen_vec_nadir_z px py lat in
  dot3 (gen_vectors_x px py ux uy uz lat f0 f1 roll pitch yaw) (gen_vectors_y px py ux uy uz lat f0 f1 roll pitch yaw)
       (gen_vectors_z px py ux uy uz lat f0 f1 roll pitch yaw) nx ny nz
  = dot3 (gen_vectors_x px py ux uy uz lat f0 f1 roll pitch yaw') (gen_vectors_y px py ux uy uz lat f0 f1 roll pitch yaw')
         (gen_vectors_z px py ux uy uz lat f0 f1 roll pitch yaw') nx ny nz.
Proof. exact c07_yaw. Qed.
Print Assumptions C07_yaw.

(* the sense of the scan angles (yaw = 0; yaw then turns the view about nadir): with c = nadir x vel
   (pointing to the right of the velocity) the view's component along c is sin(f0+roll) |c|^2/|vel|,
   its component along the velocity is <nadir,vel> cos(f1+pitch) - |c| cos(f0+roll) sin(f1+pitch) *)
Theorem C07_sense_across : forall px py ux uy uz lat f0 f1 roll pitch,
  let nx := gen_vec_nadir_x px py lat in let ny := gen_vec_nadir_y px py lat in
  let nz := gen_vec_nadir_z px py lat in
  let cx := cross_x nx ny nz ux uy uz in let cy := cross_y nx ny nz ux uy uz in
  let cz := cross_z nx ny nz ux uy uz in
  nonzero3 ux uy uz -> nonzero3 cx cy cz ->
  dot3 (gen_vectors_x px py ux uy uz lat f0 f1 roll pitch 0) (gen_vectors_y px py ux uy uz lat f0 f1 roll pitch 0)
       (gen_vectors_z px py ux uy uz lat f0 f1 roll pitch 0) cx cy cz
  = sin (f0 + roll) * (cx * cx + cy * cy + cz * cz) / norm3 ux uy uz.
Proof. intros. apply sense_across; assumption. Qed.
Print Assumptions C07_sense_across.

Theorem C07_sense_along : forall px py ux uy uz lat f0 f1 roll pitch,
  let nx := gen_vec_nadir_x px py lat in let ny := gen_vec_nadir_y px py lat in
  let nz := gen_vec_nadir_z px py lat in
  let cx := cross_x nx ny nz ux uy uz in let cy := cross_y nx ny nz ux uy uz in
  let cz := cross_z nx ny nz ux uy uz in
  nonzero3 ux uy uz -> nonzero3 cx cy cz ->
  dot3 (gen_vectors_x px py ux uy uz lat f0 f1 roll pitch 0) (gen_vectors_y px py ux uy uz lat f0 f1 roll pitch 0)
       (gen_vectors_z px py ux uy uz lat f0 f1 roll pitch 0) ux uy uz
  = dot3 nx ny nz ux uy uz * cos (f1 + pitch) - norm3 cx cy cz * cos (f0 + roll) * sin (f1 + pitch).
Proof. intros. apply sense_along; assumption. Qed.
Print Assumptions C07_sense_along.

(* positive across-track angles tilt the view to the right of the velocity, negative to the left;
   positive along-track angles tilt it backward relative to nadir, negative forward *)
Theorem C07_sense : forall px py ux uy uz lat f0 f1 roll pitch,
  let nx := gen_vec_nadir_x px py lat in let ny := gen_vec_nadir_y px py lat in
  let nz := gen_vec_nadir_z px py lat in
  let cx := cross_x nx ny nz ux uy uz in let cy := cross_y nx ny nz ux uy uz in
  let cz := cross_z nx ny nz ux uy uz in
  let wx := gen_vectors_x px py ux uy uz lat f0 f1 roll pitch 0 in
  let wy := gen_vectors_y px py ux uy uz lat f0 f1 roll pitch 0 in
  let wz := gen_vectors_z px py ux uy uz lat f0 f1 roll pitch 0 in
  nonzero3 ux uy uz -> nonzero3 cx cy cz ->
  (0 < f0 + roll < PI -> 0 < dot3 wx wy wz cx cy cz) /\
  (- PI < f0 + roll < 0 -> dot3 wx wy wz cx cy cz < 0) /\
  (- PI / 2 < f0 + roll < PI / 2 -> 0 < f1 + pitch < PI ->
     dot3 wx wy wz ux uy uz < dot3 nx ny nz ux uy uz * cos (f1 + pitch)) /\
  (- PI / 2 < f0 + roll < PI / 2 -> - PI < f1 + pitch < 0 ->
     dot3 nx ny nz ux uy uz * cos (f1 + pitch) < dot3 wx wy wz ux uy uz).
Proof. exact c07_sense_signs. Qed.
Print Assumptions C07_sense.

(* converting a pixel to lon / lat / alt terminates: a point ON the ellipsoid and off the polar axis is at least the polar radius
   from the centre, so geoloc.get_lonlatalt's latitude iteration (regenerated from source, a contraction with factor 0.0069:
   C04) meets its exit test |lat - lat2| < 1e-10 at the fifth test at the latest; this discharges, per pixel, the
   "every position eventually passes" hypothesis of C07_terminates below *)
From PyOrb.proofs Require P_PixelLoop.
From PyOrb.gen Require Gen_orbital.
Theorem C07_pixel_conversion_terminates : forall x y z d, 0 < x * x + y * y -> on_ellipsoid A_wgs84 B_wgs84 x y z ->
  Gen_orbital.gen_geoloc_lla_exit_p1 x y z d \/ Gen_orbital.gen_geoloc_lla_exit_p2 x y z d \/ Gen_orbital.gen_geoloc_lla_exit_p3 x y z d \/
  Gen_orbital.gen_geoloc_lla_exit_p4 x y z d \/ Gen_orbital.gen_geoloc_lla_exit_p5 x y z d.
Proof. exact P_PixelLoop.pixel_conversion_exits_by_5. Qed.
Print Assumptions C07_pixel_conversion_terminates.

(* termination of the vectorised latitude loops (model/M_VecLoop.v): with the exit test of the
   fixed code a batch leaves the loop as soon as every position is below 1e-10 or NaN *)
Theorem C07_terminates : forall n passes,
  (forall k, length (passes k) = n) ->
  (forall i, (i < n)%nat -> exists K, forall k, (K <= k)%nat -> pass_fixed (nth i (passes k) None) = true) ->
  exists N, exits_within exit_fixed passes N = true.
Proof. exact fixed_loop_exits. Qed.
Print Assumptions C07_terminates.

(* with the exit test before the fix (b534fb9) one NaN position kept the loop running for ever *)
Theorem C07_terminates_refuted_before_fix : forall passes i,
  (forall k, (i < length (passes k))%nat /\ nth i (passes k) None = None) ->
  forall N, exits_within exit_orig passes N = false.
Proof. exact orig_loop_never_exits. Qed.
Print Assumptions C07_terminates_refuted_before_fix.

(* non-vacuity: a satellite at (7000, 0, 0) km looking straight down meets every hypothesis of the
   intersection theorems; a batch with a NaN position meets the hypothesis of C07_terminates *)
Example C07_inhabited :
  0 < gen_pixel_lsq 7000 0 0 (-1) 0 0 /\ 0 <= gen_pixel_disc 7000 0 0 (-1) 0 0 /\
  1 < ellipsoid_form A_wgs84 B_wgs84 7000 0 0 /\ 0 < gen_pixel_ldotc 7000 0 0 (-1) 0 0 /\
  nonzero3 0 7 0 /\
  (forall i, (i < 2)%nat -> exists K, forall k, (K <= k)%nat -> pass_fixed (nth i (demo_passes k) None) = true).
Proof. exact c07_inhabited. Qed.
