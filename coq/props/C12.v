(* C12 — Julian dates and Greenwich sidereal time.  Statements only; proofs in proofs/P_Time.v.
   gen_* are regenerated from /repo/pyorbital/astronomy.py on every run. *)
From Coq Require Import Reals ZArith Lra.
From PyOrb.lib Require Import PyReal.
From PyOrb.spec Require Import Spec_Time.
From PyOrb.gen Require Import Gen_astronomy.
From PyOrb.proofs Require Import P_Time.
Open Scope R_scope.

(* the proleptic-Gregorian day count (datetime64 tick) agrees with the independent
   Fliegel-Van Flandern integer algorithm on every date 1900-01-01 .. 2100-12-31 *)
Theorem C12_calendar : forall y m d : Z,
  (1900 <= y <= 2100)%Z -> (1 <= m <= 12)%Z -> (1 <= d <= 31)%Z ->
  (days_from_civil y m d + 2440588 = jdn y m d)%Z.
Proof. exact calendar_1900_2100. Qed.
Print Assumptions C12_calendar.

(* jdays(tick of civil instant) = civil-calendar Julian date, exactly over the reals *)
Theorem C12_jd : forall y m d hh mi ss us : Z,
  (1900 <= y <= 2100)%Z -> (1 <= m <= 12)%Z -> (1 <= d <= 31)%Z ->
  gen_jdays (d_of_us (civil_us y m d hh mi ss us)) = jd_civil y m d hh mi ss us.
Proof. exact jdays_is_civil_jd. Qed.
Print Assumptions C12_jd.

Theorem C12_j2000 : forall d, gen_jdays2000 d = gen_jdays d - 2451545.
Proof. exact jdays2000_is_jdays. Qed.
Print Assumptions C12_j2000.

Theorem C12_differences : forall d1 d2,
  gen_jdays d2 - gen_jdays d1 = d2 - d1 /\ gen_jdays2000 d2 - gen_jdays2000 d1 = d2 - d1.
Proof. intros; split; [apply jdays_difference | apply jdays2000_difference]. Qed.
Print Assumptions C12_differences.

Theorem C12_gmst_range : forall d, 0 <= gen_gmst d < 2 * PI.
Proof. exact gmst_range. Qed.
Print Assumptions C12_gmst_range.

(* 1900..2100 is |T| <= 1 century; congruent mod 2*pi to IAU-1982 within 1e-7 rad *)
Theorem C12_gmst_iau : forall d, -1 <= d / 36525 <= 1 ->
  exists k : Z, Rabs (gen_gmst d - IZR k * (2 * PI) - gmst82_rad d) <= 1 / 10000000.
Proof. exact gmst_iau82. Qed.
Print Assumptions C12_gmst_iau.

Theorem C12_gmst_rate : forall d1 d2,
  -1 <= d1 / 36525 <= 1 -> -1 <= d2 / 36525 <= 1 ->
  exists k : Z,
    Rabs (gen_gmst d2 - gen_gmst d1 - IZR k * (2 * PI) - 2 * PI * sidereal_rate * (d2 - d1))
    <= 1 / 1000000000 * Rabs (d2 - d1).
Proof. exact gmst_rate. Qed.
Print Assumptions C12_gmst_rate.

(* non-vacuity: 2024-02-29T23:59:59.999999 is inside every hypothesis *)
Example C12_inhabited :
  (1900 <= 2024 <= 2100)%Z /\ -1 <= d_of_us (civil_us 2024 2 29 23 59 59 999999) / 36525 <= 1.
Proof.
  split; [split; discriminate|].
  unfold d_of_us.
  replace (civil_us 2024 2 29 23 59 59 999999 - j2000_us)%Z with 762523199999999%Z
    by (vm_compute; reflexivity).
  lra.
Qed.
