(* C09 — modulo-10 checksum.  Statements only. Model: model/M_Checksum.v (hand-written,
   tied to tlefile.py by the exhaustive per-TLE correspondence sweep of checks/c09.py). *)
From Coq Require Import List ZArith Ascii Bool.
From Coq Require Import String.
Local Notation length := List.length.
From PyOrb.model Require Import M_Checksum.
From PyOrb.proofs Require Import P_Checksum.
Import ListNotations.
Open Scope Z_scope.

(* accepted iff the last character is the digit of (sum of digits + number of '-') mod 10
   over all other characters — for lines of ANY length *)
Theorem C09_accept_iff : forall l,
  check_line l = Accept <->
  exists body last, l = body ++ [last] /\ is_digit last = true /\ wsum body mod 10 = digit_val last.
Proof. exact accept_iff. Qed.
Print Assumptions C09_accept_iff.

Theorem C09_single_digit : forall l i c,
  check_line l = Accept -> (i < length l)%nat ->
  is_digit (nth i l c) = true -> is_digit c = true -> c <> nth i l c ->
  check_line (subst l i c) <> Accept.
Proof. exact single_digit_rejected. Qed.
Print Assumptions C09_single_digit.

Theorem C09_single_char : forall l i c,
  check_line l = Accept -> (i < length l)%nat -> (i < length l - 1)%nat ->
  (weight c - weight (nth i l c)) mod 10 <> 0 ->
  check_line (subst l i c) <> Accept.
Proof. exact single_char_rejected. Qed.
Print Assumptions C09_single_char.

Theorem C09_both_lines : forall l1 l2,
  check_tle l1 l2 = Accept <-> check_line l1 = Accept /\ check_line l2 = Accept.
Proof. exact check_tle_accept. Qed.
Print Assumptions C09_both_lines.

(* elements are produced only from lines that both passed: never from a rejected line *)
Theorem C09_before_parse : forall (A : Type) (parse : list ascii -> list ascii -> A) l1 l2 r,
  snd (ctor parse l1 l2) = Some r -> check_line l1 = Accept /\ check_line l2 = Accept.
Proof. intros A. exact (@parse_only_after_accept A). Qed.
Print Assumptions C09_before_parse.

(* non-vacuity: a real TLE line is accepted, and a one-digit corruption of it is not *)
Example C09_inhabited :
  let l := String.list_ascii_of_string "1 25544U 98067A   08264.51782528 -.00002182  00000-0 -11606-4 0  2927"%string in
  check_line l = Accept /\ check_line (subst l 20 "7"%char) = ChecksumError.
Proof. vm_compute. split; reflexivity. Qed.
