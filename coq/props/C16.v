(* C16 — TLE source precedence.  Statements only.  Model: model/M_Source.v (hand-written decision
   function of _read_tle + _get_uris_and_open_func + _get_config_path + get_platforms_filepath,
   tied to tlefile.py by the exhaustive 216 x 2 configuration run of checks/c16.py). *)
From Coq Require Import List Bool Arith.
From PyOrb.model Require Import M_Source.
From PyOrb.proofs Require Import P_Source.
Import ListNotations.

(* given lines, then file/stream, then newest TLES file, then network — for EVERY configuration *)
Theorem C16_precedence : forall c : cfg, o_source (read_tle c) = spec_source c.
Proof. exact precedence. Qed.
Print Assumptions C16_precedence.

(* both lines given: nothing else is consulted, nothing fails *)
Theorem C16_lines_win : forall c : cfg, both_lines c = true -> read_tle c = mkout SLines 0 None.
Proof. exact lines_win. Qed.
Print Assumptions C16_lines_win.

(* the TLES file used is one with the largest change time among those matched *)
Theorem C16_newest_of_matches : forall (c : cfg) (i : nat),
  o_source (read_tle c) = STles i ->
  exists files ct, tles_glob (c_tles c) = Some files /\ In (i, ct) files /\
                   forall g, In g files -> snd g <= ct.
Proof. exact several_is_newest. Qed.
Print Assumptions C16_newest_of_matches.

(* ... and the selection function does so for ARBITRARY lists of (file, change time) *)
Theorem C16_newest_general : forall (files : list (nat * nat)) (f : nat * nat),
  newest files = Some f -> In f files /\ forall g, In g files -> snd g <= snd f.
Proof. exact newest_is_max. Qed.
Print Assumptions C16_newest_general.

Theorem C16_newest_empty : forall files : list (nat * nat), newest files = None <-> files = [].
Proof. exact newest_none. Qed.
Print Assumptions C16_newest_empty.

(* a configured local source: no network request, and the source is not the network *)
Theorem C16_no_network_if_local : forall c : cfg,
  local_configured c = true -> o_net (read_tle c) = 0 /\ o_source (read_tle c) <> SNet.
Proof. exact no_network_if_local. Qed.
Print Assumptions C16_no_network_if_local.

(* network requests happen exactly when nothing local is configured (then all 9 group URLs) *)
Theorem C16_network_iff_nothing_local : forall c : cfg,
  o_net (read_tle c) > 0 <-> local_configured c = false.
Proof. exact network_iff_nothing_local. Qed.
Print Assumptions C16_network_iff_nothing_local.

Theorem C16_network_reads_all_urls : forall c : cfg,
  local_configured c = false -> o_source (read_tle c) = SNet /\ o_net (read_tle c) = n_tle_urls.
Proof. exact network_reads_all_urls. Qed.
Print Assumptions C16_network_reads_all_urls.

(* "even if it yields nothing": the read fails; it is not replaced by a download *)
Theorem C16_local_yields_nothing : forall c : cfg,
  local_configured c = true -> both_lines c = false ->
  (c_has c = false \/ c_tles c = TNothing /\ file_given c = false) ->
  o_exn (read_tle c) <> None /\ o_net (read_tle c) = 0.
Proof. exact local_yields_nothing. Qed.
Print Assumptions C16_local_yields_nothing.

(* TLES matching nothing: max() of an empty list -> ValueError, no request *)
Theorem C16_tles_nothing : forall c : cfg,
  both_lines c = false -> file_given c = false -> c_tles c = TNothing ->
  read_tle c = mkout SNoSource 0 (Some EValueError).
Proof. exact tles_nothing_valueerror. Qed.
Print Assumptions C16_tles_nothing.

(* registry: PYORBITAL_CONFIG_PATH when it holds a platforms.txt, the packaged file otherwise *)
Theorem C16_platforms_file : forall (p : cfgpath_env) (q : ppp_env),
  get_platforms_filepath p q true = inl (match p with PWithFile => DCustom | _ => DPkg end).
Proof. exact platforms_file. Qed.
Print Assumptions C16_platforms_file.

(* PPP_CONFIG_DIR alone never changes it (also when the packaged file were missing) *)
Theorem C16_ppp_irrelevant : forall (p : cfgpath_env) (q q' : ppp_env) (pkg_ok : bool),
  get_platforms_filepath p q pkg_ok = get_platforms_filepath p q' pkg_ok.
Proof. exact ppp_irrelevant. Qed.
Print Assumptions C16_ppp_irrelevant.

(* the table evaluated by the check covers every configuration *)
Theorem C16_enumeration_complete : forall c : cfg, In c all_cfgs.
Proof. exact all_cfgs_complete. Qed.
Print Assumptions C16_enumeration_complete.

(* non-vacuity: concrete configurations of every kind *)
Example C16_inhabited :
  read_tle (mkcfg LOne FNone TSeveral PWithout QSet true) = mkout (STles 1) 0 None /\
  read_tle (mkcfg LNone FNone TUnset PUnset QUnset true) = mkout SNet 9 None /\
  read_tle (mkcfg LNone FXml TNothing PWithFile QSet false) = mkout SXml 0 (Some EKeyError) /\
  read_tle (mkcfg LOne FNone TNothing PUnset QSet true) = mkout SNoSource 0 (Some EValueError) /\
  length all_cfgs = 2 * 216.
Proof. vm_compute. repeat split; reflexivity. Qed.
