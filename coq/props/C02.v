(* C02 — TLE fields are decoded exactly as encoded in their fixed columns.  Statements only.
   Spec: spec/Spec_TLE.v (the standard column layout as a printer `encode`, with `values` the
   numbers the printed fields denote).  Model: model/M_TleText.v (hand-written from
   tlefile.Tle._read_tle/_parse_tle, tied to the code by the correspondence run of checks/c02.py).
   Numbers are exact decimals (-1)^neg * mant * 10^e10; binary64 rounding is outside these
   theorems (validated by the correspondence run). *)
From Coq Require Import List ZArith Ascii Bool.
From Coq Require Import String.
Local Notation length := List.length.
From PyOrb.spec Require Import Spec_Time Spec_TLE.
From PyOrb.model Require Import M_Checksum M_TleText.
From PyOrb.proofs Require Import P_Checksum P_TleText.
Import ListNotations.
Open Scope Z_scope.

(* every attribute, for every well-formed field record: strings and integers exactly, each
   float attribute as the exact decimal its column denotes (sign, all printed digits, power of ten) *)
Theorem C02_decode_encode : forall f, wf f = true ->
  decode (fst (encode f)) (snd (encode f)) = Some (values f).
Proof. exact decode_encode. Qed.
Print Assumptions C02_decode_encode.

(* the epoch is exactly a whole number of microseconds: 1 January 00:00 of the pivoted year plus
   (day - 1) days, where day = D / 10^8 for the eleven printed digits D, so (day - 1) days = (D - 10^8) * 864 us *)
Theorem C02_epoch : forall f, wf f = true ->
  exists e, decode (fst (encode f)) (snd (encode f)) = Some e /\
    snd (epoch e) = 10 ^ 8 /\
    fst (epoch e) = snd (epoch e) *
      (civil_us (pivot (zdigits (f_eyear f))) 1 1 0 0 0 0 + (fixed_digits (f_eday f) - 10 ^ 8) * 864).
Proof. exact decode_epoch. Qed.
Print Assumptions C02_epoch.

(* strip removes exactly the surrounding whitespace, and _read_tle stores the stripped inputs *)
Theorem C02_strip : forall pre body post l1 l2,
  (allspace pre = true -> allspace post = true -> trimmed body -> strip (pre ++ body ++ post) = body) /\
  (no_nl (strip l1) = true -> no_nl (strip l2) = true -> read_tle l1 l2 = Some (strip l1, strip l2)).
Proof. exact strip_and_read. Qed.
Print Assumptions C02_strip.

(* the printed element set is 2 x 69 characters and passes the checksum test of the constructor *)
Theorem C02_encoded_accepted : forall f, wf f = true ->
  length (fst (encode f)) = 69%nat /\ length (snd (encode f)) = 69%nat /\
  check_tle (fst (encode f)) (snd (encode f)) = Accept.
Proof. exact encoded_accepted. Qed.
Print Assumptions C02_encoded_accepted.

(* the whole constructor (strip; checksum; parse) on a well-formed element set given with
   arbitrary surrounding whitespace: line1/line2 are the bare lines and the elements are `values` *)
Theorem C02_init : forall f pre1 post1 pre2 post2, wf f = true ->
  allspace pre1 = true -> allspace post1 = true -> allspace pre2 = true -> allspace post2 = true ->
  tle_init (pre1 ++ fst (encode f) ++ post1) (pre2 ++ snd (encode f) ++ post2)
  = Some (fst (encode f), snd (encode f), values f).
Proof. exact tle_init_encode. Qed.
Print Assumptions C02_init.

(* every float attribute is a decimal with an integer mantissa below 2^53 and a power of ten within
   10^(+-22): both parts are exactly representable in binary64 (the regime in which the nearest double
   is one correctly rounded operation away; that CPython returns it is validated, not proved) *)
Theorem C02_decimal_sizes : forall f, wf f = true ->
  let v := values f in
  small (epoch_day v) /\ small (mean_motion_derivative v) /\ small (mean_motion_sec_derivative v) /\
  small (bstar v) /\ small (inclination v) /\ small (right_ascension v) /\ small (excentricity v) /\
  small (arg_perigee v) /\ small (mean_anomaly v) /\ small (mean_motion v).
Proof. exact values_small. Qed.
Print Assumptions C02_decimal_sizes.

Open Scope string_scope.
(* non-vacuity 1: the printer reproduces a real element set (ISS, 2008), checksums included *)
Example C02_iss :
  let L := list_ascii_of_string in
  let iss := {|
    f_satnum := L "25544"; f_class := "U"%char; f_lyear := L "98"; f_lnum := L "067"; f_piece := L "A  ";
    f_eyear := ds "08"; f_eday := mkfix 0 (ds "264") (ds "51782528");
    f_ndot := mksf Sminus (ds "00002182");
    f_nddot := mkexp Sblank (ds "00000") true D0; f_bstar := mkexp Sminus (ds "11606") true D4;
    f_etype := Some D0; f_elnum := mkpad 1 (ds "292");
    f_inc := mkfix 1 (ds "51") (ds "6416"); f_raan := mkfix 0 (ds "247") (ds "4627");
    f_ecc := mkpad 0 (ds "0006703"); f_argp := mkfix 0 (ds "130") (ds "5360"); f_ma := mkfix 0 (ds "325") (ds "0288");
    f_mm := mkfix 0 (ds "15") (ds "72125391"); f_rev := mkpad 0 (ds "56353") |} in
  wf iss = true /\
  encode iss = (L "1 25544U 98067A   08264.51782528 -.00002182  00000-0 -11606-4 0  2927",
                L "2 25544  51.6416 247.4627 0006703 130.5360 325.0288 15.72125391563537") /\
  bstar (values iss) = mkdec true 11606 (-9) /\
  QArith_base.Qeq_bool (dec_Q (bstar (values iss))) (QArith_base.Qmake (-11606) 1000000000) = true /\   (* -.11606e-4 *)
  QArith_base.Qeq_bool (dec_Q (inclination (values iss))) (QArith_base.Qmake 516416 10000) = true /\
  (* 2008-09-20T12:25:40.104192 *)
  epoch (values iss) = (10 ^ 8 * civil_us 2008 9 20 12 25 40 104192, 10 ^ 8).
Proof. vm_compute. repeat split; reflexivity. Qed.

(* non-vacuity 2: three-digit angles, explicit '+' signs, a positive exponent, a negative zero,
   day 366.0 of the leap year 2068, blank ephemeris type, four-digit element number, five-digit
   revolution number, blank-padded angle and mean motion *)
Example C02_boundary :
  let L := list_ascii_of_string in
  let ex := {|
    f_satnum := L "99999"; f_class := "S"%char; f_lyear := L "99"; f_lnum := L "999"; f_piece := L "ZZZ";
    f_eyear := ds "68"; f_eday := mkfix 0 (ds "366") (ds "00000000");
    f_ndot := mksf Splus (ds "99999999");
    f_nddot := mkexp Splus (ds "99999") false D9; f_bstar := mkexp Sminus (ds "00000") true D0;
    f_etype := None; f_elnum := mkpad 0 (ds "9999");
    f_inc := mkfix 0 (ds "179") (ds "9999"); f_raan := mkfix 0 (ds "359") (ds "9999");
    f_ecc := mkpad 0 (ds "9999999"); f_argp := mkfix 2 (ds "0") (ds "0001"); f_ma := mkfix 0 (ds "100") (ds "0000");
    f_mm := mkfix 1 (ds "1") (ds "00273791"); f_rev := mkpad 0 (ds "99999") |} in
  wf ex = true /\
  encode ex = (L "1 99999S 99999ZZZ 68366.00000000 +.99999999 +99999+9 -00000-0   99994",
               L "2 99999 179.9999 359.9999 9999999   0.0001 100.0000  1.00273791999993") /\
  tle_init (L "  " ++ fst (encode ex) ++ L " ")%list (snd (encode ex)) = Some (fst (encode ex), snd (encode ex), values ex) /\
  inclination (values ex) = mkdec false 1799999 (-4) /\
  mean_motion_sec_derivative (values ex) = mkdec false 99999 4 /\
  QArith_base.Qeq_bool (dec_Q (mean_motion_sec_derivative (values ex))) (QArith_base.inject_Z 999990000) = true /\   (* +.99999e+9 *)
  bstar (values ex) = mkdec true 0 (-5) /\
  ephemeris_type (values ex) = 0 /\ element_number (values ex) = 9999 /\ orbit (values ex) = 99999 /\
  (* 2068-12-31T00:00:00 *)
  epoch (values ex) = (10 ^ 8 * civil_us 2068 12 31 0 0 0 0, 10 ^ 8).
Proof. vm_compute. repeat split; reflexivity. Qed.
