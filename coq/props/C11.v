(* C11 — orbit numbers and node times.  Statements only.  Model: model/M_NodeTime.v (hand-written
   executable models of Orbital.get_last_an_time on integer ticks, of the int/TBUS logic of
   get_orbit_number and of the (an_time, an_period) cache; tied to orbital.py by the correspondence run
   of checks/c11.py, which replays the implementation's own recorded z samples through the model).
   PROVED here: the loop logic for EVERY z (post-condition, termination under explicit hypotheses,
   non-termination without the unit conversion), truncation/TBUS/monotonicity of the number formula over
   the reals, cache purity, the bracket handed to scipy.optimize.bisect.
   NOT proved (facts about the SGP4 trajectory and scipy, validated by sampling in checks/c11.py):
   orbit number = TLE rev + signed count of ascending crossings (outside 2 s + 5 s/day), "no other
   ascending node between the result and the query time", v_z > 0 at the result, |dz/dt| <= 8 km/s,
   the 10-minute grid brackets a node, scipy's bisect contract, binary64 rounding of the cubic. *)
From Coq Require Import ZArith QArith Qabs List Reals.
From PyOrb.model Require Import M_NodeTime.
From PyOrb.gen Require Import Gen_orbnum.
From PyOrb.proofs Require Import P_NodeTime P_OrbitNumber.
Import ListNotations.
Open Scope Z_scope.

(* the search loop of get_last_an_time (before the final Newton step): if it ends at tick r, then r is
   not later than the query tick, |z(r)| <= 1 km, and r lies in a sub-bracket [a,b] of one 10-minute
   grid cell before the query across which z goes from negative (at a) to positive (at b): an
   ascending crossing; when z(r) < 0 the upper end even has z(b) >= 1 km *)
Theorem C11_node_post : forall (z : Z -> Q) (d : Z), 0 < d ->
  forall fuel1 fuel2 t r m,
  last_an z d fuel1 fuel2 t = Ret r m ->
  r <= t /\ (Qabs (z r) <= 1)%Q /\
  exists k, 0 <= k /\
    exists a b, t - (k + 1) * d <= a /\ a <= r <= b /\ b <= t - k * d /\ a < b /\ (z a < 0)%Q /\ (0 < z b)%Q /\
                ((z r < 0)%Q -> (1 <= z b)%Q).
Proof. exact last_an_post. Qed.
Print Assumptions C11_node_post.

(* the returned value (fix 2488c71: one Newton step `t - round(z/vz * 1e6) us` from the loop result r0,
   `shift` being the oracle for that rounded quotient): it is the refinement of a loop result with the
   post-condition above, one more get_position call was made, and it is still not later than the
   query time provided the step moves back from z >= 0 and, from z < 0, does not pass a later tick
   where z >= 1 km *)
Theorem C11_node_refined : forall u (zw : Z -> Q) (shift : Z -> Z) fuel1 fuel2 t r n,
  (forall x, (0 <= zw x)%Q -> 0 <= shift x) ->
  (forall x b, (zw x < 0)%Q -> x < b -> (1 <= zw b)%Q -> refine u shift x <= to_res u b) ->
  get_last_an_time u zw shift fuel1 fuel2 t = Ret r n ->
  r <= to_res u (to_work u t) /\
  exists r0 m, last_an zw (ten_minutes (work_unit u)) fuel1 fuel2 (to_work u t) = Ret r0 m /\
               r = refine u shift r0 /\ n = S m /\ r0 <= to_work u t /\ (Qabs (zw r0) <= 1)%Q.
Proof. exact refined_not_late. Qed.
Print Assumptions C11_node_refined.

(* termination, for every time representation: after the unit guard the loop works in ms, us or ns
   (m and s arguments and datetimes are converted to us); if z changes by at most K <= 1 km per tick
   (8 km/s * tick <= 1 km, i.e. tick <= 1/8 s) and some 10-minute grid point k steps before the query
   has z > 0 with z < 0 ten minutes earlier, the call ends within k stepping iterations and 41 halvings *)
Theorem C11_node_terminates : forall u (zw : Z -> Q) (shift : Z -> Z) (K : Q) (k t : Z),
  (K <= 1)%Q -> (forall x : Z, (zw (x + 1)%Z - zw x <= K)%Q) -> 0 <= k ->
  let d := ten_minutes (work_unit u) in
  (0 < zw (to_work u t - k * d)%Z)%Q -> (zw (to_work u t - (k + 1) * d)%Z < 0)%Q ->
  get_last_an_time u zw shift (Z.to_nat k) 41 t <> OutOfFuel.
Proof. exact get_last_an_time_terminates. Qed.
Print Assumptions C11_node_terminates.

(* the bisection phase alone: bracket of width <= 2^f ends within f+1 halvings *)
Theorem C11_bisect_terminates : forall (z : Z -> Q) (K : Q),
  (K <= 1)%Q -> (forall t : Z, (z (t + 1)%Z - z t <= K)%Q) ->
  forall f t_old t_new p1 tmo n,
  ((t_new < t_old /\ t_old - t_new <= 2 ^ Z.of_nat f /\ (z t_new < 0)%Q /\ (0 < z t_old)%Q) \/ ~ (1 < Qabs p1)%Q) ->
  bisect z (S f) t_old t_new p1 tmo n <> OutOfFuel.
Proof. exact bisect_terminates. Qed.
Print Assumptions C11_bisect_terminates.

(* why the unit guard (fix e2cf667) is needed: WITHOUT the conversion, for a datetime64[s] argument and
   the line z = 7 km/s * t + 3 km (inside the class |dz/dt| <= 8 km/s) the loop never exits, for every
   fuel; WITH the conversion the same line, seen in microsecond ticks, gives the crossing (-3/7 s) after 14 calls *)
Theorem C11_unit_guard_needed :
  (forall fuel1 fuel2, get_last_an_time_before_fix U_s z_line_s fuel1 fuel2 300 = OutOfFuel) /\
  (forall s, (z_line_us (s * 1000000) == z_line_s s)%Q) /\
  get_last_an_time U_s z_line_us shift_line_us 0 41 300 = Ret (-428571) 14.
Proof.
  split; [exact no_conversion_never_returns|]. split; [exact z_line_same_line | exact with_conversion_returns].
Qed.
Print Assumptions C11_unit_guard_needed.

(* int(orbit) truncates toward zero; TBUS adds exactly one; the integer never decreases when the
   continuous value does not *)
Theorem C11_truncation_tbus : forall x,
  ((0 <= x)%Q -> (inject_Z (Qtrunc x) <= x /\ x < inject_Z (Qtrunc x) + 1)%Q) /\
  ((x <= 0)%Q -> (x <= inject_Z (Qtrunc x) /\ inject_Z (Qtrunc x) - 1 < x)%Q) /\
  (Qabs (inject_Z (Qtrunc x)) <= Qabs x)%Q /\
  orbit_number false false x = inject_Z (Qtrunc x) /\
  (forall as_float, (orbit_number true as_float x == orbit_number false as_float x + 1)%Q) /\
  (forall tbus as_float y, (x <= y)%Q -> (orbit_number tbus as_float x <= orbit_number tbus as_float y)%Q).
Proof.
  intros x. split; [apply Qtrunc_spec|]. split; [apply Qtrunc_spec|]. split; [apply Qtrunc_abs_le|].
  split; [reflexivity|]. split; [intros; apply orbit_number_tbus | intros; apply orbit_number_mono; assumption].
Qed.
Print Assumptions C11_truncation_tbus.

(* the continuous orbit number is strictly increasing in dt over [-1, 5] days for nodal periods in
   (0, 0.16] d (near-earth: < 225 min), |mean_motion_derivative| <= 1/2 rev/d^2 (TLE field n-dot/2) and
   |mean_motion_sec_derivative| <= 1/100 rev/d^3 (TLE field n-ddot/6) *)
Theorem C11_monotone : forall rev period nd ndd x y : R,
  (0 < period <= 4 / 25)%R -> (Rabs nd <= 1 / 2)%R -> (Rabs ndd <= 1 / 100)%R ->
  (-1 <= x)%R -> (x < y)%R -> (y <= 5)%R ->
  (orbit_real rev x period nd ndd < orbit_real rev y period nd ndd)%R.
Proof. exact orbit_real_increasing. Qed.
Print Assumptions C11_monotone.

(* SOURCE TIE for the formula: gen_orbit_float / gen_orbit_float_tbus (gen/Gen_orbnum.v) are regenerated on every
   run by executing Orbital.get_orbit_number of /repo symbolically (node time and nodal period cached, as_float).
   d = query instant, d_an = cached node time [days], period = cached nodal period [days], rev / nd / ndd = the TLE
   fields.  It is the cubic of C11_monotone in dt = d - d_an, so the continuous orbit number never decreases over
   the property's window, and the TBUS variant is exactly one larger. *)
Theorem C11_source_formula : forall d d_an period rev nd ndd : R,
  (gen_orbit_float d d_an period rev nd ndd = orbit_real rev (d - d_an) period nd ndd)%R /\
  (gen_orbit_float_tbus d d_an period rev nd ndd = gen_orbit_float d d_an period rev nd ndd + 1)%R.
Proof. intros. split; [apply gen_orbit_float_spec|apply gen_orbit_tbus_spec]. Qed.
Print Assumptions C11_source_formula.

Theorem C11_source_monotone : forall d_an period rev nd ndd x y : R,
  (0 < period <= 4 / 25)%R -> (Rabs nd <= 1 / 2)%R -> (Rabs ndd <= 1 / 100)%R ->
  (-1 <= x - d_an)%R -> (x < y)%R -> (y - d_an <= 5)%R ->
  (gen_orbit_float x d_an period rev nd ndd < gen_orbit_float y d_an period rev nd ndd)%R.
Proof. exact gen_orbit_increasing. Qed.
Print Assumptions C11_source_monotone.

(* the lazily cached pair depends only on the TLE: whatever queries came before, in any order, each
   answer is the one computed from the TLE-only value *)
Theorem C11_cache_pure : forall (T V A : Type) (init : V) (compute : V -> T -> A) ts,
  run T V A init compute None ts = map (compute init) ts /\
  forall ts1 ts2 t, nth (length ts1) (run T V A init compute None (ts1 ++ t :: ts2)) (compute init t) = compute init t.
Proof.
  intros. split; [apply cache_run_pure | intros; apply cache_query_pure].
Qed.
Print Assumptions C11_cache_pure.

(* get_equatorial_crossing_time: when int(n_end) <> int(n_start) the bracket given to
   scipy.optimize.bisect is valid (n' < 0 at tstart, n' >= 0 at tend), and under bisect's contract the
   returned time is within tol of a time where the continuous orbit number equals the integer offset *)
Theorem C11_crossing_is_integer : forall (n : R -> R),
  (forall t, continuity_pt n t) ->
  forall a b : R, (a < b)%R -> (0 <= n a)%R -> (n a <= n b)%R -> Rtrunc (n b) <> Rtrunc (n a) ->
  (n a - IZR (Rtrunc (n b)) < 0 <= n b - IZR (Rtrunc (n b)))%R /\
  forall x lo hi tol : R,
    (a <= lo /\ lo <= x <= hi /\ hi <= b)%R -> (hi - lo <= tol)%R ->
    (n lo - IZR (Rtrunc (n b)) <= 0 <= n hi - IZR (Rtrunc (n b)))%R ->
    exists tc, (lo <= tc <= hi)%R /\ (Rabs (tc - x) <= tol)%R /\ n tc = IZR (Rtrunc (n b)).
Proof.
  intros n C a b Hab Hn Hm Hd. split.
  - exact (crossing_bracket n a b Hn Hm Hd).
  - intros x lo hi tol H1 H2 H3. exact (crossing_is_integer n C a b x lo hi tol H1 H2 H3).
Qed.
Print Assumptions C11_crossing_is_integer.

(* non-vacuity: a sinusoidal z sampled in milliseconds (period 100 min, 7000 km amplitude scaled to a
   triangle wave here to stay rational), query 37 minutes after a node *)
Example C11_inhabited :
  let z := fun t : Z => (inject_Z ((t + 1500000) mod 6000000 - 3000000) * (7 # 1000))%Q in
  last_an z 600000 10 30 2220000 = Ret 1499883 13 /\ (Qabs (z 1499883%Z) <= 1)%Q /\
  Qtrunc (-7 # 2) = -3 /\ Qtrunc (7 # 2) = 3.
Proof. vm_compute. repeat split; discriminate. Qed.
