(* C08 — array, scalar, time-type and dtype semantics are uniform across the API.  Statements only.
   Model: model/M_Kinds.v (hand-written from astronomy.py / orbital.py / __init__.py as they are now; values
   abstracted to (container, dtype)); its table of numpy/dask ORACLE FACTS and every entry point x kind are
   compared with the real numpy and the implementation by checks/c08.py on every run. *)
From Coq Require Import List ZArith QArith Bool.
From PyOrb.model Require Import M_Kinds.
From PyOrb.proofs Require Import P_Kinds.
Import ListNotations.

(* complete case analysis: every astronomy entry point x every input kind x every time kind returns the
   documented kind: python int/float and integer arrays at their real values (float64), scalars give numpy
   scalars, float32 gives float32, arrays give arrays, dask stays dask; never an exception *)
Theorem C08_kind_table : forall (t : timekind) (k : numkind),
  get_alt_az_k t (kind_of k) (kind_of k) = Ok (doc t (kind_of k), doc t (kind_of k)) /\
  cos_zen_k t (kind_of k) (kind_of k) = Ok (doc t (kind_of k)) /\
  sun_zenith_angle_k t (kind_of k) (kind_of k) = Ok (doc t (kind_of k)) /\
  (exists vz, observer_position_k t (kind_of k) (kind_of k) (kind_of k)
              = Ok ((doc t (kind_of k), doc t (kind_of k), doc TDatetime (kind_of k)),
                    (doc t (kind_of k), doc t (kind_of k), vz))
              /\ doc_vz t (kind_of k) vz = true) /\
  (exists vz, observer_position_k t (kind_of k) (kind_of k) pyf
              = Ok ((doc t (kind_of k), doc t (kind_of k), doc TDatetime (kind_of k)),
                    (doc t (kind_of k), doc t (kind_of k), vz))
              /\ doc_vz t (kind_of k) vz = true).
Proof.
  intros t k. exact (conj (alt_az_table t k) (conj (cos_zen_table t k) (conj (sun_zenith_table t k)
                    (conj (observer_table t k) (observer_table_alt_float t k))))).
Qed.
Print Assumptions C08_kind_table.

(* time-only entry points: float64, a numpy scalar for one instant in any representation, an array for arrays *)
Theorem C08_time_only_table : forall t : timekind,
  jdays2000_k t = tv t /\ jdays_k t = tv t /\ gmst_k t = tv t /\ sun_ra_dec_k t = (tv t, tv t).
Proof. exact time_only_table. Qed.
Print Assumptions C08_time_only_table.

(* orbital.py: float64 throughout (no cast back; the property's dtype clause is about astronomy), containers as documented *)
Theorem C08_look_table : forall (t : timekind) (k : numkind),
  look_function_k t (kind_of k) (kind_of k) (kind_of k) (kind_of k) (kind_of k) (kind_of k)
    = Ok (doc64 t (kind_of k), doc64 t (kind_of k)) /\
  look_method_k t (kind_of k) (kind_of k) (kind_of k) = Ok (doc64 t (kind_of k), doc64 t (kind_of k)).
Proof. intros t k. exact (conj (look_function_table t k) (look_method_table t k)). Qed.
Print Assumptions C08_look_table.

Theorem C08_orbital_time_table : forall t : timekind,
  position_k t = (CNd, F64) /\ lonlatalt_k t = (tv t, tv t, tv t).
Proof. exact orbital_time_table. Qed.
Print Assumptions C08_orbital_time_table.

(* no pair of kinds (lon, lat) makes an astronomy entry point raise *)
Theorem C08_no_exception : forall (t : timekind) (k1 k2 : numkind),
  (exists r, get_alt_az_k t (kind_of k1) (kind_of k2) = Ok r) /\
  (exists r, cos_zen_k t (kind_of k1) (kind_of k2) = Ok r) /\
  (exists r, sun_zenith_angle_k t (kind_of k1) (kind_of k2) = Ok r) /\
  (exists r, observer_position_k t (kind_of k1) (kind_of k2) (kind_of k2) = Ok r).
Proof. exact no_exception_mixed. Qed.
Print Assumptions C08_no_exception.

(* outside the property's uniform-kind quantifier, recorded: the cast back follows the LONGITUDE only *)
Theorem C08_mixed_lon_decides :
  cos_zen_k TDatetime (kind_of PyFloat) (kind_of ArrF32) = Ok (CNd, F64) /\
  cos_zen_k TDatetime (kind_of ArrF32) (kind_of ArrF64) = Ok (CNd, F32) /\
  sun_zenith_angle_k TDatetime (kind_of NpF32) (kind_of ArrF64) = Ok (CNd, F32).
Proof. exact mixed_lon_decides. Qed.
Print Assumptions C08_mixed_lon_decides.

(* one instant, any unit: the same rational number of days since J2000 ... *)
Theorem C08_time_units : forall (u v : tunit) (a b : Z),
  ((a - j2000 u) * ticks_per_day v = (b - j2000 v) * ticks_per_day u)%Z ->
  days_exact u a == days_exact v b.
Proof. exact days_exact_units. Qed.
Print Assumptions C08_time_units.

Theorem C08_time_units_seconds : forall n : Z,
  days_exact US_s n == days_exact US_ms (1000 * n) /\
  days_exact US_s n == days_exact US_us (1000000 * n) /\
  days_exact US_s n == days_exact US_ns (1000000000 * n).
Proof. exact days_exact_seconds. Qed.
Print Assumptions C08_time_units_seconds.

(* ... and, for astronomy._days as it is now (whole days + remainder/day in binary64), the same BITS, for every
   tick count: the remainder is below 8.64e13 < 2^53 ticks in every unit.
   Assumption (validated bit-exactly on every run): numpy's timedelta64 // and - are exact on int64, its
   timedelta64 / timedelta64 and int64 + float64 convert int64 to binary64 and round to nearest even. *)
Theorem C08_time_units_bits : forall (u v : tunit) (a b : Z),
  ((a - j2000 u) * ticks_per_day v = (b - j2000 v) * ticks_per_day u)%Z ->
  days_float u a = days_float v b.
Proof. exact days_float_units. Qed.
Print Assumptions C08_time_units_bits.

(* the same for the minutes since epoch of _Keplerians._get_timedelta_in_minutes as it is now, any tick count *)
Theorem C08_minutes_units_bits : forall (u v : tunit) (a b : Z),
  (a * ticks_per_second v = b * ticks_per_second u)%Z ->
  minutes_float u a = minutes_float v b.
Proof. exact minutes_float_units. Qed.
Print Assumptions C08_minutes_units_bits.

(* non-vacuity: the documentation's own example kind (python ints) on a datetime; a float32 array stays float32;
   one microsecond instant (2007-10-18T15:10:14.536334) in us and ns has equal day counts *)
Example C08_inhabited :
  sun_zenith_angle_k TDatetime (kind_of PyInt) (kind_of PyInt) = Ok (CNp, F64) /\
  cos_zen_k (TDt64Arr US_s) (kind_of ArrF32) (kind_of ArrF32) = Ok (CNd, F32) /\
  days_float US_us 1192720214536334 = days_float US_ns 1192720214536334000 /\
  Qeq_bool (days_float US_us 1192720214536334) (782613715929015 # 274877906944) = true /\
  minutes_float US_us 1192720214536334 = minutes_float US_ns 1192720214536334000.
Proof. vm_compute. repeat split; reflexivity. Qed.
