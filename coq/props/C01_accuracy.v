(* C01 — accuracy of the returned position and velocity.  Statements only.
   Pxf / Pyf / Pzf el t e Es (proofs/P_Sgp4Lip.v) are the coordinates [km] of the report's position
       rk * XKMPER * U(uk, Omega_k, i_k)
   evaluated at Es (position_is_report); below, Es is the EXACT solution of the report's Kepler equation.
   gen_kep2xyz_* applied to the returned elements is the position the code returns (C01_state, C01_exit_<j>). *)
From Coq Require Import Reals Lra.
From PyOrb.lib Require Import PyReal SgpOutcome.
From PyOrb.spec Require Import Spec_SGP4.
From PyOrb.gen Require Import Gen_astronomy Gen_orbital Gen_sgp4 Gen_sgp4_compose.
From PyOrb.proofs Require Import P_Sgp4Init P_Sgp4Prop P_Sgp4Exits P_Sgp4SmallE P_Sgp4Lip P_Sgp4Accuracy P_AccuracyExample.
Open Scope R_scope.

(* the position is a Lipschitz function of E + omega: 570000 km/rad for 1 <= a <= 4 earth radii (the epoch value of a near-earth
   orbit is below 1.93, so this is the whole range in which the model keeps a within a factor of two), eL^2 <= 4/25 *)
Theorem C01_position_lipschitz : forall el t e, 1 <= a el t -> a el t <= 4 -> eL2 el t e <= 4 / 25 -> forall x y,
  Rabs (Pxf el t e x - Pxf el t e y) <= 570000 * Rabs (x - y) /\
  Rabs (Pyf el t e x - Pyf el t e y) <= 570000 * Rabs (x - y) /\
  Rabs (Pzf el t e x - Pzf el t e y) <= 570000 * Rabs (x - y).
Proof. exact position_lipschitz. Qed.
Print Assumptions C01_position_lipschitz.

Theorem C01_position_is_report : forall el t e, 1 <= a el t -> eL2 el t e <= 4 / 25 -> forall x,
  let u := atan2 (sinu el t e x) (cosu el t e x) in
  Pxf el t e x = rk el t e x * XKMPER * Ux (uk el t e x u) (Ok el t e x) (ik el t e x) /\
  Pyf el t e x = rk el t e x * XKMPER * Uy (uk el t e x u) (Ok el t e x) (ik el t e x) /\
  Pzf el t e x = rk el t e x * XKMPER * Uz (uk el t e x u) (Ok el t e x) (ik el t e x).
Proof. exact position_is_report. Qed.
Print Assumptions C01_position_is_report.

(* the velocity: Vxk / Vyk / Vzk el t e x [km/s] are (rdotk U + rfdotk V) * 106.30225 of the report, 460 (km/s)/rad for every a >= 1 *)
Theorem C01_velocity_lipschitz : forall el t e, 1 <= a el t -> eL2 el t e <= 4 / 25 -> forall x y,
  Rabs (Vxk el t e x - Vxk el t e y) <= 460 * Rabs (x - y) /\
  Rabs (Vyk el t e x - Vyk el t e y) <= 460 * Rabs (x - y) /\
  Rabs (Vzk el t e x - Vzk el t e y) <= 460 * Rabs (x - y).
Proof. exact velocity_lipschitz. Qed.
Print Assumptions C01_velocity_lipschitz.

Theorem C01_velocity_is_report : forall el t e, 1 <= a el t -> eL2 el t e <= 4 / 25 -> forall x,
  let u := atan2 (sinu el t e x) (cosu el t e x) in
  let th' := uk el t e x u in let O := Ok el t e x in let I := ik el t e x in
  Vxk el t e x = rdotk el t e x * vfac * Ux th' O I + rfdotk el t e x * vfac * Vx th' O I /\
  Vyk el t e x = rdotk el t e x * vfac * Uy th' O I + rfdotk el t e x * vfac * Vy th' O I /\
  Vzk el t e x = rdotk el t e x * vfac * Uz th' O I + rfdotk el t e x * vfac * Vz th' O I.
Proof. exact velocity_is_report. Qed.
Print Assumptions C01_velocity_is_report.

(* THE 1 mm / 1 um/s CLAIM over the reals, e0 > 1e-4: on an answered propagation whose Newton loop has met its stopping rule
   (every exit but the eleventh), with semi-major axis <= 4 earth radii and eL^2 <= 4/25, each coordinate of the
   returned position is within 1e-6 km, and each coordinate of the returned velocity within 1e-9 km/s, of the report's
   at the unique exact solution of Kepler's equation *)
Theorem C01_position_accuracy : forall e0 i r w m n b ts j Ucap Ew radius theta eqinc ascn rdk rfdk smjaxs,
  gen_init_outcome e0 i r w m n b = InitMode NearNorm 1 ->
  gen_nn1_prop_outcome e0 i r w m n b ts = PropOk j ->
  exit_ok e0 i r w m n b ts Ew radius theta eqinc ascn rdk rfdk smjaxs ->
  let El := E e0 i r w m n b in let T := mkT false ts in let ec := ecl e0 i r w m n b ts in
  Rabs (kepler_residual El T ec Ucap Ew) < 1 / 1000000000000 ->
  a El T <= 4 -> eL2 El T ec <= 4 / 25 ->
  exists Es, kepler_residual El T ec Ucap Es = 0 /\
    (forall Es', kepler_residual El T ec Ucap Es' = 0 -> Es' = Es) /\
    Rabs (gen_kep2xyz_x radius theta eqinc ascn rdk rfdk - Pxf El T ec Es) <= 1 / 1000000 /\
    Rabs (gen_kep2xyz_y radius theta eqinc ascn rdk rfdk - Pyf El T ec Es) <= 1 / 1000000 /\
    Rabs (gen_kep2xyz_z radius theta eqinc ascn rdk rfdk - Pzf El T ec Es) <= 1 / 1000000 /\
    Rabs (gen_kep2xyz_vx radius theta eqinc ascn rdk rfdk - Vxk El T ec Es) <= 1 / 1000000000 /\
    Rabs (gen_kep2xyz_vy radius theta eqinc ascn rdk rfdk - Vyk El T ec Es) <= 1 / 1000000000 /\
    Rabs (gen_kep2xyz_vz radius theta eqinc ascn rdk rfdk - Vzk El T ec Es) <= 1 / 1000000000.
Proof. exact position_accuracy_leaf1. Qed.
Print Assumptions C01_position_accuracy.

(* the same for e0 <= 1e-4 *)
Theorem C01_position_accuracy_small_e : forall e0 i r w m n b ts j Ucap Ew radius theta eqinc ascn rdk rfdk smjaxs,
  gen_init_outcome e0 i r w m n b = InitMode NearNorm 3 ->
  gen_nn3_prop_outcome e0 i r w m n b ts = PropOk j ->
  exit_ok3 e0 i r w m n b ts Ew radius theta eqinc ascn rdk rfdk smjaxs ->
  let El := E e0 i r w m n b in let T := mkT true ts in let ec := ecl3 e0 i r w m n b ts in
  Rabs (kepler_residual El T ec Ucap Ew) < 1 / 1000000000000 ->
  a El T <= 4 -> eL2 El T ec <= 4 / 25 ->
  exists Es, kepler_residual El T ec Ucap Es = 0 /\
    (forall Es', kepler_residual El T ec Ucap Es' = 0 -> Es' = Es) /\
    Rabs (gen_kep2xyz_x radius theta eqinc ascn rdk rfdk - Pxf El T ec Es) <= 1 / 1000000 /\
    Rabs (gen_kep2xyz_y radius theta eqinc ascn rdk rfdk - Pyf El T ec Es) <= 1 / 1000000 /\
    Rabs (gen_kep2xyz_z radius theta eqinc ascn rdk rfdk - Pzf El T ec Es) <= 1 / 1000000 /\
    Rabs (gen_kep2xyz_vx radius theta eqinc ascn rdk rfdk - Vxk El T ec Es) <= 1 / 1000000000 /\
    Rabs (gen_kep2xyz_vy radius theta eqinc ascn rdk rfdk - Vyk El T ec Es) <= 1 / 1000000000 /\
    Rabs (gen_kep2xyz_vz radius theta eqinc ascn rdk rfdk - Vzk El T ec Es) <= 1 / 1000000000.
Proof. exact position_accuracy_leaf3. Qed.
Print Assumptions C01_position_accuracy_small_e.

(* non-vacuity: the ISS element set of the test-suite, at epoch, meets the numeric hypotheses (interval arithmetic) *)
Example C01_accuracy_inhabited :
  let El := E (6703 / 10000000) (516416 / 10000) (2474627 / 10000) (1305360 / 10000) (3250288 / 10000) (1572125391 / 100000000) (- (11606 / 1000000000)) in
  let T := mkT false 0 in
  let ec := ecl (6703 / 10000000) (516416 / 10000) (2474627 / 10000) (1305360 / 10000) (3250288 / 10000) (1572125391 / 100000000) (- (11606 / 1000000000)) 0 in
  1 <= a El T /\ a El T <= 4 /\ eL2 El T ec <= 4 / 25.
Proof.
  cbv zeta. unfold ecl.
  change (E (6703 / 10000000) (516416 / 10000) (2474627 / 10000) (1305360 / 10000) (3250288 / 10000) (1572125391 / 100000000) (- (11606 / 1000000000))) with ISS.
  change (mkT false 0) with T0.
  rewrite clamp_e_id by (pose proof iss_e; lra).
  pose proof iss_a. pose proof iss_eL2. repeat split; lra.
Qed.
