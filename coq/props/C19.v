(* C19 — instrument scan definitions are well-formed, symmetric and subset-consistent.  Statements only.
   Model: model/M_Instruments.v (hand-written templates of geoloc_instrument_definitions.py, default options,
   and of the seconds -> timedelta64[ns] conversion of geoloc.ScanGeometry; tied to the code by the
   correspondence run of checks/c19.py).  [scanners] = avhrr, avhrr_gac, amsua, mhs, hirs4, atms, mwhs2, viirs,
   ascat.  Angles: across-track in degrees (the code multiplies by deg2rad), along-track in units of
   y_max = arctan2(11.87/2, 824) (VIIRS; 0 elsewhere).  [Exact] = rational arithmetic, all scan counts;
   [B64] = binary64 arithmetic (bit-exact with the implementation), scans 0..50.
   OLCI / SLSTR (swath_angles / swath_times): shape and bounds only, as in the property. *)
From Coq Require Import List ZArith QArith Qabs.
From PyOrb.model Require Import M_Instruments.
From PyOrb.proofs Require Import P_Instruments.
Import ListNotations.
Open Scope Q_scope.

(* angles (2, lines, positions), times (lines, positions), lines = scans x detectors *)
Theorem C19_shape : forall A t n ps,
  (length (angles t n ps) = 2%nat /\
   forall plane, In plane (angles t n ps) ->
     length plane = (n * ndet t)%nat /\ forall row, In row plane -> length row = length ps) /\
  (length (times A t n ps) = (n * ndet t)%nat /\
   forall row, In row (times A t n ps) -> length row = length ps).
Proof. exact c19_shape. Qed.
Print Assumptions C19_shape.

(* every line has the angles of the same detector line of the first scan *)
Theorem C19_same_angles_per_scan : forall t n ps c L, In t scanners -> (L < n * ndet t)%nat ->
  nth L (nth c (angles t n ps) []) [] = nth (L mod ndet t) (nth c (angles t n ps) []) [].
Proof. exact c19_same_angles. Qed.
Print Assumptions C19_same_angles_per_scan.

(* |across| <= documented swath limit (degrees); |along| <= y_max *)
Theorem C19_bounds : forall t n ps, In t scanners -> in_range t ps ->
  (forall row, In row (nth 0 (angles t n ps) []) -> forall a, In a row -> Qabs a <= swath t) /\
  (forall row, In row (nth 1 (angles t n ps) []) -> forall a, In a row -> Qabs a <= 1).
Proof. exact c19_bounds. Qed.
Print Assumptions C19_bounds.

Theorem C19_along_zero : forall t n ps, In t line_scanners ->
  forall row, In row (nth 1 (angles t n ps) []) -> forall a, In a row -> a = 0.
Proof. exact along_zero. Qed.
Print Assumptions C19_along_zero.

(* full set of positions: across(N-1-p) = -across(p), on every line *)
Theorem C19_antisymmetric : forall t n L p, In t scanners -> (L < n * ndet t)%nat -> (0 <= p < npos t)%Z ->
  let row := nth L (nth 0 (angles t n (full t)) []) [] in
  nth (Z.to_nat (npos t - 1 - p)) row 0 == - nth (Z.to_nat p) row 0.
Proof. exact c19_antisym. Qed.
Print Assumptions C19_antisymmetric.

Theorem C19_antisymmetric_along : forall t d, In t scanners -> (d < ndet t)%nat ->
  along t (ndet t - 1 - d) == - along t d.
Proof. exact c19_antisym_along. Qed.
Print Assumptions C19_antisymmetric_along.

(* the entries of the time array are the template at (scan of the line, position) *)
Theorem C19_times_entry : forall A t n ps L i, (L < n * ndet t)%nat -> (i < length ps)%nat ->
  nth i (nth L (times A t n ps) []) 0%Z = time_ns A t (pmax ps) (L / ndet t) (nth i ps 0%Z).
Proof. exact times_entry. Qed.
Print Assumptions C19_times_entry.

Theorem C19_time_increasing : forall t m s p q, In t scanners -> (0 <= m < npos t)%Z -> (0 <= p < q)%Z ->
  (time_ns Exact t m s p < time_ns Exact t m s q)%Z.
Proof. exact c19_time_increasing. Qed.
Print Assumptions C19_time_increasing.

(* every sample of a scan (positions up to the selected maximum m) precedes every sample of the next scan *)
Theorem C19_line_before_next : forall t m s p q, In t scanners -> (0 <= p <= m)%Z -> (m < npos t)%Z -> (0 <= q)%Z ->
  (time_ns Exact t m s p < time_ns Exact t m (S s) q)%Z.
Proof. exact c19_line_before_next. Qed.
Print Assumptions C19_line_before_next.

(* integer nanoseconds of successive scans differ by the scan period within 1 ns (< 2 ns) *)
Theorem C19_scan_period_ns : forall t m s p, In t scanners -> (0 <= m < npos t)%Z -> (0 <= p)%Z ->
  Qabs (inject_Z (time_ns Exact t m (S s) p - time_ns Exact t m s p) - period t * 1000000000) < 1.
Proof. exact c19_scan_period. Qed.
Print Assumptions C19_scan_period_ns.

(* selection = columns of the full geometry: angles for every scanner ... *)
Theorem C19_subset : forall t n ps, in_range t ps ->
  angles t n ps = map (map (select 0 ps)) (angles t n (full t)).
Proof. exact subset_angles. Qed.
Print Assumptions C19_subset.

(* ... times for all but ASCAT, in either arithmetic *)
Theorem C19_subset_times : forall A t n ps, In t fixed_sampling -> in_range t ps ->
  times A t n ps = map (select 0%Z ps) (times A t n (full t)).
Proof. exact subset_times. Qed.
Print Assumptions C19_subset_times.

(* the functions evaluated by the correspondence run are the model *)
Theorem C19_exec_model : forall A t n ps, In t scanners ->
  angles_exec t n ps = angles t n ps /\ times_exec A t n ps = times A t n ps.
Proof. exact c19_exec. Qed.
Print Assumptions C19_exec_model.

(* binary64 (scans 0..50): within 1 ns of the exact model; scan period within 2 ns *)
Theorem C19_b64_scan_period_ns : forall t m s p, In t scanners -> (0 <= m < npos t)%Z -> (s < 50)%nat -> (0 <= p <= m)%Z ->
  (Z.abs (time_ns B64 t m s p - time_ns Exact t m s p) <= 1)%Z /\
  Qabs (inject_Z (time_ns B64 t m (S s) p - time_ns B64 t m s p) - period t * 1000000000) <= 2.
Proof. exact c19_b64. Qed.
Print Assumptions C19_b64_scan_period_ns.

Theorem C19_b64_time_increasing : forall t m s p q, In t scanners -> (0 <= m < npos t)%Z -> (s < 50)%nat ->
  (0 <= p < q)%Z -> (q <= m)%Z -> (time_ns B64 t m s p < time_ns B64 t m s q)%Z.
Proof. exact c19_b64_increasing. Qed.
Print Assumptions C19_b64_time_increasing.

Theorem C19_b64_line_before_next : forall t m s p q, In t scanners -> (0 <= m < npos t)%Z -> (S s < 50)%nat ->
  (0 <= p <= m)%Z -> (0 <= q <= m)%Z -> (time_ns B64 t m s p < time_ns B64 t m (S s) q)%Z.
Proof. exact c19_b64_line_before_next. Qed.
Print Assumptions C19_b64_line_before_next.

(* OLCI / SLSTR nadir *)
Theorem C19_swath_shape : forall n len,
  length (swath_angles n len) = 2%nat /\
  (forall plane, In plane (swath_angles n len) ->
     length plane = n /\ forall row, In row plane -> length row = Z.to_nat len) /\
  length (swath_times n len) = n /\
  (forall row, In row (swath_times n len) -> length row = Z.to_nat len).
Proof. exact swath_shape. Qed.
Print Assumptions C19_swath_shape.

Theorem C19_swath_bounds : forall n len,
  (forall row, In row (nth 0 (swath_angles n len) []) -> forall a, In a row -> - (221 # 10) <= a <= 465 # 10) /\
  (forall row, In row (nth 1 (swath_angles n len) []) -> forall a, In a row -> a = 0) /\
  (forall row, In row (swath_times n len) -> forall x, In x row -> x = 0%Z).
Proof. exact swath_bounds. Qed.
Print Assumptions C19_swath_bounds.

(* non-vacuity: the documented limits and periods, and concrete geometries *)
Example C19_limits :
  map swath scanners = [5537#100; 5537#100; 483#10; 49444#1000; 495#10; 527#10; 5335#100; 5628#100; 53] /\
  map period scanners = [1/6; 1#2; 8; 8/3; 64#10; 8/3; 8/3; 1779166667#1000000000; 374747474747#100000000000] /\
  map npos scanners = [2048; 2048; 30; 90; 56; 96; 98; 6400; 42]%Z /\ map ndet scanners = [1; 1; 1; 1; 1; 1; 1; 32; 1]%nat.
Proof. repeat split. Qed.

Example C19_avhrr_edges :
  in_range avhrr [0; 1; 2047]%Z /\
  times B64 avhrr 3 [0; 1; 2047]%Z =
    [[0; 25000; 51175000]; [166666666; 166691666; 217841666]; [333333333; 333358333; 384508333]]%Z /\
  times Exact avhrr 3 [0; 1; 2047]%Z = times B64 avhrr 3 [0; 1; 2047]%Z /\
  map (map (map Qred)) (angles avhrr 2 [0; 2047]%Z) = [[[5537#100; -5537#100]; [5537#100; -5537#100]]; [[0; 0]; [0; 0]]].
Proof.
  split; [repeat constructor; vm_compute; discriminate|]. vm_compute. repeat split; reflexivity.
Qed.

(* binary64 and exact nanoseconds do differ: 1291 * 0.000025 s is 32274999 ns in binary64, 32275000 ns exactly *)
Example C19_b64_differs :
  time_ns B64 avhrr 2047 0 1291 = 32274999%Z /\ time_ns Exact avhrr 2047 0 1291 = 32275000%Z /\
  length (times B64 viirs 2 [0; 6399]%Z) = 64%nat /\
  nth 33 (nth 1 (angles viirs 2 [0; 6399]%Z) []) [] = [- (1 / (155 # 10) - 1); - (1 / (155 # 10) - 1)].
Proof. vm_compute. repeat split; reflexivity. Qed.
