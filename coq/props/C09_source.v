(* C09, source tie.  Statements only.  Built when translator/gen_tle.py accepts the current source (fail-closed;
   otherwise the check rests on the correspondence-tied hand model of props/C09.v alone and says so). *)
From Coq Require Import List ZArith Ascii Bool.
From PyOrb.model Require Import M_Checksum M_PyStr.
From PyOrb.gen Require Import Gen_tle.
From PyOrb.proofs Require Import P_Checksum P_GenTle.
Import ListNotations.
Open Scope Z_scope.

(* TIE TO THE SOURCE.  gen_checksum and gen_tle_init (gen/Gen_tle.v) are REGENERATED from Tle._checksum and
   Tle.__init__ of pyorbital/tlefile.py on every run (translator/gen_tle.py, fail-closed): the loop over
   line[:-1], the two `if`s of its body, the comparison with int(line[-1]), the exception raised and the order
   _read_tle ; _checksum ; _parse_tle are the source's.  For lines of any length and content: *)
Theorem C09_source_checksum : forall plat l1 l2, outcome_of (gen_checksum plat l1 l2) = check_tle l1 l2.
Proof. exact gen_checksum_correct. Qed.
Print Assumptions C09_source_checksum.

Theorem C09_source_accept_iff : forall plat l1 l2,
  gen_checksum plat l1 l2 = Ok tt <-> check_line l1 = Accept /\ check_line l2 = Accept.
Proof. exact gen_checksum_ok_iff. Qed.
Print Assumptions C09_source_accept_iff.

(* the regenerated constructor yields elements only behind two accepted lines, parsed from the very lines
   that were checked *)
Theorem C09_source_before_parse : forall plat l1 l2 a b e,
  gen_tle_init plat l1 l2 = Ok (a, b, e) ->
  check_line a = Accept /\ check_line b = Accept /\ gen_read_tle plat l1 l2 = Ok (a, b) /\ gen_parse plat a b = Ok e.
Proof. exact gen_init_only_after_accept. Qed.
Print Assumptions C09_source_before_parse.
