(* C15, source tie.  Statements only.  Built when translator/gen_db.py accepts the current source (fail-closed;
   otherwise the check rests on the correspondence of the hand model of props/C15.v alone and says so). *)
From Coq Require Import String List.
From PyOrb.gen Require Import Gen_db.
From PyOrb.proofs Require Import P_GenDb.
Import ListNotations.

(* The sqlite contract that M_Db assumes (primary key = ISO text of the epoch, plain INSERT, export = greatest key
   under bytewise comparison, one row) is a statement about specific SQL texts.  The texts and the inserted row are
   REGENERATED from class SQLiteTLE on every run; they are the ones the model was written for: *)
Theorem C15_source_sql : generated_sql = model_sql.
Proof. exact generated_sql_is_model_sql. Qed.
Print Assumptions C15_source_sql.
