(* C15 — the TLE database keeps every distinct epoch once and always exports the newest.
   Statements only.  Model: model/M_Db.v (hand-written executable model of tlefile.SQLiteTLE at
   /repo HEAD; tied to the implementation by the history correspondence run of checks/c15.py with
   crash injection through a proxy around the public attribute `db.db`).

   Vocabulary (proofs/P_Db.v):
     events ops            the (tle, source) of every completed update_db, in order
     first_seen evs s e    text and source of the FIRST event with satellite s and epoch e
     seen_rows cfg evs s   the first-seen (epoch, (text, source)) of configured satellite s
     anewest               greatest epoch in TEMPORAL order (ecmp), newest_theorem characterises it
     opens h               h is empty or ends with Reopen / Crash: the current SQLiteTLE object
                           was constructed right after h
   A history is an arbitrary list of Update / Crash(point) / Export / Reopen of ANY length. *)
From Coq Require Import List ZArith NArith Ascii Bool.
From Coq Require Import String.
Local Notation length := List.length.
From PyOrb.model Require Import M_Db.
From PyOrb.proofs Require Import P_Db.
Import ListNotations.

(* ORDER BY epoch on the stored ISO strings (bytewise; whole-second strings carry no fraction and
   are strict prefixes of the other strings of their second) is the temporal order *)
Theorem C15_iso_order : forall a b, valid_epoch a -> valid_epoch b ->
  lexcmp (iso a) (iso b) = ecmp a b.
Proof. exact iso_cmp. Qed.
Print Assumptions C15_iso_order.

Theorem C15_iso_injective : forall a b, valid_epoch a -> valid_epoch b -> iso a = iso b -> a = b.
Proof. exact iso_inj. Qed.
Print Assumptions C15_iso_injective.

(* exactly one row per distinct (configured satellite, epoch) seen, carrying the first-seen text
   and source; nothing (not even a table) for unconfigured satellites — histories may contain
   reopen and crashes at any statement boundary *)
Theorem C15_rows : forall cfg ops, ops_valid ops ->
  let d := sdb (final cfg ops) in
  (forall sat, lookup sat cfg = None -> table_exists sat d = false /\ rows_of sat d = []) /\
  (forall sat, NoDup (map fst (rows_of sat d))) /\
  (forall sat k v, In (k, v) (rows_of sat d) <->
     exists e, k = iso e /\ lookup sat cfg <> None /\ first_seen (events ops) sat e = Some v).
Proof. exact rows_theorem. Qed.
Print Assumptions C15_rows.

(* the flag of the current object is set exactly when one of ITS updates added a row, i.e. was the
   first one ever (in the whole history of the file) with that (configured satellite, epoch) *)
Theorem C15_updated_iff : forall cfg h cur,
  ops_valid (h ++ cur) -> opens h -> (forall o, In o cur -> resets o = false) ->
  (updated (final cfg (h ++ cur)) = true <->
   exists a t src b, cur = a ++ Update t src :: b /\ lookup (t_sat t) cfg <> None /\
                     first_seen (events (h ++ a)) (t_sat t) (t_epoch t) = None).
Proof. exact updated_theorem. Qed.
Print Assumptions C15_updated_iff.

(* a crash at ANY statement boundary of ANY update, followed by ANY later history, is for rows,
   flag and every exported file indistinguishable from close + reopen without that update; in
   particular the row invariant C15_rows holds after it (Crash is an `op` of C15_rows) *)
Theorem C15_crash_safe : forall cfg h1 c t src h2,
  ops_valid (h1 ++ Crash c t src :: h2) ->
  let crashed := h1 ++ Crash c t src :: h2 in
  let clean := h1 ++ Reopen :: h2 in
  outputs cfg crashed = outputs cfg clean /\
  updated (final cfg crashed) = updated (final cfg clean) /\
  (forall sat, rows_of sat (sdb (final cfg crashed)) = rows_of sat (sdb (final cfg clean))).
Proof. exact crash_theorem. Qed.
Print Assumptions C15_crash_safe.

(* update_db never lets an exception escape in any reachable state *)
Theorem C15_update_total : forall cfg ops, ops_valid ops -> ~ In ORaised (outputs cfg ops).
Proof. exact never_raises. Qed.
Print Assumptions C15_update_total.

(* an export writes nothing when nothing was added unless write_always; otherwise, for each
   configured platform (configuration order) that has data, [its name when requested and] the
   text of its temporally newest first-seen entry; platforms without data contribute nothing *)
Theorem C15_export_newest : forall cfg ops wn wa, ops_valid ops ->
  export cfg (final cfg ops) wn wa =
    if negb (updated (final cfg ops)) && negb wa then None
    else Some (flat_map (fun p : Z * Z =>
                 match anewest (seen_rows cfg (events ops) (fst p)) with
                 | None => []
                 | Some r => (if wn then [IName (snd p)] else []) ++ [IText (fst (snd r))]
                 end) cfg).
Proof. exact export_theorem. Qed.
Print Assumptions C15_export_newest.

Theorem C15_newest_is_greatest : forall cfg evs sat, evs_valid evs ->
  match anewest (seen_rows cfg evs sat) with
  | None => forall e, lookup sat cfg = None \/ first_seen evs sat e = None
  | Some m => lookup sat cfg <> None /\ first_seen evs sat (fst m) = Some (snd m) /\
              forall e v, first_seen evs sat e = Some v -> ecmp e (fst m) <> Gt
  end.
Proof. exact newest_theorem. Qed.
Print Assumptions C15_newest_is_greatest.

(* the export at the end of a run (fetch_tles.run) sees the state reached by the history *)
Theorem C15_export_in_history : forall cfg ops wn wa,
  outputs cfg (ops ++ [Export wn wa]) = outputs cfg ops ++ [OFile (export cfg (final cfg ops) wn wa)].
Proof. exact outputs_snoc_export. Qed.
Print Assumptions C15_export_in_history.

(* platform_names: the invariant that IS re-established (no more: see C15_names_gap) *)
Theorem C15_names : forall cfg ops, ops_valid ops ->
  forall s n, lookup s (names (sdb (final cfg ops))) = Some n ->
              table_exists s (sdb (final cfg ops)) = true /\ lookup s cfg = Some n.
Proof. exact names_theorem. Qed.
Print Assumptions C15_names.

(* after a crash between CREATE TABLE and the platform_names INSERT the name row is never written,
   whatever happens later (the property text does not require it; nothing reads the table) *)
Theorem C15_names_gap : forall cfg h1 t src h2,
  ops_valid h1 -> lookup (t_sat t) cfg <> None -> table_exists (t_sat t) (sdb (final cfg h1)) = false ->
  lookup (t_sat t) (names (sdb (final cfg (h1 ++ Crash AfterCreate t src :: h2)))) = None.
Proof. exact names_gap. Qed.
Print Assumptions C15_names_gap.

(* non-vacuity: two platforms, whole-second epoch, duplicate epoch with other text, unconfigured
   satellite, crash after CREATE TABLE, reopen, exports *)
Example C15_inhabited :
  let cfg := [(25544, 1); (28654, 2)]%Z in
  let e0 := E 2008 9 20 12 0 0 0 in          (* whole second: "2008-09-20T12:00:00" *)
  let e1 := E 2008 9 20 12 0 0 500 in
  let h := [Update (mkTle 25544 e1 5) 2; Update (mkTle 25544 e0 3) 1; Update (mkTle 25544 e0 6) 2;
            Update (mkTle 99999 e0 7) 1; Crash AfterCreate (mkTle 28654 e0 4) 1;
            Export true true; Update (mkTle 28654 e0 4) 3; Export true false; Reopen; Export false false]%Z in
  ops_valid h /\
  outputs cfg h = [ONone; ONone; ONone; ONone; ONone;
                   OFile (Some [IName 1; IText 5]); ONone;
                   OFile (Some [IName 1; IText 5; IName 2; IText 4]); ONone; OFile None]%Z /\
  map fst (rows_of 25544 (sdb (final cfg h))) =
    [String.list_ascii_of_string "2008-09-20T12:00:00.000500"%string; String.list_ascii_of_string "2008-09-20T12:00:00"%string] /\
  map snd (rows_of 25544 (sdb (final cfg h))) = [(5, 2); (3, 1)]%Z /\
  names (sdb (final cfg h)) = [(25544, 1)]%Z.
Proof. exact inhabited. Qed.
