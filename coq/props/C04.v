(* C04 — sub-satellite lon/lat/alt and observer position.  Statements only.
   gen_* are regenerated from /repo/pyorbital/{orbital,geoloc,astronomy}.py on every run.
   Inputs: (x, y, z) ECI position in km, d = days since J2000.  The geodetic-latitude loop is
   unrolled: *_p<k> is the result on the path that leaves the loop at its k-th exit test,
   gen_lla_exit_p<k> that path's condition (k = 1..6).  C04_loop_terminates shows that for every position at
   least 6378.135 km from the centre and off the polar axis one of the first FIVE exits is taken, so the
   unrolling loses nothing there. *)
From Coq Require Import Reals ZArith Lra.
From Interval Require Import Tactic.
From PyOrb.lib Require Import PyReal.
From PyOrb.spec Require Import Spec_Geodesy.
From PyOrb.gen Require Import Gen_astronomy Gen_orbital.
From PyOrb.proofs Require Import P_Geodesy P_Roundtrip P_LatLoop.
Open Scope R_scope.

Theorem C04_lon_range : forall x y z d, -180 < gen_lla_lon x y z d <= 180.
Proof. exact lon_range. Qed.
Print Assumptions C04_lon_range.

Theorem C04_lat_range : forall x y z d,
  (-90 <= gen_lla_lat_p1 x y z d <= 90) /\ (-90 <= gen_lla_lat_p2 x y z d <= 90) /\
  (-90 <= gen_lla_lat_p3 x y z d <= 90) /\ (-90 <= gen_lla_lat_p4 x y z d <= 90) /\
  (-90 <= gen_lla_lat_p5 x y z d <= 90) /\ (-90 <= gen_lla_lat_p6 x y z d <= 90).
Proof.
  intros x y z d.
  exact (conj (lat_range_p1 x y z d) (conj (lat_range_p2 x y z d) (conj (lat_range_p3 x y z d)
        (conj (lat_range_p4 x y z d) (conj (lat_range_p5 x y z d) (lat_range_p6 x y z d)))))).
Qed.
Print Assumptions C04_lat_range.

(* Round trip.  The code normalises the position by XKMPER = 6378.135 but scales the height
   by A = 6378.137, so what it returns are the geodetic coordinates of (A/XKMPER) * position:
   converting back with the WGS-84 formulas and the rotation by GMST gives that point within
   A * 2e-12 km per component, on EVERY exit path (from the exit test alone, no convergence
   assumption); A/XKMPER - 1 < 3.2e-7, which is inside the property's 2e-6. *)
Theorem C04_roundtrip : forall x y z d, 0 < x * x + y * y ->
  (gen_lla_exit_p1 x y z d -> roundtrip_ok x y z d (gen_lla_lat_p1 x y z d) (gen_lla_alt_p1 x y z d)) /\
  (gen_lla_exit_p2 x y z d -> roundtrip_ok x y z d (gen_lla_lat_p2 x y z d) (gen_lla_alt_p2 x y z d)) /\
  (gen_lla_exit_p3 x y z d -> roundtrip_ok x y z d (gen_lla_lat_p3 x y z d) (gen_lla_alt_p3 x y z d)) /\
  (gen_lla_exit_p4 x y z d -> roundtrip_ok x y z d (gen_lla_lat_p4 x y z d) (gen_lla_alt_p4 x y z d)) /\
  (gen_lla_exit_p5 x y z d -> roundtrip_ok x y z d (gen_lla_lat_p5 x y z d) (gen_lla_alt_p5 x y z d)) /\
  (gen_lla_exit_p6 x y z d -> roundtrip_ok x y z d (gen_lla_lat_p6 x y z d) (gen_lla_alt_p6 x y z d)).
Proof.
  intros x y z d H.
  exact (conj (roundtrip_p1 x y z d H) (conj (roundtrip_p2 x y z d H) (conj (roundtrip_p3 x y z d H)
        (conj (roundtrip_p4 x y z d H) (conj (roundtrip_p5 x y z d H) (roundtrip_p6 x y z d H)))))).
Qed.
Print Assumptions C04_roundtrip.

(* Termination.  For every position off the polar axis and at least sqrt(0.993) * 6378.135 = 6355.8 km from the centre (every
   point on or outside the WGS-84 ellipsoid) the iteration is a contraction (factor < 0.0069) whose first step moves the latitude
   by less than 0.0069 rad, so the test |lat - lat2| < 1e-10 succeeds at the fifth test at the latest. *)
Theorem C04_loop_terminates : forall x y z d, 0 < x * x + y * y -> 993 / 1000 * (XKMPER * XKMPER) <= x * x + y * y + z * z ->
  gen_lla_exit_p1 x y z d \/ gen_lla_exit_p2 x y z d \/ gen_lla_exit_p3 x y z d \/
  gen_lla_exit_p4 x y z d \/ gen_lla_exit_p5 x y z d.
Proof. exact loop_exits_by_5. Qed.
Print Assumptions C04_loop_terminates.

Theorem C04_module_loop_terminates : forall x y z d, 0 < x * x + y * y -> 993 / 1000 * (XKMPER * XKMPER) <= x * x + y * y + z * z ->
  gen_geoloc_lla_exit_p1 x y z d \/ gen_geoloc_lla_exit_p2 x y z d \/ gen_geoloc_lla_exit_p3 x y z d \/
  gen_geoloc_lla_exit_p4 x y z d \/ gen_geoloc_lla_exit_p5 x y z d.
Proof. exact module_loop_exits_by_5. Qed.
Print Assumptions C04_module_loop_terminates.

(* total form of the round trip: an exit is taken and its result converts back to the position *)
Theorem C04_roundtrip_total : forall x y z d, 0 < x * x + y * y -> 993 / 1000 * (XKMPER * XKMPER) <= x * x + y * y + z * z ->
  (gen_lla_exit_p1 x y z d /\ roundtrip_ok x y z d (gen_lla_lat_p1 x y z d) (gen_lla_alt_p1 x y z d)) \/
  (gen_lla_exit_p2 x y z d /\ roundtrip_ok x y z d (gen_lla_lat_p2 x y z d) (gen_lla_alt_p2 x y z d)) \/
  (gen_lla_exit_p3 x y z d /\ roundtrip_ok x y z d (gen_lla_lat_p3 x y z d) (gen_lla_alt_p3 x y z d)) \/
  (gen_lla_exit_p4 x y z d /\ roundtrip_ok x y z d (gen_lla_lat_p4 x y z d) (gen_lla_alt_p4 x y z d)) \/
  (gen_lla_exit_p5 x y z d /\ roundtrip_ok x y z d (gen_lla_lat_p5 x y z d) (gen_lla_alt_p5 x y z d)).
Proof. exact roundtrip_total. Qed.
Print Assumptions C04_roundtrip_total.

Theorem C04_scale_factor : 0 < wgs84_A / XKMPER - 1 < 32 / 100000000.
Proof. exact scale_factor. Qed.
Print Assumptions C04_scale_factor.

(* the observer position function is the WGS-84 geodetic -> ECI map, for any lon/lat/alt *)
Theorem C04_observer_is_spec : forall d lon lat alt,
  gen_observer_x d lon lat alt = eci_x wgs84_A (deg2rad lon) (deg2rad lat) alt (gen_gmst d) /\
  gen_observer_y d lon lat alt = eci_y wgs84_A (deg2rad lon) (deg2rad lat) alt (gen_gmst d) /\
  gen_observer_z d lon lat alt = eci_z wgs84_A (deg2rad lon) (deg2rad lat) alt (gen_gmst d).
Proof.
  intros d lon lat alt.
  exact (conj (observer_x_spec d lon lat alt) (conj (observer_y_spec d lon lat alt) (observer_z_spec d lon lat alt))).
Qed.
Print Assumptions C04_observer_is_spec.

(* velocity = earth rotation (0, 0, w) cross position *)
Theorem C04_observer_velocity : forall d lon lat alt,
  gen_observer_vx d lon lat alt = - earth_rate * gen_observer_y d lon lat alt /\
  gen_observer_vy d lon lat alt = earth_rate * gen_observer_x d lon lat alt /\
  gen_observer_vz d lon lat alt = 0.
Proof. exact observer_velocity. Qed.
Print Assumptions C04_observer_velocity.

(* module-level and object-level conversions are the same real function, path by path *)
Theorem C04_method_eq_module : forall x y z d,
  gen_geoloc_lla_lon x y z d = gen_lla_lon x y z d /\
  gen_geoloc_lla_lat_p1 x y z d = gen_lla_lat_p1 x y z d /\ gen_geoloc_lla_alt_p1 x y z d = gen_lla_alt_p1 x y z d /\
  gen_geoloc_lla_lat_p2 x y z d = gen_lla_lat_p2 x y z d /\ gen_geoloc_lla_alt_p2 x y z d = gen_lla_alt_p2 x y z d /\
  gen_geoloc_lla_lat_p3 x y z d = gen_lla_lat_p3 x y z d /\ gen_geoloc_lla_alt_p3 x y z d = gen_lla_alt_p3 x y z d /\
  gen_geoloc_lla_lat_p4 x y z d = gen_lla_lat_p4 x y z d /\ gen_geoloc_lla_alt_p4 x y z d = gen_lla_alt_p4 x y z d /\
  gen_geoloc_lla_lat_p5 x y z d = gen_lla_lat_p5 x y z d /\ gen_geoloc_lla_alt_p5 x y z d = gen_lla_alt_p5 x y z d /\
  gen_geoloc_lla_lat_p6 x y z d = gen_lla_lat_p6 x y z d /\ gen_geoloc_lla_alt_p6 x y z d = gen_lla_alt_p6 x y z d /\
  (gen_geoloc_lla_exit_p1 x y z d <-> gen_lla_exit_p1 x y z d) /\
  (gen_geoloc_lla_exit_p2 x y z d <-> gen_lla_exit_p2 x y z d) /\
  (gen_geoloc_lla_exit_p3 x y z d <-> gen_lla_exit_p3 x y z d) /\
  (gen_geoloc_lla_exit_p4 x y z d <-> gen_lla_exit_p4 x y z d) /\
  (gen_geoloc_lla_exit_p5 x y z d <-> gen_lla_exit_p5 x y z d) /\
  (gen_geoloc_lla_exit_p6 x y z d <-> gen_lla_exit_p6 x y z d).
Proof. exact method_eq_module. Qed.
Print Assumptions C04_method_eq_module.

(* local time = UTC + longitude/15 hours (d in days) *)
Theorem C04_local_time : forall d lon, gen_utc2local d lon = d + lon / 15 / 24.
Proof. exact local_time. Qed.
Print Assumptions C04_local_time.

(* non-vacuity: a point above the equator satisfies the hypotheses, and the first exit test holds
   there (the iteration is at its fixed point when z = 0) *)
Example C04_inhabited : 0 < 7000 * 7000 + 0 * 0 /\ gen_lla_exit_p1 7000 0 0 1234.
Proof.
  split; [lra|].
  unfold gen_lla_exit_p1, gen_lla_lat_it1, gen_lla_lat_it0. cbv zeta.
  replace (0 / (1275627 / 200)) with 0 by field.
  match goal with |- context [atan2 _ (sqrt ?u)] =>
    assert (P : 0 < sqrt u) by (apply sqrt_lt_R0; lra) end.
  rewrite !Atan2Lib.atan2_pos_x by exact P.
  interval.
Qed.
