(* C02, source tie.  Statements only.  Built when translator/gen_tle.py accepts the current source (it is
   fail-closed: a construct outside its subset makes it refuse, and the check then rests on the
   correspondence-tied hand model of props/C02.v alone and says so in its evidence). *)
From Coq Require Import List ZArith Ascii Bool.
From PyOrb.spec Require Import Spec_Time Spec_TLE.
From PyOrb.model Require Import M_Checksum M_TleText M_PyStr.
From PyOrb.gen Require Import Gen_tle.
From PyOrb.proofs Require Import P_Checksum P_TleText P_GenTle.
Import ListNotations.
Open Scope Z_scope.

(* TIE TO THE SOURCE.  gen_parse / gen_read_tle / gen_read_tle_decimal / gen_tle_init (gen/Gen_tle.v) are
   REGENERATED from Tle._parse_tle, Tle._read_tle and Tle.__init__ of pyorbital/tlefile.py on every run by the
   fail-closed AST translator translator/gen_tle.py: which columns, which converter, the order of evaluation and
   which exception escapes all come from the source text.  They agree with the hand model on EVERY pair of
   lines (any length, any characters), so each theorem above is a theorem about the source as it is now. *)
Theorem C02_source_parse : forall plat l1 l2, to_option (gen_parse plat l1 l2) = decode l1 l2.
Proof. exact gen_parse_correct. Qed.
Print Assumptions C02_source_parse.

Theorem C02_source_read_tle : forall plat l1 l2,
  to_option (gen_read_tle plat l1 l2) = read_tle l1 l2 /\
  (forall rep, gen_read_tle_decimal rep = of_opt (rtd_exn rep) (read_tle_decimal rep)).
Proof. intros plat l1 l2. split; [apply gen_read_tle_correct|exact gen_read_tle_decimal_correct]. Qed.
Print Assumptions C02_source_read_tle.

Theorem C02_source_init : forall plat l1 l2, to_option (gen_tle_init plat l1 l2) = tle_init l1 l2.
Proof. exact gen_tle_init_correct. Qed.
Print Assumptions C02_source_init.

(* the headline statements, directly on the regenerated constructor *)
Theorem C02_source_decode_encode : forall plat f, wf f = true ->
  gen_parse plat (fst (encode f)) (snd (encode f)) = Ok (values f).
Proof. exact gen_parse_encode. Qed.
Print Assumptions C02_source_decode_encode.

Theorem C02_source_init_encode : forall plat f pre1 post1 pre2 post2, wf f = true ->
  allspace pre1 = true -> allspace post1 = true -> allspace pre2 = true -> allspace post2 = true ->
  gen_tle_init plat (pre1 ++ fst (encode f) ++ post1) (pre2 ++ snd (encode f) ++ post2)
  = Ok (fst (encode f), snd (encode f), values f).
Proof. exact gen_tle_init_encode. Qed.
Print Assumptions C02_source_init_encode.
