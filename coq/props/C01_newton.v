(* C01 — the Newton loop for Kepler's equation converges, and the accuracy claim without any hypothesis on the loop.
   Statements only.  kf X Y x = x - X cos x - Y sin x is the report's Kepler function, dkf its derivative, q = sqrt (X^2 + Y^2);
   nr1 / halley (proofs/P_Newton.v) are the first-order step f/f' and the second-order step f / (f' + 1/2 f'' f/f') the
   code takes; P_Sgp4Newton.it<k> prove that the iterates REGENERATED FROM THE SOURCE are these steps. *)
From Coq Require Import Reals Lra.
From PyOrb.lib Require Import PyReal SgpOutcome.
From PyOrb.spec Require Import Spec_SGP4.
From PyOrb.gen Require Import Gen_astronomy Gen_orbital Gen_sgp4 Gen_sgp4_compose.
From PyOrb.proofs Require Import P_Kepler P_Newton P_Sgp4Init P_Sgp4Prop P_Sgp4Exits P_Sgp4SmallE P_Sgp4Lip P_Sgp4Accuracy
                                 P_Sgp4Newton P_Sgp4EndToEnd P_Sgp4Answered P_AccuracyExample P_AnsweredExample P_AnsweredExample3.
From PyOrb.props Require C01.
Open Scope R_scope.

(* second-order Taylor remainder of the Kepler function *)
Theorem C01_kepler_taylor : forall X Y E x,
  Rabs (kf X Y x - kf X Y E - dkf X Y E * (x - E)) <= q X Y / 2 * (x - E) ^ 2.
Proof. exact taylor2. Qed.
Print Assumptions C01_kepler_taylor.

(* one step of the code's iteration squares the error (started within 2/5 rad of the root) *)
Theorem C01_newton_step_quadratic : forall X Y, X ^ 2 + Y ^ 2 <= 4 / 25 -> forall U E Es,
  kf X Y Es = U -> Rabs (E - Es) <= 2 / 5 ->
  Rabs (E + halley X Y U E - Es) <= 43 / 50 * (E - Es) ^ 2.
Proof. exact halley_quadratic. Qed.
Print Assumptions C01_newton_step_quadratic.

(* the first-step clamp |f/f'| > 1.25 ecc does not fire when the start is within q of the root (the code's start U is) *)
Theorem C01_newton_clamp_inactive : forall X Y, X ^ 2 + Y ^ 2 <= 4 / 25 -> forall U E Es,
  kf X Y Es = U -> Rabs (E - Es) <= 2 / 5 -> Rabs (E - Es) <= q X Y ->
  Rabs (nr1 X Y U E) <= 5 / 4 * q X Y.
Proof. exact clamp_inactive. Qed.
Print Assumptions C01_newton_clamp_inactive.

(* the sixth stopping test of the regenerated loop cannot fail *)
Theorem C01_newton_sixth_test : forall e0 i r w m n b ts,
  gen_init_outcome e0 i r w m n b = InitMode NearNorm 1 ->
  1 <= a (E e0 i r w m n b) (mkT false ts) ->
  eL2 (E e0 i r w m n b) (mkT false ts) (ecl e0 i r w m n b ts) <= 4 / 25 ->
  gen_nn1_guard5 e0 i r w m n b ts < 1 / 1000000000000.
Proof. exact sixth_test_passes. Qed.
Print Assumptions C01_newton_sixth_test.

(* so an answered propagation left the loop at one of the tests 0..5: the eleventh exit (no convergence in 10 iterations,
   last iterate returned unchecked) is unreachable for eL^2 <= 4/25 *)
Theorem C01_newton_loop_exits_early : forall e0 i r w m n b ts j,
  gen_init_outcome e0 i r w m n b = InitMode NearNorm 1 ->
  gen_nn1_prop_outcome e0 i r w m n b ts = PropOk j ->
  eL2 (E e0 i r w m n b) (mkT false ts) (ecl e0 i r w m n b ts) <= 4 / 25 ->
  (j <= 5)%nat.
Proof. exact newton_loop_exits_early. Qed.
Print Assumptions C01_newton_loop_exits_early.

Theorem C01_newton_loop_exits_early_small_e : forall e0 i r w m n b ts j,
  gen_init_outcome e0 i r w m n b = InitMode NearNorm 3 ->
  gen_nn3_prop_outcome e0 i r w m n b ts = PropOk j ->
  eL2 (E e0 i r w m n b) (mkT true ts) (ecl3 e0 i r w m n b ts) <= 4 / 25 ->
  (j <= 5)%nat.
Proof. exact newton_loop_exits_early3. Qed.
Print Assumptions C01_newton_loop_exits_early_small_e.

(* the same for every eccentricity an accepted ordinary orbit can have (perigee >= 220 km and period < 225 min force e0 < 0.462):
   for eL^2 <= 2209/10000 (eL <= 0.47) each step still squares the error (factor 132/100, P_Newton47.v), the clamp is still
   inactive, and the SEVENTH stopping test cannot fail: the unchecked eleventh exit stays unreachable *)
From PyOrb.proofs Require P_Newton47 P_Sgp4Newton47.
Theorem C01_newton_step_quadratic_47 : forall X Y, X ^ 2 + Y ^ 2 <= 2209 / 10000 -> forall U E Es,
  kf X Y Es = U -> Rabs (E - Es) <= 47 / 100 ->
  Rabs (E + halley X Y U E - Es) <= 132 / 100 * (E - Es) ^ 2.
Proof. exact P_Newton47.halley47_quadratic. Qed.
Print Assumptions C01_newton_step_quadratic_47.

Theorem C01_newton_loop_exits_by_seventh_test : forall e0 i r w m n b ts j,
  gen_init_outcome e0 i r w m n b = InitMode NearNorm 1 ->
  gen_nn1_prop_outcome e0 i r w m n b ts = PropOk j ->
  eL2 (E e0 i r w m n b) (mkT false ts) (ecl e0 i r w m n b ts) <= 2209 / 10000 ->
  (j <= 6)%nat.
Proof. exact P_Sgp4Newton47.newton_loop_exits_by_seventh_test. Qed.
Print Assumptions C01_newton_loop_exits_by_seventh_test.

Theorem C01_newton_loop_exits_by_seventh_test_small_e : forall e0 i r w m n b ts j,
  gen_init_outcome e0 i r w m n b = InitMode NearNorm 3 ->
  gen_nn3_prop_outcome e0 i r w m n b ts = PropOk j ->
  eL2 (E e0 i r w m n b) (mkT true ts) (ecl3 e0 i r w m n b ts) <= 2209 / 10000 ->
  (j <= 6)%nat.
Proof. exact P_Sgp4Newton47.newton_loop_exits_by_seventh_test3. Qed.
Print Assumptions C01_newton_loop_exits_by_seventh_test_small_e.

(* and in terms of the input: outside the degenerate island (e0 <= 0.9) an ACCEPTED element set with TLE mean motion 6.4 .. 18
   rev/day has e0 <= 0.467 (a0'' <= 1.94 by interval arithmetic + the constructor's perigee guard), at its epoch or drag-free
   eL <= 0.47, and so its Newton loop leaves by the seventh test *)
From PyOrb.proofs Require P_Sgp4EpochConverges.
Theorem C01_accepted_eccentricity : forall e0 i r w m n b,
  gen_init_outcome e0 i r w m n b = InitMode NearNorm 1 -> 64 / 10 <= n <= 18 -> e0 <= 9 / 10 -> e0 <= 467 / 1000.
Proof. exact P_Sgp4EpochConverges.accepted_e0. Qed.
Print Assumptions C01_accepted_eccentricity.

Theorem C01_newton_converges_at_epoch_or_drag_free : forall e0 i r w m n b ts,
  gen_init_outcome e0 i r w m n b = InitMode NearNorm 1 -> b = 0 \/ ts = 0 -> 64 / 10 <= n <= 18 -> e0 <= 9 / 10 ->
  forall j, gen_nn1_prop_outcome e0 i r w m n b ts = PropOk j -> (j <= 6)%nat.
Proof. exact P_Sgp4EpochConverges.converges_at_epoch. Qed.
Print Assumptions C01_newton_converges_at_epoch_or_drag_free.

(* THE 1 mm / 1 um/s CLAIM with no hypothesis on the loop: every answered propagation (e0 > 1e-4) with a <= 4 earth radii and
   eL^2 <= 4/25 returns -- nn1_returned j being the six elements handed to kep2xyz when the loop is left at test j --
   a position within 1e-6 km and a velocity within 1e-9 km/s, per coordinate, of the report's at the unique exact solution
   of Kepler's equation for Ucap = fmod(U, 2 pi) *)
Theorem C01_answered_position_accuracy : forall e0 i r w m n b ts j,
  gen_init_outcome e0 i r w m n b = InitMode NearNorm 1 ->
  gen_nn1_prop_outcome e0 i r w m n b ts = PropOk j ->
  let El := E e0 i r w m n b in let T := mkT false ts in let ec := ecl e0 i r w m n b ts in
  let Ucap := fmodR (U El T ec) (2 * PI) in
  a El T <= 4 -> eL2 El T ec <= 4 / 25 ->
  let '(radius, theta, eqinc, ascn, rdk, rfdk) := nn1_returned j e0 i r w m n b ts in
  exists Es, kepler_residual El T ec Ucap Es = 0 /\
    (forall Es', kepler_residual El T ec Ucap Es' = 0 -> Es' = Es) /\
    Rabs (gen_kep2xyz_x radius theta eqinc ascn rdk rfdk - Pxf El T ec Es) <= 1 / 1000000 /\
    Rabs (gen_kep2xyz_y radius theta eqinc ascn rdk rfdk - Pyf El T ec Es) <= 1 / 1000000 /\
    Rabs (gen_kep2xyz_z radius theta eqinc ascn rdk rfdk - Pzf El T ec Es) <= 1 / 1000000 /\
    Rabs (gen_kep2xyz_vx radius theta eqinc ascn rdk rfdk - Vxk El T ec Es) <= 1 / 1000000000 /\
    Rabs (gen_kep2xyz_vy radius theta eqinc ascn rdk rfdk - Vyk El T ec Es) <= 1 / 1000000000 /\
    Rabs (gen_kep2xyz_vz radius theta eqinc ascn rdk rfdk - Vzk El T ec Es) <= 1 / 1000000000.
Proof. exact answered_position_accuracy. Qed.
Print Assumptions C01_answered_position_accuracy.

(* the same for e0 <= 1e-4 *)
Theorem C01_answered_position_accuracy_small_e : forall e0 i r w m n b ts j,
  gen_init_outcome e0 i r w m n b = InitMode NearNorm 3 ->
  gen_nn3_prop_outcome e0 i r w m n b ts = PropOk j ->
  let El := E e0 i r w m n b in let T := mkT true ts in let ec := ecl3 e0 i r w m n b ts in
  let Ucap := fmodR (U El T ec) (2 * PI) in
  a El T <= 4 -> eL2 El T ec <= 4 / 25 ->
  let '(radius, theta, eqinc, ascn, rdk, rfdk) := nn3_returned j e0 i r w m n b ts in
  exists Es, kepler_residual El T ec Ucap Es = 0 /\
    (forall Es', kepler_residual El T ec Ucap Es' = 0 -> Es' = Es) /\
    Rabs (gen_kep2xyz_x radius theta eqinc ascn rdk rfdk - Pxf El T ec Es) <= 1 / 1000000 /\
    Rabs (gen_kep2xyz_y radius theta eqinc ascn rdk rfdk - Pyf El T ec Es) <= 1 / 1000000 /\
    Rabs (gen_kep2xyz_z radius theta eqinc ascn rdk rfdk - Pzf El T ec Es) <= 1 / 1000000 /\
    Rabs (gen_kep2xyz_vx radius theta eqinc ascn rdk rfdk - Vxk El T ec Es) <= 1 / 1000000000 /\
    Rabs (gen_kep2xyz_vy radius theta eqinc ascn rdk rfdk - Vyk El T ec Es) <= 1 / 1000000000 /\
    Rabs (gen_kep2xyz_vz radius theta eqinc ascn rdk rfdk - Vzk El T ec Es) <= 1 / 1000000000.
Proof. exact answered_position_accuracy_small_e. Qed.
Print Assumptions C01_answered_position_accuracy_small_e.

(* the selector is the obvious one *)
Example C01_returned_at_exit_2 : forall e0 i r w m n b ts,
  nn1_returned 2 e0 i r w m n b ts =
  (gen_nn1_x2_radius e0 i r w m n b ts, gen_nn1_x2_theta e0 i r w m n b ts, gen_nn1_x2_eqinc e0 i r w m n b ts,
   gen_nn1_x2_ascn e0 i r w m n b ts, gen_nn1_x2_rdotk e0 i r w m n b ts, gen_nn1_x2_rfdotk e0 i r w m n b ts).
Proof. reflexivity. Qed.

(* A HEALTHY ORBIT IS ANSWERED: decay guards at the requested time, eL^2 <= 4/25, and osculating perigee a (1 - eL) at least
   1.005 earth radii imply that the regenerated propagation returns a state (no error exit, the loop converged by its sixth
   test, rk >= 1 at the exit) -- the hypothesis "outcome = PropOk j" of the theorems above follows from the elements *)
Theorem C01_short_period_radius : forall el t e, 1 <= a el t -> eL2 el t e <= 4 / 25 ->
  1005 / 1000 <= a el t * (1 - sqrt (eL2 el t e)) -> forall Ew, 1 <= rk el t e Ew.
Proof. exact rk_at_least_one. Qed.
Print Assumptions C01_short_period_radius.

Theorem C01_answered_when_healthy : forall e0 i r w m n b ts,
  gen_init_outcome e0 i r w m n b = InitMode NearNorm 1 ->
  let El := E e0 i r w m n b in let T := mkT false ts in let ec := ecl e0 i r w m n b ts in
  - (1 / 1000) <= e_unclamped El T -> eL2 El T ec <= 4 / 25 -> 1005 / 1000 <= a El T * (1 - sqrt (eL2 El T ec)) ->
  exists j, (j <= 5)%nat /\ gen_nn1_prop_outcome e0 i r w m n b ts = PropOk j.
Proof. exact answered_when_healthy. Qed.
Print Assumptions C01_answered_when_healthy.

Theorem C01_answered_when_healthy_small_e : forall e0 i r w m n b ts,
  gen_init_outcome e0 i r w m n b = InitMode NearNorm 3 ->
  let El := E e0 i r w m n b in let T := mkT true ts in let ec := ecl3 e0 i r w m n b ts in
  - (1 / 1000) <= e_unclamped El T -> eL2 El T ec <= 4 / 25 -> 1005 / 1000 <= a El T * (1 - sqrt (eL2 El T ec)) ->
  exists j, (j <= 5)%nat /\ gen_nn3_prop_outcome e0 i r w m n b ts = PropOk j.
Proof. exact answered_when_healthy3. Qed.
Print Assumptions C01_answered_when_healthy_small_e.

(* INPUT-ONLY FORM.  At the epoch, or at any time for a drag-free set (B* = 0), the drag polynomial and the drag terms of the
   eccentricity vanish (a = a0'', e = e0) and |ayNL| <= A30 / (4 k2 a (1 - e0^2)); with the constructor's perigee guard this makes
   the orbit healthy.  So: an ACCEPTED element set (e0 > 1e-4) with e0 <= 0.39 and TLE mean motion 6.4 .. 18 rev/day is answered
   and its returned state is within 1 mm / 1 um/s of the report - no hypothesis on intermediate quantities is left *)
From PyOrb.proofs Require P_Sgp4AnsweredEpoch.
Theorem C01_accuracy_at_epoch_or_drag_free : forall e0 i r w m n b ts,
  gen_init_outcome e0 i r w m n b = InitMode NearNorm 1 ->
  b = 0 \/ ts = 0 -> e0 <= 39 / 100 -> 64 / 10 <= n <= 18 ->
  exists j, (j <= 5)%nat /\ gen_nn1_prop_outcome e0 i r w m n b ts = PropOk j /\
  let El := E e0 i r w m n b in let T := mkT false ts in let ec := ecl e0 i r w m n b ts in
  let Ucap := fmodR (U El T ec) (2 * PI) in
  let '(radius, theta, eqinc, ascn, rdk, rfdk) := nn1_returned j e0 i r w m n b ts in
  exists Es, kepler_residual El T ec Ucap Es = 0 /\
    (forall Es', kepler_residual El T ec Ucap Es' = 0 -> Es' = Es) /\
    Rabs (gen_kep2xyz_x radius theta eqinc ascn rdk rfdk - Pxf El T ec Es) <= 1 / 1000000 /\
    Rabs (gen_kep2xyz_y radius theta eqinc ascn rdk rfdk - Pyf El T ec Es) <= 1 / 1000000 /\
    Rabs (gen_kep2xyz_z radius theta eqinc ascn rdk rfdk - Pzf El T ec Es) <= 1 / 1000000 /\
    Rabs (gen_kep2xyz_vx radius theta eqinc ascn rdk rfdk - Vxk El T ec Es) <= 1 / 1000000000 /\
    Rabs (gen_kep2xyz_vy radius theta eqinc ascn rdk rfdk - Vyk El T ec Es) <= 1 / 1000000000 /\
    Rabs (gen_kep2xyz_vz radius theta eqinc ascn rdk rfdk - Vzk El T ec Es) <= 1 / 1000000000.
Proof. exact P_Sgp4AnsweredEpoch.accuracy_when_frozen. Qed.
Print Assumptions C01_accuracy_at_epoch_or_drag_free.

(* non-vacuity of everything above: the ISS element set of the test-suite, propagated to its epoch, is on leaf 1
   (C01_iss_on_leaf1), healthy (interval arithmetic), hence answered, and a <= 4: every hypothesis of
   C01_answered_position_accuracy is met by a concrete input *)
Example C01_iss_answered :
  let e0 := 6703 / 10000000 in let i := 516416 / 10000 in let r := 2474627 / 10000 in let w := 1305360 / 10000 in
  let m := 3250288 / 10000 in let n := 1572125391 / 100000000 in let b := - (11606 / 1000000000) in
  gen_init_outcome e0 i r w m n b = InitMode NearNorm 1 /\
  (exists j, (j <= 5)%nat /\ gen_nn1_prop_outcome e0 i r w m n b 0 = PropOk j) /\
  a (E e0 i r w m n b) (mkT false 0) <= 4 /\ eL2 (E e0 i r w m n b) (mkT false 0) (ecl e0 i r w m n b 0) <= 4 / 25.
Proof.
  cbv zeta. pose proof C01.C01_iss_on_leaf1 as Hleaf.
  assert (Hec : ecl (6703 / 10000000) (516416 / 10000) (2474627 / 10000) (1305360 / 10000) (3250288 / 10000)
                    (1572125391 / 100000000) (- (11606 / 1000000000)) 0 = e_unclamped ISS T0).
  { unfold ecl.
    change (E (6703 / 10000000) (516416 / 10000) (2474627 / 10000) (1305360 / 10000) (3250288 / 10000) (1572125391 / 100000000) (- (11606 / 1000000000))) with ISS.
    change (mkT false 0) with T0. apply clamp_e_id. pose proof iss_e. lra. }
  split; [exact Hleaf|]. split.
  - apply (answered_when_healthy _ _ _ _ _ _ _ 0 Hleaf); rewrite ?Hec;
      change (E (6703 / 10000000) (516416 / 10000) (2474627 / 10000) (1305360 / 10000) (3250288 / 10000) (1572125391 / 100000000) (- (11606 / 1000000000))) with ISS;
      change (mkT false 0) with T0.
    + pose proof iss_e. lra.
    + exact iss_eL2.
    + exact iss_perigee.
  - rewrite Hec.
    change (E (6703 / 10000000) (516416 / 10000) (2474627 / 10000) (1305360 / 10000) (3250288 / 10000) (1572125391 / 100000000) (- (11606 / 1000000000))) with ISS.
    change (mkT false 0) with T0. pose proof iss_a. split; [lra|exact iss_eL2].
Qed.

(* the same on the small-eccentricity path: e0 = 5e-5, i = 98.7 deg, n = 14.2 rev/day (C01_small_e_on_leaf3), at epoch *)
Example C01_small_e_answered :
  let e0 := 1 / 20000 in let i := 987 / 10 in let r := 2474627 / 10000 in let w := 1305360 / 10000 in
  let m := 3250288 / 10000 in let n := 142 / 10 in let b := 1 / 100000 in
  gen_init_outcome e0 i r w m n b = InitMode NearNorm 3 /\
  (exists j, (j <= 5)%nat /\ gen_nn3_prop_outcome e0 i r w m n b 0 = PropOk j) /\
  a (E e0 i r w m n b) (mkT true 0) <= 4 /\ eL2 (E e0 i r w m n b) (mkT true 0) (ecl3 e0 i r w m n b 0) <= 4 / 25.
Proof.
  cbv zeta. pose proof C01.C01_small_e_on_leaf3 as Hleaf.
  assert (Hec : ecl3 (1 / 20000) (987 / 10) (2474627 / 10000) (1305360 / 10000) (3250288 / 10000) (142 / 10) (1 / 100000) 0
                = e_unclamped SE T3).
  { unfold ecl3.
    change (E (1 / 20000) (987 / 10) (2474627 / 10000) (1305360 / 10000) (3250288 / 10000) (142 / 10) (1 / 100000)) with SE.
    change (mkT true 0) with T3. apply clamp_e_id. pose proof se_e. lra. }
  split; [exact Hleaf|]. split.
  - apply (answered_when_healthy3 _ _ _ _ _ _ _ 0 Hleaf); rewrite ?Hec;
      change (E (1 / 20000) (987 / 10) (2474627 / 10000) (1305360 / 10000) (3250288 / 10000) (142 / 10) (1 / 100000)) with SE;
      change (mkT true 0) with T3.
    + pose proof se_e. lra.
    + pose proof se_eL2. lra.
    + exact se_perigee.
  - rewrite Hec.
    change (E (1 / 20000) (987 / 10) (2474627 / 10000) (1305360 / 10000) (3250288 / 10000) (142 / 10) (1 / 100000)) with SE.
    change (mkT true 0) with T3. pose proof se_a. pose proof se_eL2. split; lra.
Qed.
