(* C20 — physical self-consistency of the state vector (the part that follows from the
   orientation-vector algebra of kep2xyz; regenerated from /repo/pyorbital/orbital.py).
   The inclination clause is proved from the regenerated SGP4 model (Gen_sgp4.v): on every answered
   propagation the plane's inclination is within (3/4) k2 / pL^2 of the element set's, i.e. within 0.05 deg
   for pL >= 0.69 earth radii.  The remaining clauses (velocity = d position/dt, perigee/apogee band,
   energy, orbit summary) are facts about the SGP4 theory and are validated by sampling in checks/c20.py. *)
From Coq Require Import Reals Lra.
From PyOrb.lib Require Import PyReal SgpOutcome.
From PyOrb.spec Require Import Spec_SGP4.
From PyOrb.gen Require Import Gen_astronomy Gen_orbital Gen_sgp4 Gen_sgp4_compose.
From PyOrb.proofs Require Import P_Kep P_Sgp4Init P_Sgp4Prop P_Sgp4Exits P_Sgp4SmallE P_Sgp4Geometry P_Sgp4Plane.
Open Scope R_scope.

(* |position| = radius *)
Theorem C20_radius : forall radius theta eqinc ascn rdotk rfdotk,
  let X := gen_kep2xyz_x radius theta eqinc ascn rdotk rfdotk in
  let Y := gen_kep2xyz_y radius theta eqinc ascn rdotk rfdotk in
  let Z := gen_kep2xyz_z radius theta eqinc ascn rdotk rfdotk in
  X * X + Y * Y + Z * Z = radius * radius.
Proof. exact kep_radius. Qed.
Print Assumptions C20_radius.

(* <position, velocity> = radius * radial speed: the radial velocity component is rdotk *)
Theorem C20_radial_speed : forall radius theta eqinc ascn rdotk rfdotk,
  gen_kep2xyz_x radius theta eqinc ascn rdotk rfdotk * gen_kep2xyz_vx radius theta eqinc ascn rdotk rfdotk +
  gen_kep2xyz_y radius theta eqinc ascn rdotk rfdotk * gen_kep2xyz_vy radius theta eqinc ascn rdotk rfdotk +
  gen_kep2xyz_z radius theta eqinc ascn rdotk rfdotk * gen_kep2xyz_vz radius theta eqinc ascn rdotk rfdotk
  = radius * rdotk.
Proof. exact kep_radial_speed. Qed.
Print Assumptions C20_radial_speed.

Theorem C20_speed : forall radius theta eqinc ascn rdotk rfdotk,
  gen_kep2xyz_vx radius theta eqinc ascn rdotk rfdotk * gen_kep2xyz_vx radius theta eqinc ascn rdotk rfdotk +
  gen_kep2xyz_vy radius theta eqinc ascn rdotk rfdotk * gen_kep2xyz_vy radius theta eqinc ascn rdotk rfdotk +
  gen_kep2xyz_vz radius theta eqinc ascn rdotk rfdotk * gen_kep2xyz_vz radius theta eqinc ascn rdotk rfdotk
  = rdotk * rdotk + rfdotk * rfdotk.
Proof. exact kep_speed. Qed.
Print Assumptions C20_speed.

(* r x v = radius * rfdotk * (sin i sin O, - sin i cos O, cos i): the orbital plane has
   inclination eqinc and node ascn whenever radius * rfdotk > 0 *)
Theorem C20_plane : forall radius theta eqinc ascn rdotk rfdotk,
  let X := gen_kep2xyz_x radius theta eqinc ascn rdotk rfdotk in
  let Y := gen_kep2xyz_y radius theta eqinc ascn rdotk rfdotk in
  let Z := gen_kep2xyz_z radius theta eqinc ascn rdotk rfdotk in
  let VX := gen_kep2xyz_vx radius theta eqinc ascn rdotk rfdotk in
  let VY := gen_kep2xyz_vy radius theta eqinc ascn rdotk rfdotk in
  let VZ := gen_kep2xyz_vz radius theta eqinc ascn rdotk rfdotk in
  Y * VZ - Z * VY = radius * rfdotk * (sin eqinc * sin ascn) /\
  Z * VX - X * VZ = radius * rfdotk * (- (sin eqinc * cos ascn)) /\
  X * VY - Y * VX = radius * rfdotk * cos eqinc.
Proof. exact kep_angular_momentum. Qed.
Print Assumptions C20_plane.

(* (cos u, sin u) of the report's finishing map is a unit vector for every Ew once eL^2 < 1 (so that
   |cos 2u|, |sin 2u| <= 1 and the short-period corrections are bounded) *)
Theorem C20_unit_direction : forall el t e Ew, a el t <> 0 -> eL2 el t e < 1 ->
  cosu el t e Ew ^ 2 + sinu el t e Ew ^ 2 = 1.
Proof. exact cosu_sinu_unit. Qed.
Print Assumptions C20_unit_direction.

(* vis-viva: before the short-period corrections the report's rates and radius satisfy
   v^2 / 2 - mu / r = - mu / (2 a) exactly (mu = ke^2), for every elements / time / Ew with eL^2 < 1; the
   corrections that separate the returned rates from these are bounded by k2 n / pL and 3 k2 n / pL.  (That the
   returned energy is within 1 % of - mu / 2a then needs bounds on r, pL and a; it is sampled in checks/c20.py.) *)
Theorem C20_vis_viva : forall el t e Ew, 0 < a el t -> eL2 el t e < 1 ->
  (rdot el t e Ew ^ 2 + rfdot el t e Ew ^ 2) / 2 - ke ^ 2 / r el t e Ew = - ke ^ 2 / (2 * a el t).
Proof. exact vis_viva. Qed.
Print Assumptions C20_vis_viva.

Theorem C20_rate_corrections : forall el t e Ew, 0 < a el t -> eL2 el t e < 1 ->
  Rabs (rdotk el t e Ew - rdot el t e Ew) <= k2 * Rabs (n el t) / pL el t e /\
  Rabs (rfdotk el t e Ew - rfdot el t e Ew) <= 3 * (k2 * Rabs (n el t) / pL el t e).
Proof. intros el t e Ew Ha HeL. split; [apply rdotk_band|apply rfdotk_band]; assumption. Qed.
Print Assumptions C20_rate_corrections.

(* inclination and node of the returned plane, e0 > 1e-4 (leaf 1): eqinc / ascn are what C20_plane's state is
   built from (exit_ok is the conclusion of C01_exit_<j>) *)
Theorem C20_plane_inclination : forall e0 i r w m n b ts j Ew radius theta eqinc ascn rdk rfdk smjaxs,
  gen_init_outcome e0 i r w m n b = InitMode NearNorm 1 -> gen_nn1_prop_outcome e0 i r w m n b ts = PropOk j ->
  exit_ok e0 i r w m n b ts Ew radius theta eqinc ascn rdk rfdk smjaxs ->
  let El := E e0 i r w m n b in let T := mkT false ts in let ec := ecl e0 i r w m n b ts in
  0 < pL El T ec /\
  Rabs (eqinc - deg2rad i) <= 3 / 4 * k2 / (pL El T ec) ^ 2 /\
  Rabs (ascn - Om El T) <= 3 / 2 * k2 / (pL El T ec) ^ 2 /\
  (69 / 100 <= pL El T ec -> Rabs (eqinc - deg2rad i) <= deg2rad (5 / 100)).
Proof. exact plane_leaf1. Qed.
Print Assumptions C20_plane_inclination.

(* the same for e0 <= 1e-4 (leaf 3) *)
Theorem C20_plane_inclination_small_e : forall e0 i r w m n b ts j Ew radius theta eqinc ascn rdk rfdk smjaxs,
  gen_init_outcome e0 i r w m n b = InitMode NearNorm 3 -> gen_nn3_prop_outcome e0 i r w m n b ts = PropOk j ->
  exit_ok3 e0 i r w m n b ts Ew radius theta eqinc ascn rdk rfdk smjaxs ->
  let El := E e0 i r w m n b in let T := mkT true ts in let ec := ecl3 e0 i r w m n b ts in
  0 < pL El T ec /\
  Rabs (eqinc - deg2rad i) <= 3 / 4 * k2 / (pL El T ec) ^ 2 /\
  Rabs (ascn - Om El T) <= 3 / 2 * k2 / (pL El T ec) ^ 2 /\
  (69 / 100 <= pL El T ec -> Rabs (eqinc - deg2rad i) <= deg2rad (5 / 100)).
Proof. exact plane_leaf3. Qed.
Print Assumptions C20_plane_inclination_small_e.

(* the geocentric distance against the osculating ellipse: a (1 - eL) <= r <= a (1 + eL), and the short-period radius
   differs from r by at most 3 k2 / pL^2 * r + k2 / (2 pL) earth radii (below 23 km for pL >= 1, r <= 2) *)
From PyOrb.proofs Require P_Sgp4Radius.
Theorem C20_distance_band : forall el t e Ew, 0 < a el t -> eL2 el t e < 1 ->
  a el t * (1 - sqrt (eL2 el t e)) <= r el t e Ew <= a el t * (1 + sqrt (eL2 el t e)) /\
  Rabs (rk el t e Ew - r el t e Ew) <= 3 * k2 / (pL el t e) ^ 2 * r el t e Ew + k2 / (2 * pL el t e).
Proof. intros el t e Ew Ha HeL. exact (conj (P_Sgp4Radius.r_band el t e Ew Ha) (P_Sgp4Radius.rk_band el t e Ew Ha HeL)). Qed.
Print Assumptions C20_distance_band.

(* on every answered propagation the RETURNED radius [km] (= |position|, C20_radius) is in that band *)
Theorem C20_answered_distance : forall e0 i r0 w m n b ts j Ew radius theta eqinc ascn rdk rfdk smjaxs,
  gen_init_outcome e0 i r0 w m n b = InitMode NearNorm 1 -> gen_nn1_prop_outcome e0 i r0 w m n b ts = PropOk j ->
  exit_ok e0 i r0 w m n b ts Ew radius theta eqinc ascn rdk rfdk smjaxs ->
  let El := E e0 i r0 w m n b in let T := mkT false ts in let ec := ecl e0 i r0 w m n b ts in
  let Q := sqrt (eL2 El T ec) in
  a El T * (1 - Q) <= r El T ec Ew <= a El T * (1 + Q) /\
  Rabs (radius - r El T ec Ew * XKMPER) <= (3 * k2 / (pL El T ec) ^ 2 * r El T ec Ew + k2 / (2 * pL El T ec)) * XKMPER /\
  (1 <= pL El T ec -> r El T ec Ew <= 2 -> Rabs (radius - r El T ec Ew * XKMPER) <= 23).
Proof. exact P_Sgp4Radius.distance_leaf1. Qed.
Print Assumptions C20_answered_distance.

Theorem C20_answered_distance_small_e : forall e0 i r0 w m n b ts j Ew radius theta eqinc ascn rdk rfdk smjaxs,
  gen_init_outcome e0 i r0 w m n b = InitMode NearNorm 3 -> gen_nn3_prop_outcome e0 i r0 w m n b ts = PropOk j ->
  exit_ok3 e0 i r0 w m n b ts Ew radius theta eqinc ascn rdk rfdk smjaxs ->
  let El := E e0 i r0 w m n b in let T := mkT true ts in let ec := ecl3 e0 i r0 w m n b ts in
  let Q := sqrt (eL2 El T ec) in
  a El T * (1 - Q) <= r El T ec Ew <= a El T * (1 + Q) /\
  Rabs (radius - r El T ec Ew * XKMPER) <= (3 * k2 / (pL El T ec) ^ 2 * r El T ec Ew + k2 / (2 * pL El T ec)) * XKMPER /\
  (1 <= pL El T ec -> r El T ec Ew <= 2 -> Rabs (radius - r El T ec Ew * XKMPER) <= 23).
Proof. exact P_Sgp4Radius.distance_leaf3. Qed.
Print Assumptions C20_answered_distance_small_e.

(* the specific orbital energy: the short-period corrections move it by at most 1 percent of mu / 2a when eL^2 <= 4/25 and the
   osculating perigee a (1 - eL) is at least 1.03 earth radii (units: earth radii, minutes, mu = ke^2) ... *)
From PyOrb.proofs Require P_Sgp4Energy.
Theorem C20_energy : forall el t e Ew, eL2 el t e <= 4 / 25 -> 103 / 100 <= a el t * (1 - sqrt (eL2 el t e)) ->
  Rabs (((rdotk el t e Ew ^ 2 + rfdotk el t e Ew ^ 2) / 2 - ke ^ 2 / rk el t e Ew) - (- ke ^ 2 / (2 * a el t)))
    <= ke ^ 2 / (2 * a el t) / 100.
Proof. exact P_Sgp4Energy.energy_within_one_percent. Qed.
Print Assumptions C20_energy.

(* ... and in km, s on the returned elements of every answered propagation (|velocity|^2 = rdk^2 + rfdk^2: C20_speed,
   |position| = radius: C20_radius), mu_km = ke^2 XKMPER^3 / 3600 = 398600.8 km^3/s^2 *)
Theorem C20_mu : Rabs (P_Sgp4Energy.mu_km - 3986008 / 10) <= 1 / 10.
Proof. exact P_Sgp4Energy.mu_km_value. Qed.
Print Assumptions C20_mu.

Theorem C20_answered_energy : forall e0 i r0 w m n b ts j Ew radius theta eqinc ascn rdk rfdk smjaxs,
  gen_init_outcome e0 i r0 w m n b = InitMode NearNorm 1 -> gen_nn1_prop_outcome e0 i r0 w m n b ts = PropOk j ->
  exit_ok e0 i r0 w m n b ts Ew radius theta eqinc ascn rdk rfdk smjaxs ->
  let El := E e0 i r0 w m n b in let T := mkT false ts in let ec := ecl e0 i r0 w m n b ts in
  eL2 El T ec <= 4 / 25 -> 103 / 100 <= a El T * (1 - sqrt (eL2 El T ec)) ->
  Rabs (((rdk ^ 2 + rfdk ^ 2) / 2 - P_Sgp4Energy.mu_km / radius) - (- P_Sgp4Energy.mu_km / (2 * (a El T * XKMPER))))
    <= P_Sgp4Energy.mu_km / (2 * (a El T * XKMPER)) / 100.
Proof. exact P_Sgp4Energy.energy_leaf1. Qed.
Print Assumptions C20_answered_energy.

Theorem C20_answered_energy_small_e : forall e0 i r0 w m n b ts j Ew radius theta eqinc ascn rdk rfdk smjaxs,
  gen_init_outcome e0 i r0 w m n b = InitMode NearNorm 3 -> gen_nn3_prop_outcome e0 i r0 w m n b ts = PropOk j ->
  exit_ok3 e0 i r0 w m n b ts Ew radius theta eqinc ascn rdk rfdk smjaxs ->
  let El := E e0 i r0 w m n b in let T := mkT true ts in let ec := ecl3 e0 i r0 w m n b ts in
  eL2 El T ec <= 4 / 25 -> 103 / 100 <= a El T * (1 - sqrt (eL2 El T ec)) ->
  Rabs (((rdk ^ 2 + rfdk ^ 2) / 2 - P_Sgp4Energy.mu_km / radius) - (- P_Sgp4Energy.mu_km / (2 * (a El T * XKMPER))))
    <= P_Sgp4Energy.mu_km / (2 * (a El T * XKMPER)) / 100.
Proof. exact P_Sgp4Energy.energy_leaf3. Qed.
Print Assumptions C20_answered_energy_small_e.

(* THE PERIGEE / APOGEE CLAUSE in the drag-free case: at the epoch, or at any time when B* = 0, an accepted element set with
   e0 <= 0.39 returns a geocentric distance (radius = |position|, C20_radius) between the model's perigee and apogee radii
   a0'' (1 -+ e0) XKMPER widened by 40 km (a = a0'', e = e0 there; long-period term below 9 km, short-period correction below 19 km) *)
From PyOrb.proofs Require P_Sgp4RadiusFrozen.
Theorem C20_distance_between_perigee_and_apogee : forall e0 i r0 w m n b ts,
  gen_init_outcome e0 i r0 w m n b = InitMode NearNorm 1 -> b = 0 \/ ts = 0 -> e0 <= 39 / 100 ->
  forall j Ew radius theta eqinc ascn rdk rfdk smjaxs,
  gen_nn1_prop_outcome e0 i r0 w m n b ts = PropOk j ->
  exit_ok e0 i r0 w m n b ts Ew radius theta eqinc ascn rdk rfdk smjaxs ->
  a0'' (E e0 i r0 w m n b) * (1 - e0) * XKMPER - 40 <= radius <= a0'' (E e0 i r0 w m n b) * (1 + e0) * XKMPER + 40.
Proof. exact P_Sgp4RadiusFrozen.distance_between_perigee_and_apogee. Qed.
Print Assumptions C20_distance_between_perigee_and_apogee.

Theorem C20_distance_between_perigee_and_apogee_small_e : forall e0 i r0 w m n b ts,
  gen_init_outcome e0 i r0 w m n b = InitMode NearNorm 3 -> b = 0 \/ ts = 0 -> a0'' (E e0 i r0 w m n b) <= 4 ->
  forall j Ew radius theta eqinc ascn rdk rfdk smjaxs,
  gen_nn3_prop_outcome e0 i r0 w m n b ts = PropOk j ->
  exit_ok3 e0 i r0 w m n b ts Ew radius theta eqinc ascn rdk rfdk smjaxs ->
  a0'' (E e0 i r0 w m n b) * (1 - e0) * XKMPER - 40 <= radius <= a0'' (E e0 i r0 w m n b) * (1 + e0) * XKMPER + 40.
Proof. exact P_Sgp4RadiusFrozen.distance_between_perigee_and_apogee3. Qed.
Print Assumptions C20_distance_between_perigee_and_apogee_small_e.

(* THE ENERGY CLAUSE in the drag-free case: at the epoch, or at any time when B* = 0, the specific orbital energy of the returned
   state is within 1 % of -mu / 2a for the model's semi-major axis a = a0'' XKMPER *)
From PyOrb.proofs Require P_Sgp4EnergyFrozen.
Theorem C20_energy_at_epoch_or_drag_free : forall e0 i r0 w m n b ts,
  gen_init_outcome e0 i r0 w m n b = InitMode NearNorm 1 -> b = 0 \/ ts = 0 -> e0 <= 39 / 100 ->
  forall j Ew radius theta eqinc ascn rdk rfdk smjaxs,
  gen_nn1_prop_outcome e0 i r0 w m n b ts = PropOk j ->
  exit_ok e0 i r0 w m n b ts Ew radius theta eqinc ascn rdk rfdk smjaxs ->
  let A := a0'' (E e0 i r0 w m n b) in
  Rabs (((rdk ^ 2 + rfdk ^ 2) / 2 - P_Sgp4Energy.mu_km / radius) - (- P_Sgp4Energy.mu_km / (2 * (A * XKMPER))))
    <= P_Sgp4Energy.mu_km / (2 * (A * XKMPER)) / 100.
Proof. exact P_Sgp4EnergyFrozen.energy_when_frozen. Qed.
Print Assumptions C20_energy_at_epoch_or_drag_free.

Theorem C20_energy_at_epoch_or_drag_free_small_e : forall e0 i r0 w m n b ts,
  gen_init_outcome e0 i r0 w m n b = InitMode NearNorm 3 -> b = 0 \/ ts = 0 ->
  forall j Ew radius theta eqinc ascn rdk rfdk smjaxs,
  gen_nn3_prop_outcome e0 i r0 w m n b ts = PropOk j ->
  exit_ok3 e0 i r0 w m n b ts Ew radius theta eqinc ascn rdk rfdk smjaxs ->
  let A := a0'' (E e0 i r0 w m n b) in
  Rabs (((rdk ^ 2 + rfdk ^ 2) / 2 - P_Sgp4Energy.mu_km / radius) - (- P_Sgp4Energy.mu_km / (2 * (A * XKMPER))))
    <= P_Sgp4Energy.mu_km / (2 * (A * XKMPER)) / 100.
Proof. exact P_Sgp4EnergyFrozen.energy_when_frozen3. Qed.
Print Assumptions C20_energy_at_epoch_or_drag_free_small_e.

(* THE ORBIT-SUMMARY CLAUSE, first half: the summary exposed with the elements (OrbitElements.semi_major_axis, .perigee) and
   the quantities the propagation itself uses (_SGDP4Base: aodp = the report's a0'', perigee height) are computed by two
   different spellings in orbital.py - the summary raises 1 - e0^2 to 2/3 where the report and the propagator have 3/2.  For
   every element set with e0 <= 0.4 and 6.4 <= n <= 17 rev/day (any inclination) they differ by at most 1.3 km, far inside
   the 30 km the property allows; so the summary describes the orbit that C20_distance_between_perigee_and_apogee bounds. *)
From PyOrb.proofs Require P_OeSummary.
Theorem C20_summary_semi_major_axis : forall e0 i r0 w m n b, 0 <= e0 <= 4 / 10 -> 64 / 10 <= n <= 17 ->
  Rabs (gen_oe_semi_major_axis e0 i r0 w m n b - gen_sgp4_aodp e0 i r0 w m n b) * XKMPER <= 13 / 10.
Proof.
  intros e0 i r0 w m n b He Hn. unfold XKMPER. replace (6378135 / 1000) with (1275627 / 200) by lra.
  exact (P_OeSummary.oe_semi_major_axis_close e0 i r0 w m n b He Hn).
Qed.
Print Assumptions C20_summary_semi_major_axis.

Theorem C20_summary_perigee : forall e0 i r0 w m n b, 0 <= e0 <= 4 / 10 -> 64 / 10 <= n <= 17 ->
  Rabs (gen_oe_perigee e0 i r0 w m n b - gen_sgp4_perigee e0 i r0 w m n b) <= 13 / 10.
Proof. exact P_OeSummary.oe_perigee_close. Qed.
Print Assumptions C20_summary_perigee.

(* THE ORBIT-SUMMARY CLAUSE, period: the mean motion the summary exposes (OrbitElements.original_mean_motion, from which
   .period = 2 pi / n is formed) and the recovered mean motion n0'' the propagation uses (xnodp) agree to 0.03 %, and so do the
   exposed period and 2 pi / n0''; the property's 1 % is then about the difference between the anomalistic period 2 pi / n0''
   and the nodal period of the trajectory (a fact about the theory, sampled). *)
From PyOrb.proofs Require P_OePeriod.
Theorem C20_summary_mean_motion : forall e0 i r0 w m n b, 0 <= e0 <= 4 / 10 -> 64 / 10 <= n <= 17 ->
  Rabs (gen_oe_original_mean_motion e0 i r0 w m n b - gen_sgp4_xnodp e0 i r0 w m n b) <= 3 / 10000 * gen_sgp4_xnodp e0 i r0 w m n b.
Proof. exact P_OePeriod.oe_mean_motion_close. Qed.
Print Assumptions C20_summary_mean_motion.

Theorem C20_summary_period : forall e0 i r0 w m n b, 0 <= e0 <= 4 / 10 -> 64 / 10 <= n <= 17 ->
  Rabs (gen_oe_period e0 i r0 w m n b - PI * 2 / gen_sgp4_xnodp e0 i r0 w m n b) <= 3 / 10000 * gen_oe_period e0 i r0 w m n b.
Proof. exact P_OePeriod.oe_period_close. Qed.
Print Assumptions C20_summary_period.

(* THE ORBIT-SUMMARY CLAUSE against the TRAJECTORY, drag-free case (at epoch, or B* = 0 at any time; accepted set, e0 <= 0.39,
   6.4 <= n <= 17 rev/day): the geocentric distance of every returned state is at least the EXPOSED perigee height plus one earth
   radius minus 41.3 km, and at most the EXPOSED semi-major axis times (1 + e0) plus 42 km.  (The property's other direction - the
   minimum distance comes within 30 km of the exposed perigee - is a statement about the whole revolution and is sampled.) *)
From PyOrb.proofs Require P_OeBand.
Theorem C20_distance_within_summary_band : forall e0 i r0 w m n b ts,
  gen_init_outcome e0 i r0 w m n b = InitMode NearNorm 1 -> b = 0 \/ ts = 0 ->
  0 < e0 <= 39 / 100 -> 64 / 10 <= n <= 17 ->
  forall j Ew radius theta eqinc ascn rdk rfdk smjaxs,
  gen_nn1_prop_outcome e0 i r0 w m n b ts = PropOk j ->
  exit_ok e0 i r0 w m n b ts Ew radius theta eqinc ascn rdk rfdk smjaxs ->
  gen_oe_perigee e0 i r0 w m n b + XKMPER - 413 / 10 <= radius <=
  gen_oe_semi_major_axis e0 i r0 w m n b * (1 + e0) * XKMPER + 42.
Proof. exact P_OeBand.distance_within_summary_band. Qed.
Print Assumptions C20_distance_within_summary_band.

Example C20_inhabited : 0 < 7000 * (15 / 2).
Proof. lra. Qed.
