(* C20 — physical self-consistency of the state vector (the part that follows from the
   orientation-vector algebra of kep2xyz; regenerated from /repo/pyorbital/orbital.py).
   The remaining clauses of C20 (velocity = d position/dt, perigee/apogee band, energy, orbit
   summary) are facts about the SGP4 theory and are validated by sampling in checks/c20.py. *)
From Coq Require Import Reals Lra.
From PyOrb.lib Require Import PyReal.
From PyOrb.gen Require Import Gen_astronomy Gen_orbital.
From PyOrb.proofs Require Import P_Kep.
Open Scope R_scope.

(* |position| = radius *)
Theorem C20_radius : forall radius theta eqinc ascn rdotk rfdotk,
  let X := gen_kep2xyz_x radius theta eqinc ascn rdotk rfdotk in
  let Y := gen_kep2xyz_y radius theta eqinc ascn rdotk rfdotk in
  let Z := gen_kep2xyz_z radius theta eqinc ascn rdotk rfdotk in
  X * X + Y * Y + Z * Z = radius * radius.
Proof. exact kep_radius. Qed.
Print Assumptions C20_radius.

(* <position, velocity> = radius * radial speed: the radial velocity component is rdotk *)
Theorem C20_radial_speed : forall radius theta eqinc ascn rdotk rfdotk,
  gen_kep2xyz_x radius theta eqinc ascn rdotk rfdotk * gen_kep2xyz_vx radius theta eqinc ascn rdotk rfdotk +
  gen_kep2xyz_y radius theta eqinc ascn rdotk rfdotk * gen_kep2xyz_vy radius theta eqinc ascn rdotk rfdotk +
  gen_kep2xyz_z radius theta eqinc ascn rdotk rfdotk * gen_kep2xyz_vz radius theta eqinc ascn rdotk rfdotk
  = radius * rdotk.
Proof. exact kep_radial_speed. Qed.
Print Assumptions C20_radial_speed.

Theorem C20_speed : forall radius theta eqinc ascn rdotk rfdotk,
  gen_kep2xyz_vx radius theta eqinc ascn rdotk rfdotk * gen_kep2xyz_vx radius theta eqinc ascn rdotk rfdotk +
  gen_kep2xyz_vy radius theta eqinc ascn rdotk rfdotk * gen_kep2xyz_vy radius theta eqinc ascn rdotk rfdotk +
  gen_kep2xyz_vz radius theta eqinc ascn rdotk rfdotk * gen_kep2xyz_vz radius theta eqinc ascn rdotk rfdotk
  = rdotk * rdotk + rfdotk * rfdotk.
Proof. exact kep_speed. Qed.
Print Assumptions C20_speed.

(* r x v = radius * rfdotk * (sin i sin O, - sin i cos O, cos i): the orbital plane has
   inclination eqinc and node ascn whenever radius * rfdotk > 0 *)
Theorem C20_plane : forall radius theta eqinc ascn rdotk rfdotk,
  let X := gen_kep2xyz_x radius theta eqinc ascn rdotk rfdotk in
  let Y := gen_kep2xyz_y radius theta eqinc ascn rdotk rfdotk in
  let Z := gen_kep2xyz_z radius theta eqinc ascn rdotk rfdotk in
  let VX := gen_kep2xyz_vx radius theta eqinc ascn rdotk rfdotk in
  let VY := gen_kep2xyz_vy radius theta eqinc ascn rdotk rfdotk in
  let VZ := gen_kep2xyz_vz radius theta eqinc ascn rdotk rfdotk in
  Y * VZ - Z * VY = radius * rfdotk * (sin eqinc * sin ascn) /\
  Z * VX - X * VZ = radius * rfdotk * (- (sin eqinc * cos ascn)) /\
  X * VY - Y * VX = radius * rfdotk * cos eqinc.
Proof. exact kep_angular_momentum. Qed.
Print Assumptions C20_plane.

Example C20_inhabited : 0 < 7000 * (15 / 2).
Proof. lra. Qed.
