(* P_SunDir.v — C06, Tier 2: distance on the unit sphere between the code's sun direction
   and the Almanac's; consequence for cos(zenith); the singular instant of the half-angle
   right-ascension formula exists (intermediate value theorem). *)
From Coq Require Import Reals Lra ZArith.
From Flocq Require Import Core.
From Interval Require Import Tactic.
From PyOrb.lib Require Import PyReal Atan2.
From PyOrb.spec Require Import Spec_Sun Spec_Time.
From PyOrb.gen Require Import Gen_astronomy.
From PyOrb.proofs Require Import P_Time P_Sun.
Open Scope R_scope.

(* ---------- three-dimensional Euclidean facts, componentwise ---------- *)
Definition nsq (a1 a2 a3 : R) : R := a1 * a1 + a2 * a2 + a3 * a3.

Lemma sq_nonneg x : 0 <= x * x.
Proof. exact (Rle_0_sqr x). Qed.

Lemma nsq_pos a1 a2 a3 : 0 <= nsq a1 a2 a3.
Proof.
  unfold nsq. pose proof (sq_nonneg a1). pose proof (sq_nonneg a2). pose proof (sq_nonneg a3). lra.
Qed.

Lemma cauchy_schwarz_sq a1 a2 a3 b1 b2 b3 :
  (a1 * b1 + a2 * b2 + a3 * b3) * (a1 * b1 + a2 * b2 + a3 * b3) <= nsq a1 a2 a3 * nsq b1 b2 b3.
Proof.
  unfold nsq.
  assert (E : (a1 * a1 + a2 * a2 + a3 * a3) * (b1 * b1 + b2 * b2 + b3 * b3)
              - (a1 * b1 + a2 * b2 + a3 * b3) * (a1 * b1 + a2 * b2 + a3 * b3)
              = (a1 * b2 - a2 * b1) * (a1 * b2 - a2 * b1) + (a1 * b3 - a3 * b1) * (a1 * b3 - a3 * b1)
                + (a2 * b3 - a3 * b2) * (a2 * b3 - a3 * b2)) by ring.
  pose proof (sq_nonneg (a1 * b2 - a2 * b1)).
  pose proof (sq_nonneg (a1 * b3 - a3 * b1)).
  pose proof (sq_nonneg (a2 * b3 - a3 * b2)).
  lra.
Qed.

Lemma cauchy_schwarz a1 a2 a3 b1 b2 b3 :
  Rabs (a1 * b1 + a2 * b2 + a3 * b3) <= sqrt (nsq a1 a2 a3) * sqrt (nsq b1 b2 b3).
Proof.
  rewrite <- sqrt_mult by apply nsq_pos.
  rewrite <- sqrt_Rsqr_abs. apply sqrt_le_1_alt. unfold Rsqr. apply cauchy_schwarz_sq.
Qed.

Lemma norm_triangle p1 p2 p3 q1 q2 q3 :
  sqrt (nsq (p1 + q1) (p2 + q2) (p3 + q3)) <= sqrt (nsq p1 p2 p3) + sqrt (nsq q1 q2 q3).
Proof.
  set (P := sqrt (nsq p1 p2 p3)). set (Q := sqrt (nsq q1 q2 q3)).
  assert (HP : 0 <= P) by apply sqrt_pos. assert (HQ : 0 <= Q) by apply sqrt_pos.
  assert (HPP : P * P = nsq p1 p2 p3) by (apply sqrt_sqrt, nsq_pos).
  assert (HQQ : Q * Q = nsq q1 q2 q3) by (apply sqrt_sqrt, nsq_pos).
  pose proof (cauchy_schwarz p1 p2 p3 q1 q2 q3) as CS. fold P Q in CS.
  assert (Hd : p1 * q1 + p2 * q2 + p3 * q3 <= P * Q).
  { apply Rle_trans with (2 := CS). apply Rle_abs. }
  rewrite <- (sqrt_square (P + Q)) by lra.
  apply sqrt_le_1_alt.
  replace (nsq (p1 + q1) (p2 + q2) (p3 + q3))
    with (nsq p1 p2 p3 + nsq q1 q2 q3 + 2 * (p1 * q1 + p2 * q2 + p3 * q3)) by (unfold nsq; ring).
  rewrite <- HPP, <- HQQ. nra.
Qed.

Lemma chord3_nsq a1 a2 a3 b1 b2 b3 :
  chord3 a1 a2 a3 b1 b2 b3 = sqrt (nsq (a1 - b1) (a2 - b2) (a3 - b3)).
Proof. reflexivity. Qed.

Lemma chord_triangle a1 a2 a3 b1 b2 b3 c1 c2 c3 :
  chord3 a1 a2 a3 c1 c2 c3 <= chord3 a1 a2 a3 b1 b2 b3 + chord3 b1 b2 b3 c1 c2 c3.
Proof.
  rewrite !chord3_nsq.
  replace (a1 - c1) with ((a1 - b1) + (b1 - c1)) by ring.
  replace (a2 - c2) with ((a2 - b2) + (b2 - c2)) by ring.
  replace (a3 - c3) with ((a3 - b3) + (b3 - c3)) by ring.
  apply norm_triangle.
Qed.

(* ---------- |sin x| <= |x| and 2 - 2 cos t <= t^2 ---------- *)
Lemma sin_sq_le x : sin x * sin x <= x * x.
Proof.
  assert (P : forall u, 0 < u -> - u <= sin u <= u).
  { intros u Hu. split; [|left; apply sin_lt_x; exact Hu].
    destruct (Rlt_dec u 1) as [H1|H1].
    - assert (0 < sin u); [|lra]. apply sin_gt_0; [exact Hu|].
      assert (3 < PI) by (assert (H := PI_RGT_0); interval). lra.
    - pose proof (SIN_bound u). lra. }
  destruct (Rtotal_order x 0) as [H|[H|H]].
  - destruct (P (- x)) as [A B]; [lra|]. rewrite sin_neg in A, B. nra.
  - subst x. rewrite sin_0. lra.
  - destruct (P x H) as [A B]. nra.
Qed.

Lemma two_minus_2cos t : 2 - 2 * cos t <= t * t.
Proof.
  replace t with (2 * (t / 2)) at 1 by field.
  rewrite cos_2a_sin.
  pose proof (sin_sq_le (t / 2)) as H. nra.
Qed.

(* ---------- chord between two ecliptic points ---------- *)
Lemma ecl_norm l e : nsq (ecl_x l e) (ecl_y l e) (ecl_z l e) = 1.
Proof.
  unfold nsq, ecl_x, ecl_y, ecl_z.
  pose proof (sin2_cos2 e) as He. pose proof (sin2_cos2 l) as Hl. unfold Rsqr in *.
  replace (cos l * cos l + cos e * sin l * (cos e * sin l) + sin e * sin l * (sin e * sin l))
    with (cos l * cos l + (sin l * sin l) * (sin e * sin e + cos e * cos e)) by ring.
  rewrite He. lra.
Qed.

Lemma zen_norm th phi : nsq (zen_x th phi) (zen_y th phi) (zen_z th phi) = 1.
Proof.
  unfold nsq, zen_x, zen_y, zen_z.
  pose proof (sin2_cos2 th) as Ht. pose proof (sin2_cos2 phi) as Hp. unfold Rsqr in *.
  replace (cos phi * cos th * (cos phi * cos th) + cos phi * sin th * (cos phi * sin th) + sin phi * sin phi)
    with (sin phi * sin phi + (cos phi * cos phi) * (sin th * sin th + cos th * cos th)) by ring.
  rewrite Ht. lra.
Qed.

Lemma chord_same_obliquity l l' e :
  chord3 (ecl_x l e) (ecl_y l e) (ecl_z l e) (ecl_x l' e) (ecl_y l' e) (ecl_z l' e) <= Rabs (l - l').
Proof.
  rewrite chord3_nsq, <- sqrt_Rsqr_abs. apply sqrt_le_1_alt.
  unfold nsq, ecl_x, ecl_y, ecl_z, Rsqr.
  apply Rle_trans with (2 := two_minus_2cos (l - l')).
  rewrite cos_minus.
  pose proof (sin2_cos2 e) as He. pose proof (sin2_cos2 l) as Hl. pose proof (sin2_cos2 l') as Hl'.
  unfold Rsqr in *.
  replace ((cos l - cos l') * (cos l - cos l') + (cos e * sin l - cos e * sin l') * (cos e * sin l - cos e * sin l')
           + (sin e * sin l - sin e * sin l') * (sin e * sin l - sin e * sin l'))
    with ((cos l - cos l') * (cos l - cos l')
          + (sin e * sin e + cos e * cos e) * ((sin l - sin l') * (sin l - sin l'))) by ring.
  rewrite He. nra.
Qed.

Lemma chord_same_longitude l e e' :
  chord3 (ecl_x l e) (ecl_y l e) (ecl_z l e) (ecl_x l e') (ecl_y l e') (ecl_z l e') <= Rabs (e - e').
Proof.
  rewrite chord3_nsq, <- sqrt_Rsqr_abs. apply sqrt_le_1_alt.
  unfold nsq, ecl_x, ecl_y, ecl_z, Rsqr.
  apply Rle_trans with (2 := two_minus_2cos (e - e')).
  rewrite cos_minus.
  pose proof (sin2_cos2 e) as He. pose proof (sin2_cos2 e') as He'. pose proof (sin2_cos2 l) as Hl.
  unfold Rsqr in *.
  replace ((cos l - cos l) * (cos l - cos l) + (cos e * sin l - cos e' * sin l) * (cos e * sin l - cos e' * sin l)
           + (sin e * sin l - sin e' * sin l) * (sin e * sin l - sin e' * sin l))
    with ((sin l * sin l) * ((cos e - cos e') * (cos e - cos e') + (sin e - sin e') * (sin e - sin e'))) by ring.
  assert (H0 : 0 <= sin l * sin l <= 1) by nra.
  assert (H1 : (cos e - cos e') * (cos e - cos e') + (sin e - sin e') * (sin e - sin e')
               = 2 - 2 * (cos e * cos e' + sin e * sin e')) by nra.
  rewrite H1.
  assert (H2 : 0 <= 2 - 2 * (cos e * cos e' + sin e * sin e')).
  { rewrite <- H1. pose proof (sq_nonneg (cos e - cos e')). pose proof (sq_nonneg (sin e - sin e')). lra. }
  set (X := 2 - 2 * (cos e * cos e' + sin e * sin e')) in *.
  apply Rle_trans with (1 * X); [apply Rmult_le_compat_r; lra|lra].
Qed.

Lemma chord_ecl l e l' e' :
  chord3 (ecl_x l e) (ecl_y l e) (ecl_z l e) (ecl_x l' e') (ecl_y l' e') (ecl_z l' e')
  <= Rabs (l - l') + Rabs (e - e').
Proof.
  apply Rle_trans with (1 := chord_triangle _ _ _ (ecl_x l' e) (ecl_y l' e) (ecl_z l' e) _ _ _).
  apply Rplus_le_compat; [apply chord_same_obliquity|apply chord_same_longitude].
Qed.

(* ---------- 8. sun direction: code vs Almanac ---------- *)
Lemma angle_budget :
  deg2rad (275 / 10000) + deg2rad (2 / 1000) <= 5149 / 10000000.
Proof. unfold deg2rad. interval. Qed.

Lemma sun_direction d : century d -> cos (gen_sun_ecliptic_longitude d) <> -1 ->
  let ra := gen_sun_ra d in let dec := gen_sun_dec d in
  let l' := deg2rad (lambda_AA d) in let e' := deg2rad (eps_AA d) in
  chord3 (sph_x ra dec) (sph_y ra dec) (sph_z ra dec) (ecl_x l' e') (ecl_y l' e') (ecl_z l' e')
  <= 515 / 1000000.
Proof.
  intros HT Hl. cbv zeta.
  destruct (sun_vector_code d HT Hl) as [Ex [Ey Ez]]. cbv zeta in Ex, Ey, Ez.
  rewrite Ex, Ey, Ez.
  apply Rle_trans with (1 := chord_ecl _ _ _ _).
  pose proof (ecliptic_longitude_AA d HT) as H1. pose proof (eps_code_AA d HT) as H2.
  pose proof angle_budget. lra.
Qed.

(* ---------- the Almanac's (alpha, delta) direction is the ecliptic point ---------- *)
Lemma almanac_vector n :
  let l' := deg2rad (lambda_AA n) in let e' := deg2rad (eps_AA n) in
  century n ->
  sph_x (alpha_AA n) (delta_AA n) = ecl_x l' e' /\
  sph_y (alpha_AA n) (delta_AA n) = ecl_y l' e' /\
  sph_z (alpha_AA n) (delta_AA n) = ecl_z l' e'.
Proof.
  cbv zeta. intros HT.
  unfold sph_x, sph_y, sph_z, ecl_x, ecl_y, ecl_z, alpha_AA, delta_AA.
  set (e := deg2rad (eps_AA n)). set (l := deg2rad (lambda_AA n)).
  assert (Hse : 0 < sin e <= 1 / 2).
  { unfold e, eps_AA, deg2rad. apply century_days in HT. split; interval. }
  assert (Hz : -1 / 2 <= sin e * sin l <= 1 / 2).
  { pose proof (SIN_bound l). split; nra. }
  rewrite cos_asin by lra. rewrite sin_asin by lra. unfold Rsqr.
  rewrite ecl_unit.
  assert (Hpos : 0 < cos l * cos l + cos e * sin l * (cos e * sin l)).
  { rewrite <- ecl_unit. nra. }
  destruct (cos_sin_atan2 (cos e * sin l) (cos l) Hpos) as [Hc Hs].
  rewrite Hc, Hs.
  assert (Hr : sqrt (cos l * cos l + cos e * sin l * (cos e * sin l)) <> 0).
  { apply Rgt_not_eq, sqrt_lt_R0. exact Hpos. }
  repeat split; try field; assumption.
Qed.

(* ---------- cos(zenith): code vs Almanac sun + IAU-82 sidereal time ---------- *)
Lemma chord_zenith th th' phi :
  chord3 (zen_x th phi) (zen_y th phi) (zen_z th phi) (zen_x th' phi) (zen_y th' phi) (zen_z th' phi)
  <= Rabs (th - th').
Proof.
  rewrite chord3_nsq, <- sqrt_Rsqr_abs. apply sqrt_le_1_alt.
  unfold nsq, zen_x, zen_y, zen_z, Rsqr.
  apply Rle_trans with (2 := two_minus_2cos (th - th')).
  rewrite cos_minus.
  pose proof (sin2_cos2 phi) as Hp. pose proof (sin2_cos2 th) as Ht. pose proof (sin2_cos2 th') as Ht'.
  unfold Rsqr in *.
  replace ((cos phi * cos th - cos phi * cos th') * (cos phi * cos th - cos phi * cos th')
           + (cos phi * sin th - cos phi * sin th') * (cos phi * sin th - cos phi * sin th')
           + (sin phi - sin phi) * (sin phi - sin phi))
    with ((cos phi * cos phi) * ((cos th - cos th') * (cos th - cos th') + (sin th - sin th') * (sin th - sin th')))
    by ring.
  assert (H0 : 0 <= cos phi * cos phi <= 1) by nra.
  assert (H1 : (cos th - cos th') * (cos th - cos th') + (sin th - sin th') * (sin th - sin th')
               = 2 - 2 * (cos th * cos th' + sin th * sin th')) by nra.
  rewrite H1.
  assert (H2 : 0 <= 2 - 2 * (cos th * cos th' + sin th * sin th')).
  { rewrite <- H1. pose proof (sq_nonneg (cos th - cos th')). pose proof (sq_nonneg (sin th - sin th')). lra. }
  set (X := 2 - 2 * (cos th * cos th' + sin th * sin th')) in *.
  apply Rle_trans with (1 * X); [apply Rmult_le_compat_r; lra|lra].
Qed.

Lemma dot_diff u1 u2 u3 z1 z2 z3 v1 v2 v3 w1 w2 w3 :
  nsq z1 z2 z3 = 1 -> nsq v1 v2 v3 = 1 ->
  Rabs (dot3 u1 u2 u3 z1 z2 z3 - dot3 v1 v2 v3 w1 w2 w3)
  <= chord3 u1 u2 u3 v1 v2 v3 + chord3 z1 z2 z3 w1 w2 w3.
Proof.
  intros Hz Hv. unfold dot3.
  replace (u1 * z1 + u2 * z2 + u3 * z3 - (v1 * w1 + v2 * w2 + v3 * w3))
    with (((u1 - v1) * z1 + (u2 - v2) * z2 + (u3 - v3) * z3)
          + (v1 * (z1 - w1) + v2 * (z2 - w2) + v3 * (z3 - w3))) by ring.
  apply Rle_trans with (1 := Rabs_triang _ _).
  pose proof (cauchy_schwarz (u1 - v1) (u2 - v2) (u3 - v3) z1 z2 z3) as A.
  pose proof (cauchy_schwarz v1 v2 v3 (z1 - w1) (z2 - w2) (z3 - w3)) as B.
  rewrite Hz, sqrt_1, Rmult_1_r in A. rewrite Hv, sqrt_1, Rmult_1_l in B.
  rewrite !chord3_nsq. lra.
Qed.

Lemma zen_period th phi (k : Z) :
  zen_x (th + 2 * IZR k * PI) phi = zen_x th phi /\ zen_y (th + 2 * IZR k * PI) phi = zen_y th phi.
Proof.
  unfold zen_x, zen_y. rewrite cos_period_Z, sin_period_Z. split; reflexivity.
Qed.

Lemma coszen_close d lon lat : century d -> cos (gen_sun_ecliptic_longitude d) <> -1 ->
  let l' := deg2rad (lambda_AA d) in let e' := deg2rad (eps_AA d) in
  let th' := gmst82_rad d + deg2rad lon in let phi := deg2rad lat in
  Rabs (gen_cos_zen d lon lat
        - dot3 (ecl_x l' e') (ecl_y l' e') (ecl_z l' e') (zen_x th' phi) (zen_y th' phi) (zen_z th' phi))
  <= 516 / 1000000.
Proof.
  intros HT Hl. cbv zeta.
  rewrite coszen_is_dot. cbv zeta.
  destruct (gmst_iau82 d) as [k Hk]; [unfold century in HT; lra|].
  (* shift the code's local sidereal angle by the whole turns *)
  set (th := gen_gmst d + deg2rad lon).
  set (th0 := th + 2 * IZR (- k) * PI).
  destruct (zen_period th (deg2rad lat) (- k)) as [Zx Zy]. fold th0 in Zx, Zy.
  rewrite <- Zx, <- Zy.
  replace (zen_z th (deg2rad lat)) with (zen_z th0 (deg2rad lat)) by reflexivity.
  apply Rle_trans with (1 := dot_diff _ _ _ _ _ _ _ _ _ _ _ _ (zen_norm th0 (deg2rad lat))
                                      (ecl_norm (deg2rad (lambda_AA d)) (deg2rad (eps_AA d)))).
  pose proof (sun_direction d HT Hl) as H1. cbv zeta in H1.
  pose proof (chord_zenith th0 (gmst82_rad d + deg2rad lon) (deg2rad lat)) as H2.
  assert (H3 : Rabs (th0 - (gmst82_rad d + deg2rad lon)) <= 1 / 10000000).
  { unfold th0, th. rewrite opp_IZR.
    replace (gen_gmst d + deg2rad lon + 2 * - IZR k * PI - (gmst82_rad d + deg2rad lon))
      with (gen_gmst d - IZR k * (2 * PI) - gmst82_rad d) by ring.
    exact Hk. }
  (* the sun chord: 5.149e-4 + 1e-7 <= 5.16e-4 *)
  assert (H1' : chord3 (sph_x (gen_sun_ra d) (gen_sun_dec d)) (sph_y (gen_sun_ra d) (gen_sun_dec d))
                  (sph_z (gen_sun_ra d) (gen_sun_dec d))
                  (ecl_x (deg2rad (lambda_AA d)) (deg2rad (eps_AA d)))
                  (ecl_y (deg2rad (lambda_AA d)) (deg2rad (eps_AA d)))
                  (ecl_z (deg2rad (lambda_AA d)) (deg2rad (eps_AA d))) <= 5149 / 10000000).
  { destruct (sun_vector_code d HT Hl) as [Ex [Ey Ez]]. cbv zeta in Ex, Ey, Ez.
    rewrite Ex, Ey, Ez.
    apply Rle_trans with (1 := chord_ecl _ _ _ _).
    pose proof (ecliptic_longitude_AA d HT). pose proof (eps_code_AA d HT).
    pose proof angle_budget. lra. }
  lra.
Qed.

(* ---------- the singular instant exists ---------- *)
Lemma lam_continuity : continuity gen_sun_ecliptic_longitude.
Proof.
  apply derivable_continuous.
  unfold gen_sun_ecliptic_longitude, deg2rad. cbv zeta. reg.
Qed.

Lemma ra_singular_instant : exists d, century d /\
  cos (gen_sun_ecliptic_longitude d) = -1 /\ gen_sun_ra d = 0.
Proof.
  set (f := fun d => gen_sun_ecliptic_longitude d - 51 * PI).
  assert (Hc : continuity f).
  { unfold f. apply continuity_minus; [apply lam_continuity|apply continuity_const; intros x y; reflexivity]. }
  assert (Ha : f 9030 < 0).
  { unfold f, gen_sun_ecliptic_longitude, deg2rad; cbv zeta. interval. }
  assert (Hb : 0 < f 9032).
  { unfold f, gen_sun_ecliptic_longitude, deg2rad; cbv zeta. interval. }
  destruct (IVT_cor f 9030 9032 Hc) as [z [[Hz1 Hz2] Hz]]; [lra|nra|].
  exists z. split; [unfold century; lra|].
  assert (E : cos (gen_sun_ecliptic_longitude z) = -1).
  { replace (gen_sun_ecliptic_longitude z) with (PI + 2 * INR 25 * PI).
    - rewrite cos_period. apply cos_PI.
    - unfold f in Hz. simpl INR. lra. }
  split; [exact E|]. apply sun_ra_singular. exact E.
Qed.
