(* C20: the energy clause in the drag-free case.  At the epoch, or at any time when B* = 0, an accepted element set with e0 <= 0.39
   (any accepted set with e0 <= 1e-4) returns a state whose specific orbital energy is within 1 % of -mu / (2 a0'' XKMPER):
   there a = a0'' and the orbit is healthy with perigee >= 1.03 (P_Sgp4AnsweredEpoch), so P_Sgp4Energy applies. *)
From Coq Require Import Reals Lra.
From PyOrb.lib Require Import PyReal SgpOutcome.
From PyOrb.spec Require Import Spec_SGP4.
From PyOrb.gen Require Import Gen_sgp4 Gen_sgp4_compose.
From PyOrb.proofs Require Import P_Sgp4Init P_Sgp4Prop P_Sgp4Exits P_Sgp4SmallE P_Sgp4Energy P_Sgp4AnsweredEpoch.
Open Scope R_scope.

Theorem energy_when_frozen e0 i r0 w m n b ts :
  gen_init_outcome e0 i r0 w m n b = InitMode NearNorm 1 -> b = 0 \/ ts = 0 -> e0 <= 39 / 100 ->
  forall j Ew radius theta eqinc ascn rdk rfdk smjaxs,
  gen_nn1_prop_outcome e0 i r0 w m n b ts = PropOk j ->
  exit_ok e0 i r0 w m n b ts Ew radius theta eqinc ascn rdk rfdk smjaxs ->
  let A := a0'' (E e0 i r0 w m n b) in
  Rabs (((rdk ^ 2 + rfdk ^ 2) / 2 - mu_km / radius) - (- mu_km / (2 * (A * XKMPER)))) <= mu_km / (2 * (A * XKMPER)) / 100.
Proof.
  intros Hleaf Hfr He39 j Ew radius theta eqinc ascn rdk rfdk smjaxs Hp Hex A.
  destruct (healthy_when_frozen e0 i r0 w m n b ts Hleaf Hfr He39) as [_ [H2 H3]].
  pose proof (energy_leaf1 e0 i r0 w m n b ts j Ew radius theta eqinc ascn rdk rfdk smjaxs Hleaf Hp Hex H2 H3) as En.
  assert (Hfr' : el_bstar (E e0 i r0 w m n b) = 0 \/ ts = 0) by exact Hfr.
  rewrite (frozen_a (E e0 i r0 w m n b) false ts Hfr') in En. exact En.
Qed.

Theorem energy_when_frozen3 e0 i r0 w m n b ts :
  gen_init_outcome e0 i r0 w m n b = InitMode NearNorm 3 -> b = 0 \/ ts = 0 ->
  forall j Ew radius theta eqinc ascn rdk rfdk smjaxs,
  gen_nn3_prop_outcome e0 i r0 w m n b ts = PropOk j ->
  exit_ok3 e0 i r0 w m n b ts Ew radius theta eqinc ascn rdk rfdk smjaxs ->
  let A := a0'' (E e0 i r0 w m n b) in
  Rabs (((rdk ^ 2 + rfdk ^ 2) / 2 - mu_km / radius) - (- mu_km / (2 * (A * XKMPER)))) <= mu_km / (2 * (A * XKMPER)) / 100.
Proof.
  intros Hleaf Hfr j Ew radius theta eqinc ascn rdk rfdk smjaxs Hp Hex A.
  destruct (healthy_when_frozen3 e0 i r0 w m n b ts Hleaf Hfr) as [_ [H2 H3]].
  pose proof (energy_leaf3 e0 i r0 w m n b ts j Ew radius theta eqinc ascn rdk rfdk smjaxs Hleaf Hp Hex H2 H3) as En.
  assert (Hfr' : el_bstar (E e0 i r0 w m n b) = 0 \/ ts = 0) by exact Hfr.
  rewrite (frozen_a (E e0 i r0 w m n b) true ts Hfr') in En. exact En.
Qed.
