(* P_InstrumentsSweep.v — the bounded vm_compute sweeps of the binary64 time model (C19):
   every scan 0..49 (and its successor) x every position, per instrument; see M_Instruments.sweep. *)
From Coq Require Import List ZArith QArith.
From PyOrb.model Require Import M_Instruments.
Import ListNotations.

Lemma sweep_avhrr : sweep avhrr [2047%Z] 50 = true. Proof. vm_cast_no_check (eq_refl true). Qed.
Lemma sweep_avhrr_gac : sweep avhrr_gac [2047%Z] 50 = true. Proof. vm_cast_no_check (eq_refl true). Qed.
Lemma sweep_amsua : sweep amsua [29%Z] 50 = true. Proof. vm_cast_no_check (eq_refl true). Qed.
Lemma sweep_mhs : sweep mhs [89%Z] 50 = true. Proof. vm_cast_no_check (eq_refl true). Qed.
Lemma sweep_hirs4 : sweep hirs4 [55%Z] 50 = true. Proof. vm_cast_no_check (eq_refl true). Qed.
Lemma sweep_atms : sweep atms [95%Z] 50 = true. Proof. vm_cast_no_check (eq_refl true). Qed.
Lemma sweep_mwhs2 : sweep mwhs2 [97%Z] 50 = true. Proof. vm_cast_no_check (eq_refl true). Qed.
Lemma sweep_ascat : sweep ascat (zrange 42) 50 = true. Proof. vm_cast_no_check (eq_refl true). Qed.
Lemma sweep_viirs : sweep viirs [6399%Z] 50 = true. Proof. vm_cast_no_check (eq_refl true). Qed.
