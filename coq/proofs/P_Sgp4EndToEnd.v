(* C01, end to end over the reals: EVERY answered near-earth-normal propagation with semi-major axis <= 4 earth radii and
   eL^2 <= 4/25 returns a position within 1 mm, and a velocity within 1 um/s, per coordinate, of the report's formulas
   evaluated at the unique exact solution of Kepler's equation.  No hypothesis about the Newton loop is left: that the
   loop meets its stopping rule (by its sixth test) is P_Sgp4Newton, what each exit returns is P_Sgp4Exits / P_Sgp4SmallE,
   and what a met stopping rule implies is P_Sgp4Accuracy.
   nn1_returned j / nn3_returned j select the six elements the code hands to kep2xyz when it leaves at test j. *)
From Coq Require Import Reals Lra Lia.
From PyOrb.lib Require Import PyReal SgpOutcome.
From PyOrb.spec Require Import Spec_SGP4.
From PyOrb.gen Require Import Gen_astronomy Gen_orbital Gen_sgp4 Gen_sgp4_compose.
From PyOrb.proofs Require Import P_Sgp4Init P_Sgp4Prop P_Sgp4Exits P_Sgp4SmallE P_Sgp4Lip P_Sgp4Accuracy P_Sgp4Newton.
Open Scope R_scope.

Definition nn1_returned (j : nat) (e0 i r w m n b ts : R) : R * R * R * R * R * R :=
  match j with
  | 0 => (gen_nn1_x0_radius e0 i r w m n b ts, gen_nn1_x0_theta e0 i r w m n b ts, gen_nn1_x0_eqinc e0 i r w m n b ts,
          gen_nn1_x0_ascn e0 i r w m n b ts, gen_nn1_x0_rdotk e0 i r w m n b ts, gen_nn1_x0_rfdotk e0 i r w m n b ts)
  | 1 => (gen_nn1_x1_radius e0 i r w m n b ts, gen_nn1_x1_theta e0 i r w m n b ts, gen_nn1_x1_eqinc e0 i r w m n b ts,
          gen_nn1_x1_ascn e0 i r w m n b ts, gen_nn1_x1_rdotk e0 i r w m n b ts, gen_nn1_x1_rfdotk e0 i r w m n b ts)
  | 2 => (gen_nn1_x2_radius e0 i r w m n b ts, gen_nn1_x2_theta e0 i r w m n b ts, gen_nn1_x2_eqinc e0 i r w m n b ts,
          gen_nn1_x2_ascn e0 i r w m n b ts, gen_nn1_x2_rdotk e0 i r w m n b ts, gen_nn1_x2_rfdotk e0 i r w m n b ts)
  | 3 => (gen_nn1_x3_radius e0 i r w m n b ts, gen_nn1_x3_theta e0 i r w m n b ts, gen_nn1_x3_eqinc e0 i r w m n b ts,
          gen_nn1_x3_ascn e0 i r w m n b ts, gen_nn1_x3_rdotk e0 i r w m n b ts, gen_nn1_x3_rfdotk e0 i r w m n b ts)
  | 4 => (gen_nn1_x4_radius e0 i r w m n b ts, gen_nn1_x4_theta e0 i r w m n b ts, gen_nn1_x4_eqinc e0 i r w m n b ts,
          gen_nn1_x4_ascn e0 i r w m n b ts, gen_nn1_x4_rdotk e0 i r w m n b ts, gen_nn1_x4_rfdotk e0 i r w m n b ts)
  | 5 => (gen_nn1_x5_radius e0 i r w m n b ts, gen_nn1_x5_theta e0 i r w m n b ts, gen_nn1_x5_eqinc e0 i r w m n b ts,
          gen_nn1_x5_ascn e0 i r w m n b ts, gen_nn1_x5_rdotk e0 i r w m n b ts, gen_nn1_x5_rfdotk e0 i r w m n b ts)
  | 6 => (gen_nn1_x6_radius e0 i r w m n b ts, gen_nn1_x6_theta e0 i r w m n b ts, gen_nn1_x6_eqinc e0 i r w m n b ts,
          gen_nn1_x6_ascn e0 i r w m n b ts, gen_nn1_x6_rdotk e0 i r w m n b ts, gen_nn1_x6_rfdotk e0 i r w m n b ts)
  | 7 => (gen_nn1_x7_radius e0 i r w m n b ts, gen_nn1_x7_theta e0 i r w m n b ts, gen_nn1_x7_eqinc e0 i r w m n b ts,
          gen_nn1_x7_ascn e0 i r w m n b ts, gen_nn1_x7_rdotk e0 i r w m n b ts, gen_nn1_x7_rfdotk e0 i r w m n b ts)
  | 8 => (gen_nn1_x8_radius e0 i r w m n b ts, gen_nn1_x8_theta e0 i r w m n b ts, gen_nn1_x8_eqinc e0 i r w m n b ts,
          gen_nn1_x8_ascn e0 i r w m n b ts, gen_nn1_x8_rdotk e0 i r w m n b ts, gen_nn1_x8_rfdotk e0 i r w m n b ts)
  | 9 => (gen_nn1_x9_radius e0 i r w m n b ts, gen_nn1_x9_theta e0 i r w m n b ts, gen_nn1_x9_eqinc e0 i r w m n b ts,
          gen_nn1_x9_ascn e0 i r w m n b ts, gen_nn1_x9_rdotk e0 i r w m n b ts, gen_nn1_x9_rfdotk e0 i r w m n b ts)
  | _ => (gen_nn1_x10_radius e0 i r w m n b ts, gen_nn1_x10_theta e0 i r w m n b ts, gen_nn1_x10_eqinc e0 i r w m n b ts,
          gen_nn1_x10_ascn e0 i r w m n b ts, gen_nn1_x10_rdotk e0 i r w m n b ts, gen_nn1_x10_rfdotk e0 i r w m n b ts)
  end.

Theorem answered_position_accuracy e0 i r w m n b ts j :
  gen_init_outcome e0 i r w m n b = InitMode NearNorm 1 ->
  gen_nn1_prop_outcome e0 i r w m n b ts = PropOk j ->
  let El := E e0 i r w m n b in let T := mkT false ts in let ec := ecl e0 i r w m n b ts in
  let Ucap := fmodR (U El T ec) (2 * PI) in
  a El T <= 4 -> eL2 El T ec <= 4 / 25 ->
  let '(radius, theta, eqinc, ascn, rdk, rfdk) := nn1_returned j e0 i r w m n b ts in
  exists Es, kepler_residual El T ec Ucap Es = 0 /\
    (forall Es', kepler_residual El T ec Ucap Es' = 0 -> Es' = Es) /\
    Rabs (gen_kep2xyz_x radius theta eqinc ascn rdk rfdk - Pxf El T ec Es) <= 1 / 1000000 /\
    Rabs (gen_kep2xyz_y radius theta eqinc ascn rdk rfdk - Pyf El T ec Es) <= 1 / 1000000 /\
    Rabs (gen_kep2xyz_z radius theta eqinc ascn rdk rfdk - Pzf El T ec Es) <= 1 / 1000000 /\
    Rabs (gen_kep2xyz_vx radius theta eqinc ascn rdk rfdk - Vxk El T ec Es) <= 1 / 1000000000 /\
    Rabs (gen_kep2xyz_vy radius theta eqinc ascn rdk rfdk - Vyk El T ec Es) <= 1 / 1000000000 /\
    Rabs (gen_kep2xyz_vz radius theta eqinc ascn rdk rfdk - Vzk El T ec Es) <= 1 / 1000000000.
Proof.
  intros Hleaf Hp El T ec Ucap HA2 HeL.
  pose proof (newton_loop_exits_early e0 i r w m n b ts j Hleaf Hp HeL) as Hj.
  destruct j as [|[|[|[|[|[|j]]]]]]; [ | | | | | | exfalso; lia]; cbn [nn1_returned].
  - destruct (exit_0 e0 i r w m n b ts Hleaf Hp) as [Hres Hex].
    exact (position_accuracy_leaf1 e0 i r w m n b ts 0 _ _ _ _ _ _ _ _ _ Hleaf Hp Hex Hres HA2 HeL).
  - destruct (exit_1 e0 i r w m n b ts Hleaf Hp) as [Hres Hex].
    exact (position_accuracy_leaf1 e0 i r w m n b ts 1 _ _ _ _ _ _ _ _ _ Hleaf Hp Hex Hres HA2 HeL).
  - destruct (exit_2 e0 i r w m n b ts Hleaf Hp) as [Hres Hex].
    exact (position_accuracy_leaf1 e0 i r w m n b ts 2 _ _ _ _ _ _ _ _ _ Hleaf Hp Hex Hres HA2 HeL).
  - destruct (exit_3 e0 i r w m n b ts Hleaf Hp) as [Hres Hex].
    exact (position_accuracy_leaf1 e0 i r w m n b ts 3 _ _ _ _ _ _ _ _ _ Hleaf Hp Hex Hres HA2 HeL).
  - destruct (exit_4 e0 i r w m n b ts Hleaf Hp) as [Hres Hex].
    exact (position_accuracy_leaf1 e0 i r w m n b ts 4 _ _ _ _ _ _ _ _ _ Hleaf Hp Hex Hres HA2 HeL).
  - destruct (exit_5 e0 i r w m n b ts Hleaf Hp) as [Hres Hex].
    exact (position_accuracy_leaf1 e0 i r w m n b ts 5 _ _ _ _ _ _ _ _ _ Hleaf Hp Hex Hres HA2 HeL).
Qed.

Definition nn3_returned (j : nat) (e0 i r w m n b ts : R) : R * R * R * R * R * R :=
  match j with
  | 0 => (gen_nn3_x0_radius e0 i r w m n b ts, gen_nn3_x0_theta e0 i r w m n b ts, gen_nn3_x0_eqinc e0 i r w m n b ts,
          gen_nn3_x0_ascn e0 i r w m n b ts, gen_nn3_x0_rdotk e0 i r w m n b ts, gen_nn3_x0_rfdotk e0 i r w m n b ts)
  | 1 => (gen_nn3_x1_radius e0 i r w m n b ts, gen_nn3_x1_theta e0 i r w m n b ts, gen_nn3_x1_eqinc e0 i r w m n b ts,
          gen_nn3_x1_ascn e0 i r w m n b ts, gen_nn3_x1_rdotk e0 i r w m n b ts, gen_nn3_x1_rfdotk e0 i r w m n b ts)
  | 2 => (gen_nn3_x2_radius e0 i r w m n b ts, gen_nn3_x2_theta e0 i r w m n b ts, gen_nn3_x2_eqinc e0 i r w m n b ts,
          gen_nn3_x2_ascn e0 i r w m n b ts, gen_nn3_x2_rdotk e0 i r w m n b ts, gen_nn3_x2_rfdotk e0 i r w m n b ts)
  | 3 => (gen_nn3_x3_radius e0 i r w m n b ts, gen_nn3_x3_theta e0 i r w m n b ts, gen_nn3_x3_eqinc e0 i r w m n b ts,
          gen_nn3_x3_ascn e0 i r w m n b ts, gen_nn3_x3_rdotk e0 i r w m n b ts, gen_nn3_x3_rfdotk e0 i r w m n b ts)
  | 4 => (gen_nn3_x4_radius e0 i r w m n b ts, gen_nn3_x4_theta e0 i r w m n b ts, gen_nn3_x4_eqinc e0 i r w m n b ts,
          gen_nn3_x4_ascn e0 i r w m n b ts, gen_nn3_x4_rdotk e0 i r w m n b ts, gen_nn3_x4_rfdotk e0 i r w m n b ts)
  | 5 => (gen_nn3_x5_radius e0 i r w m n b ts, gen_nn3_x5_theta e0 i r w m n b ts, gen_nn3_x5_eqinc e0 i r w m n b ts,
          gen_nn3_x5_ascn e0 i r w m n b ts, gen_nn3_x5_rdotk e0 i r w m n b ts, gen_nn3_x5_rfdotk e0 i r w m n b ts)
  | 6 => (gen_nn3_x6_radius e0 i r w m n b ts, gen_nn3_x6_theta e0 i r w m n b ts, gen_nn3_x6_eqinc e0 i r w m n b ts,
          gen_nn3_x6_ascn e0 i r w m n b ts, gen_nn3_x6_rdotk e0 i r w m n b ts, gen_nn3_x6_rfdotk e0 i r w m n b ts)
  | 7 => (gen_nn3_x7_radius e0 i r w m n b ts, gen_nn3_x7_theta e0 i r w m n b ts, gen_nn3_x7_eqinc e0 i r w m n b ts,
          gen_nn3_x7_ascn e0 i r w m n b ts, gen_nn3_x7_rdotk e0 i r w m n b ts, gen_nn3_x7_rfdotk e0 i r w m n b ts)
  | 8 => (gen_nn3_x8_radius e0 i r w m n b ts, gen_nn3_x8_theta e0 i r w m n b ts, gen_nn3_x8_eqinc e0 i r w m n b ts,
          gen_nn3_x8_ascn e0 i r w m n b ts, gen_nn3_x8_rdotk e0 i r w m n b ts, gen_nn3_x8_rfdotk e0 i r w m n b ts)
  | 9 => (gen_nn3_x9_radius e0 i r w m n b ts, gen_nn3_x9_theta e0 i r w m n b ts, gen_nn3_x9_eqinc e0 i r w m n b ts,
          gen_nn3_x9_ascn e0 i r w m n b ts, gen_nn3_x9_rdotk e0 i r w m n b ts, gen_nn3_x9_rfdotk e0 i r w m n b ts)
  | _ => (gen_nn3_x10_radius e0 i r w m n b ts, gen_nn3_x10_theta e0 i r w m n b ts, gen_nn3_x10_eqinc e0 i r w m n b ts,
          gen_nn3_x10_ascn e0 i r w m n b ts, gen_nn3_x10_rdotk e0 i r w m n b ts, gen_nn3_x10_rfdotk e0 i r w m n b ts)
  end.

Theorem answered_position_accuracy_small_e e0 i r w m n b ts j :
  gen_init_outcome e0 i r w m n b = InitMode NearNorm 3 ->
  gen_nn3_prop_outcome e0 i r w m n b ts = PropOk j ->
  let El := E e0 i r w m n b in let T := mkT true ts in let ec := ecl3 e0 i r w m n b ts in
  let Ucap := fmodR (U El T ec) (2 * PI) in
  a El T <= 4 -> eL2 El T ec <= 4 / 25 ->
  let '(radius, theta, eqinc, ascn, rdk, rfdk) := nn3_returned j e0 i r w m n b ts in
  exists Es, kepler_residual El T ec Ucap Es = 0 /\
    (forall Es', kepler_residual El T ec Ucap Es' = 0 -> Es' = Es) /\
    Rabs (gen_kep2xyz_x radius theta eqinc ascn rdk rfdk - Pxf El T ec Es) <= 1 / 1000000 /\
    Rabs (gen_kep2xyz_y radius theta eqinc ascn rdk rfdk - Pyf El T ec Es) <= 1 / 1000000 /\
    Rabs (gen_kep2xyz_z radius theta eqinc ascn rdk rfdk - Pzf El T ec Es) <= 1 / 1000000 /\
    Rabs (gen_kep2xyz_vx radius theta eqinc ascn rdk rfdk - Vxk El T ec Es) <= 1 / 1000000000 /\
    Rabs (gen_kep2xyz_vy radius theta eqinc ascn rdk rfdk - Vyk El T ec Es) <= 1 / 1000000000 /\
    Rabs (gen_kep2xyz_vz radius theta eqinc ascn rdk rfdk - Vzk El T ec Es) <= 1 / 1000000000.
Proof.
  intros Hleaf Hp El T ec Ucap HA2 HeL.
  pose proof (newton_loop_exits_early3 e0 i r w m n b ts j Hleaf Hp HeL) as Hj.
  destruct j as [|[|[|[|[|[|j]]]]]]; [ | | | | | | exfalso; lia]; cbn [nn3_returned].
  - destruct (exit3_0 e0 i r w m n b ts Hleaf Hp) as [Hres Hex].
    exact (position_accuracy_leaf3 e0 i r w m n b ts 0 _ _ _ _ _ _ _ _ _ Hleaf Hp Hex Hres HA2 HeL).
  - destruct (exit3_1 e0 i r w m n b ts Hleaf Hp) as [Hres Hex].
    exact (position_accuracy_leaf3 e0 i r w m n b ts 1 _ _ _ _ _ _ _ _ _ Hleaf Hp Hex Hres HA2 HeL).
  - destruct (exit3_2 e0 i r w m n b ts Hleaf Hp) as [Hres Hex].
    exact (position_accuracy_leaf3 e0 i r w m n b ts 2 _ _ _ _ _ _ _ _ _ Hleaf Hp Hex Hres HA2 HeL).
  - destruct (exit3_3 e0 i r w m n b ts Hleaf Hp) as [Hres Hex].
    exact (position_accuracy_leaf3 e0 i r w m n b ts 3 _ _ _ _ _ _ _ _ _ Hleaf Hp Hex Hres HA2 HeL).
  - destruct (exit3_4 e0 i r w m n b ts Hleaf Hp) as [Hres Hex].
    exact (position_accuracy_leaf3 e0 i r w m n b ts 4 _ _ _ _ _ _ _ _ _ Hleaf Hp Hex Hres HA2 HeL).
  - destruct (exit3_5 e0 i r w m n b ts Hleaf Hp) as [Hres Hex].
    exact (position_accuracy_leaf3 e0 i r w m n b ts 5 _ _ _ _ _ _ _ _ _ Hleaf Hp Hex Hres HA2 HeL).
Qed.
