(* P_Sun.v — proofs for C06: the sun kernels of the generated model (Gen_astronomy.v,
   regenerated from /repo/pyorbital/astronomy.py) against the Astronomical-Almanac
   low-precision solar position (Spec_Sun.v).
   The proofs unfold the generated definitions completely and never mention generated
   let-names; sub-expressions of the code (the obliquity) are captured by pattern and
   identified with the hand-written polynomial by [field]. *)
From Coq Require Import Reals Lra ZArith.
From Flocq Require Import Core.
From Interval Require Import Tactic.
From PyOrb.lib Require Import PyReal Atan2.
From PyOrb.spec Require Import Spec_Sun.
From PyOrb.gen Require Import Gen_astronomy.
Open Scope R_scope.

Definition century (d : R) : Prop := -1 / 2 <= d / 36525 <= 51 / 100.

Lemma century_days d : century d -> -18262.5 <= d <= 18627.75.
Proof. unfold century. lra. Qed.

(* ------------------------------------------------------------------------- *)
(* 1. ecliptic longitude, 3. distance: interval arithmetic with Taylor models *)
(* ------------------------------------------------------------------------- *)
(* Error budget of the property's 0.03 deg on the sphere (5.236e-4 rad):
     longitude 0.0275 deg + obliquity 0.002 deg + sidereal time 1e-7 rad = 5.150e-4 rad.
   Measured maxima over the century: longitude 0.00904 deg, obliquity 0.00111 deg,
   distance 0.00047 AU (tighter bounds 0.0115 deg / 0.0012 deg also close with the same
   tactic; the bounds below are those the property needs, so that a code change that stays
   inside the property's tolerance does not break the proof). *)
Lemma ecliptic_longitude_AA d : century d ->
  Rabs (gen_sun_ecliptic_longitude d - deg2rad (lambda_AA d)) <= deg2rad (275 / 10000).
Proof.
  intros HT. apply century_days in HT.
  unfold gen_sun_ecliptic_longitude, lambda_AA, L_AA, g_AA, deg2rad; cbv zeta.
  interval with (i_bisect d, i_taylor d, i_depth 25, i_degree 6).
Qed.

Lemma distance_AA d : century d ->
  Rabs (gen_sun_earth_distance_correction d - R_AA d) <= 15 / 10000.
Proof.
  intros HT. apply century_days in HT.
  unfold gen_sun_earth_distance_correction, R_AA, g_AA, deg2rad; cbv zeta.
  interval with (i_bisect d, i_taylor d, i_depth 25, i_degree 6).
Qed.

(* ------------------------------------------------------------------------- *)
(* 2. the obliquity used by the code (IAU 1980: 23d26'21.448" - 46.8150" T - ...) *)
(* ------------------------------------------------------------------------- *)
Definition eps_code (d : R) : R :=
  deg2rad (23 + 26 / 60 + 21448 / 1000 / 3600
           - (468150 / 10000 * (d / 36525) + 59 / 100000 * (d / 36525) * (d / 36525)
              - 1813 / 1000000 * (d / 36525) * (d / 36525) * (d / 36525)) / 3600).

Lemma eps_code_AA d : century d ->
  Rabs (eps_code d - deg2rad (eps_AA d)) <= deg2rad (2 / 1000).
Proof.
  intros HT. apply century_days in HT.
  unfold eps_code, eps_AA, deg2rad.
  interval with (i_bisect d, i_taylor d, i_depth 20, i_degree 4).
Qed.

Lemma eps_code_trig d : century d ->
  0 < cos (eps_code d) /\ 0 < sin (eps_code d) <= 1 / 2.
Proof.
  intros HT. apply century_days in HT.
  unfold eps_code, deg2rad. repeat split; interval.
Qed.

(* captures the obliquity sub-expression E of the unfolded generated term (it is the
   argument of the cosine/sine that multiplies sin(ecliptic longitude)) and replaces it by
   eps_code d; fails (and so flags the build) if the code's obliquity is no longer equal
   to that polynomial as a real-number expression *)
Ltac name_eps d :=
  match goal with
  | |- context [sin ?E * sin (gen_sun_ecliptic_longitude d)] =>
      replace E with (eps_code d) by (unfold eps_code, deg2rad; field)
  end.

(* ------------------------------------------------------------------------- *)
(* 4. right ascension / declination are spherical coordinates                *)
(* ------------------------------------------------------------------------- *)
Lemma sin_sin_bound a b : -1 <= sin a * sin b <= 1.
Proof.
  pose proof (SIN_bound a) as Ha. pose proof (SIN_bound b) as Hb. split; nra.
Qed.

Lemma ecl_unit e l :
  1 - (sin e * sin l) * (sin e * sin l) = cos l * cos l + (cos e * sin l) * (cos e * sin l).
Proof.
  pose proof (sin2_cos2 e) as He. pose proof (sin2_cos2 l) as Hl. unfold Rsqr in *.
  replace (cos l * cos l) with (1 - sin l * sin l) by lra.
  replace (cos e * sin l * (cos e * sin l)) with ((1 - sin e * sin e) * (sin l * sin l))
    by (replace (1 - sin e * sin e) with (cos e * cos e) by lra; ring).
  ring.
Qed.

Lemma dec_general e l :
  atan2 (sin e * sin l) (sqrt (1 - (sin e * sin l) * (sin e * sin l))) = asin (sin e * sin l).
Proof. apply atan2_asin. apply sin_sin_bound. Qed.

(* x + r = 0 exactly when the sun is on the negative x axis: cos l = -1 *)
Lemma ra_nonsingular e l : 0 < cos e -> cos l <> -1 ->
  cos l + sqrt (1 - (sin e * sin l) * (sin e * sin l)) <> 0.
Proof.
  intros He Hl Hs.
  set (r := sqrt (1 - (sin e * sin l) * (sin e * sin l))) in *.
  assert (Hr0 : 0 <= r) by apply sqrt_pos.
  assert (Hrr : r * r = cos l * cos l + (cos e * sin l) * (cos e * sin l)).
  { unfold r. rewrite sqrt_sqrt; [apply ecl_unit|]. rewrite ecl_unit. nra. }
  assert (Er : r = - cos l) by lra.
  rewrite Er in Hrr.
  assert (Hy : (cos e * sin l) * (cos e * sin l) = 0) by lra.
  assert (Hy' : cos e * sin l = 0) by nra.
  assert (Hsl : sin l = 0) by (apply Rmult_integral in Hy'; destruct Hy'; lra).
  pose proof (sin2_cos2 l) as H1. unfold Rsqr in H1. rewrite Hsl in H1.
  assert (Hc : cos l = 1 \/ cos l = -1).
  { assert ((cos l - 1) * (cos l + 1) = 0) by lra.
    apply Rmult_integral in H. destruct H; [left|right]; lra. }
  destruct Hc as [Hc|Hc]; [|contradiction]. lra.
Qed.

Lemma ra_general e l : 0 < cos e -> cos l <> -1 ->
  2 * atan2 (cos e * sin l) (cos l + sqrt (1 - (sin e * sin l) * (sin e * sin l)))
  = atan2 (cos e * sin l) (cos l).
Proof.
  intros He Hl.
  apply half_angle_atan2.
  - rewrite sqrt_sqrt; [apply ecl_unit|]. rewrite ecl_unit. nra.
  - apply sqrt_pos.
  - apply ra_nonsingular; assumption.
Qed.

Lemma ra_general_cos_sin e l : 0 < cos e -> cos l <> -1 ->
  let r := sqrt (1 - (sin e * sin l) * (sin e * sin l)) in
  let ra := 2 * atan2 (cos e * sin l) (cos l + r) in
  0 < r /\ r * cos ra = cos l /\ r * sin ra = cos e * sin l.
Proof.
  intros He Hl r ra.
  assert (Hrr : r * r = cos l * cos l + (cos e * sin l) * (cos e * sin l)).
  { unfold r. rewrite sqrt_sqrt; [apply ecl_unit|]. rewrite ecl_unit. nra. }
  assert (Hr0 : 0 <= r) by apply sqrt_pos.
  assert (Hs : cos l + r <> 0) by (apply ra_nonsingular; assumption).
  assert (Hr : 0 < r) by (apply (half_r_pos (cos l) (cos e * sin l) r); assumption).
  split; [exact Hr|]. unfold ra.
  rewrite (half_cos _ _ _ Hrr Hr0 Hs), (half_sin _ _ _ Hrr Hr0 Hs).
  split; field; lra.
Qed.

(* at the exact instant cos l = -1 (sun on the negative x axis; true RA = PI) the
   half-angle form evaluates atan2 (0, 0) = 0 *)
Lemma ra_singular e l : cos l = -1 ->
  2 * atan2 (cos e * sin l) (cos l + sqrt (1 - (sin e * sin l) * (sin e * sin l))) = 0.
Proof.
  intros Hl.
  pose proof (sin2_cos2 l) as H1. unfold Rsqr in H1. rewrite Hl in H1.
  assert (Hsl : sin l = 0) by nra.
  rewrite Hl, Hsl.
  replace (cos e * 0) with 0 by ring.
  replace (1 - sin e * 0 * (sin e * 0)) with 1 by ring. rewrite sqrt_1.
  replace (-1 + 1) with 0 by ring. rewrite atan2_0_0. ring.
Qed.

Lemma sun_dec_form d :
  gen_sun_dec d = asin (sin (eps_code d) * sin (gen_sun_ecliptic_longitude d)).
Proof.
  unfold gen_sun_dec; cbv zeta. name_eps d.
  match goal with |- atan2 ?z (sqrt ?w) = _ => replace w with (1 - z * z) by ring end.
  apply dec_general.
Qed.

Ltac shape_ra d :=
  unfold gen_sun_ra; cbv zeta; name_eps d;
  match goal with |- context [atan2 ?y (?x + sqrt ?w)] =>
    replace w with (1 - (sin (eps_code d) * sin (gen_sun_ecliptic_longitude d))
                       * (sin (eps_code d) * sin (gen_sun_ecliptic_longitude d))) by ring
  end.

Lemma sun_ra_form d : 0 < cos (eps_code d) -> cos (gen_sun_ecliptic_longitude d) <> -1 ->
  gen_sun_ra d = atan2 (cos (eps_code d) * sin (gen_sun_ecliptic_longitude d))
                       (cos (gen_sun_ecliptic_longitude d)).
Proof.
  intros He Hl. shape_ra d. apply ra_general; assumption.
Qed.

Lemma sun_ra_singular d : cos (gen_sun_ecliptic_longitude d) = -1 -> gen_sun_ra d = 0.
Proof.
  intros Hl. shape_ra d. apply ra_singular; assumption.
Qed.


(* ------------------------------------------------------------------------- *)
(* 5. cos(zenith) is the dot product <sun direction, local zenith direction>  *)
(* ------------------------------------------------------------------------- *)
Lemma coszen_is_dot d lon lat :
  let ra := gen_sun_ra d in let dec := gen_sun_dec d in
  let th := gen_gmst d + deg2rad lon in let phi := deg2rad lat in
  gen_cos_zen d lon lat
  = dot3 (sph_x ra dec) (sph_y ra dec) (sph_z ra dec) (zen_x th phi) (zen_y th phi) (zen_z th phi).
Proof.
  cbv zeta. unfold gen_cos_zen; cbv zeta.
  unfold dot3, sph_x, sph_y, sph_z, zen_x, zen_y, zen_z.
  rewrite cos_minus. ring.
Qed.

(* ------------------------------------------------------------------------- *)
(* 6. range and mutual consistency                                           *)
(* ------------------------------------------------------------------------- *)
Lemma dot_range a b h : -1 <= sin a * sin b + cos a * cos b * cos h <= 1.
Proof.
  pose proof (COS_bound h) as Hh.
  pose proof (COS_bound (a - b)) as H1. rewrite cos_minus in H1.
  pose proof (COS_bound (a + b)) as H2. rewrite cos_plus in H2.
  set (p := cos a * cos b) in *. set (q := sin a * sin b) in *. set (c := cos h) in *.
  replace (q + p * c) with (q + p * c) by ring.
  split; nra.
Qed.

Lemma coszen_range d lon lat : -1 <= gen_cos_zen d lon lat <= 1.
Proof.
  unfold gen_cos_zen; cbv zeta.
  (* a = latitude, b = declination, h = the one cosine argument that is neither: found by shape, then the goal is
     the dot product modulo ring, however the source orders its factors *)
  match goal with |- _ <= ?e <= _ =>
    match e with context [sin ?a] => match e with context [sin ?b] =>
      lazymatch a with b => fail | _ =>
        match e with context [cos ?h] =>
          lazymatch h with a => fail | b => fail | _ =>
            replace e with (sin a * sin b + cos a * cos b * cos h) by ring; apply (dot_range a b h)
          end end end end end end.
Qed.

(* the code clips the cosine to [-1, 1] before arccos / arcsin (np.clip, traced as two
   np.where's = ite_lt); over the reals the clip is the identity because of coszen_range.
   [rewrite ?] keeps the proofs valid for a code version without the clip. *)
Lemma zenith_is_acos d lon lat :
  gen_sun_zenith_angle d lon lat = rad2deg (acos (gen_cos_zen d lon lat)).
Proof.
  pose proof (coszen_range d lon lat) as [H1 H2].
  set (c := gen_cos_zen d lon lat) in *.
  unfold gen_sun_zenith_angle; cbv zeta.
  (* the clipped quantity is the cosine of the zenith angle, however this function spells the dot product *)
  repeat match goal with |- context [ite_lt 1 ?q 1 ?q] =>
    lazymatch q with c => fail | _ => replace q with c by (unfold c, gen_cos_zen; cbv zeta; ring) end end.
  try fold c.
  rewrite ?(ite_lt_false 1 c) by lra. rewrite ?(ite_lt_false c (-1)) by lra.
  reflexivity.
Qed.

Lemma alt_is_asin d lon lat : gen_sun_alt d lon lat = asin (gen_cos_zen d lon lat).
Proof.
  pose proof (coszen_range d lon lat) as [H1 H2].
  set (c := gen_cos_zen d lon lat) in *.
  unfold gen_sun_alt; cbv zeta.
  (* the clipped quantity is the cosine of the zenith angle, however this function spells the dot product *)
  repeat match goal with |- context [ite_lt 1 ?q 1 ?q] =>
    lazymatch q with c => fail | _ => replace q with c by (unfold c, gen_cos_zen; cbv zeta; ring) end end.
  try fold c.
  rewrite ?(ite_lt_false 1 c) by lra. rewrite ?(ite_lt_false c (-1)) by lra.
  reflexivity.
Qed.

Lemma zenith_alt d lon lat :
  deg2rad (gen_sun_zenith_angle d lon lat) = PI / 2 - gen_sun_alt d lon lat.
Proof.
  rewrite zenith_is_acos, alt_is_asin, deg2rad_rad2deg.
  apply acos_asin. apply coszen_range.
Qed.

Lemma zenith_alt_deg d lon lat :
  gen_sun_zenith_angle d lon lat = 90 - rad2deg (gen_sun_alt d lon lat).
Proof.
  rewrite <- (rad2deg_deg2rad (gen_sun_zenith_angle d lon lat)), zenith_alt.
  unfold rad2deg. field. apply PI_neq0.
Qed.

Lemma zenith_range d lon lat : 0 <= gen_sun_zenith_angle d lon lat <= 180.
Proof.
  rewrite zenith_is_acos.
  destruct (acos_bound (gen_cos_zen d lon lat)) as [H0 H1].
  assert (HPI := PI_RGT_0). unfold rad2deg. split.
  - apply Rmult_le_pos; [exact H0|]. apply Rlt_le, Rdiv_lt_0_compat; lra.
  - apply Rle_trans with (PI * (180 / PI)); [|right; field; lra].
    apply Rmult_le_compat_r; [|exact H1]. apply Rlt_le, Rdiv_lt_0_compat; lra.
Qed.

(* ------------------------------------------------------------------------- *)
(* 7. sub-solar point and antipode                                           *)
(* ------------------------------------------------------------------------- *)
Lemma subsolar_coszen d (k : Z) :
  gen_cos_zen d (rad2deg (gen_sun_ra d - gen_gmst d + 2 * IZR k * PI)) (rad2deg (gen_sun_dec d)) = 1.
Proof.
  unfold gen_cos_zen; cbv zeta. rewrite !deg2rad_rad2deg.
  match goal with |- context [cos (?g + (?r - ?g + ?p) - ?r)] =>
    replace (g + (r - g + p) - r) with (0 + p) by ring
  end.
  rewrite cos_period_Z, cos_0.
  pose proof (sin2_cos2 (gen_sun_dec d)) as H. unfold Rsqr in H. lra.
Qed.

Lemma antipode_coszen d (k : Z) :
  gen_cos_zen d (rad2deg (gen_sun_ra d - gen_gmst d + 2 * IZR k * PI) + 180)
              (- rad2deg (gen_sun_dec d)) = -1.
Proof.
  unfold gen_cos_zen; cbv zeta.
  replace (deg2rad (- rad2deg (gen_sun_dec d))) with (- gen_sun_dec d)
    by (rewrite <- (deg2rad_rad2deg (gen_sun_dec d)) at 1; unfold deg2rad; ring).
  replace (deg2rad (rad2deg (gen_sun_ra d - gen_gmst d + 2 * IZR k * PI) + 180))
    with (gen_sun_ra d - gen_gmst d + 2 * IZR k * PI + PI)
    by (rewrite <- (deg2rad_rad2deg (gen_sun_ra d - gen_gmst d + 2 * IZR k * PI)) at 1;
        unfold deg2rad; field; apply PI_neq0).
  match goal with |- context [cos (?g + (?r - ?g + ?p + PI) - ?r)] =>
    replace (g + (r - g + p + PI) - r) with (PI + p) by ring
  end.
  rewrite cos_period_Z, cos_PI, sin_neg, cos_neg.
  pose proof (sin2_cos2 (gen_sun_dec d)) as H. unfold Rsqr in H. lra.
Qed.

Lemma acos_m1 : acos (-1) = PI.
Proof. unfold acos. destruct (Rle_dec (-1) (-1)); lra. Qed.

Lemma subsolar_zenith d (k : Z) :
  gen_sun_zenith_angle d (rad2deg (gen_sun_ra d - gen_gmst d + 2 * IZR k * PI))
                         (rad2deg (gen_sun_dec d)) = 0.
Proof.
  rewrite zenith_is_acos, subsolar_coszen, acos_1. unfold rad2deg. ring.
Qed.

Lemma antipode_zenith d (k : Z) :
  gen_sun_zenith_angle d (rad2deg (gen_sun_ra d - gen_gmst d + 2 * IZR k * PI) + 180)
                         (- rad2deg (gen_sun_dec d)) = 180.
Proof.
  rewrite zenith_is_acos, antipode_coszen, acos_m1. unfold rad2deg. field. apply PI_neq0.
Qed.

(* ------------------------------------------------------------------------- *)
(* declination stays away from the poles; azimuth = atan2 (east, north)        *)
(* ------------------------------------------------------------------------- *)
Lemma cos_dec_pos d : century d -> 0 < cos (gen_sun_dec d).
Proof.
  intros HT. destruct (eps_code_trig d HT) as [_ [Hs0 Hs1]].
  rewrite sun_dec_form.
  set (z := sin (eps_code d) * sin (gen_sun_ecliptic_longitude d)).
  assert (Hz : -1 / 2 <= z <= 1 / 2).
  { unfold z. pose proof (SIN_bound (gen_sun_ecliptic_longitude d)). split; nra. }
  rewrite cos_asin by lra. apply sqrt_lt_R0. unfold Rsqr. nra.
Qed.

Lemma azimuth_is_EN d lon lat : century d ->
  let ra := gen_sun_ra d in let dec := gen_sun_dec d in
  let th := gen_gmst d + deg2rad lon in let phi := deg2rad lat in
  gen_sun_az d lon lat
  = atan2 (dot3 (sph_x ra dec) (sph_y ra dec) (sph_z ra dec) (east_x th phi) (east_y th phi) (east_z th phi))
          (dot3 (sph_x ra dec) (sph_y ra dec) (sph_z ra dec) (north_x th phi) (north_y th phi) (north_z th phi)).
Proof.
  intros HT. cbv zeta. pose proof (cos_dec_pos d HT) as Hc.
  unfold gen_sun_az; cbv zeta.
  unfold dot3, sph_x, sph_y, sph_z, east_x, east_y, east_z, north_x, north_y, north_z.
  match goal with |- atan2 ?y ?x = _ =>
    rewrite <- (atan2_scale (cos (gen_sun_dec d)) y x Hc)
  end.
  rewrite sin_minus, cos_minus. unfold tan.
  f_equal; field; lra.
Qed.

Lemma azimuth_is_EN_range d lon lat : century d ->
  let ra := gen_sun_ra d in let dec := gen_sun_dec d in
  let th := gen_gmst d + deg2rad lon in let phi := deg2rad lat in
  gen_sun_az d lon lat
  = atan2 (dot3 (sph_x ra dec) (sph_y ra dec) (sph_z ra dec) (east_x th phi) (east_y th phi) (east_z th phi))
          (dot3 (sph_x ra dec) (sph_y ra dec) (sph_z ra dec) (north_x th phi) (north_y th phi) (north_z th phi))
  /\ - PI < gen_sun_az d lon lat <= PI.
Proof.
  intros HT. cbv zeta. split; [apply (azimuth_is_EN d lon lat HT)|].
  unfold gen_sun_az; cbv zeta. apply atan2_range.
Qed.

(* ------------------------------------------------------------------------- *)
(* 2 + 4 packaged: the obliquity is quantified                               *)
(* ------------------------------------------------------------------------- *)
Lemma radec_are_spherical d : century d ->
  exists eps : R,
    Rabs (eps - deg2rad (eps_AA d)) <= deg2rad (2 / 1000) /\
    let lam := gen_sun_ecliptic_longitude d in
    gen_sun_dec d = asin (sin eps * sin lam) /\
    (cos lam <> -1 -> gen_sun_ra d = atan2 (cos eps * sin lam) (cos lam)) /\
    (cos lam = -1 -> gen_sun_ra d = 0).
Proof.
  intros HT. exists (eps_code d). split; [apply eps_code_AA; exact HT|]. cbv zeta.
  split; [apply sun_dec_form|]. split.
  - apply sun_ra_form. apply (eps_code_trig d HT).
  - apply sun_ra_singular.
Qed.

Lemma obliquity_AA d : century d ->
  exists eps : R,
    Rabs (eps - deg2rad (eps_AA d)) <= deg2rad (2 / 1000) /\
    gen_sun_dec d = asin (sin eps * sin (gen_sun_ecliptic_longitude d)).
Proof.
  intros HT. exists (eps_code d). split; [|apply sun_dec_form].
  apply eps_code_AA. exact HT.
Qed.

Lemma sun_ra_shape d :
  gen_sun_ra d
  = 2 * atan2 (cos (eps_code d) * sin (gen_sun_ecliptic_longitude d))
              (cos (gen_sun_ecliptic_longitude d)
               + sqrt (1 - (sin (eps_code d) * sin (gen_sun_ecliptic_longitude d))
                          * (sin (eps_code d) * sin (gen_sun_ecliptic_longitude d)))).
Proof. shape_ra d. reflexivity. Qed.

(* the sun's unit vector from the code's (ra, dec) *)
Lemma sun_vector_code d : century d -> cos (gen_sun_ecliptic_longitude d) <> -1 ->
  let lam := gen_sun_ecliptic_longitude d in
  let ra := gen_sun_ra d in let dec := gen_sun_dec d in
  sph_x ra dec = ecl_x lam (eps_code d) /\ sph_y ra dec = ecl_y lam (eps_code d)
  /\ sph_z ra dec = ecl_z lam (eps_code d).
Proof.
  intros HT Hl. cbv zeta.
  destruct (eps_code_trig d HT) as [Hce _].
  destruct (ra_general_cos_sin (eps_code d) (gen_sun_ecliptic_longitude d) Hce Hl) as [Hr [Hx Hy]].
  unfold sph_x, sph_y, sph_z, ecl_x, ecl_y, ecl_z.
  rewrite sun_dec_form, sun_ra_shape.
  rewrite cos_asin by apply sin_sin_bound. rewrite sin_asin by apply sin_sin_bound.
  unfold Rsqr. repeat split; assumption.
Qed.

Lemma sun_vector d : century d -> cos (gen_sun_ecliptic_longitude d) <> -1 ->
  exists eps : R,
    Rabs (eps - deg2rad (eps_AA d)) <= deg2rad (2 / 1000) /\
    let lam := gen_sun_ecliptic_longitude d in
    let ra := gen_sun_ra d in let dec := gen_sun_dec d in
    sph_x ra dec = ecl_x lam eps /\ sph_y ra dec = ecl_y lam eps /\ sph_z ra dec = ecl_z lam eps.
Proof.
  intros HT Hl. exists (eps_code d). split; [apply eps_code_AA; exact HT|].
  apply sun_vector_code; assumption.
Qed.

Lemma inhabited :
  century (900025 / 100) /\ cos (gen_sun_ecliptic_longitude (900025 / 100)) <> -1.
Proof.
  split; [unfold century; lra|].
  assert (H : -9 / 10 < cos (gen_sun_ecliptic_longitude (900025 / 100))); [|lra].
  unfold gen_sun_ecliptic_longitude, deg2rad; cbv zeta. interval.
Qed.
