(* P_Instruments.v — proofs about the instrument templates of model/M_Instruments.v (property C19). *)
From Coq Require Import List ZArith QArith Qround Qabs Bool Lia Lqa.
From PyOrb.model Require Import M_Instruments.
From PyOrb.proofs Require Import P_InstrumentsSweep.
Import ListNotations.
Open Scope Q_scope.

(* ------------------------------------------------------------------ *)
(* small arithmetic toolbox                                            *)
(* ------------------------------------------------------------------ *)
Ltac qdiv := unfold Qdiv in *;
  repeat match goal with
  | |- context[/ ?c] => let v := eval vm_compute in (Qred (/ c)) in
                        setoid_replace (/ c) with v by reflexivity
  end.

Lemma injZ_le a b : (a <= b)%Z -> inject_Z a <= inject_Z b.
Proof. intros H. rewrite <- Zle_Qle. exact H. Qed.
Lemma injZ_lt_step a b : (a < b)%Z -> inject_Z a + 1 <= inject_Z b.
Proof.
  intros H. assert (E : inject_Z a + 1 == inject_Z (a + 1)) by (rewrite inject_Z_plus; reflexivity).
  rewrite E. apply injZ_le. lia.
Qed.
Lemma injZ_nonneg a : (0 <= a)%Z -> 0 <= inject_Z a.
Proof. intros H. apply (injZ_le 0 a H). Qed.

Lemma Qtrunc_floor q : 0 <= q -> Qtrunc q = Qfloor q.
Proof.
  destruct q as [n d]. unfold Qle, Qtrunc, Qfloor. cbn. intros H.
  apply Z.quot_div_nonneg; lia.
Qed.

Lemma floor_lt x y : x + 1 <= y -> (Qfloor x < Qfloor y)%Z.
Proof.
  intros H.
  assert (A : inject_Z (Qfloor x + 1) <= y).
  { rewrite inject_Z_plus. pose proof (Qfloor_le x) as F.
    change (inject_Z 1) with 1. lra. }
  apply Qfloor_resp_le in A. rewrite Qfloor_Z in A. lia.
Qed.

Lemma floor_diff x d : Qabs (inject_Z (Qfloor (x + d) - Qfloor x) - d) < 1.
Proof.
  pose proof (Qfloor_le x) as A1. pose proof (Qlt_floor x) as A2.
  pose proof (Qfloor_le (x + d)) as B1. pose proof (Qlt_floor (x + d)) as B2.
  rewrite inject_Z_plus in A2, B2. change (inject_Z 1) with 1 in A2, B2.
  unfold Z.sub. rewrite inject_Z_plus, inject_Z_opp.
  apply Qabs_Qlt_condition. split; lra.
Qed.

(* lists *)
Lemma nth_map_seq {X} (f : nat -> X) d len i : (i < len)%nat -> nth i (map f (seq 0 len)) d = f i.
Proof.
  intros H. rewrite (nth_indep _ d (f 0%nat)) by (rewrite map_length, seq_length; exact H).
  rewrite map_nth, seq_nth by exact H. reflexivity.
Qed.

Lemma nth_zrange {X} (f : Z -> X) d n p : (0 <= p < n)%Z ->
  nth (Z.to_nat p) (map f (zrange n)) d = f p.
Proof.
  intros H. unfold zrange. rewrite map_map.
  rewrite nth_map_seq by lia. rewrite Z2Nat.id by lia. reflexivity.
Qed.

Lemma In_zrange n p : In p (zrange n) <-> (0 <= p < n)%Z.
Proof.
  unfold zrange. rewrite in_map_iff. split.
  - intros (k & <- & Hk). apply in_seq in Hk. lia.
  - intros H. exists (Z.to_nat p). split; [lia|]. apply in_seq. lia.
Qed.

(* ------------------------------------------------------------------ *)
(* well-formed templates                                               *)
(* ------------------------------------------------------------------ *)
Definition ns_unit : Q := 1 # 1000000000.

Record wf (t : inst) : Prop := {
  wf_npos : (0 < npos t)%Z;
  wf_ndet : (0 < ndet t)%nat;
  wf_across_bound : forall p, (0 <= p < npos t)%Z -> Qabs (across t p) <= swath t;
  wf_along_bound : forall d, (d < ndet t)%nat -> Qabs (along t d) <= 1;
  wf_antisym : forall p, (0 <= p < npos t)%Z -> across t (npos t - 1 - p) == - across t p;
  wf_along_antisym : forall d, (d < ndet t)%nat -> along t (ndet t - 1 - d) == - along t d;
  wf_sample_nonneg : forall m p, (0 <= m < npos t)%Z -> (0 <= p)%Z -> 0 <= sample t Exact m p;
  wf_sample_step : forall m p q, (0 <= m < npos t)%Z -> (0 <= p < q)%Z ->
      sample t Exact m p + ns_unit <= sample t Exact m q;
  wf_sample_period : forall m p, (0 <= p <= m)%Z -> (m < npos t)%Z ->
      sample t Exact m p + ns_unit <= period t;
  wf_offset : forall s, offset t Exact s == inject_Z (zn s) * period t;
  wf_period_pos : 0 < period t
}.

Definition scanners : list inst := [avhrr; avhrr_gac; amsua; mhs; hirs4; atms; mwhs2; viirs; ascat].
Definition line_scanners : list inst := [avhrr; avhrr_gac; amsua; mhs; hirs4; atms; mwhs2; ascat].
(* instruments whose sample times do not depend on the selection (all but ASCAT) *)
Definition fixed_sampling : list inst := [avhrr; avhrr_gac; amsua; mhs; hirs4; atms; mwhs2; viirs].

Ltac zq :=
  repeat match goal with
  | H : (?a <= ?b < ?c)%Z |- _ => destruct H
  | H : (?a <= ?b <= ?c)%Z |- _ => destruct H
  | H : (?a < ?b <= ?c)%Z |- _ => destruct H
  end;
  repeat match goal with
  | H : (?a <= ?b)%Z |- _ => apply injZ_le in H
  | H : (?a < ?b)%Z |- _ => apply injZ_lt_step in H
  end.

Ltac inj_norm :=
  repeat (rewrite ?inject_Z_plus, ?inject_Z_opp, ?inject_Z_mult in * );
  unfold Z.sub in *;
  repeat (rewrite ?inject_Z_plus, ?inject_Z_opp, ?inject_Z_mult in * ).

Lemma ramp_bound c a N sw p :
  0 < c -> (0 <= p < N)%Z -> inject_Z (N - 1) == 2 * c -> Qabs a == sw ->
  Qabs (ramp c a p) <= sw.
Proof.
  intros Hc Hp HN Ha. unfold ramp. rewrite Qabs_Qmult, Ha.
  assert (B : Qabs (inject_Z p / c - 1) <= 1).
  { apply Qabs_Qle_condition.
    assert (L0 : 0 <= inject_Z p) by (apply injZ_nonneg; lia).
    assert (L1 : inject_Z p <= inject_Z (N - 1)) by (apply injZ_le; lia).
    rewrite HN in L1.
    assert (D0 : 0 <= inject_Z p / c) by (apply Qle_shift_div_l; [exact Hc|lra]).
    assert (D1 : inject_Z p / c <= 2) by (apply Qle_shift_div_r; [exact Hc|lra]).
    split; lra. }
  assert (S0 : 0 <= sw) by (rewrite <- Ha; apply Qabs_nonneg).
  setoid_replace sw with (1 * sw) at 2 by ring.
  apply Qmult_le_compat_r; assumption.
Qed.

Lemma ramp_antisym c a N p :
  ~ c == 0 -> inject_Z (N - 1) == 2 * c -> ramp c a (N - 1 - p) == - ramp c a p.
Proof.
  intros Hc HN. unfold ramp.
  assert (E : inject_Z (N - 1 - p) == 2 * c - inject_Z p).
  { rewrite <- HN. unfold Z.sub. rewrite !inject_Z_plus, !inject_Z_opp. ring. }
  rewrite E. field. exact Hc.
Qed.

Ltac wf_common :=
  match goal with
  | |- (_ < _)%Z => reflexivity
  | |- (_ < _)%nat => cbn; lia
  | _ => idtac
  end.

Ltac open_inst t :=
  unfold t in *; cbn [npos ndet across along sample offset period swath] in *;
  cbn [Exact num lit ofZ add sub mul div to_ns] in *.

(* generic discharge of the timing conditions for templates linear in the position *)
Ltac timing t := intros; open_inst t; unfold ns_unit, zn in *; zq; inj_norm; qdiv; unfold inject_Z in *; try lra.

Lemma wf_avhrr : wf avhrr.
Proof.
  constructor; wf_common.
  - intros p Hp. open_inst avhrr. apply (ramp_bound _ _ 2048); [reflexivity|exact Hp|reflexivity|reflexivity].
  - intros d Hd. open_inst avhrr. apply Qabs_Qle_condition. split; lra.
  - intros p Hp. open_inst avhrr. apply (ramp_antisym _ _ 2048); [discriminate|reflexivity].
  - intros d Hd. open_inst avhrr. reflexivity.
  - timing avhrr.
  - timing avhrr.
  - timing avhrr.
  - timing avhrr.
  - reflexivity.
Qed.

Lemma wf_avhrr_gac : wf avhrr_gac.
Proof.
  constructor; wf_common.
  - intros p Hp. open_inst avhrr_gac. apply (ramp_bound _ _ 2048); [reflexivity|exact Hp|reflexivity|reflexivity].
  - intros d Hd. open_inst avhrr_gac. apply Qabs_Qle_condition. split; lra.
  - intros p Hp. open_inst avhrr_gac. apply (ramp_antisym _ _ 2048); [discriminate|reflexivity].
  - intros d Hd. open_inst avhrr_gac. reflexivity.
  - timing avhrr_gac.
  - timing avhrr_gac.
  - timing avhrr_gac.
  - timing avhrr_gac.
  - reflexivity.
Qed.

Lemma wf_amsua : wf amsua.
Proof.
  constructor; wf_common.
  - intros p Hp. open_inst amsua. apply (ramp_bound _ _ 30); [reflexivity|exact Hp|reflexivity|reflexivity].
  - intros d Hd. open_inst amsua. apply Qabs_Qle_condition. split; lra.
  - intros p Hp. open_inst amsua. apply (ramp_antisym _ _ 30); [discriminate|reflexivity].
  - intros d Hd. open_inst amsua. reflexivity.
  - timing amsua.
  - timing amsua.
  - timing amsua.
  - timing amsua.
  - reflexivity.
Qed.

Lemma wf_mhs : wf mhs.
Proof.
  constructor; wf_common.
  - intros p Hp. open_inst mhs. apply (ramp_bound _ _ 90); [reflexivity|exact Hp|reflexivity|reflexivity].
  - intros d Hd. open_inst mhs. apply Qabs_Qle_condition. split; lra.
  - intros p Hp. open_inst mhs. apply (ramp_antisym _ _ 90); [discriminate|reflexivity].
  - intros d Hd. open_inst mhs. reflexivity.
  - timing mhs.
  - timing mhs.
  - timing mhs.
  - timing mhs.
  - reflexivity.
Qed.

Lemma wf_hirs4 : wf hirs4.
Proof.
  constructor; wf_common.
  - intros p Hp. open_inst hirs4. apply (ramp_bound _ _ 56); [reflexivity|exact Hp|reflexivity|reflexivity].
  - intros d Hd. open_inst hirs4. apply Qabs_Qle_condition. split; lra.
  - intros p Hp. open_inst hirs4. apply (ramp_antisym _ _ 56); [discriminate|reflexivity].
  - intros d Hd. open_inst hirs4. reflexivity.
  - timing hirs4.
  - timing hirs4.
  - timing hirs4.
  - timing hirs4.
  - reflexivity.
Qed.

Lemma wf_mwhs2 : wf mwhs2.
Proof.
  constructor; wf_common.
  - intros p Hp. open_inst mwhs2. apply (ramp_bound _ _ 98); [reflexivity|exact Hp|reflexivity|reflexivity].
  - intros d Hd. open_inst mwhs2. apply Qabs_Qle_condition. split; lra.
  - intros p Hp. open_inst mwhs2. apply (ramp_antisym _ _ 98); [discriminate|reflexivity].
  - intros d Hd. open_inst mwhs2. reflexivity.
  - timing mwhs2.
  - timing mwhs2.
  - timing mwhs2.
  - timing mwhs2.
  - reflexivity.
Qed.

Lemma linspace_ge2 a b len i : (1 < len)%Z ->
  linspace a b len i = a + inject_Z i * ((b - a) / inject_Z (len - 1)).
Proof. intros H. unfold linspace. destruct (Z.leb_spec len 1); [lia|reflexivity]. Qed.

Lemma wf_atms : wf atms.
Proof.
  constructor; wf_common.
  - intros p Hp. open_inst atms. rewrite linspace_ge2 by lia.
    apply Qabs_Qle_condition. zq. inj_norm. qdiv. unfold inject_Z in *. split; lra.
  - intros d Hd. open_inst atms. apply Qabs_Qle_condition. split; lra.
  - intros p Hp. open_inst atms. rewrite !linspace_ge2 by lia.
    inj_norm. qdiv. unfold inject_Z. lra.
  - intros d Hd. open_inst atms. reflexivity.
  - timing atms.
  - timing atms.
  - timing atms.
  - timing atms.
  - reflexivity.
Qed.

Lemma wf_viirs : wf viirs.
Proof.
  constructor; wf_common.
  - intros p Hp. open_inst viirs. apply (ramp_bound _ _ 6400); [reflexivity|exact Hp|reflexivity|reflexivity].
  - intros d Hd. open_inst viirs. unfold zn.
    assert (H : (0 <= Z.of_nat d <= 31)%Z) by lia. revert H. generalize (Z.of_nat d). intros z H.
    apply Qabs_Qle_condition. zq. qdiv. unfold inject_Z in *. split; lra.
  - intros p Hp. open_inst viirs. apply (ramp_antisym _ _ 6400); [discriminate|reflexivity].
  - intros d Hd. open_inst viirs. unfold zn.
    replace (Z.of_nat (32 - 1 - d)) with (31 - Z.of_nat d)%Z by lia.
    generalize (Z.of_nat d). intros z. inj_norm. qdiv. unfold inject_Z. lra.
  - timing viirs.
  - timing viirs.
  - timing viirs.
  - timing viirs.
  - reflexivity.
Qed.

Lemma wf_ascat : wf ascat.
Proof.
  constructor; wf_common.
  - intros p Hp. open_inst ascat. destruct (Z.ltb_spec p 21) as [L|L].
    + rewrite linspace_ge2 by lia. apply Qabs_Qle_condition. zq. inj_norm. qdiv. unfold inject_Z in *. split; lra.
    + rewrite linspace_ge2 by lia. apply Qabs_Qle_condition. zq. inj_norm. qdiv. unfold inject_Z in *. split; lra.
  - intros d Hd. open_inst ascat. apply Qabs_Qle_condition. split; lra.
  - intros p Hp. open_inst ascat.
    destruct (Z.ltb_spec p 21) as [L|L]; destruct (Z.ltb_spec (42 - 1 - p) 21) as [L'|L']; try lia;
      rewrite !linspace_ge2 by lia; inj_norm; qdiv; unfold inject_Z; lra.
  - intros d Hd. open_inst ascat. reflexivity.
  - intros m p Hm Hp. open_inst ascat.
    apply Qmult_le_0_compat; [apply injZ_nonneg; lia|].
    assert (M1 : 1 <= inject_Z (m + 1)) by (apply (injZ_le 1); lia).
    apply Qle_shift_div_l; lra.
  - intros m p q Hm Hpq. open_inst ascat. unfold ns_unit.
    set (k := (374747474747 # 100000000000) / inject_Z (m + 1)).
    assert (M1 : 1 <= inject_Z (m + 1)) by (apply (injZ_le 1); lia).
    assert (M2 : inject_Z (m + 1) <= 42) by (apply (injZ_le _ 42); lia).
    assert (K : 1 # 1000000000 <= k).
    { unfold k. apply Qle_shift_div_l; [lra|]. lra. }
    assert (PQ : inject_Z p + 1 <= inject_Z q) by (apply injZ_lt_step; lia).
    assert (E : inject_Z q * k == inject_Z p * k + (inject_Z q - inject_Z p) * k) by ring.
    rewrite E.
    assert (G : 1 * k <= (inject_Z q - inject_Z p) * k) by (apply Qmult_le_compat_r; lra).
    lra.
  - intros m p Hp Hm. open_inst ascat. unfold ns_unit.
    set (R := 374747474747 # 100000000000).
    set (k := R / inject_Z (m + 1)).
    assert (M1 : 1 <= inject_Z (m + 1)) by (apply (injZ_le 1); lia).
    assert (M2 : inject_Z (m + 1) <= 42) by (apply (injZ_le _ 42); lia).
    assert (K : 1 # 1000000000 <= k).
    { unfold k, R. apply Qle_shift_div_l; [lra|]. lra. }
    assert (KM : k * inject_Z (m + 1) == R) by (unfold k; field; lra).
    assert (PM : inject_Z p * k <= inject_Z m * k).
    { apply Qmult_le_compat_r; [apply injZ_le; lia|lra]. }
    rewrite inject_Z_plus in KM. change (inject_Z 1) with 1 in KM.
    assert (KM' : inject_Z m * k == R - k) by lra.
    lra.
  - timing ascat.
  - reflexivity.
Qed.

Lemma wf_scanners t : In t scanners -> wf t.
Proof.
  intros H. cbn in H.
  repeat (destruct H as [<-|H]; [auto using wf_avhrr, wf_avhrr_gac, wf_amsua, wf_mhs, wf_hirs4, wf_atms, wf_mwhs2, wf_viirs, wf_ascat|]).
  contradiction.
Qed.

(* ------------------------------------------------------------------ *)
(* shapes and entries of the geometry                                  *)
(* ------------------------------------------------------------------ *)
Lemma lines_length t n : length (lines t n) = (n * ndet t)%nat.
Proof. apply seq_length. Qed.

Lemma nth_map' {X Y} (f : X -> Y) l d d' i : (i < length l)%nat -> nth i (map f l) d' = f (nth i l d).
Proof.
  intros H. rewrite (nth_indep _ d' (f d)) by (rewrite map_length; exact H). apply map_nth.
Qed.

Lemma shape_angles t n ps :
  length (angles t n ps) = 2%nat /\
  forall plane, In plane (angles t n ps) ->
    length plane = (n * ndet t)%nat /\ forall row, In row plane -> length row = length ps.
Proof.
  split; [reflexivity|].
  intros plane [<-|[<-|[]]]; (split; [rewrite map_length; apply lines_length|]);
    intros row H; apply in_map_iff in H as (L & <- & _); apply map_length.
Qed.

Lemma shape_times A t n ps :
  length (times A t n ps) = (n * ndet t)%nat /\
  forall row, In row (times A t n ps) -> length row = length ps.
Proof.
  split; [unfold times; rewrite map_length; apply lines_length|].
  intros row H. apply in_map_iff in H as (L & <- & _). apply map_length.
Qed.

Lemma across_entry t n ps L i : (L < n * ndet t)%nat -> (i < length ps)%nat ->
  nth i (nth L (nth 0 (angles t n ps) []) []) 0 = across t (nth i ps 0%Z).
Proof.
  intros HL Hi. cbn [angles nth]. unfold lines. rewrite nth_map_seq by exact HL.
  apply nth_map'. exact Hi.
Qed.

Lemma along_entry t n ps L i : (L < n * ndet t)%nat -> (i < length ps)%nat ->
  nth i (nth L (nth 1 (angles t n ps) []) []) 0 = along t (L mod ndet t).
Proof.
  intros HL Hi. cbn [angles nth]. unfold lines. rewrite nth_map_seq by exact HL.
  rewrite (nth_map' _ _ 0%Z) by exact Hi. reflexivity.
Qed.

Lemma times_entry A t n ps L i : (L < n * ndet t)%nat -> (i < length ps)%nat ->
  nth i (nth L (times A t n ps) []) 0%Z = time_ns A t (pmax ps) (L / ndet t) (nth i ps 0%Z).
Proof.
  intros HL Hi. unfold times, lines. rewrite nth_map_seq by exact HL.
  apply nth_map'. exact Hi.
Qed.

Lemma same_angles_per_scan t n ps c L : (0 < ndet t)%nat -> (L < n * ndet t)%nat ->
  nth L (nth c (angles t n ps) []) [] = nth (L mod ndet t) (nth c (angles t n ps) []) [].
Proof.
  intros HD HL.
  assert (HM : (L mod ndet t < n * ndet t)%nat).
  { pose proof (Nat.mod_le L (ndet t)). lia. }
  destruct c as [|[|c]]; cbn [angles nth]; unfold lines.
  - rewrite !nth_map_seq by assumption. reflexivity.
  - rewrite !nth_map_seq by assumption. rewrite Nat.mod_mod by lia. reflexivity.
  - destruct c; destruct L; destruct (_ mod _)%nat; reflexivity.
Qed.

(* ------------------------------------------------------------------ *)
(* angle bounds, zero along-track angles, antisymmetry                 *)
(* ------------------------------------------------------------------ *)
Definition in_range (t : inst) (ps : list Z) : Prop := Forall (fun p => (0 <= p < npos t)%Z) ps.

Lemma across_bounds t n ps : wf t -> in_range t ps ->
  forall row, In row (nth 0 (angles t n ps) []) -> forall a, In a row -> Qabs a <= swath t.
Proof.
  intros W R row Hrow a Ha. cbn [angles nth] in Hrow.
  apply in_map_iff in Hrow as (L & <- & _). apply in_map_iff in Ha as (p & <- & Hp).
  apply (wf_across_bound t W). unfold in_range in R. rewrite Forall_forall in R. apply R, Hp.
Qed.

Lemma along_bounds t n ps : wf t ->
  forall row, In row (nth 1 (angles t n ps) []) -> forall a, In a row -> Qabs a <= 1.
Proof.
  intros W row Hrow a Ha. cbn [angles nth] in Hrow.
  apply in_map_iff in Hrow as (L & <- & _). apply in_map_iff in Ha as (p & <- & Hp).
  apply (wf_along_bound t W). apply Nat.mod_upper_bound. pose proof (wf_ndet t W). lia.
Qed.

Lemma along_zero t n ps : In t line_scanners ->
  forall row, In row (nth 1 (angles t n ps) []) -> forall a, In a row -> a = 0.
Proof.
  intros H row Hrow a Ha. cbn [angles nth] in Hrow.
  apply in_map_iff in Hrow as (L & <- & _). apply in_map_iff in Ha as (p & <- & Hp).
  cbn in H. repeat (destruct H as [<-|H]; [reflexivity|]). contradiction.
Qed.

Lemma full_length t : (0 <= npos t)%Z -> length (full t) = Z.to_nat (npos t).
Proof. intros _. unfold full, zrange. rewrite map_length, seq_length. reflexivity. Qed.

Lemma full_nth t p : (0 <= p < npos t)%Z -> nth (Z.to_nat p) (full t) 0%Z = p.
Proof.
  intros H. unfold full, zrange. rewrite (nth_map' _ _ 0%nat) by (rewrite seq_length; lia).
  rewrite seq_nth by lia. lia.
Qed.

Lemma antisymmetric_full t n L p : wf t -> (L < n * ndet t)%nat -> (0 <= p < npos t)%Z ->
  let row := nth L (nth 0 (angles t n (full t)) []) [] in
  nth (Z.to_nat (npos t - 1 - p)) row 0 == - nth (Z.to_nat p) row 0.
Proof.
  intros W HL Hp row. subst row.
  rewrite !across_entry; try exact HL; try (rewrite full_length by lia; lia).
  rewrite !full_nth by lia. apply (wf_antisym t W). exact Hp.
Qed.

(* ------------------------------------------------------------------ *)
(* timing (exact arithmetic), for all scans                            *)
(* ------------------------------------------------------------------ *)
Definition tq (t : inst) (m : Z) (s : nat) (p : Z) : Q :=
  (sample t Exact m p + offset t Exact s) * 1000000000.

Lemma time_ns_exact t m s p : time_ns Exact t m s p = Qtrunc (tq t m s p).
Proof. reflexivity. Qed.

Lemma offset_nonneg t s : wf t -> 0 <= offset t Exact s.
Proof.
  intros W. rewrite (wf_offset t W). apply Qmult_le_0_compat.
  - apply injZ_nonneg. unfold zn. lia.
  - apply Qlt_le_weak, (wf_period_pos t W).
Qed.

Lemma offset_succ t s : wf t -> offset t Exact (S s) == offset t Exact s + period t.
Proof.
  intros W. rewrite !(wf_offset t W). unfold zn. rewrite Nat2Z.inj_succ. unfold Z.succ.
  rewrite inject_Z_plus. change (inject_Z 1) with 1. ring.
Qed.

Lemma tq_nonneg t m s p : wf t -> (0 <= m < npos t)%Z -> (0 <= p)%Z -> 0 <= tq t m s p.
Proof.
  intros W Hm Hp. unfold tq. pose proof (wf_sample_nonneg t W m p Hm Hp). pose proof (offset_nonneg t s W). 
  apply Qmult_le_0_compat; lra.
Qed.

Lemma time_ns_floor t m s p : wf t -> (0 <= m < npos t)%Z -> (0 <= p)%Z ->
  time_ns Exact t m s p = Qfloor (tq t m s p).
Proof. intros W Hm Hp. rewrite time_ns_exact. apply Qtrunc_floor, tq_nonneg; assumption. Qed.

Lemma time_increasing t m s p q : wf t -> (0 <= m < npos t)%Z -> (0 <= p < q)%Z ->
  (time_ns Exact t m s p < time_ns Exact t m s q)%Z.
Proof.
  intros W Hm Hpq. rewrite !time_ns_floor by (assumption || lia).
  apply floor_lt. unfold tq. pose proof (wf_sample_step t W m p q Hm Hpq) as S. unfold ns_unit in S.
  lra.
Qed.

Lemma line_before_next t m s p q : wf t -> (0 <= p <= m)%Z -> (m < npos t)%Z -> (0 <= q)%Z ->
  (time_ns Exact t m s p < time_ns Exact t m (S s) q)%Z.
Proof.
  intros W Hp Hm Hq. rewrite !time_ns_floor by (assumption || lia).
  apply floor_lt. unfold tq. pose proof (wf_sample_period t W m p Hp Hm) as S. unfold ns_unit in S.
  assert (Hm' : (0 <= m < npos t)%Z) by lia.
  pose proof (wf_sample_nonneg t W m q Hm' Hq) as N. pose proof (offset_succ t s W) as O.
  rewrite O. lra.
Qed.

Lemma scan_period_ns t m s p : wf t -> (0 <= m < npos t)%Z -> (0 <= p)%Z ->
  Qabs (inject_Z (time_ns Exact t m (S s) p - time_ns Exact t m s p) - period t * 1000000000) < 1.
Proof.
  intros W Hm Hp. rewrite !time_ns_floor by (assumption || lia).
  assert (E : tq t m (S s) p == tq t m s p + period t * 1000000000).
  { unfold tq. rewrite (offset_succ t s W). ring. }
  rewrite (Qfloor_comp _ _ E). apply floor_diff.
Qed.

(* ------------------------------------------------------------------ *)
(* subset selection = columns of the full geometry                     *)
(* ------------------------------------------------------------------ *)
Lemma subset_angles t n ps : in_range t ps ->
  angles t n ps = map (map (select 0 ps)) (angles t n (full t)).
Proof.
  intros R. unfold in_range in R. rewrite Forall_forall in R.
  unfold angles. cbn [map]. f_equal; [|f_equal]; rewrite map_map; apply map_ext; intros L;
    unfold select, full; apply map_ext_in; intros p Hp; symmetry.
  - apply (nth_zrange (across t)). apply R, Hp.
  - apply (nth_zrange (fun _ => along t (L mod ndet t))). apply R, Hp.
Qed.

Lemma fixed_sample A t m m' s p : In t fixed_sampling -> time_ns A t m s p = time_ns A t m' s p.
Proof.
  intros H. cbn in H. repeat (destruct H as [<-|H]; [reflexivity|]). contradiction.
Qed.

Lemma subset_times A t n ps : In t fixed_sampling -> in_range t ps ->
  times A t n ps = map (select 0%Z ps) (times A t n (full t)).
Proof.
  intros F R. unfold in_range in R. rewrite Forall_forall in R.
  unfold times. rewrite map_map. apply map_ext. intros L.
  unfold select, full. apply map_ext_in. intros p Hp. symmetry.
  rewrite (nth_zrange (time_ns A t (pmax (zrange (npos t))) (L / ndet t))) by (apply R, Hp).
  apply fixed_sample, F.
Qed.

(* ------------------------------------------------------------------ *)
(* the evaluation with sharing computes the same arrays                *)
(* ------------------------------------------------------------------ *)
Lemma angles_exec_eq t n ps : (0 < ndet t)%nat -> angles_exec t n ps = angles t n ps.
Proof.
  intros HD. unfold angles_exec, angles. cbv zeta. f_equal. f_equal.
  apply map_ext_in. intros L HL.
  rewrite nth_map_seq by (apply Nat.mod_upper_bound; lia). reflexivity.
Qed.

Lemma times_exec_eq A t n ps : (0 < ndet t)%nat -> times_exec A t n ps = times A t n ps.
Proof.
  intros HD. unfold times_exec, times. cbv zeta.
  apply map_ext_in. intros L HL. unfold lines in HL. apply in_seq in HL.
  rewrite nth_map_seq by (apply Nat.div_lt_upper_bound; lia).
  rewrite map_map. reflexivity.
Qed.

(* ------------------------------------------------------------------ *)
(* OLCI / SLSTR nadir: shape, bounds, zero times                       *)
(* ------------------------------------------------------------------ *)
Lemma zrange_length n : length (zrange n) = Z.to_nat n.
Proof. unfold zrange. rewrite map_length, seq_length. reflexivity. Qed.

Lemma swath_shape n len :
  length (swath_angles n len) = 2%nat /\
  (forall plane, In plane (swath_angles n len) ->
     length plane = n /\ forall row, In row plane -> length row = Z.to_nat len) /\
  length (swath_times n len) = n /\
  (forall row, In row (swath_times n len) -> length row = Z.to_nat len).
Proof.
  split; [reflexivity|]. split; [|split].
  - intros plane [<-|[<-|[]]]; (split; [rewrite map_length, seq_length; reflexivity|]);
      intros row H; apply in_map_iff in H as (L & <- & _); rewrite map_length; apply zrange_length.
  - unfold swath_times. rewrite map_length, seq_length. reflexivity.
  - intros row H. apply in_map_iff in H as (L & <- & _). rewrite map_length. apply zrange_length.
Qed.

Lemma linspace_between a b len i : b <= a -> (0 <= i < len)%Z -> b <= linspace a b len i <= a.
Proof.
  intros Hab Hi. unfold linspace. destruct (Z.leb_spec len 1) as [L|L]; [lra|].
  set (k := inject_Z (len - 1)). set (x := inject_Z i).
  assert (K : 1 <= k) by (apply (injZ_le 1); lia).
  assert (X0 : 0 <= x) by (apply injZ_nonneg; lia).
  assert (X1 : x <= k) by (apply injZ_le; lia).
  assert (E : x * ((b - a) / k) == (b - a) * (x / k)) by (field; lra).
  rewrite E.
  assert (F0 : 0 <= x / k) by (apply Qle_shift_div_l; lra).
  assert (F1 : x / k <= 1) by (apply Qle_shift_div_r; lra).
  set (f := x / k) in *.
  assert (G1 : (b - a) * f <= 0).
  { setoid_replace ((b - a) * f) with (- ((a - b) * f)) by ring.
    assert (0 <= (a - b) * f) by (apply Qmult_le_0_compat; lra). lra. }
  assert (G2 : b - a <= (b - a) * f).
  { setoid_replace ((b - a) * f) with ((b - a) + (a - b) * (1 - f)) by ring.
    assert (0 <= (a - b) * (1 - f)) by (apply Qmult_le_0_compat; lra). lra. }
  split; lra.
Qed.

Lemma swath_bounds n len :
  (forall row, In row (nth 0 (swath_angles n len) []) -> forall a, In a row ->
     - (221 # 10) <= a <= 465 # 10) /\
  (forall row, In row (nth 1 (swath_angles n len) []) -> forall a, In a row -> a = 0) /\
  (forall row, In row (swath_times n len) -> forall x, In x row -> x = 0%Z).
Proof.
  split; [|split].
  - intros row Hrow a Ha. cbn [swath_angles nth] in Hrow.
    apply in_map_iff in Hrow as (L & <- & _). apply in_map_iff in Ha as (i & <- & Hi).
    apply linspace_between; [lra|]. apply In_zrange, Hi.
  - intros row Hrow a Ha. cbn [swath_angles nth] in Hrow.
    apply in_map_iff in Hrow as (L & <- & _). apply in_map_iff in Ha as (i & <- & Hi). reflexivity.
  - intros row Hrow a Ha. apply in_map_iff in Hrow as (L & <- & _).
    apply in_map_iff in Ha as (i & <- & Hi). reflexivity.
Qed.

(* ------------------------------------------------------------------ *)
(* binary64 times: bounded sweep (scans 0..50, every position)         *)
(* ------------------------------------------------------------------ *)
Definition cell_ok (t : inst) (m : Z) (s : nat) (p : Z) : Prop :=
  (Z.abs (time_ns B64 t m s p - time_ns Exact t m s p) <= 1)%Z /\
  ((p < m)%Z -> (time_ns B64 t m s p < time_ns B64 t m s (p + 1))%Z) /\
  (time_ns B64 t m s m < time_ns B64 t m (S s) 0)%Z /\
  Qabs (inject_Z (time_ns B64 t m (S s) p - time_ns B64 t m s p) - period t * 1000000000) <= 2.

Lemma sweep_sound t maxes nscans : sweep t maxes nscans = true ->
  forall m s p, In m maxes -> (s < nscans)%nat -> (0 <= p <= m)%Z -> cell_ok t m s p.
Proof.
  unfold sweep. cbv zeta. intros H m s p Hm Hs Hp.
  rewrite forallb_forall in H. specialize (H m Hm). rewrite forallb_forall in H.
  specialize (H s). assert (Is : In s (seq 0 nscans)) by (apply in_seq; lia). specialize (H Is).
  unfold sweep_line in H. apply andb_true_iff in H as [H1 H2].
  rewrite forallb_forall in H2. specialize (H2 p).
  assert (Ip : In p (zrange (m + 1))) by (apply In_zrange; lia). specialize (H2 Ip).
  unfold sweep_cell in H2. cbv zeta in H2.
  apply andb_true_iff in H2 as [H2 H5]. apply andb_true_iff in H2 as [H2 H3].
  unfold near in H5. apply andb_true_iff in H5 as [H5 H6].
  apply Qle_bool_iff in H5, H6.
  assert (EP : period_ns t == period t * 1000000000) by (unfold period_ns; apply Qred_correct).
  rewrite EP in H5, H6.
  repeat split.
  - apply Z.leb_le, H2.
  - intros L. apply Z.ltb_lt in L. rewrite L in H3. apply Z.ltb_lt, H3.
  - apply Z.ltb_lt, H1.
  - apply Qabs_Qle_condition. split; assumption.
Qed.

Definition sweep_ok (t : inst) : Prop :=
  forall m s p, (0 <= m < npos t)%Z -> (s < 50)%nat -> (0 <= p <= m)%Z -> cell_ok t m s p.

Lemma sweep_ok_fixed t : In t fixed_sampling -> sweep t [(npos t - 1)%Z] 50 = true -> sweep_ok t.
Proof.
  intros F H m s p Hm Hs Hp.
  assert (C : cell_ok t (npos t - 1) s p) by (apply (sweep_sound t _ _ H); [left; reflexivity|exact Hs|lia]).
  destruct C as (C1 & C2 & C3 & C4).
  assert (C2' : forall p', (0 <= p' < npos t - 1)%Z ->
            (time_ns B64 t (npos t - 1) s p' < time_ns B64 t (npos t - 1) s (p' + 1))%Z).
  { intros p' Hp'. apply (sweep_sound t _ _ H (npos t - 1)%Z s p'); [left; reflexivity|exact Hs|lia|lia]. }
  unfold cell_ok. rewrite !(fixed_sample _ t m (npos t - 1)) by exact F.
  repeat split; try assumption.
  - intros L. apply C2'. lia.
  - (* last selected sample m <= N-1, chain up to N-1 *)
    assert (Mono : forall k, (0 <= k)%Z -> (m + k <= npos t - 1)%Z ->
              (time_ns B64 t (npos t - 1) s m <= time_ns B64 t (npos t - 1) s (m + k))%Z).
    { intros k Hk. pattern k. apply natlike_ind; [| |exact Hk].
      - intros _. rewrite Z.add_0_r. lia.
      - intros x Hx IH Hb. specialize (IH ltac:(lia)).
        replace (m + Z.succ x)%Z with ((m + x) + 1)%Z by lia.
        specialize (C2' (m + x)%Z ltac:(lia)). lia. }
    specialize (Mono (npos t - 1 - m)%Z ltac:(lia) ltac:(lia)).
    replace (m + (npos t - 1 - m))%Z with (npos t - 1)%Z in Mono by lia. lia.
Qed.


Lemma sweep_ok_scanners t : In t scanners -> sweep_ok t.
Proof.
  intros H. cbn in H.
  destruct H as [<-|H]; [apply sweep_ok_fixed; [cbn; tauto|exact sweep_avhrr]|].
  destruct H as [<-|H]; [apply sweep_ok_fixed; [cbn; tauto|exact sweep_avhrr_gac]|].
  destruct H as [<-|H]; [apply sweep_ok_fixed; [cbn; tauto|exact sweep_amsua]|].
  destruct H as [<-|H]; [apply sweep_ok_fixed; [cbn; tauto|exact sweep_mhs]|].
  destruct H as [<-|H]; [apply sweep_ok_fixed; [cbn; tauto|exact sweep_hirs4]|].
  destruct H as [<-|H]; [apply sweep_ok_fixed; [cbn; tauto|exact sweep_atms]|].
  destruct H as [<-|H]; [apply sweep_ok_fixed; [cbn; tauto|exact sweep_mwhs2]|].
  destruct H as [<-|H]; [apply sweep_ok_fixed; [cbn; tauto|exact sweep_viirs]|].
  destruct H as [<-|[]].
  intros m s p Hm Hs Hp. apply (sweep_sound ascat _ _ sweep_ascat); [apply In_zrange; exact Hm|exact Hs|exact Hp].
Qed.

Lemma b64_mono t m s p q : sweep_ok t -> (0 <= m < npos t)%Z -> (s < 50)%nat -> (0 <= p <= q)%Z -> (q <= m)%Z ->
  (time_ns B64 t m s p <= time_ns B64 t m s q)%Z.
Proof.
  intros K Hm Hs Hpq Hq.
  replace q with (p + (q - p))%Z by lia.
  assert (Hk : (0 <= q - p)%Z) by lia. assert (Hb : (p + (q - p) <= m)%Z) by lia.
  revert Hk Hb. generalize (q - p)%Z. intros k Hk. pattern k. apply natlike_ind; [| |exact Hk].
  - intros _. rewrite Z.add_0_r. lia.
  - intros x Hx IH Hb. specialize (IH ltac:(lia)).
    replace (p + Z.succ x)%Z with ((p + x) + 1)%Z by lia.
    destruct (K m s (p + x)%Z Hm Hs ltac:(lia)) as (_ & C2 & _). specialize (C2 ltac:(lia)). lia.
Qed.

Lemma b64_time_increasing t m s p q : sweep_ok t -> (0 <= m < npos t)%Z -> (s < 50)%nat -> (0 <= p < q)%Z -> (q <= m)%Z ->
  (time_ns B64 t m s p < time_ns B64 t m s q)%Z.
Proof.
  intros K Hm Hs Hpq Hq.
  destruct (K m s p Hm Hs ltac:(lia)) as (_ & C2 & _). specialize (C2 ltac:(lia)).
  pose proof (b64_mono t m s (p + 1) q K Hm Hs ltac:(lia) Hq). lia.
Qed.

Lemma b64_line_before_next t m s p q : sweep_ok t -> (0 <= m < npos t)%Z -> (S s < 50)%nat ->
  (0 <= p <= m)%Z -> (0 <= q <= m)%Z ->
  (time_ns B64 t m s p < time_ns B64 t m (S s) q)%Z.
Proof.
  intros K Hm Hs Hp Hq.
  pose proof (b64_mono t m s p m K Hm ltac:(lia) ltac:(lia) ltac:(lia)) as A.
  pose proof (b64_mono t m (S s) 0 q K Hm Hs ltac:(lia) ltac:(lia)) as B.
  destruct (K m s p Hm ltac:(lia) Hp) as (_ & _ & C3 & _). lia.
Qed.

(* ------------------------------------------------------------------ *)
(* the statements of C19, over the list of modelled instruments        *)
(* ------------------------------------------------------------------ *)
Lemma scanners_ndet t : In t scanners -> (0 < ndet t)%nat.
Proof. intros H. apply (wf_ndet t (wf_scanners t H)). Qed.

Lemma c19_shape A t n ps :
  (length (angles t n ps) = 2%nat /\
   forall plane, In plane (angles t n ps) ->
     length plane = (n * ndet t)%nat /\ forall row, In row plane -> length row = length ps) /\
  (length (times A t n ps) = (n * ndet t)%nat /\
   forall row, In row (times A t n ps) -> length row = length ps).
Proof. split; [apply shape_angles|apply shape_times]. Qed.

Lemma c19_same_angles t n ps c L : In t scanners -> (L < n * ndet t)%nat ->
  nth L (nth c (angles t n ps) []) [] = nth (L mod ndet t) (nth c (angles t n ps) []) [].
Proof. intros H. apply same_angles_per_scan, scanners_ndet, H. Qed.

Lemma c19_bounds t n ps : In t scanners -> in_range t ps ->
  (forall row, In row (nth 0 (angles t n ps) []) -> forall a, In a row -> Qabs a <= swath t) /\
  (forall row, In row (nth 1 (angles t n ps) []) -> forall a, In a row -> Qabs a <= 1).
Proof.
  intros H R. split; [apply across_bounds; [apply wf_scanners, H|exact R]|apply along_bounds, wf_scanners, H].
Qed.

Lemma c19_antisym t n L p : In t scanners -> (L < n * ndet t)%nat -> (0 <= p < npos t)%Z ->
  let row := nth L (nth 0 (angles t n (full t)) []) [] in
  nth (Z.to_nat (npos t - 1 - p)) row 0 == - nth (Z.to_nat p) row 0.
Proof. intros H. apply antisymmetric_full, wf_scanners, H. Qed.

Lemma c19_antisym_along t d : In t scanners -> (d < ndet t)%nat -> along t (ndet t - 1 - d) == - along t d.
Proof. intros H. apply (wf_along_antisym t (wf_scanners t H)). Qed.

Lemma c19_time_increasing t m s p q : In t scanners -> (0 <= m < npos t)%Z -> (0 <= p < q)%Z ->
  (time_ns Exact t m s p < time_ns Exact t m s q)%Z.
Proof. intros H. apply time_increasing, wf_scanners, H. Qed.

Lemma c19_line_before_next t m s p q : In t scanners -> (0 <= p <= m)%Z -> (m < npos t)%Z -> (0 <= q)%Z ->
  (time_ns Exact t m s p < time_ns Exact t m (S s) q)%Z.
Proof. intros H. apply line_before_next, wf_scanners, H. Qed.

Lemma c19_scan_period t m s p : In t scanners -> (0 <= m < npos t)%Z -> (0 <= p)%Z ->
  Qabs (inject_Z (time_ns Exact t m (S s) p - time_ns Exact t m s p) - period t * 1000000000) < 1.
Proof. intros H. apply scan_period_ns, wf_scanners, H. Qed.

Lemma c19_exec A t n ps : In t scanners ->
  angles_exec t n ps = angles t n ps /\ times_exec A t n ps = times A t n ps.
Proof. intros H. split; [apply angles_exec_eq|apply times_exec_eq]; apply scanners_ndet, H. Qed.

Lemma c19_b64 t m s p : In t scanners -> (0 <= m < npos t)%Z -> (s < 50)%nat -> (0 <= p <= m)%Z ->
  (Z.abs (time_ns B64 t m s p - time_ns Exact t m s p) <= 1)%Z /\
  Qabs (inject_Z (time_ns B64 t m (S s) p - time_ns B64 t m s p) - period t * 1000000000) <= 2.
Proof.
  intros H Hm Hs Hp. destruct (sweep_ok_scanners t H m s p Hm Hs Hp) as (C1 & _ & _ & C4). split; assumption.
Qed.

Lemma c19_b64_increasing t m s p q : In t scanners -> (0 <= m < npos t)%Z -> (s < 50)%nat ->
  (0 <= p < q)%Z -> (q <= m)%Z -> (time_ns B64 t m s p < time_ns B64 t m s q)%Z.
Proof. intros H. apply b64_time_increasing, sweep_ok_scanners, H. Qed.

Lemma c19_b64_line_before_next t m s p q : In t scanners -> (0 <= m < npos t)%Z -> (S s < 50)%nat ->
  (0 <= p <= m)%Z -> (0 <= q <= m)%Z -> (time_ns B64 t m s p < time_ns B64 t m (S s) q)%Z.
Proof. intros H. apply b64_line_before_next, sweep_ok_scanners, H. Qed.

(* the selected maximum is one of the selected positions, hence in range *)
Lemma pmax_range t ps : in_range t ps -> (0 < npos t)%Z -> (0 <= pmax ps < npos t)%Z.
Proof.
  intros R HN. unfold in_range in R. induction R as [|p ps Hp R IH]; cbn [pmax fold_right]; [lia|].
  fold (pmax ps). lia.
Qed.
Lemma pmax_ge ps p : In p ps -> (p <= pmax ps)%Z.
Proof.
  induction ps as [|x ps IH]; [intros []|]. intros [->|H]; cbn [pmax fold_right]; fold (pmax ps); [lia|].
  specialize (IH H). lia.
Qed.
