(* C01: every exit of the propagation (near-earth-normal, e0 > 1e-4, leaf 1) returns the
   Spacetrack Report #3 finishing map applied to a value Ew of E + omega that satisfies Kepler's
   equation to 1e-12. *)
From Coq Require Import Reals Lra Lia.
From PyOrb.lib Require Import PyReal SgpOutcome.
From PyOrb.spec Require Import Spec_SGP4.
From PyOrb.gen Require Import Gen_sgp4 Gen_sgp4_compose.
From PyOrb.proofs Require Import P_Sgp4Init P_Sgp4Prop P_Sgp4Tree.
Open Scope R_scope.

Section Exits.
  Variables e0 incl_deg raan_deg argp_deg ma_deg n_revday bstar ts : R.
  Notation "'GA' f" := (f e0 incl_deg raan_deg argp_deg ma_deg n_revday bstar) (at level 9, f at level 9).
  Notation "'GB' f" := (f e0 incl_deg raan_deg argp_deg ma_deg n_revday bstar ts) (at level 9, f at level 9).
  Let El := E e0 incl_deg raan_deg argp_deg ma_deg n_revday bstar.
  Let T := mkT false ts.
  Let ec := ecl e0 incl_deg raan_deg argp_deg ma_deg n_revday bstar ts.

  Hypothesis Hleaf : GA gen_init_outcome = InitMode NearNorm 1.

  Lemma leaf1_He : 0 < e0 < 1.
  Proof. destruct (leaf1_facts _ _ _ _ _ _ _ Hleaf) as [[_ [A [B _]]] _]. lra. Qed.

  Lemma leaf1_Hperi : s_param < a0'' El * (1 - e0).
  Proof.
    destruct (leaf1_facts _ _ _ _ _ _ _ Hleaf) as [_ [_ [P _]]].
    rewrite (perigee_spec _ _ _ _ _ _ _ leaf1_He) in P.
    unfold perigee_km, aE, XKMPER in P. rewrite pe0 in P. fold El in P. unfold s_param, XKMPER, aE. lra.
  Qed.

  Lemma leaf1_Hth : 1 + theta El <> 0.
  Proof.
    destruct (leaf1_facts _ _ _ _ _ _ _ Hleaf) as [_ [_ [_ [_ G]]]].
    unfold gen_init_guard3 in G. rewrite ?cosIO_spec, ?oe_incl in G. half_angle_in G (P_Sgp4Init.i0 incl_deg).
    replace (cos (P_Sgp4Init.i0 incl_deg)) with (theta El) in G by reflexivity. fold El in G.
    intros Z. replace (2 * ((1 + theta El) / 2)) with (1 + theta El) in G by field.
    replace ((1 + theta El) / 2 * 2) with (1 + theta El) in G by field.
    rewrite Z, Rabs_R0 in G. lra.
  Qed.

  Lemma leaf1_e_gt : 1 / 10000 < e0.
  Proof. destruct (leaf1_facts _ _ _ _ _ _ _ Hleaf) as [_ [_ [_ [G _]]]]. exact G. Qed.

  (* the decay guards every returned state has passed *)
  Lemma prop_ok_guards j : GB gen_nn1_prop_outcome = PropOk j ->
    1 <= a El T /\ - (1 / 1000) <= e_unclamped El T /\ eL2 El T ec < 1.
  Proof.
    intros H.
    assert (G : 1 <= GB gen_nn0_a /\ (-1) / 1000 <= GB gen_nn0_guard0 /\ GB gen_nn0_elsq < 1).
    { revert H. unfold gen_nn1_prop_outcome. split_tree; intros H; try discriminate H; repeat split; lra. }
    destruct G as [G1 [G2 G3]].
    rewrite (a_spec _ _ _ _ _ _ _ _ leaf1_He leaf1_Hperi) in G1. fold El T in G1.
    rewrite (e_unclamped_spec _ _ _ _ _ _ _ _ leaf1_He leaf1_Hperi) in G2. fold El T in G2.
    assert (Ha : a El T <> 0) by lra.
    rewrite (elsq_spec _ _ _ _ _ _ _ _ leaf1_He leaf1_Hperi Ha) in G3. fold El T ec in G3.
    repeat split; lra.
  Qed.

  Ltac hyps := first [exact leaf1_He | exact leaf1_Hperi | exact leaf1_Hth].

  Lemma epw0_is_U : a El T <> 0 -> GB gen_nn1_epw_x0 = fmodR (U El T ec) (2 * PI).
  Proof.
    intros Ha. unfold gen_nn1_epw_x0.
    rewrite (xlt_spec _ _ _ _ _ _ _ _ leaf1_He leaf1_Hperi leaf1_Hth Ha).
    rewrite (xnode_spec _ _ _ _ _ _ _ _ leaf1_He leaf1_Hperi). reflexivity.
  Qed.

  (* generic statement for one exit: Ew is that exit's Newton iterate *)
  Definition exit_ok (Ew radius theta eqinc ascn rdk rfdk smjaxs : R) : Prop :=
    radius = rk El T ec Ew * XKMPER /\
    theta = uk El T ec Ew (atan2 (sinu El T ec Ew) (cosu El T ec Ew)) /\
    eqinc = ik El T ec Ew /\ ascn = Ok El T ec Ew /\
    rdk = rdotk El T ec Ew * (XKMPER / aE * min_per_day / 86400) /\
    rfdk = rfdotk El T ec Ew * (XKMPER / aE * min_per_day / 86400) /\
    smjaxs = a El T * XKMPER.

  Lemma fin_outputs Ew : 0 < a El T -> eL2 El T ec < 1 ->
    exit_ok Ew
      (gen_nn1_fin_out_radius e0 incl_deg raan_deg argp_deg ma_deg n_revday bstar ts Ew)
      (gen_nn1_fin_out_theta e0 incl_deg raan_deg argp_deg ma_deg n_revday bstar ts Ew)
      (gen_nn1_fin_out_eqinc e0 incl_deg raan_deg argp_deg ma_deg n_revday bstar ts Ew)
      (gen_nn1_fin_out_ascn e0 incl_deg raan_deg argp_deg ma_deg n_revday bstar ts Ew)
      (gen_nn1_fin_out_rdotk e0 incl_deg raan_deg argp_deg ma_deg n_revday bstar ts Ew)
      (gen_nn1_fin_out_rfdotk e0 incl_deg raan_deg argp_deg ma_deg n_revday bstar ts Ew)
      (gen_nn1_fin_out_smjaxs e0 incl_deg raan_deg argp_deg ma_deg n_revday bstar ts Ew).
  Proof.
    intros Ha HeL. unfold exit_ok.
    unfold gen_nn1_fin_out_radius, gen_nn1_fin_out_theta, gen_nn1_fin_out_eqinc, gen_nn1_fin_out_ascn,
           gen_nn1_fin_out_rdotk, gen_nn1_fin_out_rfdotk, gen_nn1_fin_out_smjaxs,
           gen_nn0_fin_out_radius, gen_nn0_fin_out_smjaxs, gen_nn0_x0_smjaxs.
    rewrite (fin_rk_spec _ _ _ _ _ _ _ _ leaf1_He leaf1_Hperi Ew Ha HeL).
    rewrite (fin_uk_spec _ _ _ _ _ _ _ _ leaf1_He leaf1_Hperi Ew Ha HeL).
    rewrite (fin_xinc_spec _ _ _ _ _ _ _ _ leaf1_He leaf1_Hperi Ew Ha HeL).
    rewrite (fin_xnodek_spec _ _ _ _ _ _ _ _ leaf1_He leaf1_Hperi Ew Ha HeL).
    rewrite (fin_rdotk_spec _ _ _ _ _ _ _ _ leaf1_He leaf1_Hperi Ew Ha HeL).
    rewrite (fin_rfdotk_spec _ _ _ _ _ _ _ _ leaf1_He leaf1_Hperi Ew Ha HeL).
    rewrite (a_spec _ _ _ _ _ _ _ _ leaf1_He leaf1_Hperi).
    fold El T ec. unfold XKMPER. repeat split; try reflexivity; field.
  Qed.

  Lemma fin_exit_test Ew : 0 < a El T -> eL2 El T ec < 1 ->
    Rabs ((GB gen_nn1_epw_x0 - Ew) + gen_nn1_fin_esinE e0 incl_deg raan_deg argp_deg ma_deg n_revday bstar ts Ew)
    = Rabs (kepler_residual El T ec (fmodR (U El T ec) (2 * PI)) Ew).
  Proof.
    intros Ha HeL. assert (Ha' : a El T <> 0) by lra.
    rewrite (epw0_is_U Ha'). unfold gen_nn1_fin_esinE.
    rewrite (fin_esinE_spec _ _ _ _ _ _ _ _ leaf1_He leaf1_Hperi Ew Ha). fold El T ec.
    unfold kepler_residual, esinE. f_equal. ring.
  Qed.

  Theorem exit_0 : GB gen_nn1_prop_outcome = PropOk 0 ->
    let Ew := GB gen_nn1_epw_x0 in
    Rabs (kepler_residual El T ec (fmodR (U El T ec) (2 * PI)) Ew) < 1 / 1000000000000 /\
    exit_ok Ew (GB gen_nn1_x0_radius) (GB gen_nn1_x0_theta) (GB gen_nn1_x0_eqinc) (GB gen_nn1_x0_ascn)
               (GB gen_nn1_x0_rdotk) (GB gen_nn1_x0_rfdotk) (GB gen_nn1_x0_smjaxs).
  Proof.
    intros H Ew. destruct (prop_ok_guards _ H) as [G1 [_ G3]]. assert (Ha : 0 < a El T) by lra.
    split.
    - rewrite <- (fin_exit_test Ew Ha G3). unfold Ew. rewrite <- compose_nn1_x0_exit_test.
      revert H. unfold gen_nn1_prop_outcome. split_tree; intros H; try discriminate H; assumption.
    - rewrite compose_nn1_x0_out_radius, compose_nn1_x0_out_theta, compose_nn1_x0_out_eqinc,
              compose_nn1_x0_out_ascn, compose_nn1_x0_out_rdotk, compose_nn1_x0_out_rfdotk,
              compose_nn1_x0_out_smjaxs.
      apply fin_outputs; assumption.
  Qed.

  Theorem exit_1 : GB gen_nn1_prop_outcome = PropOk 1 ->
    let Ew := GB gen_nn1_epw_x1 in
    Rabs (kepler_residual El T ec (fmodR (U El T ec) (2 * PI)) Ew) < 1 / 1000000000000 /\
    exit_ok Ew (GB gen_nn1_x1_radius) (GB gen_nn1_x1_theta) (GB gen_nn1_x1_eqinc) (GB gen_nn1_x1_ascn)
               (GB gen_nn1_x1_rdotk) (GB gen_nn1_x1_rfdotk) (GB gen_nn1_x1_smjaxs).
  Proof.
    intros H Ew. destruct (prop_ok_guards _ H) as [G1 [_ G3]]. assert (Ha : 0 < a El T) by lra.
    split.
    - rewrite <- (fin_exit_test Ew Ha G3). unfold Ew. rewrite <- compose_nn1_x1_exit_test.
      revert H. unfold gen_nn1_prop_outcome. split_tree; intros H; try discriminate H; assumption.
    - rewrite compose_nn1_x1_out_radius, compose_nn1_x1_out_theta, compose_nn1_x1_out_eqinc,
              compose_nn1_x1_out_ascn, compose_nn1_x1_out_rdotk, compose_nn1_x1_out_rfdotk,
              compose_nn1_x1_out_smjaxs.
      apply fin_outputs; assumption.
  Qed.

  Theorem exit_2 : GB gen_nn1_prop_outcome = PropOk 2 ->
    let Ew := GB gen_nn1_epw_x2 in
    Rabs (kepler_residual El T ec (fmodR (U El T ec) (2 * PI)) Ew) < 1 / 1000000000000 /\
    exit_ok Ew (GB gen_nn1_x2_radius) (GB gen_nn1_x2_theta) (GB gen_nn1_x2_eqinc) (GB gen_nn1_x2_ascn)
               (GB gen_nn1_x2_rdotk) (GB gen_nn1_x2_rfdotk) (GB gen_nn1_x2_smjaxs).
  Proof.
    intros H Ew. destruct (prop_ok_guards _ H) as [G1 [_ G3]]. assert (Ha : 0 < a El T) by lra.
    split.
    - rewrite <- (fin_exit_test Ew Ha G3). unfold Ew. rewrite <- compose_nn1_x2_exit_test.
      revert H. unfold gen_nn1_prop_outcome. split_tree; intros H; try discriminate H; assumption.
    - rewrite compose_nn1_x2_out_radius, compose_nn1_x2_out_theta, compose_nn1_x2_out_eqinc,
              compose_nn1_x2_out_ascn, compose_nn1_x2_out_rdotk, compose_nn1_x2_out_rfdotk,
              compose_nn1_x2_out_smjaxs.
      apply fin_outputs; assumption.
  Qed.

  Theorem exit_3 : GB gen_nn1_prop_outcome = PropOk 3 ->
    let Ew := GB gen_nn1_epw_x3 in
    Rabs (kepler_residual El T ec (fmodR (U El T ec) (2 * PI)) Ew) < 1 / 1000000000000 /\
    exit_ok Ew (GB gen_nn1_x3_radius) (GB gen_nn1_x3_theta) (GB gen_nn1_x3_eqinc) (GB gen_nn1_x3_ascn)
               (GB gen_nn1_x3_rdotk) (GB gen_nn1_x3_rfdotk) (GB gen_nn1_x3_smjaxs).
  Proof.
    intros H Ew. destruct (prop_ok_guards _ H) as [G1 [_ G3]]. assert (Ha : 0 < a El T) by lra.
    split.
    - rewrite <- (fin_exit_test Ew Ha G3). unfold Ew. rewrite <- compose_nn1_x3_exit_test.
      revert H. unfold gen_nn1_prop_outcome. split_tree; intros H; try discriminate H; assumption.
    - rewrite compose_nn1_x3_out_radius, compose_nn1_x3_out_theta, compose_nn1_x3_out_eqinc,
              compose_nn1_x3_out_ascn, compose_nn1_x3_out_rdotk, compose_nn1_x3_out_rfdotk,
              compose_nn1_x3_out_smjaxs.
      apply fin_outputs; assumption.
  Qed.

  Theorem exit_4 : GB gen_nn1_prop_outcome = PropOk 4 ->
    let Ew := GB gen_nn1_epw_x4 in
    Rabs (kepler_residual El T ec (fmodR (U El T ec) (2 * PI)) Ew) < 1 / 1000000000000 /\
    exit_ok Ew (GB gen_nn1_x4_radius) (GB gen_nn1_x4_theta) (GB gen_nn1_x4_eqinc) (GB gen_nn1_x4_ascn)
               (GB gen_nn1_x4_rdotk) (GB gen_nn1_x4_rfdotk) (GB gen_nn1_x4_smjaxs).
  Proof.
    intros H Ew. destruct (prop_ok_guards _ H) as [G1 [_ G3]]. assert (Ha : 0 < a El T) by lra.
    split.
    - rewrite <- (fin_exit_test Ew Ha G3). unfold Ew. rewrite <- compose_nn1_x4_exit_test.
      revert H. unfold gen_nn1_prop_outcome. split_tree; intros H; try discriminate H; assumption.
    - rewrite compose_nn1_x4_out_radius, compose_nn1_x4_out_theta, compose_nn1_x4_out_eqinc,
              compose_nn1_x4_out_ascn, compose_nn1_x4_out_rdotk, compose_nn1_x4_out_rfdotk,
              compose_nn1_x4_out_smjaxs.
      apply fin_outputs; assumption.
  Qed.

  Theorem exit_5 : GB gen_nn1_prop_outcome = PropOk 5 ->
    let Ew := GB gen_nn1_epw_x5 in
    Rabs (kepler_residual El T ec (fmodR (U El T ec) (2 * PI)) Ew) < 1 / 1000000000000 /\
    exit_ok Ew (GB gen_nn1_x5_radius) (GB gen_nn1_x5_theta) (GB gen_nn1_x5_eqinc) (GB gen_nn1_x5_ascn)
               (GB gen_nn1_x5_rdotk) (GB gen_nn1_x5_rfdotk) (GB gen_nn1_x5_smjaxs).
  Proof.
    intros H Ew. destruct (prop_ok_guards _ H) as [G1 [_ G3]]. assert (Ha : 0 < a El T) by lra.
    split.
    - rewrite <- (fin_exit_test Ew Ha G3). unfold Ew. rewrite <- compose_nn1_x5_exit_test.
      revert H. unfold gen_nn1_prop_outcome. split_tree; intros H; try discriminate H; assumption.
    - rewrite compose_nn1_x5_out_radius, compose_nn1_x5_out_theta, compose_nn1_x5_out_eqinc,
              compose_nn1_x5_out_ascn, compose_nn1_x5_out_rdotk, compose_nn1_x5_out_rfdotk,
              compose_nn1_x5_out_smjaxs.
      apply fin_outputs; assumption.
  Qed.

  Theorem exit_6 : GB gen_nn1_prop_outcome = PropOk 6 ->
    let Ew := GB gen_nn1_epw_x6 in
    Rabs (kepler_residual El T ec (fmodR (U El T ec) (2 * PI)) Ew) < 1 / 1000000000000 /\
    exit_ok Ew (GB gen_nn1_x6_radius) (GB gen_nn1_x6_theta) (GB gen_nn1_x6_eqinc) (GB gen_nn1_x6_ascn)
               (GB gen_nn1_x6_rdotk) (GB gen_nn1_x6_rfdotk) (GB gen_nn1_x6_smjaxs).
  Proof.
    intros H Ew. destruct (prop_ok_guards _ H) as [G1 [_ G3]]. assert (Ha : 0 < a El T) by lra.
    split.
    - rewrite <- (fin_exit_test Ew Ha G3). unfold Ew. rewrite <- compose_nn1_x6_exit_test.
      revert H. unfold gen_nn1_prop_outcome. split_tree; intros H; try discriminate H; assumption.
    - rewrite compose_nn1_x6_out_radius, compose_nn1_x6_out_theta, compose_nn1_x6_out_eqinc,
              compose_nn1_x6_out_ascn, compose_nn1_x6_out_rdotk, compose_nn1_x6_out_rfdotk,
              compose_nn1_x6_out_smjaxs.
      apply fin_outputs; assumption.
  Qed.

  Theorem exit_7 : GB gen_nn1_prop_outcome = PropOk 7 ->
    let Ew := GB gen_nn1_epw_x7 in
    Rabs (kepler_residual El T ec (fmodR (U El T ec) (2 * PI)) Ew) < 1 / 1000000000000 /\
    exit_ok Ew (GB gen_nn1_x7_radius) (GB gen_nn1_x7_theta) (GB gen_nn1_x7_eqinc) (GB gen_nn1_x7_ascn)
               (GB gen_nn1_x7_rdotk) (GB gen_nn1_x7_rfdotk) (GB gen_nn1_x7_smjaxs).
  Proof.
    intros H Ew. destruct (prop_ok_guards _ H) as [G1 [_ G3]]. assert (Ha : 0 < a El T) by lra.
    split.
    - rewrite <- (fin_exit_test Ew Ha G3). unfold Ew. rewrite <- compose_nn1_x7_exit_test.
      revert H. unfold gen_nn1_prop_outcome. split_tree; intros H; try discriminate H; assumption.
    - rewrite compose_nn1_x7_out_radius, compose_nn1_x7_out_theta, compose_nn1_x7_out_eqinc,
              compose_nn1_x7_out_ascn, compose_nn1_x7_out_rdotk, compose_nn1_x7_out_rfdotk,
              compose_nn1_x7_out_smjaxs.
      apply fin_outputs; assumption.
  Qed.

  Theorem exit_8 : GB gen_nn1_prop_outcome = PropOk 8 ->
    let Ew := GB gen_nn1_epw_x8 in
    Rabs (kepler_residual El T ec (fmodR (U El T ec) (2 * PI)) Ew) < 1 / 1000000000000 /\
    exit_ok Ew (GB gen_nn1_x8_radius) (GB gen_nn1_x8_theta) (GB gen_nn1_x8_eqinc) (GB gen_nn1_x8_ascn)
               (GB gen_nn1_x8_rdotk) (GB gen_nn1_x8_rfdotk) (GB gen_nn1_x8_smjaxs).
  Proof.
    intros H Ew. destruct (prop_ok_guards _ H) as [G1 [_ G3]]. assert (Ha : 0 < a El T) by lra.
    split.
    - rewrite <- (fin_exit_test Ew Ha G3). unfold Ew. rewrite <- compose_nn1_x8_exit_test.
      revert H. unfold gen_nn1_prop_outcome. split_tree; intros H; try discriminate H; assumption.
    - rewrite compose_nn1_x8_out_radius, compose_nn1_x8_out_theta, compose_nn1_x8_out_eqinc,
              compose_nn1_x8_out_ascn, compose_nn1_x8_out_rdotk, compose_nn1_x8_out_rfdotk,
              compose_nn1_x8_out_smjaxs.
      apply fin_outputs; assumption.
  Qed.

  Theorem exit_9 : GB gen_nn1_prop_outcome = PropOk 9 ->
    let Ew := GB gen_nn1_epw_x9 in
    Rabs (kepler_residual El T ec (fmodR (U El T ec) (2 * PI)) Ew) < 1 / 1000000000000 /\
    exit_ok Ew (GB gen_nn1_x9_radius) (GB gen_nn1_x9_theta) (GB gen_nn1_x9_eqinc) (GB gen_nn1_x9_ascn)
               (GB gen_nn1_x9_rdotk) (GB gen_nn1_x9_rfdotk) (GB gen_nn1_x9_smjaxs).
  Proof.
    intros H Ew. destruct (prop_ok_guards _ H) as [G1 [_ G3]]. assert (Ha : 0 < a El T) by lra.
    split.
    - rewrite <- (fin_exit_test Ew Ha G3). unfold Ew. rewrite <- compose_nn1_x9_exit_test.
      revert H. unfold gen_nn1_prop_outcome. split_tree; intros H; try discriminate H; assumption.
    - rewrite compose_nn1_x9_out_radius, compose_nn1_x9_out_theta, compose_nn1_x9_out_eqinc,
              compose_nn1_x9_out_ascn, compose_nn1_x9_out_rdotk, compose_nn1_x9_out_rfdotk,
              compose_nn1_x9_out_smjaxs.
      apply fin_outputs; assumption.
  Qed.

  (* exit 10: the loop ran its 10 iterations without meeting the tolerance; the state is still the
     finishing map at the 10th iterate's predecessor (the code keeps the last computed sines) *)
  Theorem exit_10 : GB gen_nn1_prop_outcome = PropOk 10 ->
    let Ew := GB gen_nn1_epw_x9 in
    exit_ok Ew (GB gen_nn1_x10_radius) (GB gen_nn1_x10_theta) (GB gen_nn1_x10_eqinc) (GB gen_nn1_x10_ascn)
               (GB gen_nn1_x10_rdotk) (GB gen_nn1_x10_rfdotk) (GB gen_nn1_x10_smjaxs).
  Proof.
    intros H Ew. destruct (prop_ok_guards _ H) as [G1 [_ G3]]. assert (Ha : 0 < a El T) by lra.
    rewrite compose_nn1_x10_out_radius, compose_nn1_x10_out_theta, compose_nn1_x10_out_eqinc,
            compose_nn1_x10_out_ascn, compose_nn1_x10_out_rdotk, compose_nn1_x10_out_rfdotk,
            compose_nn1_x10_out_smjaxs.
    apply fin_outputs; assumption.
  Qed.
End Exits.
