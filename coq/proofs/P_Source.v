From Coq Require Import List Bool Arith Lia.
From PyOrb.model Require Import M_Source.
Import ListNotations.

(* ------------------------------------------------------------------ *)
(* newest-by-change-time, for ARBITRARY file lists                    *)
(* ------------------------------------------------------------------ *)
Definition nstep (best : option (nat * nat)) (f : nat * nat) : option (nat * nat) :=
  match best with
  | None => Some f
  | Some b => if snd b <? snd f then Some f else Some b
  end.

Lemma newest_fold files : newest files = fold_left nstep files None.
Proof. reflexivity. Qed.

Lemma fold_nstep files : forall best,
  match fold_left nstep files best with
  | None => best = None /\ files = []
  | Some f => (In f files \/ best = Some f)
              /\ (forall g, In g files -> snd g <= snd f)
              /\ (forall b, best = Some b -> snd b <= snd f)
  end.
Proof.
  induction files as [|x t IH]; intros best; cbn [fold_left].
  - destruct best as [b|].
    + split; [right; reflexivity|]. split; [intros g []|]. intros b' E. inversion E. lia.
    + split; reflexivity.
  - specialize (IH (nstep best x)).
    destruct (fold_left nstep t (nstep best x)) as [f|].
    + destruct IH as (Hin & Hmax & Hbest).
      assert (Hx : snd x <= snd f).
      { destruct best as [b|]; cbn [nstep] in Hbest.
        - destruct (snd b <? snd x) eqn:L.
          + apply (Hbest x). reflexivity.
          + apply Nat.ltb_ge in L. specialize (Hbest b eq_refl). lia.
        - apply (Hbest x). reflexivity. }
      split; [|split].
      * destruct Hin as [Hin|Hin]; [left; right; exact Hin|].
        destruct best as [b|]; cbn [nstep] in Hin.
        -- destruct (snd b <? snd x); inversion Hin; subst; [left; left; reflexivity|right; reflexivity].
        -- inversion Hin. left. left. reflexivity.
      * intros g [->|Hg]; [exact Hx|apply Hmax, Hg].
      * intros b ->. cbn [nstep] in Hbest.
        destruct (snd b <? snd x) eqn:L.
        -- apply Nat.ltb_lt in L. lia.
        -- apply (Hbest b). reflexivity.
    + destruct IH as (Hn & _). destruct best as [b|]; cbn [nstep] in Hn.
      * destruct (snd b <? snd x); discriminate.
      * discriminate.
Qed.

Lemma newest_is_max files f :
  newest files = Some f -> In f files /\ forall g, In g files -> snd g <= snd f.
Proof.
  intros H. rewrite newest_fold in H. pose proof (fold_nstep files None) as P.
  rewrite H in P. destruct P as ([Hin|Hin] & Hmax & _); [|discriminate].
  split; assumption.
Qed.

Lemma newest_none files : newest files = None <-> files = [].
Proof.
  split.
  - intros H. rewrite newest_fold in H. pose proof (fold_nstep files None) as P.
    rewrite H in P. apply P.
  - intros ->. reflexivity.
Qed.

(* ------------------------------------------------------------------ *)
(* the property text, stated independently of the code structure      *)
(* ------------------------------------------------------------------ *)
Definition both_lines (c : cfg) : bool := match c_lines c with LBoth => true | _ => false end.
Definition file_given (c : cfg) : bool := match c_file c with FNone => false | _ => true end.
Definition tles_set (c : cfg) : bool := match c_tles c with TUnset => false | _ => true end.
Definition local_configured (c : cfg) : bool := both_lines c || file_given c || tles_set c.

(* "from the two given lines if both are given, else from the given file or stream, else from the
    newest file matching TLES, and from the network only if none of these is provided" *)
Definition spec_source (c : cfg) : source :=
  if both_lines c then SLines
  else match c_file c with
       | FPath => SPath | FStream => SStream | FXml => SXml
       | FNone =>
           match c_tles c with
           | TSeveral => STles 1           (* file 1 carries the largest change time (30) *)
           | TNothing => SNoSource
           | TUnset => SNet
           end
       end.

Lemma precedence c : o_source (read_tle c) = spec_source c.
Proof. destruct c as [[] [] [] p q h]; reflexivity. Qed.

(* the file picked in the TSeveral configurations is a newest one *)
Lemma several_is_newest c i :
  o_source (read_tle c) = STles i ->
  exists files ct, tles_glob (c_tles c) = Some files /\ In (i, ct) files /\
                   forall g, In g files -> snd g <= ct.
Proof.
  destruct c as [[] [] [] p q h]; cbn; intros H; try discriminate;
    inversion H; subst; exists [(0, 20); (1, 30); (2, 10)], 30;
    (split; [reflexivity|]); (split; [cbn; tauto|]);
    intros g Hg; cbn in Hg; intuition (subst; cbn; lia).
Qed.

Lemma lines_win c : both_lines c = true -> read_tle c = mkout SLines 0 None.
Proof. destruct c as [[] f t p q h]; cbn; intros H; try discriminate; reflexivity. Qed.

Lemma no_network_if_local c :
  local_configured c = true -> o_net (read_tle c) = 0 /\ o_source (read_tle c) <> SNet.
Proof. destruct c as [[] [] [] p q h]; cbn; intros H; try discriminate; split; (reflexivity || discriminate). Qed.

Lemma network_iff_nothing_local c :
  o_net (read_tle c) > 0 <-> local_configured c = false.
Proof.
  destruct c as [[] [] [] p q h]; cbn; split; intros H; try discriminate; try reflexivity; try lia.
Qed.

Lemma network_reads_all_urls c :
  local_configured c = false -> o_source (read_tle c) = SNet /\ o_net (read_tle c) = n_tle_urls.
Proof. destruct c as [[] [] [] p q h]; cbn; intros H; try discriminate; split; reflexivity. Qed.

(* "even if it yields nothing": failure, never a download *)
Lemma local_yields_nothing c :
  local_configured c = true -> both_lines c = false ->
  (c_has c = false \/ c_tles c = TNothing /\ file_given c = false) ->
  o_exn (read_tle c) <> None /\ o_net (read_tle c) = 0.
Proof.
  destruct c as [[] [] [] p q []]; cbn; intros H B [E|[E1 E2]]; try discriminate;
    split; (reflexivity || discriminate).
Qed.

Lemma tles_nothing_valueerror c :
  both_lines c = false -> file_given c = false -> c_tles c = TNothing ->
  read_tle c = mkout SNoSource 0 (Some EValueError).
Proof. destruct c as [[] [] [] p q h]; cbn; intros; try discriminate; reflexivity. Qed.

(* ------------------------------------------------------------------ *)
(* platforms registry                                                 *)
(* ------------------------------------------------------------------ *)
Lemma platforms_file p q :
  get_platforms_filepath p q true = inl (match p with PWithFile => DCustom | _ => DPkg end).
Proof. destruct p, q; reflexivity. Qed.

Lemma ppp_irrelevant p q q' pkg_ok :
  get_platforms_filepath p q pkg_ok = get_platforms_filepath p q' pkg_ok.
Proof. destruct p, q, q', pkg_ok; reflexivity. Qed.

Lemma platforms_oserror p q :
  get_platforms_filepath p q false = inr EOSError <-> p <> PWithFile.
Proof. destruct p, q; cbn; split; intros H; try discriminate; try reflexivity; try congruence. Qed.

(* ------------------------------------------------------------------ *)
(* the enumeration is complete (used by the check: 216 x 2 rows)      *)
(* ------------------------------------------------------------------ *)
Lemma all_cfgs_complete c : In c all_cfgs.
Proof.
  destruct c as [l f t p q h]. unfold all_cfgs.
  apply in_flat_map; exists l; split; [destruct l; cbn; tauto|].
  apply in_flat_map; exists f; split; [destruct f; cbn; tauto|].
  apply in_flat_map; exists t; split; [destruct t; cbn; tauto|].
  apply in_flat_map; exists p; split; [destruct p; cbn; tauto|].
  apply in_flat_map; exists q; split; [destruct q; cbn; tauto|].
  apply in_map_iff; exists h; split; [reflexivity|destruct h; cbn; tauto].
Qed.

Lemma all_cfgs_length : length all_cfgs = 2 * 216.
Proof. reflexivity. Qed.
