From Coq Require Import Reals Lra Lia Nsatz Psatz.
From PyOrb.lib Require Import PyReal.
From PyOrb.spec Require Import Spec_Rot.
From PyOrb.gen Require Import Gen_geoloc.
From PyOrb.proofs Require Import P_Rot.
Open Scope R_scope.

(* ====================================================================================== *)
(*  compute_pixels: the ray pos + d * view against the ellipsoid (a, a, b) = WGS-84       *)
(* ====================================================================================== *)

(* the code's scaled quantities in terms of the ellipsoid's quadratic form *)
Definition qform (x y z : R) : R := ellipsoid_form A_wgs84 B_wgs84 x y z.                (* csq at pos *)
Definition bform (x y z lx ly lz : R) : R :=                                             (* polar form *)
  x * lx / (A_wgs84 * A_wgs84) + y * ly / (A_wgs84 * A_wgs84) + z * lz / (B_wgs84 * B_wgs84).

Lemma lsq_is_form x y z lx ly lz : gen_pixel_lsq x y z lx ly lz = qform lx ly lz.
Proof. unfold gen_pixel_lsq, qform, ellipsoid_form, A_wgs84, B_wgs84. cbv zeta. field. Qed.

Lemma ldotc_is_form x y z lx ly lz : gen_pixel_ldotc x y z lx ly lz = - bform x y z lx ly lz.
Proof. unfold gen_pixel_ldotc, bform, A_wgs84, B_wgs84. cbv zeta. field. Qed.

Lemma disc_is_form x y z lx ly lz :
  gen_pixel_disc x y z lx ly lz
  = bform x y z lx ly lz * bform x y z lx ly lz - qform lx ly lz * (qform x y z - 1).
Proof.
  unfold gen_pixel_disc. cbv zeta. rewrite lsq_is_form, ldotc_is_form.
  unfold qform, bform, ellipsoid_form, A_wgs84, B_wgs84. field.
Qed.

(* the quadratic form along the line pos + d * view *)
Lemma form_on_line x y z lx ly lz d :
  qform (x + d * lx) (y + d * ly) (z + d * lz)
  = qform x y z + 2 * d * bform x y z lx ly lz + d * d * qform lx ly lz.
Proof. unfold qform, bform, ellipsoid_form, A_wgs84, B_wgs84. field. Qed.

Lemma pixel_on_ray x y z lx ly lz :
  let d1 := gen_pixel_d1 x y z lx ly lz in
  gen_pixel_x x y z lx ly lz = x + d1 * lx /\
  gen_pixel_y x y z lx ly lz = y + d1 * ly /\
  gen_pixel_z x y z lx ly lz = z + d1 * lz.
Proof. cbv zeta. unfold gen_pixel_x, gen_pixel_y, gen_pixel_z. repeat split; ring. Qed.

(* the other root of the quadratic *)
Definition pixel_d2 (x y z lx ly lz : R) : R :=
  (gen_pixel_ldotc x y z lx ly lz + sqrt (gen_pixel_disc x y z lx ly lz)) / gen_pixel_lsq x y z lx ly lz.

Section Ray.
  Variables x y z lx ly lz : R.
  Let L := gen_pixel_ldotc x y z lx ly lz.
  Let Q := gen_pixel_lsq x y z lx ly lz.
  Let D := gen_pixel_disc x y z lx ly lz.
  Let d1 := gen_pixel_d1 x y z lx ly lz.
  Let d2 := pixel_d2 x y z lx ly lz.
  Hypothesis HQ : 0 < Q.

  Lemma line_form d : qform (x + d * lx) (y + d * ly) (z + d * lz) - 1 = (Q * d - L) * (Q * d - L) / Q - D / Q.
  Proof.
    rewrite form_on_line. unfold D, L, Q in *.
    rewrite disc_is_form. rewrite ldotc_is_form. rewrite lsq_is_form in *.
    field. lra.
  Qed.

  Lemma roots_on_ellipsoid :
    0 <= D ->
    qform (x + d1 * lx) (y + d1 * ly) (z + d1 * lz) = 1 /\
    qform (x + d2 * lx) (y + d2 * ly) (z + d2 * lz) = 1.
  Proof.
    intros HD. pose proof (sqrt_sqrt D HD) as HS.
    split; apply Rminus_diag_uniq; rewrite line_form.
    - unfold d1, gen_pixel_d1. fold L Q D.
      replace (Q * ((L - sqrt D) / Q) - L) with (- sqrt D) by (field; lra).
      replace (- sqrt D * - sqrt D) with (sqrt D * sqrt D) by ring. rewrite HS. field. lra.
    - unfold d2, pixel_d2. fold L Q D.
      replace (Q * ((L + sqrt D) / Q) - L) with (sqrt D) by (field; lra).
      rewrite HS. field. lra.
  Qed.

  Lemma only_roots d :
    0 <= D -> qform (x + d * lx) (y + d * ly) (z + d * lz) = 1 -> d = d1 \/ d = d2.
  Proof.
    intros HD H. apply Rminus_diag_eq in H. rewrite line_form in H.
    pose proof (sqrt_sqrt D HD) as HS.
    assert (E : (Q * d - L - sqrt D) * (Q * d - L + sqrt D) = 0).
    { replace ((Q * d - L - sqrt D) * (Q * d - L + sqrt D))
        with (Q * ((Q * d - L) * (Q * d - L) / Q - D / Q) + (D - sqrt D * sqrt D)) by (field; lra).
      rewrite H, HS. ring. }
    apply Rmult_integral in E. destruct E as [E|E].
    - right. unfold d2, pixel_d2. fold L Q D. apply Rmult_eq_reg_l with Q; [|lra].
      replace (Q * ((L + sqrt D) / Q)) with (L + sqrt D) by (field; lra). lra.
    - left. unfold d1, gen_pixel_d1. fold L Q D. apply Rmult_eq_reg_l with Q; [|lra].
      replace (Q * ((L - sqrt D) / Q)) with (L - sqrt D) by (field; lra). lra.
  Qed.

  Lemma near_root : d1 <= d2.
  Proof.
    unfold d1, d2, gen_pixel_d1, pixel_d2. fold L Q D.
    pose proof (sqrt_pos D) as HS.
    apply Rmult_le_reg_r with Q; [exact HQ|].
    replace ((L - sqrt D) / Q * Q) with (L - sqrt D) by (field; lra).
    replace ((L + sqrt D) / Q * Q) with (L + sqrt D) by (field; lra). lra.
  Qed.

  (* no real point of the line is on the ellipsoid when the discriminant is negative *)
  Lemma miss d : D < 0 -> qform (x + d * lx) (y + d * ly) (z + d * lz) <> 1.
  Proof.
    intros HD H. apply Rminus_diag_eq in H. rewrite line_form in H.
    assert (0 <= (Q * d - L) * (Q * d - L) / Q).
    { apply Rmult_le_pos; [apply Rle_0_sqr|]. left. apply Rinv_0_lt_compat. exact HQ. }
    assert (0 < - D / Q) by (apply Rmult_lt_0_compat; [lra|apply Rinv_0_lt_compat; exact HQ]).
    replace (D / Q) with (- (- D / Q)) in H by (field; lra). lra.
  Qed.

  (* <gradient of the form at the pixel, sat - pixel> = 2 d1 sqrt(D) *)
  Lemma horizon_value :
    0 <= D ->
    let px := x + d1 * lx in let py := y + d1 * ly in let pz := z + d1 * lz in
    2 * bform px py pz (x - px) (y - py) (z - pz) = 2 * d1 * sqrt D.
  Proof.
    intros HD. cbv zeta.
    replace (2 * bform (x + d1 * lx) (y + d1 * ly) (z + d1 * lz) (x - (x + d1 * lx)) (y - (y + d1 * ly)) (z - (z + d1 * lz)))
      with (- 2 * d1 * (bform x y z lx ly lz + d1 * qform lx ly lz))
      by (unfold bform, qform, ellipsoid_form, A_wgs84, B_wgs84; field).
    assert (EL : bform x y z lx ly lz = - L) by (unfold L; rewrite ldotc_is_form; ring).
    assert (EQ : qform lx ly lz = Q) by (unfold Q; rewrite lsq_is_form; ring).
    rewrite EL, EQ.
    assert (E1 : d1 * Q = L - sqrt D).
    { unfold d1, gen_pixel_d1. fold L Q D. field. lra. }
    replace (- 2 * d1 * (- L + d1 * Q)) with (- 2 * d1 * (- L + (L - sqrt D))) by (rewrite <- E1; ring).
    ring.
  Qed.

  (* satellite outside the ellipsoid and looking towards it: the chosen root is in front *)
  Lemma forward : 0 <= D -> 1 < qform x y z -> 0 < L -> 0 < d1.
  Proof.
    intros HD Hout HL.
    assert (HD2 : D = L * L - Q * (qform x y z - 1)).
    { unfold D, L, Q. rewrite disc_is_form, ldotc_is_form, lsq_is_form. ring. }
    assert (Hlt : D < L * L) by nra.
    assert (HS : sqrt D < L).
    { rewrite <- (sqrt_square L) by lra. apply sqrt_lt_1_alt. split; lra. }
    unfold d1, gen_pixel_d1. fold L Q D.
    apply Rmult_lt_0_compat; [lra|apply Rinv_0_lt_compat; exact HQ].
  Qed.
End Ray.

(* ====================================================================================== *)
(*  ScanGeometry.vectors: three successive rotations of the normalised nadir                *)
(* ====================================================================================== *)

(* what the generated definitions are, structurally (the generator records the arguments and
   results of the three qrotate calls; these equalities are checked by conversion) *)
Lemma vectors_is_rot3 px py ux uy uz lat f0 f1 roll pitch yaw :
  let r2x := gen_vec_rot2_x px py ux uy uz lat f0 f1 roll pitch in
  let r2y := gen_vec_rot2_y px py ux uy uz lat f0 f1 roll pitch in
  let r2z := gen_vec_rot2_z px py ux uy uz lat f0 f1 roll pitch in
  let nx := gen_vec_nadir_x px py lat in let ny := gen_vec_nadir_y px py lat in
  let nz := gen_vec_nadir_z px py lat in
  gen_vectors_x px py ux uy uz lat f0 f1 roll pitch yaw = gen_qrotate_x r2x r2y r2z nx ny nz yaw /\
  gen_vectors_y px py ux uy uz lat f0 f1 roll pitch yaw = gen_qrotate_y r2x r2y r2z nx ny nz yaw /\
  gen_vectors_z px py ux uy uz lat f0 f1 roll pitch yaw = gen_qrotate_z r2x r2y r2z nx ny nz yaw.
Proof. cbv zeta. repeat split; variant_eq. Qed.

Lemma rot2_is_rot px py ux uy uz lat f0 f1 roll pitch :
  let r1x := gen_vec_rot1_x px py ux uy uz lat f0 roll in
  let r1y := gen_vec_rot1_y px py ux uy uz lat f0 roll in
  let r1z := gen_vec_rot1_z px py ux uy uz lat f0 roll in
  let yx := gen_vec_yaxis_x px py ux uy uz lat in let yy := gen_vec_yaxis_y px py ux uy uz lat in
  let yz := gen_vec_yaxis_z px py ux uy uz lat in
  gen_vec_rot2_x px py ux uy uz lat f0 f1 roll pitch = gen_qrotate_x r1x r1y r1z yx yy yz (f1 + pitch) /\
  gen_vec_rot2_y px py ux uy uz lat f0 f1 roll pitch = gen_qrotate_y r1x r1y r1z yx yy yz (f1 + pitch) /\
  gen_vec_rot2_z px py ux uy uz lat f0 f1 roll pitch = gen_qrotate_z r1x r1y r1z yx yy yz (f1 + pitch).
Proof. cbv zeta. repeat split; variant_eq. Qed.

Lemma rot1_is_rot px py ux uy uz lat f0 roll :
  let nx := gen_vec_nadir_x px py lat in let ny := gen_vec_nadir_y px py lat in
  let nz := gen_vec_nadir_z px py lat in
  let xx := gen_vec_xaxis_x ux uy uz in let xy := gen_vec_xaxis_y ux uy uz in
  let xz := gen_vec_xaxis_z ux uy uz in
  gen_vec_rot1_x px py ux uy uz lat f0 roll = gen_qrotate_x nx ny nz xx xy xz (f0 + roll) /\
  gen_vec_rot1_y px py ux uy uz lat f0 roll = gen_qrotate_y nx ny nz xx xy xz (f0 + roll) /\
  gen_vec_rot1_z px py ux uy uz lat f0 roll = gen_qrotate_z nx ny nz xx xy xz (f0 + roll).
Proof. cbv zeta. repeat split; variant_eq. Qed.

(* nadir = subpoint(-pos) / |subpoint(-pos)| ; x axis = vel/|vel| ; y axis = (nadir x vel)/|nadir x vel| *)
Lemma nadir_is_normalised_subpoint px py pz lat :
  let sx := gen_subpoint_x (- px) (- py) (- pz) lat in
  let sy := gen_subpoint_y (- px) (- py) (- pz) lat in
  let sz := gen_subpoint_z (- px) (- py) (- pz) lat in
  gen_vec_nadir_x px py lat = sx / norm3 sx sy sz /\
  gen_vec_nadir_y px py lat = sy / norm3 sx sy sz /\
  gen_vec_nadir_z px py lat = sz / norm3 sx sy sz.
Proof.
  cbv zeta. unfold gen_vec_nadir_x, gen_vec_nadir_y, gen_vec_nadir_z, gen_subpoint_x, gen_subpoint_y, gen_subpoint_z.
  cbv zeta. rewrite ?norm3_pow. unfold Rdiv. repeat split; ring.
Qed.

Lemma xaxis_is_normalised ux uy uz :
  gen_vec_xaxis_x ux uy uz = ux / norm3 ux uy uz /\
  gen_vec_xaxis_y ux uy uz = uy / norm3 ux uy uz /\
  gen_vec_xaxis_z ux uy uz = uz / norm3 ux uy uz.
Proof.
  unfold gen_vec_xaxis_x, gen_vec_xaxis_y, gen_vec_xaxis_z. cbv zeta.
  rewrite ?norm3_pow. unfold Rdiv. repeat split; ring.
Qed.

Lemma yaxis_is_normalised px py ux uy uz lat :
  let nx := gen_vec_nadir_x px py lat in let ny := gen_vec_nadir_y px py lat in
  let nz := gen_vec_nadir_z px py lat in
  let cx := cross_x nx ny nz ux uy uz in let cy := cross_y nx ny nz ux uy uz in
  let cz := cross_z nx ny nz ux uy uz in
  gen_vec_yaxis_x px py ux uy uz lat = cx / norm3 cx cy cz /\
  gen_vec_yaxis_y px py ux uy uz lat = cy / norm3 cx cy cz /\
  gen_vec_yaxis_z px py ux uy uz lat = cz / norm3 cx cy cz.
Proof.
  cbv zeta. unfold gen_vec_yaxis_x, gen_vec_yaxis_y, gen_vec_yaxis_z, cross_x, cross_y, cross_z. cbv zeta.
  rewrite ?norm3_pow. unfold Rdiv. repeat split; ring.
Qed.

Lemma normalised_unit a b c :
  nonzero3 a b c ->
  let n := norm3 a b c in
  norm3 (a / n) (b / n) (c / n) = 1 /\ nonzero3 (a / n) (b / n) (c / n).
Proof.
  intros H n. destruct (unit_axis a b c H) as [Hn Hu]. fold n in Hn, Hu.
  assert (E : norm3 (a / n) (b / n) (c / n) = 1) by (unfold norm3; rewrite Hu; apply sqrt_1).
  split; [exact E|].
  intros (Ea & Eb & Ec). rewrite Ea, Eb, Ec in Hu. lra.
Qed.

Lemma subpoint_nonzero x y z lat :
  nonzero3 (gen_subpoint_x x y z lat) (gen_subpoint_y x y z lat) (gen_subpoint_z x y z lat).
Proof.
  pose proof (subpoint_on_ellipsoid x y z lat) as H.
  unfold on_ellipsoid, ellipsoid_form in H.
  intros (Ea & Eb & Ec). rewrite Ea, Eb, Ec in H.
  unfold A_wgs84, B_grs80 in H. lra.
Qed.

Lemma nadir_unit px py lat :
  norm3 (gen_vec_nadir_x px py lat) (gen_vec_nadir_y px py lat) (gen_vec_nadir_z px py lat) = 1 /\
  nonzero3 (gen_vec_nadir_x px py lat) (gen_vec_nadir_y px py lat) (gen_vec_nadir_z px py lat).
Proof.
  destruct (nadir_is_normalised_subpoint px py 0 lat) as (E1 & E2 & E3). cbv zeta in E1, E2, E3.
  rewrite E1, E2, E3. apply normalised_unit. apply subpoint_nonzero.
Qed.

Section Vectors.
  Variables px py ux uy uz lat : R.
  Let nx := gen_vec_nadir_x px py lat.
  Let ny := gen_vec_nadir_y px py lat.
  Let nz := gen_vec_nadir_z px py lat.
  Hypothesis Hvel : nonzero3 ux uy uz.                                        (* velocity is not zero *)
  Hypothesis Hcross : nonzero3 (cross_x nx ny nz ux uy uz) (cross_y nx ny nz ux uy uz) (cross_z nx ny nz ux uy uz).
                                                                           (* velocity is not vertical *)
  Lemma xaxis_nonzero : nonzero3 (gen_vec_xaxis_x ux uy uz) (gen_vec_xaxis_y ux uy uz) (gen_vec_xaxis_z ux uy uz).
  Proof.
    destruct (xaxis_is_normalised ux uy uz) as (E1 & E2 & E3). rewrite E1, E2, E3.
    apply normalised_unit. exact Hvel.
  Qed.

  Lemma yaxis_nonzero :
    nonzero3 (gen_vec_yaxis_x px py ux uy uz lat) (gen_vec_yaxis_y px py ux uy uz lat) (gen_vec_yaxis_z px py ux uy uz lat).
  Proof.
    destruct (yaxis_is_normalised px py ux uy uz lat) as (E1 & E2 & E3). cbv zeta in E1, E2, E3.
    rewrite E1, E2, E3. apply normalised_unit. exact Hcross.
  Qed.

  Lemma nadir_nonzero : nonzero3 nx ny nz.
  Proof. apply nadir_unit. Qed.

  Lemma rot1_unit f0 roll :
    norm3 (gen_vec_rot1_x px py ux uy uz lat f0 roll) (gen_vec_rot1_y px py ux uy uz lat f0 roll)
          (gen_vec_rot1_z px py ux uy uz lat f0 roll) = 1.
  Proof.
    destruct (rot1_is_rot px py ux uy uz lat f0 roll) as (E1 & E2 & E3). cbv zeta in E1, E2, E3.
    rewrite E1, E2, E3, qrotate_length by exact xaxis_nonzero. apply nadir_unit.
  Qed.

  Lemma rot2_unit f0 f1 roll pitch :
    norm3 (gen_vec_rot2_x px py ux uy uz lat f0 f1 roll pitch) (gen_vec_rot2_y px py ux uy uz lat f0 f1 roll pitch)
          (gen_vec_rot2_z px py ux uy uz lat f0 f1 roll pitch) = 1.
  Proof.
    destruct (rot2_is_rot px py ux uy uz lat f0 f1 roll pitch) as (E1 & E2 & E3). cbv zeta in E1, E2, E3.
    rewrite E1, E2, E3, qrotate_length by exact yaxis_nonzero. apply rot1_unit.
  Qed.

  (* C07_unit *)
  Theorem vectors_unit f0 f1 roll pitch yaw :
    norm3 (gen_vectors_x px py ux uy uz lat f0 f1 roll pitch yaw) (gen_vectors_y px py ux uy uz lat f0 f1 roll pitch yaw)
          (gen_vectors_z px py ux uy uz lat f0 f1 roll pitch yaw) = 1.
  Proof.
    destruct (vectors_is_rot3 px py ux uy uz lat f0 f1 roll pitch yaw) as (E1 & E2 & E3). cbv zeta in E1, E2, E3.
    rewrite E1, E2, E3, qrotate_length by exact nadir_nonzero. apply rot2_unit.
  Qed.

  (* C07_zero_angles *)
  Theorem vectors_zero_angles :
    gen_vectors_x px py ux uy uz lat 0 0 0 0 0 = nx /\ gen_vectors_y px py ux uy uz lat 0 0 0 0 0 = ny /\
    gen_vectors_z px py ux uy uz lat 0 0 0 0 0 = nz.
  Proof.
    destruct (vectors_is_rot3 px py ux uy uz lat 0 0 0 0 0) as (E1 & E2 & E3). cbv zeta in E1, E2, E3.
    destruct (rot2_is_rot px py ux uy uz lat 0 0 0 0) as (F1 & F2 & F3). cbv zeta in F1, F2, F3.
    destruct (rot1_is_rot px py ux uy uz lat 0 0) as (G1 & G2 & G3). cbv zeta in G1, G2, G3.
    rewrite E1, E2, E3.
    destruct (proj1 (qrotate_identity (gen_vec_rot2_x px py ux uy uz lat 0 0 0 0) (gen_vec_rot2_y px py ux uy uz lat 0 0 0 0)
                       (gen_vec_rot2_z px py ux uy uz lat 0 0 0 0) nx ny nz nadir_nonzero)) as (I1 & I2 & I3).
    fold nx ny nz. rewrite I1, I2, I3. rewrite F1, F2, F3.
    replace (0 + 0) with 0 by ring.
    destruct (proj1 (qrotate_identity (gen_vec_rot1_x px py ux uy uz lat 0 0) (gen_vec_rot1_y px py ux uy uz lat 0 0)
                       (gen_vec_rot1_z px py ux uy uz lat 0 0) _ _ _ yaxis_nonzero)) as (J1 & J2 & J3).
    rewrite J1, J2, J3. rewrite G1, G2, G3. replace (0 + 0) with 0 by ring.
    fold nx ny nz.
    exact (proj1 (qrotate_identity nx ny nz _ _ _ xaxis_nonzero)).
  Qed.

  (* C07_yaw: the cosine of the off-nadir angle does not depend on yaw *)
  Theorem vectors_yaw_invariant f0 f1 roll pitch yaw :
    dot3 (gen_vectors_x px py ux uy uz lat f0 f1 roll pitch yaw) (gen_vectors_y px py ux uy uz lat f0 f1 roll pitch yaw)
         (gen_vectors_z px py ux uy uz lat f0 f1 roll pitch yaw) nx ny nz
    = dot3 (gen_vec_rot2_x px py ux uy uz lat f0 f1 roll pitch) (gen_vec_rot2_y px py ux uy uz lat f0 f1 roll pitch)
           (gen_vec_rot2_z px py ux uy uz lat f0 f1 roll pitch) nx ny nz.
  Proof.
    destruct (vectors_is_rot3 px py ux uy uz lat f0 f1 roll pitch yaw) as (E1 & E2 & E3). cbv zeta in E1, E2, E3.
    rewrite E1, E2, E3. fold nx ny nz.
    destruct (qrotate_axis_fixed 1 nx ny nz yaw nadir_nonzero) as (A1 & A2 & A3).
    rewrite !Rmult_1_l in A1, A2, A3.
    pose proof (qrotate_dot (gen_vec_rot2_x px py ux uy uz lat f0 f1 roll pitch)
                  (gen_vec_rot2_y px py ux uy uz lat f0 f1 roll pitch)
                  (gen_vec_rot2_z px py ux uy uz lat f0 f1 roll pitch) nx ny nz nx ny nz yaw nadir_nonzero) as Hd.
    rewrite A1, A2, A3 in Hd. exact Hd.
  Qed.
End Vectors.

(* ---------- the sense of the scan angles (yaw = 0) ---------- *)
Lemma rod_across nx ny nz kx ky kz t :
  dot3 (rodrigues_x nx ny nz kx ky kz t) (rodrigues_y nx ny nz kx ky kz t) (rodrigues_z nx ny nz kx ky kz t)
       (cross_x nx ny nz kx ky kz) (cross_y nx ny nz kx ky kz) (cross_z nx ny nz kx ky kz)
  = - sin t * dot3 (cross_x nx ny nz kx ky kz) (cross_y nx ny nz kx ky kz) (cross_z nx ny nz kx ky kz)
                   (cross_x nx ny nz kx ky kz) (cross_y nx ny nz kx ky kz) (cross_z nx ny nz kx ky kz).
Proof. unfold rodrigues_x, rodrigues_y, rodrigues_z, dot3, cross_x, cross_y, cross_z. ring. Qed.

Lemma rod_along nx ny nz kx ky kz yx yy yz N M a b :
  nx*nx+ny*ny+nz*nz = 1 -> kx*kx+ky*ky+kz*kz = 1 ->
  M * yx = N * cross_x nx ny nz kx ky kz -> M * yy = N * cross_y nx ny nz kx ky kz ->
  M * yz = N * cross_z nx ny nz kx ky kz ->
  M * M = N * N * dot3 (cross_x nx ny nz kx ky kz) (cross_y nx ny nz kx ky kz) (cross_z nx ny nz kx ky kz)
                   (cross_x nx ny nz kx ky kz) (cross_y nx ny nz kx ky kz) (cross_z nx ny nz kx ky kz) ->
  M <> 0 ->
  let r1x := rodrigues_x nx ny nz kx ky kz a in
  let r1y := rodrigues_y nx ny nz kx ky kz a in
  let r1z := rodrigues_z nx ny nz kx ky kz a in
  dot3 (rodrigues_x r1x r1y r1z yx yy yz b) (rodrigues_y r1x r1y r1z yx yy yz b) (rodrigues_z r1x r1y r1z yx yy yz b)
       (N * kx) (N * ky) (N * kz)
  = N * dot3 nx ny nz kx ky kz * cos b + M * cos a * sin b.
Proof.
  intros Hn Hk Hx Hy Hz HM HM0. cbv zeta.
  apply Rmult_eq_reg_l with (M * M); [|nra].
  unfold rodrigues_x, rodrigues_y, rodrigues_z, dot3, cross_x, cross_y, cross_z in *.
  pose proof (sin2_cos2 a) as Ha. unfold Rsqr in Ha.
  set (sa := sin a) in *. set (ca := cos a) in *. set (sb := sin b) in *. set (cb := cos b) in *.
  clearbody sa ca sb cb.
  nsatz.
Qed.

Lemma qrotate_unit_axis vx vy vz ax ay az t :
  norm3 ax ay az = 1 ->
  gen_qrotate_x vx vy vz ax ay az t = rodrigues_x vx vy vz ax ay az (- t) /\
  gen_qrotate_y vx vy vz ax ay az t = rodrigues_y vx vy vz ax ay az (- t) /\
  gen_qrotate_z vx vy vz ax ay az t = rodrigues_z vx vy vz ax ay az (- t).
Proof.
  intros H1.
  assert (Ha : nonzero3 ax ay az).
  { intros (E1 & E2 & E3). unfold norm3 in H1. rewrite E1, E2, E3 in H1.
    replace (0 * 0 + 0 * 0 + 0 * 0) with 0 in H1 by ring. rewrite sqrt_0 in H1. lra. }
  destruct (qrotate_is_rodrigues vx vy vz ax ay az t Ha) as (E1 & E2 & E3).
  unfold cw_rot_x, cw_rot_y, cw_rot_z in *. cbv zeta in *. rewrite H1 in *.
  unfold Rdiv in *. rewrite Rinv_1, !Rmult_1_r in *. auto.
Qed.

Lemma norm3_1_sq a b c : norm3 a b c = 1 -> a * a + b * b + c * c = 1.
Proof.
  intros H. unfold norm3 in H.
  assert (Hp : 0 <= a * a + b * b + c * c) by nra.
  rewrite <- (sqrt_sqrt _ Hp), H. ring.
Qed.

Section Sense.
  Variables px py ux uy uz lat : R.
  Let nx := gen_vec_nadir_x px py lat.
  Let ny := gen_vec_nadir_y px py lat.
  Let nz := gen_vec_nadir_z px py lat.
  Let cx := cross_x nx ny nz ux uy uz.
  Let cy := cross_y nx ny nz ux uy uz.
  Let cz := cross_z nx ny nz ux uy uz.
  Hypothesis Hvel : nonzero3 ux uy uz.
  Hypothesis Hcross : nonzero3 cx cy cz.

  Let N := norm3 ux uy uz.
  Let M := norm3 cx cy cz.
  Let kx := ux / N. Let ky := uy / N. Let kz := uz / N.
  Let yx := cx / M. Let yy := cy / M. Let yz := cz / M.

  Lemma sense_facts :
    N <> 0 /\ M <> 0 /\ nx * nx + ny * ny + nz * nz = 1 /\ kx * kx + ky * ky + kz * kz = 1 /\
    norm3 kx ky kz = 1 /\ norm3 yx yy yz = 1 /\
    (ux = N * kx /\ uy = N * ky /\ uz = N * kz) /\
    (cx = N * cross_x nx ny nz kx ky kz /\ cy = N * cross_y nx ny nz kx ky kz /\ cz = N * cross_z nx ny nz kx ky kz) /\
    M * M = cx * cx + cy * cy + cz * cz.
  Proof.
    destruct (unit_axis ux uy uz Hvel) as [HN Hk]. fold N in HN, Hk. fold kx ky kz in Hk.
    destruct (unit_axis cx cy cz Hcross) as [HM _]. fold M in HM.
    assert (Hu : ux = N * kx /\ uy = N * ky /\ uz = N * kz)
      by (unfold kx, ky, kz; repeat split; field; exact HN).
    destruct Hu as (U1 & U2 & U3).
    repeat split; try assumption.
    - apply norm3_1_sq. apply nadir_unit.
    - apply (normalised_unit ux uy uz Hvel).
    - apply (normalised_unit cx cy cz Hcross).
    - unfold cx, cross_x. rewrite U2, U3 at 1. unfold cross_x. ring.
    - unfold cy, cross_y. rewrite U1, U3 at 1. unfold cross_y. ring.
    - unfold cz, cross_z. rewrite U1, U2 at 1. unfold cross_z. ring.
    - unfold M, norm3. apply sqrt_sqrt. nra.
  Qed.

  Lemma rot1_rod f0 roll :
    gen_vec_rot1_x px py ux uy uz lat f0 roll = rodrigues_x nx ny nz kx ky kz (- (f0 + roll)) /\
    gen_vec_rot1_y px py ux uy uz lat f0 roll = rodrigues_y nx ny nz kx ky kz (- (f0 + roll)) /\
    gen_vec_rot1_z px py ux uy uz lat f0 roll = rodrigues_z nx ny nz kx ky kz (- (f0 + roll)).
  Proof.
    destruct sense_facts as (_ & _ & _ & _ & Hk1 & _).
    destruct (rot1_is_rot px py ux uy uz lat f0 roll) as (E1 & E2 & E3). cbv zeta in E1, E2, E3.
    destruct (xaxis_is_normalised ux uy uz) as (X1 & X2 & X3).
    rewrite E1, E2, E3, X1, X2, X3. fold N kx ky kz nx ny nz.
    apply qrotate_unit_axis. exact Hk1.
  Qed.

  Lemma rot2_rod f0 f1 roll pitch :
    let r1x := gen_vec_rot1_x px py ux uy uz lat f0 roll in
    let r1y := gen_vec_rot1_y px py ux uy uz lat f0 roll in
    let r1z := gen_vec_rot1_z px py ux uy uz lat f0 roll in
    gen_vec_rot2_x px py ux uy uz lat f0 f1 roll pitch = rodrigues_x r1x r1y r1z yx yy yz (- (f1 + pitch)) /\
    gen_vec_rot2_y px py ux uy uz lat f0 f1 roll pitch = rodrigues_y r1x r1y r1z yx yy yz (- (f1 + pitch)) /\
    gen_vec_rot2_z px py ux uy uz lat f0 f1 roll pitch = rodrigues_z r1x r1y r1z yx yy yz (- (f1 + pitch)).
  Proof.
    cbv zeta. destruct sense_facts as (_ & _ & _ & _ & _ & Hy1 & _).
    destruct (rot2_is_rot px py ux uy uz lat f0 f1 roll pitch) as (E1 & E2 & E3). cbv zeta in E1, E2, E3.
    destruct (yaxis_is_normalised px py ux uy uz lat) as (Y1 & Y2 & Y3). cbv zeta in Y1, Y2, Y3.
    rewrite E1, E2, E3, Y1, Y2, Y3. fold nx ny nz. fold cx cy cz. fold M. fold yx yy yz.
    apply qrotate_unit_axis. exact Hy1.
  Qed.

  Lemma vectors_yaw0 f0 f1 roll pitch :
    gen_vectors_x px py ux uy uz lat f0 f1 roll pitch 0 = gen_vec_rot2_x px py ux uy uz lat f0 f1 roll pitch /\
    gen_vectors_y px py ux uy uz lat f0 f1 roll pitch 0 = gen_vec_rot2_y px py ux uy uz lat f0 f1 roll pitch /\
    gen_vectors_z px py ux uy uz lat f0 f1 roll pitch 0 = gen_vec_rot2_z px py ux uy uz lat f0 f1 roll pitch.
  Proof.
    destruct (vectors_is_rot3 px py ux uy uz lat f0 f1 roll pitch 0) as (E1 & E2 & E3). cbv zeta in E1, E2, E3.
    rewrite E1, E2, E3.
    apply (proj1 (qrotate_identity _ _ _ _ _ _ (proj2 (nadir_unit px py lat)))).
  Qed.

  (* across track: the component of the view along nadir x vel (to the right of the velocity) *)
  Theorem sense_across f0 f1 roll pitch :
    dot3 (gen_vectors_x px py ux uy uz lat f0 f1 roll pitch 0) (gen_vectors_y px py ux uy uz lat f0 f1 roll pitch 0)
         (gen_vectors_z px py ux uy uz lat f0 f1 roll pitch 0) cx cy cz
    = sin (f0 + roll) * (cx * cx + cy * cy + cz * cz) / N.
  Proof.
    destruct sense_facts as (HN & HM & Hn & Hk & Hk1 & Hy1 & (U1 & U2 & U3) & (C1 & C2 & C3) & HMM).
    destruct (vectors_yaw0 f0 f1 roll pitch) as (V1 & V2 & V3). rewrite V1, V2, V3.
    (* rotation about the y axis keeps the component along it *)
    destruct (rot2_is_rot px py ux uy uz lat f0 f1 roll pitch) as (E1 & E2 & E3). cbv zeta in E1, E2, E3.
    assert (Hyn : nonzero3 (gen_vec_yaxis_x px py ux uy uz lat) (gen_vec_yaxis_y px py ux uy uz lat) (gen_vec_yaxis_z px py ux uy uz lat))
      by (apply yaxis_nonzero; exact Hcross).
    destruct (yaxis_is_normalised px py ux uy uz lat) as (Y1 & Y2 & Y3). cbv zeta in Y1, Y2, Y3.
    fold nx ny nz in Y1, Y2, Y3. fold cx cy cz in Y1, Y2, Y3. fold M in Y1, Y2, Y3.
    pose proof (qrotate_dot (gen_vec_rot1_x px py ux uy uz lat f0 roll) (gen_vec_rot1_y px py ux uy uz lat f0 roll)
                  (gen_vec_rot1_z px py ux uy uz lat f0 roll)
                  (gen_vec_yaxis_x px py ux uy uz lat) (gen_vec_yaxis_y px py ux uy uz lat) (gen_vec_yaxis_z px py ux uy uz lat)
                  _ _ _ (f1 + pitch) Hyn) as Hd.
    destruct (qrotate_axis_fixed 1 _ _ _ (f1 + pitch) Hyn) as (A1 & A2 & A3).
    rewrite !Rmult_1_l in A1, A2, A3. rewrite A1, A2, A3 in Hd.
    rewrite <- E1, <- E2, <- E3 in Hd. rewrite Y1, Y2, Y3 in Hd.
    assert (Hc : forall a b c, dot3 a b c cx cy cz = M * dot3 a b c (cx / M) (cy / M) (cz / M))
      by (intros; unfold dot3; field; exact HM).
    rewrite Hc, Hd, <- Hc.
    destruct (rot1_rod f0 roll) as (R1 & R2 & R3). rewrite R1, R2, R3.
    rewrite C1, C2, C3.
    replace (dot3 (rodrigues_x nx ny nz kx ky kz (- (f0 + roll))) (rodrigues_y nx ny nz kx ky kz (- (f0 + roll)))
               (rodrigues_z nx ny nz kx ky kz (- (f0 + roll)))
               (N * cross_x nx ny nz kx ky kz) (N * cross_y nx ny nz kx ky kz) (N * cross_z nx ny nz kx ky kz))
      with (N * dot3 (rodrigues_x nx ny nz kx ky kz (- (f0 + roll))) (rodrigues_y nx ny nz kx ky kz (- (f0 + roll)))
               (rodrigues_z nx ny nz kx ky kz (- (f0 + roll)))
               (cross_x nx ny nz kx ky kz) (cross_y nx ny nz kx ky kz) (cross_z nx ny nz kx ky kz))
      by (unfold dot3; ring).
    rewrite rod_across, sin_neg. unfold dot3. field. exact HN.
  Qed.

  (* along track: the component of the view along the velocity *)
  Theorem sense_along f0 f1 roll pitch :
    dot3 (gen_vectors_x px py ux uy uz lat f0 f1 roll pitch 0) (gen_vectors_y px py ux uy uz lat f0 f1 roll pitch 0)
         (gen_vectors_z px py ux uy uz lat f0 f1 roll pitch 0) ux uy uz
    = dot3 nx ny nz ux uy uz * cos (f1 + pitch) - M * cos (f0 + roll) * sin (f1 + pitch).
  Proof.
    destruct sense_facts as (HN & HM & Hn & Hk & Hk1 & Hy1 & (U1 & U2 & U3) & (C1 & C2 & C3) & HMM).
    destruct (vectors_yaw0 f0 f1 roll pitch) as (V1 & V2 & V3). rewrite V1, V2, V3.
    destruct (rot2_rod f0 f1 roll pitch) as (E1 & E2 & E3). cbv zeta in E1, E2, E3. rewrite E1, E2, E3.
    destruct (rot1_rod f0 roll) as (R1 & R2 & R3). rewrite R1, R2, R3.
    rewrite U1, U2, U3.
    rewrite (rod_along nx ny nz kx ky kz yx yy yz N M (- (f0 + roll)) (- (f1 + pitch)) Hn Hk).
    - rewrite cos_neg, cos_neg, sin_neg. unfold dot3. ring.
    - unfold yx. rewrite <- C1. field. exact HM.
    - unfold yy. rewrite <- C2. field. exact HM.
    - unfold yz. rewrite <- C3. field. exact HM.
    - rewrite HMM, C1, C2, C3. unfold dot3. ring.
    - exact HM.
  Qed.
End Sense.

(* C07_attitude_adds: roll and pitch enter only through fovs[0] + roll and fovs[1] + pitch *)
Theorem vectors_attitude_adds px py ux uy uz lat f0 f1 roll pitch yaw :
  gen_vectors_x px py ux uy uz lat f0 f1 roll pitch yaw = gen_vectors_x px py ux uy uz lat (f0 + roll) (f1 + pitch) 0 0 yaw /\
  gen_vectors_y px py ux uy uz lat f0 f1 roll pitch yaw = gen_vectors_y px py ux uy uz lat (f0 + roll) (f1 + pitch) 0 0 yaw /\
  gen_vectors_z px py ux uy uz lat f0 f1 roll pitch yaw = gen_vectors_z px py ux uy uz lat (f0 + roll) (f1 + pitch) 0 0 yaw.
Proof.
  destruct (vectors_is_rot3 px py ux uy uz lat f0 f1 roll pitch yaw) as (E1 & E2 & E3).
  destruct (vectors_is_rot3 px py ux uy uz lat (f0 + roll) (f1 + pitch) 0 0 yaw) as (E1' & E2' & E3').
  destruct (rot2_is_rot px py ux uy uz lat f0 f1 roll pitch) as (F1 & F2 & F3).
  destruct (rot2_is_rot px py ux uy uz lat (f0 + roll) (f1 + pitch) 0 0) as (F1' & F2' & F3').
  destruct (rot1_is_rot px py ux uy uz lat f0 roll) as (G1 & G2 & G3).
  destruct (rot1_is_rot px py ux uy uz lat (f0 + roll) 0) as (G1' & G2' & G3').
  cbv zeta in *.
  rewrite Rplus_0_r in G1', G2', G3', F1', F2', F3'.
  rewrite E1, E2, E3, E1', E2', E3', F1, F2, F3, F1', F2', F3', G1, G2, G3, G1', G2', G3'.
  repeat split; reflexivity.
Qed.

(* ====================================================================================== *)
(*  termination of the vectorised loops (model/M_VecLoop.v)                                *)
(* ====================================================================================== *)
From Coq Require Import List Bool.
Import ListNotations.
From PyOrb.model Require Import M_VecLoop.

Lemma forallb_nth {A} (f : A -> bool) (l : list A) (d : A) :
  (forall i, (i < length l)%nat -> f (nth i l d) = true) -> forallb f l = true.
Proof.
  induction l as [|a l IH]; intros H; simpl; [reflexivity|].
  assert (H0 : f a = true) by (apply (H 0%nat); simpl; lia).
  rewrite H0. simpl. apply IH.
  intros i Hi. apply (H (S i)). simpl. lia.
Qed.

(* every position is, from some pass on, either NaN or below the threshold *)
Definition settles (n : nat) (passes : nat -> list (option R)) : Prop :=
  forall i, (i < n)%nat -> exists K, forall k, (K <= k)%nat -> pass_fixed (nth i (passes k) None) = true.

Lemma common_bound n passes :
  settles n passes ->
  exists K, forall i, (i < n)%nat -> forall k, (K <= k)%nat -> pass_fixed (nth i (passes k) None) = true.
Proof.
  induction n as [|n IH]; intros H.
  - exists 0%nat. intros i Hi. lia.
  - destruct IH as [K1 HK1]; [intros i Hi; apply H; lia|].
    destruct (H n) as [K2 HK2]; [lia|].
    exists (Nat.max K1 K2). intros i Hi k Hk.
    destruct (Nat.eq_dec i n) as [->|Hne].
    + apply HK2. lia.
    + apply HK1; lia.
Qed.

(* after the fix: a batch whose defined elements all converge is left, whatever is NaN *)
Theorem fixed_loop_exits n passes :
  (forall k, length (passes k) = n) ->
  settles n passes ->
  exists N, exits_within exit_fixed passes N = true.
Proof.
  intros Hlen Hs. destruct (common_bound n passes Hs) as [K HK].
  exists (S K). apply exits_within_iff. exists K. split; [lia|].
  unfold exit_fixed. apply forallb_nth with (d := None).
  intros i Hi. rewrite Hlen in Hi. apply HK; [exact Hi|lia].
Qed.

(* before the fix: one NaN position keeps the loop running for ever *)
Theorem orig_loop_never_exits passes i :
  (forall k, (i < length (passes k))%nat /\ nth i (passes k) None = None) ->
  forall N, exits_within exit_orig passes N = false.
Proof.
  intros H N. destruct (exits_within exit_orig passes N) eqn:E; [|reflexivity].
  apply exits_within_iff in E. destruct E as (k & _ & Ht).
  unfold exit_orig in Ht. rewrite forallb_forall in Ht.
  destruct (H k) as [Hi Hn].
  specialize (Ht (nth i (passes k) None) (nth_In _ _ Hi)). rewrite Hn in Ht. discriminate.
Qed.

(* a concrete batch: position 0 has converged (difference 0), position 1 is NaN *)
Definition demo_passes (k : nat) : list (option R) := [Some 0; None].

Lemma demo_settles : settles 2 demo_passes.
Proof.
  intros i Hi. exists 0%nat. intros k _. destruct i as [|[|i]]; [|reflexivity|lia].
  simpl. unfold small.
  destruct (Rlt_dec (Rabs 0) eps) as [_|Hn]; [reflexivity|exfalso; apply Hn].
  rewrite Rabs_R0. unfold eps. lra.
Qed.

(* ====================================================================================== *)
(*  the statements of props/C07.v                                                          *)
(* ====================================================================================== *)
Lemma c07_on_ellipsoid : forall x y z lx ly lz,
  0 < gen_pixel_lsq x y z lx ly lz -> 0 <= gen_pixel_disc x y z lx ly lz ->
  on_ellipsoid A_wgs84 B_wgs84 (gen_pixel_x x y z lx ly lz) (gen_pixel_y x y z lx ly lz) (gen_pixel_z x y z lx ly lz).
Proof.
  intros x y z lx ly lz HQ HD. destruct (pixel_on_ray x y z lx ly lz) as (E1 & E2 & E3).
  rewrite E1, E2, E3. exact (proj1 (roots_on_ellipsoid x y z lx ly lz HQ HD)).
Qed.

Lemma c07_near_root : forall x y z lx ly lz,
  0 < gen_pixel_lsq x y z lx ly lz -> 0 <= gen_pixel_disc x y z lx ly lz ->
  let d1 := gen_pixel_d1 x y z lx ly lz in
  let d2 := pixel_d2 x y z lx ly lz in
  (gen_pixel_x x y z lx ly lz = x + d1 * lx /\ gen_pixel_y x y z lx ly lz = y + d1 * ly /\
   gen_pixel_z x y z lx ly lz = z + d1 * lz) /\
  d1 <= d2 /\
  on_ellipsoid A_wgs84 B_wgs84 (x + d2 * lx) (y + d2 * ly) (z + d2 * lz) /\
  (forall d, on_ellipsoid A_wgs84 B_wgs84 (x + d * lx) (y + d * ly) (z + d * lz) -> d = d1 \/ d = d2).
Proof.
  intros x y z lx ly lz HQ HD. cbv zeta. repeat split.
  - apply pixel_on_ray.
  - apply pixel_on_ray.
  - apply pixel_on_ray.
  - apply near_root; exact HQ.
  - exact (proj2 (roots_on_ellipsoid x y z lx ly lz HQ HD)).
  - intros d Hd. exact (only_roots x y z lx ly lz HQ d HD Hd).
Qed.

Lemma c07_forward : forall x y z lx ly lz,
  0 < gen_pixel_lsq x y z lx ly lz -> 0 <= gen_pixel_disc x y z lx ly lz ->
  1 < ellipsoid_form A_wgs84 B_wgs84 x y z -> 0 < gen_pixel_ldotc x y z lx ly lz ->
  0 < gen_pixel_d1 x y z lx ly lz.
Proof. intros x y z lx ly lz HQ HD. exact (forward x y z lx ly lz HQ HD). Qed.

Lemma c07_horizon : forall x y z lx ly lz,
  0 < gen_pixel_lsq x y z lx ly lz -> 0 <= gen_pixel_disc x y z lx ly lz ->
  0 <= gen_pixel_d1 x y z lx ly lz ->
  let px := gen_pixel_x x y z lx ly lz in let py := gen_pixel_y x y z lx ly lz in
  let pz := gen_pixel_z x y z lx ly lz in
  0 <= (2 * px / (A_wgs84 * A_wgs84)) * (x - px) + (2 * py / (A_wgs84 * A_wgs84)) * (y - py)
       + (2 * pz / (B_wgs84 * B_wgs84)) * (z - pz).
Proof.
  intros x y z lx ly lz HQ HD Hd1. cbv zeta.
  destruct (pixel_on_ray x y z lx ly lz) as (E1 & E2 & E3). cbv zeta in E1, E2, E3.
  rewrite E1, E2, E3.
  pose proof (horizon_value x y z lx ly lz HQ HD) as H. cbv zeta in H. unfold bform in H.
  match goal with |- 0 <= ?G => replace G with (2 * gen_pixel_d1 x y z lx ly lz * sqrt (gen_pixel_disc x y z lx ly lz)) end.
  - apply Rmult_le_pos; [lra|apply sqrt_pos].
  - rewrite <- H. unfold A_wgs84, B_wgs84. field.
Qed.

Lemma c07_miss : forall x y z lx ly lz,
  0 < gen_pixel_lsq x y z lx ly lz ->
  ((exists d, on_ellipsoid A_wgs84 B_wgs84 (x + d * lx) (y + d * ly) (z + d * lz))
   <-> 0 <= gen_pixel_disc x y z lx ly lz).
Proof.
  intros x y z lx ly lz HQ. split.
  - intros (d & Hd). destruct (Rle_dec 0 (gen_pixel_disc x y z lx ly lz)) as [H|H]; [exact H|].
    exfalso. apply (miss x y z lx ly lz HQ d); [lra|exact Hd].
  - intros HD. exists (gen_pixel_d1 x y z lx ly lz). exact (proj1 (roots_on_ellipsoid x y z lx ly lz HQ HD)).
Qed.

Lemma c07_unit : forall px py ux uy uz lat f0 f1 roll pitch yaw,
  let nx := gen_vec_nadir_x px py lat in let ny := gen_vec_nadir_y px py lat in
  let nz := gen_vec_nadir_z px py lat in
  nonzero3 ux uy uz ->
  nonzero3 (cross_x nx ny nz ux uy uz) (cross_y nx ny nz ux uy uz) (cross_z nx ny nz ux uy uz) ->
  norm3 (gen_vectors_x px py ux uy uz lat f0 f1 roll pitch yaw) (gen_vectors_y px py ux uy uz lat f0 f1 roll pitch yaw)
        (gen_vectors_z px py ux uy uz lat f0 f1 roll pitch yaw) = 1.
Proof. intros. apply vectors_unit; assumption. Qed.

Lemma c07_nadir : forall px py pz lat,
  let sx := gen_subpoint_x (- px) (- py) (- pz) lat in
  let sy := gen_subpoint_y (- px) (- py) (- pz) lat in
  let sz := gen_subpoint_z (- px) (- py) (- pz) lat in
  (gen_vec_nadir_x px py lat = sx / norm3 sx sy sz /\ gen_vec_nadir_y px py lat = sy / norm3 sx sy sz /\
   gen_vec_nadir_z px py lat = sz / norm3 sx sy sz) /\
  norm3 (gen_vec_nadir_x px py lat) (gen_vec_nadir_y px py lat) (gen_vec_nadir_z px py lat) = 1.
Proof.
  intros px py pz lat. cbv zeta. split; [apply nadir_is_normalised_subpoint|apply nadir_unit].
Qed.

Lemma c07_zero_angles : forall px py ux uy uz lat,
  let nx := gen_vec_nadir_x px py lat in let ny := gen_vec_nadir_y px py lat in
  let nz := gen_vec_nadir_z px py lat in
  nonzero3 ux uy uz ->
  nonzero3 (cross_x nx ny nz ux uy uz) (cross_y nx ny nz ux uy uz) (cross_z nx ny nz ux uy uz) ->
  gen_vectors_x px py ux uy uz lat 0 0 0 0 0 = nx /\ gen_vectors_y px py ux uy uz lat 0 0 0 0 0 = ny /\
  gen_vectors_z px py ux uy uz lat 0 0 0 0 0 = nz.
Proof. intros. apply vectors_zero_angles; assumption. Qed.

Lemma c07_yaw : forall px py ux uy uz lat f0 f1 roll pitch yaw yaw',
  let nx := gen_vec_nadir_x px py lat in let ny := gen_vec_nadir_y px py lat in
  let nz := gen_vec_nadir_z px py lat in
  dot3 (gen_vectors_x px py ux uy uz lat f0 f1 roll pitch yaw) (gen_vectors_y px py ux uy uz lat f0 f1 roll pitch yaw)
       (gen_vectors_z px py ux uy uz lat f0 f1 roll pitch yaw) nx ny nz
  = dot3 (gen_vectors_x px py ux uy uz lat f0 f1 roll pitch yaw') (gen_vectors_y px py ux uy uz lat f0 f1 roll pitch yaw')
         (gen_vectors_z px py ux uy uz lat f0 f1 roll pitch yaw') nx ny nz.
Proof.
  intros. cbv zeta. rewrite !vectors_yaw_invariant. reflexivity.
Qed.

Lemma c07_inhabited :
  0 < gen_pixel_lsq 7000 0 0 (-1) 0 0 /\ 0 <= gen_pixel_disc 7000 0 0 (-1) 0 0 /\
  1 < ellipsoid_form A_wgs84 B_wgs84 7000 0 0 /\ 0 < gen_pixel_ldotc 7000 0 0 (-1) 0 0 /\
  nonzero3 0 7 0 /\
  (forall i, (i < 2)%nat -> exists K, forall k, (K <= k)%nat -> pass_fixed (nth i (demo_passes k) None) = true).
Proof.
  unfold gen_pixel_disc, gen_pixel_ldotc, gen_pixel_lsq, ellipsoid_form, A_wgs84, B_wgs84. cbv zeta.
  split; [lra|]. split; [lra|]. split; [lra|]. split; [lra|]. split.
  - unfold nonzero3. intros (_ & H & _). lra.
  - exact demo_settles.
Qed.

Lemma c07_sense_signs : forall px py ux uy uz lat f0 f1 roll pitch,
  let nx := gen_vec_nadir_x px py lat in let ny := gen_vec_nadir_y px py lat in
  let nz := gen_vec_nadir_z px py lat in
  let cx := cross_x nx ny nz ux uy uz in let cy := cross_y nx ny nz ux uy uz in
  let cz := cross_z nx ny nz ux uy uz in
  let wx := gen_vectors_x px py ux uy uz lat f0 f1 roll pitch 0 in
  let wy := gen_vectors_y px py ux uy uz lat f0 f1 roll pitch 0 in
  let wz := gen_vectors_z px py ux uy uz lat f0 f1 roll pitch 0 in
  nonzero3 ux uy uz -> nonzero3 cx cy cz ->
  (0 < f0 + roll < PI -> 0 < dot3 wx wy wz cx cy cz) /\
  (- PI < f0 + roll < 0 -> dot3 wx wy wz cx cy cz < 0) /\
  (- PI / 2 < f0 + roll < PI / 2 -> 0 < f1 + pitch < PI ->
     dot3 wx wy wz ux uy uz < dot3 nx ny nz ux uy uz * cos (f1 + pitch)) /\
  (- PI / 2 < f0 + roll < PI / 2 -> - PI < f1 + pitch < 0 ->
     dot3 nx ny nz ux uy uz * cos (f1 + pitch) < dot3 wx wy wz ux uy uz).
Proof.
  intros px py ux uy uz lat f0 f1 roll pitch nx ny nz cx cy cz wx wy wz Hvel Hcross.
  pose proof (sense_across px py ux uy uz lat Hvel Hcross f0 f1 roll pitch) as HA.
  pose proof (sense_along px py ux uy uz lat Hvel Hcross f0 f1 roll pitch) as HL.
  fold nx ny nz in HA, HL. fold cx cy cz in HA, HL. fold wx wy wz in HA, HL.
  pose proof (nonzero3_pos _ _ _ Hvel) as Hu. pose proof (nonzero3_pos _ _ _ Hcross) as Hc.
  assert (HN : 0 < norm3 ux uy uz) by (apply sqrt_lt_R0; exact Hu).
  assert (HM : 0 < norm3 cx cy cz) by (apply sqrt_lt_R0; exact Hc).
  assert (HK : 0 < (cx * cx + cy * cy + cz * cz) / norm3 ux uy uz)
    by (apply Rmult_lt_0_compat; [exact Hc|apply Rinv_0_lt_compat; exact HN]).
  replace (sin (f0 + roll) * (cx * cx + cy * cy + cz * cz) / norm3 ux uy uz)
    with (sin (f0 + roll) * ((cx * cx + cy * cy + cz * cz) / norm3 ux uy uz)) in HA by (field; lra).
  repeat split.
  - intros [H0 H1]. rewrite HA. apply Rmult_lt_0_compat; [apply sin_gt_0; assumption|exact HK].
  - intros [H0 H1]. rewrite HA.
    assert (Hs : sin (f0 + roll) < 0) by (apply sin_lt_0_var; lra).
    nra.
  - intros [H0 H1] [H2 H3]. rewrite HL.
    assert (Hc1 : 0 < cos (f0 + roll)) by (apply cos_gt_0; lra).
    assert (Hs2 : 0 < sin (f1 + pitch)) by (apply sin_gt_0; lra).
    assert (0 < norm3 cx cy cz * cos (f0 + roll) * sin (f1 + pitch))
      by (apply Rmult_lt_0_compat; [apply Rmult_lt_0_compat|]; assumption).
    lra.
  - intros [H0 H1] [H2 H3]. rewrite HL.
    assert (Hc1 : 0 < cos (f0 + roll)) by (apply cos_gt_0; lra).
    assert (Hs2 : sin (f1 + pitch) < 0) by (apply sin_lt_0_var; lra).
    assert (0 < norm3 cx cy cz * cos (f0 + roll)) by (apply Rmult_lt_0_compat; assumption).
    nra.
Qed.
