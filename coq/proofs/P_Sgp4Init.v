(* C01 (initialisation): every coefficient the constructor computes on the near-earth-normal path
   equals the Spacetrack Report #3 quantity. *)
From Coq Require Import Reals Lra Lia.
From PyOrb.lib Require Import PyReal SgpOutcome.
From PyOrb.spec Require Import Spec_SGP4.
From PyOrb.gen Require Import Gen_sgp4.
Open Scope R_scope.

Lemma Rpower_3_2 x : 0 < x -> Rpower x (3 / 2) = sqrt x * x.
Proof.
  intros H. replace (3 / 2) with (/ 2 + 1) by field.
  rewrite Rpower_plus, Rpower_1 by exact H. rewrite Rpower_sqrt by exact H. reflexivity.
Qed.

Lemma Rpower_m7_2 x : 0 < x -> / Rpower x (7 / 2) = Rpower x (- (7 / 2)).
Proof. intros H. rewrite Rpower_Ropp. reflexivity. Qed.

Section Init.
  Variables e0 incl_deg raan_deg argp_deg ma_deg n_revday bstar : R.
  Notation "'G' f" := (f e0 incl_deg raan_deg argp_deg ma_deg n_revday bstar) (at level 9, f at level 9).
  (* the published model's inputs, from the TLE fields *)
  Definition n0 := n_revday * (twopi / min_per_day).
  Definition i0 := deg2rad incl_deg.
  Definition w0 := deg2rad argp_deg.
  Definition M0 := deg2rad ma_deg.
  Definition O0 := deg2rad raan_deg.

  Definition E := mkEl n0 e0 i0 w0 M0 O0 bstar.

  Hypothesis He : 0 < e0 < 1.
  Lemma pn0 : el_n0 E = n0. Proof. reflexivity. Qed.
  Lemma pe0 : el_e0 E = e0. Proof. reflexivity. Qed.
  Lemma pi0 : el_i0 E = i0. Proof. reflexivity. Qed.
  Lemma pw0 : el_w0 E = w0. Proof. reflexivity. Qed.
  Lemma pM0 : el_M0 E = M0. Proof. reflexivity. Qed.
  Lemma pO0 : el_O0 E = O0. Proof. reflexivity. Qed.
  Lemma pbs : el_bstar E = bstar. Proof. reflexivity. Qed.
  Ltac sp := rewrite ?pn0, ?pe0, ?pi0, ?pw0, ?pM0, ?pO0, ?pbs in *.

  Lemma one_minus_e2_pos : 0 < 1 - e0 ^ 2.
  Proof. nra. Qed.

  Lemma oe_mean_motion_spec : G gen_oe_mean_motion = n0.
  Proof. unfold gen_oe_mean_motion, n0, twopi, min_per_day. (sp; field). Qed.

  Lemma cosIO_spec : G gen_sgp4_cosIO = theta E.
  Proof. (sp; eq_mod_ring). Qed.
  Lemma oe_incl : G gen_oe_inclination = i0.
  Proof. (sp; eq_mod_ring). Qed.
  Lemma oe_argp : G gen_oe_arg_perigee = w0.
  Proof. (sp; eq_mod_ring). Qed.
  Lemma oe_ma : G gen_oe_mean_anomaly = M0.
  Proof. (sp; eq_mod_ring). Qed.
  Lemma oe_raan : G gen_oe_right_ascension = O0.
  Proof. (sp; eq_mod_ring). Qed.

  (* The report's quantities behind the unnamed temporaries of _calculate_basic_orbit_params are located by
     shape in the generated term (the Rpowq, the numerator over a1^2, the base of the second square), and each
     is shown equal to the report's value modulo field, so that the order in which the source writes sums and
     products does not matter. *)
  Definition TEMP0 : R := (3 / 2) * k2 * ((3 * (theta E)^2 - 1) / powr (1 - e0^2) (3 / 2)).

  Lemma a1_any x : x = (743669161 / 10000000000) / G gen_oe_mean_motion -> Rpowq x (2 / 3) = a1 E.
  Proof. intros ->. rewrite oe_mean_motion_spec. (sp; eq_mod_ring). Qed.

  Ltac temp0_tac :=
    unfold TEMP0, gen_sgp4_x3thm1, gen_sgp4_betao, gen_sgp4_betao2, powr, k2; rewrite ?cosIO_spec;
    rewrite Rpower_3_2 by exact one_minus_e2_pos;
    let P := fresh "P" in let S := fresh "S" in
    pose proof one_minus_e2_pos as P; pose proof (sqrt_lt_R0 _ P) as S;
    (sp; field); split; apply Rgt_not_eq; assumption.

  Lemma delta1_any t : t = TEMP0 -> t / (a1 E)^2 = delta1 E.
  Proof. intros ->. unfold TEMP0, delta1, Rdiv. rewrite ?Rinv_mult. (sp; ring). Qed.
  Lemma delta0_any t : t = TEMP0 -> t / (a0 E)^2 = delta0 E.
  Proof. intros ->. unfold TEMP0, delta0, Rdiv. (sp; ring). Qed.
  Lemma a0_any x : x = a1 E * (1 - delta1 E * (1 / 3 + delta1 E * (1 + delta1 E * 134 / 81))) -> x = a0 E.
  Proof. intros ->. unfold a0. (sp; field). Qed.

  (* after [cbv zeta]: fold a1, then every numerator over a square is TEMP0, then delta1, a0, delta0 *)
  Ltac basic_params :=
    cbv zeta;
    repeat match goal with |- context [Rpowq ?x (2 / 3)] =>
      rewrite (a1_any x) by (unfold Rdiv; ring) end;
    repeat match goal with |- context [?t / (a1 E) ^ 2] =>
      rewrite (delta1_any t) by temp0_tac end;
    repeat match goal with |- context [?t / ?a ^ 2] =>
      lazymatch a with
      | a0 E => fail
      | _ => replace a with (a0 E) by (symmetry; apply a0_any; unfold Rdiv; ring)
      end end;
    repeat match goal with |- context [?t / (a0 E) ^ 2] =>
      rewrite (delta0_any t) by temp0_tac end.

  Lemma xnodp_spec : G gen_sgp4_xnodp = n0'' E.
  Proof.
    unfold gen_sgp4_xnodp. basic_params. rewrite oe_mean_motion_spec. (sp; first [reflexivity | (unfold n0''; sp; eq_mod_ring)]).
  Qed.

  Lemma aodp_spec : G gen_sgp4_aodp = a0'' E.
  Proof.
    unfold gen_sgp4_aodp. basic_params. (sp; first [reflexivity | (unfold a0''; sp; eq_mod_ring)]).
  Qed.

  Lemma perigee_spec : G gen_sgp4_perigee = perigee_km E.
  Proof. unfold gen_sgp4_perigee, perigee_km, aE, XKMPER. rewrite aodp_spec. (sp; field). Qed.

  Lemma apogee_spec : G gen_sgp4_apogee = apogee_km E.
  Proof. unfold gen_sgp4_apogee, apogee_km, aE, XKMPER. rewrite aodp_spec. (sp; field). Qed.

  Lemma period_spec : G gen_sgp4_period = period_min E.
  Proof.
    unfold gen_sgp4_period, period_min, twopi. rewrite xnodp_spec.
    replace (2 * PI * 1440 / 1440) with (2 * PI) by field. (sp; eq_mod_ring).
  Qed.

  Lemma s_const : 430409 / 425209 = s_param.
  Proof. unfold s_param, XKMPER, aE. (sp; field). Qed.

  Lemma tsi_spec : 1 / (G gen_sgp4_aodp - 430409 / 425209) = xi E.
  Proof. rewrite aodp_spec, s_const. (sp; eq_mod_ring). Qed.

  Lemma eta_spec : G gen_sgp4_eta_v2 = eta E.
  Proof. unfold gen_sgp4_eta_v2, eta. rewrite tsi_spec, aodp_spec. (sp; eq_mod_ring). Qed.

  (* the near-earth-normal guard (perigee >= 220 km) gives  s < a0''(1 - e0), hence
     a0'' > s > 0, xi > 0 and 0 < eta < 1 *)
  Hypothesis Hperi : s_param < a0'' E * (1 - e0).

  Lemma s_param_pos : 1 < s_param.
  Proof. unfold s_param, XKMPER, aE. lra. Qed.
  Lemma aodp_gt_s : s_param < a0'' E.
  Proof. pose proof s_param_pos. nra. Qed.
  Lemma aodp_pos : 0 < a0'' E.
  Proof. pose proof s_param_pos. pose proof aodp_gt_s. lra. Qed.
  Lemma xi_pos : 0 < xi E.
  Proof. unfold xi. pose proof aodp_gt_s. apply Rdiv_lt_0_compat; lra. Qed.
  Lemma eta_bounds : 0 < eta E < 1.
  Proof.
    pose proof aodp_gt_s as A. pose proof aodp_pos as B.
    unfold eta, xi. set (a := a0'' E) in *.
    replace (el_e0 E) with e0 by reflexivity.
    replace (a * e0 * (1 / (a - s_param))) with ((a * e0) / (a - s_param)) by (field; lra).
    split.
    - apply Rdiv_lt_0_compat; nra.
    - apply Rmult_lt_reg_r with (a - s_param); [lra|].
      unfold Rdiv. rewrite Rmult_assoc, Rinv_l by lra. nra.
  Qed.
  Lemma Heta : (eta E)^2 < 1.
  Proof. pose proof eta_bounds. nra. Qed.

  Lemma psisq_spec : Rabs (1 - (G gen_sgp4_eta_v2)^2) = 1 - (eta E)^2.
  Proof. rewrite eta_spec. apply Rabs_pos_eq. pose proof Heta. lra. Qed.

  Ltac norm_init :=
    cbv zeta; rewrite ?psisq_spec, ?tsi_spec, ?eta_spec, ?aodp_spec, ?xnodp_spec;
    unfold gen_sgp4_x3thm1, gen_sgp4_x1mth2, gen_sgp4_x7thm1, gen_sgp4_betao2, gen_sgp4_sinIO, Rpowq;
    rewrite ?cosIO_spec, ?oe_incl, ?oe_argp, ?oe_ma, ?oe_raan.

  Ltac facts :=
    pose proof Heta as Heta'; pose proof aodp_pos as Ha; pose proof xi_pos as Hxi;
    pose proof one_minus_e2_pos as Pe; pose proof eta_bounds as Hetab.

  Lemma c2_spec : G gen_sgp4_c2_v2 = C2 E.
  Proof.
    unfold gen_sgp4_c2_v2. norm_init. unfold C2, powr, q0ms4, k2. facts. sp.
    rewrite <- Rpower_m7_2 by lra.
    match goal with |- context [Rpower ?x (7 / 2)] => set (P := Rpower x (7 / 2)) end.
    assert (HP : P <> 0) by (apply Rgt_not_eq, exp_pos).
    (sp; field). split; [lra|exact HP].
  Qed.

  Lemma c1_spec : G gen_sgp4_c1_v2 = C1 E.
  Proof. unfold gen_sgp4_c1_v2, C1. rewrite c2_spec. (sp; eq_mod_ring). Qed.

  Lemma c4_spec : G gen_sgp4_c4_v2 = C4 E.
  Proof.
    unfold gen_sgp4_c4_v2. norm_init. unfold C4, powr, q0ms4, k2, beta0, gen_oe_arg_perigee. fold w0. facts. sp.
    rewrite <- Rpower_m7_2 by lra.
    match goal with |- context [Rpower ?x (7 / 2)] => set (P := Rpower x (7 / 2)) end.
    assert (HP : P <> 0) by (apply Rgt_not_eq, exp_pos).
    sp. rewrite pow2_sqrt by lra.
    (sp; field). split; [lra|]. split; [lra|exact HP].
  Qed.

  Lemma c5_spec : G gen_sgp4_c5_v1 = C5 E.
  Proof.
    unfold gen_sgp4_c5_v1. norm_init. unfold C5, powr, q0ms4, beta0. facts. sp.
    rewrite <- Rpower_m7_2 by lra.
    match goal with |- context [Rpower ?x (7 / 2)] => set (P := Rpower x (7 / 2)) end.
    assert (HP : P <> 0) by (apply Rgt_not_eq, exp_pos).
    sp. rewrite pow2_sqrt by lra.
    (sp; field). exact HP.
  Qed.

  (* e0 > 1e-4 variant: C3, omgcof, xmcof as in the report *)
  Lemma c3_spec : G gen_sgp4_c3_v1 = C3 E.
  Proof.
    unfold gen_sgp4_c3_v1. norm_init. unfold C3, q0ms4, A30, k2, aE. fold i0.
    (sp; field). lra.
  Qed.

  Lemma omgcof_spec : G gen_sgp4_omgcof_v1 = bstar * C3 E * cos w0.
  Proof. unfold gen_sgp4_omgcof_v1. rewrite c3_spec. (sp; eq_mod_ring). Qed.

  Lemma xmcof_spec :
    G gen_sgp4_xmcof_v3 = - (2 / 3) * q0ms4 * bstar * (xi E)^4 * (aE / (e0 * eta E)).
  Proof.
    unfold gen_sgp4_xmcof_v3. norm_init. unfold q0ms4, aE. facts. sp.
    (sp; field). split; lra.
  Qed.

  (* e0 <= 1e-4 variant *)
  Lemma small_e_variant :
    G gen_sgp4_c3_v0 = 0 /\ G gen_sgp4_omgcof_v2 = 0 /\ G gen_sgp4_xmcof_v1 = 0.
  Proof. unfold gen_sgp4_c3_v0, gen_sgp4_omgcof_v2, gen_sgp4_xmcof_v1. repeat split; (sp; ring). Qed.

  Lemma pinvsq_spec :
    1 / ((G gen_sgp4_aodp)^2 * (G gen_sgp4_betao2)^2) = 1 / ((a0'' E)^2 * (beta0 E)^4).
  Proof.
    rewrite aodp_spec. unfold gen_sgp4_betao2, beta0. facts. sp.
    sp. replace (sqrt (1 - e0 ^ 2) ^ 4) with ((sqrt (1 - e0 ^ 2) ^ 2) ^ 2) by ring.
    sp. rewrite pow2_sqrt by lra. (sp; eq_mod_ring).
  Qed.

  (* the same, wherever 1 / d occurs with d the product of the two squares in either order *)
  Lemma pinvsq_any d : d = (G gen_sgp4_aodp)^2 * (G gen_sgp4_betao2)^2 -> 1 / d = 1 / ((a0'' E)^2 * (beta0 E)^4).
  Proof. intros ->. apply pinvsq_spec. Qed.
  Ltac pinvsq := repeat match goal with |- context [1 / ?d] => rewrite (pinvsq_any d) by ring end.

  Lemma xmdot_spec : G gen_sgp4_xmdot = Mdot E.
  Proof.
    unfold gen_sgp4_xmdot. cbv zeta. pinvsq. rewrite xnodp_spec.
    unfold gen_sgp4_x3thm1, gen_sgp4_betao, gen_sgp4_betao2. rewrite cosIO_spec.
    unfold Mdot, k2. replace (sqrt (1 - e0 ^ 2)) with (beta0 E) by reflexivity. facts. sp.
    assert (Hb : 0 < beta0 E) by (unfold beta0; sp; apply sqrt_lt_R0; lra).
    (sp; field). split; lra.
  Qed.

  Lemma omgdot_spec : G gen_sgp4_omgdot = wdot E.
  Proof.
    unfold gen_sgp4_omgdot. cbv zeta. pinvsq. rewrite xnodp_spec, cosIO_spec.
    unfold wdot, k2, k4. facts. sp.
    assert (Hb : 0 < beta0 E) by (unfold beta0; sp; apply sqrt_lt_R0; lra).
    (sp; field). split; lra.
  Qed.

  Lemma xhdot1_spec :
    G gen_sgp4_xhdot1 = - 3 * k2 * theta E / ((a0'' E)^2 * (beta0 E)^4) * n0'' E.
  Proof.
    unfold gen_sgp4_xhdot1. pinvsq. rewrite xnodp_spec, cosIO_spec. unfold k2. facts. sp.
    assert (Hb : 0 < beta0 E) by (unfold beta0; sp; apply sqrt_lt_R0; lra).
    (sp; field). split; lra.
  Qed.

  Lemma xnodot_spec : G gen_sgp4_xnodot = Odot E.
  Proof.
    unfold gen_sgp4_xnodot. cbv zeta. rewrite xhdot1_spec. pinvsq. rewrite xnodp_spec, cosIO_spec.
    unfold Odot, k2, k4. facts. sp.
    assert (Hb : 0 < beta0 E) by (unfold beta0; sp; apply sqrt_lt_R0; lra).
    (sp; field). split; lra.
  Qed.

  (* the node's quadratic drag coefficient: -(21/2) n0'' k2 theta / (a0''^2 beta0^2) C1 *)
  Lemma xnodcf_spec :
    G gen_sgp4_xnodcf_v2 =
    - (21 / 2) * (n0'' E * k2 * theta E / ((a0'' E)^2 * (beta0 E)^2)) * C1 E.
  Proof.
    unfold gen_sgp4_xnodcf_v2. rewrite xhdot1_spec, c1_spec. unfold gen_sgp4_betao2, k2. facts. sp.
    assert (Hb : 0 < beta0 E) by (unfold beta0; sp; apply sqrt_lt_R0; lra).
    replace (1 - e0 ^ 2) with ((beta0 E)^2) by (unfold beta0; sp; rewrite pow2_sqrt; lra).
    (sp; field). split; lra.
  Qed.

  Lemma t2cof_spec : G gen_sgp4_t2cof_v2 = (3 / 2) * C1 E.
  Proof. unfold gen_sgp4_t2cof_v2. rewrite c1_spec. (sp; eq_mod_ring). Qed.

  (* long-period coefficients *)
  Lemma xlcof_spec : 1 + theta E <> 0 ->
    G gen_sgp4_xlcof_v1 = (A30 * sin i0) / (8 * k2) * ((3 + 5 * theta E) / (1 + theta E)).
  Proof.
    intros H. unfold gen_sgp4_xlcof_v1, gen_sgp4_sinIO. rewrite ?cosIO_spec, ?oe_incl. half_angle i0.
    replace (cos i0) with (theta E) by reflexivity. unfold A30, k2.
    (sp; field). exact H.
  Qed.

  Lemma aycof_spec : G gen_sgp4_aycof = (A30 * sin i0) / (4 * k2).
  Proof. unfold gen_sgp4_aycof, gen_sgp4_sinIO, A30, k2. rewrite oe_incl. (sp; field). Qed.

  Lemma delmo_spec : G gen_sgp4_delmo_v2 = (1 + eta E * cos M0)^3.
  Proof. unfold gen_sgp4_delmo_v2, gen_sgp4_cosXMO. rewrite eta_spec, oe_ma. (sp; eq_mod_ring). Qed.

  Lemma d2_spec : G gen_sgp4_d2 = D2 E.
  Proof. unfold gen_sgp4_d2. rewrite tsi_spec, aodp_spec, c1_spec. unfold D2. (sp; ring). Qed.

  Lemma d3_spec : G gen_sgp4_d3 = D3 E.
  Proof.
    unfold gen_sgp4_d3. rewrite d2_spec, tsi_spec, aodp_spec, c1_spec, s_const. unfold D3, D2. (sp; field).
  Qed.

  Lemma d4_spec : G gen_sgp4_d4 = D4 E.
  Proof.
    unfold gen_sgp4_d4. cbv zeta. rewrite d2_spec, tsi_spec, aodp_spec, c1_spec.
    replace (13342679 / 425209) with (31 * s_param) by (unfold s_param, XKMPER, aE; field).
    unfold D4, D2. (sp; field).
  Qed.

  Lemma t3cof_spec : G gen_sgp4_t3cof = D2 E + 2 * (C1 E)^2.
  Proof. unfold gen_sgp4_t3cof. rewrite d2_spec, c1_spec. (sp; eq_mod_ring). Qed.
  Lemma t4cof_spec : G gen_sgp4_t4cof =
    (1 / 4) * (3 * D3 E + 12 * C1 E * D2 E + 10 * (C1 E)^3).
  Proof. unfold gen_sgp4_t4cof. rewrite d3_spec, d2_spec, c1_spec. (sp; ring). Qed.
  Lemma t5cof_spec : G gen_sgp4_t5cof =
    (1 / 5) * (3 * D4 E + 12 * C1 E * D3 E + 6 * (D2 E)^2
               + 30 * (C1 E)^2 * D2 E + 15 * (C1 E)^4).
  Proof. unfold gen_sgp4_t5cof. cbv zeta. rewrite d4_spec, d3_spec, d2_spec, c1_spec. (sp; ring). Qed.
End Init.
