(* The Newton-Raphson loop of SGP4's Kepler solver (second-order step, as in the code) converges quadratically when
   eL = sqrt(axN^2 + ayN^2) <= 2/5: with e = E - E* the error of an iterate,
        |e'| <= (43/50) e^2        whenever |e| <= 2/5,
   the first-step clamp of the code (|f/df| > 1.25 eL) is never active, and the residual is at most (1 + eL) |e|.
   Pure analysis over R (mean value theorem only); kf, dkf, q are those of P_Kepler. *)
From Coq Require Import Reals Lra.
From Coquelicot Require Import Coquelicot.
From PyOrb.proofs Require Import P_Kepler.
Open Scope R_scope.

Section Newton.
  Variables X Y : R.
  Hypothesis HXY : X ^ 2 + Y ^ 2 <= 4 / 25.

  Let qq := q X Y.
  Lemma HXY1 : X ^ 2 + Y ^ 2 < 1. Proof. lra. Qed.
  Lemma qq_ge0 : 0 <= qq. Proof. apply q_ge0. Qed.
  Lemma qq_le : qq <= 2 / 5.
  Proof.
    unfold qq, q. replace (2 / 5) with (sqrt ((2 / 5) * (2 / 5))) by (rewrite sqrt_square; lra).
    apply sqrt_le_1_alt. lra.
  Qed.

  Definition esf (x : R) : R := X * sin x - Y * cos x.          (* e sin E = kf'' *)
  Lemma esf_bound x : Rabs (esf x) <= qq.
  Proof.
    unfold esf. assert (Hu : sin x ^ 2 + (- cos x) ^ 2 = 1) by (pose proof (sincos1 x); nra).
    pose proof (lin_bound X Y (sin x) (- cos x) Hu) as Hb.
    replace (X * sin x - Y * cos x) with (X * sin x + Y * - cos x) by ring. exact Hb.
  Qed.

  Lemma dkf_is_derive x : is_derive (dkf X Y) x (esf x).
  Proof. unfold dkf, esf. auto_derive; [exact I|ring]. Qed.

  Lemma dkf_upper x : dkf X Y x <= 1 + qq.
  Proof.
    unfold dkf. pose proof (lin_bound X Y (cos x) (sin x) (sincos1 x)) as H. apply Rabs_le_between in H. fold qq in H. lra.
  Qed.
  Lemma dkf_lower' x : 1 - qq <= dkf X Y x.
  Proof. apply dkf_lower. Qed.

  (* dkf is qq-Lipschitz *)
  Lemma dkf_lip x y : Rabs (dkf X Y x - dkf X Y y) <= qq * Rabs (x - y).
  Proof.
    destruct (MVT_gen (dkf X Y) y x esf) as [c [_ Hc]].
    - intros z _. apply dkf_is_derive.
    - intros z _. apply derivable_continuous_pt. apply ex_derive_Reals_0. exists (esf z). apply dkf_is_derive.
    - rewrite Hc, Rabs_mult. apply Rmult_le_compat_r; [apply Rabs_pos|apply esf_bound].
  Qed.

  (* second-order Taylor bound: |kf x - kf E - dkf E (x - E)| <= (qq / 2) (x - E)^2 *)
  Section Taylor.
    Variable E : R.
    Let chi (s : R) (x : R) : R := kf X Y x - kf X Y E - dkf X Y E * (x - E) - s * (qq / 2) * (x - E) ^ 2.
    Let dchi (s : R) (x : R) : R := dkf X Y x - dkf X Y E - s * qq * (x - E).

    Lemma chi_is_derive s x : is_derive (chi s) x (dchi s x).
    Proof.
      unfold chi, dchi, kf, dkf. auto_derive; [exact I|field].
    Qed.
    Lemma chi_cont s x : continuity_pt (chi s) x.
    Proof. apply derivable_continuous_pt. apply ex_derive_Reals_0. exists (dchi s x). apply chi_is_derive. Qed.
    Lemma chi_E s : chi s E = 0.
    Proof. unfold chi. ring. Qed.

    Lemma taylor_upper x : kf X Y x - kf X Y E - dkf X Y E * (x - E) <= qq / 2 * (x - E) ^ 2.
    Proof.
      assert (H : chi 1 x <= 0); [|unfold chi in H; lra].
      destruct (MVT_gen (chi 1) E x (dchi 1)) as [c [Hc Heq]].
      - intros z _. apply chi_is_derive.
      - intros z _. apply chi_cont.
      - rewrite chi_E in Heq. replace (chi 1 x) with (dchi 1 c * (x - E)) by lra.
        pose proof (dkf_lip c E) as HL. apply Rabs_le_between in HL. unfold dchi. pose proof qq_ge0.
        unfold Rmin, Rmax in Hc. destruct (Rle_dec E x) as [Hle|Hgt].
        + (* E <= c <= x : dchi <= 0, x - E >= 0 *)
          rewrite (Rabs_pos_eq (c - E)) in HL by lra. nra.
        + (* x <= c <= E : dchi >= 0, x - E <= 0 *)
          rewrite (Rabs_left1 (c - E)) in HL by lra. nra.
    Qed.

    Lemma taylor_lower x : - (qq / 2 * (x - E) ^ 2) <= kf X Y x - kf X Y E - dkf X Y E * (x - E).
    Proof.
      assert (H : 0 <= chi (-1) x); [|unfold chi in H; lra].
      destruct (MVT_gen (chi (-1)) E x (dchi (-1))) as [c [Hc Heq]].
      - intros z _. apply chi_is_derive.
      - intros z _. apply chi_cont.
      - rewrite chi_E in Heq. replace (chi (-1) x) with (dchi (-1) c * (x - E)) by lra.
        pose proof (dkf_lip c E) as HL. apply Rabs_le_between in HL. unfold dchi. pose proof qq_ge0.
        unfold Rmin, Rmax in Hc. destruct (Rle_dec E x) as [Hle|Hgt].
        + rewrite (Rabs_pos_eq (c - E)) in HL by lra. nra.
        + rewrite (Rabs_left1 (c - E)) in HL by lra. nra.
    Qed.

    Lemma taylor2 x : Rabs (kf X Y x - kf X Y E - dkf X Y E * (x - E)) <= qq / 2 * (x - E) ^ 2.
    Proof. apply Rabs_le. split; [apply taylor_lower|apply taylor_upper]. Qed.
  End Taylor.

  (* the residual is at most (1 + qq) times the error *)
  Lemma residual_le (E Es : R) : Rabs (kf X Y Es - kf X Y E) <= (1 + qq) * Rabs (E - Es).
  Proof.
    destruct (MVT_gen (kf X Y) E Es (dkf X Y)) as [c [_ Hc]].
    - intros z _. apply kf_is_derive.
    - intros z _. apply kf_continuity.
    - rewrite Hc, Rabs_mult, (Rabs_minus_sym Es E).
      pose proof (dkf_upper c). pose proof (dkf_lower' c). pose proof qq_le. pose proof qq_ge0.
      rewrite (Rabs_pos_eq (dkf X Y c)) by lra. apply Rmult_le_compat_r; [apply Rabs_pos|lra].
  Qed.

  (* one step of the code: f = U - kf E, df = dkf E, nr = f / df, step = f / (df + esf E / 2 * nr) *)
  Definition nr1 (U E : R) : R := (U - kf X Y E) / dkf X Y E.
  Definition halley (U E : R) : R := (U - kf X Y E) / (dkf X Y E + 1 / 2 * esf E * nr1 U E).

  Section Step.
    Variables U E Es : R.
    Hypothesis Hroot : kf X Y Es = U.
    Hypothesis He : Rabs (E - Es) <= 2 / 5.

    Let e := E - Es.
    Let gp := dkf X Y E.
    Let R2 := kf X Y Es - kf X Y E - gp * (Es - E).        (* Taylor remainder at E, evaluated at Es *)

    Lemma gp_bounds : 3 / 5 <= gp <= 7 / 5.
    Proof. unfold gp. pose proof (dkf_upper E). pose proof (dkf_lower' E). pose proof qq_le. pose proof qq_ge0. lra. Qed.

    Lemma R2_bound : Rabs R2 <= 1 / 5 * e ^ 2.
    Proof.
      unfold R2, gp. pose proof (taylor2 E Es) as H. pose proof qq_le. pose proof qq_ge0.
      replace ((Es - E) ^ 2) with (e ^ 2) in H by (unfold e; ring).
      pose proof (pow2_ge_0 e). apply Rle_trans with (1 := H). nra.
    Qed.

    Lemma f_eq : U - kf X Y E = R2 - gp * e.
    Proof. unfold R2, e. rewrite <- Hroot. ring. Qed.

    Lemma nr1_eq : nr1 U E = R2 / gp - e.
    Proof. unfold nr1. fold gp. rewrite f_eq. pose proof gp_bounds. field. lra. Qed.

    Lemma e2_le : e ^ 2 <= 2 / 5 * Rabs e.
    Proof. rewrite <- pow2_abs. unfold e in *. pose proof (Rabs_pos (E - Es)). nra. Qed.

    Lemma nr1_bound : Rabs (nr1 U E) <= 17 / 15 * Rabs e.
    Proof.
      rewrite nr1_eq. pose proof gp_bounds as Hg. pose proof R2_bound as HR. pose proof e2_le as He2.
      assert (H1 : Rabs (R2 / gp) <= 1 / 3 * e ^ 2).
      { unfold Rdiv. rewrite Rabs_mult, (Rabs_pos_eq (/ gp)) by (apply Rlt_le, Rinv_0_lt_compat; lra).
        assert (/ gp <= / (3 / 5)) by (apply Rinv_le_contravar; lra).
        assert (0 < / gp) by (apply Rinv_0_lt_compat; lra). pose proof (Rabs_pos R2). pose proof (pow2_ge_0 e).
        replace (/ (3 / 5)) with (5 / 3) in * by field. nra. }
      apply Rle_trans with (Rabs (R2 / gp) + Rabs e).
      - replace (R2 / gp - e) with (R2 / gp + - e) by ring. apply Rle_trans with (1 := Rabs_triang _ _). rewrite Rabs_Ropp. lra.
      - pose proof (Rabs_pos e). lra.
    Qed.

    (* the clamp of the first iteration compares |nr| with 1.25 eL: not active when the start is within eL of the root *)
    Lemma clamp_inactive : Rabs e <= qq -> Rabs (nr1 U E) <= 5 / 4 * qq.
    Proof. intros H. pose proof nr1_bound. pose proof (Rabs_pos e). lra. Qed.

    Let D := gp + 1 / 2 * esf E * nr1 U E.
    Lemma D_lower : 1 / 2 <= D.
    Proof.
      unfold D. pose proof gp_bounds. pose proof (esf_bound E) as Hs. pose proof nr1_bound as Hn. pose proof qq_le. pose proof qq_ge0.
      assert (Hp : Rabs (esf E * nr1 U E) <= 2 / 5 * (17 / 15 * (2 / 5))).
      { rewrite Rabs_mult. assert (Hee : Rabs e <= 2 / 5) by exact He.
        apply Rmult_le_compat; [apply Rabs_pos|apply Rabs_pos|lra|lra]. }
      apply Rabs_le_between in Hp. lra.
    Qed.

    Theorem halley_quadratic : Rabs (E + halley U E - Es) <= 43 / 50 * e ^ 2.
    Proof.
      pose proof D_lower as HD. pose proof gp_bounds as Hg.
      assert (Heq : E + halley U E - Es = (R2 + 1 / 2 * e * esf E * nr1 U E) / D).
      { unfold halley. fold gp. rewrite f_eq. unfold D in *. unfold e. field. lra. }
      rewrite Heq. unfold Rdiv. rewrite Rabs_mult, (Rabs_pos_eq (/ D)) by (apply Rlt_le, Rinv_0_lt_compat; lra).
      assert (HiD : / D <= 2) by (replace 2 with (/ (1 / 2)) by field; apply Rinv_le_contravar; lra).
      assert (HiD0 : 0 < / D) by (apply Rinv_0_lt_compat; lra).
      assert (Hnum : Rabs (R2 + 1 / 2 * e * esf E * nr1 U E) <= (1 / 5 + 1 / 2 * (2 / 5) * (17 / 15)) * e ^ 2).
      { apply Rle_trans with (1 := Rabs_triang _ _). pose proof R2_bound as HR.
        assert (H2 : Rabs (1 / 2 * e * esf E * nr1 U E) <= 1 / 2 * (2 / 5) * (17 / 15) * e ^ 2).
        { replace (1 / 2 * e * esf E * nr1 U E) with (1 / 2 * (e * (esf E * nr1 U E))) by ring.
          rewrite Rabs_mult, (Rabs_pos_eq (1 / 2)) by lra. rewrite !Rabs_mult.
          pose proof (esf_bound E) as Hs. pose proof nr1_bound as Hn. pose proof qq_le. pose proof qq_ge0.
          pose proof (Rabs_pos e). pose proof (Rabs_pos (esf E)). pose proof (Rabs_pos (nr1 U E)).
          assert (Hee : Rabs e * Rabs e = e ^ 2) by (rewrite <- pow2_abs; ring).
          assert (Rabs (esf E) * Rabs (nr1 U E) <= 2 / 5 * (17 / 15 * Rabs e)) by nra.
          nra. }
        lra. }
      pose proof (Rabs_pos (R2 + 1 / 2 * e * esf E * nr1 U E)). pose proof (pow2_ge_0 e). nra.
    Qed.
  End Step.
End Newton.
