(* P_TleText.v — decode (M_TleText) of encode (Spec_TLE) is `values`, for every well-formed
   field record; the epoch; strip; the whole constructor. *)
From Coq Require Import List ZArith Ascii Bool Lia.
From PyOrb.spec Require Import Spec_Time Spec_TLE.
From PyOrb.model Require Import M_Checksum M_TleText.
From PyOrb.proofs Require Import P_Checksum.
Import ListNotations.
Open Scope Z_scope.

(* ------------------------------------------------------------------ *)
(* characters                                                          *)
(* ------------------------------------------------------------------ *)
Lemma is_digit_dchar d : is_digit (dchar d) = true.
Proof. destruct d; reflexivity. Qed.
Lemma digit_val_dchar d : digit_val (dchar d) = dval d.
Proof. destruct d; reflexivity. Qed.
Lemma is_space_dchar d : is_space (dchar d) = false.
Proof. destruct d; reflexivity. Qed.
Lemma dchar_not_minus d : Ascii.eqb (dchar d) "-" = false.
Proof. destruct d; reflexivity. Qed.
Lemma dchar_not_plus d : Ascii.eqb (dchar d) "+" = false.
Proof. destruct d; reflexivity. Qed.
Lemma dval_range d : 0 <= dval d <= 9.
Proof. destruct d; cbn; lia. Qed.

Lemma num_acc ds : forall a,
  fold_left (fun a c => 10 * a + digit_val c) (dtext ds) a = fold_left (fun a d => 10 * a + dval d) ds a.
Proof.
  induction ds as [|d t IH]; intros a; cbn [dtext map fold_left]; [reflexivity|].
  rewrite digit_val_dchar. apply IH.
Qed.
Lemma num_dtext ds : num (dtext ds) = zdigits ds.
Proof. unfold num, zdigits. apply num_acc. Qed.

Lemma zdigits_acc_nonneg ds : forall a, 0 <= a -> 0 <= fold_left (fun a d => 10 * a + dval d) ds a.
Proof.
  induction ds as [|d t IH]; intros a Ha; cbn [fold_left]; [exact Ha|].
  apply IH. pose proof (dval_range d). lia.
Qed.
Lemma zdigits_nonneg ds : 0 <= zdigits ds.
Proof. unfold zdigits. apply zdigits_acc_nonneg. lia. Qed.

Lemma dtext_app a b : dtext (a ++ b) = dtext a ++ dtext b.
Proof. unfold dtext. apply map_app. Qed.
Lemma dtext_length a : length (dtext a) = length a.
Proof. unfold dtext. apply map_length. Qed.
Lemma blanks_length n : length (blanks n) = n.
Proof. unfold blanks. apply repeat_length. Qed.
Lemma forallb_digit_dtext ds : forallb is_digit (dtext ds) = true.
Proof. induction ds as [|d t IH]; cbn; [reflexivity|]. rewrite is_digit_dchar. exact IH. Qed.

(* ------------------------------------------------------------------ *)
(* span_digits / take_sign                                             *)
(* ------------------------------------------------------------------ *)
(* r does not start with a digit *)
Definition nd (r : list ascii) : Prop := match r with c :: _ => is_digit c = false | [] => True end.

Lemma span_digits_dtext ds r : nd r -> span_digits (dtext ds ++ r) = (dtext ds, r).
Proof.
  intros Hr. induction ds as [|d t IH]; cbn [dtext map app].
  - destruct r as [|c r']; cbn [span_digits]; [reflexivity|]. cbn in Hr. rewrite Hr. reflexivity.
  - cbn [span_digits]. rewrite is_digit_dchar. fold (dtext t). rewrite IH. reflexivity.
Qed.

(* the sign as it appears after stripping: nothing, '+' or '-' *)
Definition stext (s : sign) : list ascii :=
  match s with Sblank => [] | Splus => ["+"%char] | Sminus => ["-"%char] end.
(* r does not start with a sign character *)
Definition ns (r : list ascii) : Prop :=
  match r with c :: _ => Ascii.eqb c "-" = false /\ Ascii.eqb c "+" = false | [] => True end.

Lemma take_sign_ns r : ns r -> take_sign r = (false, r).
Proof.
  destruct r as [|c t]; cbn; [reflexivity|]. intros [H1 H2]. rewrite H1, H2. reflexivity.
Qed.
Lemma take_sign_stext s r : ns r -> take_sign (stext s ++ r) = (sign_neg s, r).
Proof.
  intros Hr. destruct s; cbn [stext app sign_neg]; [apply take_sign_ns, Hr| |]; reflexivity.
Qed.
Lemma ns_dtext_dot ip r : ns (dtext ip ++ "."%char :: r).
Proof.
  destruct ip as [|d t]; cbn; [split; reflexivity|]. split; [apply dchar_not_minus|apply dchar_not_plus].
Qed.
Lemma ns_dtext_cons d t r : ns (dtext (d :: t) ++ r).
Proof. cbn. split; [apply dchar_not_minus|apply dchar_not_plus]. Qed.

(* ------------------------------------------------------------------ *)
(* strip                                                               *)
(* ------------------------------------------------------------------ *)
Definition nospace (l : list ascii) : bool := forallb (fun c => negb (is_space c)) l.

Lemma lstrip_blanks n l : lstrip (blanks n ++ l) = lstrip l.
Proof. induction n as [|n IH]; cbn; [reflexivity|exact IH]. Qed.
Lemma lstrip_nospace l : nospace l = true -> lstrip l = l.
Proof.
  destruct l as [|c t]; cbn; [reflexivity|]. intros H. apply andb_true_iff in H as [H _].
  destruct (is_space c); [discriminate|reflexivity].
Qed.
Lemma nospace_rev l : nospace l = true -> nospace (rev l) = true.
Proof.
  unfold nospace. intros H. apply forallb_forall. intros x Hx. apply in_rev in Hx.
  rewrite forallb_forall in H. apply H, Hx.
Qed.
Lemma nospace_app a b : nospace (a ++ b) = (nospace a && nospace b)%bool.
Proof. unfold nospace. apply forallb_app. Qed.
Lemma nospace_dtext ds : nospace (dtext ds) = true.
Proof. induction ds as [|d t IH]; cbn; [reflexivity|]. rewrite is_space_dchar. exact IH. Qed.
Lemma strip_nospace l : nospace l = true -> strip l = l.
Proof.
  intros H. unfold strip. rewrite (lstrip_nospace l H).
  rewrite (lstrip_nospace (rev l) (nospace_rev l H)). apply rev_involutive.
Qed.
Lemma strip_pad n l : nospace l = true -> strip (blanks n ++ l) = l.
Proof.
  intros H. unfold strip. rewrite lstrip_blanks, (lstrip_nospace l H).
  rewrite (lstrip_nospace (rev l) (nospace_rev l H)). apply rev_involutive.
Qed.

(* characterisation of strip (for C02_strip): surrounding whitespace is removed, nothing else *)
Definition allspace (l : list ascii) : bool := forallb is_space l.
Lemma lstrip_allspace pre l : allspace pre = true -> lstrip (pre ++ l) = lstrip l.
Proof.
  induction pre as [|c t IH]; cbn; [reflexivity|]. intros H. apply andb_true_iff in H as [H1 H2].
  rewrite H1. apply IH, H2.
Qed.
Lemma allspace_rev l : allspace l = true -> allspace (rev l) = true.
Proof.
  unfold allspace. intros H. apply forallb_forall. intros x Hx. apply in_rev in Hx.
  rewrite forallb_forall in H. apply H, Hx.
Qed.
(* body neither starts nor ends with whitespace *)
Definition trimmed (body : list ascii) : Prop :=
  lstrip body = body /\ lstrip (rev body) = rev body.
Lemma strip_spec pre body post :
  allspace pre = true -> allspace post = true -> trimmed body ->
  strip (pre ++ body ++ post) = body.
Proof.
  intros Hpre Hpost [Hb Hr]. unfold strip.
  destruct body as [|c t].
  - cbn [app]. rewrite lstrip_allspace by exact Hpre.
    assert (E : lstrip post = []).
    { clear -Hpost. induction post as [|c t IH]; cbn; [reflexivity|].
      cbn in Hpost. apply andb_true_iff in Hpost as [H1 H2]. rewrite H1. apply IH, H2. }
    rewrite E. reflexivity.
  - rewrite lstrip_allspace by exact Hpre.
    assert (E : lstrip ((c :: t) ++ post) = (c :: t) ++ post).
    { cbn [app lstrip] in *. destruct (is_space c); [|reflexivity].
      exfalso. assert (L : (length (lstrip t) <= length t)%nat).
      { clear. induction t as [|x y IH]; cbn; [lia|]. destruct (is_space x); cbn; lia. }
      rewrite Hb in L. cbn in L. lia. }
    rewrite E, rev_app_distr, lstrip_allspace by (apply allspace_rev, Hpost).
    rewrite Hr. apply rev_involutive.
Qed.
Lemma trimmed_ends c mid d :
  is_space c = false -> is_space d = false -> trimmed (c :: mid ++ [d]).
Proof.
  intros Hc Hd. split.
  - cbn. rewrite Hc. reflexivity.
  - cbn [rev]. rewrite rev_app_distr. cbn. rewrite Hd. reflexivity.
Qed.

(* ------------------------------------------------------------------ *)
(* converters on printed fields                                        *)
(* ------------------------------------------------------------------ *)
Lemma float_body_main s ip fp tail ev :
  ip ++ fp <> [] -> nd tail -> float_exp tail = Some ev ->
  float_body (stext s ++ dtext ip ++ "."%char :: dtext fp ++ tail)
  = Some (mkdec (sign_neg s) (zdigits (ip ++ fp)) (ev - Z.of_nat (length fp))).
Proof.
  intros Hne Hnd Hexp. unfold float_body.
  rewrite take_sign_stext by apply ns_dtext_dot.
  rewrite span_digits_dtext by reflexivity.
  change (Ascii.eqb "." ".") with true. cbv iota.
  rewrite span_digits_dtext by exact Hnd.
  rewrite <- dtext_app, Hexp, num_dtext, dtext_length.
  destruct (ip ++ fp) as [|d t] eqn:E; [contradiction|]. reflexivity.
Qed.

Lemma nospace_fixed_body ip fp : nospace (dtext ip ++ "."%char :: dtext fp) = true.
Proof. rewrite nospace_app, nospace_dtext. cbn. apply nospace_dtext. Qed.

Lemma py_float_fixed wi wfr x :
  fixed_wf wi (S wfr) x = true -> py_float (fixed_text x) = Some (fixed_val x).
Proof.
  intros H. apply andb_true_iff in H as [_ Hf]. apply Nat.eqb_eq in Hf.
  unfold py_float, fixed_text, fixed_val, fixed_digits.
  rewrite strip_pad by apply nospace_fixed_body.
  pose proof (float_body_main Sblank (fx_int x) (fx_frac x) [] 0) as M.
  cbn [stext app sign_neg] in M. rewrite app_nil_r in M. rewrite M.
  - reflexivity.
  - destruct (fx_frac x); [discriminate|]. intros E. apply app_eq_nil in E as [_ E]. discriminate.
  - exact I.
  - reflexivity.
Qed.

Lemma py_float_sfrac w x :
  sfrac_wf (S w) x = true -> py_float (sfrac_text x) = Some (sfrac_val x).
Proof.
  intros H. apply Nat.eqb_eq in H. unfold py_float, sfrac_text, sfrac_val.
  assert (NE : [] ++ sf_frac x <> []) by (cbn; destruct (sf_frac x); [discriminate|discriminate]).
  pose proof (float_body_main (sf_sign x) [] (sf_frac x) [] 0 NE I eq_refl) as M.
  cbn [dtext map app] in M. rewrite app_nil_r in M.
  assert (S : strip (sign_char (sf_sign x) :: "."%char :: dtext (sf_frac x))
              = stext (sf_sign x) ++ "."%char :: dtext (sf_frac x)).
  { destruct (sf_sign x); cbn [sign_char stext app].
    - apply (strip_pad 1). apply (nospace_fixed_body [] (sf_frac x)).
    - apply strip_nospace. apply (nospace_fixed_body [] (sf_frac x)).
    - apply strip_nospace. apply (nospace_fixed_body [] (sf_frac x)). }
  rewrite S. exact M.
Qed.

Lemma float_exp_canon (eneg : bool) (d : digit) :
  float_exp ("e"%char :: [if eneg then "-"%char else "+"%char; dchar d])
  = Some (if eneg then - dval d else dval d).
Proof.
  unfold float_exp. change (Ascii.eqb "e" "e" || Ascii.eqb "e" "E")%bool with true. cbv iota.
  assert (T : take_sign [if eneg then "-"%char else "+"%char; dchar d] = (eneg, [dchar d])).
  { destruct eneg; reflexivity. }
  rewrite T.
  pose proof (span_digits_dtext [d] [] I) as Sp. cbn [dtext map app] in Sp. rewrite Sp.
  change [dchar d] with (dtext [d]). rewrite num_dtext. unfold zdigits. cbn [fold_left].
  destruct eneg; f_equal; lia.
Qed.

Lemma read_tle_decimal_expo x :
  expo_wf x = true -> read_tle_decimal (expo_text x) = Some (expo_val x).
Proof.
  intros H. apply Nat.eqb_eq in H. unfold expo_text, expo_val.
  destruct (ex_mant x) as [|a [|b [|c [|d [|e [|g m]]]]]] eqn:Em; try discriminate H. clear H.
  set (es := if ex_eneg x then "-"%char else "+"%char).
  assert (C0 : (Ascii.eqb (sign_char (ex_sign x)) "-" || Ascii.eqb (sign_char (ex_sign x)) " "
                || Ascii.eqb (sign_char (ex_sign x)) "+")%bool = true) by (destruct (ex_sign x); reflexivity).
  unfold read_tle_decimal. cbn [dtext map app length Nat.sub skipn firstn]. rewrite C0.
  change [dchar a; dchar b; dchar c; dchar d; dchar e] with (dtext [a; b; c; d; e]).
  rewrite (strip_nospace _ (nospace_dtext _)).
  assert (NE : [] ++ [a; b; c; d; e] <> []) by discriminate.
  pose proof (float_body_main (ex_sign x) [] [a; b; c; d; e]
                ("e"%char :: [if ex_eneg x then "-"%char else "+"%char; dchar (ex_edig x)]) _
                NE eq_refl (float_exp_canon (ex_eneg x) (ex_edig x))) as M.
  fold es in M. change (dtext [] ++ ?r) with r in M.
  assert (NS : nospace ("."%char :: dtext [a; b; c; d; e] ++ ["e"%char; es; dchar (ex_edig x)]) = true).
  { cbn. rewrite !is_space_dchar. destruct (ex_eneg x); reflexivity. }
  unfold py_float.
  assert (S : strip (sign_char (ex_sign x) :: "."%char :: dtext [a; b; c; d; e] ++ ["e"%char; es; dchar (ex_edig x)])
              = stext (ex_sign x) ++ "."%char :: dtext [a; b; c; d; e] ++ ["e"%char; es; dchar (ex_edig x)]).
  { destruct (ex_sign x); cbn [sign_char stext app].
    - apply (strip_pad 1), NS.
    - apply strip_nospace. cbn [nospace forallb] in *. exact NS.
    - apply strip_nospace. cbn [nospace forallb] in *. exact NS. }
  rewrite S, M. reflexivity.
Qed.

Lemma py_int_padint w p :
  padint_wf w p = true -> py_int (padint_text p) = Some (padint_val p).
Proof.
  intros H. apply andb_true_iff in H as [_ H]. apply Nat.leb_le in H.
  unfold py_int, padint_text, padint_val.
  rewrite strip_pad by apply nospace_dtext.
  destruct (pi_digs p) as [|d t] eqn:E; [cbn in H; lia|].
  rewrite take_sign_ns by (rewrite <- (app_nil_r (dtext (d :: t))); apply ns_dtext_cons).
  rewrite forallb_digit_dtext, num_dtext. reflexivity.
Qed.

Lemma ecc_of_digits p : ecc_of_int (padint_val p) = mkdec false (padint_val p) (-7).
Proof.
  unfold ecc_of_int, padint_val. pose proof (zdigits_nonneg (pi_digs p)) as N.
  rewrite Z.abs_eq by exact N. f_equal. apply Z.ltb_ge, N.
Qed.

Lemma etype_value (o : option digit) :
  match py_int [match o with Some d => dchar d | None => " "%char end] with Some v => v | None => 0 end
  = match o with Some d => dval d | None => 0 end.
Proof.
  destruct o as [d|]; [|reflexivity].
  pose proof (py_int_padint 1 (mkpad 0 [d]) eq_refl) as P.
  cbn [padint_text pi_pad pi_digs blanks repeat app dtext map] in P. rewrite P.
  unfold padint_val, zdigits. cbn. reflexivity.
Qed.

(* the year: model's datetime(y,1,1) = the spec's civil date arithmetic, for the 100 years a
   two-digit year can denote (finite sweep) *)
Definition all_digits : list digit := [D0; D1; D2; D3; D4; D5; D6; D7; D8; D9].
Lemma in_all_digits d : In d all_digits.
Proof. destruct d; cbn; tauto. Qed.
Lemma jan1_sweep :
  forallb (fun a => forallb (fun b =>
     jan1_us (pivot (zdigits [a; b])) =? civil_us (pivot (zdigits [a; b])) 1 1 0 0 0 0) all_digits) all_digits = true.
Proof. vm_compute. reflexivity. Qed.
Lemma jan1_spec a b : jan1_us (pivot (zdigits [a; b])) = civil_us (pivot (zdigits [a; b])) 1 1 0 0 0 0.
Proof.
  pose proof jan1_sweep as H. rewrite forallb_forall in H. specialize (H a (in_all_digits a)).
  rewrite forallb_forall in H. specialize (H b (in_all_digits b)). apply Z.eqb_eq, H.
Qed.

Lemma strptime_y_digits a b : strptime_y (dtext [a; b]) = Some (pivot (zdigits [a; b])).
Proof.
  cbn [dtext map strptime_y]. rewrite !is_digit_dchar, !digit_val_dchar. cbn [andb].
  unfold pivot, zdigits. cbn [fold_left]. replace (10 * (10 * 0 + dval a) + dval b) with (10 * dval a + dval b) by lia.
  reflexivity.
Qed.

Lemma epoch_q_eday f a b :
  fixed_wf 3 8 (f_eday f) = true -> f_eyear f = [a; b] ->
  epoch_q (pivot (zdigits [a; b])) (fixed_val (f_eday f)) = (10 ^ 8 * spec_epoch_us f, 10 ^ 8).
Proof.
  intros H Ey. apply andb_true_iff in H as [_ H]. apply Nat.eqb_eq in H.
  unfold epoch_q, fixed_val, spec_epoch_us. cbn [neg mant e10]. rewrite H, Ey, jan1_spec.
  change (0 <=? - Z.of_nat 8) with false. cbv iota.
  change (- - Z.of_nat 8) with 8. cbv zeta.
  f_equal. change (10 ^ 8) with 100000000. lia.
Qed.

(* ------------------------------------------------------------------ *)
(* slices of a concatenation of segments                               *)
(* ------------------------------------------------------------------ *)
Lemma firstn_len_app (a b : list ascii) : firstn (length a) (a ++ b) = a.
Proof. induction a as [|x t IH]; cbn; [reflexivity|]. rewrite IH. reflexivity. Qed.
Lemma skipn_len_app (a r : list ascii) p : skipn (length a + p) (a ++ r) = skipn p r.
Proof. induction a as [|x t IH]; cbn; [reflexivity|exact IH]. Qed.
Lemma slice_app_skip (a r : list ascii) p q : slice (length a + p) (length a + q) (a ++ r) = slice p q r.
Proof.
  unfold slice. rewrite skipn_len_app. replace (length a + q - (length a + p))%nat with (q - p)%nat by lia.
  reflexivity.
Qed.

Lemma slice_seg : forall (segs : list (list ascii)) tl i, (i < length segs)%nat ->
  slice (list_sum (firstn i (map (@length ascii) segs)))
        (list_sum (firstn i (map (@length ascii) segs)) + length (nth i segs []))
        (concat segs ++ tl) = nth i segs [].
Proof.
  induction segs as [|s rest IH]; intros tl i Hi; cbn [length] in Hi; [lia|].
  destruct i as [|j]; cbn [map firstn list_sum concat nth].
  - change (list_sum []) with 0%nat. unfold slice. cbn [skipn]. rewrite Nat.add_0_l, Nat.sub_0_r, <- app_assoc. apply firstn_len_app.
  - change (list_sum (length s :: firstn j (map (@length ascii) rest)))
      with (length s + list_sum (firstn j (map (@length ascii) rest)))%nat.
    rewrite <- app_assoc, <- Nat.add_assoc, slice_app_skip. apply IH. lia.
Qed.

Lemma slice_seg' (segs : list (list ascii)) lens tl i a b :
  map (@length ascii) segs = lens -> (i < length lens)%nat ->
  a = list_sum (firstn i lens) -> b = (a + nth i lens 0)%nat ->
  slice a b (concat segs ++ tl) = nth i segs [].
Proof.
  intros Hl Hi -> ->. subst lens. rewrite map_length in Hi.
  replace (nth i (map (@length ascii) segs) 0%nat) with (length (nth i segs [])).
  - apply slice_seg, Hi.
  - change 0%nat with (length (@nil ascii)). symmetry. apply map_nth.
Qed.

Lemma index_of_slice (l : list ascii) i c : slice i (S i) l = [c] -> index l i = Some c.
Proof.
  unfold slice, index. replace (S i - i)%nat with 1%nat by lia.
  revert l. induction i as [|j IH]; intros l H.
  - destruct l as [|x t]; cbn in *; [discriminate|]. inversion H. reflexivity.
  - destruct l as [|x t]; cbn [skipn nth_error] in *; [discriminate|]. apply IH, H.
Qed.

(* ------------------------------------------------------------------ *)
(* field lengths and the slice table on encoded lines                  *)
(* ------------------------------------------------------------------ *)
Lemma fixed_text_length wi wfr x : fixed_wf wi wfr x = true -> length (fixed_text x) = (wi + 1 + wfr)%nat.
Proof.
  intros H. apply andb_true_iff in H as [H1 H2]. apply Nat.eqb_eq in H1. apply Nat.eqb_eq in H2.
  unfold fixed_text. rewrite !app_length. cbn [length]. rewrite blanks_length, !dtext_length. lia.
Qed.
Lemma padint_text_length w p : padint_wf w p = true -> length (padint_text p) = w.
Proof.
  intros H. apply andb_true_iff in H as [H1 _]. apply Nat.eqb_eq in H1.
  unfold padint_text. rewrite app_length, blanks_length, dtext_length. exact H1.
Qed.
Lemma sfrac_text_length w x : sfrac_wf w x = true -> length (sfrac_text x) = (2 + w)%nat.
Proof. intros H. apply Nat.eqb_eq in H. unfold sfrac_text. cbn [length]. rewrite dtext_length. lia. Qed.
Lemma expo_text_length x : expo_wf x = true -> length (expo_text x) = 8%nat.
Proof.
  intros H. apply Nat.eqb_eq in H. unfold expo_text. cbn [length]. rewrite app_length, dtext_length. cbn. lia.
Qed.
Lemma text_wf_length w s : text_wf w s = true -> length s = w.
Proof. intros H. apply andb_true_iff in H as [H _]. apply Nat.eqb_eq, H. Qed.

Definition lens1 : list nat := [1; 1; 5; 1; 1; 2; 3; 3; 1; 2; 12; 1; 10; 1; 8; 1; 8; 1; 1; 1; 4]%nat.
Definition lens2 : list nat := [1; 1; 5; 1; 8; 1; 8; 1; 7; 1; 8; 1; 8; 1; 11; 5]%nat.

Record wf_facts (f : fields) : Prop := {
  w_sat : text_wf 5 (f_satnum f) = true;
  w_cls : Spec_TLE.printable (f_class f) = true;
  w_ly : text_wf 2 (f_lyear f) = true;
  w_ln : text_wf 3 (f_lnum f) = true;
  w_pc : text_wf 3 (f_piece f) = true;
  w_ey : length (f_eyear f) = 2%nat;
  w_ed : fixed_wf 3 8 (f_eday f) = true;
  w_nd : sfrac_wf 8 (f_ndot f) = true;
  w_ndd : expo_wf (f_nddot f) = true;
  w_bs : expo_wf (f_bstar f) = true;
  w_el : padint_wf 4 (f_elnum f) = true;
  w_inc : fixed_wf 3 4 (f_inc f) = true;
  w_raan : fixed_wf 3 4 (f_raan f) = true;
  w_ecc : padint_wf 7 (f_ecc f) = true;
  w_argp : fixed_wf 3 4 (f_argp f) = true;
  w_ma : fixed_wf 3 4 (f_ma f) = true;
  w_mm : fixed_wf 2 8 (f_mm f) = true;
  w_rev : padint_wf 5 (f_rev f) = true
}.
Lemma wf_inv f : wf f = true -> wf_facts f.
Proof.
  unfold wf. intros H.
  repeat match type of H with (_ && _)%bool = true => let H2 := fresh "W" in apply andb_true_iff in H as [H H2] end.
  constructor; try assumption. apply Nat.eqb_eq. assumption.
Qed.

Lemma segs1_lengths f : wf_facts f -> map (@length ascii) (segs1 f) = lens1.
Proof.
  intros W. unfold segs1, lens1. cbn [map length sp].
  rewrite (text_wf_length _ _ (w_sat f W)), (text_wf_length _ _ (w_ly f W)), (text_wf_length _ _ (w_ln f W)),
    (text_wf_length _ _ (w_pc f W)), dtext_length, (w_ey f W), (fixed_text_length _ _ _ (w_ed f W)),
    (sfrac_text_length _ _ (w_nd f W)), (expo_text_length _ (w_ndd f W)), (expo_text_length _ (w_bs f W)),
    (padint_text_length _ _ (w_el f W)).
  reflexivity.
Qed.
Lemma segs2_lengths f : wf_facts f -> map (@length ascii) (segs2 f) = lens2.
Proof.
  intros W. unfold segs2, lens2. cbn [map length sp].
  rewrite (text_wf_length _ _ (w_sat f W)), (fixed_text_length _ _ _ (w_inc f W)),
    (fixed_text_length _ _ _ (w_raan f W)), (padint_text_length _ _ (w_ecc f W)),
    (fixed_text_length _ _ _ (w_argp f W)), (fixed_text_length _ _ _ (w_ma f W)),
    (fixed_text_length _ _ _ (w_mm f W)), (padint_text_length _ _ (w_rev f W)).
  reflexivity.
Qed.

Lemma slice1 f i a b : wf_facts f -> (i < 21)%nat ->
  a = list_sum (firstn i lens1) -> b = (a + nth i lens1 0)%nat ->
  slice a b (line1 f) = nth i (segs1 f) [].
Proof.
  intros W Hi Ha Hb. unfold line1, with_ck.
  apply (slice_seg' _ lens1 _ i a b (segs1_lengths f W)); [exact Hi|exact Ha|exact Hb].
Qed.
Lemma slice2 f i a b : wf_facts f -> (i < 16)%nat ->
  a = list_sum (firstn i lens2) -> b = (a + nth i lens2 0)%nat ->
  slice a b (line2 f) = nth i (segs2 f) [].
Proof.
  intros W Hi Ha Hb. unfold line2, with_ck.
  apply (slice_seg' _ lens2 _ i a b (segs2_lengths f W)); [exact Hi|exact Ha|exact Hb].
Qed.

Ltac sl1 W i := apply (slice1 _ i _ _ W); [lia|reflexivity|reflexivity].
Ltac sl2 W i := apply (slice2 _ i _ _ W); [lia|reflexivity|reflexivity].

(* ------------------------------------------------------------------ *)
(* decode (encode f) = values f                                        *)
(* ------------------------------------------------------------------ *)
Lemma decode_encode f : wf f = true -> decode (line1 f) (line2 f) = Some (values f).
Proof.
  intros Hwf. pose proof (wf_inv f Hwf) as W.
  assert (S_sat : slice 2 7 (line1 f) = f_satnum f) by sl1 W 2%nat.
  assert (S_cls : slice 7 8 (line1 f) = [f_class f]) by sl1 W 3%nat.
  assert (S_ly : slice 9 11 (line1 f) = f_lyear f) by sl1 W 5%nat.
  assert (S_ln : slice 11 14 (line1 f) = f_lnum f) by sl1 W 6%nat.
  assert (S_pc : slice 14 17 (line1 f) = f_piece f) by sl1 W 7%nat.
  assert (S_ey : slice 18 20 (line1 f) = dtext (f_eyear f)) by sl1 W 9%nat.
  assert (S_ed : slice 20 32 (line1 f) = fixed_text (f_eday f)) by sl1 W 10%nat.
  assert (S_nd : slice 33 43 (line1 f) = sfrac_text (f_ndot f)) by sl1 W 12%nat.
  assert (S_ndd : slice 44 52 (line1 f) = expo_text (f_nddot f)) by sl1 W 14%nat.
  assert (S_bs : slice 53 61 (line1 f) = expo_text (f_bstar f)) by sl1 W 16%nat.
  assert (S_et : slice 62 63 (line1 f) = [match f_etype f with Some d => dchar d | None => " "%char end]) by sl1 W 18%nat.
  assert (S_el : slice 64 68 (line1 f) = padint_text (f_elnum f)) by sl1 W 20%nat.
  assert (S_inc : slice 8 16 (line2 f) = fixed_text (f_inc f)) by sl2 W 4%nat.
  assert (S_raan : slice 17 25 (line2 f) = fixed_text (f_raan f)) by sl2 W 6%nat.
  assert (S_ecc : slice 26 33 (line2 f) = padint_text (f_ecc f)) by sl2 W 8%nat.
  assert (S_argp : slice 34 42 (line2 f) = fixed_text (f_argp f)) by sl2 W 10%nat.
  assert (S_ma : slice 43 51 (line2 f) = fixed_text (f_ma f)) by sl2 W 12%nat.
  assert (S_mm : slice 52 63 (line2 f) = fixed_text (f_mm f)) by sl2 W 14%nat.
  assert (S_rev : slice 63 68 (line2 f) = padint_text (f_rev f)) by sl2 W 15%nat.
  pose proof (w_ey f W) as Ey.
  destruct (f_eyear f) as [|ya [|yb [|yc yr]]] eqn:Eyear; try discriminate Ey. clear Ey.
  unfold decode.
  rewrite (index_of_slice _ _ _ S_cls), (index_of_slice _ _ _ S_et).
  rewrite S_sat, S_ly, S_ln, S_pc, S_ey, S_ed, S_nd, S_ndd, S_bs, S_el,
    S_inc, S_raan, S_ecc, S_argp, S_ma, S_mm, S_rev.
  rewrite strptime_y_digits.
  rewrite (py_float_fixed _ _ _ (w_ed f W)), (py_float_sfrac _ _ (w_nd f W)),
    (read_tle_decimal_expo _ (w_ndd f W)), (read_tle_decimal_expo _ (w_bs f W)),
    (py_int_padint _ _ (w_el f W)), (py_float_fixed _ _ _ (w_inc f W)), (py_float_fixed _ _ _ (w_raan f W)),
    (py_int_padint _ _ (w_ecc f W)), (py_float_fixed _ _ _ (w_argp f W)), (py_float_fixed _ _ _ (w_ma f W)),
    (py_float_fixed _ _ _ (w_mm f W)), (py_int_padint _ _ (w_rev f W)).
  cbn [bind].
  rewrite (epoch_q_eday f ya yb (w_ed f W) Eyear), etype_value, ecc_of_digits.
  unfold values. rewrite Eyear. reflexivity.
Qed.

(* the epoch: exactly an integer number of microseconds, 1 January + (day - 1) days *)
Lemma decode_epoch f : wf f = true ->
  exists e, decode (line1 f) (line2 f) = Some e /\
    snd (epoch e) = 10 ^ 8 /\
    fst (epoch e) = snd (epoch e) *
      (civil_us (pivot (zdigits (f_eyear f))) 1 1 0 0 0 0 + (fixed_digits (f_eday f) - 10 ^ 8) * 864).
Proof.
  intros H. exists (values f). split; [apply decode_encode, H|]. split; reflexivity.
Qed.

(* ------------------------------------------------------------------ *)
(* checksum column, strip and the whole constructor                    *)
(* ------------------------------------------------------------------ *)
Lemma ck_weight_weight c : ck_weight c = weight c.
Proof. destruct c as [[] [] [] [] [] [] [] []]; reflexivity. Qed.
Lemma ck_sum_wsum l : ck_sum l = wsum l.
Proof. induction l as [|c t IH]; cbn [ck_sum fold_right wsum]; [reflexivity|]. fold (ck_sum t). rewrite IH, ck_weight_weight. reflexivity. Qed.

Lemma ck_char_props body : is_digit (ck_char body) = true /\ digit_val (ck_char body) = wsum body mod 10.
Proof.
  unfold ck_char. rewrite ck_sum_wsum.
  pose proof (Z.mod_pos_bound (wsum body) 10 ltac:(lia)) as B. set (k := wsum body mod 10) in *.
  assert (K : k = 0 \/ k = 1 \/ k = 2 \/ k = 3 \/ k = 4 \/ k = 5 \/ k = 6 \/ k = 7 \/ k = 8 \/ k = 9) by lia.
  destruct K as [K|[K|[K|[K|[K|[K|[K|[K|[K|K]]]]]]]]]; rewrite K; split; reflexivity.
Qed.
Lemma check_line_with_ck body : check_line (with_ck body) = Accept.
Proof.
  unfold with_ck. rewrite check_line_snoc. destruct (ck_char_props body) as [D V].
  rewrite D, V, Z.eqb_refl. reflexivity.
Qed.
Lemma check_tle_encode f : check_tle (line1 f) (line2 f) = Accept.
Proof. apply check_tle_accept. split; apply check_line_with_ck. Qed.

Lemma is_space_ck body : is_space (ck_char body) = false.
Proof.
  destruct (ck_char_props body) as [D _]. unfold is_digit in D. unfold is_space.
  apply andb_true_iff in D as [D1 D2]. apply N.leb_le in D1. apply N.leb_le in D2.
  set (n := N_of_ascii (ck_char body)) in *.
  assert (E1 : (n <=? 13)%N = false) by (apply N.leb_gt; lia).
  assert (E2 : (n <=? 32)%N = false) by (apply N.leb_gt; lia).
  rewrite E1, E2, !andb_false_r. reflexivity.
Qed.

Lemma line1_shape f : exists mid, line1 f = "1"%char :: mid ++ [ck_char (concat (segs1 f))].
Proof. unfold line1, with_ck, segs1. cbn [concat app]. eexists. reflexivity. Qed.
Lemma line2_shape f : exists mid, line2 f = "2"%char :: mid ++ [ck_char (concat (segs2 f))].
Proof. unfold line2, with_ck, segs2. cbn [concat app]. eexists. reflexivity. Qed.
Lemma line1_trimmed f : trimmed (line1 f).
Proof. destruct (line1_shape f) as [mid E]. rewrite E. apply trimmed_ends; [reflexivity|apply is_space_ck]. Qed.
Lemma line2_trimmed f : trimmed (line2 f).
Proof. destruct (line2_shape f) as [mid E]. rewrite E. apply trimmed_ends; [reflexivity|apply is_space_ck]. Qed.

(* no newline inside an encoded line *)
Definition no_nl (l : list ascii) : bool := forallb (fun c => negb (Ascii.eqb c nl)) l.
Lemma no_nl_app a b : no_nl (a ++ b) = (no_nl a && no_nl b)%bool.
Proof. unfold no_nl. apply forallb_app. Qed.
Lemma no_nl_printable l : forallb Spec_TLE.printable l = true -> no_nl l = true.
Proof.
  unfold no_nl. intros H. apply forallb_forall. intros c Hc. rewrite forallb_forall in H. specialize (H c Hc).
  destruct (Ascii.eqb c nl) eqn:E; [|reflexivity]. apply Ascii.eqb_eq in E. subst c. discriminate H.
Qed.
Lemma no_nl_dtext ds : no_nl (dtext ds) = true.
Proof. induction ds as [|d t IH]; cbn; [reflexivity|]. fold (dtext t). fold (no_nl (dtext t)). rewrite IH. destruct d; reflexivity. Qed.
Lemma no_nl_blanks n : no_nl (blanks n) = true.
Proof. induction n as [|n IH]; cbn; [reflexivity|exact IH]. Qed.
Lemma no_nl_text w s : text_wf w s = true -> no_nl s = true.
Proof. intros H. apply andb_true_iff in H as [_ H]. apply no_nl_printable, H. Qed.
Lemma no_nl_fixed x : no_nl (fixed_text x) = true.
Proof. unfold fixed_text. rewrite !no_nl_app, no_nl_blanks, no_nl_dtext. cbn. apply no_nl_dtext. Qed.
Lemma no_nl_padint x : no_nl (padint_text x) = true.
Proof. unfold padint_text. rewrite no_nl_app, no_nl_blanks, no_nl_dtext. reflexivity. Qed.
Lemma no_nl_sfrac x : no_nl (sfrac_text x) = true.
Proof. unfold sfrac_text. cbn. fold (no_nl (dtext (sf_frac x))). rewrite no_nl_dtext. destruct (sf_sign x); reflexivity. Qed.
Lemma no_nl_expo x : no_nl (expo_text x) = true.
Proof.
  unfold expo_text. change (?c :: ?a ++ ?b) with ([c] ++ a ++ b). rewrite !no_nl_app, no_nl_dtext.
  destruct (ex_sign x), (ex_eneg x), (ex_edig x); reflexivity.
Qed.
Lemma no_nl_ck body : no_nl [ck_char body] = true.
Proof.
  cbn. destruct (Ascii.eqb (ck_char body) nl) eqn:E; [|reflexivity]. apply Ascii.eqb_eq in E.
  destruct (ck_char_props body) as [D _]. rewrite E in D. discriminate D.
Qed.
Lemma no_nl_line1 f : wf_facts f -> no_nl (line1 f) = true.
Proof.
  intros W. unfold line1, with_ck, segs1. cbn [concat]. rewrite !no_nl_app, no_nl_ck.
  rewrite (no_nl_text _ _ (w_sat f W)), (no_nl_text _ _ (w_ly f W)), (no_nl_text _ _ (w_ln f W)),
    (no_nl_text _ _ (w_pc f W)), no_nl_dtext, no_nl_fixed, no_nl_sfrac, !no_nl_expo, no_nl_padint.
  assert (C : no_nl [f_class f] = true).
  { apply no_nl_printable. cbn. rewrite (w_cls f W). reflexivity. }
  rewrite C. destruct (f_etype f) as [d|]; [destruct d|]; reflexivity.
Qed.
Lemma no_nl_line2 f : wf_facts f -> no_nl (line2 f) = true.
Proof.
  intros W. unfold line2, with_ck, segs2. cbn [concat]. rewrite !no_nl_app, no_nl_ck.
  rewrite (no_nl_text _ _ (w_sat f W)), !no_nl_fixed, !no_nl_padint. reflexivity.
Qed.

Lemma split_nl_join a b : no_nl a = true -> no_nl b = true -> split_nl (a ++ nl :: b) = [a; b].
Proof.
  intros Ha Hb.
  assert (Sb : split_nl b = [b]).
  { clear Ha. induction b as [|c t IH]; cbn [split_nl]; [reflexivity|].
    cbn in Hb. apply andb_true_iff in Hb as [H1 H2]. apply negb_true_iff in H1. rewrite H1, (IH H2). reflexivity. }
  induction a as [|c t IH]; cbn [app split_nl].
  - change (Ascii.eqb nl nl) with true. cbv iota. rewrite Sb. reflexivity.
  - cbn in Ha. apply andb_true_iff in Ha as [H1 H2]. apply negb_true_iff in H1. rewrite H1, (IH H2). reflexivity.
Qed.

(* _read_tle: for ANY two inputs whose stripped forms contain no newline, line1/line2 become the
   stripped inputs *)
Lemma read_tle_strip l1 l2 :
  no_nl (strip l1) = true -> no_nl (strip l2) = true -> read_tle l1 l2 = Some (strip l1, strip l2).
Proof. intros H1 H2. unfold read_tle. rewrite split_nl_join by assumption. reflexivity. Qed.

(* the whole constructor on an encoded element set surrounded by arbitrary whitespace *)
Lemma tle_init_encode f pre1 post1 pre2 post2 :
  wf f = true ->
  allspace pre1 = true -> allspace post1 = true -> allspace pre2 = true -> allspace post2 = true ->
  tle_init (pre1 ++ line1 f ++ post1) (pre2 ++ line2 f ++ post2) = Some (line1 f, line2 f, values f).
Proof.
  intros Hwf A1 B1 A2 B2. pose proof (wf_inv f Hwf) as W. unfold tle_init.
  assert (S1 : strip (pre1 ++ line1 f ++ post1) = line1 f) by (apply strip_spec; [exact A1|exact B1|apply line1_trimmed]).
  assert (S2 : strip (pre2 ++ line2 f ++ post2) = line2 f) by (apply strip_spec; [exact A2|exact B2|apply line2_trimmed]).
  rewrite read_tle_strip; rewrite ?S1, ?S2; [|apply no_nl_line1, W|apply no_nl_line2, W].
  cbn [bind fst snd]. rewrite check_tle_encode, (decode_encode f Hwf). reflexivity.
Qed.

(* exact value as a rational: used in the Example of the props file *)
Lemma encoded_lengths f : wf f = true -> length (line1 f) = 69%nat /\ length (line2 f) = 69%nat.
Proof.
  intros Hwf. pose proof (wf_inv f Hwf) as W. unfold line1, line2, with_ck. rewrite !app_length. cbn [length].
  assert (L : forall segs, length (concat segs) = list_sum (map (@length ascii) segs)).
  { induction segs as [|s r IH]; cbn; [reflexivity|]. rewrite app_length, IH. reflexivity. }
  rewrite !L, (segs1_lengths f W), (segs2_lengths f W). split; reflexivity.
Qed.

(* ------------------------------------------------------------------ *)
(* size of the decimals: every float attribute of a well-formed set has *)
(* an integer mantissa below 2^53 and a power of ten within 10^(+-22)   *)
(* (both exactly representable in binary64: the regime in which one     *)
(* correctly rounded division or multiplication gives the nearest double) *)
(* ------------------------------------------------------------------ *)
Lemma zdigits_acc_bound ds : forall a, 0 <= a ->
  fold_left (fun a d => 10 * a + dval d) ds a < (a + 1) * 10 ^ Z.of_nat (length ds).
Proof.
  induction ds as [|d t IH]; intros a Ha; cbn [fold_left length].
  - change (10 ^ Z.of_nat 0) with 1. lia.
  - pose proof (dval_range d) as R.
    specialize (IH (10 * a + dval d) ltac:(lia)).
    rewrite Nat2Z.inj_succ, Z.pow_succ_r by lia.
    assert (P : 0 < 10 ^ Z.of_nat (length t)) by (apply Z.pow_pos_nonneg; lia).
    nia.
Qed.
Lemma zdigits_bound ds : 0 <= zdigits ds < 10 ^ Z.of_nat (length ds).
Proof.
  split; [apply zdigits_nonneg|]. pose proof (zdigits_acc_bound ds 0 ltac:(lia)) as B.
  unfold zdigits. lia.
Qed.
Lemma zdigits_bound_le ds n : (length ds <= n)%nat -> 0 <= zdigits ds < 10 ^ Z.of_nat n.
Proof.
  intros H. pose proof (zdigits_bound ds) as B.
  assert (10 ^ Z.of_nat (length ds) <= 10 ^ Z.of_nat n) by (apply Z.pow_le_mono_r; lia). lia.
Qed.

Definition small (d : dec) : Prop := 0 <= mant d < 2 ^ 53 /\ -22 <= e10 d <= 22.

Lemma small_fixed wi wfr x : fixed_wf wi wfr x = true -> (wi + wfr <= 15)%nat -> small (fixed_val x).
Proof.
  intros H L. apply andb_true_iff in H as [H1 H2]. apply Nat.eqb_eq in H1. apply Nat.eqb_eq in H2.
  unfold small, fixed_val, fixed_digits. cbn [mant e10].
  pose proof (zdigits_bound_le (fx_int x ++ fx_frac x) 15 ltac:(rewrite app_length; lia)) as B.
  change (10 ^ Z.of_nat 15) with 1000000000000000 in B. change (2 ^ 53) with 9007199254740992. lia.
Qed.
Lemma small_sfrac x : sfrac_wf 8 x = true -> small (sfrac_val x).
Proof.
  intros H. apply Nat.eqb_eq in H. unfold small, sfrac_val. cbn [mant e10].
  pose proof (zdigits_bound_le (sf_frac x) 8 ltac:(lia)) as B.
  change (10 ^ Z.of_nat 8) with 100000000 in B. change (2 ^ 53) with 9007199254740992. rewrite H. cbn. lia.
Qed.
Lemma small_expo x : expo_wf x = true -> small (expo_val x).
Proof.
  intros H. apply Nat.eqb_eq in H. unfold small, expo_val. cbn [mant e10].
  pose proof (zdigits_bound_le (ex_mant x) 5 ltac:(lia)) as B.
  change (10 ^ Z.of_nat 5) with 100000 in B. change (2 ^ 53) with 9007199254740992.
  pose proof (dval_range (ex_edig x)). destruct (ex_eneg x); lia.
Qed.
Lemma small_ecc p : padint_wf 7 p = true -> small (mkdec false (padint_val p) (-7)).
Proof.
  intros H. apply andb_true_iff in H as [H _]. apply Nat.eqb_eq in H. unfold small, padint_val. cbn [mant e10].
  pose proof (zdigits_bound_le (pi_digs p) 7 ltac:(lia)) as B.
  change (10 ^ Z.of_nat 7) with 10000000 in B. change (2 ^ 53) with 9007199254740992. lia.
Qed.

Lemma values_small f : wf f = true ->
  let v := values f in
  small (epoch_day v) /\ small (mean_motion_derivative v) /\ small (mean_motion_sec_derivative v) /\
  small (bstar v) /\ small (inclination v) /\ small (right_ascension v) /\ small (excentricity v) /\
  small (arg_perigee v) /\ small (mean_anomaly v) /\ small (mean_motion v).
Proof.
  intros Hwf. pose proof (wf_inv f Hwf) as W. cbv zeta. unfold values.
  cbn [epoch_day mean_motion_derivative mean_motion_sec_derivative bstar inclination right_ascension
       excentricity arg_perigee mean_anomaly mean_motion].
  split; [apply (small_fixed _ _ _ (w_ed f W)); cbn; lia|].
  split; [apply (small_sfrac _ (w_nd f W))|].
  split; [apply (small_expo _ (w_ndd f W))|].
  split; [apply (small_expo _ (w_bs f W))|].
  split; [apply (small_fixed _ _ _ (w_inc f W)); cbn; lia|].
  split; [apply (small_fixed _ _ _ (w_raan f W)); cbn; lia|].
  split; [apply (small_ecc _ (w_ecc f W))|].
  split; [apply (small_fixed _ _ _ (w_argp f W)); cbn; lia|].
  split; [apply (small_fixed _ _ _ (w_ma f W)); cbn; lia|].
  apply (small_fixed _ _ _ (w_mm f W)); cbn; lia.
Qed.

(* packaged statements for props/C02.v *)
Lemma strip_and_read pre body post l1 l2 :
  (allspace pre = true -> allspace post = true -> trimmed body -> strip (pre ++ body ++ post) = body) /\
  (no_nl (strip l1) = true -> no_nl (strip l2) = true -> read_tle l1 l2 = Some (strip l1, strip l2)).
Proof. split; [apply strip_spec|apply read_tle_strip]. Qed.

Lemma encoded_accepted f : wf f = true ->
  length (line1 f) = 69%nat /\ length (line2 f) = 69%nat /\ check_tle (line1 f) (line2 f) = Accept.
Proof.
  intros H. destruct (encoded_lengths f H) as [A B].
  split; [exact A|split; [exact B|apply check_tle_encode]].
Qed.
