(* P_Purity.v — proofs for C18 over model/M_Purity.v; the generated facts enter only through
   the boolean premise [facts_ok F = true]. *)
From Coq Require Import List String Bool Arith Lia.
From PyOrb.model Require Import M_Purity.
From PyOrb.gen Require Import Gen_Purity.
Import ListNotations.
Open Scope list_scope.

(* the facts regenerated from the source on this run *)
Definition gen_facts : facts :=
  {| f_stores := Gen_Purity.shared_stores;
     f_store_functions := Gen_Purity.store_functions;
     f_inplace_on_args := Gen_Purity.inplace_on_args;
     f_nondet := Gen_Purity.nondeterministic_calls;
     f_unclassified := Gen_Purity.unclassified;
     f_hit_miss_same := Gen_Purity.hit_miss_same |}.

Section Proofs.
  Variables tle arg val res : Type.
  Variable time_of : tle -> val.
  Variable period_of : tle -> val -> val -> val.
  Variable time_dep : tle -> arg -> val.
  Variable period_dep : tle -> arg -> val -> val -> val.
  Variable orbit_result : tle -> arg -> val -> val -> res.
  Variable pure_result : string -> tle -> arg -> res.
  Variable driver : string -> tle -> arg -> list res -> arg + res.
  Variable raise_attr out_of_fuel : res.
  Variable fuel : nat.
  Variable F : facts.
  Hypothesis HF : facts_ok F = true.
  Variable t : tle.

  Notation state := (state val).
  Notation prog := (prog val res).
  Notation accessor := (accessor tle arg val res time_of period_of time_dep period_dep orbit_result raise_attr F).
  Notation miss := (miss tle arg val res time_of period_of time_dep period_dep orbit_result raise_attr F).
  Notation drive := (drive tle arg val res time_of period_of time_dep period_dep orbit_result raise_attr out_of_fuel F).
  Notation query_prog := (query_prog tle arg val res time_of period_of time_dep period_dep orbit_result pure_result driver raise_attr out_of_fuel fuel F).
  Notation body := (body tle arg val res time_of period_of time_dep period_dep orbit_result pure_result driver raise_attr out_of_fuel fuel F).
  Notation exec := (exec val res).
  Notation run := (run val res).
  Notation run_history := (run_history val res).
  Notation step_pool := (step_pool val res).
  Notation step1 := (step1 val res).
  Notation result_of := (result_of val res).
  Notation bind := (bind val res).

  (* the argument-independent values *)
  Definition ctime : val := time_of t.
  Definition cperiod : val := period_of t ctime ctime.
  Definition canon (c : cell) : val := match c with AnTime => ctime | AnPeriod => cperiod end.

  Definition inv (s : state) : Prop :=
    (st_time val s = None \/ st_time val s = Some ctime) /\
    (st_period val s = None \/ st_period val s = Some cperiod) /\
    st_touched val s = false.
  (* later states: still invariant, cells once set stay set *)
  Definition ext (s s' : state) : Prop :=
    inv s' /\ (st_time val s <> None -> st_time val s' = st_time val s)
           /\ (st_period val s <> None -> st_period val s' = st_period val s).

  Lemma inv_fresh : inv fresh_state.
  Proof. unfold inv; cbn; auto. Qed.
  Lemma ext_refl : forall s, inv s -> ext s s.
  Proof. unfold ext; auto. Qed.
  Lemma ext_trans : forall a b c, ext a b -> ext b c -> ext a c.
  Proof.
    unfold ext; intros a b c (Ib & Hbt & Hbp) (Ic & Hct & Hcp); split; [exact Ic | split].
    - intros H. rewrite <- (Hbt H). apply Hct. rewrite (Hbt H); exact H.
    - intros H. rewrite <- (Hbp H). apply Hcp. rewrite (Hbp H); exact H.
  Qed.
  Lemma ext_inv : forall a b, ext a b -> inv b.
  Proof. unfold ext; tauto. Qed.
  Lemma ext_set : forall s c, inv s -> ext s (set val s c (canon c)).
  Proof.
    intros s c (Ht & Hp & Hx). destruct c; unfold ext, inv; cbn.
    - split; [auto | split; [|auto]]. intros H. destruct Ht as [Ht | Ht]; congruence.
    - split; [auto | split; [auto|]]. intros H. destruct Hp as [Hp | Hp]; congruence.
  Qed.

  (* "whatever the other threads do in between (within the invariant), this program ends with r" *)
  Fixpoint good (p : prog) (s : state) (r : res) : Prop :=
    match p with
    | Ret r' => r' = r
    | ReadC c k => forall s', ext s s' -> good (k (get val s' c)) s' r
    | WriteC c v k => v = canon c /\ forall s', ext s s' -> good k (set val s' c v) r
    | Touch _ => False
    end.

  Lemma good_stable : forall p s s1 r, good p s r -> ext s s1 -> good p s1 r.
  Proof.
    intros p s s1 r H E. destruct p; cbn in *; auto.
    - intros s' E'. apply H. eapply ext_trans; eauto.
    - destruct H as (Hv & H). split; auto. intros s' E'. apply H. eapply ext_trans; eauto.
  Qed.

  Lemma good_step : forall p s r p' s', inv s -> good p s r -> step1 p s = (p', s') ->
    good p' s' r /\ ext s s'.
  Proof.
    intros p s r p' s' I G St. destruct p; cbn in *; injection St as <- <-.
    - split; [exact G | apply ext_refl; exact I].
    - split; [apply G; apply ext_refl; exact I | apply ext_refl; exact I].
    - destruct G as (Hv & G). subst v. split; [apply G; apply ext_refl; exact I | apply ext_set; exact I].
    - contradiction.
  Qed.

  Lemma good_exec : forall p s r, inv s -> good p s r -> fst (exec p s) = r /\ ext s (snd (exec p s)).
  Proof.
    induction p as [r' | c k IH | c v k IH | k IH]; intros s r I G; cbn in *.
    - split; [exact G | apply ext_refl; exact I].
    - apply IH; [exact I | apply G; apply ext_refl; exact I].
    - destruct G as (Hv & G). subst v.
      pose proof (ext_set s c I) as E.
      destruct (IH (set val s c (canon c)) r (ext_inv _ _ E) (G s (ext_refl s I))) as (A & B).
      split; [exact A | eapply ext_trans; eauto].
    - contradiction.
  Qed.

  Lemma good_bind : forall p f s r1 r, inv s -> good p s r1 ->
    (forall s', inv s' -> good (f r1) s' r) -> good (bind p f) s r.
  Proof.
    induction p as [r' | c k IH | c v k IH | k IH]; intros f s r1 r I G Hf; cbn in *.
    - subst r'. apply Hf; exact I.
    - intros s' E. eapply IH; [eapply ext_inv; eauto | apply G; exact E | exact Hf].
    - destruct G as (Hv & G). split; [exact Hv|]. intros s' E. subst v.
      eapply IH; [eapply ext_inv; apply ext_set; eapply ext_inv; eauto | apply G; exact E | exact Hf].
    - contradiction.
  Qed.

  (* ---- what the premise gives *)
  Lemma forallb_existsb_false : forall {A} (f g : A -> bool) l,
    forallb f l = true -> (forall x, f x = true -> g x = false) -> existsb g l = false.
  Proof. induction l as [|x l IH]; cbn; intros H Hx; auto. apply andb_prop in H as (H1 & H2). rewrite (Hx x H1); auto. Qed.

  Lemma premise_split :
    forallb row_ok (f_stores F) = true /\ f_inplace_on_args F = [] /\ f_unclassified F = [].
  Proof.
    unfold facts_ok in HF.
    repeat (apply andb_prop in HF as (HF & ?)).
    repeat split; auto.
    - destruct (f_inplace_on_args F); [reflexivity | discriminate].
    - destruct (f_unclassified F); [reflexivity | discriminate].
  Qed.

  Lemma argdep_false : forall c, argdep F c = false.
  Proof.
    intros c. destruct premise_split as (H & _). unfold argdep.
    eapply forallb_existsb_false; [exact H|].
    intros [[[q c'] dep] reads] Hr. unfold row_ok in Hr. apply andb_prop in Hr as (Hd & _).
    destruct dep; [discriminate | reflexivity].
  Qed.

  Lemma elsewhere_false : forall q, stores_elsewhere F q = false.
  Proof.
    intros q. destruct premise_split as (H & Hi & Hu). unfold stores_elsewhere.
    rewrite Hi, Hu. cbn. rewrite !orb_false_r.
    eapply forallb_existsb_false; [exact H|].
    intros [[[q' c'] dep] reads] Hr. unfold row_ok in Hr. apply andb_prop in Hr as (_ & Hc).
    destruct (cell_of_string c'); [apply andb_false_r | discriminate].
  Qed.

  (* ---- the queries are good *)
  Definition orbit_fresh (a : arg) : res := orbit_result t a ctime cperiod.

  Ltac inv_cases E :=
    let I := fresh "I" in let Ht := fresh "Ht" in let Hp := fresh "Hp" in
    pose proof (ext_inv _ _ E) as I; destruct I as (Ht & Hp & _).

  Lemma good_miss : forall a s, inv s -> good (miss t a) s (orbit_fresh a).
  Proof.
    intros a s I. unfold M_Purity.miss, wtime, wperiod. rewrite !argdep_false.
    cbn [good]. split; [reflexivity|].
    intros s1 E1. intros s2 E2. intros s3 E3.
    assert (T2 : get val s2 AnTime = Some ctime).
    { destruct E2 as (_ & H & _). cbn in H. cbn. apply H. discriminate. }
    assert (T3 : get val s3 AnTime = Some ctime).
    { destruct E3 as (_ & H & _). cbn in *. rewrite H; [exact T2 | rewrite T2; discriminate]. }
    rewrite T2, T3. cbn [good]. split; [reflexivity|].
    intros s4 E4. intros s5 E5. intros s6 E6.
    assert (T4 : st_time val s4 = Some ctime).
    { destruct E4 as (_ & H & _). cbn in *. rewrite H; [exact T3 | rewrite T3; discriminate]. }
    assert (T5 : get val s5 AnTime = Some ctime).
    { destruct E5 as (_ & H & _). cbn in *. rewrite H; [exact T4 | rewrite T4; discriminate]. }
    assert (P5 : st_period val s5 = Some cperiod).
    { destruct E5 as (_ & _ & H). cbn in H. apply H. discriminate. }
    assert (P6 : get val s6 AnPeriod = Some cperiod).
    { destruct E6 as (_ & _ & H). cbn in *. rewrite H; [exact P5 | rewrite P5; discriminate]. }
    rewrite T5, P6. cbn. reflexivity.
  Qed.

  Lemma good_accessor : forall a s, inv s -> good (accessor t a) s (orbit_fresh a).
  Proof.
    intros a s I. unfold M_Purity.accessor. cbn [good]. intros s1 E1.
    inv_cases E1. cbn [get]. destruct Ht as [Ht | Ht]; rewrite Ht.
    - apply good_miss. eapply ext_inv; eauto.
    - cbn [good]. intros s2 E2. inv_cases E2. cbn [get]. destruct Hp0 as [Hp2 | Hp2]; rewrite Hp2.
      + apply good_miss. eapply ext_inv; eauto.
      + cbn. reflexivity.
  Qed.

  (* result of a composite query (a driver over get_orbit_number calls), as a pure recursion *)
  Fixpoint drive_pure (n : nat) (d : list res -> arg + res) (hist : list res) : res :=
    match n with
    | O => out_of_fuel
    | S n => match d hist with
             | inr r => r
             | inl a' => drive_pure n d (hist ++ [orbit_fresh a'])
             end
    end.

  Lemma good_drive : forall n d hist s, inv s -> good (drive n t d hist) s (drive_pure n d hist).
  Proof.
    induction n as [|n IH]; intros d hist s I; cbn [M_Purity.drive drive_pure].
    - cbn. reflexivity.
    - destruct (d hist) as [a' | r]; [| cbn; reflexivity].
      eapply good_bind; [exact I | apply good_accessor; exact I |].
      intros s' I'. apply IH; exact I'.
  Qed.

  (* the specification of each query: a function of (TLE, arguments) only *)
  Definition spec_result (q : string) (a : arg) : res :=
    if String.eqb q s_accessor then orbit_fresh a
    else if touches F q then drive_pure fuel (driver q t a) []
    else pure_result q t a.

  Lemma good_query : forall q a s, inv s -> good (query_prog q t a) s (spec_result q a).
  Proof.
    intros q a s I. unfold M_Purity.query_prog, M_Purity.body, spec_result. rewrite elsewhere_false.
    destruct (String.eqb q s_accessor); [apply good_accessor; exact I|].
    destruct (touches F q); [apply good_drive; exact I | cbn; reflexivity].
  Qed.

  Lemma fresh_is_spec : forall q a,
    fresh_result tle arg val res time_of period_of time_dep period_dep orbit_result pure_result driver
      raise_attr out_of_fuel fuel F q t a = spec_result q a.
  Proof.
    intros q a. unfold fresh_result.
    apply (good_exec _ _ _ inv_fresh (good_query q a _ inv_fresh)).
  Qed.

  (* ---- histories *)
  Lemma history_from : forall (calls : list (string * arg)) s, inv s ->
    fst (run_history (map (fun qa => query_prog (fst qa) t (snd qa)) calls) s)
      = map (fun qa => spec_result (fst qa) (snd qa)) calls
    /\ inv (snd (run_history (map (fun qa => query_prog (fst qa) t (snd qa)) calls) s)).
  Proof.
    induction calls as [| [q a] calls IH]; intros s I; cbn [map M_Purity.run_history fst snd].
    - cbn. auto.
    - destruct (good_exec _ _ _ I (good_query q a s I)) as (Hr & He).
      destruct (exec (query_prog q t a) s) as [r s1] eqn:Ex. cbn [fst snd] in Hr, He.
      destruct (IH s1 (ext_inv _ _ He)) as (IH1 & IH2).
      destruct (run_history _ s1) as [rs s2]. cbn [fst snd] in *. subst r. rewrite IH1. auto.
  Qed.

  (* ---- pools *)
  Definition pool_good (pool : list prog) (rs : list res) (s : state) : Prop :=
    Forall2 (fun p r => good p s r) pool rs.

  Lemma pool_good_stable : forall pool rs s s', pool_good pool rs s -> ext s s' -> pool_good pool rs s'.
  Proof. induction 1; intros E; constructor; eauto using good_stable. apply IHForall2; exact E. Qed.

  Lemma step_pool_good : forall i pool rs s pool' s', inv s -> pool_good pool rs s ->
    step_pool i pool s = (pool', s') -> pool_good pool' rs s' /\ ext s s'.
  Proof.
    induction i as [|i IH]; intros pool rs s pool' s' I G St; destruct G as [| p r pool rs Gp Gr]; cbn in St.
    - inversion St; subst. split; [constructor | apply ext_refl; exact I].
    - destruct (step1 p s) as [p1 s1] eqn:S1. inversion St; subst; clear St.
      destruct (good_step _ _ _ _ _ I Gp S1) as (G1 & E1).
      split; [constructor; [exact G1 | eapply pool_good_stable; eauto] | exact E1].
    - inversion St; subst. split; [constructor | apply ext_refl; exact I].
    - destruct (step_pool i pool s) as [rest1 s1] eqn:S1. inversion St; subst; clear St.
      destruct (IH _ _ _ _ _ I Gr S1) as (G1 & E1).
      split; [constructor; [eapply good_stable; eauto | exact G1] | exact E1].
  Qed.

  Lemma run_good : forall sched pool rs s, inv s -> pool_good pool rs s ->
    pool_good (fst (run sched pool s)) rs (snd (run sched pool s)) /\ inv (snd (run sched pool s)).
  Proof.
    induction sched as [|i sched IH]; intros pool rs s I G; cbn [M_Purity.run].
    - cbn. auto.
    - destruct (step_pool i pool s) as [pool1 s1] eqn:S1.
      destruct (step_pool_good _ _ _ _ _ _ I G S1) as (G1 & E1).
      apply IH; [eapply ext_inv; eauto | exact G1].
  Qed.

  Lemma pool_result : forall pool rs s i r, pool_good pool rs s -> result_of pool i = Some r ->
    nth_error rs i = Some r.
  Proof.
    intros pool rs s i r G. revert i. induction G as [| p r0 pool rs Gp Gr IH]; intros i H; unfold M_Purity.result_of in *.
    - destruct i; discriminate.
    - destruct i as [|i]; cbn in *.
      + destruct p; try discriminate. cbn in Gp. inversion H; subst. reflexivity.
      + apply IH; exact H.
  Qed.

  Lemma pool_of_calls_good : forall (calls : list (string * arg)) s, inv s ->
    pool_good (map (fun qa => query_prog (fst qa) t (snd qa)) calls)
              (map (fun qa => spec_result (fst qa) (snd qa)) calls) s.
  Proof. induction calls as [| [q a] calls IH]; intros s I; constructor; [apply good_query; exact I | apply IH; exact I]. Qed.

  Lemma interleaving_from : forall (calls : list (string * arg)) s sched i r, inv s ->
    result_of (fst (run sched (map (fun qa => query_prog (fst qa) t (snd qa)) calls) s)) i = Some r ->
    exists q a, nth_error calls i = Some (q, a) /\ r = spec_result q a.
  Proof.
    intros calls s sched i r I H.
    destruct (run_good sched _ _ s I (pool_of_calls_good calls s I)) as (G & _).
    pose proof (pool_result _ _ _ _ _ G H) as N.
    rewrite nth_error_map in N. destruct (nth_error calls i) as [[q a]|] eqn:Nc; [| discriminate].
    cbn in N. inversion N. eauto.
  Qed.

  Lemma untouched_from : forall (calls : list (string * arg)) s sched, inv s ->
    st_touched val (snd (run sched (map (fun qa => query_prog (fst qa) t (snd qa)) calls) s)) = false.
  Proof.
    intros calls s sched I.
    destruct (run_good sched _ _ s I (pool_of_calls_good calls s I)) as (_ & (_ & _ & Hx)). exact Hx.
  Qed.

  Lemma reach_inv : forall (calls : list (string * arg)) sched,
    inv (snd (run sched (map (fun qa => query_prog (fst qa) t (snd qa)) calls) fresh_state)).
  Proof.
    intros calls sched.
    exact (proj2 (run_good sched _ _ fresh_state inv_fresh (pool_of_calls_good calls fresh_state inv_fresh))).
  Qed.

  (* every pool can be run to completion (so the interleaving theorem is not vacuous) *)
  Lemma finish_one : forall p before after s,
    exists n s', run (repeat (List.length before) n) (before ++ p :: after) s
                 = (before ++ Ret (fst (exec p s)) :: after, s').
  Proof.
    induction p as [r | c k IH | c v k IH | k IH]; intros before after s.
    - exists 0, s. reflexivity.
    - destruct (IH (get val s c) before after s) as (n & s' & H). exists (S n), s'.
      cbn [repeat M_Purity.run]. replace (step_pool (List.length before) (before ++ ReadC c k :: after) s)
        with (before ++ k (get val s c) :: after, s); [exact H|].
      clear. induction before; cbn; [reflexivity | rewrite <- IHbefore; reflexivity].
    - destruct (IH before after (set val s c v)) as (n & s' & H). exists (S n), s'.
      cbn [repeat M_Purity.run]. replace (step_pool (List.length before) (before ++ WriteC c v k :: after) s)
        with (before ++ k :: after, set val s c v); [exact H|].
      clear. induction before; cbn; [reflexivity | rewrite <- IHbefore; reflexivity].
    - destruct (IH before after (touch val s)) as (n & s' & H). exists (S n), s'.
      cbn [repeat M_Purity.run]. replace (step_pool (List.length before) (before ++ Touch k :: after) s)
        with (before ++ k :: after, touch val s); [exact H|].
      clear. induction before; cbn; [reflexivity | rewrite <- IHbefore; reflexivity].
  Qed.

  Lemma run_app : forall s1 s2 pool s,
    run (s1 ++ s2) pool s = run s2 (fst (run s1 pool s)) (snd (run s1 pool s)).
  Proof.
    induction s1 as [|i s1 IH]; intros s2 pool s; cbn [app M_Purity.run]; [reflexivity|].
    destruct (step_pool i pool s) as [pool1 st1]. apply IH.
  Qed.

  Lemma all_done_app : forall (a b : list prog), all_done val res (a ++ b) = all_done val res a && all_done val res b.
  Proof. intros; unfold all_done; apply forallb_app. Qed.

  Lemma complete_schedule : forall pool done s, all_done val res done = true ->
    exists sched, all_done val res (fst (run sched (done ++ pool) s)) = true.
  Proof.
    induction pool as [| p pool IH]; intros done s D.
    - exists []. cbn. rewrite app_nil_r. exact D.
    - destruct (finish_one p done pool s) as (n & s' & H).
      destruct (IH (done ++ [Ret (fst (exec p s))]) s') as (sched & Hs).
      { rewrite all_done_app, D. reflexivity. }
      exists (repeat (List.length done) n ++ sched).
      rewrite run_app, H. cbn [fst snd]. rewrite <- app_assoc in Hs. exact Hs.
  Qed.
End Proofs.

(* ---- packaged statements (closed; quantified over every interpretation of the store-free code) *)
Section Statements.
  Variables tle arg val res : Type.
  Variable time_of : tle -> val.
  Variable period_of : tle -> val -> val -> val.
  Variable time_dep : tle -> arg -> val.
  Variable period_dep : tle -> arg -> val -> val -> val.
  Variable orbit_result : tle -> arg -> val -> val -> res.
  Variable pure_result : string -> tle -> arg -> res.
  Variable driver : string -> tle -> arg -> list res -> arg + res.
  Variable raise_attr out_of_fuel : res.
  Variable fuel : nat.
  Variable F : facts.

  Notation QP := (query_prog tle arg val res time_of period_of time_dep period_dep orbit_result pure_result driver raise_attr out_of_fuel fuel F).
  Notation FR := (fresh_result tle arg val res time_of period_of time_dep period_dep orbit_result pure_result driver raise_attr out_of_fuel fuel F).

  (* states an object can be in after serving ANY earlier history under ANY earlier schedule *)
  Definition reachable (t : tle) (s : state val) : Prop :=
    exists (calls : list (string * arg)) sched,
      s = snd (run val res sched (map (fun qa => QP (fst qa) t (snd qa)) calls) fresh_state).

  Theorem history : facts_ok F = true ->
    forall (t : tle) (calls : list (string * arg)),
      fst (run_history val res (map (fun qa => QP (fst qa) t (snd qa)) calls) fresh_state)
      = map (fun qa => FR (fst qa) t (snd qa)) calls.
  Proof.
    intros HF t calls.
    destruct (history_from tle arg val res time_of period_of time_dep period_dep orbit_result pure_result
                driver raise_attr out_of_fuel fuel F HF t calls fresh_state (inv_fresh _ _ _ _ _)) as (H & _).
    rewrite H. apply map_ext. intros [q a]. symmetry. apply fresh_is_spec; exact HF.
  Qed.

  Theorem interleaving : facts_ok F = true ->
    forall (t : tle) (s0 : state val), reachable t s0 ->
    forall (calls : list (string * arg)) (sched : list nat) (i : nat) (r : res),
      result_of val res (fst (run val res sched (map (fun qa => QP (fst qa) t (snd qa)) calls) s0)) i = Some r ->
      exists q a, nth_error calls i = Some (q, a) /\ r = FR q t a.
  Proof.
    intros HF t s0 (calls0 & sched0 & Hs0) calls sched i r H.
    assert (I0 : inv tle val time_of period_of t s0).
    { subst s0. eapply reach_inv; exact HF. }
    destruct (interleaving_from tle arg val res time_of period_of time_dep period_dep orbit_result pure_result
                driver raise_attr out_of_fuel fuel F HF t calls s0 sched i r I0 H) as (q & a & N & E).
    exists q, a. split; [exact N|]. rewrite E. symmetry. apply fresh_is_spec; exact HF.
  Qed.

  Theorem args_untouched : facts_ok F = true ->
    forall (t : tle) (calls : list (string * arg)) (sched : list nat),
      st_touched val (snd (run val res sched (map (fun qa => QP (fst qa) t (snd qa)) calls) fresh_state)) = false.
  Proof.
    intros HF t calls sched.
    apply (untouched_from tle arg val res time_of period_of time_dep period_dep orbit_result pure_result
             driver raise_attr out_of_fuel fuel F HF t calls fresh_state sched (inv_fresh _ _ _ _ _)).
  Qed.

  Theorem schedules_complete :
    forall (t : tle) (calls : list (string * arg)) (s0 : state val),
      exists sched, all_done val res (fst (run val res sched (map (fun qa => QP (fst qa) t (snd qa)) calls) s0)) = true.
  Proof.
    intros t calls s0.
    apply (complete_schedule val res (map (fun qa => QP (fst qa) t (snd qa)) calls) [] s0). reflexivity.
  Qed.
End Statements.

(* ---- the premise is needed: with ONE fact flipped to "argument-dependent" the same model is history-dependent *)
Definition bad_facts : facts :=
  {| f_stores := [("get_orbit_number", "orbit_elements.an_time", true, []);
                  ("get_orbit_number", "orbit_elements.an_period", false, ["orbit_elements.an_time"])]%string;
     f_store_functions := []; f_inplace_on_args := []; f_nondet := []; f_unclassified := [];
     f_hit_miss_same := [("get_orbit_number"%string, true)] |}.

Definition demo_prog (F : facts) (a : nat) :=
  query_prog unit nat nat nat (fun _ => 100) (fun _ v1 v2 => v1 - v2 + 7) (fun _ a => a) (fun _ _ v1 v2 => v1 + v2)
    (fun _ a v1 v2 => a + v1 + v2) (fun _ _ a => a) (fun _ _ _ _ => inr 0) 999 998 5 F "get_orbit_number" tt a.

Lemma premise_needed :
  facts_ok bad_facts = false /\
  fst (run_history nat nat [demo_prog bad_facts 1; demo_prog bad_facts 2] fresh_state)
   <> [fst (exec nat nat (demo_prog bad_facts 1) fresh_state); fst (exec nat nat (demo_prog bad_facts 2) fresh_state)].
Proof. split; [reflexivity | vm_compute; discriminate]. Qed.
