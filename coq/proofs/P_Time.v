From Coq Require Import Reals ZArith Lra Lia List Bool.
From Flocq Require Import Core.
From Interval Require Import Tactic.
From PyOrb.lib Require Import PyReal.
From PyOrb.spec Require Import Spec_Time.
From PyOrb.gen Require Import Gen_astronomy.
Open Scope R_scope.

(* ---------- calendar: finite sweep 1900-01-01 .. 2100-12-31 (bound stated) ---------- *)
Open Scope Z_scope.
Definition zrange (a : Z) (n : nat) : list Z := map (fun k => a + Z.of_nat k) (seq 0 n).
Definition cal_ok (y m d : Z) : bool := days_from_civil y m d + 2440588 =? jdn y m d.
Definition cal_month (y m : Z) : bool := forallb (fun d => cal_ok y m d) (zrange 1 31).
Definition cal_year (y : Z) : bool := forallb (cal_month y) (zrange 1 12).
Lemma cal_sweep_true : forallb cal_year (zrange 1900 201) = true.
Proof. vm_compute. reflexivity. Qed.

Lemma forallb_zrange (P : Z -> bool) a n :
  forallb P (zrange a n) = true -> forall z, a <= z < a + Z.of_nat n -> P z = true.
Proof.
  intros H z Hz. rewrite forallb_forall in H. apply H.
  unfold zrange. apply in_map_iff.
  exists (Z.to_nat (z - a)). split; [lia|]. apply in_seq. lia.
Qed.

Lemma calendar_1900_2100 y m d :
  1900 <= y <= 2100 -> 1 <= m <= 12 -> 1 <= d <= 31 ->
  days_from_civil y m d + 2440588 = jdn y m d.
Proof.
  intros Hy Hm Hd.
  apply Z.eqb_eq. change (cal_ok y m d = true).
  apply (forallb_zrange (fun d => cal_ok y m d) 1 31); [|lia].
  change (cal_month y m = true).
  apply (forallb_zrange (cal_month y) 1 12); [|lia].
  change (cal_year y = true).
  apply (forallb_zrange cal_year 1900 201); [|lia].
  exact cal_sweep_true.
Qed.

Lemma j2000_us_val : j2000_us = 946728000000000.
Proof. vm_compute. reflexivity. Qed.
Close Scope Z_scope.

(* Julian date: the code's value (ticks difference / day + 2451545) on the tick of a civil
   instant equals the civil-calendar Julian date, exactly over R *)
Lemma jdays_is_civil_jd y m d hh mi ss us :
  (1900 <= y <= 2100)%Z -> (1 <= m <= 12)%Z -> (1 <= d <= 31)%Z ->
  gen_jdays (d_of_us (civil_us y m d hh mi ss us)) = jd_civil y m d hh mi ss us.
Proof.
  intros Hy Hm Hd.
  unfold gen_jdays, d_of_us, jd_civil. rewrite j2000_us_val.
  rewrite <- (calendar_1900_2100 y m d Hy Hm Hd).
  unfold civil_us.
  repeat (rewrite ?minus_IZR, ?plus_IZR, ?mult_IZR).
  field.
Qed.

Lemma jdays2000_is_jdays d : gen_jdays2000 d = gen_jdays d - 2451545.
Proof. unfold gen_jdays2000, gen_jdays. ring. Qed.

Lemma jdays_difference d1 d2 : gen_jdays d2 - gen_jdays d1 = d2 - d1.
Proof. unfold gen_jdays. ring. Qed.

Lemma jdays2000_difference d1 d2 : gen_jdays2000 d2 - gen_jdays2000 d1 = d2 - d1.
Proof. unfold gen_jdays2000. ring. Qed.

(* ---------- GMST ---------- *)
Lemma gmst_range d : 0 <= gen_gmst d < 2 * PI.
Proof.
  unfold gen_gmst. cbv zeta. apply pymod_range.
  assert (H := PI_RGT_0). lra.
Qed.

Ltac expose_pymod :=
  unfold gen_gmst; cbv zeta;
  match goal with |- context [pymod ?a ?m] =>
    let k := fresh "k" in let E := fresh "E" in
    destruct (pymod_congr a m) as [k E]; rewrite E; clear E; exists k
  end.

Lemma gmst_iau82 d :
  -1 <= d / 36525 <= 1 ->
  exists k : Z, Rabs (gen_gmst d - IZR k * (2 * PI) - gmst82_rad d) <= 1 / 10000000.
Proof.
  intros HT. expose_pymod.
  unfold gmst82_rad, gmst82_sec, deg2rad.
  assert (Hd : -36525 <= d <= 36525) by lra. clear HT.
  match goal with |- Rabs ?e <= _ => field_simplify e end.
  interval with (i_prec 80, i_bisect d, i_taylor d, i_degree 5).
Qed.

Lemma gmst_rate d1 d2 :
  -1 <= d1 / 36525 <= 1 -> -1 <= d2 / 36525 <= 1 ->
  exists k : Z,
    Rabs (gen_gmst d2 - gen_gmst d1 - IZR k * (2 * PI) - 2 * PI * sidereal_rate * (d2 - d1))
    <= 1 / 1000000000 * Rabs (d2 - d1).
Proof.
  intros H1 H2.
  unfold gen_gmst; cbv zeta.
  repeat match goal with |- context [pymod ?a ?m] =>
    let k := fresh "k" in let E := fresh "E" in
    destruct (pymod_congr a m) as [k E]; rewrite E; clear E
  end.
  exists (k - k0)%Z. rewrite minus_IZR.
  unfold deg2rad, sidereal_rate.
  set (T1 := d1 / 36525) in *. set (T2 := d2 / 36525) in *.
  assert (E1 : d1 = T1 * 36525) by (unfold T1; field).
  assert (E2 : d2 = T2 * 36525) by (unfold T2; field).
  rewrite E1, E2.
  match goal with |- Rabs ?e <= _ =>
    replace e with ((T2 * 36525 - T1 * 36525) *
      ((PI / 180 / 240 / 36525) * ((876600 * 3600 + 8640184812866 / 1000000) + 93104 / 1000000 * (T1 + T2)
          - 62 / 1000000 * (T1 * T1 + T1 * T2 + T2 * T2)) - 2 * PI * (100273790935 / 100000000000))) by field
  end.
  rewrite Rabs_mult, Rmult_comm.
  apply Rmult_le_compat_r; [apply Rabs_pos|].
  interval with (i_prec 60).
Qed.
