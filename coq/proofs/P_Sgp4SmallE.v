(* C01, small eccentricity: on the near-earth-normal path with e0 <= 1e-4 and |1 + cos i| >= 1.5e-12
   (leaf 3 of gen_init_outcome) the code equals Spacetrack Report #3 with the small-eccentricity
   convention [t_small_e = true] (delta-omega and delta-M switched off; C3 unused): coefficients,
   secular / drag / long-period update, finishing map, every Newton exit, Kepler accuracy.
   The constructor coefficients leaf 3 reads are the SAME generated variants as leaf 1 (eta_v2, c1_v2,
   c2_v2, c4_v2, c5_v1, xnodcf_v2, t2cof_v2, xlcof_v1) except omgcof (v2 = bstar * 0 * cos w0) and
   xmcof (the literal 0); the leaf-1 initialisation lemmas of P_Sgp4Init need only 0 < e0 < 1 and the
   perigee guard, so they are used as they are. *)
From Coq Require Import Reals Lra Lia.
From PyOrb.lib Require Import PyReal SgpOutcome.
From PyOrb.spec Require Import Spec_SGP4.
From PyOrb.gen Require Import Gen_sgp4 Gen_sgp4_compose.
From PyOrb.proofs Require Import P_Sgp4Init P_Sgp4Prop P_Sgp4Tree P_Kepler.
Open Scope R_scope.

(* ------------------------------------------------------------------------------------------ *)
(* the decision tree: what leaf 3 means *)
Section Tree3.
  Variables e0 incl_deg raan_deg argp_deg ma_deg n_revday bstar : R.
  Notation "'GA' f" := (f e0 incl_deg raan_deg argp_deg ma_deg n_revday bstar) (at level 9, f at level 9).

  Lemma leaf3_facts : GA gen_init_outcome = InitMode NearNorm 3 ->
    elements_in_range e0 incl_deg raan_deg argp_deg ma_deg n_revday bstar /\
    GA gen_sgp4_period < 225 /\ 220 <= GA gen_sgp4_perigee /\ e0 <= 1 / 10000 /\
    3 / 2000000000000 <= GA gen_init_guard3.
  Proof.
    unfold gen_init_outcome, elements_in_range.
    split_tree; intros H; try discriminate H; repeat split; try tauto; lra.
  Qed.

  Lemma leaf3_iff : GA gen_init_outcome = InitMode NearNorm 3 <->
    elements_in_range e0 incl_deg raan_deg argp_deg ma_deg n_revday bstar /\
    GA gen_sgp4_period < 225 /\ 220 <= GA gen_sgp4_perigee /\ e0 <= 1 / 10000 /\
    3 / 2000000000000 <= GA gen_init_guard3.
  Proof.
    split; [exact leaf3_facts|].
    unfold gen_init_outcome, elements_in_range. intros [H [P [Q [S G]]]].
    split_tree; try reflexivity; exfalso; try tauto; lra.
  Qed.
End Tree3.

(* ------------------------------------------------------------------------------------------ *)
Section Propagate3.
  Variables e0 incl_deg raan_deg argp_deg ma_deg n_revday bstar ts : R.
  Notation "'GA' f" := (f e0 incl_deg raan_deg argp_deg ma_deg n_revday bstar) (at level 9, f at level 9).
  Notation "'GB' f" := (f e0 incl_deg raan_deg argp_deg ma_deg n_revday bstar ts) (at level 9, f at level 9).
  Let El := E e0 incl_deg raan_deg argp_deg ma_deg n_revday bstar.
  Let T := mkT true ts.
  Let i0 := P_Sgp4Init.i0 incl_deg.
  Let w0 := P_Sgp4Init.w0 argp_deg.
  Let M0 := P_Sgp4Init.M0 ma_deg.
  Let O0 := P_Sgp4Init.O0 raan_deg.

  Hypothesis He : 0 < e0 < 1.
  Hypothesis Hperi : s_param < a0'' El * (1 - e0).
  Hypothesis Hth : 1 + theta El <> 0.

  Ltac hyp := first [exact He | exact Hperi | exact Hth].
  Ltac sp := unfold El, T; rewrite ?pn0, ?pe0, ?pi0, ?pw0, ?pM0, ?pO0, ?pbs; cbn [t_small_e t_tau];
             fold El; fold T;
             change (GA gen_oe_arg_perigee) with w0; change (GA gen_oe_mean_anomaly) with M0;
             change (GA gen_oe_right_ascension) with O0; change (GA gen_oe_inclination) with i0;
             change (P_Sgp4Init.w0 argp_deg) with w0; change (P_Sgp4Init.M0 ma_deg) with M0;
             change (P_Sgp4Init.O0 raan_deg) with O0; change (P_Sgp4Init.i0 incl_deg) with i0.

  (* the report's switched-off terms *)
  Lemma delta_w3 : delta_w El T = 0.
  Proof. reflexivity. Qed.
  Lemma delta_M3 : delta_M El T = 0.
  Proof. reflexivity. Qed.

  Lemma mdf3_spec : GA gen_oe_mean_anomaly + GA gen_sgp4_xmdot * ts = MDF El T.
  Proof. unfold MDF. rewrite xmdot_spec by hyp. sp. reflexivity. Qed.

  (* the code's  omgcof = bstar * c3 * cos w0  with c3 = 0, and xmcof = 0 *)
  Lemma omgcof3_spec : GA gen_sgp4_omgcof_v2 = 0.
  Proof. unfold gen_sgp4_omgcof_v2. ring. Qed.

  Lemma xmp3_spec : GB gen_nn2_xmp = Mp El T.
  Proof.
    unfold gen_nn2_xmp. cbv zeta. rewrite ts_spec, omgcof3_spec. rewrite xmdot_spec by hyp.
    unfold Mp. rewrite delta_w3, delta_M3. unfold MDF. sp. norm_args. ring.
  Qed.

  Lemma omega3_spec : GB gen_nn2_omega = w El T.
  Proof.
    unfold gen_nn2_omega. cbv zeta. rewrite ts_spec, omgcof3_spec.
    rewrite xmdot_spec, omgdot_spec by hyp.
    unfold w. rewrite delta_w3, delta_M3. unfold wDF, MDF. sp. norm_args. ring.
  Qed.

  Lemma xnode3_spec : GB gen_nn0_xnode = Om El T.
  Proof.
    unfold gen_nn0_xnode. rewrite ts_spec. rewrite xnodot_spec, xnodcf_spec by hyp.
    unfold Om, ODF. sp. fold O0. unfold gen_oe_right_ascension. fold O0.
    replace (P_Sgp4Init.O0 raan_deg) with O0 by reflexivity. ring.
  Qed.

  Lemma e_unclamped3_spec : GB gen_nn2_guard0 = e_unclamped El T.
  Proof.
    unfold gen_nn2_guard0, gen_nn2_tempe. rewrite ts_spec, xmp3_spec. rewrite c4_spec, c5_spec by hyp.
    unfold e_unclamped, gen_sgp4_sinXMO. sp. fold M0.
    replace (sin (GA gen_oe_mean_anomaly)) with (sin M0) by reflexivity. norm_args. ring.
  Qed.

  Lemma a3_spec : GB gen_nn0_a = a El T.
  Proof.
    unfold gen_nn0_a. rewrite ts_spec. rewrite aodp_spec, c1_spec, d2_spec, d3_spec, d4_spec by hyp.
    unfold a. sp. ring.
  Qed.

  Lemma IL3_spec :
    GB gen_nn2_xmp + GB gen_nn2_omega + GB gen_nn0_xnode + GA gen_sgp4_xnodp * GB gen_nn0_templ = IL El T.
  Proof.
    rewrite xmp3_spec, omega3_spec, xnode3_spec. unfold gen_nn0_templ. rewrite ts_spec.
    rewrite xnodp_spec, t2cof_spec, t3cof_spec, t4cof_spec, t5cof_spec by hyp.
    unfold IL. sp. ring.
  Qed.

  (* the (clamped) eccentricity the long-period terms use *)
  Definition ecl3 := clamp_e (e_unclamped El T).

  Lemma axn3_spec : GB gen_nn2_axn = axN El T ecl3.
  Proof.
    unfold gen_nn2_axn. cbv zeta. fold (GB gen_nn2_tempe). fold (GB gen_nn2_guard0).
    rewrite omega3_spec, e_unclamped3_spec. unfold axN. fold (clamp_e (e_unclamped El T)). fold ecl3. eq_mod_ring.
  Qed.

  Lemma ecl3_sq : 0 < 1 - ecl3 ^ 2.
  Proof. pose proof (clamp_e_range (e_unclamped El T)) as R. fold ecl3 in R. nra. Qed.

  Lemma ayn3_spec : a El T <> 0 -> GB gen_nn2_ayn = ayN El T ecl3.
  Proof.
    intros Ha. unfold gen_nn2_ayn. cbv zeta. fold (GB gen_nn2_guard0).
    rewrite omega3_spec, e_unclamped3_spec, a3_spec. rewrite aycof_spec by hyp.
    fold (clamp_e (e_unclamped El T)). fold ecl3.
    unfold ayN, ayNL, beta. sp. fold i0.
    replace (sin (P_Sgp4Init.i0 incl_deg)) with (sin i0) by reflexivity.
    pose proof ecl3_sq as Q. rewrite pow2_sqrt by lra.
    unfold k2, A30. field. split; [lra|exact Ha].
  Qed.

  Lemma xlt3_spec : a El T <> 0 -> GB gen_nn3_xlt = ILT El T ecl3.
  Proof.
    intros Ha. unfold gen_nn3_xlt. cbv zeta.
    rewrite xmp3_spec, omega3_spec, xnode3_spec, axn3_spec, e_unclamped3_spec, a3_spec. unfold gen_nn0_templ. rewrite ts_spec.
    rewrite xnodp_spec, t2cof_spec, t3cof_spec, t4cof_spec, t5cof_spec by hyp.
    fold (clamp_e (e_unclamped El T)). fold ecl3.
    rewrite xlcof_spec by hyp.
    unfold ILT, IL, ILL, axN, beta. sp. fold i0.
    replace (sin (P_Sgp4Init.i0 incl_deg)) with (sin i0) by reflexivity.
    pose proof ecl3_sq as Q. rewrite pow2_sqrt by lra.
    unfold k2, A30. field. split; [exact Hth|]. split; [lra|exact Ha].
  Qed.

  Lemma elsq3_spec : a El T <> 0 -> GB gen_nn2_elsq = eL2 El T ecl3.
  Proof. intros Ha. unfold gen_nn2_elsq, eL2. rewrite axn3_spec, ayn3_spec by exact Ha. ring. Qed.

  Lemma pl3_spec : a El T <> 0 -> GB gen_nn2_pl = pL El T ecl3.
  Proof. intros Ha. unfold gen_nn2_pl, pL. rewrite a3_spec, elsq3_spec by exact Ha. eq_mod_ring. Qed.

  Lemma betal3_spec : a El T <> 0 -> GB gen_nn2_betal = sqrt (1 - eL2 El T ecl3).
  Proof. intros Ha. unfold gen_nn2_betal. rewrite elsq3_spec by exact Ha. eq_mod_ring. Qed.

  (* ---------- the short-period finishing map, for any value Ew of E + omega ---------- *)
  Variable Ew : R.
  Notation "'GC' f" := (f e0 incl_deg raan_deg argp_deg ma_deg n_revday bstar ts Ew) (at level 9, f at level 9).
  Hypothesis Ha : 0 < a El T.
  Hypothesis HeL : eL2 El T ecl3 < 1.

  Lemma Ha3' : a El T <> 0.
  Proof. lra. Qed.

  Lemma fin3_ecosE_spec : GC gen_nn2_fin_ecosE = ecosE El T ecl3 Ew.
  Proof.
    unfold gen_nn2_fin_ecosE, gen_nn0_fin_cosEPW, gen_nn0_fin_sinEPW, ecosE.
    rewrite axn3_spec, (ayn3_spec Ha3'). eq_mod_ring.
  Qed.

  Lemma fin3_esinE_spec : GC gen_nn2_fin_esinE = esinE El T ecl3 Ew.
  Proof.
    unfold gen_nn2_fin_esinE, gen_nn0_fin_cosEPW, gen_nn0_fin_sinEPW, esinE.
    rewrite axn3_spec, (ayn3_spec Ha3'). eq_mod_ring.
  Qed.

  Lemma fin3_r_spec : GC gen_nn2_fin_r = r El T ecl3 Ew.
  Proof. unfold gen_nn2_fin_r, r. rewrite a3_spec, fin3_ecosE_spec. eq_mod_ring. Qed.

  Lemma ecosE3_lt_1 : ecosE El T ecl3 Ew < 1.
  Proof.
    unfold ecosE. set (x := axN El T ecl3) in *. set (y := ayN El T ecl3) in *.
    assert (H : eL2 El T ecl3 = x ^ 2 + y ^ 2) by reflexivity. rewrite H in HeL.
    pose proof (sin2_cos2 Ew) as SC. unfold Rsqr in SC.
    set (c := cos Ew) in *. set (s := sin Ew) in *.
    assert (Q : (x * c + y * s) ^ 2 <= x ^ 2 + y ^ 2).
    { assert (E2 : (x ^ 2 + y ^ 2) * (s * s + c * c) - (x * c + y * s) ^ 2 = (x * s - y * c) ^ 2) by ring.
      rewrite SC in E2. pose proof (pow2_ge_0 (x * s - y * c)). lra. }
    destruct (Rlt_dec (x * c + y * s) 1) as [L|L]; [exact L|]. exfalso.
    assert (1 <= (x * c + y * s) ^ 2) by nra. lra.
  Qed.

  Lemma r3_pos : 0 < r El T ecl3 Ew.
  Proof. unfold r. pose proof ecosE3_lt_1. apply Rmult_lt_0_compat; lra. Qed.

  Lemma pL3_pos : 0 < pL El T ecl3.
  Proof. unfold pL. apply Rmult_lt_0_compat; lra. Qed.

  Lemma fin3_invR_spec : GC gen_nn2_fin_invR = 1 / r El T ecl3 Ew.
  Proof. unfold gen_nn2_fin_invR. rewrite fin3_r_spec. eq_mod_ring. Qed.

  Ltac fin_names :=
    cbv zeta; rewrite ?a3_spec, ?fin3_invR_spec, ?axn3_spec, ?(ayn3_spec Ha3'), ?fin3_esinE_spec, ?(betal3_spec Ha3');
    unfold gen_nn0_fin_sinEPW, gen_nn0_fin_cosEPW.
  Ltac fin_side := pose proof r3_pos; assert (0 <= sqrt (1 - eL2 El T ecl3)) by apply sqrt_pos.

  Lemma fin3_u_spec : GC gen_nn2_fin_u = atan2 (sinu El T ecl3 Ew) (cosu El T ecl3 Ew).
  Proof.
    unfold gen_nn2_fin_u. fin_names. fin_side.
    f_equal; [unfold sinu | unfold cosu]; field; split; lra.
  Qed.

  Lemma fin3_sin2u_spec : GC gen_nn2_fin_sin2u = sin2u El T ecl3 Ew.
  Proof. unfold gen_nn2_fin_sin2u. fin_names. fin_side. unfold sin2u, sinu, cosu. field. split; lra. Qed.

  Lemma fin3_cos2u_spec : GC gen_nn2_fin_cos2u = cos2u El T ecl3 Ew.
  Proof. unfold gen_nn2_fin_cos2u. fin_names. fin_side. unfold cos2u, cosu. field. split; lra. Qed.

  Ltac fin_norm :=
    cbv zeta; rewrite ?fin3_r_spec, ?fin3_cos2u_spec, ?fin3_sin2u_spec, ?fin3_u_spec, ?fin3_esinE_spec, ?fin3_invR_spec,
                      ?(pl3_spec Ha3'), ?(betal3_spec Ha3'), ?a3_spec, ?xnode3_spec;
    unfold gen_sgp4_x3thm1, gen_sgp4_x1mth2, gen_sgp4_x7thm1, gen_sgp4_sinIO; rewrite ?cosIO_spec; fold El.

  Lemma fin3_rk_spec : GC gen_nn2_fin_rk = rk El T ecl3 Ew.
  Proof.
    unfold gen_nn2_fin_rk. fin_norm. unfold rk, k2. pose proof pL3_pos.
    field. lra.
  Qed.

  Lemma fin3_uk_spec : GC gen_nn2_fin_uk = uk El T ecl3 Ew (atan2 (sinu El T ecl3 Ew) (cosu El T ecl3 Ew)).
  Proof.
    unfold gen_nn2_fin_uk. fin_norm. unfold uk, k2. pose proof pL3_pos.
    field. lra.
  Qed.

  Lemma fin3_xnodek_spec : GC gen_nn2_fin_xnodek = Ok El T ecl3 Ew.
  Proof.
    unfold gen_nn2_fin_xnodek. fin_norm. unfold Ok, k2. pose proof pL3_pos.
    field. lra.
  Qed.

  Lemma fin3_xinc_spec : GC gen_nn2_fin_xinc = ik El T ecl3 Ew.
  Proof.
    unfold gen_nn2_fin_xinc. fin_norm. unfold ik, k2. sp. pose proof pL3_pos.
    field. lra.
  Qed.

  (* velocities carry the unit factor XKMPER/aE * XMNPDA/86400 = 106.30225 (km/s per er/min) *)
  Lemma fin3_rdotk_spec : GC gen_nn2_fin_rdotk = rdotk El T ecl3 Ew * (XKMPER / aE * min_per_day / 86400).
  Proof.
    unfold gen_nn2_fin_rdotk. fin_norm. unfold rdotk, rdot, n, ke, k2, XKMPER, aE, min_per_day.
    pose proof pL3_pos. pose proof r3_pos. assert (0 < sqrt (a El T)) by (apply sqrt_lt_R0; exact Ha).
    field. repeat split; lra.
  Qed.

  Lemma fin3_rfdotk_spec : GC gen_nn2_fin_rfdotk = rfdotk El T ecl3 Ew * (XKMPER / aE * min_per_day / 86400).
  Proof.
    unfold gen_nn2_fin_rfdotk. fin_norm. unfold rfdotk, rfdot, n, ke, k2, XKMPER, aE, min_per_day.
    pose proof pL3_pos. pose proof r3_pos. assert (0 < sqrt (a El T)) by (apply sqrt_lt_R0; exact Ha).
    field. repeat split; lra.
  Qed.
End Propagate3.

(* ------------------------------------------------------------------------------------------ *)
Section Exits3.
  Variables e0 incl_deg raan_deg argp_deg ma_deg n_revday bstar ts : R.
  Notation "'GA' f" := (f e0 incl_deg raan_deg argp_deg ma_deg n_revday bstar) (at level 9, f at level 9).
  Notation "'GB' f" := (f e0 incl_deg raan_deg argp_deg ma_deg n_revday bstar ts) (at level 9, f at level 9).
  Let El := E e0 incl_deg raan_deg argp_deg ma_deg n_revday bstar.
  Let T := mkT true ts.
  Let ec := ecl3 e0 incl_deg raan_deg argp_deg ma_deg n_revday bstar ts.

  Hypothesis Hleaf : GA gen_init_outcome = InitMode NearNorm 3.

  Lemma leaf3_He : 0 < e0 < 1.
  Proof. destruct (leaf3_facts _ _ _ _ _ _ _ Hleaf) as [[_ [A [B _]]] _]. lra. Qed.

  Lemma leaf3_Hperi : s_param < a0'' El * (1 - e0).
  Proof.
    destruct (leaf3_facts _ _ _ _ _ _ _ Hleaf) as [_ [_ [P _]]].
    rewrite (perigee_spec _ _ _ _ _ _ _ leaf3_He) in P.
    unfold perigee_km, aE, XKMPER in P. rewrite pe0 in P. fold El in P. unfold s_param, XKMPER, aE. lra.
  Qed.

  Lemma leaf3_Hth : 1 + theta El <> 0.
  Proof.
    destruct (leaf3_facts _ _ _ _ _ _ _ Hleaf) as [_ [_ [_ [_ G]]]].
    unfold gen_init_guard3 in G. rewrite ?cosIO_spec, ?oe_incl in G. half_angle_in G (P_Sgp4Init.i0 incl_deg).
    replace (cos (P_Sgp4Init.i0 incl_deg)) with (theta El) in G by reflexivity. fold El in G.
    intros Z. replace (2 * ((1 + theta El) / 2)) with (1 + theta El) in G by field.
    replace ((1 + theta El) / 2 * 2) with (1 + theta El) in G by field.
    rewrite Z, Rabs_R0 in G. lra.
  Qed.

  Lemma leaf3_e_le : e0 <= 1 / 10000.
  Proof. destruct (leaf3_facts _ _ _ _ _ _ _ Hleaf) as [_ [_ [_ [G _]]]]. exact G. Qed.

  (* constructor coefficients on leaf 3: exactly the report's (C3 is not used: the code stores 0) *)
  Lemma coefficients3 :
    GA gen_sgp4_xnodp = n0'' El /\ GA gen_sgp4_aodp = a0'' El /\
    GA gen_sgp4_perigee = perigee_km El /\ GA gen_sgp4_apogee = apogee_km El /\ GA gen_sgp4_period = period_min El /\
    GA gen_sgp4_eta_v2 = eta El /\ GA gen_sgp4_c2_v2 = C2 El /\ GA gen_sgp4_c1_v2 = C1 El /\
    GA gen_sgp4_c4_v2 = C4 El /\ GA gen_sgp4_c5_v1 = C5 El /\
    GA gen_sgp4_d2 = D2 El /\ GA gen_sgp4_d3 = D3 El /\ GA gen_sgp4_d4 = D4 El /\
    GA gen_sgp4_xmdot = Mdot El /\ GA gen_sgp4_omgdot = wdot El /\ GA gen_sgp4_xnodot = Odot El /\
    GA gen_sgp4_c3_v0 = 0 /\ GA gen_sgp4_omgcof_v2 = 0 /\ GA gen_sgp4_xmcof_v1 = 0.
  Proof.
    pose proof leaf3_He as He. pose proof leaf3_Hperi as Hp.
    repeat split;
      first [ apply xnodp_spec | apply aodp_spec | apply perigee_spec | apply apogee_spec | apply period_spec
            | apply eta_spec | apply c2_spec | apply c1_spec | apply c4_spec | apply c5_spec
            | apply d2_spec | apply d3_spec | apply d4_spec | apply xmdot_spec | apply omgdot_spec | apply xnodot_spec
            | apply omgcof3_spec | reflexivity ];
      assumption.
  Qed.

  (* the decay guards every returned state has passed *)
  Lemma prop_ok_guards3 j : GB gen_nn3_prop_outcome = PropOk j ->
    1 <= a El T /\ - (1 / 1000) <= e_unclamped El T /\ eL2 El T ec < 1.
  Proof.
    intros H.
    assert (G : 1 <= GB gen_nn0_a /\ (-1) / 1000 <= GB gen_nn2_guard0 /\ GB gen_nn2_elsq < 1).
    { revert H. unfold gen_nn3_prop_outcome. split_tree; intros H; try discriminate H; repeat split; lra. }
    destruct G as [G1 [G2 G3]].
    rewrite (a3_spec _ _ _ _ _ _ _ _ leaf3_He leaf3_Hperi) in G1. fold El T in G1.
    rewrite (e_unclamped3_spec _ _ _ _ _ _ _ _ leaf3_He leaf3_Hperi) in G2. fold El T in G2.
    assert (Ha : a El T <> 0) by lra.
    rewrite (elsq3_spec _ _ _ _ _ _ _ _ leaf3_He leaf3_Hperi Ha) in G3. fold El T ec in G3.
    repeat split; lra.
  Qed.

  (* secular + drag update at ts, and the long-period terms (on the clamped eccentricity ec) *)
  Lemma update3 : a El T <> 0 ->
    GB gen_nn2_xmp = Mp El T /\ GB gen_nn2_omega = w El T /\ GB gen_nn0_xnode = Om El T /\
    GB gen_nn2_guard0 = e_unclamped El T /\ GB gen_nn0_a = a El T /\
    GB gen_nn2_axn = axN El T ec /\ GB gen_nn2_ayn = ayN El T ec /\ GB gen_nn3_xlt = ILT El T ec /\
    GB gen_nn2_elsq = eL2 El T ec /\ GB gen_nn2_pl = pL El T ec /\
    GB gen_nn3_epw_x0 = fmodR (U El T ec) (2 * PI).
  Proof.
    intros Ha. pose proof leaf3_He as He. pose proof leaf3_Hperi as Hp. pose proof leaf3_Hth as Ht.
    repeat split;
      first [ apply xmp3_spec | apply omega3_spec | apply xnode3_spec | apply e_unclamped3_spec | apply a3_spec
            | apply axn3_spec | apply ayn3_spec | apply xlt3_spec | apply elsq3_spec | apply pl3_spec
            | idtac ]; try assumption.
    unfold gen_nn3_epw_x0.
    rewrite (xlt3_spec _ _ _ _ _ _ _ _ He Hp Ht Ha).
    rewrite (xnode3_spec _ _ _ _ _ _ _ _ He Hp). reflexivity.
  Qed.

  (* with the report's small-e convention: Mp = MDF, w = wDF *)
  Lemma small_e_no_delta : Mp El T = MDF El T /\ w El T = wDF El T.
  Proof. unfold Mp, w, delta_w, delta_M, T. cbn [t_small_e]. split; ring. Qed.

  Lemma epw0_is_U3 : a El T <> 0 -> GB gen_nn3_epw_x0 = fmodR (U El T ec) (2 * PI).
  Proof.
    intros Ha. unfold gen_nn3_epw_x0.
    rewrite (xlt3_spec _ _ _ _ _ _ _ _ leaf3_He leaf3_Hperi leaf3_Hth Ha).
    rewrite (xnode3_spec _ _ _ _ _ _ _ _ leaf3_He leaf3_Hperi). reflexivity.
  Qed.

  (* generic statement for one exit: Ew is that exit's Newton iterate *)
  Definition exit_ok3 (Ew radius theta eqinc ascn rdk rfdk smjaxs : R) : Prop :=
    radius = rk El T ec Ew * XKMPER /\
    theta = uk El T ec Ew (atan2 (sinu El T ec Ew) (cosu El T ec Ew)) /\
    eqinc = ik El T ec Ew /\ ascn = Ok El T ec Ew /\
    rdk = rdotk El T ec Ew * (XKMPER / aE * min_per_day / 86400) /\
    rfdk = rfdotk El T ec Ew * (XKMPER / aE * min_per_day / 86400) /\
    smjaxs = a El T * XKMPER.

  Lemma fin_outputs3 Ew : 0 < a El T -> eL2 El T ec < 1 ->
    exit_ok3 Ew
      (gen_nn3_fin_out_radius e0 incl_deg raan_deg argp_deg ma_deg n_revday bstar ts Ew)
      (gen_nn3_fin_out_theta e0 incl_deg raan_deg argp_deg ma_deg n_revday bstar ts Ew)
      (gen_nn3_fin_out_eqinc e0 incl_deg raan_deg argp_deg ma_deg n_revday bstar ts Ew)
      (gen_nn3_fin_out_ascn e0 incl_deg raan_deg argp_deg ma_deg n_revday bstar ts Ew)
      (gen_nn3_fin_out_rdotk e0 incl_deg raan_deg argp_deg ma_deg n_revday bstar ts Ew)
      (gen_nn3_fin_out_rfdotk e0 incl_deg raan_deg argp_deg ma_deg n_revday bstar ts Ew)
      (gen_nn3_fin_out_smjaxs e0 incl_deg raan_deg argp_deg ma_deg n_revday bstar ts Ew).
  Proof.
    intros Ha HeL. unfold exit_ok3.
    unfold gen_nn3_fin_out_radius, gen_nn3_fin_out_theta, gen_nn3_fin_out_eqinc, gen_nn3_fin_out_ascn,
           gen_nn3_fin_out_rdotk, gen_nn3_fin_out_rfdotk, gen_nn3_fin_out_smjaxs,
           gen_nn2_fin_out_radius, gen_nn0_x0_smjaxs.
    rewrite (fin3_rk_spec _ _ _ _ _ _ _ _ leaf3_He leaf3_Hperi Ew Ha HeL).
    rewrite (fin3_uk_spec _ _ _ _ _ _ _ _ leaf3_He leaf3_Hperi Ew Ha HeL).
    rewrite (fin3_xinc_spec _ _ _ _ _ _ _ _ leaf3_He leaf3_Hperi Ew Ha HeL).
    rewrite (fin3_xnodek_spec _ _ _ _ _ _ _ _ leaf3_He leaf3_Hperi Ew Ha HeL).
    rewrite (fin3_rdotk_spec _ _ _ _ _ _ _ _ leaf3_He leaf3_Hperi Ew Ha HeL).
    rewrite (fin3_rfdotk_spec _ _ _ _ _ _ _ _ leaf3_He leaf3_Hperi Ew Ha HeL).
    rewrite (a3_spec _ _ _ _ _ _ _ _ leaf3_He leaf3_Hperi).
    fold El T ec. unfold XKMPER. repeat split; try reflexivity; field.
  Qed.

  Lemma fin_exit_test3 Ew : 0 < a El T -> eL2 El T ec < 1 ->
    Rabs ((GB gen_nn3_epw_x0 - Ew) + gen_nn3_fin_esinE e0 incl_deg raan_deg argp_deg ma_deg n_revday bstar ts Ew)
    = Rabs (kepler_residual El T ec (fmodR (U El T ec) (2 * PI)) Ew).
  Proof.
    intros Ha HeL. assert (Ha' : a El T <> 0) by lra.
    rewrite (epw0_is_U3 Ha'). unfold gen_nn3_fin_esinE.
    rewrite (fin3_esinE_spec _ _ _ _ _ _ _ _ leaf3_He leaf3_Hperi Ew Ha). fold El T ec.
    unfold kepler_residual, esinE. f_equal. ring.
  Qed.

  Ltac exit_tac H Ew compose_test :=
    destruct (prop_ok_guards3 _ H) as [G1 [_ G3]];
    assert (Ha : 0 < a El T) by lra;
    split;
    [ rewrite <- (fin_exit_test3 Ew Ha G3); unfold Ew; rewrite <- compose_test;
      revert H; unfold gen_nn3_prop_outcome; split_tree; intros H; try discriminate H; assumption
    | ].

  Theorem exit3_0 : GB gen_nn3_prop_outcome = PropOk 0 ->
    let Ew := GB gen_nn3_epw_x0 in
    Rabs (kepler_residual El T ec (fmodR (U El T ec) (2 * PI)) Ew) < 1 / 1000000000000 /\
    exit_ok3 Ew (GB gen_nn3_x0_radius) (GB gen_nn3_x0_theta) (GB gen_nn3_x0_eqinc) (GB gen_nn3_x0_ascn)
                (GB gen_nn3_x0_rdotk) (GB gen_nn3_x0_rfdotk) (GB gen_nn3_x0_smjaxs).
  Proof.
    intros H Ew. exit_tac H Ew compose_nn3_x0_exit_test.
    rewrite compose_nn3_x0_out_radius, compose_nn3_x0_out_theta, compose_nn3_x0_out_eqinc,
            compose_nn3_x0_out_ascn, compose_nn3_x0_out_rdotk, compose_nn3_x0_out_rfdotk,
            compose_nn3_x0_out_smjaxs.
    apply fin_outputs3; assumption.
  Qed.

  Theorem exit3_1 : GB gen_nn3_prop_outcome = PropOk 1 ->
    let Ew := GB gen_nn3_epw_x1 in
    Rabs (kepler_residual El T ec (fmodR (U El T ec) (2 * PI)) Ew) < 1 / 1000000000000 /\
    exit_ok3 Ew (GB gen_nn3_x1_radius) (GB gen_nn3_x1_theta) (GB gen_nn3_x1_eqinc) (GB gen_nn3_x1_ascn)
                (GB gen_nn3_x1_rdotk) (GB gen_nn3_x1_rfdotk) (GB gen_nn3_x1_smjaxs).
  Proof.
    intros H Ew. exit_tac H Ew compose_nn3_x1_exit_test.
    rewrite compose_nn3_x1_out_radius, compose_nn3_x1_out_theta, compose_nn3_x1_out_eqinc,
            compose_nn3_x1_out_ascn, compose_nn3_x1_out_rdotk, compose_nn3_x1_out_rfdotk,
            compose_nn3_x1_out_smjaxs.
    apply fin_outputs3; assumption.
  Qed.

  Theorem exit3_2 : GB gen_nn3_prop_outcome = PropOk 2 ->
    let Ew := GB gen_nn3_epw_x2 in
    Rabs (kepler_residual El T ec (fmodR (U El T ec) (2 * PI)) Ew) < 1 / 1000000000000 /\
    exit_ok3 Ew (GB gen_nn3_x2_radius) (GB gen_nn3_x2_theta) (GB gen_nn3_x2_eqinc) (GB gen_nn3_x2_ascn)
                (GB gen_nn3_x2_rdotk) (GB gen_nn3_x2_rfdotk) (GB gen_nn3_x2_smjaxs).
  Proof.
    intros H Ew. exit_tac H Ew compose_nn3_x2_exit_test.
    rewrite compose_nn3_x2_out_radius, compose_nn3_x2_out_theta, compose_nn3_x2_out_eqinc,
            compose_nn3_x2_out_ascn, compose_nn3_x2_out_rdotk, compose_nn3_x2_out_rfdotk,
            compose_nn3_x2_out_smjaxs.
    apply fin_outputs3; assumption.
  Qed.

  Theorem exit3_3 : GB gen_nn3_prop_outcome = PropOk 3 ->
    let Ew := GB gen_nn3_epw_x3 in
    Rabs (kepler_residual El T ec (fmodR (U El T ec) (2 * PI)) Ew) < 1 / 1000000000000 /\
    exit_ok3 Ew (GB gen_nn3_x3_radius) (GB gen_nn3_x3_theta) (GB gen_nn3_x3_eqinc) (GB gen_nn3_x3_ascn)
                (GB gen_nn3_x3_rdotk) (GB gen_nn3_x3_rfdotk) (GB gen_nn3_x3_smjaxs).
  Proof.
    intros H Ew. exit_tac H Ew compose_nn3_x3_exit_test.
    rewrite compose_nn3_x3_out_radius, compose_nn3_x3_out_theta, compose_nn3_x3_out_eqinc,
            compose_nn3_x3_out_ascn, compose_nn3_x3_out_rdotk, compose_nn3_x3_out_rfdotk,
            compose_nn3_x3_out_smjaxs.
    apply fin_outputs3; assumption.
  Qed.

  Theorem exit3_4 : GB gen_nn3_prop_outcome = PropOk 4 ->
    let Ew := GB gen_nn3_epw_x4 in
    Rabs (kepler_residual El T ec (fmodR (U El T ec) (2 * PI)) Ew) < 1 / 1000000000000 /\
    exit_ok3 Ew (GB gen_nn3_x4_radius) (GB gen_nn3_x4_theta) (GB gen_nn3_x4_eqinc) (GB gen_nn3_x4_ascn)
                (GB gen_nn3_x4_rdotk) (GB gen_nn3_x4_rfdotk) (GB gen_nn3_x4_smjaxs).
  Proof.
    intros H Ew. exit_tac H Ew compose_nn3_x4_exit_test.
    rewrite compose_nn3_x4_out_radius, compose_nn3_x4_out_theta, compose_nn3_x4_out_eqinc,
            compose_nn3_x4_out_ascn, compose_nn3_x4_out_rdotk, compose_nn3_x4_out_rfdotk,
            compose_nn3_x4_out_smjaxs.
    apply fin_outputs3; assumption.
  Qed.

  Theorem exit3_5 : GB gen_nn3_prop_outcome = PropOk 5 ->
    let Ew := GB gen_nn3_epw_x5 in
    Rabs (kepler_residual El T ec (fmodR (U El T ec) (2 * PI)) Ew) < 1 / 1000000000000 /\
    exit_ok3 Ew (GB gen_nn3_x5_radius) (GB gen_nn3_x5_theta) (GB gen_nn3_x5_eqinc) (GB gen_nn3_x5_ascn)
                (GB gen_nn3_x5_rdotk) (GB gen_nn3_x5_rfdotk) (GB gen_nn3_x5_smjaxs).
  Proof.
    intros H Ew. exit_tac H Ew compose_nn3_x5_exit_test.
    rewrite compose_nn3_x5_out_radius, compose_nn3_x5_out_theta, compose_nn3_x5_out_eqinc,
            compose_nn3_x5_out_ascn, compose_nn3_x5_out_rdotk, compose_nn3_x5_out_rfdotk,
            compose_nn3_x5_out_smjaxs.
    apply fin_outputs3; assumption.
  Qed.

  Theorem exit3_6 : GB gen_nn3_prop_outcome = PropOk 6 ->
    let Ew := GB gen_nn3_epw_x6 in
    Rabs (kepler_residual El T ec (fmodR (U El T ec) (2 * PI)) Ew) < 1 / 1000000000000 /\
    exit_ok3 Ew (GB gen_nn3_x6_radius) (GB gen_nn3_x6_theta) (GB gen_nn3_x6_eqinc) (GB gen_nn3_x6_ascn)
                (GB gen_nn3_x6_rdotk) (GB gen_nn3_x6_rfdotk) (GB gen_nn3_x6_smjaxs).
  Proof.
    intros H Ew. exit_tac H Ew compose_nn3_x6_exit_test.
    rewrite compose_nn3_x6_out_radius, compose_nn3_x6_out_theta, compose_nn3_x6_out_eqinc,
            compose_nn3_x6_out_ascn, compose_nn3_x6_out_rdotk, compose_nn3_x6_out_rfdotk,
            compose_nn3_x6_out_smjaxs.
    apply fin_outputs3; assumption.
  Qed.

  Theorem exit3_7 : GB gen_nn3_prop_outcome = PropOk 7 ->
    let Ew := GB gen_nn3_epw_x7 in
    Rabs (kepler_residual El T ec (fmodR (U El T ec) (2 * PI)) Ew) < 1 / 1000000000000 /\
    exit_ok3 Ew (GB gen_nn3_x7_radius) (GB gen_nn3_x7_theta) (GB gen_nn3_x7_eqinc) (GB gen_nn3_x7_ascn)
                (GB gen_nn3_x7_rdotk) (GB gen_nn3_x7_rfdotk) (GB gen_nn3_x7_smjaxs).
  Proof.
    intros H Ew. exit_tac H Ew compose_nn3_x7_exit_test.
    rewrite compose_nn3_x7_out_radius, compose_nn3_x7_out_theta, compose_nn3_x7_out_eqinc,
            compose_nn3_x7_out_ascn, compose_nn3_x7_out_rdotk, compose_nn3_x7_out_rfdotk,
            compose_nn3_x7_out_smjaxs.
    apply fin_outputs3; assumption.
  Qed.

  Theorem exit3_8 : GB gen_nn3_prop_outcome = PropOk 8 ->
    let Ew := GB gen_nn3_epw_x8 in
    Rabs (kepler_residual El T ec (fmodR (U El T ec) (2 * PI)) Ew) < 1 / 1000000000000 /\
    exit_ok3 Ew (GB gen_nn3_x8_radius) (GB gen_nn3_x8_theta) (GB gen_nn3_x8_eqinc) (GB gen_nn3_x8_ascn)
                (GB gen_nn3_x8_rdotk) (GB gen_nn3_x8_rfdotk) (GB gen_nn3_x8_smjaxs).
  Proof.
    intros H Ew. exit_tac H Ew compose_nn3_x8_exit_test.
    rewrite compose_nn3_x8_out_radius, compose_nn3_x8_out_theta, compose_nn3_x8_out_eqinc,
            compose_nn3_x8_out_ascn, compose_nn3_x8_out_rdotk, compose_nn3_x8_out_rfdotk,
            compose_nn3_x8_out_smjaxs.
    apply fin_outputs3; assumption.
  Qed.

  Theorem exit3_9 : GB gen_nn3_prop_outcome = PropOk 9 ->
    let Ew := GB gen_nn3_epw_x9 in
    Rabs (kepler_residual El T ec (fmodR (U El T ec) (2 * PI)) Ew) < 1 / 1000000000000 /\
    exit_ok3 Ew (GB gen_nn3_x9_radius) (GB gen_nn3_x9_theta) (GB gen_nn3_x9_eqinc) (GB gen_nn3_x9_ascn)
                (GB gen_nn3_x9_rdotk) (GB gen_nn3_x9_rfdotk) (GB gen_nn3_x9_smjaxs).
  Proof.
    intros H Ew. exit_tac H Ew compose_nn3_x9_exit_test.
    rewrite compose_nn3_x9_out_radius, compose_nn3_x9_out_theta, compose_nn3_x9_out_eqinc,
            compose_nn3_x9_out_ascn, compose_nn3_x9_out_rdotk, compose_nn3_x9_out_rfdotk,
            compose_nn3_x9_out_smjaxs.
    apply fin_outputs3; assumption.
  Qed.

  (* exit 10: the loop ran its 10 iterations without meeting the tolerance; the state is still the
     finishing map at the 10th iterate's predecessor (the code keeps the last computed sines) *)
  Theorem exit3_10 : GB gen_nn3_prop_outcome = PropOk 10 ->
    let Ew := GB gen_nn3_epw_x9 in
    exit_ok3 Ew (GB gen_nn3_x10_radius) (GB gen_nn3_x10_theta) (GB gen_nn3_x10_eqinc) (GB gen_nn3_x10_ascn)
                (GB gen_nn3_x10_rdotk) (GB gen_nn3_x10_rfdotk) (GB gen_nn3_x10_smjaxs).
  Proof.
    intros H Ew. destruct (prop_ok_guards3 _ H) as [G1 [_ G3]]. assert (Ha : 0 < a El T) by lra.
    rewrite compose_nn3_x10_out_radius, compose_nn3_x10_out_theta, compose_nn3_x10_out_eqinc,
            compose_nn3_x10_out_ascn, compose_nn3_x10_out_rdotk, compose_nn3_x10_out_rfdotk,
            compose_nn3_x10_out_smjaxs.
    apply fin_outputs3; assumption.
  Qed.

  (* Kepler accuracy, as on leaf 1 *)
  Theorem kepler_accuracy3 j Ucap Ew tol : GB gen_nn3_prop_outcome = PropOk j ->
    Rabs (kepler_residual El T ec Ucap Ew) < tol ->
    exists Es, kepler_residual El T ec Ucap Es = 0 /\
               (forall Es', kepler_residual El T ec Ucap Es' = 0 -> Es' = Es) /\
               Rabs (Es - Ucap) <= sqrt (eL2 El T ec) /\
               sqrt (eL2 El T ec) < 1 /\
               (1 - sqrt (eL2 El T ec)) * Rabs (Ew - Es) < tol.
  Proof.
    intros H Hres. destruct (prop_ok_guards3 _ H) as [_ [_ G3]].
    unfold eL2 in G3 |- *.
    assert (RK : forall x, kepler_residual El T ec Ucap x = Ucap - kf (axN El T ec) (ayN El T ec) x).
    { intros x. unfold kepler_residual, kf. ring. }
    destruct (kepler_exists _ _ G3 Ucap) as [Es [HEs Hnear]].
    exists Es. rewrite !RK. repeat split.
    - rewrite HEs. ring.
    - intros Es'. rewrite RK. intros H'. apply (kepler_unique _ _ G3). lra.
    - exact Hnear.
    - apply (q_lt1 _ _ G3).
    - rewrite RK in Hres.
      apply Rle_lt_trans with (2 := Hres). apply kepler_error. exact HEs.
  Qed.
End Exits3.
