(* OrbitElements.period / .original_mean_motion against the propagator's recovered mean motion n0'' (xnodp):
   same method as P_OeSummary - both are n0 / (1 + H(a1, u)) for one function H of the oblateness term u. *)
From Coq Require Import Reals Lra.
From Coquelicot Require Import Coquelicot.
From Interval Require Import Tactic.
From PyOrb.lib Require Import PyReal.
From PyOrb.gen Require Import Gen_sgp4.
From PyOrb.proofs Require Import P_OeSummary.
Open Scope R_scope.

Definition Hfun (a1 u : R) : R := u / (Ga0 a1 u) ^ 2.

Lemma H_der a1 x : 1 <= a1 <= 21 / 10 -> Rabs x <= 22 / 10000 ->
  exists d, is_derive (fun u => Hfun a1 u) x d /\ Rabs d <= 102 / 100.
Proof.
  intros Ha Hx. apply Rabs_le_between in Hx.
  eexists. split.
  - unfold Hfun, Ga0. auto_derive.
    + repeat split; try (apply Rgt_not_eq; interval); try (apply Rlt_not_eq; interval).
    + reflexivity.
  - interval with (i_bisect a1, i_depth 12).
Qed.

Lemma H_box a1 u : 1 <= a1 <= 21 / 10 -> Rabs u <= 22 / 10000 -> Rabs (Hfun a1 u) <= 23 / 10000.
Proof. intros Ha Hu. apply Rabs_le_between in Hu. unfold Hfun, Ga0. interval. Qed.

Lemma Hfun_lip a1 u u' : 1 <= a1 <= 21 / 10 -> Rabs u <= 22 / 10000 -> Rabs u' <= 22 / 10000 ->
  Rabs (Hfun a1 u' - Hfun a1 u) <= 102 / 100 * Rabs (u' - u).
Proof.
  intros Ha Hu Hu'.
  assert (Hbox : forall x, Rmin u u' <= x <= Rmax u u' -> Rabs x <= 22 / 10000).
  { intros x [Hx1 Hx2]. apply Rabs_le_between in Hu. apply Rabs_le_between in Hu'. apply Rabs_le.
    unfold Rmin, Rmax in *. destruct (Rle_dec u u'); lra. }
  destruct (MVT_gen (fun v => Hfun a1 v) u u' (Derive (fun v => Hfun a1 v))) as [c [Hc Hm]].
  - intros x Hx. destruct (H_der a1 x Ha) as [d [Hd _]]; [apply Hbox; lra|].
    apply Derive_correct. exists d. exact Hd.
  - intros x Hx. destruct (H_der a1 x Ha) as [d [Hd _]]; [apply Hbox; lra|].
    apply derivable_continuous_pt. apply ex_derive_Reals_0. exists d. exact Hd.
  - rewrite Hm. rewrite Rabs_mult. apply Rmult_le_compat_r; [apply Rabs_pos|].
    destruct (H_der a1 c Ha) as [d [Hd Hb]]; [apply Hbox; exact Hc|].
    match goal with |- Rabs ?t <= _ => replace t with d by (symmetry; apply is_derive_unique; exact Hd) end. exact Hb.
Qed.

Lemma shape_n_oe n0 a1 q :
  (let v68 := (3 / 2) * ((135327 / 250000000) / (a1 ^ 2)) * q in
   n0 / (1 + ((3 / 2) * ((135327 / 250000000) / ((a1 * (((1 - (v68 / 3)) - (v68 ^ 2)) - ((134 / 81) * (v68 ^ 3)))) ^ 2))) * q))
  = n0 / (1 + Hfun a1 (405981 / 500000000 * q)).
Proof.
  cbv zeta. unfold Hfun, Ga0.
  assert (K : 405981 / 500000000 = 3 / 2 * (135327 / 250000000)) by lra. rewrite K.
  replace (3 / 2 * (135327 / 250000000) * q / a1 ^ 2) with (3 / 2 * (135327 / 250000000 / a1 ^ 2) * q) by (unfold Rdiv; ring).
  set (v79 := a1 * _).
  replace (3 / 2 * (135327 / 250000000) * q / v79 ^ 2) with (3 / 2 * (135327 / 250000000 / v79 ^ 2) * q) by (unfold Rdiv; ring).
  reflexivity.
Qed.

Lemma shape_n_sgp n0 a1 v111 :
  (let v112 := v111 / (a1 ^ 2) in
   n0 / (1 + (v111 / ((a1 * (1 - (v112 * ((1 / 3) + (v112 * (1 + ((v112 * 134) / 81))))))) ^ 2))))
  = n0 / (1 + Hfun a1 v111).
Proof.
  cbv zeta. unfold Hfun, Ga0.
  replace (a1 * (1 - v111 / a1 ^ 2 * (1 / 3 + v111 / a1 ^ 2 * (1 + v111 / a1 ^ 2 * 134 / 81))))
    with (a1 * (1 - v111 / a1 ^ 2 / 3 - (v111 / a1 ^ 2) ^ 2 - 134 / 81 * (v111 / a1 ^ 2) ^ 3)) by (unfold Rdiv; ring).
  reflexivity.
Qed.

Section Link.
  Variables e0 i r w m n b : R.
  Notation GA f := (f e0 i r w m n b).
  Hypothesis He : 0 <= e0 <= 4 / 10.
  Hypothesis Hn : 64 / 10 <= n <= 17.
  Notation A1 := (a1v e0 i r w m n b).
  Notation Uoe := (u_oe e0 i r w m n b).
  Notation Usgp := (u_sgp e0 i r w m n b).

  Lemma oe_n_is_H : GA gen_oe_original_mean_motion = GA gen_oe_mean_motion / (1 + Hfun A1 Uoe).
  Proof.
    unfold gen_oe_original_mean_motion, a1v, u_oe, x3.
    first [ exact (shape_n_oe _ _ _) | (unfold Hfun, Ga0, Rpowq; cbv zeta; eq_mod_ring) ].
  Qed.

  Lemma sgp_n_is_H : GA gen_sgp4_xnodp = GA gen_oe_mean_motion / (1 + Hfun A1 Usgp).
  Proof.
    unfold gen_sgp4_xnodp, gen_sgp4_x3thm1, gen_sgp4_cosIO, gen_sgp4_betao, gen_sgp4_betao2, a1v, u_sgp, x3.
    first [ exact (shape_n_sgp _ _ _) | (unfold Hfun, Ga0, Rpowq; cbv zeta; eq_mod_ring) ].
  Qed.

  Lemma n0_pos : 0 < GA gen_oe_mean_motion.
  Proof. unfold gen_oe_mean_motion. interval. Qed.

  (* the mean motion the summary exposes and the one the propagation uses agree to 0.03 % *)
  Theorem oe_mean_motion_close :
    Rabs (GA gen_oe_original_mean_motion - GA gen_sgp4_xnodp) <= 3 / 10000 * GA gen_sgp4_xnodp.
  Proof.
    rewrite oe_n_is_H, sgp_n_is_H.
    pose proof (a1v_box e0 i r w m n b Hn) as Ha.
    pose proof (u_oe_box e0 i r w m n b He) as Bo. pose proof (u_sgp_box e0 i r w m n b He) as Bs.
    pose proof (Hfun_lip A1 Usgp Uoe Ha Bs Bo) as HL. pose proof (u_gap e0 i r w m n b He) as Hg.
    pose proof (H_box A1 Uoe Ha Bo) as H1. pose proof (H_box A1 Usgp Ha Bs) as H2.
    pose proof n0_pos as Hp.
    set (h1 := Hfun A1 Uoe) in *. set (h2 := Hfun A1 Usgp) in *. set (n0 := GA gen_oe_mean_motion) in *.
    apply Rabs_le_between in H1. apply Rabs_le_between in H2.
    replace (n0 / (1 + h1) - n0 / (1 + h2)) with ((n0 / (1 + h2)) * ((h2 - h1) / (1 + h1))) by (field; lra).
    rewrite Rabs_mult. rewrite (Rabs_pos_eq (n0 / (1 + h2))) by (apply Rlt_le, Rdiv_lt_0_compat; lra).
    rewrite Rmult_comm. apply Rmult_le_compat_r; [apply Rlt_le, Rdiv_lt_0_compat; lra|].
    unfold Rdiv. rewrite Rabs_mult. rewrite (Rabs_pos_eq (/ (1 + h1))) by (apply Rlt_le, Rinv_0_lt_compat; lra).
    assert (Hd : Rabs (h2 - h1) <= 102 / 100 * (2854 / 10000000)).
    { rewrite Rabs_minus_sym. eapply Rle_trans; [exact HL|]. apply Rmult_le_compat_l; [lra|exact Hg]. }
    assert (Hi : / (1 + h1) <= / (9977 / 10000)) by (apply Rinv_le_contravar; lra).
    assert (0 < / (1 + h1)) by (apply Rinv_0_lt_compat; lra).
    pose proof (Rabs_pos (h2 - h1)).
    apply Rle_trans with ((102 / 100 * (2854 / 10000000)) * / (9977 / 10000)); [|lra].
    apply Rmult_le_compat; lra.
  Qed.

  (* ... hence the exposed period and the propagator's anomalistic period 2 pi / n0'' agree to 0.03 % *)
  Theorem oe_period_close :
    Rabs (GA gen_oe_period - PI * 2 / GA gen_sgp4_xnodp) <= 3 / 10000 * GA gen_oe_period.
  Proof.
    pose proof oe_mean_motion_close as Hc. unfold gen_oe_period.
    assert (Hx : 0 < GA gen_sgp4_xnodp).
    { rewrite sgp_n_is_H. pose proof (H_box A1 Usgp (a1v_box e0 i r w m n b Hn) (u_sgp_box e0 i r w m n b He)) as H2.
      apply Rabs_le_between in H2. apply Rdiv_lt_0_compat; [exact n0_pos|lra]. }
    assert (Ho : 0 < GA gen_oe_original_mean_motion).
    { rewrite oe_n_is_H. pose proof (H_box A1 Uoe (a1v_box e0 i r w m n b Hn) (u_oe_box e0 i r w m n b He)) as H1.
      apply Rabs_le_between in H1. apply Rdiv_lt_0_compat; [exact n0_pos|lra]. }
    set (no := GA gen_oe_original_mean_motion) in *. set (ns := GA gen_sgp4_xnodp) in *.
    replace (PI * 2 / no - PI * 2 / ns) with ((PI * 2 / no) * ((ns - no) / ns)) by (field; lra).
    rewrite Rabs_mult. assert (0 < PI * 2 / no) by (apply Rdiv_lt_0_compat; [pose proof PI_RGT_0; lra|exact Ho]).
    rewrite (Rabs_pos_eq (PI * 2 / no)) by lra. rewrite Rmult_comm. apply Rmult_le_compat_r; [lra|].
    unfold Rdiv. rewrite Rabs_mult. rewrite (Rabs_pos_eq (/ ns)) by (apply Rlt_le, Rinv_0_lt_compat; exact Hx).
    rewrite Rabs_minus_sym. apply Rmult_le_reg_r with ns; [exact Hx|].
    rewrite Rmult_assoc, Rinv_l by lra. lra.
  Qed.
End Link.
