(* The analysis of P_Newton.v for the whole range of eccentricities an accepted ordinary orbit can have:
   eL = sqrt(axN^2 + ayN^2) <= 47/100 (perigee >= 220 km and period < 225 min force e0 < 0.462).  With e = E - E*:
        |e'| <= (132/100) e^2     whenever |e| <= 47/100,
   the first-step clamp (|f/df| > 1.25 eL) is still never active, the residual is at most (1 + eL) |e|.
   The general lemmas (Taylor remainder, bounds of f', f'') are those of P_Newton.v / P_Kepler.v. *)
From Coq Require Import Reals Lra.
From Coquelicot Require Import Coquelicot.
From PyOrb.proofs Require Import P_Kepler P_Newton.
Open Scope R_scope.

Section Newton47.
  Variables X Y : R.
  Hypothesis HXY : X ^ 2 + Y ^ 2 <= 2209 / 10000.

  Notation qq := (q X Y).
  Lemma HXY1' : X ^ 2 + Y ^ 2 < 1. Proof. lra. Qed.
  Lemma qq47_ge0 : 0 <= qq. Proof. apply q_ge0. Qed.
  Lemma qq47_le : qq <= 47 / 100.
  Proof.
    unfold q. replace (47 / 100) with (sqrt ((47 / 100) * (47 / 100))) by (rewrite sqrt_square; lra).
    apply sqrt_le_1_alt. lra.
  Qed.

  Lemma residual47_le (E Es : R) : Rabs (kf X Y Es - kf X Y E) <= (1 + qq) * Rabs (E - Es).
  Proof.
    destruct (MVT_gen (kf X Y) E Es (dkf X Y)) as [c [_ Hc]].
    - intros z _. apply kf_is_derive.
    - intros z _. apply kf_continuity.
    - rewrite Hc, Rabs_mult, (Rabs_minus_sym Es E).
      pose proof (dkf_upper X Y c). pose proof (dkf_lower' X Y c). pose proof qq47_le. pose proof qq47_ge0.
      rewrite (Rabs_pos_eq (dkf X Y c)) by lra. apply Rmult_le_compat_r; [apply Rabs_pos|lra].
  Qed.

  Section Step.
    Variables U E Es : R.
    Hypothesis Hroot : kf X Y Es = U.
    Hypothesis He : Rabs (E - Es) <= 47 / 100.

    Let e := E - Es.
    Let gp := dkf X Y E.
    Let R2 := kf X Y Es - kf X Y E - gp * (Es - E).

    Lemma gp47_bounds : 53 / 100 <= gp <= 147 / 100.
    Proof. unfold gp. pose proof (dkf_upper X Y E). pose proof (dkf_lower' X Y E). pose proof qq47_le. pose proof qq47_ge0. lra. Qed.

    Lemma R2_47_bound : Rabs R2 <= 47 / 200 * e ^ 2.
    Proof.
      unfold R2, gp. pose proof (taylor2 X Y E Es) as H. pose proof qq47_le. pose proof qq47_ge0.
      replace ((Es - E) ^ 2) with (e ^ 2) in H by (unfold e; ring).
      pose proof (pow2_ge_0 e). apply Rle_trans with (1 := H). nra.
    Qed.

    Lemma f47_eq : U - kf X Y E = R2 - gp * e.
    Proof. unfold R2, e. rewrite <- Hroot. ring. Qed.

    Lemma nr1_47_eq : nr1 X Y U E = R2 / gp - e.
    Proof. unfold nr1. fold gp. rewrite f47_eq. pose proof gp47_bounds. field. lra. Qed.

    Lemma e2_47_le : e ^ 2 <= 47 / 100 * Rabs e.
    Proof. rewrite <- pow2_abs. unfold e in *. pose proof (Rabs_pos (E - Es)). nra. Qed.

    Lemma nr1_47_bound : Rabs (nr1 X Y U E) <= 121 / 100 * Rabs e.
    Proof.
      rewrite nr1_47_eq. pose proof gp47_bounds as Hg. pose proof R2_47_bound as HR. pose proof e2_47_le as He2.
      assert (H1 : Rabs (R2 / gp) <= 444 / 1000 * e ^ 2).
      { unfold Rdiv. rewrite Rabs_mult, (Rabs_pos_eq (/ gp)) by (apply Rlt_le, Rinv_0_lt_compat; lra).
        assert (/ gp <= / (53 / 100)) by (apply Rinv_le_contravar; lra).
        assert (0 < / gp) by (apply Rinv_0_lt_compat; lra). pose proof (Rabs_pos R2). pose proof (pow2_ge_0 e).
        replace (/ (53 / 100)) with (100 / 53) in * by field. nra. }
      apply Rle_trans with (Rabs (R2 / gp) + Rabs e).
      - replace (R2 / gp - e) with (R2 / gp + - e) by ring. apply Rle_trans with (1 := Rabs_triang _ _). rewrite Rabs_Ropp. lra.
      - pose proof (Rabs_pos e). nra.
    Qed.

    Lemma clamp47_inactive : Rabs e <= qq -> Rabs (nr1 X Y U E) <= 5 / 4 * qq.
    Proof. intros H. pose proof nr1_47_bound. pose proof (Rabs_pos e). lra. Qed.

    Let D := gp + 1 / 2 * esf X Y E * nr1 X Y U E.
    Lemma D47_lower : 396 / 1000 <= D.
    Proof.
      unfold D. pose proof gp47_bounds. pose proof (esf_bound X Y E) as Hs. pose proof nr1_47_bound as Hn. pose proof qq47_le. pose proof qq47_ge0.
      assert (Hp : Rabs (esf X Y E * nr1 X Y U E) <= 47 / 100 * (121 / 100 * (47 / 100))).
      { rewrite Rabs_mult. assert (Hee : Rabs e <= 47 / 100) by exact He.
        apply Rmult_le_compat; [apply Rabs_pos|apply Rabs_pos|lra|lra]. }
      apply Rabs_le_between in Hp. lra.
    Qed.

    Theorem halley47_quadratic : Rabs (E + halley X Y U E - Es) <= 132 / 100 * e ^ 2.
    Proof.
      pose proof D47_lower as HD. pose proof gp47_bounds as Hg.
      assert (Heq : E + halley X Y U E - Es = (R2 + 1 / 2 * e * esf X Y E * nr1 X Y U E) / D).
      { unfold halley. fold gp. rewrite f47_eq. unfold D in *. unfold e. field. lra. }
      rewrite Heq. unfold Rdiv. rewrite Rabs_mult, (Rabs_pos_eq (/ D)) by (apply Rlt_le, Rinv_0_lt_compat; lra).
      assert (HiD : / D <= 1000 / 396) by (replace (1000 / 396) with (/ (396 / 1000)) by field; apply Rinv_le_contravar; lra).
      assert (HiD0 : 0 < / D) by (apply Rinv_0_lt_compat; lra).
      assert (Hnum : Rabs (R2 + 1 / 2 * e * esf X Y E * nr1 X Y U E) <= (47 / 200 + 1 / 2 * (47 / 100) * (121 / 100)) * e ^ 2).
      { apply Rle_trans with (1 := Rabs_triang _ _). pose proof R2_47_bound as HR.
        assert (H2 : Rabs (1 / 2 * e * esf X Y E * nr1 X Y U E) <= 1 / 2 * (47 / 100) * (121 / 100) * e ^ 2).
        { replace (1 / 2 * e * esf X Y E * nr1 X Y U E) with (1 / 2 * (e * (esf X Y E * nr1 X Y U E))) by ring.
          rewrite Rabs_mult, (Rabs_pos_eq (1 / 2)) by lra. rewrite !Rabs_mult.
          pose proof (esf_bound X Y E) as Hs. pose proof nr1_47_bound as Hn. pose proof qq47_le. pose proof qq47_ge0.
          pose proof (Rabs_pos e). pose proof (Rabs_pos (esf X Y E)). pose proof (Rabs_pos (nr1 X Y U E)).
          assert (Hee : Rabs e * Rabs e = e ^ 2) by (rewrite <- pow2_abs; ring).
          assert (Rabs (esf X Y E) * Rabs (nr1 X Y U E) <= 47 / 100 * (121 / 100 * Rabs e)) by nra.
          nra. }
        lra. }
      pose proof (Rabs_pos (R2 + 1 / 2 * e * esf X Y E * nr1 X Y U E)). pose proof (pow2_ge_0 e). nra.
    Qed.
  End Step.
End Newton47.
