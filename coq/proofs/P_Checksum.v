From Coq Require Import List ZArith Ascii Bool Lia.
From PyOrb.model Require Import M_Checksum.
Import ListNotations.
Open Scope Z_scope.

(* independent specification: the sum of the digits plus one per minus sign *)
Definition weight (c : ascii) : Z :=
  if is_digit c then digit_val c else if is_minus c then 1 else 0.
Fixpoint wsum (l : list ascii) : Z :=
  match l with [] => 0 | c :: t => weight c + wsum t end.

Lemma digit_not_minus c : is_digit c = true -> is_minus c = false.
Proof.
  unfold is_digit, is_minus. intros H. apply andb_true_iff in H as [H1 H2].
  apply N.leb_le in H1. apply N.eqb_neq. lia.
Qed.

Lemma step_weight a c : step a c = a + weight c.
Proof.
  unfold step, weight. destruct (is_digit c) eqn:D.
  - rewrite (digit_not_minus c D). reflexivity.
  - destruct (is_minus c); lia.
Qed.

Lemma fold_step l : forall a, fold_left step l a = a + wsum l.
Proof.
  induction l as [|c t IH]; intros a; cbn [fold_left wsum]; [lia|].
  rewrite IH, step_weight. lia.
Qed.

Lemma cksum_wsum l : cksum l = wsum l.
Proof. unfold cksum. rewrite fold_step. lia. Qed.

Lemma check_line_snoc body last :
  check_line (body ++ [last]) =
  if is_digit last then
    if wsum body mod 10 =? digit_val last then Accept else ChecksumError
  else ValueError.
Proof.
  unfold check_line. rewrite rev_app_distr. cbn [rev app].
  rewrite rev_involutive, cksum_wsum. reflexivity.
Qed.

Lemma accept_iff l :
  check_line l = Accept <->
  exists body last, l = body ++ [last] /\ is_digit last = true /\ wsum body mod 10 = digit_val last.
Proof.
  split.
  - destruct (rev l) as [|last rbody] eqn:R.
    + unfold check_line. rewrite R. discriminate.
    + assert (E : l = rev rbody ++ [last]).
      { rewrite <- (rev_involutive l), R. reflexivity. }
      rewrite E, check_line_snoc. intros H.
      exists (rev rbody), last. split; [reflexivity|].
      destruct (is_digit last); [|discriminate]. split; [reflexivity|].
      destruct (wsum (rev rbody) mod 10 =? digit_val last) eqn:Q; [|discriminate].
      apply Z.eqb_eq in Q. exact Q.
  - intros (body & last & -> & D & Q). rewrite check_line_snoc, D.
    apply Z.eqb_eq in Q. rewrite Q. reflexivity.
Qed.

Lemma digit_range c : is_digit c = true -> 0 <= digit_val c <= 9.
Proof.
  unfold is_digit, digit_val. intros H. apply andb_true_iff in H as [H1 H2].
  apply N.leb_le in H1. apply N.leb_le in H2. lia.
Qed.

Lemma weight_range c : 0 <= weight c <= 9.
Proof.
  unfold weight. destruct (is_digit c) eqn:D.
  - apply digit_range, D.
  - destruct (is_minus c); lia.
Qed.

Lemma wsum_subst l : forall i c, (i < length l)%nat ->
  wsum (subst l i c) = wsum l - weight (nth i l c) + weight c.
Proof.
  induction l as [|h t IH]; intros i c Hi; cbn [length] in Hi; [lia|].
  destruct i as [|j]; cbn [subst wsum nth]; [lia|].
  rewrite IH by lia. lia.
Qed.

Lemma subst_app_l body last i c : (i < length body)%nat ->
  subst (body ++ [last]) i c = subst body i c ++ [last].
Proof.
  revert i. induction body as [|h t IH]; intros i Hi; cbn [length] in Hi; [lia|].
  destruct i as [|j]; cbn [subst app]; [reflexivity|]. rewrite IH by lia. reflexivity.
Qed.

Lemma subst_app_last body last c :
  subst (body ++ [last]) (length body) c = body ++ [c].
Proof.
  induction body as [|h t IH]; cbn [length subst app]; [reflexivity|]. rewrite IH. reflexivity.
Qed.

Lemma nth_app_body (body : list ascii) last i c : (i < length body)%nat ->
  nth i (body ++ [last]) c = nth i body c.
Proof. intros H. apply app_nth1. exact H. Qed.

Lemma nth_app_last (body : list ascii) last (c : ascii) : nth (length body) (body ++ [last]) c = last.
Proof. rewrite app_nth2 by lia. rewrite Nat.sub_diag. reflexivity. Qed.

(* any single replacement that changes the weight modulo 10 is not accepted *)
Lemma single_char_rejected l i c :
  check_line l = Accept -> (i < length l)%nat ->
  (i < length l - 1)%nat ->
  (weight c - weight (nth i l c)) mod 10 <> 0 ->
  check_line (subst l i c) <> Accept.
Proof.
  intros A Hi Hb Hw.
  apply accept_iff in A as (body & last & -> & D & Q).
  rewrite app_length in Hb. cbn [length] in Hb.
  assert (Hib : (i < length body)%nat) by lia.
  rewrite nth_app_body in Hw by exact Hib.
  rewrite subst_app_l by exact Hib.
  rewrite check_line_snoc, D, wsum_subst by exact Hib.
  match goal with |- context [(?a =? ?b)%Z] => destruct (a =? b)%Z eqn:E end; [|discriminate].
  apply Z.eqb_eq in E. exfalso. apply Hw.
  rewrite <- Q in E.
  pose proof (Z.mod_pos_bound (wsum body) 10 ltac:(lia)).
  rewrite Zminus_mod.
  replace ((wsum body - weight (nth i body c) + weight c) mod 10)
    with ((wsum body mod 10 + (weight c - weight (nth i body c)) mod 10) mod 10) in E.
  2:{ rewrite <- Zplus_mod. f_equal. lia. }
  rewrite <- Zminus_mod.
  pose proof (Z.mod_pos_bound (weight c - weight (nth i body c)) 10 ltac:(lia)) as B.
  set (a := wsum body mod 10) in *. set (b := (weight c - weight (nth i body c)) mod 10) in *.
  destruct (Z_lt_ge_dec (a + b) 10) as [L|L].
  - rewrite Z.mod_small in E by lia. lia.
  - replace (a + b) with (a + b - 10 + 1 * 10) in E by lia.
    rewrite Z_mod_plus_full, Z.mod_small in E by lia. lia.
Qed.

(* replacing one digit by a different digit anywhere — body or check digit — is not accepted *)
Lemma single_digit_rejected l i c :
  check_line l = Accept -> (i < length l)%nat ->
  is_digit (nth i l c) = true -> is_digit c = true -> c <> nth i l c ->
  check_line (subst l i c) <> Accept.
Proof.
  intros A Hi Dold Dnew Hne.
  assert (Hv : digit_val c <> digit_val (nth i l c)).
  { intros E. apply Hne. unfold digit_val in E.
    assert (EN : N_of_ascii c = N_of_ascii (nth i l c)) by lia.
    apply (f_equal ascii_of_N) in EN. rewrite !ascii_N_embedding in EN. exact EN. }
  pose proof (digit_range _ Dold) as R1. pose proof (digit_range _ Dnew) as R2.
  destruct (Nat.eq_dec i (length l - 1)) as [Elast|Nlast].
  - (* the check digit itself *)
    pose proof A as A'.
    apply accept_iff in A' as (body & last & -> & D & Q).
    rewrite app_length in Elast. cbn [length] in Elast.
    assert (Ei : i = length body) by lia. clear Elast. subst i.
    rewrite nth_app_last in *.
    rewrite subst_app_last, check_line_snoc, Dnew.
    match goal with |- context [(?a =? ?b)%Z] => destruct (a =? b)%Z eqn:E end; [|discriminate].
    apply Z.eqb_eq in E. lia.
  - apply single_char_rejected; [exact A|exact Hi|lia|].
    unfold weight. rewrite Dold, Dnew.
    intros M. apply Z.mod_divide in M; [|lia]. destruct M as [k M]. lia.
Qed.

Lemma check_tle_accept l1 l2 :
  check_tle l1 l2 = Accept <-> check_line l1 = Accept /\ check_line l2 = Accept.
Proof.
  unfold check_tle. destruct (check_line l1); split; intros H; try discriminate;
    try (destruct H; discriminate); try (destruct H; assumption). split; [reflexivity|exact H].
Qed.

Lemma parse_only_after_accept {A} (parse : list ascii -> list ascii -> A) l1 l2 r :
  snd (ctor parse l1 l2) = Some r -> check_line l1 = Accept /\ check_line l2 = Accept.
Proof.
  unfold ctor. destruct (check_tle l1 l2) eqn:E; cbn [snd]; try discriminate.
  intros _. apply check_tle_accept, E.
Qed.
