(* C01: the two constructor leaves with |1 + cos i| < 1.5e-12 (NearNorm 0 and NearNorm 2, where xlcof is
   computed with the divide-by-zero guard) cannot be reached from TLE text: the inclination column has
   four decimals, i.e. incl_deg = k / 10000 for an integer k.  The constructor demands 0 < i < PI, so
   k <= 1799999, i <= 179.9999 deg, and by monotonicity of cos on [0, PI]
   1 + cos i >= 1 + cos (179.9999 deg) = 1.523e-12 > 1.5e-12 (interval arithmetic, 100 bits). *)
From Coq Require Import Reals Lra Lia ZArith.
From Interval Require Import Tactic.
From PyOrb.lib Require Import PyReal SgpOutcome.
From PyOrb.spec Require Import Spec_SGP4.
From PyOrb.gen Require Import Gen_sgp4.
From PyOrb.proofs Require Import P_Sgp4Tree.
Open Scope R_scope.

Definition incl_max : R := deg2rad (1799999 / 10000).

Lemma incl_max_guard : 3 / 2000000000000 < 1 + cos incl_max.
Proof. unfold incl_max, deg2rad. interval with (i_prec 100). Qed.

Lemma incl_max_range : 0 <= incl_max <= PI.
Proof. unfold incl_max, deg2rad. pose proof PI_RGT_0 as P. split; nra. Qed.

(* an inclination with four decimals that passes 0 < i < PI keeps |1 + cos i| above 1.5e-12 *)
Lemma tle_incl_guard (k : Z) :
  0 < deg2rad (IZR k / 10000) -> deg2rad (IZR k / 10000) < PI ->
  3 / 2000000000000 < Rabs (1 + cos (deg2rad (IZR k / 10000))).
Proof.
  intros H0 H1. pose proof PI_RGT_0 as P.
  assert (Hk : IZR k < 1800000).
  { unfold deg2rad in H1.
    apply Rmult_lt_reg_r with (PI / 1800000); [lra|].
    replace (1800000 * (PI / 1800000)) with PI by field.
    replace (IZR k * (PI / 1800000)) with (IZR k / 10000 * (PI / 180)) by field. exact H1. }
  apply lt_IZR in Hk. assert (Hk' : (k <= 1799999)%Z) by lia. apply IZR_le in Hk'.
  assert (Hi : deg2rad (IZR k / 10000) <= incl_max).
  { unfold incl_max, deg2rad. apply Rmult_le_compat_r; lra. }
  pose proof incl_max_range as [M0 M1].
  assert (C : cos incl_max <= cos (deg2rad (IZR k / 10000))).
  { apply cos_decr_1; lra. }
  pose proof incl_max_guard as G.
  apply Rlt_le_trans with (1 + cos (deg2rad (IZR k / 10000))); [lra|apply Rle_abs].
Qed.

Section TleIncl.
  Variables e0 raan_deg argp_deg ma_deg n_revday bstar : R.
  Variable k : Z.
  Notation "'GK' f" := (f e0 (IZR k / 10000) raan_deg argp_deg ma_deg n_revday bstar) (at level 9, f at level 9).

  Ltac guard_contra :=
    exfalso;
    match goal with
    | H1 : 0 < gen_oe_inclination _ _ _ _ _ _ _,
      H2 : gen_oe_inclination _ _ _ _ _ _ _ < PI,
      H3 : gen_init_guard3 _ _ _ _ _ _ _ < _ |- _ =>
        unfold gen_oe_inclination in H1, H2;
        unfold gen_init_guard3, gen_sgp4_cosIO, gen_oe_inclination in H3;
        half_angle_in H3 (deg2rad (IZR k / 10000));
        pose proof (tle_incl_guard k H1 H2) as HG;
        try (replace (2 * ((1 + cos (deg2rad (IZR k / 10000))) / 2)) with (1 + cos (deg2rad (IZR k / 10000))) in H3 by field);
        try (replace ((1 + cos (deg2rad (IZR k / 10000))) / 2 * 2) with (1 + cos (deg2rad (IZR k / 10000))) in H3 by field);
        lra
    end.

  Lemma tle_incl_not_leaf0 : GK gen_init_outcome <> InitMode NearNorm 0.
  Proof. unfold gen_init_outcome. split_tree; try discriminate; guard_contra. Qed.

  Lemma tle_incl_not_leaf2 : GK gen_init_outcome <> InitMode NearNorm 2.
  Proof. unfold gen_init_outcome. split_tree; try discriminate; guard_contra. Qed.

  (* hence a satellite object built from TLE text on the near-earth-normal path is on leaf 1 or leaf 3 *)
  Lemma tle_incl_near_norm_leaf j : GK gen_init_outcome = InitMode NearNorm j -> j = 1%nat \/ j = 3%nat.
  Proof.
    intros H.
    destruct (init_outcome_total e0 (IZR k / 10000) raan_deg argp_deg ma_deg n_revday bstar)
      as [A|[A|[A|[m [Hm A]]]]]; rewrite A in H; try discriminate H.
    injection H as Hj. subst j.
    assert (m = 0 \/ m = 1 \/ m = 2 \/ m = 3)%nat as [-> | [-> | [-> | ->]]] by lia; auto.
    - exfalso. exact (tle_incl_not_leaf0 A).
    - exfalso. exact (tle_incl_not_leaf2 A).
  Qed.
End TleIncl.
