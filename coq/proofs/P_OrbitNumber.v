(* C11, source tie for the orbit-number formula: the continuous value regenerated from
   Orbital.get_orbit_number (Gen_orbnum.v) is the cubic of the hand model, hence strictly increasing in time
   over the property's window under the stated bounds on the TLE fields, and the TBUS variant is one larger. *)
From Coq Require Import Reals Lra.
From PyOrb.lib Require Import PyReal.
From PyOrb.gen Require Import Gen_orbnum.
From PyOrb.proofs Require Import P_NodeTime.
Open Scope R_scope.

Lemma gen_orbit_float_spec d d_an period rev nd ndd :
  gen_orbit_float d d_an period rev nd ndd = orbit_real rev (d - d_an) period nd ndd.
Proof. unfold gen_orbit_float, orbit_real. cbv zeta. unfold Rdiv. ring. Qed.

Lemma gen_orbit_tbus_spec d d_an period rev nd ndd :
  gen_orbit_float_tbus d d_an period rev nd ndd = gen_orbit_float d d_an period rev nd ndd + 1.
Proof. unfold gen_orbit_float_tbus. cbv zeta. eq_mod_ring. Qed.

Theorem gen_orbit_increasing d_an period rev nd ndd x y :
  0 < period <= 4 / 25 -> Rabs nd <= 1 / 2 -> Rabs ndd <= 1 / 100 ->
  -1 <= x - d_an -> x < y -> y - d_an <= 5 ->
  gen_orbit_float x d_an period rev nd ndd < gen_orbit_float y d_an period rev nd ndd.
Proof.
  intros Hp Hn Hd Hx Hxy Hy. rewrite !gen_orbit_float_spec.
  apply orbit_real_increasing; try assumption. lra.
Qed.
