(* C01: the position (velocity) the code returns on a converged exit is within 1e-6 km (1e-9 km/s) of the one the report
   defines - the finishing map at the EXACT solution of Kepler's equation - for semi-major axis <= 4 earth radii (the velocity: any) and
   eL^2 <= 4/25, over the reals.  Chain: exit theorem (state = finishing map at Ew, residual < 1e-12), Kepler
   (|Ew - E*| (1 - eL) < 1e-12), Lipschitz bound of the position in Ew (570000 km/rad). *)
From Coq Require Import Reals Lra.
From PyOrb.lib Require Import PyReal SgpOutcome.
From PyOrb.spec Require Import Spec_SGP4.
From PyOrb.gen Require Import Gen_astronomy Gen_orbital Gen_sgp4 Gen_sgp4_compose.
From PyOrb.proofs Require Import P_Kepler P_Sgp4Init P_Sgp4Prop P_Sgp4Tree P_Sgp4Exits P_Sgp4Kepler P_Sgp4SmallE P_Sgp4Lip.
Open Scope R_scope.

(* state vector of the code from the returned elements (C01_state) *)
Lemma kep_pos radius theta eqinc ascn rdk rfdk :
  gen_kep2xyz_x radius theta eqinc ascn rdk rfdk = radius * Ux theta ascn eqinc /\
  gen_kep2xyz_y radius theta eqinc ascn rdk rfdk = radius * Uy theta ascn eqinc /\
  gen_kep2xyz_z radius theta eqinc ascn rdk rfdk = radius * Uz theta ascn eqinc.
Proof.
  unfold gen_kep2xyz_x, gen_kep2xyz_y, gen_kep2xyz_z, Ux, Uy, Uz. cbv zeta. repeat split; ring.
Qed.

Lemma kep_vel radius theta eqinc ascn rdk rfdk :
  gen_kep2xyz_vx radius theta eqinc ascn rdk rfdk = rdk * Ux theta ascn eqinc + rfdk * Vx theta ascn eqinc /\
  gen_kep2xyz_vy radius theta eqinc ascn rdk rfdk = rdk * Uy theta ascn eqinc + rfdk * Vy theta ascn eqinc /\
  gen_kep2xyz_vz radius theta eqinc ascn rdk rfdk = rdk * Uz theta ascn eqinc + rfdk * Vz theta ascn eqinc.
Proof.
  unfold gen_kep2xyz_vx, gen_kep2xyz_vy, gen_kep2xyz_vz, Ux, Uy, Uz, Vx, Vy, Vz. cbv zeta. repeat split; ring.
Qed.

Section Generic.
  Variable el : elements.
  Variable t : tstate.
  Variable e : R.
  Hypothesis HA1 : 1 <= a el t.
  Hypothesis HA2 : a el t <= 4.
  Hypothesis HeL : eL2 el t e <= 4 / 25.

  (* from "state = finishing map at Ew" and "Ew close to Es" to "position close to the report's at Es" *)
  Lemma position_close Ew Es radius theta eqinc ascn rdk rfdk :
    radius = rk el t e Ew * XKMPER ->
    theta = uk el t e Ew (atan2 (sinu el t e Ew) (cosu el t e Ew)) ->
    eqinc = ik el t e Ew -> ascn = Ok el t e Ew ->
    (1 - sqrt (eL2 el t e)) * Rabs (Ew - Es) < 1 / 1000000000000 ->
    Rabs (gen_kep2xyz_x radius theta eqinc ascn rdk rfdk - Pxf el t e Es) <= 1 / 1000000 /\
    Rabs (gen_kep2xyz_y radius theta eqinc ascn rdk rfdk - Pyf el t e Es) <= 1 / 1000000 /\
    Rabs (gen_kep2xyz_z radius theta eqinc ascn rdk rfdk - Pzf el t e Es) <= 1 / 1000000.
  Proof.
    intros Hr Ht Hi Ho Hk.
    destruct (kep_pos radius theta eqinc ascn rdk rfdk) as [Kx [Ky Kz]].
    destruct (position_is_report el t e HA1 HeL Ew) as [Rx [Ry Rz]]. cbv zeta in Rx, Ry, Rz.
    rewrite Kx, Ky, Kz, Hr, Ht, Hi, Ho, <- Rx, <- Ry, <- Rz.
    destruct (position_lipschitz el t e HA1 HA2 HeL Ew Es) as [Lx [Ly Lz]].
    assert (Hq : sqrt (eL2 el t e) <= 2 / 5) by (apply (q_le el t e HeL)).
    assert (Hd : Rabs (Ew - Es) <= 5 / 3 * (1 / 1000000000000)).
    { pose proof (Rabs_pos (Ew - Es)). nra. }
    repeat split; lra.
  Qed.
  (* the same for the velocity [km/s] *)
  Lemma velocity_close Ew Es radius theta eqinc ascn rdk rfdk :
    theta = uk el t e Ew (atan2 (sinu el t e Ew) (cosu el t e Ew)) ->
    eqinc = ik el t e Ew -> ascn = Ok el t e Ew ->
    rdk = rdotk el t e Ew * (XKMPER / aE * min_per_day / 86400) ->
    rfdk = rfdotk el t e Ew * (XKMPER / aE * min_per_day / 86400) ->
    (1 - sqrt (eL2 el t e)) * Rabs (Ew - Es) < 1 / 1000000000000 ->
    Rabs (gen_kep2xyz_vx radius theta eqinc ascn rdk rfdk - Vxk el t e Es) <= 1 / 1000000000 /\
    Rabs (gen_kep2xyz_vy radius theta eqinc ascn rdk rfdk - Vyk el t e Es) <= 1 / 1000000000 /\
    Rabs (gen_kep2xyz_vz radius theta eqinc ascn rdk rfdk - Vzk el t e Es) <= 1 / 1000000000.
  Proof.
    intros Ht Hi Ho Hd Hf Hk.
    destruct (kep_vel radius theta eqinc ascn rdk rfdk) as [Kx [Ky Kz]].
    destruct (velocity_is_report el t e HA1 HeL Ew) as [Rx [Ry Rz]]. cbv zeta in Rx, Ry, Rz. unfold vfac in Rx, Ry, Rz.
    rewrite Kx, Ky, Kz, Ht, Hi, Ho, Hd, Hf, <- Rx, <- Ry, <- Rz.
    destruct (velocity_lipschitz el t e HA1 HeL Ew Es) as [Lx [Ly Lz]].
    assert (Hq : sqrt (eL2 el t e) <= 2 / 5) by (apply (q_le el t e HeL)).
    assert (Hdd : Rabs (Ew - Es) <= 5 / 3 * (1 / 1000000000000)).
    { pose proof (Rabs_pos (Ew - Es)). nra. }
    repeat split; lra.
  Qed.
End Generic.

(* e0 > 1e-4 (leaf 1) *)
Theorem position_accuracy_leaf1 e0 i r w m n b ts j Ucap Ew radius theta eqinc ascn rdk rfdk smjaxs :
  gen_init_outcome e0 i r w m n b = InitMode NearNorm 1 ->
  gen_nn1_prop_outcome e0 i r w m n b ts = PropOk j ->
  exit_ok e0 i r w m n b ts Ew radius theta eqinc ascn rdk rfdk smjaxs ->
  let El := E e0 i r w m n b in let T := mkT false ts in let ec := ecl e0 i r w m n b ts in
  Rabs (kepler_residual El T ec Ucap Ew) < 1 / 1000000000000 ->
  a El T <= 4 -> eL2 El T ec <= 4 / 25 ->
  exists Es, kepler_residual El T ec Ucap Es = 0 /\
    (forall Es', kepler_residual El T ec Ucap Es' = 0 -> Es' = Es) /\
    Rabs (gen_kep2xyz_x radius theta eqinc ascn rdk rfdk - Pxf El T ec Es) <= 1 / 1000000 /\
    Rabs (gen_kep2xyz_y radius theta eqinc ascn rdk rfdk - Pyf El T ec Es) <= 1 / 1000000 /\
    Rabs (gen_kep2xyz_z radius theta eqinc ascn rdk rfdk - Pzf El T ec Es) <= 1 / 1000000 /\
    Rabs (gen_kep2xyz_vx radius theta eqinc ascn rdk rfdk - Vxk El T ec Es) <= 1 / 1000000000 /\
    Rabs (gen_kep2xyz_vy radius theta eqinc ascn rdk rfdk - Vyk El T ec Es) <= 1 / 1000000000 /\
    Rabs (gen_kep2xyz_vz radius theta eqinc ascn rdk rfdk - Vzk El T ec Es) <= 1 / 1000000000.
Proof.
  intros Hleaf Hp Hex El T ec Hres HA2 HeL.
  destruct (prop_ok_guards _ _ _ _ _ _ _ _ Hleaf _ Hp) as [G1 _]. fold El T in G1.
  destruct (kepler_accuracy e0 i r w m n b ts Hleaf j Ucap Ew _ Hp Hres) as [Es [H0 [Hu [_ [_ Hk]]]]].
  fold El T ec in H0, Hu, Hk.
  destruct Hex as [Hr [Ht [Hi [Ho [Hd [Hf _]]]]]]. fold El T ec in Hr, Ht, Hi, Ho, Hd, Hf.
  exists Es. split; [exact H0|]. split; [exact Hu|].
  destruct (position_close El T ec G1 HA2 HeL Ew Es radius theta eqinc ascn rdk rfdk Hr Ht Hi Ho Hk) as [P1 [P2 P3]].
  destruct (velocity_close El T ec G1 HeL Ew Es radius theta eqinc ascn rdk rfdk Ht Hi Ho Hd Hf Hk) as [V1 [V2 V3]].
  repeat split; assumption.
Qed.

(* e0 <= 1e-4 (leaf 3) *)
Theorem position_accuracy_leaf3 e0 i r w m n b ts j Ucap Ew radius theta eqinc ascn rdk rfdk smjaxs :
  gen_init_outcome e0 i r w m n b = InitMode NearNorm 3 ->
  gen_nn3_prop_outcome e0 i r w m n b ts = PropOk j ->
  exit_ok3 e0 i r w m n b ts Ew radius theta eqinc ascn rdk rfdk smjaxs ->
  let El := E e0 i r w m n b in let T := mkT true ts in let ec := ecl3 e0 i r w m n b ts in
  Rabs (kepler_residual El T ec Ucap Ew) < 1 / 1000000000000 ->
  a El T <= 4 -> eL2 El T ec <= 4 / 25 ->
  exists Es, kepler_residual El T ec Ucap Es = 0 /\
    (forall Es', kepler_residual El T ec Ucap Es' = 0 -> Es' = Es) /\
    Rabs (gen_kep2xyz_x radius theta eqinc ascn rdk rfdk - Pxf El T ec Es) <= 1 / 1000000 /\
    Rabs (gen_kep2xyz_y radius theta eqinc ascn rdk rfdk - Pyf El T ec Es) <= 1 / 1000000 /\
    Rabs (gen_kep2xyz_z radius theta eqinc ascn rdk rfdk - Pzf El T ec Es) <= 1 / 1000000 /\
    Rabs (gen_kep2xyz_vx radius theta eqinc ascn rdk rfdk - Vxk El T ec Es) <= 1 / 1000000000 /\
    Rabs (gen_kep2xyz_vy radius theta eqinc ascn rdk rfdk - Vyk El T ec Es) <= 1 / 1000000000 /\
    Rabs (gen_kep2xyz_vz radius theta eqinc ascn rdk rfdk - Vzk El T ec Es) <= 1 / 1000000000.
Proof.
  intros Hleaf Hp Hex El T ec Hres HA2 HeL.
  destruct (prop_ok_guards3 _ _ _ _ _ _ _ _ Hleaf _ Hp) as [G1 _]. fold El T in G1.
  destruct (kepler_accuracy3 e0 i r w m n b ts Hleaf j Ucap Ew _ Hp Hres) as [Es [H0 [Hu [_ [_ Hk]]]]].
  fold El T ec in H0, Hu, Hk.
  destruct Hex as [Hr [Ht [Hi [Ho [Hd [Hf _]]]]]]. fold El T ec in Hr, Ht, Hi, Ho, Hd, Hf.
  exists Es. split; [exact H0|]. split; [exact Hu|].
  destruct (position_close El T ec G1 HA2 HeL Ew Es radius theta eqinc ascn rdk rfdk Hr Ht Hi Ho Hk) as [P1 [P2 P3]].
  destruct (velocity_close El T ec G1 HeL Ew Es radius theta eqinc ascn rdk rfdk Ht Hi Ho Hd Hf Hk) as [V1 [V2 V3]].
  repeat split; assumption.
Qed.
