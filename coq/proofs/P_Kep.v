(* kep2xyz: orientation vectors are orthonormal; consequences for radius, radial speed,
   angular momentum (C20) and unit conversion (C01). *)
From Coq Require Import Reals Lra.
From PyOrb.lib Require Import PyReal.
From PyOrb.gen Require Import Gen_astronomy Gen_orbital.
Open Scope R_scope.

Section Kep.
  Variables radius theta eqinc ascn rdotk rfdotk : R.
  Let X := gen_kep2xyz_x radius theta eqinc ascn rdotk rfdotk.
  Let Y := gen_kep2xyz_y radius theta eqinc ascn rdotk rfdotk.
  Let Z := gen_kep2xyz_z radius theta eqinc ascn rdotk rfdotk.
  Let VX := gen_kep2xyz_vx radius theta eqinc ascn rdotk rfdotk.
  Let VY := gen_kep2xyz_vy radius theta eqinc ascn rdotk rfdotk.
  Let VZ := gen_kep2xyz_vz radius theta eqinc ascn rdotk rfdotk.

  Ltac trig_ring :=
    unfold X, Y, Z, VX, VY, VZ, gen_kep2xyz_x, gen_kep2xyz_y, gen_kep2xyz_z,
           gen_kep2xyz_vx, gen_kep2xyz_vy, gen_kep2xyz_vz; cbv zeta;
    generalize (sin2_cos2 theta) (sin2_cos2 eqinc) (sin2_cos2 ascn); unfold Rsqr;
    generalize (sin theta) (cos theta) (sin eqinc) (cos eqinc) (sin ascn) (cos ascn);
    intros sT cT sI cI sS cS HT HI HS;
    assert (HT' : cT * cT = 1 - sT * sT) by lra;
    assert (HI' : cI * cI = 1 - sI * sI) by lra;
    assert (HS' : cS * cS = 1 - sS * sS) by lra.

  Lemma kep_radius : X * X + Y * Y + Z * Z = radius * radius.
  Proof. trig_ring. ring [HT' HI' HS']. Qed.

  Lemma kep_radial_speed : X * VX + Y * VY + Z * VZ = radius * rdotk.
  Proof. trig_ring. ring [HT' HI' HS']. Qed.

  Lemma kep_speed : VX * VX + VY * VY + VZ * VZ = rdotk * rdotk + rfdotk * rfdotk.
  Proof. trig_ring. ring [HT' HI' HS']. Qed.

  (* angular momentum r x v = radius * rfdotk * (sin I sin S, - sin I cos S, cos I) *)
  Lemma kep_angular_momentum :
    Y * VZ - Z * VY = radius * rfdotk * (sin eqinc * sin ascn) /\
    Z * VX - X * VZ = radius * rfdotk * (- (sin eqinc * cos ascn)) /\
    X * VY - Y * VX = radius * rfdotk * cos eqinc.
  Proof.
    unfold X, Y, Z, VX, VY, VZ, gen_kep2xyz_x, gen_kep2xyz_y, gen_kep2xyz_z,
           gen_kep2xyz_vx, gen_kep2xyz_vy, gen_kep2xyz_vz; cbv zeta.
    generalize (sin2_cos2 theta) (sin2_cos2 ascn); unfold Rsqr.
    generalize (sin theta) (cos theta) (sin eqinc) (cos eqinc) (sin ascn) (cos ascn).
    intros sT cT sI cI sS cS HT HS.
    assert (HT' : cT * cT = 1 - sT * sT) by lra.
    assert (HS' : cS * cS = 1 - sS * sS) by lra.
    split; [|split]; ring [HT' HS'].
  Qed.
End Kep.

(* unit conversion of get_position: normalised = un-normalised / 6378.135 and / 106.30225 *)
Lemma position_units radius theta eqinc ascn rdotk rfdotk :
  gen_position_km_x radius theta eqinc ascn rdotk rfdotk = gen_kep2xyz_x radius theta eqinc ascn rdotk rfdotk /\
  gen_position_km_y radius theta eqinc ascn rdotk rfdotk = gen_kep2xyz_y radius theta eqinc ascn rdotk rfdotk /\
  gen_position_km_z radius theta eqinc ascn rdotk rfdotk = gen_kep2xyz_z radius theta eqinc ascn rdotk rfdotk /\
  gen_position_km_vx radius theta eqinc ascn rdotk rfdotk = gen_kep2xyz_vx radius theta eqinc ascn rdotk rfdotk /\
  gen_position_km_vy radius theta eqinc ascn rdotk rfdotk = gen_kep2xyz_vy radius theta eqinc ascn rdotk rfdotk /\
  gen_position_km_vz radius theta eqinc ascn rdotk rfdotk = gen_kep2xyz_vz radius theta eqinc ascn rdotk rfdotk /\
  gen_position_norm_x radius theta eqinc ascn rdotk rfdotk = gen_position_km_x radius theta eqinc ascn rdotk rfdotk / (6378135 / 1000) /\
  gen_position_norm_y radius theta eqinc ascn rdotk rfdotk = gen_position_km_y radius theta eqinc ascn rdotk rfdotk / (6378135 / 1000) /\
  gen_position_norm_z radius theta eqinc ascn rdotk rfdotk = gen_position_km_z radius theta eqinc ascn rdotk rfdotk / (6378135 / 1000) /\
  gen_position_norm_vx radius theta eqinc ascn rdotk rfdotk = gen_position_km_vx radius theta eqinc ascn rdotk rfdotk / (10630225 / 100000) /\
  gen_position_norm_vy radius theta eqinc ascn rdotk rfdotk = gen_position_km_vy radius theta eqinc ascn rdotk rfdotk / (10630225 / 100000) /\
  gen_position_norm_vz radius theta eqinc ascn rdotk rfdotk = gen_position_km_vz radius theta eqinc ascn rdotk rfdotk / (10630225 / 100000).
Proof.
  unfold gen_position_km_x, gen_position_km_y, gen_position_km_z, gen_position_km_vx, gen_position_km_vy,
    gen_position_km_vz, gen_position_norm_x, gen_position_norm_y, gen_position_norm_z,
    gen_position_norm_vx, gen_position_norm_vy, gen_position_norm_vz.
  repeat (split; [first [reflexivity | field]|]); first [reflexivity | field].
Qed.
