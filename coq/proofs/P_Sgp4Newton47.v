(* C01: the Newton loop meets its stopping rule for every eccentricity an accepted ordinary orbit can have.
   P_Sgp4Newton.v proves "exit at one of the tests 0..5" for eL^2 <= 4/25; here, with the constants of P_Newton47.v,
   eL^2 <= 2209/10000 (eL <= 0.47) gives "exit at one of the tests 0..6": errors <= 0.47, 0.2916, 0.1123, 0.01665, 3.66e-4,
   1.77e-7, 4.2e-14, residual <= 6.2e-14 < 1e-12.  The eleventh exit (no convergence in 10 iterations) stays unreachable. *)
From Coq Require Import Reals Lra Lia.
From Coquelicot Require Import Rcomplements.
From PyOrb.lib Require Import PyReal SgpOutcome.
From PyOrb.spec Require Import Spec_SGP4.
From PyOrb.gen Require Import Gen_sgp4 Gen_sgp4_compose.
From PyOrb.proofs Require Import P_Kepler P_Newton P_Newton47 P_Sgp4Init P_Sgp4Prop P_Sgp4Tree P_Sgp4Exits P_Sgp4Kepler P_Sgp4SmallE.
Open Scope R_scope.

Section Loop47.
  Variables e0 incl_deg raan_deg argp_deg ma_deg n_revday bstar ts : R.
  Notation "'GA' f" := (f e0 incl_deg raan_deg argp_deg ma_deg n_revday bstar) (at level 9, f at level 9).
  Notation "'GB' f" := (f e0 incl_deg raan_deg argp_deg ma_deg n_revday bstar ts) (at level 9, f at level 9).
  Let El := E e0 incl_deg raan_deg argp_deg ma_deg n_revday bstar.
  Let T := mkT false ts.
  Let ec := ecl e0 incl_deg raan_deg argp_deg ma_deg n_revday bstar ts.

  Hypothesis Hleaf : GA gen_init_outcome = InitMode NearNorm 1.
  Hypothesis Ha : 1 <= a El T.
  Hypothesis HeL : eL2 El T ec <= 2209 / 10000.

  Let X := axN El T ec.
  Let Y := ayN El T ec.
  Let Uc := GB gen_nn1_epw_x0.

  Lemma HXY : X ^ 2 + Y ^ 2 <= 2209 / 10000. Proof. exact HeL. Qed.
  Lemma Ha0 : a El T <> 0. Proof. lra. Qed.
  Lemma Hapos : 0 < a El T. Proof. lra. Qed.
  Lemma HeL1 : eL2 El T ec < 1. Proof. lra. Qed.

  Lemma axn_is : GB gen_nn0_axn = X.
  Proof. apply (axn_spec _ _ _ _ _ _ _ _ (leaf1_He _ _ _ _ _ _ _ Hleaf) (leaf1_Hperi _ _ _ _ _ _ _ Hleaf)). Qed.
  Lemma ayn_is : GB gen_nn0_ayn = Y.
  Proof. apply (ayn_spec _ _ _ _ _ _ _ _ (leaf1_He _ _ _ _ _ _ _ Hleaf) (leaf1_Hperi _ _ _ _ _ _ _ Hleaf) Ha0). Qed.
  Lemma ecc_is : GB gen_nn0_ecc = q X Y.
  Proof.
    unfold gen_nn0_ecc. rewrite (elsq_spec _ _ _ _ _ _ _ _ (leaf1_He _ _ _ _ _ _ _ Hleaf) (leaf1_Hperi _ _ _ _ _ _ _ Hleaf) Ha0).
    reflexivity.
  Qed.

  (* the exact solution for the right-hand side the code iterates on *)
  Lemma root : exists Es, kf X Y Es = Uc /\ Rabs (Uc - Es) <= q X Y.
  Proof.
    destruct (kepler_exists X Y (HXY1' X Y HXY) Uc) as [Es [H1 H2]]. exists Es. split; [exact H1|].
    rewrite Rabs_minus_sym. exact H2.
  Qed.

  (* the regenerated iterates follow the analysed step *)
  Ltac iter_tac x :=
    unfold x; cbv zeta; rewrite axn_is, ayn_is; unfold halley, nr1, kf, dkf, esf; fold Uc;
    unfold Rdiv; norm_args; ring.

  Lemma it2 : GB gen_nn1_epw_x2 = GB gen_nn1_epw_x1 + halley X Y Uc (GB gen_nn1_epw_x1).
  Proof. iter_tac gen_nn1_epw_x2. Qed.
  Lemma it3 : GB gen_nn1_epw_x3 = GB gen_nn1_epw_x2 + halley X Y Uc (GB gen_nn1_epw_x2).
  Proof. iter_tac gen_nn1_epw_x3. Qed.
  Lemma it4 : GB gen_nn1_epw_x4 = GB gen_nn1_epw_x3 + halley X Y Uc (GB gen_nn1_epw_x3).
  Proof. iter_tac gen_nn1_epw_x4. Qed.
  Lemma it5 : GB gen_nn1_epw_x5 = GB gen_nn1_epw_x4 + halley X Y Uc (GB gen_nn1_epw_x4).
  Proof. iter_tac gen_nn1_epw_x5. Qed.
  Lemma it6 : GB gen_nn1_epw_x6 = GB gen_nn1_epw_x5 + halley X Y Uc (GB gen_nn1_epw_x5).
  Proof. iter_tac gen_nn1_epw_x6. Qed.

  (* the first step: the clamp |nr| > 1.25 ecc is not active *)
  Lemma it1 Es : kf X Y Es = Uc -> Rabs (Uc - Es) <= q X Y -> GB gen_nn1_epw_x1 = Uc + halley X Y Uc Uc.
  Proof.
    intros Hr Hs. pose proof (qq47_le X Y HXY) as Hq.
    assert (Hc : Rabs (nr1 X Y Uc Uc) <= 5 / 4 * q X Y).
    { apply (clamp47_inactive X Y HXY Uc Uc Es Hr); [lra|exact Hs]. }
    unfold gen_nn1_epw_x1. cbv zeta. rewrite axn_is, ayn_is, ecc_is. fold Uc.
    match goal with |- context [ite_lt ?a (Rabs ?n) ?x ?y] =>
      replace n with (nr1 X Y Uc Uc) by (unfold nr1, kf, dkf; unfold Rdiv; norm_args; ring) end.
    rewrite ite_lt_false by lra.
    unfold halley, nr1, kf, dkf, esf. unfold Rdiv. norm_args. ring.
  Qed.

  (* the exit tests are the residuals *)
  Lemma guard_is Ew :
    Rabs ((Uc - Ew) + gen_nn1_fin_esinE e0 incl_deg raan_deg argp_deg ma_deg n_revday bstar ts Ew) = Rabs (Uc - kf X Y Ew).
  Proof.
    unfold gen_nn1_fin_esinE.
    rewrite (fin_esinE_spec _ _ _ _ _ _ _ _ (leaf1_He _ _ _ _ _ _ _ Hleaf) (leaf1_Hperi _ _ _ _ _ _ _ Hleaf) Ew Hapos).
    fold El T ec. unfold esinE, kf. fold X Y. f_equal. ring.
  Qed.

  Theorem seventh_test_passes : GB gen_nn1_guard6 < 1 / 1000000000000.
  Proof.
    destruct root as [Es [Hr Hs]]. pose proof (qq47_le X Y HXY) as Hq. pose proof (q_ge0 X Y) as Hq0.
    set (x1 := GB gen_nn1_epw_x1) in *. set (x2 := GB gen_nn1_epw_x2) in *. set (x3 := GB gen_nn1_epw_x3) in *.
    set (x4 := GB gen_nn1_epw_x4) in *. set (x5 := GB gen_nn1_epw_x5) in *. set (x6 := GB gen_nn1_epw_x6) in *.
    assert (E0 : Rabs (Uc - Es) <= 47 / 100) by lra.
    pose proof (halley47_quadratic X Y HXY Uc Uc Es Hr E0) as Q1. rewrite <- (it1 Es Hr Hs) in Q1. fold x1 in Q1.
    assert (B1 : Rabs (x1 - Es) <= 2916 / 10000).
    { apply Rle_trans with (1 := Q1). rewrite <- pow2_abs. pose proof (Rabs_pos (Uc - Es)). nra. }
    assert (B1' : Rabs (x1 - Es) <= 47 / 100) by lra.
    pose proof (halley47_quadratic X Y HXY Uc x1 Es Hr B1') as Q2. unfold x1 in Q2 at 1 2. rewrite <- it2 in Q2. fold x2 x1 in Q2.
    assert (B2 : Rabs (x2 - Es) <= 1123 / 10000).
    { apply Rle_trans with (1 := Q2). rewrite <- pow2_abs. pose proof (Rabs_pos (x1 - Es)). nra. }
    assert (B2' : Rabs (x2 - Es) <= 47 / 100) by lra.
    pose proof (halley47_quadratic X Y HXY Uc x2 Es Hr B2') as Q3. unfold x2 in Q3 at 1 2. rewrite <- it3 in Q3. fold x3 x2 in Q3.
    assert (B3 : Rabs (x3 - Es) <= 1665 / 100000).
    { apply Rle_trans with (1 := Q3). rewrite <- pow2_abs. pose proof (Rabs_pos (x2 - Es)). nra. }
    assert (B3' : Rabs (x3 - Es) <= 47 / 100) by lra.
    pose proof (halley47_quadratic X Y HXY Uc x3 Es Hr B3') as Q4. unfold x3 in Q4 at 1 2. rewrite <- it4 in Q4. fold x4 x3 in Q4.
    assert (B4 : Rabs (x4 - Es) <= 366 / 1000000).
    { apply Rle_trans with (1 := Q4). rewrite <- pow2_abs. pose proof (Rabs_pos (x3 - Es)). nra. }
    assert (B4' : Rabs (x4 - Es) <= 47 / 100) by lra.
    pose proof (halley47_quadratic X Y HXY Uc x4 Es Hr B4') as Q5. unfold x4 in Q5 at 1 2. rewrite <- it5 in Q5. fold x5 x4 in Q5.
    assert (B5 : Rabs (x5 - Es) <= 177 / 1000000000).
    { apply Rle_trans with (1 := Q5). rewrite <- pow2_abs. pose proof (Rabs_pos (x4 - Es)). nra. }
    assert (B5' : Rabs (x5 - Es) <= 47 / 100) by lra.
    pose proof (halley47_quadratic X Y HXY Uc x5 Es Hr B5') as Q6. unfold x5 in Q6 at 1 2. rewrite <- it6 in Q6. fold x6 x5 in Q6.
    assert (B6 : Rabs (x6 - Es) <= 42 / 1000000000000000).
    { apply Rle_trans with (1 := Q6). rewrite <- pow2_abs. pose proof (Rabs_pos (x5 - Es)). nra. }
    rewrite compose_nn1_x6_exit_test. fold Uc. fold x6. rewrite (guard_is x6).
    rewrite <- Hr. apply Rle_lt_trans with (1 := residual47_le X Y HXY x6 Es). nra.
  Qed.

  (* hence an answered propagation left the loop at one of its first six tests *)
  Theorem newton_converges47 j : GB gen_nn1_prop_outcome = PropOk j -> (j <= 6)%nat.
  Proof.
    pose proof seventh_test_passes as H5. unfold gen_nn1_prop_outcome.
    split_tree; intros H; try discriminate H; injection H as <-; try lia; exfalso; lra.
  Qed.
End Loop47.

Section Loop47_3.
  Variables e0 incl_deg raan_deg argp_deg ma_deg n_revday bstar ts : R.
  Notation "'GA' f" := (f e0 incl_deg raan_deg argp_deg ma_deg n_revday bstar) (at level 9, f at level 9).
  Notation "'GB' f" := (f e0 incl_deg raan_deg argp_deg ma_deg n_revday bstar ts) (at level 9, f at level 9).
  Let El := E e0 incl_deg raan_deg argp_deg ma_deg n_revday bstar.
  Let T := mkT true ts.
  Let ec := ecl3 e0 incl_deg raan_deg argp_deg ma_deg n_revday bstar ts.

  Hypothesis Hleaf : GA gen_init_outcome = InitMode NearNorm 3.
  Hypothesis Ha : 1 <= a El T.
  Hypothesis HeL : eL2 El T ec <= 2209 / 10000.

  Let X := axN El T ec.
  Let Y := ayN El T ec.
  Let Uc := GB gen_nn3_epw_x0.

  Lemma HXY_3 : X ^ 2 + Y ^ 2 <= 2209 / 10000. Proof. exact HeL. Qed.
  Lemma Ha0_3 : a El T <> 0. Proof. lra. Qed.
  Lemma Hapos_3 : 0 < a El T. Proof. lra. Qed.
  Lemma HeL1_3 : eL2 El T ec < 1. Proof. lra. Qed.

  Lemma axn_is_3 : GB gen_nn2_axn = X.
  Proof. apply (axn3_spec _ _ _ _ _ _ _ _ (leaf3_He _ _ _ _ _ _ _ Hleaf) (leaf3_Hperi _ _ _ _ _ _ _ Hleaf)). Qed.
  Lemma ayn_is_3 : GB gen_nn2_ayn = Y.
  Proof. apply (ayn3_spec _ _ _ _ _ _ _ _ (leaf3_He _ _ _ _ _ _ _ Hleaf) (leaf3_Hperi _ _ _ _ _ _ _ Hleaf) Ha0_3). Qed.
  Lemma ecc_is_3 : GB gen_nn2_ecc = q X Y.
  Proof.
    unfold gen_nn2_ecc. rewrite (elsq3_spec _ _ _ _ _ _ _ _ (leaf3_He _ _ _ _ _ _ _ Hleaf) (leaf3_Hperi _ _ _ _ _ _ _ Hleaf) Ha0_3).
    reflexivity.
  Qed.

  (* the exact solution for the right-hand side the code iterates on *)
  Lemma root_3 : exists Es, kf X Y Es = Uc /\ Rabs (Uc - Es) <= q X Y.
  Proof.
    destruct (kepler_exists X Y (HXY1' X Y HXY_3) Uc) as [Es [H1 H2]]. exists Es. split; [exact H1|].
    rewrite Rabs_minus_sym. exact H2.
  Qed.

  (* the regenerated iterates follow the analysed step *)
  Ltac iter_tac x :=
    unfold x; cbv zeta; rewrite axn_is_3, ayn_is_3; unfold halley, nr1, kf, dkf, esf; fold Uc;
    unfold Rdiv; norm_args; ring.

  Lemma it2_3 : GB gen_nn3_epw_x2 = GB gen_nn3_epw_x1 + halley X Y Uc (GB gen_nn3_epw_x1).
  Proof. iter_tac gen_nn3_epw_x2. Qed.
  Lemma it3_3 : GB gen_nn3_epw_x3 = GB gen_nn3_epw_x2 + halley X Y Uc (GB gen_nn3_epw_x2).
  Proof. iter_tac gen_nn3_epw_x3. Qed.
  Lemma it4_3 : GB gen_nn3_epw_x4 = GB gen_nn3_epw_x3 + halley X Y Uc (GB gen_nn3_epw_x3).
  Proof. iter_tac gen_nn3_epw_x4. Qed.
  Lemma it5_3 : GB gen_nn3_epw_x5 = GB gen_nn3_epw_x4 + halley X Y Uc (GB gen_nn3_epw_x4).
  Proof. iter_tac gen_nn3_epw_x5. Qed.
  Lemma it6_3 : GB gen_nn3_epw_x6 = GB gen_nn3_epw_x5 + halley X Y Uc (GB gen_nn3_epw_x5).
  Proof. iter_tac gen_nn3_epw_x6. Qed.

  (* the first step: the clamp |nr| > 1.25 ecc is not active *)
  Lemma it1_3 Es : kf X Y Es = Uc -> Rabs (Uc - Es) <= q X Y -> GB gen_nn3_epw_x1 = Uc + halley X Y Uc Uc.
  Proof.
    intros Hr Hs. pose proof (qq47_le X Y HXY_3) as Hq.
    assert (Hc : Rabs (nr1 X Y Uc Uc) <= 5 / 4 * q X Y).
    { apply (clamp47_inactive X Y HXY_3 Uc Uc Es Hr); [lra|exact Hs]. }
    unfold gen_nn3_epw_x1. cbv zeta. rewrite axn_is_3, ayn_is_3, ecc_is_3. fold Uc.
    match goal with |- context [ite_lt ?a (Rabs ?n) ?x ?y] =>
      replace n with (nr1 X Y Uc Uc) by (unfold nr1, kf, dkf; unfold Rdiv; norm_args; ring) end.
    rewrite ite_lt_false by lra.
    unfold halley, nr1, kf, dkf, esf. unfold Rdiv. norm_args. ring.
  Qed.

  (* the exit tests are the residuals *)
  Lemma guard_is_3 Ew :
    Rabs ((Uc - Ew) + gen_nn3_fin_esinE e0 incl_deg raan_deg argp_deg ma_deg n_revday bstar ts Ew) = Rabs (Uc - kf X Y Ew).
  Proof.
    unfold gen_nn3_fin_esinE.
    rewrite (fin3_esinE_spec _ _ _ _ _ _ _ _ (leaf3_He _ _ _ _ _ _ _ Hleaf) (leaf3_Hperi _ _ _ _ _ _ _ Hleaf) Ew Hapos_3).
    fold El T ec. unfold esinE, kf. fold X Y. f_equal. ring.
  Qed.

  Theorem seventh_test_passes_3 : GB gen_nn3_guard6 < 1 / 1000000000000.
  Proof.
    destruct root_3 as [Es [Hr Hs]]. pose proof (qq47_le X Y HXY_3) as Hq. pose proof (q_ge0 X Y) as Hq0.
    set (x1 := GB gen_nn3_epw_x1) in *. set (x2 := GB gen_nn3_epw_x2) in *. set (x3 := GB gen_nn3_epw_x3) in *.
    set (x4 := GB gen_nn3_epw_x4) in *. set (x5 := GB gen_nn3_epw_x5) in *. set (x6 := GB gen_nn3_epw_x6) in *.
    assert (E0 : Rabs (Uc - Es) <= 47 / 100) by lra.
    pose proof (halley47_quadratic X Y HXY_3 Uc Uc Es Hr E0) as Q1. rewrite <- (it1_3 Es Hr Hs) in Q1. fold x1 in Q1.
    assert (B1 : Rabs (x1 - Es) <= 2916 / 10000).
    { apply Rle_trans with (1 := Q1). rewrite <- pow2_abs. pose proof (Rabs_pos (Uc - Es)). nra. }
    assert (B1' : Rabs (x1 - Es) <= 47 / 100) by lra.
    pose proof (halley47_quadratic X Y HXY_3 Uc x1 Es Hr B1') as Q2. unfold x1 in Q2 at 1 2. rewrite <- it2_3 in Q2. fold x2 x1 in Q2.
    assert (B2 : Rabs (x2 - Es) <= 1123 / 10000).
    { apply Rle_trans with (1 := Q2). rewrite <- pow2_abs. pose proof (Rabs_pos (x1 - Es)). nra. }
    assert (B2' : Rabs (x2 - Es) <= 47 / 100) by lra.
    pose proof (halley47_quadratic X Y HXY_3 Uc x2 Es Hr B2') as Q3. unfold x2 in Q3 at 1 2. rewrite <- it3_3 in Q3. fold x3 x2 in Q3.
    assert (B3 : Rabs (x3 - Es) <= 1665 / 100000).
    { apply Rle_trans with (1 := Q3). rewrite <- pow2_abs. pose proof (Rabs_pos (x2 - Es)). nra. }
    assert (B3' : Rabs (x3 - Es) <= 47 / 100) by lra.
    pose proof (halley47_quadratic X Y HXY_3 Uc x3 Es Hr B3') as Q4. unfold x3 in Q4 at 1 2. rewrite <- it4_3 in Q4. fold x4 x3 in Q4.
    assert (B4 : Rabs (x4 - Es) <= 366 / 1000000).
    { apply Rle_trans with (1 := Q4). rewrite <- pow2_abs. pose proof (Rabs_pos (x3 - Es)). nra. }
    assert (B4' : Rabs (x4 - Es) <= 47 / 100) by lra.
    pose proof (halley47_quadratic X Y HXY_3 Uc x4 Es Hr B4') as Q5. unfold x4 in Q5 at 1 2. rewrite <- it5_3 in Q5. fold x5 x4 in Q5.
    assert (B5 : Rabs (x5 - Es) <= 177 / 1000000000).
    { apply Rle_trans with (1 := Q5). rewrite <- pow2_abs. pose proof (Rabs_pos (x4 - Es)). nra. }
    assert (B5' : Rabs (x5 - Es) <= 47 / 100) by lra.
    pose proof (halley47_quadratic X Y HXY_3 Uc x5 Es Hr B5') as Q6. unfold x5 in Q6 at 1 2. rewrite <- it6_3 in Q6. fold x6 x5 in Q6.
    assert (B6 : Rabs (x6 - Es) <= 42 / 1000000000000000).
    { apply Rle_trans with (1 := Q6). rewrite <- pow2_abs. pose proof (Rabs_pos (x5 - Es)). nra. }
    rewrite compose_nn3_x6_exit_test. fold Uc. fold x6. rewrite (guard_is_3 x6).
    rewrite <- Hr. apply Rle_lt_trans with (1 := residual47_le X Y HXY_3 x6 Es). nra.
  Qed.

  (* hence an answered propagation left the loop at one of its first six tests *)
  Theorem newton_converges47_3 j : GB gen_nn3_prop_outcome = PropOk j -> (j <= 6)%nat.
  Proof.
    pose proof seventh_test_passes_3 as H5. unfold gen_nn3_prop_outcome.
    split_tree; intros H; try discriminate H; injection H as <-; try lia; exfalso; lra.
  Qed.
End Loop47_3.
(* the guard 1 <= a is itself one of the tests an answered propagation has passed *)
Theorem newton_loop_exits_by_seventh_test e0 incl_deg raan_deg argp_deg ma_deg n_revday bstar ts j :
  gen_init_outcome e0 incl_deg raan_deg argp_deg ma_deg n_revday bstar = InitMode NearNorm 1 ->
  gen_nn1_prop_outcome e0 incl_deg raan_deg argp_deg ma_deg n_revday bstar ts = PropOk j ->
  eL2 (E e0 incl_deg raan_deg argp_deg ma_deg n_revday bstar) (mkT false ts)
      (ecl e0 incl_deg raan_deg argp_deg ma_deg n_revday bstar ts) <= 2209 / 10000 ->
  (j <= 6)%nat.
Proof.
  intros Hleaf H HeL. destruct (prop_ok_guards _ _ _ _ _ _ _ _ Hleaf _ H) as [G1 _].
  exact (newton_converges47 _ _ _ _ _ _ _ _ Hleaf G1 HeL j H).
Qed.

Theorem newton_loop_exits_by_seventh_test3 e0 incl_deg raan_deg argp_deg ma_deg n_revday bstar ts j :
  gen_init_outcome e0 incl_deg raan_deg argp_deg ma_deg n_revday bstar = InitMode NearNorm 3 ->
  gen_nn3_prop_outcome e0 incl_deg raan_deg argp_deg ma_deg n_revday bstar ts = PropOk j ->
  eL2 (E e0 incl_deg raan_deg argp_deg ma_deg n_revday bstar) (mkT true ts)
      (ecl3 e0 incl_deg raan_deg argp_deg ma_deg n_revday bstar ts) <= 2209 / 10000 ->
  (j <= 6)%nat.
Proof.
  intros Hleaf H HeL. destruct (prop_ok_guards3 _ _ _ _ _ _ _ _ Hleaf _ H) as [G1 _].
  exact (newton_converges47_3 _ _ _ _ _ _ _ _ Hleaf G1 HeL j H).
Qed.
