(* C04: the geodetic-latitude loop of get_lonlatalt terminates, and fast.
   For every position at least sqrt(0.993) normalising radii (6355.8 km: every point on or outside the WGS-84
   ellipsoid, whose polar radius is 6356.75 km) from the earth's centre and off the polar axis, the iteration lat <- atan2(z + e2 N(lat) sin lat, r) is a contraction with factor below
   0.0069, the first step moves the latitude by less than 0.0069 rad, and therefore the exit test
   |lat - lat2| < 1e-10 succeeds at the fifth test at the latest.  The generated model unrolls six. *)
From Coq Require Import Reals Lra Lia.
From Coquelicot Require Import Coquelicot.
From Interval Require Import Tactic.
From PyOrb.lib Require Import PyReal Atan2Lib.
From PyOrb.spec Require Import Spec_Geodesy.
From PyOrb.gen Require Import Gen_astronomy Gen_orbital.
From PyOrb.proofs Require Import P_Geodesy P_Roundtrip.
Open Scope R_scope.

Definition delta_max : R := 675 / 100000.      (* bound on e2 * N(lat) * |sin lat| *)
Definition Klat : R := 69 / 10000.              (* contraction factor and bound on the first move *)

Lemma NcSin_e2_bound p : Rabs (Nc p * wgs84_e2 * sin p) <= delta_max.
Proof. unfold delta_max, Nc, wgs84_e2, wgs84_F. interval. Qed.

(* g(y) = atan (y / r) *)
Section Atan.
  Variable r : R.
  Hypothesis Hr : 0 < r.
  Definition gat (y : R) : R := atan (y / r).
  Definition dgat (y : R) : R := r / (r * r + y * y).

  Lemma gat_is_derive y : is_derive gat y (dgat y).
  Proof.
    unfold gat, dgat. auto_derive; [exact I|].
    assert (0 < r * r + y * y) by nra. field. split; [nra|lra].
  Qed.

  (* on an interval where r^2 + c^2 >= m, the slope is at most L with L^2 m >= 1 *)
  Lemma gat_lipschitz (m L y1 y2 : R) : 0 < m -> 0 < L -> 1 <= L * L * m ->
    (forall c, Rmin y1 y2 <= c <= Rmax y1 y2 -> m <= r * r + c * c) ->
    Rabs (gat y2 - gat y1) <= L * Rabs (y2 - y1).
  Proof.
    intros Hm HL HLm Hc.
    destruct (MVT_gen gat y1 y2 dgat) as [c [Hin Hmv]].
    - intros x _. apply gat_is_derive.
    - intros x _. apply derivable_continuous_pt. apply ex_derive_Reals_0. exists (dgat x). apply gat_is_derive.
    - rewrite Hmv, Rabs_mult. apply Rmult_le_compat_r; [apply Rabs_pos|].
      specialize (Hc c Hin). unfold dgat.
      assert (Hs : 0 < r * r + c * c) by nra.
      rewrite Rabs_pos_eq by (apply Rlt_le, Rdiv_lt_0_compat; assumption).
      apply Rmult_le_reg_r with (r * r + c * c); [exact Hs|].
      unfold Rdiv. rewrite Rmult_assoc, Rinv_l by lra. rewrite Rmult_1_r.
      (* r <= L * s with r^2 <= s, m <= s, 1 <= L^2 m *)
      set (s := r * r + c * c) in *.
      destruct (Rle_dec r (L * s)) as [Hle|Hnle]; [exact Hle|exfalso].
      apply Rnot_le_lt in Hnle.
      assert (H1 : r * r <= s) by (unfold s; nra).
      assert (HLs : 0 < L * s) by (apply Rmult_lt_0_compat; assumption).
      assert (H2 : L * s * (L * s) < r * r) by (apply Rmult_le_0_lt_compat; lra).
      assert (H3 : s * 1 <= s * (L * L * m)) by (apply Rmult_le_compat_l; lra).
      assert (HLL : 0 < L * L) by (apply Rmult_lt_0_compat; assumption).
      assert (H4 : L * L * s * m <= L * L * s * s).
      { apply Rmult_le_compat_l; [|exact (Hc)]. apply Rlt_le, Rmult_lt_0_compat; assumption. }
      lra.
  Qed.
End Atan.

Section Contraction.
  Variables r uz : R.
  Hypothesis Hr : 0 < r.
  Hypothesis Hrho : 993 / 1000 <= r * r + uz * uz.

  Let ynum (lat : R) : R := uz + Nc lat * wgs84_e2 * sin lat.

  Lemma ynum_near lat : Rabs (ynum lat - uz) <= delta_max.
  Proof. unfold ynum. replace (uz + Nc lat * wgs84_e2 * sin lat - uz) with (Nc lat * wgs84_e2 * sin lat) by ring. apply NcSin_e2_bound. Qed.

  (* every point within delta_max of uz is still at least sqrt(0.978) from the origin together with r *)
  Lemma radius_lower c : Rabs (c - uz) <= delta_max -> 978 / 1000 <= r * r + c * c.
  Proof.
    intros Hc. apply Rabs_le_between in Hc. unfold delta_max in Hc.
    set (rho := sqrt (r * r + uz * uz)).
    assert (Hq : 0 <= r * r + uz * uz) by nra.
    assert (Hrr : rho * rho = r * r + uz * uz) by (apply sqrt_sqrt; exact Hq).
    assert (Hrho1 : 996 / 1000 <= rho).
    { unfold rho. replace (996 / 1000) with (sqrt ((996 / 1000) * (996 / 1000))) by (rewrite sqrt_square; lra).
      apply sqrt_le_1_alt. lra. }
    assert (Huz : Rabs uz <= rho).
    { apply Rabs_le. split.
      - destruct (Rle_dec (- rho) uz) as [H|H]; [exact H|exfalso]. apply Rnot_le_lt in H. nra.
      - destruct (Rle_dec uz rho) as [H|H]; [exact H|exfalso]. apply Rnot_le_lt in H. nra. }
    apply Rabs_le_between in Huz.
    (* c^2 >= uz^2 - 2 |uz| d  and  |uz| <= rho *)
    assert (Hc2 : uz * uz - 2 * rho * (675 / 100000) <= c * c).
    { destruct (Rle_dec 0 uz) as [Hp|Hn].
      - destruct (Rle_dec (675 / 100000) uz) as [Hbig|Hsmall]; nra.
      - apply Rnot_le_lt in Hn. destruct (Rle_dec uz (- (675 / 100000))) as [Hbig|Hsmall]; nra. }
    assert (Hm : 978 / 1000 <= rho * rho - 2 * rho * (675 / 100000)).
    { assert (0 <= (rho - 996 / 1000) * (rho + 996 / 1000 - 2 * (675 / 100000))) by (apply Rmult_le_pos; lra). nra. }
    lra.
  Qed.

  Lemma lat_step_eq lat2 : lat_step r uz lat2 = gat r (ynum lat2).
  Proof. unfold lat_step, gat, ynum. apply atan2_pos_x. exact Hr. Qed.

  Lemma between_near (y1 y2 c : R) : Rabs (y1 - uz) <= delta_max -> Rabs (y2 - uz) <= delta_max ->
    Rmin y1 y2 <= c <= Rmax y1 y2 -> Rabs (c - uz) <= delta_max.
  Proof.
    intros H1 H2 [Hlo Hhi]. apply Rabs_le_between in H1. apply Rabs_le_between in H2. apply Rabs_le.
    unfold Rmin in Hlo. unfold Rmax in Hhi.
    destruct (Rle_dec y1 y2); lra.
  Qed.

  Definition Lat : R := 1012 / 1000.

  Lemma gat_lip_near y1 y2 : Rabs (y1 - uz) <= delta_max -> Rabs (y2 - uz) <= delta_max ->
    Rabs (gat r y2 - gat r y1) <= Lat * Rabs (y2 - y1).
  Proof.
    intros H1 H2. apply (gat_lipschitz r Hr (978 / 1000) Lat); unfold Lat; try lra.
    intros c Hc. apply radius_lower. apply (between_near y1 y2); assumption.
  Qed.

  (* contraction of one step *)
  Lemma lat_step_contracts a b : Rabs (lat_step r uz a - lat_step r uz b) <= Klat * Rabs (a - b).
  Proof.
    rewrite !lat_step_eq.
    apply Rle_trans with (Lat * Rabs (ynum a - ynum b)); [apply gat_lip_near; apply ynum_near|].
    unfold ynum. replace (uz + Nc a * wgs84_e2 * sin a - (uz + Nc b * wgs84_e2 * sin b))
      with (wgs84_e2 * (NcSin a - NcSin b)) by (unfold NcSin; ring).
    rewrite Rabs_mult. pose proof (NcSin_lipschitz b a) as HL.
    assert (He : Rabs wgs84_e2 <= 669438 / 100000000) by (unfold wgs84_e2, wgs84_F; interval).
    pose proof (Rabs_pos wgs84_e2). pose proof (Rabs_pos (NcSin a - NcSin b)). pose proof (Rabs_pos (a - b)).
    unfold Lat, Klat. nra.
  Qed.

  (* the first step: from atan2 uz r *)
  Lemma first_move : Rabs (lat_step r uz (atan2 uz r) - atan2 uz r) <= Klat.
  Proof.
    rewrite lat_step_eq. rewrite (atan2_pos_x uz r Hr). change (atan (uz / r)) with (gat r uz).
    apply Rle_trans with (Lat * Rabs (ynum (atan (uz / r)) - uz)).
    - apply gat_lip_near; [|apply ynum_near].
      replace (uz - uz) with 0 by ring. rewrite Rabs_R0. unfold delta_max. lra.
    - pose proof (ynum_near (atan (uz / r))) as H. pose proof (Rabs_pos (ynum (atan (uz / r)) - uz)).
      unfold Lat, Klat, delta_max in *. nra.
  Qed.
End Contraction.

(* the generated iterates *)
Lemma it0_eq x y z d : 0 < x * x + y * y -> gen_lla_lat_it0 x y z d = atan2 (z / (1275627 / 200)) (rr x y).
Proof.
  intros H. unfold gen_lla_lat_it0, rr. cbv zeta. f_equal. f_equal. ring.
Qed.

Lemma rr_sq x y : 0 < x * x + y * y -> rr x y * rr x y = (x * x + y * y) / (XKMPER * XKMPER).
Proof.
  intros H. rewrite rr_scaled. unfold Rdiv.
  replace (sqrt (x * x + y * y) * / XKMPER * (sqrt (x * x + y * y) * / XKMPER))
    with (sqrt (x * x + y * y) * sqrt (x * x + y * y) * (/ XKMPER * / XKMPER)) by ring.
  rewrite sqrt_sqrt by lra. rewrite <- Rinv_mult. reflexivity.
Qed.

Section Terminates.
  Variables x y z d : R.
  Hypothesis Hxy : 0 < x * x + y * y.
  Hypothesis Habove : 993 / 1000 * (XKMPER * XKMPER) <= x * x + y * y + z * z.

  Let r := rr x y.
  Let uz := z / (1275627 / 200).
  Let Hr : 0 < r := rr_pos x y Hxy.

  Lemma Hrho : 993 / 1000 <= r * r + uz * uz.
  Proof.
    unfold r, uz. rewrite (rr_sq x y Hxy). unfold XKMPER in *.
    replace ((x * x + y * y) / (6378135 / 1000 * (6378135 / 1000)) + z / (1275627 / 200) * (z / (1275627 / 200)))
      with ((x * x + y * y + z * z) / (6378135 / 1000 * (6378135 / 1000))) by field.
    apply Rmult_le_reg_r with (6378135 / 1000 * (6378135 / 1000)); [lra|].
    replace ((x * x + y * y + z * z) / (6378135 / 1000 * (6378135 / 1000)) * (6378135 / 1000 * (6378135 / 1000)))
      with (x * x + y * y + z * z) by (field; lra).
    lra.
  Qed.

  Notation it0 := (gen_lla_lat_it0 x y z d).
  Notation it1 := (gen_lla_lat_it1 x y z d).
  Notation it2 := (gen_lla_lat_it2 x y z d).
  Notation it3 := (gen_lla_lat_it3 x y z d).
  Notation it4 := (gen_lla_lat_it4 x y z d).
  Notation it5 := (gen_lla_lat_it5 x y z d).

  Lemma move1 : Rabs (it1 - it0) <= Klat.
  Proof. rewrite it_step_1, (it0_eq x y z d Hxy). apply first_move; [exact Hr|exact Hrho]. Qed.
  Lemma move2 : Rabs (it2 - it1) <= Klat * Rabs (it1 - it0).
  Proof.
    replace (it2 - it1) with (lat_step r uz it1 - lat_step r uz it0)
      by (unfold r, uz; rewrite <- it_step_2, <- it_step_1; reflexivity).
    apply lat_step_contracts; [exact Hr|exact Hrho].
  Qed.
  Lemma move3 : Rabs (it3 - it2) <= Klat * Rabs (it2 - it1).
  Proof.
    replace (it3 - it2) with (lat_step r uz it2 - lat_step r uz it1)
      by (unfold r, uz; rewrite <- it_step_3, <- it_step_2; reflexivity).
    apply lat_step_contracts; [exact Hr|exact Hrho].
  Qed.
  Lemma move4 : Rabs (it4 - it3) <= Klat * Rabs (it3 - it2).
  Proof.
    replace (it4 - it3) with (lat_step r uz it3 - lat_step r uz it2)
      by (unfold r, uz; rewrite <- it_step_4, <- it_step_3; reflexivity).
    apply lat_step_contracts; [exact Hr|exact Hrho].
  Qed.
  Lemma move5 : Rabs (it5 - it4) <= Klat * Rabs (it4 - it3).
  Proof.
    replace (it5 - it4) with (lat_step r uz it4 - lat_step r uz it3)
      by (unfold r, uz; rewrite <- it_step_5, <- it_step_4; reflexivity).
    apply lat_step_contracts; [exact Hr|exact Hrho].
  Qed.

  Lemma fifth_test_passes : Rabs (it5 - it4) < 1 / 10000000000.
  Proof.
    pose proof move1 as M1. pose proof move2 as M2. pose proof move3 as M3. pose proof move4 as M4. pose proof move5 as M5.
    pose proof (Rabs_pos (it1 - it0)). pose proof (Rabs_pos (it2 - it1)). pose proof (Rabs_pos (it3 - it2)).
    pose proof (Rabs_pos (it4 - it3)).
    unfold Klat in *.
    assert (B2 : Rabs (it2 - it1) <= 69 / 10000 * (69 / 10000)) by nra.
    assert (B3 : Rabs (it3 - it2) <= 69 / 10000 * (69 / 10000 * (69 / 10000))) by nra.
    assert (B4 : Rabs (it4 - it3) <= 69 / 10000 * (69 / 10000 * (69 / 10000 * (69 / 10000)))) by nra.
    assert (B5 : Rabs (it5 - it4) <= 69 / 10000 * (69 / 10000 * (69 / 10000 * (69 / 10000 * (69 / 10000))))) by nra.
    lra.
  Qed.

  (* the loop leaves at one of its first five tests *)
  Theorem loop_exits_by_5 :
    gen_lla_exit_p1 x y z d \/ gen_lla_exit_p2 x y z d \/ gen_lla_exit_p3 x y z d \/
    gen_lla_exit_p4 x y z d \/ gen_lla_exit_p5 x y z d.
  Proof.
    pose proof fifth_test_passes as H5.
    unfold gen_lla_exit_p1, gen_lla_exit_p2, gen_lla_exit_p3, gen_lla_exit_p4, gen_lla_exit_p5.
    destruct (Rlt_dec (Rabs (it1 - it0)) (1 / 10000000000)) as [A1|A1]; [left; exact A1|right].
    destruct (Rlt_dec (Rabs (it2 - it1)) (1 / 10000000000)) as [A2|A2]; [left; split; assumption|right].
    destruct (Rlt_dec (Rabs (it3 - it2)) (1 / 10000000000)) as [A3|A3]; [left; repeat split; assumption|right].
    destruct (Rlt_dec (Rabs (it4 - it3)) (1 / 10000000000)) as [A4|A4]; [left; repeat split; assumption|right].
    repeat split; assumption.
  Qed.
End Terminates.

(* termination and correctness together: some exit among the first five is taken, and what it returns
   satisfies the round trip *)
Theorem roundtrip_total x y z d : 0 < x * x + y * y -> 993 / 1000 * (XKMPER * XKMPER) <= x * x + y * y + z * z ->
  (gen_lla_exit_p1 x y z d /\ roundtrip_ok x y z d (gen_lla_lat_p1 x y z d) (gen_lla_alt_p1 x y z d)) \/
  (gen_lla_exit_p2 x y z d /\ roundtrip_ok x y z d (gen_lla_lat_p2 x y z d) (gen_lla_alt_p2 x y z d)) \/
  (gen_lla_exit_p3 x y z d /\ roundtrip_ok x y z d (gen_lla_lat_p3 x y z d) (gen_lla_alt_p3 x y z d)) \/
  (gen_lla_exit_p4 x y z d /\ roundtrip_ok x y z d (gen_lla_lat_p4 x y z d) (gen_lla_alt_p4 x y z d)) \/
  (gen_lla_exit_p5 x y z d /\ roundtrip_ok x y z d (gen_lla_lat_p5 x y z d) (gen_lla_alt_p5 x y z d)).
Proof.
  intros Hxy Hab.
  destruct (loop_exits_by_5 x y z d Hxy Hab) as [E|[E|[E|[E|E]]]].
  - left. split; [exact E|apply roundtrip_p1; assumption].
  - right; left. split; [exact E|apply roundtrip_p2; assumption].
  - right; right; left. split; [exact E|apply roundtrip_p3; assumption].
  - right; right; right; left. split; [exact E|apply roundtrip_p4; assumption].
  - right; right; right; right. split; [exact E|apply roundtrip_p5; assumption].
Qed.

(* the module-level conversion geoloc.get_lonlatalt runs the same loop *)
Theorem module_loop_exits_by_5 x y z d : 0 < x * x + y * y -> 993 / 1000 * (XKMPER * XKMPER) <= x * x + y * y + z * z ->
  gen_geoloc_lla_exit_p1 x y z d \/ gen_geoloc_lla_exit_p2 x y z d \/ gen_geoloc_lla_exit_p3 x y z d \/
  gen_geoloc_lla_exit_p4 x y z d \/ gen_geoloc_lla_exit_p5 x y z d.
Proof.
  intros Hxy Hab.
  destruct (method_eq_module x y z d) as [_ [_ [_ [_ [_ [_ [_ [_ [_ [_ [_ [_ [_ [E1 [E2 [E3 [E4 [E5 _]]]]]]]]]]]]]]]]]].
  destruct (loop_exits_by_5 x y z d Hxy Hab) as [E|[E|[E|[E|E]]]].
  - left. apply E1, E.
  - right; left. apply E2, E.
  - right; right; left. apply E3, E.
  - right; right; right; left. apply E4, E.
  - right; right; right; right. apply E5, E.
Qed.
