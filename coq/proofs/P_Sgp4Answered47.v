(* C13 / C01: a healthy orbit is answered, for the whole range eL <= 0.47 of an accepted ordinary orbit.
   P_Sgp4Answered.v proves it for eL^2 <= 4/25; here the radius test rk >= 1 is derived from the general band of
   P_Sgp4Radius.v (no bound on eL beyond eL < 1: rk >= r (1 - 3 k2 / pL^2) - k2 / (2 pL) with r, pL >= a (1 - eL) >= 1.005) and
   the convergence theorem is that of P_Sgp4Newton47.v: decay guards + eL^2 <= 2209/10000 + osculating perigee >= 1.005
   earth radii imply that the regenerated propagation returns a state, at one of the exits 0..6.
   With P_Sgp4EpochConverges.v: EVERY accepted element set outside the island (mean motion 6.4 .. 18 rev/day, e0 <= 0.9) is
   answered at its epoch, and at any time when it is drag-free. *)
From Coq Require Import Reals Lra Lia.
From Coquelicot Require Import Rcomplements.
From PyOrb.lib Require Import PyReal SgpOutcome.
From PyOrb.spec Require Import Spec_SGP4.
From PyOrb.gen Require Import Gen_sgp4 Gen_sgp4_compose.
From PyOrb.proofs Require Import P_Kepler P_Sgp4Geometry P_Sgp4Init P_Sgp4Prop P_Sgp4Tree P_Sgp4Exits P_Sgp4Radius P_Sgp4Newton47
                                 P_Sgp4AnsweredEpoch P_Sgp4EpochConverges.
Open Scope R_scope.

(* rk >= 1 from the osculating perigee alone *)
Lemma rk_at_least_one_general el t e Ew : eL2 el t e < 1 -> 1005 / 1000 <= a el t * (1 - sqrt (eL2 el t e)) -> 1 <= rk el t e Ew.
Proof.
  intros HeL Hperi.
  pose proof (sqrt_pos (eL2 el t e)) as HQ0. pose proof (eL2_nonneg el t e) as H0.
  assert (HQ1 : sqrt (eL2 el t e) < 1).
  { rewrite <- sqrt_1. apply sqrt_lt_1_alt. lra. }
  assert (Ha : 0 < a el t).
  { destruct (Rle_lt_dec (a el t) 0) as [H|H]; [exfalso; nra|exact H]. }
  pose proof (r_band el t e Ew Ha) as [Rlo _]. pose proof (rk_band el t e Ew Ha HeL) as Bk.
  assert (HQQ : sqrt (eL2 el t e) * sqrt (eL2 el t e) = eL2 el t e) by (apply sqrt_sqrt; exact H0).
  set (Q := sqrt (eL2 el t e)) in *. set (r0 := r el t e Ew) in *. set (RK := rk el t e Ew) in *.
  assert (HpL : pL el t e = a el t * (1 - Q) * (1 + Q)) by (unfold pL; rewrite <- HQQ; ring).
  set (p := pL el t e) in *. set (A := a el t) in *.
  assert (Hp1 : 1005 / 1000 <= p).
  { rewrite HpL. apply Rle_trans with (A * (1 - Q) * 1); [lra|]. apply Rmult_le_compat_l; lra. }
  assert (Hr1 : 1005 / 1000 <= r0) by lra.
  assert (Ip : 0 < / p <= 1000 / 1005).
  { split; [apply Rinv_0_lt_compat; lra|]. replace (1000 / 1005) with (/ (1005 / 1000)) by field. apply Rinv_le_contravar; lra. }
  apply Rabs_le_between in Bk.
  assert (Hc1 : 3 * k2 / p ^ 2 * r0 <= 17 / 10000 * r0).
  { replace (3 * k2 / p ^ 2 * r0) with (3 * k2 * (/ p * / p) * r0) by (field; lra).
    apply Rmult_le_compat_r; [lra|]. unfold k2. nra. }
  assert (Hc2 : k2 / (2 * p) <= 3 / 10000).
  { replace (k2 / (2 * p)) with (k2 / 2 * / p) by (field; lra). unfold k2. nra. }
  lra.
Qed.

Section Answered47.
  Variables e0 incl_deg raan_deg argp_deg ma_deg n_revday bstar ts : R.
  Notation "'GA' f" := (f e0 incl_deg raan_deg argp_deg ma_deg n_revday bstar) (at level 9, f at level 9).
  Notation "'GB' f" := (f e0 incl_deg raan_deg argp_deg ma_deg n_revday bstar ts) (at level 9, f at level 9).
  Let El := E e0 incl_deg raan_deg argp_deg ma_deg n_revday bstar.
  Let T := mkT false ts.
  Let ec := ecl e0 incl_deg raan_deg argp_deg ma_deg n_revday bstar ts.

  Hypothesis Hleaf : GA gen_init_outcome = InitMode NearNorm 1.
  Hypothesis He : - (1 / 1000) <= e_unclamped El T.
  Hypothesis HeL : eL2 El T ec <= 2209 / 10000.
  Hypothesis Hperi : 1005 / 1000 <= a El T * (1 - sqrt (eL2 El T ec)).

  Lemma healthy47_a : 1 <= a El T.
  Proof.
    pose proof (sqrt_pos (eL2 El T ec)) as Hs.
    assert (sqrt (eL2 El T ec) <= 1).
    { rewrite <- sqrt_1. apply sqrt_le_1_alt. lra. }
    destruct (Rle_lt_dec 1 (a El T)) as [H1|H1]; [exact H1|]. exfalso.
    destruct (Rle_lt_dec 0 (a El T)); nra.
  Qed.

  Lemma healthy47_apos : 0 < a El T. Proof. pose proof healthy47_a. lra. Qed.
  Lemma healthy47_eL1 : eL2 El T ec < 1. Proof. lra. Qed.

  Lemma rk_iter47 Ew : 1 <= gen_nn1_fin_rk e0 incl_deg raan_deg argp_deg ma_deg n_revday bstar ts Ew.
  Proof.
    pose proof healthy47_a as Ha. unfold gen_nn1_fin_rk.
    rewrite (fin_rk_spec _ _ _ _ _ _ _ _ (leaf1_He _ _ _ _ _ _ _ Hleaf) (leaf1_Hperi _ _ _ _ _ _ _ Hleaf) Ew healthy47_apos healthy47_eL1).
    apply rk_at_least_one_general; [exact healthy47_eL1|exact Hperi].
  Qed.

  Theorem answered_when_healthy47 : exists j, (j <= 6)%nat /\ GB gen_nn1_prop_outcome = PropOk j.
  Proof.
    pose proof healthy47_a as Ha. assert (Ha0 : a El T <> 0) by lra.
    pose proof (seventh_test_passes _ _ _ _ _ _ _ _ Hleaf Ha HeL) as H6.
    pose proof (a_spec _ _ _ _ _ _ _ ts (leaf1_He _ _ _ _ _ _ _ Hleaf) (leaf1_Hperi _ _ _ _ _ _ _ Hleaf)) as Sa. fold El T in Sa.
    pose proof (e_unclamped_spec _ _ _ _ _ _ _ ts (leaf1_He _ _ _ _ _ _ _ Hleaf) (leaf1_Hperi _ _ _ _ _ _ _ Hleaf)) as Se. fold El T in Se.
    pose proof (elsq_spec _ _ _ _ _ _ _ ts (leaf1_He _ _ _ _ _ _ _ Hleaf) (leaf1_Hperi _ _ _ _ _ _ _ Hleaf) Ha0) as Sq. fold El T ec in Sq.
    pose proof (rk_iter47 (GB gen_nn1_epw_x0)) as R0. rewrite <- compose_nn1_x0_rk in R0.
    pose proof (rk_iter47 (GB gen_nn1_epw_x1)) as R1. rewrite <- compose_nn1_x1_rk in R1.
    pose proof (rk_iter47 (GB gen_nn1_epw_x2)) as R2. rewrite <- compose_nn1_x2_rk in R2.
    pose proof (rk_iter47 (GB gen_nn1_epw_x3)) as R3. rewrite <- compose_nn1_x3_rk in R3.
    pose proof (rk_iter47 (GB gen_nn1_epw_x4)) as R4. rewrite <- compose_nn1_x4_rk in R4.
    pose proof (rk_iter47 (GB gen_nn1_epw_x5)) as R5. rewrite <- compose_nn1_x5_rk in R5.
    pose proof (rk_iter47 (GB gen_nn1_epw_x6)) as R6. rewrite <- compose_nn1_x6_rk in R6.
    unfold gen_nn1_prop_outcome.
    destruct (Rlt_dec (GB gen_nn0_a) 1) as [C|_]; [exfalso; lra|].
    destruct (Rlt_dec (GB gen_nn0_guard0) ((-1) / 1000)) as [C|_]; [exfalso; lra|].
    destruct (Rle_dec 1 (GB gen_nn0_elsq)) as [C|_]; [exfalso; lra|].
    destruct (Rlt_dec (GB gen_nn1_guard0) (1 / 1000000000000)) as [_|_].
    { destruct (Rlt_dec (GB gen_nn1_rk_x0) 1) as [C|_]; [exfalso; lra|]. exists 0%nat. split; [lia|reflexivity]. }
    destruct (Rlt_dec (GB gen_nn1_guard1) (1 / 1000000000000)) as [_|_].
    { destruct (Rlt_dec (GB gen_nn1_rk_x1) 1) as [C|_]; [exfalso; lra|]. exists 1%nat. split; [lia|reflexivity]. }
    destruct (Rlt_dec (GB gen_nn1_guard2) (1 / 1000000000000)) as [_|_].
    { destruct (Rlt_dec (GB gen_nn1_rk_x2) 1) as [C|_]; [exfalso; lra|]. exists 2%nat. split; [lia|reflexivity]. }
    destruct (Rlt_dec (GB gen_nn1_guard3) (1 / 1000000000000)) as [_|_].
    { destruct (Rlt_dec (GB gen_nn1_rk_x3) 1) as [C|_]; [exfalso; lra|]. exists 3%nat. split; [lia|reflexivity]. }
    destruct (Rlt_dec (GB gen_nn1_guard4) (1 / 1000000000000)) as [_|_].
    { destruct (Rlt_dec (GB gen_nn1_rk_x4) 1) as [C|_]; [exfalso; lra|]. exists 4%nat. split; [lia|reflexivity]. }
    destruct (Rlt_dec (GB gen_nn1_guard5) (1 / 1000000000000)) as [_|_].
    { destruct (Rlt_dec (GB gen_nn1_rk_x5) 1) as [C|_]; [exfalso; lra|]. exists 5%nat. split; [lia|reflexivity]. }
    destruct (Rlt_dec (GB gen_nn1_guard6) (1 / 1000000000000)) as [_|C]; [|exfalso; lra].
    destruct (Rlt_dec (GB gen_nn1_rk_x6) 1) as [C|_]; [exfalso; lra|]. exists 6%nat. split; [lia|reflexivity].
  Qed.
End Answered47.

(* every accepted element set outside the island is answered at its epoch, and drag-free at any time *)
Section AnsweredAtEpoch.
  Variables e0 incl_deg raan_deg argp_deg ma_deg n_revday bstar ts : R.
  Notation "'GA' f" := (f e0 incl_deg raan_deg argp_deg ma_deg n_revday bstar) (at level 9, f at level 9).
  Notation "'GB' f" := (f e0 incl_deg raan_deg argp_deg ma_deg n_revday bstar ts) (at level 9, f at level 9).
  Let El := E e0 incl_deg raan_deg argp_deg ma_deg n_revday bstar.
  Let T := mkT false ts.
  Let ec := ecl e0 incl_deg raan_deg argp_deg ma_deg n_revday bstar ts.

  Hypothesis Hleaf : GA gen_init_outcome = InitMode NearNorm 1.
  Hypothesis Hfrozen : bstar = 0 \/ ts = 0.
  Hypothesis Hn : 64 / 10 <= n_revday <= 18.
  Hypothesis He9 : e0 <= 9 / 10.

  Theorem answered_at_epoch_wide : exists j, (j <= 6)%nat /\ GB gen_nn1_prop_outcome = PropOk j.
  Proof.
    pose proof (leaf1_He _ _ _ _ _ _ _ Hleaf) as He. pose proof (leaf1_e_gt _ _ _ _ _ _ _ Hleaf) as Hegt.
    pose proof (accepted_e0 e0 incl_deg raan_deg argp_deg ma_deg n_revday bstar Hleaf Hn He9) as He47.
    pose proof (eL_at_epoch e0 incl_deg raan_deg argp_deg ma_deg n_revday bstar ts Hleaf Hfrozen Hn He9) as HeL. fold El T ec in HeL.
    pose proof (perigee_guard e0 incl_deg raan_deg argp_deg ma_deg n_revday bstar Hleaf) as Hp. fold El in Hp.
    assert (Hfr : el_bstar El = 0 \/ ts = 0) by exact Hfrozen.
    pose proof (frozen_a El false ts Hfr) as Fa. pose proof (frozen_e El false ts Hfr) as Fe. fold T in Fa, Fe.
    change (el_e0 El) with e0 in Fe.
    assert (Hec : ec = e0).
    { unfold ec, ecl. fold El T. rewrite Fe. apply clamp_e_id.
      destruct (leaf1_facts _ _ _ _ _ _ _ Hleaf) as [[_ [_ [Hhi _]]] _]. lra. }
    assert (HA : 0 < a0'' El) by (unfold XKMPER in Hp; nra).
    assert (Ha' : 0 < a El T) by (rewrite Fa; exact HA).
    assert (H1 : - (1 / 1000) <= e_unclamped El T) by (rewrite Fe; lra).
    assert (H3 : 1005 / 1000 <= a El T * (1 - sqrt (eL2 El T ec))).
    { rewrite Hec in *. pose proof (ayNL_bound El T e0 Ha' ltac:(lra)) as Hy. rewrite Fa in Hy.
      pose proof (eL_triangle El T e0 ltac:(lra)) as Htri. rewrite Fa.
      set (y := Rabs (ayNL El T e0)) in *. set (A := a0'' El) in *. set (Q := sqrt (eL2 El T e0)) in *.
      assert (Hy0 : 0 <= y) by apply Rabs_pos.
      assert (HAy : A * y <= 16 / 10000).
      { assert (A * y * (1 - e0 ^ 2) <= A30 / (4 * k2)) by nra.
        assert (78 / 100 <= 1 - e0 ^ 2) by nra. unfold A30, k2 in *. nra. }
      assert (HAQ : A * Q <= A * e0 + 16 / 10000).
      { apply Rle_trans with (A * (e0 + y)); [apply Rmult_le_compat_l; lra|]. rewrite Rmult_plus_distr_l. lra. }
      unfold XKMPER in Hp. replace (A * (1 - Q)) with (A - A * Q) by ring. nra. }
    exact (answered_when_healthy47 e0 incl_deg raan_deg argp_deg ma_deg n_revday bstar ts Hleaf H1 HeL H3).
  Qed.
End AnsweredAtEpoch.
