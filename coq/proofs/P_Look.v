From Coq Require Import Reals Lra Lia.
From PyOrb.lib Require Import PyReal Atan2Lib.
From PyOrb.spec Require Import Spec_Geodesy Spec_Topo.
From PyOrb.gen Require Import Gen_astronomy Gen_orbital.
From PyOrb.proofs Require Import P_Geodesy.
Open Scope R_scope.

(* ---------- composition: the full functions are the core formulas applied to the observer
   position and GMST kernels (checked by conversion: same term) ---------- *)
Lemma look_compose x y z d lon lat alt :
  gen_look_az x y z d lon lat alt =
    gen_look_core_az x y z (gen_observer_x d lon lat alt) (gen_observer_y d lon lat alt)
                     (gen_observer_z d lon lat alt) (gen_gmst d) lon lat /\
  gen_look_el x y z d lon lat alt =
    gen_look_core_el x y z (gen_observer_x d lon lat alt) (gen_observer_y d lon lat alt)
                     (gen_observer_z d lon lat alt) (gen_gmst d) lon lat.
Proof. split; reflexivity. Qed.

Lemma mlook_compose slon slat salt d lon lat alt :
  gen_mlook_az slon slat salt d lon lat alt =
    gen_mlook_core_az (gen_observer_x d slon slat salt) (gen_observer_y d slon slat salt)
                      (gen_observer_z d slon slat salt)
                      (gen_observer_x d lon lat alt) (gen_observer_y d lon lat alt)
                      (gen_observer_z d lon lat alt) (gen_gmst d) lon lat /\
  gen_mlook_el slon slat salt d lon lat alt =
    gen_mlook_core_el (gen_observer_x d slon slat salt) (gen_observer_y d slon slat salt)
                      (gen_observer_z d slon slat salt)
                      (gen_observer_x d lon lat alt) (gen_observer_y d lon lat alt)
                      (gen_observer_z d lon lat alt) (gen_gmst d) lon lat.
Proof. split; reflexivity. Qed.

(* ---------- elevation ---------- *)
Lemma cauchy_schwarz a b c rx ry rz : a * a + b * b + c * c = 1 ->
  (a * rx + b * ry + c * rz) * (a * rx + b * ry + c * rz) <= rx * rx + ry * ry + rz * rz.
Proof.
  intros H.
  assert (E : (a * a + b * b + c * c) * (rx * rx + ry * ry + rz * rz)
              - (a * rx + b * ry + c * rz) * (a * rx + b * ry + c * rz)
              = (a * ry - b * rx) * (a * ry - b * rx) + (a * rz - c * rx) * (a * rz - c * rx)
                + (b * rz - c * ry) * (b * rz - c * ry)) by ring.
  rewrite H in E.
  pose proof (Rle_0_sqr (a * ry - b * rx)) as S1. pose proof (Rle_0_sqr (a * rz - c * rx)) as S2.
  pose proof (Rle_0_sqr (b * rz - c * ry)) as S3. unfold Rsqr in *. lra.
Qed.

Lemma up_unit phi theta :
  (cos phi * cos theta) * (cos phi * cos theta) + (cos phi * sin theta) * (cos phi * sin theta)
  + sin phi * sin phi = 1.
Proof.
  pose proof (sin2_cos2 phi) as P. pose proof (sin2_cos2 theta) as T. unfold Rsqr in *.
  assert (T' : cos theta * cos theta = 1 - sin theta * sin theta) by lra.
  assert (P' : cos phi * cos phi = 1 - sin phi * sin phi) by lra.
  ring [T' P'].
Qed.

Lemma ratio_in_unit U n : 0 < n -> U * U <= n * n -> -1 <= U / n <= 1.
Proof.
  intros Hn H. assert (- n <= U <= n) by nra.
  split.
  - apply Rmult_le_reg_r with n; [exact Hn|]. unfold Rdiv. rewrite Rmult_assoc, Rinv_l by lra. lra.
  - apply Rmult_le_reg_r with n; [exact Hn|]. unfold Rdiv. rewrite Rmult_assoc, Rinv_l by lra. lra.
Qed.

Lemma U_over_norm_in_unit phi theta rx ry rz : 0 < rx * rx + ry * ry + rz * rz ->
  -1 <= topo_U phi theta rx ry rz / norm3 rx ry rz <= 1.
Proof.
  intros H. unfold norm3.
  assert (Hn : 0 < sqrt (rx * rx + ry * ry + rz * rz)) by (apply sqrt_lt_R0; exact H).
  apply ratio_in_unit; [exact Hn|].
  rewrite sqrt_sqrt by lra. unfold topo_U.
  replace (cos phi * cos theta * rx + cos phi * sin theta * ry + sin phi * rz)
    with ((cos phi * cos theta) * rx + (cos phi * sin theta) * ry + sin phi * rz) by ring.
  apply cauchy_schwarz, up_unit.
Qed.

Lemma clip_id q : -1 <= q <= 1 -> ite_lt (ite_lt 1 q 1 q) (-1) (-1) (ite_lt 1 q 1 q) = q.
Proof.
  intros [H1 H2]. rewrite (ite_lt_false 1 q) by lra. apply ite_lt_false. lra.
Qed.
Lemma clip_max_id q : q <= 1 -> ite_lt 1 q 1 q = q.
Proof. intros H. apply ite_lt_false. lra. Qed.
Lemma clip_range q : -1 <= ite_lt (ite_lt 1 q 1 q) (-1) (-1) (ite_lt 1 q 1 q) <= 1.
Proof.
  unfold ite_lt. destruct (Rlt_dec 1 q); destruct (Rlt_dec _ (-1)); lra.
Qed.

(* the method's elevation is asin (U / |r|) in degrees: the clip is the identity over the reals *)
Lemma look_core_el_spec x y z ox oy oz g lon lat :
  0 < (x - ox) * (x - ox) + (y - oy) * (y - oy) + (z - oz) * (z - oz) ->
  gen_look_core_el x y z ox oy oz g lon lat =
  rad2deg (asin (topo_U (deg2rad lat) (g + deg2rad lon) (x - ox) (y - oy) (z - oz)
                 / norm3 (x - ox) (y - oy) (z - oz))).
Proof.
  intros H. unfold gen_look_core_el. cbv zeta.
  rewrite sin_pymod_2PI, cos_pymod_2PI.
  pose proof (U_over_norm_in_unit (deg2rad lat) (g + deg2rad lon) (x - ox) (y - oy) (z - oz) H) as B.
  set (Q := topo_U (deg2rad lat) (g + deg2rad lon) (x - ox) (y - oy) (z - oz) / norm3 (x - ox) (y - oy) (z - oz)) in *.
  (* whatever way the source spells the up-component and the range, it is Q modulo ring *)
  match goal with |- context [ite_lt 1 ?q 1 ?q] => replace q with Q by (unfold Q, topo_U, norm3; eq_mod_ring) end.
  rewrite clip_id by exact B. reflexivity.
Qed.

Lemma mlook_core_el_spec x y z ox oy oz g lon lat :
  0 < (x - ox) * (x - ox) + (y - oy) * (y - oy) + (z - oz) * (z - oz) ->
  gen_mlook_core_el x y z ox oy oz g lon lat =
  rad2deg (asin (topo_U (deg2rad lat) (g + deg2rad lon) (x - ox) (y - oy) (z - oz)
                 / norm3 (x - ox) (y - oy) (z - oz))).
Proof.
  intros H. unfold gen_mlook_core_el. cbv zeta.
  rewrite sin_pymod_2PI, cos_pymod_2PI.
  pose proof (U_over_norm_in_unit (deg2rad lat) (g + deg2rad lon) (x - ox) (y - oy) (z - oz) H) as B.
  set (Q := topo_U (deg2rad lat) (g + deg2rad lon) (x - ox) (y - oy) (z - oz) / norm3 (x - ox) (y - oy) (z - oz)) in *.
  match goal with |- context [ite_lt 1 ?q 1 ?q] => replace q with Q by (unfold Q, topo_U, norm3; eq_mod_ring) end.
  rewrite clip_max_id by lra. reflexivity.
Qed.

Lemma rad2deg_asin_range q : -90 <= rad2deg (asin q) <= 90.
Proof.
  pose proof (asin_bound q) as B.
  assert (H : rad2deg (- (PI / 2)) <= rad2deg (asin q) <= rad2deg (PI / 2))
    by (split; apply rad2deg_mono_le; lra).
  rewrite rad2deg_opp, rad2deg_half_PI in H. lra.
Qed.

Lemma look_el_range x y z d lon lat alt : -90 <= gen_look_el x y z d lon lat alt <= 90.
Proof. unfold gen_look_el. cbv zeta. apply rad2deg_asin_range. Qed.
Lemma mlook_el_range slon slat salt d lon lat alt : -90 <= gen_mlook_el slon slat salt d lon lat alt <= 90.
Proof. unfold gen_mlook_el. cbv zeta. apply rad2deg_asin_range. Qed.

(* the asin argument is always inside [-1, 1] for the method (both clips) *)
Lemma look_asin_arg_safe x y z d lon lat alt :
  exists q, -1 <= q <= 1 /\ gen_look_el x y z d lon lat alt = rad2deg (asin q).
Proof.
  unfold gen_look_el. cbv zeta.
  match goal with |- context [asin ?a] => exists a end.
  split; [apply clip_range|reflexivity].
Qed.

(* ---------- azimuth of the module function ---------- *)
Lemma mlook_core_az_spec x y z ox oy oz g lon lat :
  let E := topo_E (deg2rad lat) (g + deg2rad lon) (x - ox) (y - oy) (z - oz) in
  let N := topo_N (deg2rad lat) (g + deg2rad lon) (x - ox) (y - oy) (z - oz) in
  (N <> 0 \/ E <> 0) ->
  is_azimuth (deg2rad (gen_mlook_core_az x y z ox oy oz g lon lat)) E N.
Proof.
  intros E N Hnz. unfold gen_mlook_core_az. cbv zeta.
  rewrite deg2rad_rad2deg, sin_pymod_2PI, cos_pymod_2PI.
  set (phi := deg2rad lat) in *. set (th := g + deg2rad lon) in *.
  match goal with |- context [atan2 ?u ?v] =>
    replace u with (- E) by (unfold E, topo_E; ring); replace v with (- N) by (unfold N, topo_N; ring) end.
  assert (Hnz' : - N <> 0 \/ - E <> 0) by (destruct Hnz; [left|right]; lra).
  destruct (sin_cos_atan2 (- E) (- N) Hnz') as [S C].
  replace (- N * - N + - E * - E) with (N * N + E * E) in * by ring.
  pose proof PI_RGT_0 as HP.
  unfold is_azimuth. split; [pose proof (pymod_range (atan2 (- E) (- N) + PI) (2 * PI)) as PR; lra|].
  rewrite sin_pymod_2PI, cos_pymod_2PI.
  rewrite sin_plus, cos_plus, sin_PI, cos_PI, S, C.
  assert (Hh : 0 < sqrt (N * N + E * E)).
  { apply sqrt_lt_R0. destruct Hnz; nra. }
  split; field; lra.
Qed.

(* ---------- azimuth of the object method (arctan + quadrant fixes), for N <> 0 ---------- *)
Lemma look_core_az_spec x y z ox oy oz g lon lat :
  let E := topo_E (deg2rad lat) (g + deg2rad lon) (x - ox) (y - oy) (z - oz) in
  let N := topo_N (deg2rad lat) (g + deg2rad lon) (x - ox) (y - oy) (z - oz) in
  N <> 0 ->
  is_azimuth (deg2rad (gen_look_core_az x y z ox oy oz g lon lat)) E N.
Proof.
  intros E N Hnz. unfold gen_look_core_az. cbv zeta.
  rewrite deg2rad_rad2deg, sin_pymod_2PI, cos_pymod_2PI.
  set (phi := deg2rad lat) in *. set (th := g + deg2rad lon) in *.
  match goal with |- context [atan (?u / ?v)] =>
    replace u with (- E) by (unfold E, topo_E; ring); replace v with (- N) by (unfold N, topo_N; ring) end.
  pose proof PI_RGT_0 as HP.
  assert (Hh : 0 < sqrt (N * N + E * E)) by (apply sqrt_lt_R0; nra).
  assert (Hhh : sqrt (N * N + E * E) * sqrt (N * N + E * E) = N * N + E * E) by (apply sqrt_sqrt; nra).
  set (h := sqrt (N * N + E * E)) in *.
  pose proof (atan_bound (- E / - N)) as AB.
  unfold is_azimuth, ite_lt, ite_le. fold h. clearbody h.
  (* the comparisons may be written strictly or not: both readings are covered *)
  assert (HNcases : (0 < - N) \/ (0 < N)) by (destruct (Rlt_dec 0 (- N)); [left; assumption|right; lra]).
  match goal with
  | |- context [Rlt_dec 0 (- N)] => destruct (Rlt_dec 0 (- N)) as [HN|HN]
  | |- context [Rle_dec 0 (- N)] => destruct (Rle_dec 0 (- N)) as [HN|HN]
  end; [assert (HN0 : 0 < - N) by (destruct HNcases; lra); clear HN; rename HN0 into HN|].
  - (* N < 0: atan + PI, in (PI/2, 3PI/2) *)
    match goal with
    | |- context [Rlt_dec (atan (- E / - N) + PI) 0] => destruct (Rlt_dec (atan (- E / - N) + PI) 0) as [H0|H0]
    | |- context [Rle_dec (atan (- E / - N) + PI) 0] => destruct (Rle_dec (atan (- E / - N) + PI) 0) as [H0|H0]
    end; [lra|].
    assert (Es : sqrt (1 + (- E / - N)²) = h / - N).
    { apply sqrt_lem_1.
      - apply Rplus_le_le_0_compat; [lra|apply Rle_0_sqr].
      - apply Rlt_le, Rdiv_lt_0_compat; lra.
      - unfold Rsqr. replace (h / - N * (h / - N)) with ((h * h) / (N * N)) by (field; lra).
        rewrite Hhh. field. lra. }
    split; [lra|].
    rewrite sin_plus, cos_plus, sin_PI, cos_PI, sin_atan, cos_atan, Es. split; field; lra.
  - assert (HN' : 0 < N) by (destruct HNcases; lra).
    assert (Es : sqrt (1 + (- E / - N)²) = h / N).
    { apply sqrt_lem_1.
      - apply Rplus_le_le_0_compat; [lra|apply Rle_0_sqr].
      - apply Rlt_le, Rdiv_lt_0_compat; lra.
      - unfold Rsqr. replace (h / N * (h / N)) with ((h * h) / (N * N)) by (field; lra).
        rewrite Hhh. field. lra. }
    match goal with
    | |- context [Rlt_dec (atan (- E / - N)) 0] => destruct (Rlt_dec (atan (- E / - N)) 0) as [H0|H0]
    | |- context [Rle_dec (atan (- E / - N)) 0] => destruct (Rle_dec (atan (- E / - N)) 0) as [H0|H0]
    end.
    + split; [lra|].
      replace (atan (- E / - N) + 2 * PI) with (atan (- E / - N) + 2 * 1 * PI) by ring.
      rewrite (sin_period _ 1), (cos_period _ 1), sin_atan, cos_atan, Es. split; field; lra.
    + split; [lra|].
      rewrite sin_atan, cos_atan, Es. split; field; lra.
Qed.

(* ---------- zenith: a satellite on the observer's geodetic normal is at elevation 90 ---------- *)
Lemma zenith_module lon lat alt h d : 0 < h ->
  gen_mlook_el lon lat (alt + h) d lon lat alt = 90.
Proof.
  intros Hh.
  destruct (mlook_compose lon lat (alt + h) d lon lat alt) as [_ E]. rewrite E. clear E.
  set (sx := gen_observer_x d lon lat (alt + h)). set (sy := gen_observer_y d lon lat (alt + h)).
  set (sz := gen_observer_z d lon lat (alt + h)).
  set (ox := gen_observer_x d lon lat alt). set (oy := gen_observer_y d lon lat alt).
  set (oz := gen_observer_z d lon lat alt).
  set (phi := deg2rad lat). set (th := gen_gmst d + deg2rad lon).
  assert (Dx : sx - ox = h * (cos phi * cos th)).
  { unfold sx, ox. rewrite !observer_x_spec. unfold eci_x, geodetic_rho. fold phi. 
    replace (gen_gmst d + deg2rad lon) with th by reflexivity. ring. }
  assert (Dy : sy - oy = h * (cos phi * sin th)).
  { unfold sy, oy. rewrite !observer_y_spec. unfold eci_y, geodetic_rho. fold phi.
    replace (gen_gmst d + deg2rad lon) with th by reflexivity. ring. }
  assert (Dz : sz - oz = h * sin phi).
  { unfold sz, oz. rewrite !observer_z_spec. unfold eci_z, geodetic_z. fold phi. ring. }
  pose proof (up_unit phi th) as UU.
  assert (Hn : (sx - ox) * (sx - ox) + (sy - oy) * (sy - oy) + (sz - oz) * (sz - oz) = h * h).
  { rewrite Dx, Dy, Dz.
    transitivity (h * h * ((cos phi * cos th) * (cos phi * cos th) + (cos phi * sin th) * (cos phi * sin th) + sin phi * sin phi)); [ring|].
    rewrite UU. ring. }
  rewrite mlook_core_el_spec by (rewrite Hn; nra).
  unfold norm3. rewrite Hn, sqrt_square by lra.
  unfold topo_U. fold phi. fold th. rewrite Dx, Dy, Dz.
  replace (cos phi * cos th * (h * (cos phi * cos th)) + cos phi * sin th * (h * (cos phi * sin th)) + sin phi * (h * sin phi))
    with (h * ((cos phi * cos th) * (cos phi * cos th) + (cos phi * sin th) * (cos phi * sin th) + sin phi * sin phi)) by ring.
  rewrite UU. replace (h * 1 / h) with 1 by (field; lra).
  rewrite asin_1. apply rad2deg_half_PI.
Qed.
