(* C10, source tie for the scanner: the per-line decision REGENERATED from _decode_lines (Gen_collection.v)
   is the decision of the hand model (classify / take_cond), and the model's loop [scan] is, at every line,
   the application of that regenerated decision to the shared cursor. *)
From Coq Require Import List Ascii Bool Arith Lia.
From PyOrb.model Require Import M_Collection.
From PyOrb.gen Require Import Gen_collection.
Import ListNotations.

Definition model_action (sats : dict) (platform : line) (only_first dummy : bool) (l0 : line) : action :=
  match classify sats platform l0 with
  | BName => mkAct (Some (Pull 1, Pull 2)) 2
  | BDesig => if take_cond sats platform only_first dummy then mkAct (Some (L0, Pull 1)) 1 else mkAct None 0
  | BOther => mkAct None 0
  end.

(* decided by cases on the atomic tests (is the platform empty, does the stripped line equal it, does it start with
   the designator, is the platform registered, does the raw line start with the platform, the two flags), so that
   any equivalent way of writing the boolean conditions passes *)
Ltac destruct_atoms :=
  repeat match goal with
         | |- context [isempty ?x] => destruct (isempty x)
         | |- context [leqb ?x ?y] => destruct (leqb x y)
         | |- context [prefixb ?x ?y] => destruct (prefixb x y)
         | |- context [dict_mem ?x ?y] => destruct (dict_mem x y)
         end.

Theorem gen_decode_lines_correct sats platform only_first dummy l0 :
  gen_decode_lines sats platform only_first dummy l0 = model_action sats platform only_first dummy l0.
Proof.
  unfold gen_decode_lines, model_action, classify, take_cond, designator, one_sp, ch.
  change (ascii_of_nat 49) with "1"%char. change (ascii_of_nat 32) with " "%char.
  destruct_atoms; destruct only_first, dummy; reflexivity.
Qed.

(* the line an entry line refers to, given the line handed in and the cursor behind it *)
Definition pick (s : src) (l0 : line) (fid : list line) : option line :=
  match s with L0 => Some l0 | Pull k => nth_error fid (k - 1) end.

(* one turn of `for l_0 in fid:` in _get_tles_from_url, driven by an action *)
Definition turn (sats : dict) (platform : line) (only_first dummy : bool)
                (a : action) (l0 : line) (fid1 : list line) (tles : list tle) : result :=
  if length fid1 <? act_pulls a then StopIter
  else
    let rest := skipn (act_pulls a) fid1 in
    match act_entry a with
    | None => scan sats platform only_first dummy rest tles
    | Some (s1, s2) =>
        match pick s1 l0 fid1, pick s2 l0 fid1 with
        | Some x, Some y =>
            if only_first then Res [(strip x, strip y)]
            else scan sats platform only_first dummy rest (tles ++ [(strip x, strip y)])
        | _, _ => StopIter
        end
    end.

Theorem scan_is_generated_turn sats platform only_first dummy l0 fid1 tles :
  scan sats platform only_first dummy (l0 :: fid1) tles
  = turn sats platform only_first dummy (gen_decode_lines sats platform only_first dummy l0) l0 fid1 tles.
Proof.
  rewrite gen_decode_lines_correct. unfold model_action, turn. cbn [scan].
  destruct (classify sats platform l0).
  - destruct fid1 as [|l1 [|l2 fid3]]; cbn; reflexivity.
  - destruct (take_cond sats platform only_first dummy).
    + destruct fid1 as [|l2 fid2]; cbn; reflexivity.
    + cbn. reflexivity.
  - cbn. reflexivity.
Qed.

Theorem gen_merge_correct l1 l2 : gen_merge l1 l2 = strip l1 ++ [nl] ++ strip l2.
Proof. unfold gen_merge, nl, ch. rewrite <- app_assoc. reflexivity. Qed.

Lemma gen_loop_shape : gen_loop_is_scan = true.
Proof. reflexivity. Qed.
