From Coq Require Import Reals Lra.
From Coquelicot Require Import Coquelicot.
From Interval Require Import Tactic.
Open Scope R_scope.

Definition Ga0 (a1 u : R) : R := a1 * (1 - (u / a1 ^ 2) / 3 - (u / a1 ^ 2) ^ 2 - 134 / 81 * (u / a1 ^ 2) ^ 3).
Definition Gfun (a1 u : R) : R := Ga0 a1 u / (1 - u / (Ga0 a1 u) ^ 2).

Lemma G_der a1 x : 1 <= a1 <= 21 / 10 -> Rabs x <= 22 / 10000 ->
  exists d, is_derive (fun u => Gfun a1 u) x d /\ Rabs d <= 7 / 10.
Proof.
  intros Ha Hx. apply Rabs_le_between in Hx.
  eexists. split.
  - unfold Gfun, Ga0. auto_derive.
    + repeat split; try (apply Rgt_not_eq; interval); try (apply Rlt_not_eq; interval).
    + reflexivity.
  - interval with (i_bisect a1, i_depth 12).
Qed.

Lemma Gfun_lip a1 u u' : 1 <= a1 <= 21 / 10 -> Rabs u <= 22 / 10000 -> Rabs u' <= 22 / 10000 ->
  Rabs (Gfun a1 u' - Gfun a1 u) <= 7 / 10 * Rabs (u' - u).
Proof.
  intros Ha Hu Hu'.
  assert (Hbox : forall x, Rmin u u' <= x <= Rmax u u' -> Rabs x <= 22 / 10000).
  { intros x [Hx1 Hx2]. apply Rabs_le_between in Hu. apply Rabs_le_between in Hu'. apply Rabs_le.
    unfold Rmin, Rmax in *. destruct (Rle_dec u u'); lra. }
  destruct (MVT_gen (fun v => Gfun a1 v) u u' (Derive (fun v => Gfun a1 v))) as [c [Hc Hm]].
  - intros x Hx. destruct (G_der a1 x Ha) as [d [Hd _]]; [apply Hbox; lra|].
    apply Derive_correct. exists d. exact Hd.
  - intros x Hx. destruct (G_der a1 x Ha) as [d [Hd _]]; [apply Hbox; lra|].
    apply derivable_continuous_pt. apply ex_derive_Reals_0. exists d. exact Hd.
  - rewrite Hm. rewrite Rabs_mult. apply Rmult_le_compat_r; [apply Rabs_pos|].
    destruct (G_der a1 c Ha) as [d [Hd Hb]]; [apply Hbox; exact Hc|].
    match goal with |- Rabs ?t <= _ => replace t with d by (symmetry; apply is_derive_unique; exact Hd) end. exact Hb.
Qed.

(* the two exponents: 1/(1-e^2)^(2/3) (OrbitElements) against 1/(1-e^2)^(3/2) (the report, _SGDP4Base) *)
Lemma pow_gap b : 84 / 100 <= b <= 1 ->
  Rabs (/ Rpower b (2 / 3) - / (sqrt b * b)) <= 1757 / 10000.
Proof. intros Hb. interval with (i_bisect b, i_depth 12). Qed.

Lemma inv_pow_bound b : 84 / 100 <= b <= 1 -> 0 < / Rpower b (2 / 3) <= 13 / 10 /\ 0 < / (sqrt b * b) <= 13 / 10.
Proof. intros Hb. split; split; interval. Qed.


(* the two spellings in orbital.py, as functions of a1 and of the oblateness term, are Gfun *)
Lemma shape_oe a1 q :
  (let v68 := (3 / 2) * ((135327 / 250000000) / (a1 ^ 2)) * q in
   let v79 := a1 * (((1 - (v68 / 3)) - (v68 ^ 2)) - ((134 / 81) * (v68 ^ 3))) in
   v79 / (1 - ((3 / 2) * ((135327 / 250000000) / (v79 ^ 2))) * q)) = Gfun a1 (405981 / 500000000 * q).
Proof.
  cbv zeta. unfold Gfun, Ga0.
  assert (K : 405981 / 500000000 = 3 / 2 * (135327 / 250000000)) by lra. rewrite K.
  replace (3 / 2 * (135327 / 250000000) * q / a1 ^ 2) with (3 / 2 * (135327 / 250000000 / a1 ^ 2) * q) by (unfold Rdiv; ring).
  set (v79 := a1 * _).
  replace (3 / 2 * (135327 / 250000000) * q / v79 ^ 2) with (3 / 2 * (135327 / 250000000 / v79 ^ 2) * q) by (unfold Rdiv; ring).
  reflexivity.
Qed.

Lemma shape_sgp a1 v111 :
  (let v112 := v111 / (a1 ^ 2) in
   let v121 := a1 * (1 - (v112 * ((1 / 3) + (v112 * (1 + ((v112 * 134) / 81)))))) in
   v121 / (1 - (v111 / (v121 ^ 2)))) = Gfun a1 v111.
Proof.
  cbv zeta. unfold Gfun, Ga0.
  replace (a1 * (1 - v111 / a1 ^ 2 * (1 / 3 + v111 / a1 ^ 2 * (1 + v111 / a1 ^ 2 * 134 / 81))))
    with (a1 * (1 - v111 / a1 ^ 2 / 3 - (v111 / a1 ^ 2) ^ 2 - 134 / 81 * (v111 / a1 ^ 2) ^ 3)) by (unfold Rdiv; ring).
  reflexivity.
Qed.

(* ---- link to the regenerated model ---------------------------------------------------------------- *)
From PyOrb.lib Require Import PyReal.
From PyOrb.gen Require Import Gen_sgp4.

Section Link.
  Variables e0 i r w m n b : R.
  Notation GA f := (f e0 i r w m n b).
  Hypothesis He : 0 <= e0 <= 4 / 10.
  Hypothesis Hn : 64 / 10 <= n <= 17.

  Definition a1v : R := Rpower ((743669161 / 10000000000) / GA gen_oe_mean_motion) (2 / 3).
  Definition x3 : R := 3 * (cos (GA gen_oe_inclination)) ^ 2 - 1.
  Definition u_oe : R := (405981 / 500000000) * (x3 / Rpower (1 - e0 ^ 2) (2 / 3)).
  Definition u_sgp : R := ((405981 / 500000000) * x3) / (sqrt (1 - e0 ^ 2) * (1 - e0 ^ 2)).

  Lemma oe_sma_is_G : GA gen_oe_semi_major_axis = Gfun a1v u_oe.
  Proof.
    unfold gen_oe_semi_major_axis, a1v, u_oe, x3.
    first [ exact (shape_oe _ _) | (unfold Gfun, Ga0, Rpowq; cbv zeta; eq_mod_ring) ].
  Qed.

  Lemma sgp_aodp_is_G : GA gen_sgp4_aodp = Gfun a1v u_sgp.
  Proof.
    unfold gen_sgp4_aodp, gen_sgp4_x3thm1, gen_sgp4_cosIO, gen_sgp4_betao, gen_sgp4_betao2, a1v, u_sgp, x3.
    first [ exact (shape_sgp _ _) | (unfold Gfun, Ga0, Rpowq; cbv zeta; eq_mod_ring) ].
  Qed.

  Lemma a1v_box : 1 <= a1v <= 21 / 10.
  Proof. unfold a1v, gen_oe_mean_motion. split; interval. Qed.

  Lemma b_box : 84 / 100 <= 1 - e0 ^ 2 <= 1.
  Proof. nra. Qed.

  Lemma x3_box : Rabs x3 <= 2.
  Proof. unfold x3. pose proof (COS_bound (GA gen_oe_inclination)) as Hc. apply Rabs_le. nra. Qed.

  Lemma u_oe_box : Rabs u_oe <= 22 / 10000.
  Proof.
    unfold u_oe. destruct (inv_pow_bound _ b_box) as [[P1 P2] _]. pose proof x3_box as Hx.
    set (k := 405981 / 500000000). assert (Hk : 0 < k <= 82 / 100000) by (unfold k; lra).
    set (p := / Rpower (1 - e0 ^ 2) (2 / 3)) in *. change (x3 / Rpower (1 - e0 ^ 2) (2 / 3)) with (x3 * p).
    rewrite !Rabs_mult. rewrite (Rabs_pos_eq k) by lra. rewrite (Rabs_pos_eq p) by lra.
    pose proof (Rabs_pos x3). assert (0 <= Rabs x3 * p <= 2 * (13 / 10)) by nra. nra.
  Qed.

  Lemma u_sgp_box : Rabs u_sgp <= 22 / 10000.
  Proof.
    unfold u_sgp. destruct (inv_pow_bound _ b_box) as [_ [P1 P2]]. pose proof x3_box as Hx.
    set (k := 405981 / 500000000). assert (Hk : 0 < k <= 82 / 100000) by (unfold k; lra).
    set (p := / (sqrt (1 - e0 ^ 2) * (1 - e0 ^ 2))) in *. change (k * x3 / (sqrt (1 - e0 ^ 2) * (1 - e0 ^ 2))) with (k * x3 * p).
    rewrite !Rabs_mult. rewrite (Rabs_pos_eq k) by lra. rewrite (Rabs_pos_eq p) by lra.
    pose proof (Rabs_pos x3). assert (0 <= Rabs x3 * p <= 2 * (13 / 10)) by nra. nra.
  Qed.

  Lemma u_gap : Rabs (u_oe - u_sgp) <= 2854 / 10000000.
  Proof.
    unfold u_oe, u_sgp. pose proof (pow_gap _ b_box) as Hg. pose proof x3_box as Hx.
    set (k := 405981 / 500000000). assert (Hk : 0 < k <= 81197 / 100000000) by (unfold k; lra).
    set (p1 := / Rpower (1 - e0 ^ 2) (2 / 3)) in *. set (p2 := / (sqrt (1 - e0 ^ 2) * (1 - e0 ^ 2))) in *.
    change (x3 / Rpower (1 - e0 ^ 2) (2 / 3)) with (x3 * p1). change (k * x3 / (sqrt (1 - e0 ^ 2) * (1 - e0 ^ 2))) with (k * x3 * p2).
    replace (k * (x3 * p1) - k * x3 * p2) with (k * (x3 * (p1 - p2))) by ring.
    rewrite !Rabs_mult. rewrite (Rabs_pos_eq k) by lra.
    pose proof (Rabs_pos x3). pose proof (Rabs_pos (p1 - p2)).
    assert (Rabs x3 * Rabs (p1 - p2) <= 2 * (1757 / 10000)) by (apply Rmult_le_compat; lra).
    assert (0 <= Rabs x3 * Rabs (p1 - p2)) by (apply Rmult_le_pos; lra). nra.
  Qed.

  (* OrbitElements.semi_major_axis against the report's a0'' (what the propagation uses): within 1.3 km *)
  Theorem oe_semi_major_axis_close :
    Rabs (GA gen_oe_semi_major_axis - GA gen_sgp4_aodp) * (1275627 / 200) <= 13 / 10.
  Proof.
    rewrite oe_sma_is_G, sgp_aodp_is_G.
    pose proof (Gfun_lip a1v u_sgp u_oe a1v_box u_sgp_box u_oe_box) as HL. pose proof u_gap as Hg.
    pose proof (Rabs_pos (Gfun a1v u_oe - Gfun a1v u_sgp)). lra.
  Qed.

  (* OrbitElements.perigee against the propagator's perigee height: within 1.3 km *)
  Theorem oe_perigee_close : Rabs (GA gen_oe_perigee - GA gen_sgp4_perigee) <= 13 / 10.
  Proof.
    unfold gen_oe_perigee, gen_sgp4_perigee.
    replace ((GA gen_oe_semi_major_axis * (1 - e0) - 1) * (1275627 / 200) -
             (GA gen_sgp4_aodp * (1 - e0) - 1) * (1275627 / 200))
      with ((GA gen_oe_semi_major_axis - GA gen_sgp4_aodp) * ((1 - e0) * (1275627 / 200))) by ring.
    rewrite Rabs_mult. rewrite (Rabs_pos_eq ((1 - e0) * _)) by nra.
    pose proof oe_semi_major_axis_close as Hc. pose proof (Rabs_pos (GA gen_oe_semi_major_axis - GA gen_sgp4_aodp)). nra.
  Qed.
End Link.
