(* C01: the value Ew at which the code leaves the Newton loop (exits 0..9, |residual| < 1e-12) is within
   1e-12 / (1 - sqrt eL2) rad of the unique exact solution of the report's Kepler equation. *)
From Coq Require Import Reals Lra.
From PyOrb.lib Require Import PyReal SgpOutcome.
From PyOrb.spec Require Import Spec_SGP4.
From PyOrb.gen Require Import Gen_sgp4 Gen_sgp4_compose.
From PyOrb.proofs Require Import P_Sgp4Init P_Sgp4Prop P_Sgp4Tree P_Sgp4Exits P_Kepler.
Open Scope R_scope.

Lemma residual_is_kf el t e Ucap Ew :
  kepler_residual el t e Ucap Ew = Ucap - kf (axN el t e) (ayN el t e) Ew.
Proof. unfold kepler_residual, kf. ring. Qed.

Section Acc.
  Variables e0 incl_deg raan_deg argp_deg ma_deg n_revday bstar ts : R.
  Notation "'GA' f" := (f e0 incl_deg raan_deg argp_deg ma_deg n_revday bstar) (at level 9, f at level 9).
  Notation "'GB' f" := (f e0 incl_deg raan_deg argp_deg ma_deg n_revday bstar ts) (at level 9, f at level 9).
  Let El := E e0 incl_deg raan_deg argp_deg ma_deg n_revday bstar.
  Let T := mkT false ts.
  Let ec := ecl e0 incl_deg raan_deg argp_deg ma_deg n_revday bstar ts.
  Hypothesis Hleaf : GA gen_init_outcome = InitMode NearNorm 1.

  Theorem kepler_accuracy j Ucap Ew tol : GB gen_nn1_prop_outcome = PropOk j ->
    Rabs (kepler_residual El T ec Ucap Ew) < tol ->
    exists Es, kepler_residual El T ec Ucap Es = 0 /\
               (forall Es', kepler_residual El T ec Ucap Es' = 0 -> Es' = Es) /\
               Rabs (Es - Ucap) <= sqrt (eL2 El T ec) /\
               sqrt (eL2 El T ec) < 1 /\
               (1 - sqrt (eL2 El T ec)) * Rabs (Ew - Es) < tol.
  Proof.
    intros H Hres. destruct (prop_ok_guards _ _ _ _ _ _ _ _ Hleaf _ H) as [_ [_ G3]].
    fold El T ec in G3. unfold eL2 in G3 |- *.
    destruct (kepler_exists _ _ G3 Ucap) as [Es [HEs Hnear]].
    exists Es. rewrite !residual_is_kf. repeat split.
    - rewrite HEs. ring.
    - intros Es'. rewrite residual_is_kf. intros H'. apply (kepler_unique _ _ G3). lra.
    - exact Hnear.
    - apply (q_lt1 _ _ G3).
    - rewrite residual_is_kf in Hres.
      apply Rle_lt_trans with (2 := Hres). apply kepler_error. exact HEs.
  Qed.
End Acc.
