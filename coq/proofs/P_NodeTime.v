(* P_NodeTime.v — proofs for C11 over model/M_NodeTime.v. *)
From Coq Require Import ZArith QArith Qabs Qround Bool List Lia Lqa.
From PyOrb.model Require Import M_NodeTime.
Import ListNotations.
Open Scope Z_scope.

(* ------------------------------------------------------------------ *)
(* small facts                                                          *)
(* ------------------------------------------------------------------ *)
Lemma qltb_lt x y : qltb x y = true <-> (x < y)%Q.
Proof.
  unfold qltb. rewrite negb_true_iff. split.
  - intros H. apply Qnot_le_lt. intros L. apply Qle_bool_iff in L. congruence.
  - intros H. destruct (Qle_bool y x) eqn:E; [|reflexivity]. apply Qle_bool_iff in E.
    exfalso. apply (Qlt_not_le _ _ H E).
Qed.
Lemma qltb_ge x y : qltb x y = false <-> (y <= x)%Q.
Proof.
  split.
  - intros H. apply Qnot_lt_le. intros L. apply qltb_lt in L. congruence.
  - intros H. destruct (qltb x y) eqn:E; [|reflexivity]. apply qltb_lt in E. exfalso. apply (Qlt_not_le _ _ E H).
Qed.

Lemma half_bounds w : 0 <= w -> 0 <= Z.quot w 2 /\ 2 * Z.quot w 2 <= w /\ w < 2 * Z.quot w 2 + 2.
Proof.
  intros H. rewrite Z.quot_div_nonneg by lia.
  pose proof (Z.div_mod w 2 ltac:(lia)). pose proof (Z.mod_pos_bound w 2 ltac:(lia)). lia.
Qed.

(* ------------------------------------------------------------------ *)
(* get_last_an_time: postcondition                                      *)
(* ------------------------------------------------------------------ *)
Section Post.
  Variable z : Z -> Q.
  Variable d : Z.
  Hypothesis dpos : 0 < d.

  (* r lies in a bracket [a,b] inside [A,B] across which z goes from negative to positive *)
  Definition Br (A B r : Z) : Prop :=
    exists a b, A <= a /\ a <= r <= b /\ b <= B /\ a < b /\ (z a < 0)%Q /\ (0 < z b)%Q /\
                ((z r < 0)%Q -> (1 <= z b)%Q).

  Lemma stepping_post : forall fuel t_old n t' p0' p1' n',
    stepping z d fuel t_old (z t_old) (z (t_old - d)) n = Some (t', p0', p1', n') ->
    t' <= t_old /\ p0' = z t' /\ p1' = z (t' - d) /\ (0 < p0')%Q /\ (p1' < 0)%Q /\
    (exists k, 0 <= k /\ t' = t_old - k * d /\ n' = (n + Z.to_nat k)%nat).
  Proof.
    induction fuel as [|f IH]; intros t_old n t' p0' p1' n' H; cbn [stepping] in H.
    - destruct (qltb 0 (z t_old) && qltb (z (t_old - d)) 0) eqn:E; [|discriminate].
      injection H as <- <- <- <-. apply andb_true_iff in E as [E1 E2]. apply qltb_lt in E1, E2.
      split; [lia|]. do 4 (split; [auto|]). exists 0. split; [lia|]. split; lia.
    - destruct (qltb 0 (z t_old) && qltb (z (t_old - d)) 0) eqn:E.
      + injection H as <- <- <- <-. apply andb_true_iff in E as [E1 E2]. apply qltb_lt in E1, E2.
        split; [lia|]. do 4 (split; [auto|]). exists 0. split; [lia|]. split; lia.
      + apply IH in H as (H1 & H2 & H3 & H4 & H5 & k & K1 & K2 & K3).
        split; [lia|]. do 4 (split; [auto|]). exists (k + 1). split; [lia|]. split; [lia|].
        rewrite K3. rewrite Z2Nat.inj_add by lia. simpl. lia.
  Qed.

  Lemma bisect_post A B : forall fuel t_old t_new p1 tmo n r m,
    ((A <= t_new /\ t_new < t_old /\ t_old <= B /\ (z t_new < 0)%Q /\ (1 <= z t_old)%Q) \/ ~ (1 < Qabs p1)%Q) ->
    (forall t0, tmo = Some t0 -> p1 = z t0 /\ Br A B t0) ->
    bisect z fuel t_old t_new p1 tmo n = Ret r m ->
    Br A B r /\ (Qabs (z r) <= 1)%Q.
  Proof.
    induction fuel as [|f IH]; intros t_old t_new p1 tmo n r m Inv Tm H; cbn [bisect] in H.
    - destruct (qltb 1 (Qabs p1)) eqn:E; [discriminate|]. apply qltb_ge in E.
      destruct tmo as [t0|]; [|discriminate]. injection H as <- <-.
      destruct (Tm t0 eq_refl) as [-> HB]. auto.
    - destruct (qltb 1 (Qabs p1)) eqn:E.
      + apply qltb_lt in E. destruct Inv as [(I1 & I2 & I3 & I4 & I5)|N]; [|contradiction].
        destruct (half_bounds (t_old - t_new) ltac:(lia)) as (Q1 & Q2 & Q3).
        set (tm := t_old - Z.quot (t_old - t_new) 2) in *.
        assert (I5' : (0 < z t_old)%Q) by (eapply Qlt_le_trans; [|exact I5]; reflexivity).
        assert (HB : Br A B tm).
        { exists t_new, t_old. split; [lia|]. split; [unfold tm; lia|]. split; [lia|]. split; [lia|].
          split; [exact I4|]. split; [exact I5'|]. intros _. exact I5. }
        destruct (qltb 0 (z tm)) eqn:P.
        * apply qltb_lt in P. eapply IH; [| |exact H].
          -- destruct (Qlt_le_dec 1 (z tm)) as [Bg|Sm].
             ++ left. split; [lia|]. split; [unfold tm; lia|]. split; [unfold tm; lia|]. split; [exact I4|].
                apply Qlt_le_weak. exact Bg.
             ++ right. rewrite Qabs_pos by (apply Qlt_le_weak; exact P). apply Qle_not_lt. exact Sm.
          -- intros t0 E0. injection E0 as <-. auto.
        * apply qltb_ge in P. eapply IH; [| |exact H].
          -- destruct (Qlt_le_dec (z tm) 0) as [Ng|Ze].
             ++ left. split; [lia|]. split; [|split; [lia|split; [exact Ng|exact I5]]].
                destruct (Z.eq_dec tm t_old) as [Eq|Ne]; [|unfold tm in *; lia].
                exfalso. rewrite Eq in Ng. apply (Qlt_irrefl 0). eapply Qlt_trans; eassumption.
             ++ right. assert (Z0 : (z tm == 0)%Q) by (apply Qle_antisym; assumption).
                rewrite Z0. intros C. vm_compute in C. discriminate.
          -- intros t0 E0. injection E0 as <-. auto.
      + apply qltb_ge in E. destruct tmo as [t0|]; [|discriminate]. injection H as <- <-.
        destruct (Tm t0 eq_refl) as [-> HB]. auto.
  Qed.

  Lemma last_an_post fuel1 fuel2 t r m :
    last_an z d fuel1 fuel2 t = Ret r m ->
    r <= t /\ (Qabs (z r) <= 1)%Q /\
    exists k, 0 <= k /\ Br (t - (k + 1) * d) (t - k * d) r.
  Proof.
    unfold last_an. intros H.
    destruct (stepping z d fuel1 t (z t) (z (t - d)) 2) as [[[[t_old p0] p1] n]|] eqn:S; [|discriminate].
    apply stepping_post in S as (S1 & -> & -> & S4 & S5 & k & K1 & K2 & K3).
    assert (HBr : forall x, t_old - d <= x <= t_old -> ((z x < 0)%Q -> (1 <= z t_old)%Q) ->
                  Br (t - (k + 1) * d) (t - k * d) x).
    { intros x Hx Hi. exists (t_old - d), t_old. split; [lia|]. split; [lia|]. split; [lia|]. split; [lia|]. auto. }
    destruct (qltb (Qabs (z t_old)) 1) eqn:E0.
    { injection H as <- <-. apply qltb_lt in E0. split; [lia|]. split; [apply Qlt_le_weak; exact E0|].
      exists k. split; [lia|]. apply HBr; [lia|]. intros C. exfalso. apply (Qlt_irrefl 0). eapply Qlt_trans; eassumption. }
    apply qltb_ge in E0. rewrite Qabs_pos in E0 by (apply Qlt_le_weak; exact S4).
    destruct (qltb (Qabs (z (t_old - d))) 1) eqn:E1.
    { injection H as <- <-. apply qltb_lt in E1. split; [lia|]. split; [apply Qlt_le_weak; exact E1|].
      exists k. split; [lia|]. apply HBr; [lia|]. intros _. exact E0. }
    apply (bisect_post (t - (k + 1) * d) (t - k * d)) in H as [HB HA].
    - split; [|split; [exact HA|exists k; split; [lia|exact HB]]].
      destruct HB as (a & b & B1 & B2 & B3 & _). nia.
    - left. split; [lia|]. split; [lia|]. split; [lia|]. split; [exact S5|exact E0].
    - intros t0 E. discriminate.
  Qed.
End Post.

(* ------------------------------------------------------------------ *)
(* termination                                                          *)
(* ------------------------------------------------------------------ *)
Section Termination.
  Variable z : Z -> Q.
  Variable d : Z.
  Hypothesis dpos : 0 < d.

  (* the backward stepping ends as soon as some 10-minute grid point before the query time has z > 0
     with z < 0 ten minutes earlier *)
  Lemma stepping_terminates : forall k t n, (0 <= k)%Z ->
    (0 < z (t - k * d))%Q -> (z (t - (k + 1) * d) < 0)%Q ->
    stepping z d (Z.to_nat k) t (z t) (z (t - d)) n <> None.
  Proof.
    intros k t n Hk. revert t n. pattern k. apply natlike_ind; [| |exact Hk].
    - intros t n H1 H2. replace (t - 0 * d) with t in H1 by lia. replace (t - (0 + 1) * d) with (t - d) in H2 by lia.
      cbn [Z.to_nat stepping]. apply qltb_lt in H1, H2. rewrite H1, H2. discriminate.
    - intros x Hx IH t n H1 H2. rewrite Z2Nat.inj_succ by lia. cbn [stepping].
      destruct (qltb 0 (z t) && qltb (z (t - d)) 0); [discriminate|].
      apply IH.
      + replace (t - d - x * d) with (t - Z.succ x * d) by lia. exact H1.
      + replace (t - d - (x + 1) * d) with (t - (Z.succ x + 1) * d) by lia. exact H2.
  Qed.

  (* |z| changes by at most K per tick, K <= 1 km: tick * (max |dz/dt| = 8 km/s) <= 1, i.e. tick <= 1/8 s *)
  Variable K : Q.
  Hypothesis K_le_1 : (K <= 1)%Q.
  Hypothesis lipschitz_one_tick : forall t : Z, (z (t + 1)%Z - z t <= K)%Q.

  Lemma bisect_terminates : forall f t_old t_new p1 tmo n,
    ((t_new < t_old /\ t_old - t_new <= 2 ^ Z.of_nat f /\ (z t_new < 0)%Q /\ (0 < z t_old)%Q) \/ ~ (1 < Qabs p1)%Q) ->
    bisect z (S f) t_old t_new p1 tmo n <> OutOfFuel.
  Proof.
    assert (Exit : forall fuel t_old t_new p1 tmo n, ~ (1 < Qabs p1)%Q -> bisect z fuel t_old t_new p1 tmo n <> OutOfFuel).
    { intros fuel t_old t_new p1 tmo n N. destruct fuel; cbn [bisect];
        (destruct (qltb 1 (Qabs p1)) eqn:E; [apply qltb_lt in E; contradiction|]); destruct tmo; discriminate. }
    induction f as [|f IH]; intros t_old t_new p1 tmo n Inv.
    - destruct Inv as [(I1 & I2 & I3 & I4)|N]; [|apply Exit; exact N].
      assert (W : t_old = t_new + 1) by (cbn in I2; lia). subst t_old.
      cbn [bisect]. destruct (qltb 1 (Qabs p1)); [|destruct tmo; discriminate].
      replace (t_new + 1 - t_new) with 1 by lia. change (Z.quot 1 2) with 0. replace (t_new + 1 - 0) with (t_new + 1) by lia.
      assert (Sm : ~ (1 < Qabs (z (t_new + 1)))%Q).
      { pose proof (lipschitz_one_tick t_new) as L. apply Qle_not_lt. apply Qabs_Qle_condition. split; lra. }
      assert (Sm' : qltb 1 (Qabs (z (t_new + 1))) = false).
      { destruct (qltb 1 (Qabs (z (t_new + 1)))) eqn:E; [apply qltb_lt in E; contradiction|reflexivity]. }
      destruct (qltb 0 (z (t_new + 1))); rewrite Sm'; discriminate.
    - destruct Inv as [(I1 & I2 & I3 & I4)|N]; [|apply Exit; exact N].
      remember (S f) as sf. cbn [bisect]. destruct (qltb 1 (Qabs p1)); [|destruct tmo; discriminate].
      destruct (half_bounds (t_old - t_new) ltac:(lia)) as (Q1 & Q2 & Q3).
      set (tm := t_old - Z.quot (t_old - t_new) 2) in *.
      assert (P2 : 2 ^ Z.of_nat (S f) = 2 * 2 ^ Z.of_nat f).
      { rewrite Nat2Z.inj_succ, Z.pow_succ_r by lia. reflexivity. }
      subst sf. destruct (qltb 0 (z tm)) eqn:P.
      + apply qltb_lt in P. apply IH.
        destruct (Z.eq_dec tm t_new) as [Eq|Ne].
        * exfalso. rewrite Eq in P. apply (Qlt_irrefl 0). eapply Qlt_trans; eassumption.
        * left. repeat split; auto; unfold tm in *; lia.
      + apply qltb_ge in P. apply IH.
        destruct (Qlt_le_dec (z tm) 0) as [Ng|Ze].
        * left. repeat split; auto; try (unfold tm; lia).
          destruct (Z.eq_dec tm t_old) as [Eq|Ne]; [|unfold tm in *; lia].
          exfalso. rewrite Eq in Ng. apply (Qlt_irrefl 0). eapply Qlt_trans; eassumption.
        * right. assert (Z0 : (z tm == 0)%Q) by (apply Qle_antisym; assumption).
          rewrite Z0. intros C. vm_compute in C. discriminate.
  Qed.

  (* the whole call: not OutOfFuel with fuel1 = k steps, fuel2 = log2_up(d) + 1 halvings *)
  Lemma last_an_terminates k t : (0 <= k)%Z ->
    (0 < z (t - k * d))%Q -> (z (t - (k + 1) * d) < 0)%Q ->
    last_an z d (Z.to_nat k) (S (Z.to_nat (Z.log2_up d))) t <> OutOfFuel.
  Proof.
    intros Hk H1 H2. unfold last_an.
    pose proof (stepping_terminates k t 2%nat Hk H1 H2) as S.
    destruct (stepping z d (Z.to_nat k) t (z t) (z (t - d)) 2) as [[[[t_old p0] p1] n]|] eqn:E; [|congruence].
    apply (stepping_post z d dpos) in E as (S1 & -> & -> & S4 & S5 & _).
    destruct (qltb (Qabs (z t_old)) 1); [discriminate|].
    destruct (qltb (Qabs (z (t_old - d))) 1); [discriminate|].
    apply bisect_terminates. left. repeat split; auto; try lia.
    rewrite Z2Nat.id by apply Z.log2_up_nonneg.
    replace (t_old - (t_old - d)) with d by lia.
    destruct (Z.eq_dec d 1) as [->|Ne]; [cbn; lia|]. apply Z.log2_up_spec. lia.
  Qed.
End Termination.

(* the three sub-second units satisfy the width bound with the stated fuel *)
Lemma ten_minutes_values :
  ten_minutes (work_unit U_m) = 600000000 /\ ten_minutes (work_unit U_s) = 600000000 /\
  ten_minutes (work_unit U_ms) = 600000 /\ ten_minutes (work_unit U_us) = 600000000 /\
  ten_minutes (work_unit U_ns) = 600000000000 /\
  Z.log2_up 600000 = 20 /\ Z.log2_up 600000000 = 30 /\ Z.log2_up 600000000000 = 40.
Proof. vm_compute. repeat split; reflexivity. Qed.

Lemma get_last_an_time_terminates u zw shift K k t :
  (K <= 1)%Q -> (forall x : Z, (zw (x + 1)%Z - zw x <= K)%Q) -> 0 <= k ->
  let d := ten_minutes (work_unit u) in
  (0 < zw (to_work u t - k * d)%Z)%Q -> (zw (to_work u t - (k + 1) * d)%Z < 0)%Q ->
  get_last_an_time u zw shift (Z.to_nat k) 41 t <> OutOfFuel.
Proof.
  intros HK HL Hk d H1 H2.
  assert (dpos : 0 < d) by (destruct u; vm_compute; reflexivity).
  pose proof (last_an_terminates zw d dpos K HK HL k (to_work u t) Hk H1 H2) as T.
  (* more fuel than needed never hurts *)
  assert (Mono : forall f g t_old t_new p1 tmo n, (f <= g)%nat ->
             bisect zw f t_old t_new p1 tmo n <> OutOfFuel ->
             bisect zw g t_old t_new p1 tmo n = bisect zw f t_old t_new p1 tmo n).
  { induction f as [|f IH]; intros g t_old t_new p1 tmo n L NO.
    - destruct g; cbn [bisect] in *; destruct (qltb 1 (Qabs p1)); try reflexivity; congruence.
    - destruct g; [lia|]. cbn [bisect] in *. destruct (qltb 1 (Qabs p1)); [|reflexivity].
      destruct (qltb 0 (zw (t_old - Z.quot (t_old - t_new) 2))); apply IH; try lia; exact NO. }
  assert (L41 : last_an zw d (Z.to_nat k) 41 (to_work u t) <> OutOfFuel).
  { unfold last_an in *.
    destruct (stepping zw d (Z.to_nat k) (to_work u t) (zw (to_work u t)) (zw (to_work u t - d)) 2) as [[[[t_old p0] p1] n]|]; [|exact T].
    destruct (qltb (Qabs p0) 1); [discriminate|]. destruct (qltb (Qabs p1) 1); [discriminate|].
    rewrite (Mono (S (Z.to_nat (Z.log2_up d))) 41%nat); [exact T| |exact T].
    destruct u; vm_compute; lia. }
  unfold get_last_an_time. fold d.
  destruct (last_an zw d (Z.to_nat k) 41 (to_work u t)); [discriminate|contradiction|discriminate].
Qed.

(* the refined result (fix 2488c71) is still not later than the query time, provided the Newton step
   moves back from a point with z >= 0 and, from a point with z < 0, does not pass a later tick where
   z >= 1 km *)
Lemma refined_not_late u zw shift fuel1 fuel2 t r n :
  (forall x, (0 <= zw x)%Q -> 0 <= shift x) ->
  (forall x b, (zw x < 0)%Q -> x < b -> (1 <= zw b)%Q -> refine u shift x <= to_res u b) ->
  get_last_an_time u zw shift fuel1 fuel2 t = Ret r n ->
  r <= to_res u (to_work u t) /\
  exists r0 m, last_an zw (ten_minutes (work_unit u)) fuel1 fuel2 (to_work u t) = Ret r0 m /\
               r = refine u shift r0 /\ n = S m /\ r0 <= to_work u t /\ (Qabs (zw r0) <= 1)%Q.
Proof.
  intros H1 H2 H. unfold get_last_an_time in H.
  destruct (last_an zw (ten_minutes (work_unit u)) fuel1 fuel2 (to_work u t)) as [r0 m| |] eqn:E; try discriminate.
  injection H as <- <-.
  assert (dpos : 0 < ten_minutes (work_unit u)) by (destruct u; vm_compute; reflexivity).
  destruct (last_an_post zw _ dpos _ _ _ _ _ E) as (L & A & k & Hk & a & b & B1 & B2 & B3 & B4 & B5 & B6 & B7).
  assert (Mono : forall x y, x <= y -> to_res u x <= to_res u y) by (intros x y; unfold to_res; destruct (work_unit u); lia).
  split; [|exists r0, m; auto].
  destruct (Qlt_le_dec (zw r0) 0) as [Ng|Ps].
  - assert (r0 < b).
    { destruct (Z.eq_dec r0 b) as [->|Ne]; [|lia]. exfalso. apply (Qlt_irrefl 0). eapply Qlt_trans; eassumption. }
    apply Z.le_trans with (to_res u b); [apply H2; auto|]. apply Mono.
    assert (0 <= k * ten_minutes (work_unit u)) by nia. lia.
  - specialize (H1 r0 Ps). apply Z.le_trans with (to_res u r0); [|apply Mono; exact L].
    unfold refine, shift_res. destruct (work_unit u); lia.
Qed.

(* ------------------------------------------------------------------ *)
(* why the unit conversion (fix e2cf667) is needed                      *)
(* ------------------------------------------------------------------ *)
Lemma bisect_never_exits z : (forall t, (1 < Qabs (z t))%Q) ->
  forall fuel t_old t_new p1 tmo n, (1 < Qabs p1)%Q -> bisect z fuel t_old t_new p1 tmo n = OutOfFuel.
Proof.
  intros Big. induction fuel as [|f IH]; intros t_old t_new p1 tmo n H; cbn [bisect];
    apply qltb_lt in H; rewrite H; [reflexivity|].
  destruct (qltb 0 (z (t_old - Z.quot (t_old - t_new) 2))); apply IH; apply Big.
Qed.

(* a straight line of slope 7 km/s (below the 8 km/s bound), crossing the equator between two whole seconds *)
Definition z_line_s (t : Z) : Q := inject_Z (7 * t + 3).              (* t in seconds *)
Definition z_line_us (t : Z) : Q := (inject_Z (7 * t) / 1000000 + 3)%Q.   (* the same line, t in microseconds *)

Lemma z_line_s_big t : (1 < Qabs (z_line_s t))%Q.
Proof.
  unfold z_line_s. apply Qabs_case; intros H.
  - change 1%Q with (inject_Z 1). rewrite <- Zlt_Qlt. change 0%Q with (inject_Z 0) in H. rewrite <- Zle_Qle in H. lia.
  - rewrite <- inject_Z_opp. change 1%Q with (inject_Z 1). rewrite <- Zlt_Qlt.
    change 0%Q with (inject_Z 0) in H. rewrite <- Zle_Qle in H. lia.
Qed.

Lemma z_line_same_line s : (z_line_us (s * 1000000) == z_line_s s)%Q.
Proof.
  unfold z_line_us, z_line_s. rewrite !inject_Z_plus, !inject_Z_mult. field.
Qed.

Lemma no_conversion_never_returns : forall fuel1 fuel2,
  get_last_an_time_before_fix U_s z_line_s fuel1 fuel2 300 = OutOfFuel.
Proof.
  intros fuel1 fuel2. unfold get_last_an_time_before_fix, last_an.
  assert (S : stepping z_line_s (ten_minutes U_s) fuel1 300 (z_line_s 300) (z_line_s (300 - ten_minutes U_s)) 2
              = Some (300, z_line_s 300, z_line_s (300 - ten_minutes U_s), 2%nat)).
  { destruct fuel1; reflexivity. }
  rewrite S. change (qltb (Qabs (z_line_s 300)) 1) with false.
  change (qltb (Qabs (z_line_s (300 - ten_minutes U_s))) 1) with false. cbv iota.
  apply bisect_never_exits; [exact z_line_s_big | apply z_line_s_big].
Qed.

(* z / vz * 1e6 for the line: 7 t / 1e6 + 3 over 7 km/s, rounded: t + 428571 *)
Definition shift_line_us (t : Z) : Z := t + 428571.
Lemma with_conversion_returns :
  get_last_an_time U_s z_line_us shift_line_us 0 41 300 = Ret (-428571) 14.
Proof. vm_compute. reflexivity. Qed.

(* ------------------------------------------------------------------ *)
(* get_orbit_number: truncation, TBUS, monotonicity of the integer part *)
(* ------------------------------------------------------------------ *)
Lemma Qtrunc_nonneg x : (0 <= x)%Q -> Qtrunc x = Qfloor x.
Proof.
  destruct x as [n dd]. unfold Qle, Qtrunc, Qfloor. cbn. intros H. apply Z.quot_div_nonneg; lia.
Qed.
Lemma Qtrunc_nonpos x : (x <= 0)%Q -> Qtrunc x = Qceiling x.
Proof.
  destruct x as [n dd]. unfold Qle, Qtrunc, Qceiling, Qfloor. cbn. intros H.
  rewrite <- Z.quot_div_nonneg by lia. rewrite Z.quot_opp_l by lia. lia.
Qed.

Lemma Qtrunc_spec x :
  ((0 <= x)%Q -> (inject_Z (Qtrunc x) <= x /\ x < inject_Z (Qtrunc x) + 1)%Q) /\
  ((x <= 0)%Q -> (x <= inject_Z (Qtrunc x) /\ inject_Z (Qtrunc x) - 1 < x)%Q).
Proof.
  split; intros H.
  - rewrite Qtrunc_nonneg by exact H. split; [apply Qfloor_le|].
    pose proof (Qlt_floor x) as L. rewrite inject_Z_plus in L. exact L.
  - rewrite Qtrunc_nonpos by exact H. split; [apply Qle_ceiling|].
    pose proof (Qceiling_lt x) as L. unfold Z.sub in L. rewrite inject_Z_plus in L. exact L.
Qed.

Lemma Qtrunc_abs_le x : (Qabs (inject_Z (Qtrunc x)) <= Qabs x)%Q.
Proof.
  destruct (Qlt_le_dec x 0) as [N|P].
  - destruct (proj2 (Qtrunc_spec x) (Qlt_le_weak _ _ N)) as [A B].
    assert (T : (inject_Z (Qtrunc x) <= 0)%Q).
    { rewrite Qtrunc_nonpos by (apply Qlt_le_weak; exact N). change 0%Q with (inject_Z 0). rewrite <- Zle_Qle.
      rewrite <- (Qceiling_Z 0). apply Qceiling_resp_le. apply Qlt_le_weak. exact N. }
    rewrite !Qabs_neg by (auto using Qlt_le_weak). lra.
  - destruct (proj1 (Qtrunc_spec x) P) as [A B].
    assert (T : (0 <= inject_Z (Qtrunc x))%Q).
    { rewrite Qtrunc_nonneg by exact P. change 0%Q with (inject_Z 0). rewrite <- Zle_Qle.
      rewrite <- (Qfloor_Z 0). apply Qfloor_resp_le. exact P. }
    rewrite !Qabs_pos by auto. exact A.
Qed.

Lemma Qtrunc_mono x y : (x <= y)%Q -> Qtrunc x <= Qtrunc y.
Proof.
  intros H. destruct (Qlt_le_dec x 0) as [Nx|Px], (Qlt_le_dec y 0) as [Ny|Py].
  - rewrite !Qtrunc_nonpos by (apply Qlt_le_weak; assumption). apply Qceiling_resp_le. exact H.
  - rewrite Qtrunc_nonpos by (apply Qlt_le_weak; assumption). rewrite Qtrunc_nonneg by assumption.
    apply Z.le_trans with 0.
    + rewrite <- (Qceiling_Z 0). apply Qceiling_resp_le. apply Qlt_le_weak. exact Nx.
    + rewrite <- (Qfloor_Z 0). apply Qfloor_resp_le. exact Py.
  - exfalso. apply (Qlt_irrefl 0). eapply Qle_lt_trans; [exact Px|]. eapply Qle_lt_trans; eassumption.
  - rewrite !Qtrunc_nonneg by assumption. apply Qfloor_resp_le. exact H.
Qed.

Lemma orbit_number_tbus as_float x :
  (orbit_number true as_float x == orbit_number false as_float x + 1)%Q.
Proof. unfold orbit_number. destruct as_float; reflexivity. Qed.

Lemma orbit_number_int x : orbit_number false false x = inject_Z (Qtrunc x).
Proof. reflexivity. Qed.

Lemma orbit_number_mono tbus as_float x y :
  (x <= y)%Q -> (orbit_number tbus as_float x <= orbit_number tbus as_float y)%Q.
Proof.
  intros H. unfold orbit_number.
  assert (T : (inject_Z (Qtrunc x) <= inject_Z (Qtrunc y))%Q) by (rewrite <- Zle_Qle; apply Qtrunc_mono; exact H).
  destruct as_float, tbus; lra.
Qed.

(* ------------------------------------------------------------------ *)
(* the cache                                                            *)
(* ------------------------------------------------------------------ *)
Lemma cache_run_pure (T V A : Type) (init : V) (compute : V -> T -> A) ts :
  run T V A init compute None ts = map (compute init) ts /\
  run T V A init compute (Some init) ts = map (compute init) ts.
Proof.
  induction ts as [|t r [IH1 IH2]]; [split; reflexivity|].
  split; cbn [run query map]; f_equal; exact IH2.
Qed.

Lemma cache_query_pure (T V A : Type) (init : V) (compute : V -> T -> A) ts1 ts2 t :
  (* whatever was asked before (in any order), the answer for t is the one computed from the TLE alone *)
  nth (length ts1) (run T V A init compute None (ts1 ++ t :: ts2)) (compute init t) = compute init t.
Proof.
  destruct (cache_run_pure T V A init compute (ts1 ++ t :: ts2)) as [-> _].
  rewrite map_app. cbn [map]. rewrite app_nth2; rewrite map_length; [|lia]. rewrite Nat.sub_diag. reflexivity.
Qed.

(* ------------------------------------------------------------------ *)
(* real-number part: monotone cubic, equator crossing                   *)
(* ------------------------------------------------------------------ *)
From Coq Require Import Reals Lra Ranalysis5.
Open Scope R_scope.

Definition orbit_real (rev dt period nd ndd : R) : R :=
  rev + dt / period + nd * (dt * dt) + ndd * (dt * dt * dt).

(* for dt in [-1, 5] d, nodal period in (0, 0.16] d (near-earth: < 225 min = 0.15625 d),
   |mean_motion_derivative| <= 1/2 rev/d^2 (the TLE field is n-dot/2, printed as +-.dddddddd),
   |mean_motion_sec_derivative| <= 1/100 rev/d^3 (the field n-ddot/6) *)
Lemma orbit_real_increasing rev period nd ndd x y :
  0 < period <= 4 / 25 -> Rabs nd <= 1 / 2 -> Rabs ndd <= 1 / 100 ->
  -1 <= x -> x < y -> y <= 5 ->
  orbit_real rev x period nd ndd < orbit_real rev y period nd ndd.
Proof.
  intros [Pp Pu] Hn Hd Hx Hxy Hy. unfold orbit_real.
  assert (Hn' : -(1/2) <= nd <= 1/2) by (unfold Rabs in Hn; destruct (Rcase_abs nd); lra).
  assert (Hd' : -(1/100) <= ndd <= 1/100) by (unfold Rabs in Hd; destruct (Rcase_abs ndd); lra).
  assert (IP : 25 / 4 <= / period).
  { replace (25 / 4) with (/ (4 / 25)) by field. apply Rinv_le_contravar; assumption. }
  set (s := x + y). set (q := x * x + x * y + y * y).
  assert (Hs : -2 <= s <= 10) by (unfold s; lra).
  assert (Hq : 0 <= q <= 75) by (unfold q; split; nra).
  assert (E : (rev + y / period + nd * (y * y) + ndd * (y * y * y)) - (rev + x / period + nd * (x * x) + ndd * (x * x * x))
              = (y - x) * (/ period + nd * s + ndd * q)).
  { unfold s, q. unfold Rdiv. ring. }
  assert (B1 : -5 <= nd * s) by nra.
  assert (B2 : -(3 / 4) <= ndd * q) by nra.
  assert (0 < (y - x) * (/ period + nd * s + ndd * q)) by (apply Rmult_lt_0_compat; lra).
  lra.
Qed.

(* Python int() on the continuous orbit number, over the reals *)
Definition Rtrunc (x : R) : Z := if Rle_dec 0 x then (up x - 1)%Z else (1 - up (- x))%Z.

Section Crossing.
  Variable n : R -> R.                       (* continuous orbit number as a function of time *)
  Hypothesis n_cont : forall t, continuity_pt n t.
  Variables a b : R.                         (* tstart, tend *)
  Hypothesis a_lt_b : a < b.
  Hypothesis n_nonneg : 0 <= n a.
  Hypothesis n_mono : n a <= n b.
  Hypothesis revs_differ : Rtrunc (n b) <> Rtrunc (n a).   (* the `int(n_end) - int(n_start) == 0` test failed *)
  Let offset : Z := Rtrunc (n b).            (* `offset = int(n_end)` *)
  Let nprime (t : R) : R := n t - IZR offset.

  (* the bracket handed to scipy.optimize.bisect is valid: n'(tstart) < 0 <= n'(tend) *)
  Lemma crossing_bracket : nprime a < 0 <= nprime b.
  Proof.
    unfold nprime, offset, Rtrunc in *.
    destruct (Rle_dec 0 (n b)) as [Pb|Nb]; [|lra]. destruct (Rle_dec 0 (n a)) as [Pa|Na]; [|lra].
    destruct (archimed (n a)) as [A1 A2]. destruct (archimed (n b)) as [B1 B2].
    assert (L : (up (n a) <= up (n b))%Z).
    { apply le_IZR. apply Rnot_lt_le. intros C.
      assert (C' : (up (n b) + 1 <= up (n a))%Z) by (apply lt_IZR in C; lia).
      apply IZR_le in C'. rewrite plus_IZR in C'. simpl in C'. lra. }
    assert (L' : (up (n a) - 1 + 1 <= up (n b) - 1)%Z) by lia.
    apply IZR_le in L'. rewrite plus_IZR, !minus_IZR in L'. simpl in L'.
    rewrite minus_IZR. simpl. lra.
  Qed.

  (* contract of scipy.optimize.bisect (hypothesis): the result x lies in a sub-bracket [lo,hi] of
     [a,b], no longer than tol, across which n' does not keep one strict sign *)
  Variables x lo hi tol : R.
  Hypothesis bis_in : a <= lo /\ lo <= x <= hi /\ hi <= b.
  Hypothesis bis_tol : hi - lo <= tol.
  Hypothesis bis_sign : nprime lo <= 0 <= nprime hi.

  Lemma crossing_is_integer : exists tc, lo <= tc <= hi /\ Rabs (tc - x) <= tol /\ n tc = IZR offset.
  Proof.
    assert (Near : forall tc, lo <= tc <= hi -> Rabs (tc - x) <= tol).
    { intros tc Htc. apply Rabs_le. lra. }
    destruct (Req_dec (nprime lo) 0) as [E0|N0].
    { exists lo. split; [lra|]. split; [apply Near; lra|]. unfold nprime in E0. lra. }
    destruct (Req_dec (nprime hi) 0) as [E1|N1].
    { exists hi. split; [lra|]. split; [apply Near; lra|]. unfold nprime in E1. lra. }
    assert (Hlt : lo < hi).
    { destruct (Rlt_le_dec lo hi) as [?|C]; [assumption|]. assert (lo = hi) by lra. subst hi. lra. }
    destruct (IVT_interv nprime lo hi) as (tc & Htc & Ez); try lra.
    - intros t _. unfold nprime. apply continuity_pt_minus; [apply n_cont|apply continuity_pt_const; intros ? ?; reflexivity].
    - exists tc. split; [exact Htc|]. split; [apply Near; exact Htc|]. unfold nprime in Ez. lra.
  Qed.
End Crossing.
