(* P_Kinds.v — proofs for C08 over model/M_Kinds.v *)
From Coq Require Import List ZArith QArith Qreduction Bool Lia.
From PyOrb.model Require Import M_Kinds.
Import ListNotations.

(* ------------------------------------------------------------------ the kind table, by complete case analysis *)
Ltac all_cases t k := destruct t as [ | [ | | | ] | | [ | | | ] ]; destruct k; vm_compute; reflexivity.

Lemma alt_az_table : forall t k,
  get_alt_az_k t (kind_of k) (kind_of k) = Ok (doc t (kind_of k), doc t (kind_of k)).
Proof. intros t k; all_cases t k. Qed.

Lemma cos_zen_table : forall t k, cos_zen_k t (kind_of k) (kind_of k) = Ok (doc t (kind_of k)).
Proof. intros t k; all_cases t k. Qed.

Lemma sun_zenith_table : forall t k, sun_zenith_angle_k t (kind_of k) (kind_of k) = Ok (doc t (kind_of k)).
Proof. intros t k; all_cases t k. Qed.

(* z does not depend on the time: for scalar lon/lat it is a scalar even for an array of times (it broadcasts) *)
Lemma observer_table : forall t k,
  exists vz, observer_position_k t (kind_of k) (kind_of k) (kind_of k)
             = Ok ((doc t (kind_of k), doc t (kind_of k), doc TDatetime (kind_of k)),
                   (doc t (kind_of k), doc t (kind_of k), vz))
             /\ doc_vz t (kind_of k) vz = true.
Proof.
  intros t k.
  destruct t as [ | [ | | | ] | | [ | | | ] ]; destruct k; vm_compute; eexists; split; reflexivity.
Qed.

(* altitude given as a python float while lon/lat have kind k (the documented call style) *)
Lemma observer_table_alt_float : forall t k,
  exists vz, observer_position_k t (kind_of k) (kind_of k) pyf
             = Ok ((doc t (kind_of k), doc t (kind_of k), doc TDatetime (kind_of k)),
                   (doc t (kind_of k), doc t (kind_of k), vz))
             /\ doc_vz t (kind_of k) vz = true.
Proof.
  intros t k.
  destruct t as [ | [ | | | ] | | [ | | | ] ]; destruct k; vm_compute; eexists; split; reflexivity.
Qed.

Lemma time_only_table : forall t,
  jdays2000_k t = tv t /\ jdays_k t = tv t /\ gmst_k t = tv t /\ sun_ra_dec_k t = (tv t, tv t).
Proof. intros t; destruct t as [ | [ | | | ] | | [ | | | ] ]; vm_compute; repeat split; reflexivity. Qed.

(* orbital.py: no cast back (float64 throughout), containers as documented *)
Definition doc64 (t : timekind) (k : vk) : vk := (doc_cont t k, F64).
Lemma look_function_table : forall t k,
  look_function_k t (kind_of k) (kind_of k) (kind_of k) (kind_of k) (kind_of k) (kind_of k)
  = Ok (doc64 t (kind_of k), doc64 t (kind_of k)).
Proof. intros t k; all_cases t k. Qed.
Lemma look_method_table : forall t k,
  look_method_k t (kind_of k) (kind_of k) (kind_of k) = Ok (doc64 t (kind_of k), doc64 t (kind_of k)).
Proof. intros t k; all_cases t k. Qed.
Lemma orbital_time_table : forall t,
  position_k t = (CNd, F64) /\ lonlatalt_k t = (tv t, tv t, tv t).
Proof. intros t; destruct t as [ | [ | | | ] | | [ | | | ] ]; vm_compute; split; reflexivity. Qed.

(* no entry point raises on any pair of kinds (lon, lat) *)
Lemma no_exception_mixed : forall t k1 k2,
  (exists r, get_alt_az_k t (kind_of k1) (kind_of k2) = Ok r) /\
  (exists r, cos_zen_k t (kind_of k1) (kind_of k2) = Ok r) /\
  (exists r, sun_zenith_angle_k t (kind_of k1) (kind_of k2) = Ok r) /\
  (exists r, observer_position_k t (kind_of k1) (kind_of k2) (kind_of k2) = Ok r).
Proof.
  intros t k1 k2.
  destruct t as [ | [ | | | ] | | [ | | | ] ]; destruct k1; destruct k2; vm_compute;
    repeat split; eexists; reflexivity.
Qed.

(* mixed kinds: the cast back is decided by the LONGITUDE alone — a float32 latitude array with a python-float
   longitude comes back as float64 (outside the uniform-kind quantifier of the property; documented here) *)
Lemma mixed_lon_decides :
  cos_zen_k TDatetime (kind_of PyFloat) (kind_of ArrF32) = Ok (CNd, F64) /\
  cos_zen_k TDatetime (kind_of ArrF32) (kind_of ArrF64) = Ok (CNd, F32) /\
  sun_zenith_angle_k TDatetime (kind_of NpF32) (kind_of ArrF64) = Ok (CNd, F32).
Proof. vm_compute; repeat split; reflexivity. Qed.

(* ------------------------------------------------------------------ time units *)
Lemma rn_Qeq : forall x y, x == y -> rn x = rn y.
Proof. intros x y H. unfold rn. rewrite (Qred_complete x y H). reflexivity. Qed.

(* exact rational day count: one instant, any unit *)
Lemma days_exact_units : forall (u v : tunit) (a b : Z),
  ((a - j2000 u) * ticks_per_day v = (b - j2000 v) * ticks_per_day u)%Z ->
  days_exact u a == days_exact v b.
Proof.
  intros u v a b H. unfold days_exact, Qeq, Qdiv, Qmult, Qinv, inject_Z.
  destruct u, v; cbn in *; lia.
Qed.

Lemma days_exact_seconds : forall n : Z,
  days_exact US_s n == days_exact US_ms (1000 * n) /\
  days_exact US_s n == days_exact US_us (1000000 * n) /\
  days_exact US_s n == days_exact US_ns (1000000000 * n).
Proof. intros n; repeat split; apply days_exact_units; unfold j2000, ticks_per_day, ticks_per_second; lia. Qed.

Lemma tpd_pos : forall u, (0 < ticks_per_day u)%Z.
Proof. destruct u; reflexivity. Qed.
Lemma tpd_small : forall u, (ticks_per_day u < 2 ^ 53)%Z.
Proof. destruct u; reflexivity. Qed.

Lemma div_same_ratio : forall a b c d : Z, (0 < c)%Z -> (0 < d)%Z -> (a * d = b * c)%Z -> (a / c = b / d)%Z.
Proof.
  intros a b c d Hc Hd H.
  rewrite <- (Z.div_mul_cancel_r a c d) by lia.
  rewrite <- (Z.div_mul_cancel_r b d c) by lia.
  rewrite H. f_equal. lia.
Qed.

Lemma to_double_small : forall z, (Z.abs z < 2 ^ 53)%Z -> to_double z = inject_Z z.
Proof. intros z H. unfold to_double. apply Z.ltb_lt in H. rewrite H. reflexivity. Qed.

(* whole + remainder/unit in binary64: the same bits for two tick counts of the same ratio to their units *)
Lemma whole_plus_fraction_units : forall d1 p1 d2 p2 : Z,
  (0 < p1 < 2 ^ 53)%Z -> (0 < p2 < 2 ^ 53)%Z -> (d1 * p2 = d2 * p1)%Z ->
  whole_plus_fraction d1 p1 = whole_plus_fraction d2 p2.
Proof.
  intros d1 p1 d2 p2 P1 P2 H. unfold whole_plus_fraction.
  assert (W : (d1 / p1 = d2 / p2)%Z) by (apply div_same_ratio; lia).
  rewrite <- W. set (w := (d1 / p1)%Z) in *.
  assert (R1 : (0 <= d1 - w * p1 < p1)%Z).
  { unfold w. pose proof (Z.mod_pos_bound d1 p1 (proj1 P1)) as M. rewrite Z.mod_eq in M by lia. lia. }
  assert (R2 : (0 <= d2 - w * p2 < p2)%Z).
  { rewrite W. pose proof (Z.mod_pos_bound d2 p2 (proj1 P2)) as M. rewrite Z.mod_eq in M by lia. lia. }
  apply rn_Qeq. apply Qplus_comp; [reflexivity|].
  unfold fdiv_ticks. rewrite !to_double_small by lia.
  assert (E : inject_Z (d1 - w * p1) / inject_Z p1 == inject_Z (d2 - w * p2) / inject_Z p2).
  { unfold Qeq, Qdiv, Qmult, Qinv, inject_Z.
    destruct p1 eqn:E1; try lia. destruct p2 eqn:E2; try lia. cbn. nia. }
  rewrite (rn_Qeq _ _ E). reflexivity.
Qed.

(* astronomy._days as it is now: the same bits for one instant in any unit, for every tick count *)
Lemma days_float_units : forall (u v : tunit) (a b : Z),
  ((a - j2000 u) * ticks_per_day v = (b - j2000 v) * ticks_per_day u)%Z ->
  days_float u a = days_float v b.
Proof.
  intros u v a b H.
  apply (whole_plus_fraction_units (a - j2000 u) (ticks_per_day u) (b - j2000 v) (ticks_per_day v));
    [split; [apply tpd_pos | apply tpd_small] | split; [apply tpd_pos | apply tpd_small] | exact H].
Qed.

(* _Keplerians._get_timedelta_in_minutes as it is now: the same bits for one duration since epoch in any unit *)
Lemma minutes_float_units : forall (u v : tunit) (a b : Z),
  (a * ticks_per_second v = b * ticks_per_second u)%Z ->
  minutes_float u a = minutes_float v b.
Proof.
  intros u v a b H. unfold minutes_float.
  apply whole_plus_fraction_units; [destruct u; cbn; lia | destruct v; cbn; lia | lia].
Qed.

(* why the whole + remainder form matters: a plain quotient of the tick counts is rounded twice beyond 2^53
   ticks (witness: 1192720214.536334 s in us and in ns) while the code's form gives equal bits there *)
Lemma plain_division_double_rounding :
  Qeq_bool (fdiv_ticks 1192720214536334 60000000) (fdiv_ticks 1192720214536334000 60000000000) = false /\
  minutes_float US_us 1192720214536334 = minutes_float US_ns 1192720214536334000.
Proof. split; vm_compute; reflexivity. Qed.
