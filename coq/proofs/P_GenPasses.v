(* C03, source tie: the loop of the hand model M_Passes takes, at every crossing, the action extracted from the body of
   Orbital.get_next_passes (Gen_passes.v; its control skeleton is checked by the translator against
   translator/passes_skeleton.txt), and the model's slice and bracket use the constants of the source. *)
From Coq Require Import List ZArith QArith Bool Qround Qminmax.
From PyOrb.model Require Import M_Passes.
From PyOrb.gen Require Import Gen_passes.
Import ListNotations.

Definition is_none {A} (o : option A) : bool := match o with None => true | Some _ => false end.

(* one turn of `for guess in zcs` as far as the pairing is concerned (the improper-pair test is the model's later filter) *)
Theorem pairs_is_generated_turn xs g zs rise :
  pairs xs (g :: zs) rise =
  match gen_guess_action (sample xs g <? 0)%Z (is_none rise) true with
  | ASetRise => pairs xs zs (Some g)
  | ASkipNoRise => pairs xs zs None
  | _ => match rise with Some rg => (rg, g) :: pairs xs zs rise | None => pairs xs zs None end
  end.
Proof.
  cbn [pairs]. unfold gen_guess_action. destruct (sample xs g <? 0)%Z; [reflexivity|].
  destruct rise; reflexivity.
Qed.

(* the filter of the model is the third test of the body *)
Theorem proper_is_generated_test root rf :
  proper root rf = true <-> gen_guess_action false false (proper root rf) = AEmit.
Proof. unfold gen_guess_action. destruct (proper root rf); cbn; split; intros H; try reflexivity; discriminate. Qed.

(* the sample slice and the culmination bracket of a pass use the constants of the source *)
Theorem mkpass_constants xs root rg fg :
  let p := mkpass xs root (rg, fg) in
  p_istart p = Z.to_nat (Z.max (Qfloor gen_slice_floor) (Qfloor (root rg))) /\
  p_iend p = Z.to_nat (Z.min (Z.of_nat (length xs)) (Qceiling (root fg) + Qfloor gen_slice_pad)) /\
  p_lo p == Qmax (root rg) (inject_Z (Z.of_nat (p_middle p)) - gen_bracket_lo) /\
  p_hi p == Qmin (root fg) (inject_Z (Z.of_nat (p_middle p)) + gen_bracket_hi).
Proof.
  cbn [mkpass p_istart p_iend p_lo p_hi p_middle]. repeat split.
  - set (m := (_ + match _ with Some _ => _ | None => _ end)%nat).
    unfold gen_bracket_lo. rewrite inject_Z_plus || idtac.
    replace (inject_Z (Z.of_nat m - 1)) with (inject_Z (Z.of_nat m + -1)) by (f_equal; ring).
    rewrite inject_Z_plus. reflexivity.
  - set (m := (_ + match _ with Some _ => _ | None => _ end)%nat).
    unfold gen_bracket_hi. rewrite inject_Z_plus. reflexivity.
Qed.

(* a sample counts as "below the horizon" when it is negative: threshold 0; crossings are looked for between consecutive
   one-minute samples: the root bracket is [guess, guess + 1] and there are 60 samples per hour *)
Theorem sampling_constants :
  gen_neg_threshold == 0 /\ gen_root_span == 1 /\ gen_samples_per_hour == 60 /\ gen_default_horizon == 0.
Proof. repeat split; reflexivity. Qed.
