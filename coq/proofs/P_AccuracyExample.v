(* Non-vacuity for the accuracy theorems of C01: the ISS element set of the test-suite, at epoch, meets their numeric
   hypotheses (1 <= a <= 2, eL^2 <= 4/25, and the eccentricity clamp is inactive).  Depends on the transcription of the
   report only (not on the generated model), so it is not rebuilt when the source changes.  Interval arithmetic. *)
From Coq Require Import Reals Lra.
From Interval Require Import Tactic.
From Coquelicot Require Import Rcomplements.
From PyOrb.lib Require Import PyReal.
From PyOrb.spec Require Import Spec_SGP4.
Open Scope R_scope.
Definition ISS : elements := mkEl ((1572125391 / 100000000) * (twopi / min_per_day)) (6703 / 10000000) (deg2rad (516416 / 10000))
  (deg2rad (1305360 / 10000)) (deg2rad (3250288 / 10000)) (deg2rad (2474627 / 10000)) (- (11606 / 1000000000)).
Definition T0 := mkT false 0.
Ltac unf0 := unfold a0'', n0'', delta0, a0, delta1, a1, powr, theta, k2, ke, ISS, twopi, min_per_day, deg2rad, Rpower;
  cbn [t_tau t_small_e el_n0 el_e0 el_i0 el_w0 el_M0 el_O0 el_bstar].
Lemma iss_a0 : 105 / 100 <= a0'' ISS <= 106 / 100. Proof. unf0. interval. Qed.
Lemma iss_n0 : 68 / 1000 <= n0'' ISS <= 69 / 1000. Proof. unf0. interval. Qed.
(* with a0'' and n0'' as atoms *)
Lemma iss_e : 1 / 1000000 <= e_unclamped ISS T0 <= 999999 / 1000000.
Proof.
  pose proof iss_a0 as Ha. pose proof iss_n0 as Hn.
  unfold e_unclamped, Mp, MDF, delta_w, delta_M, C4, C5, C3, C1, C2, Mdot, eta, xi, beta0, s_param, XKMPER, aE, q0ms4, A30, powr, theta, k2, k4, Rpower, T0.
  cbn [t_tau t_small_e]. set (A := a0'' ISS) in *. set (N := n0'' ISS) in *.
  unfold ISS, deg2rad; cbn [el_n0 el_e0 el_i0 el_w0 el_M0 el_O0 el_bstar].
  interval.
Qed.
Lemma iss_e_tight : 6 / 10000 <= e_unclamped ISS T0 <= 7 / 10000.
Proof.
  pose proof iss_a0 as Ha. pose proof iss_n0 as Hn.
  unfold e_unclamped, Mp, MDF, delta_w, delta_M, C4, C5, C3, C1, C2, Mdot, eta, xi, beta0, s_param, XKMPER, aE, q0ms4, A30, powr, theta, k2, k4, Rpower, T0.
  cbn [t_tau t_small_e]. set (A := a0'' ISS) in *. set (N := n0'' ISS) in *.
  unfold ISS, deg2rad; cbn [el_n0 el_e0 el_i0 el_w0 el_M0 el_O0 el_bstar].
  interval.
Qed.
Lemma iss_a : 1 <= a ISS T0 <= 2.
Proof.
  pose proof iss_a0 as Ha. unfold a, T0. cbn [t_tau].
  replace ((1 - C1 ISS * 0 - D2 ISS * 0 ^ 2 - D3 ISS * 0 ^ 3 - D4 ISS * 0 ^ 4) ^ 2) with 1 by ring. lra.
Qed.
Lemma iss_eL2 : eL2 ISS T0 (e_unclamped ISS T0) <= 4 / 25.
Proof.
  pose proof iss_e_tight as He. pose proof iss_a as Ha.
  set (ee := e_unclamped ISS T0) in *.
  assert (Hy : Rabs (ayNL ISS T0 ee) <= 1 / 100).
  { unfold ayNL, beta, A30, k2. set (AA := a ISS T0) in *. unfold ISS, deg2rad; cbn [el_i0]. interval. }
  unfold eL2, axN, ayN. set (y := ayNL ISS T0 ee) in *. set (W := w ISS T0).
  pose proof (sin2_cos2 W) as SC. unfold Rsqr in SC. apply Rabs_le_between in Hy.
  pose proof (SIN_bound W) as SB.
  replace ((ee * cos W) ^ 2 + (ee * sin W + y) ^ 2) with (ee ^ 2 * (sin W * sin W + cos W * cos W) + 2 * (ee * (sin W * y)) + y ^ 2) by ring.
  rewrite SC.
  assert (H1 : -(1 / 100) <= sin W * y <= 1 / 100) by nra.
  assert (H2 : -(1 / 1000) <= ee * (sin W * y) <= 1 / 1000) by nra.
  assert (H3 : ee ^ 2 <= 1 / 1000) by nra.
  assert (H4 : y ^ 2 <= 1 / 1000) by nra.
  lra.
Qed.
