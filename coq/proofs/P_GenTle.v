(* The definitions REGENERATED from pyorbital/tlefile.py (Gen_tle.v) agree with the hand-written
   models M_Checksum / M_TleText on every input, so every theorem of C02 / C09 about the hand models
   is a theorem about what the source says now.  Proof scripts select by shape, never by the
   generated variable names. *)
From Coq Require Import List ZArith Ascii Bool Lia ZifyBool.
From Coq Require String.
From PyOrb.spec Require Import Spec_TLE.
From PyOrb.model Require Import M_Checksum M_TleText M_PyStr.
From PyOrb.gen Require Import Gen_tle.
Import ListNotations.
Open Scope Z_scope.

(* ---- slices and indices -------------------------------------------------------------------- *)
Lemma norm_idx_nonneg n i : 0 <= i -> norm_idx n i = Nat.min n (Z.to_nat i).
Proof. intros H. unfold norm_idx. destruct (i <? 0) eqn:E; [lia|reflexivity]. Qed.

Lemma norm_idx_neg n k : (0 < k)%nat -> norm_idx n (- Z.of_nat k) = (n - k)%nat.
Proof. intros H. unfold norm_idx. destruct (- Z.of_nat k <? 0) eqn:E; lia. Qed.

Lemma firstn_ge {A} (l : list A) k : (length l <= k)%nat -> firstn k l = l.
Proof. intros H. apply firstn_all2. exact H. Qed.

Lemma slice_clip a b (l : list ascii) :
  firstn (Nat.min (length l) b - Nat.min (length l) a) (skipn (Nat.min (length l) a) l) = firstn (b - a) (skipn a l).
Proof.
  destruct (Nat.le_gt_cases (length l) a) as [Ha|Ha].
  - rewrite (Nat.min_l _ _ Ha). rewrite skipn_all. rewrite (skipn_all2 l Ha). rewrite !firstn_nil. reflexivity.
  - rewrite (Nat.min_r (length l) a) by lia.
    destruct (Nat.le_gt_cases (length l) b) as [Hb|Hb].
    + rewrite (Nat.min_l _ _ Hb). rewrite !firstn_ge; [reflexivity| |]; rewrite skipn_length; lia.
    + rewrite (Nat.min_r (length l) b) by lia. reflexivity.
Qed.

Lemma py_slice_pos a b l : 0 <= a -> 0 <= b ->
  py_slice (Some a) (Some b) l = slice (Z.to_nat a) (Z.to_nat b) l.
Proof.
  intros Ha Hb. unfold py_slice, slice. rewrite !norm_idx_nonneg by assumption. apply slice_clip.
Qed.

Lemma py_index_nat l i : py_index l (Z.of_nat i) = match nth_error l i with Some c => Ok [c] | None => Err EIndex end.
Proof.
  unfold py_index. destruct (Z.of_nat i <? 0) eqn:E; [lia|]. rewrite Nat2Z.id.
  destruct ((0 <=? Z.of_nat i) && (Z.of_nat i <? Z.of_nat (length l))) eqn:E2; [reflexivity|].
  assert (H : (length l <= i)%nat) by lia. apply nth_error_None in H. rewrite H. reflexivity.
Qed.

Lemma py_index_snoc x c : py_index (x ++ [c]) (-1) = Ok [c].
Proof.
  unfold py_index. rewrite app_length. cbn [length]. change (-1 <? 0) with true. cbv iota.
  replace (Z.of_nat (length x + 1) + -1) with (Z.of_nat (length x)) by lia.
  destruct ((0 <=? Z.of_nat (length x)) && (Z.of_nat (length x) <? Z.of_nat (length x + 1))) eqn:E; [|lia].
  rewrite Nat2Z.id. rewrite nth_error_app2 by lia. rewrite Nat.sub_diag. reflexivity.
Qed.

Lemma py_index_nil i : py_index [] i = Err EIndex.
Proof. unfold py_index. cbn [length]. destruct (i <? 0) eqn:E; destruct (_ && _) eqn:E2; try reflexivity; lia. Qed.

Lemma py_slice_init x c : py_slice None (Some (-1)) (x ++ [c]) = x.
Proof.
  unfold py_slice. change (-1) with (- Z.of_nat 1). rewrite norm_idx_neg by lia.
  rewrite app_length. cbn [length skipn]. replace (length x + 1 - 1 - 0)%nat with (length x + 0)%nat by lia.
  rewrite firstn_app_2. cbn [firstn]. apply app_nil_r.
Qed.

(* ---- characters ------------------------------------------------------------------------------ *)
Lemma py_int_char c : M_TleText.py_int [c] = if is_digit c then Some (digit_val c) else None.
Proof.
  destruct c as [b0 b1 b2 b3 b4 b5 b6 b7].
  destruct b0, b1, b2, b3, b4, b5, b6, b7; vm_compute; reflexivity.
Qed.

Lemma py_isdigit_char c : py_isdigit [c] = is_digit c.
Proof. unfold py_isdigit. cbn [forallb]. apply andb_true_r. Qed.

Lemma str_eqb_char a b : str_eqb [a] [b] = Ascii.eqb a b.
Proof. cbn [str_eqb]. apply andb_true_r. Qed.

Lemma is_minus_eqb c : Ascii.eqb c "-" = is_minus c.
Proof.
  destruct c as [b0 b1 b2 b3 b4 b5 b6 b7].
  destruct b0, b1, b2, b3, b4, b5, b6, b7; vm_compute; reflexivity.
Qed.

(* ---- _checksum ------------------------------------------------------------------------------- *)
Lemma fold_res_step (f : Z -> list ascii -> res Z) s a :
  (forall a c, f a [c] = Ok (step a c)) -> fold_res f s a = Ok (fold_left step s a).
Proof.
  intros Hf. revert a. induction s as [|c s IH]; intros a; cbn [fold_res fold_left]; [reflexivity|].
  rewrite Hf. cbn [bindr]. apply IH.
Qed.

(* decided character by character (256 cases), so that any equivalent way of writing the loop body passes *)
Ltac step_tac :=
  let a := fresh "a" in let c := fresh "c" in
  intros a c; destruct c as [b0 b1 b2 b3 b4 b5 b6 b7];
  destruct b0, b1, b2, b3, b4, b5, b6, b7; cbv -[Z.add]; first [reflexivity | f_equal; lia].

Lemma gen_line (f : Z -> list ascii -> res Z) l (K : res unit) :
  (forall a c, f a [c] = Ok (step a c)) ->
  outcome_of (bindr (fold_res f (py_slice None (Some (-1)) l) 0) (fun chk =>
              bindr (py_index l (-1)) (fun t =>
              bindr (M_PyStr.py_int t) (fun d =>
              if negb (chk mod 10 =? d) then Err EChecksum else K))))
  = match check_line l with Accept => outcome_of K | o => o end.
Proof.
  intros Hf. rewrite (fold_res_step f _ _ Hf). cbn [bindr]. unfold check_line.
  destruct (rev l) as [|last rbody] eqn:E.
  - apply (f_equal (@rev ascii)) in E. rewrite rev_involutive in E. subst l. cbn [rev].
    rewrite py_index_nil. reflexivity.
  - apply (f_equal (@rev ascii)) in E. rewrite rev_involutive in E. subst l. cbn [rev].
    rewrite py_index_snoc, py_slice_init. cbn [bindr]. unfold M_PyStr.py_int. rewrite py_int_char.
    destruct (is_digit last); [|reflexivity]. cbn [of_opt bindr]. unfold cksum.
    destruct (fold_left step (rev rbody) 0 mod 10 =? digit_val last); reflexivity.
Qed.

Theorem gen_checksum_correct plat l1 l2 : outcome_of (gen_checksum plat l1 l2) = check_tle l1 l2.
Proof.
  unfold gen_checksum, check_tle. cbv zeta.
  match goal with |- context [fold_res ?f _ _] => rewrite (gen_line f l1) by step_tac end.
  destruct (check_line l1); try reflexivity.
  match goal with |- context [fold_res ?f _ _] => rewrite (gen_line f l2) by step_tac end.
  destruct (check_line l2); reflexivity.
Qed.

Lemma gen_checksum_accept plat l1 l2 : check_tle l1 l2 = Accept -> gen_checksum plat l1 l2 = Ok tt.
Proof.
  intros H. rewrite <- (gen_checksum_correct plat) in H.
  destruct (gen_checksum plat l1 l2) as [[]|[]]; [reflexivity|discriminate H..].
Qed.

Lemma gen_checksum_reject plat l1 l2 : check_tle l1 l2 <> Accept -> exists e, gen_checksum plat l1 l2 = Err e.
Proof.
  intros H. rewrite <- (gen_checksum_correct plat) in H.
  destruct (gen_checksum plat l1 l2) as [[]|e]; [exfalso; apply H; reflexivity|exists e; reflexivity].
Qed.

(* ---- _read_tle_decimal ------------------------------------------------------------------------- *)
Lemma py_slice_neg2_tail (l : list ascii) : py_slice (Some (-2)) None l = skipn (length l - 2) l.
Proof.
  unfold py_slice. change (-2) with (- Z.of_nat 2). rewrite norm_idx_neg by lia.
  apply firstn_ge. rewrite skipn_length. lia.
Qed.

Lemma py_slice_neg2_init (l : list ascii) : py_slice None (Some (-2)) l = firstn (length l - 2) l.
Proof.
  unfold py_slice. change (-2) with (- Z.of_nat 2). rewrite norm_idx_neg by lia.
  cbn [skipn]. rewrite Nat.sub_0_r. reflexivity.
Qed.

Lemma py_slice_1_neg2 (l : list ascii) : l <> [] -> py_slice (Some 1) (Some (-2)) l = firstn (length l - 2 - 1) (skipn 1 l).
Proof.
  intros H. unfold py_slice. change (-2) with (- Z.of_nat 2). rewrite norm_idx_neg by lia.
  rewrite norm_idx_nonneg by lia. destruct l as [|c r]; [contradiction|]. cbn [length].
  replace (Nat.min (S (length r)) (Z.to_nat 1)) with 1%nat by (change (Z.to_nat 1) with 1%nat; lia).
  reflexivity.
Qed.

(* rep[0] on an empty field is an IndexError, everything else that fails is float()'s ValueError *)
Definition rtd_exn (rep : list ascii) : exn := match rep with [] => EIndex | _ => EValue end.
Theorem gen_read_tle_decimal_correct rep : gen_read_tle_decimal rep = of_opt (rtd_exn rep) (read_tle_decimal rep).
Proof.
  unfold gen_read_tle_decimal, read_tle_decimal.
  destruct rep as [|c0 r]; [rewrite py_index_nil; reflexivity|].
  change 0 with (Z.of_nat 0). rewrite py_index_nat. cbn [nth_error bindr]. cbv zeta.
  rewrite py_slice_neg2_tail, py_slice_neg2_init, py_slice_1_neg2 by discriminate.
  unfold str_in. rewrite !str_eqb_char. rewrite orb_false_r, orb_assoc. unfold py_strip, M_PyStr.py_float.
  destruct (Ascii.eqb c0 "-" || Ascii.eqb c0 " " || Ascii.eqb c0 "+")%bool.
  - rewrite <- !app_assoc. cbn [app].
    match goal with |- context [M_TleText.py_float ?s] => destruct (M_TleText.py_float s) end; reflexivity.
  - rewrite <- !app_assoc. cbn [app].
    match goal with |- context [M_TleText.py_float ?s] => destruct (M_TleText.py_float s) end; reflexivity.
Qed.

(* ---- _read_tle --------------------------------------------------------------------------------- *)
Theorem gen_read_tle_correct plat l1 l2 : to_option (gen_read_tle plat l1 l2) = read_tle l1 l2.
Proof.
  unfold gen_read_tle, read_tle, py_split2_nl, py_strip. cbv zeta. rewrite <- app_assoc. cbn [app].
  fold nl. destruct (split_nl (strip l1 ++ nl :: strip l2)) as [|a [|b [|c t]]]; reflexivity.
Qed.

(* ---- _parse_tle -------------------------------------------------------------------------------- *)
Ltac crush :=
  unfold bindr, of_opt, to_option, catch_value, bind;
  repeat (cbv beta iota;
          match goal with
          | |- ?a = ?a => reflexivity
          | |- context [match ?x with _ => _ end] =>
              lazymatch x with
              | context [match _ with _ => _ end] => fail
              | _ => destruct x eqn:?
              end
          end);
  try reflexivity.

Theorem gen_parse_correct plat l1 l2 : to_option (gen_parse plat l1 l2) = decode l1 l2.
Proof.
  unfold gen_parse, decode. cbv zeta.
  rewrite !py_slice_pos by lia.
  change 7 with (Z.of_nat 7). change 62 with (Z.of_nat 62). rewrite !py_index_nat.
  rewrite !gen_read_tle_decimal_correct.
  unfold M_PyStr.py_float, M_PyStr.py_int, py_epoch, index, dec_scale, ecc_of_int.
  repeat match goal with |- context [Z.to_nat ?k] => let v := eval vm_compute in (Z.to_nat k) in change (Z.to_nat k) with v end.
  crush.
Qed.

(* ---- Tle.__init__ ------------------------------------------------------------------------------ *)
Theorem gen_tle_init_correct plat l1 l2 : to_option (gen_tle_init plat l1 l2) = tle_init l1 l2.
Proof.
  unfold gen_tle_init, tle_init.
  pose proof (gen_read_tle_correct plat l1 l2) as Hr.
  destruct (gen_read_tle plat l1 l2) as [[a b]|e]; cbn [to_option] in Hr; rewrite <- Hr; cbn [bindr bind fst snd]; [|reflexivity].
  destruct (check_tle a b) eqn:Hc.
  - rewrite (gen_checksum_accept plat a b Hc). cbn [bindr].
    pose proof (gen_parse_correct plat a b) as Hp.
    destruct (gen_parse plat a b) as [el|e']; cbn [to_option] in Hp; rewrite <- Hp; reflexivity.
  - destruct (gen_checksum_reject plat a b) as [e' He']; [rewrite Hc; discriminate|]. rewrite He'. reflexivity.
  - destruct (gen_checksum_reject plat a b) as [e' He']; [rewrite Hc; discriminate|]. rewrite He'. reflexivity.
  - destruct (gen_checksum_reject plat a b) as [e' He']; [rewrite Hc; discriminate|]. rewrite He'. reflexivity.
Qed.

(* the order of the calls that end the constructor *)
Module InitOrder.
  Import String.
  Lemma gen_init_order : gen_init_calls = List.map list_ascii_of_string ["_read_tle"%string; "_checksum"%string; "_parse_tle"%string].
  Proof. reflexivity. Qed.
End InitOrder.

(* ---- corollaries: the theorems of C02 / C09 restated on the regenerated definitions ----------- *)
From PyOrb.proofs Require Import P_Checksum P_TleText.

Lemma to_option_some {A} (r : res A) v : to_option r = Some v -> r = Ok v.
Proof. destruct r; cbn [to_option]; intros H; [injection H as ->; reflexivity|discriminate H]. Qed.

Theorem gen_parse_encode plat f : wf f = true ->
  gen_parse plat (fst (encode f)) (snd (encode f)) = Ok (values f).
Proof. intros H. apply to_option_some. rewrite gen_parse_correct. apply decode_encode. exact H. Qed.

Theorem gen_tle_init_encode plat f pre1 post1 pre2 post2 : wf f = true ->
  allspace pre1 = true -> allspace post1 = true -> allspace pre2 = true -> allspace post2 = true ->
  gen_tle_init plat (pre1 ++ fst (encode f) ++ post1) (pre2 ++ snd (encode f) ++ post2)
  = Ok (fst (encode f), snd (encode f), values f).
Proof. intros. apply to_option_some. rewrite gen_tle_init_correct. apply tle_init_encode; assumption. Qed.

Theorem gen_checksum_ok_iff plat l1 l2 :
  gen_checksum plat l1 l2 = Ok tt <-> check_line l1 = Accept /\ check_line l2 = Accept.
Proof.
  rewrite <- check_tle_accept. split.
  - intros H. rewrite <- (gen_checksum_correct plat), H. reflexivity.
  - apply gen_checksum_accept.
Qed.

(* elements exist only behind two accepted lines, and the lines stored are the ones that were checked *)
Theorem gen_init_only_after_accept plat l1 l2 a b e :
  gen_tle_init plat l1 l2 = Ok (a, b, e) ->
  check_line a = Accept /\ check_line b = Accept /\ gen_read_tle plat l1 l2 = Ok (a, b) /\ gen_parse plat a b = Ok e.
Proof.
  unfold gen_tle_init. destruct (gen_read_tle plat l1 l2) as [[a' b']|x]; cbn [bindr fst snd]; [|discriminate].
  destruct (gen_checksum plat a' b') as [[]|x] eqn:Hc; cbn [bindr]; [|discriminate].
  destruct (gen_parse plat a' b') as [e'|x] eqn:Hp; cbn [bindr]; [|discriminate].
  intros H. injection H as -> -> ->. apply gen_checksum_ok_iff in Hc. destruct Hc as [H1 H2].
  repeat split; try assumption; reflexivity.
Qed.
