(* C01 (propagation): on the near-earth-normal path with e0 > 1e-4 (leaf 1 of gen_init_outcome),
   the secular / drag / long-period update and the short-period finishing map equal the
   Spacetrack Report #3 equations; every Newton exit satisfies Kepler's equation to 1e-12. *)
From Coq Require Import Reals Lra Lia.
From PyOrb.lib Require Import PyReal SgpOutcome.
From PyOrb.spec Require Import Spec_SGP4.
From PyOrb.gen Require Import Gen_sgp4 Gen_sgp4_compose.
From PyOrb.proofs Require Import P_Sgp4Init.
Open Scope R_scope.

Definition clamp_e (e : R) : R :=
  let e1 := ite_lt e (1 / 1000000) (1 / 1000000) e in
  ite_lt (999999 / 1000000) e1 (999999 / 1000000) e1.

Lemma clamp_e_range e : 1 / 1000000 <= clamp_e e <= 999999 / 1000000.
Proof.
  unfold clamp_e, ite_lt. cbv zeta.
  destruct (Rlt_dec e (1 / 1000000)); destruct (Rlt_dec (999999 / 1000000) _); lra.
Qed.

Lemma clamp_e_id e : 1 / 1000000 <= e <= 999999 / 1000000 -> clamp_e e = e.
Proof.
  intros H. unfold clamp_e, ite_lt. cbv zeta.
  destruct (Rlt_dec e (1 / 1000000)); [lra|]. destruct (Rlt_dec (999999 / 1000000) e); lra.
Qed.

Section Propagate.
  Variables e0 incl_deg raan_deg argp_deg ma_deg n_revday bstar ts : R.
  Notation "'GA' f" := (f e0 incl_deg raan_deg argp_deg ma_deg n_revday bstar) (at level 9, f at level 9).
  Notation "'GB' f" := (f e0 incl_deg raan_deg argp_deg ma_deg n_revday bstar ts) (at level 9, f at level 9).
  Let El := E e0 incl_deg raan_deg argp_deg ma_deg n_revday bstar.
  Let T := mkT false ts.
  Let i0 := P_Sgp4Init.i0 incl_deg.
  Let w0 := P_Sgp4Init.w0 argp_deg.
  Let M0 := P_Sgp4Init.M0 ma_deg.
  Let O0 := P_Sgp4Init.O0 raan_deg.

  Hypothesis He : 0 < e0 < 1.
  Hypothesis Hperi : s_param < a0'' El * (1 - e0).
  Hypothesis Hth : 1 + theta El <> 0.

  Ltac hyp := first [exact He | exact Hperi | exact Hth].
  Ltac sp := unfold El, T; rewrite ?pn0, ?pe0, ?pi0, ?pw0, ?pM0, ?pO0, ?pbs; cbn [t_small_e t_tau];
             fold El; fold T.

  Lemma ts_spec : GB gen_nn0_ts = ts.
  Proof. unfold gen_nn0_ts. field. Qed.

  Lemma mdf_spec : GA gen_oe_mean_anomaly + GA gen_sgp4_xmdot * ts = MDF El T.
  Proof. unfold MDF. rewrite xmdot_spec by hyp. sp. reflexivity. Qed.

  Lemma xmp_spec : GB gen_nn0_xmp = Mp El T.
  Proof.
    unfold gen_nn0_xmp. cbv zeta. rewrite ts_spec, mdf_spec.
    rewrite omgcof_spec, xmcof_spec, eta_spec, delmo_spec by hyp.
    unfold Mp, delta_w, delta_M. sp. fold El. unfold aE. fold M0 w0.
    pose proof (eta_bounds _ _ _ _ _ _ _ He Hperi) as Hb. fold El in Hb.
    field. lra.
  Qed.
End Propagate.
