(* C01 (propagation): on the near-earth-normal path with e0 > 1e-4 (leaf 1 of gen_init_outcome),
   the secular / drag / long-period update and the short-period finishing map equal the
   Spacetrack Report #3 equations; every Newton exit satisfies Kepler's equation to 1e-12. *)
From Coq Require Import Reals Lra Lia.
From PyOrb.lib Require Import PyReal SgpOutcome.
From PyOrb.spec Require Import Spec_SGP4.
From PyOrb.gen Require Import Gen_sgp4 Gen_sgp4_compose.
From PyOrb.proofs Require Import P_Sgp4Init.
Open Scope R_scope.

Definition clamp_e (e : R) : R :=
  let e1 := ite_lt e (1 / 1000000) (1 / 1000000) e in
  ite_lt (999999 / 1000000) e1 (999999 / 1000000) e1.

Lemma clamp_e_range e : 1 / 1000000 <= clamp_e e <= 999999 / 1000000.
Proof.
  unfold clamp_e, ite_lt. cbv zeta.
  destruct (Rlt_dec e (1 / 1000000)); destruct (Rlt_dec (999999 / 1000000) _); lra.
Qed.

Lemma clamp_e_id e : 1 / 1000000 <= e <= 999999 / 1000000 -> clamp_e e = e.
Proof.
  intros H. unfold clamp_e, ite_lt. cbv zeta.
  destruct (Rlt_dec e (1 / 1000000)); [lra|]. destruct (Rlt_dec (999999 / 1000000) e); lra.
Qed.

Section Propagate.
  Variables e0 incl_deg raan_deg argp_deg ma_deg n_revday bstar ts : R.
  Notation "'GA' f" := (f e0 incl_deg raan_deg argp_deg ma_deg n_revday bstar) (at level 9, f at level 9).
  Notation "'GB' f" := (f e0 incl_deg raan_deg argp_deg ma_deg n_revday bstar ts) (at level 9, f at level 9).
  Let El := E e0 incl_deg raan_deg argp_deg ma_deg n_revday bstar.
  Let T := mkT false ts.
  Let i0 := P_Sgp4Init.i0 incl_deg.
  Let w0 := P_Sgp4Init.w0 argp_deg.
  Let M0 := P_Sgp4Init.M0 ma_deg.
  Let O0 := P_Sgp4Init.O0 raan_deg.

  Hypothesis He : 0 < e0 < 1.
  Hypothesis Hperi : s_param < a0'' El * (1 - e0).
  Hypothesis Hth : 1 + theta El <> 0.

  Ltac hyp := first [exact He | exact Hperi | exact Hth].
  Ltac sp := unfold El, T; rewrite ?pn0, ?pe0, ?pi0, ?pw0, ?pM0, ?pO0, ?pbs; cbn [t_small_e t_tau];
             fold El; fold T;
             change (GA gen_oe_arg_perigee) with w0; change (GA gen_oe_mean_anomaly) with M0;
             change (GA gen_oe_right_ascension) with O0; change (GA gen_oe_inclination) with i0;
             change (P_Sgp4Init.w0 argp_deg) with w0; change (P_Sgp4Init.M0 ma_deg) with M0;
             change (P_Sgp4Init.O0 raan_deg) with O0; change (P_Sgp4Init.i0 incl_deg) with i0.

  Lemma ts_spec : GB gen_nn0_ts = ts.
  Proof. unfold gen_nn0_ts. cbv zeta. field. Qed.

  (* the secular mean anomaly is not a named quantity of the code: it is recognised inside cos / sin after both
     sides' arguments are brought to ring normal form ([norm_args]) *)

  Lemma xmp_spec : GB gen_nn0_xmp = Mp El T.
  Proof.
    unfold gen_nn0_xmp. cbv zeta. rewrite ts_spec.
    rewrite xmdot_spec, omgcof_spec, xmcof_spec, eta_spec, delmo_spec by hyp.
    unfold Mp, delta_w, delta_M, MDF. sp. fold El. unfold aE. fold M0 w0.
    pose proof (eta_bounds _ _ _ _ _ _ _ He Hperi) as Hb. fold El in Hb.
    norm_args. field. lra.
  Qed.

  Lemma omega_spec : GB gen_nn0_omega = w El T.
  Proof.
    unfold gen_nn0_omega. cbv zeta. rewrite ts_spec.
    rewrite xmdot_spec, omgcof_spec, xmcof_spec, eta_spec, delmo_spec, omgdot_spec by hyp.
    unfold w, wDF, delta_w, delta_M, MDF. sp. unfold aE.
    pose proof (eta_bounds _ _ _ _ _ _ _ He Hperi) as Hb. fold El in Hb.
    norm_args. field. lra.
  Qed.

  Lemma xnode_spec : GB gen_nn0_xnode = Om El T.
  Proof.
    unfold gen_nn0_xnode. rewrite ts_spec. rewrite xnodot_spec, xnodcf_spec by hyp.
    unfold Om, ODF. sp. fold O0. unfold gen_oe_right_ascension. fold O0.
    replace (P_Sgp4Init.O0 raan_deg) with O0 by reflexivity. ring.
  Qed.

  Lemma e_unclamped_spec : GB gen_nn0_guard0 = e_unclamped El T.
  Proof.
    unfold gen_nn0_guard0, gen_nn0_tempe. rewrite ts_spec, xmp_spec. rewrite c4_spec, c5_spec by hyp.
    unfold e_unclamped, gen_sgp4_sinXMO. sp. fold M0.
    replace (sin (GA gen_oe_mean_anomaly)) with (sin M0) by reflexivity. norm_args. ring.
  Qed.

  Lemma a_spec : GB gen_nn0_a = a El T.
  Proof.
    unfold gen_nn0_a. rewrite ts_spec. rewrite aodp_spec, c1_spec, d2_spec, d3_spec, d4_spec by hyp.
    unfold a. sp. ring.
  Qed.

  Lemma IL_spec :
    GB gen_nn0_xmp + GB gen_nn0_omega + GB gen_nn0_xnode + GA gen_sgp4_xnodp * GB gen_nn0_templ = IL El T.
  Proof.
    rewrite xmp_spec, omega_spec, xnode_spec. unfold gen_nn0_templ. rewrite ts_spec.
    rewrite xnodp_spec, t2cof_spec, t3cof_spec, t4cof_spec, t5cof_spec by hyp.
    unfold IL. sp. ring.
  Qed.

  (* the (clamped) eccentricity the long-period terms use *)
  Definition ecl := clamp_e (e_unclamped El T).

  Lemma axn_spec : GB gen_nn0_axn = axN El T ecl.
  Proof.
    unfold gen_nn0_axn. cbv zeta. fold (GB gen_nn0_guard0). rewrite omega_spec, e_unclamped_spec.
    unfold axN. fold (clamp_e (e_unclamped El T)). fold ecl. eq_mod_ring.
  Qed.

  Lemma ecl_sq : 0 < 1 - ecl ^ 2.
  Proof. pose proof (clamp_e_range (e_unclamped El T)) as R. fold ecl in R. nra. Qed.

  Lemma a_pos_of_guard : 1 <= a El T -> 0 < a El T.
  Proof. lra. Qed.

  Lemma ayn_spec : a El T <> 0 -> GB gen_nn0_ayn = ayN El T ecl.
  Proof.
    intros Ha. unfold gen_nn0_ayn. cbv zeta. fold (GB gen_nn0_guard0).
    rewrite omega_spec, e_unclamped_spec, a_spec. rewrite aycof_spec by hyp.
    fold (clamp_e (e_unclamped El T)). fold ecl.
    unfold ayN, ayNL, beta. sp. fold i0.
    replace (sin (P_Sgp4Init.i0 incl_deg)) with (sin i0) by reflexivity.
    pose proof ecl_sq as Q. rewrite pow2_sqrt by lra.
    unfold k2, A30. field. split; [lra|exact Ha].
  Qed.

  Lemma xlt_spec : a El T <> 0 -> GB gen_nn1_xlt = ILT El T ecl.
  Proof.
    intros Ha. unfold gen_nn1_xlt. cbv zeta.
    rewrite xmp_spec, omega_spec, xnode_spec, axn_spec, e_unclamped_spec, a_spec. unfold gen_nn0_templ. rewrite ts_spec.
    rewrite xnodp_spec, t2cof_spec, t3cof_spec, t4cof_spec, t5cof_spec by hyp.
    fold (clamp_e (e_unclamped El T)). fold ecl.
    rewrite xlcof_spec by hyp.
    unfold ILT, IL, ILL, axN, beta. sp. fold i0.
    replace (sin (P_Sgp4Init.i0 incl_deg)) with (sin i0) by reflexivity.
    pose proof ecl_sq as Q. rewrite pow2_sqrt by lra.
    unfold k2, A30. field. split; [exact Hth|]. split; [lra|exact Ha].
  Qed.

  Lemma elsq_spec : a El T <> 0 -> GB gen_nn0_elsq = eL2 El T ecl.
  Proof. intros Ha. unfold gen_nn0_elsq, eL2. rewrite axn_spec, ayn_spec by exact Ha. ring. Qed.

  Lemma pl_spec : a El T <> 0 -> GB gen_nn0_pl = pL El T ecl.
  Proof. intros Ha. unfold gen_nn0_pl, pL. rewrite a_spec, elsq_spec by exact Ha. eq_mod_ring. Qed.

  Lemma betal_spec : a El T <> 0 -> GB gen_nn0_betal = sqrt (1 - eL2 El T ecl).
  Proof. intros Ha. unfold gen_nn0_betal. rewrite elsq_spec by exact Ha. eq_mod_ring. Qed.

  (* ---------- the short-period finishing map, for any value Ew of E + omega ---------- *)
  Variable Ew : R.
  Notation "'GC' f" := (f e0 incl_deg raan_deg argp_deg ma_deg n_revday bstar ts Ew) (at level 9, f at level 9).
  Hypothesis Ha : 0 < a El T.
  Hypothesis HeL : eL2 El T ecl < 1.

  Lemma Ha' : a El T <> 0.
  Proof. lra. Qed.

  Lemma fin_ecosE_spec : GC gen_nn0_fin_ecosE = ecosE El T ecl Ew.
  Proof.
    unfold gen_nn0_fin_ecosE, gen_nn0_fin_cosEPW, gen_nn0_fin_sinEPW, ecosE.
    rewrite axn_spec, (ayn_spec Ha'). eq_mod_ring.
  Qed.

  Lemma fin_esinE_spec : GC gen_nn0_fin_esinE = esinE El T ecl Ew.
  Proof.
    unfold gen_nn0_fin_esinE, gen_nn0_fin_cosEPW, gen_nn0_fin_sinEPW, esinE.
    rewrite axn_spec, (ayn_spec Ha'). eq_mod_ring.
  Qed.

  Lemma fin_r_spec : GC gen_nn0_fin_r = r El T ecl Ew.
  Proof. unfold gen_nn0_fin_r, r. rewrite a_spec, fin_ecosE_spec. eq_mod_ring. Qed.

  Lemma ecosE_lt_1 : ecosE El T ecl Ew < 1.
  Proof.
    unfold ecosE. set (x := axN El T ecl) in *. set (y := ayN El T ecl) in *.
    assert (H : eL2 El T ecl = x ^ 2 + y ^ 2) by reflexivity. rewrite H in HeL.
    pose proof (sin2_cos2 Ew) as SC. unfold Rsqr in SC.
    set (c := cos Ew) in *. set (s := sin Ew) in *.
    assert (Q : (x * c + y * s) ^ 2 <= x ^ 2 + y ^ 2).
    { assert (E2 : (x ^ 2 + y ^ 2) * (s * s + c * c) - (x * c + y * s) ^ 2 = (x * s - y * c) ^ 2) by ring.
      rewrite SC in E2. pose proof (pow2_ge_0 (x * s - y * c)). lra. }
    destruct (Rlt_dec (x * c + y * s) 1) as [L|L]; [exact L|]. exfalso.
    assert (1 <= (x * c + y * s) ^ 2) by nra. lra.
  Qed.

  Lemma r_pos : 0 < r El T ecl Ew.
  Proof. unfold r. pose proof ecosE_lt_1. apply Rmult_lt_0_compat; lra. Qed.

  Lemma pL_pos : 0 < pL El T ecl.
  Proof. unfold pL. apply Rmult_lt_0_compat; lra. Qed.

  Lemma fin_invR_spec : GC gen_nn0_fin_invR = 1 / r El T ecl Ew.
  Proof. unfold gen_nn0_fin_invR. rewrite fin_r_spec. eq_mod_ring. Qed.

  (* cos u, sin u are not named by the code: the three quantities built from them are compared with the report's
     directly, modulo field, after the named pieces have been rewritten *)
  Ltac fin_names :=
    cbv zeta; rewrite ?a_spec, ?fin_invR_spec, ?axn_spec, ?(ayn_spec Ha'), ?fin_esinE_spec, ?(betal_spec Ha');
    unfold gen_nn0_fin_sinEPW, gen_nn0_fin_cosEPW.
  Ltac fin_side := pose proof r_pos; assert (0 <= sqrt (1 - eL2 El T ecl)) by apply sqrt_pos.

  Lemma fin_u_spec : GC gen_nn0_fin_u = atan2 (sinu El T ecl Ew) (cosu El T ecl Ew).
  Proof.
    unfold gen_nn0_fin_u. fin_names. fin_side.
    f_equal; [unfold sinu | unfold cosu]; field; split; lra.
  Qed.

  Lemma fin_sin2u_spec : GC gen_nn0_fin_sin2u = sin2u El T ecl Ew.
  Proof. unfold gen_nn0_fin_sin2u. fin_names. fin_side. unfold sin2u, sinu, cosu. field. split; lra. Qed.

  Lemma fin_cos2u_spec : GC gen_nn0_fin_cos2u = cos2u El T ecl Ew.
  Proof. unfold gen_nn0_fin_cos2u. fin_names. fin_side. unfold cos2u, cosu. field. split; lra. Qed.

  Ltac fin_norm :=
    cbv zeta; rewrite ?fin_r_spec, ?fin_cos2u_spec, ?fin_sin2u_spec, ?fin_u_spec, ?fin_esinE_spec, ?fin_invR_spec,
                      ?(pl_spec Ha'), ?(betal_spec Ha'), ?a_spec, ?xnode_spec;
    unfold gen_sgp4_x3thm1, gen_sgp4_x1mth2, gen_sgp4_x7thm1, gen_sgp4_sinIO; rewrite ?cosIO_spec; fold El.

  Lemma fin_rk_spec : GC gen_nn0_fin_rk = rk El T ecl Ew.
  Proof.
    unfold gen_nn0_fin_rk. fin_norm. unfold rk, k2. pose proof pL_pos.
    field. lra.
  Qed.

  Lemma fin_uk_spec : GC gen_nn0_fin_uk = uk El T ecl Ew (atan2 (sinu El T ecl Ew) (cosu El T ecl Ew)).
  Proof.
    unfold gen_nn0_fin_uk. fin_norm. unfold uk, k2. pose proof pL_pos.
    field. lra.
  Qed.

  Lemma fin_xnodek_spec : GC gen_nn0_fin_xnodek = Ok El T ecl Ew.
  Proof.
    unfold gen_nn0_fin_xnodek. fin_norm. unfold Ok, k2. pose proof pL_pos.
    field. lra.
  Qed.

  Lemma fin_xinc_spec : GC gen_nn0_fin_xinc = ik El T ecl Ew.
  Proof.
    unfold gen_nn0_fin_xinc. fin_norm. unfold ik, k2. sp. pose proof pL_pos.
    field. lra.
  Qed.

  (* velocities carry the unit factor XKMPER/aE * XMNPDA/86400 = 106.30225 (km/s per er/min) *)
  Lemma fin_rdotk_spec : GC gen_nn0_fin_rdotk = rdotk El T ecl Ew * (XKMPER / aE * min_per_day / 86400).
  Proof.
    unfold gen_nn0_fin_rdotk. fin_norm. unfold rdotk, rdot, n, ke, k2, XKMPER, aE, min_per_day.
    pose proof pL_pos. pose proof r_pos. assert (0 < sqrt (a El T)) by (apply sqrt_lt_R0; exact Ha).
    field. repeat split; lra.
  Qed.

  Lemma fin_rfdotk_spec : GC gen_nn0_fin_rfdotk = rfdotk El T ecl Ew * (XKMPER / aE * min_per_day / 86400).
  Proof.
    unfold gen_nn0_fin_rfdotk. fin_norm. unfold rfdotk, rfdot, n, ke, k2, XKMPER, aE, min_per_day.
    pose proof pL_pos. pose proof r_pos. assert (0 < sqrt (a El T)) by (apply sqrt_lt_R0; exact Ha).
    field. repeat split; lra.
  Qed.
End Propagate.
