(* C04 round trip: on every exit path of the geodetic-latitude iteration, converting
   (lon, lat, alt) back with the WGS-84 formulas reproduces (A/XKMPER) * position up to 2e-12 * A. *)
From Coq Require Import Reals Lra Lia.
From Coquelicot Require Import Coquelicot.
From Interval Require Import Tactic.
From PyOrb.lib Require Import PyReal Atan2Lib.
From PyOrb.spec Require Import Spec_Geodesy.
From PyOrb.gen Require Import Gen_astronomy Gen_orbital.
From PyOrb.proofs Require Import P_Geodesy.
Open Scope R_scope.

Definition dNc (p : R) : R := wgs84_e2 * sin p * cos p * (Nc p)^3.
Definition NcSin (p : R) : R := Nc p * sin p.
Definition dNcSin (p : R) : R := dNc p * sin p + Nc p * cos p.

Lemma Nc_is_derive (p : R) : is_derive Nc p (dNc p).
Proof.
  unfold dNc, Nc.
  pose proof (Nc_den_pos p) as Hd. pose proof (sqrt_Nc_den_pos p) as Hs.
  assert (Eq : 1 + - (wgs84_e2 * (sin p * (sin p * 1))) = 1 - wgs84_e2 * sin p ^ 2) by ring.
  auto_derive.
  - rewrite Eq. split; [exact Hd|]. split; [apply Rgt_not_eq; exact Hs|exact I].
  - replace (1 + - (wgs84_e2 * (sin p * (sin p * 1)))) with (1 - wgs84_e2 * sin p ^ 2) by ring.
    set (s := sqrt (1 - wgs84_e2 * sin p ^ 2)) in *.
    field. lra.
Qed.

Lemma NcSin_is_derive (p : R) : is_derive NcSin p (dNcSin p).
Proof.
  unfold NcSin, dNcSin.
  pose proof (Nc_is_derive p) as H.
  auto_derive.
  - exists (dNc p). exact H.
  - change (fun x : R => Nc x) with Nc. rewrite (is_derive_unique _ _ _ H). ring.
Qed.

Lemma dNc_bound c : Rabs (dNc c) <= 7 / 1000.
Proof.
  unfold dNc, Nc, wgs84_e2, wgs84_F. interval.
Qed.

Lemma dNcSin_bound c : Rabs (dNcSin c) <= 1011 / 1000.
Proof.
  unfold dNcSin, dNc, Nc, wgs84_e2, wgs84_F. interval.
Qed.

Lemma lipschitz (f df : R -> R) K :
  (forall x, is_derive f x (df x)) -> (forall x, Rabs (df x) <= K) ->
  forall a b, Rabs (f b - f a) <= K * Rabs (b - a).
Proof.
  intros Hd Hb a b.
  destruct (MVT_gen f a b df) as [c [_ Hc]].
  - intros x _. apply Hd.
  - intros x _. apply derivable_continuous_pt. apply ex_derive_Reals_0.
    exists (df x). apply Hd.
  - rewrite Hc, Rabs_mult. apply Rmult_le_compat_r; [apply Rabs_pos|apply Hb].
Qed.

Lemma Nc_lipschitz a b : Rabs (Nc b - Nc a) <= 7 / 1000 * Rabs (b - a).
Proof. apply (lipschitz Nc dNc); [apply Nc_is_derive|apply dNc_bound]. Qed.
Lemma NcSin_lipschitz a b : Rabs (NcSin b - NcSin a) <= 1011 / 1000 * Rabs (b - a).
Proof. apply (lipschitz NcSin dNcSin); [apply NcSin_is_derive|apply dNcSin_bound]. Qed.

(* one step of the iteration and the epilogue, as the code writes them (normalised units) *)
Definition lat_step (r uz lat2 : R) : R := atan2 (uz + Nc lat2 * wgs84_e2 * sin lat2) r.
Definition alt_of (r lat lat2 : R) : R := (r / cos lat - Nc lat2) * wgs84_A.

Section OneExit.
  Variables r uz lat2 : R.
  Hypothesis Hr : 0 < r.
  Let lat := lat_step r uz lat2.
  Let alt := alt_of r lat lat2.

  Lemma cos_lat_pos : 0 < cos lat.
  Proof. apply cos_atan2_pos_x, Hr. Qed.

  Lemma rho_identity :
    geodetic_rho wgs84_A lat alt = wgs84_A * (r + (Nc lat - Nc lat2) * cos lat).
  Proof.
    unfold geodetic_rho, alt, alt_of. field. apply Rgt_not_eq, cos_lat_pos.
  Qed.

  Lemma z_identity :
    geodetic_z wgs84_A lat alt =
    wgs84_A * (uz + wgs84_e2 * (NcSin lat2 - NcSin lat) + (Nc lat - Nc lat2) * sin lat).
  Proof.
    pose proof cos_lat_pos as Hc.
    assert (Ht : sin lat = (uz + Nc lat2 * wgs84_e2 * sin lat2) / r * cos lat).
    { pose proof (tan_atan2_pos_x (uz + Nc lat2 * wgs84_e2 * sin lat2) r Hr) as T.
      fold (lat_step r uz lat2) in T. fold lat in T. unfold tan in T.
      rewrite <- T. field. apply Rgt_not_eq, Hc. }
    unfold geodetic_z, alt, alt_of, NcSin.
    replace ((wgs84_A * Nc lat * (1 - wgs84_e2) + (r / cos lat - Nc lat2) * wgs84_A) * sin lat)
      with (wgs84_A * (Nc lat * (1 - wgs84_e2) * sin lat - Nc lat2 * sin lat + r * (sin lat / cos lat)))
      by (field; apply Rgt_not_eq, Hc).
    replace (sin lat / cos lat) with ((uz + Nc lat2 * wgs84_e2 * sin lat2) / r).
    2:{ rewrite Ht at 1. field. split; apply Rgt_not_eq; assumption. }
    field. apply Rgt_not_eq, Hr.
  Qed.

  Hypothesis Hexit : Rabs (lat - lat2) < 1 / 10000000000.

  Lemma rho_close : Rabs (geodetic_rho wgs84_A lat alt - wgs84_A * r) <= wgs84_A * (1 / 1000000000000).
  Proof.
    rewrite rho_identity.
    replace (wgs84_A * (r + (Nc lat - Nc lat2) * cos lat) - wgs84_A * r)
      with (wgs84_A * ((Nc lat - Nc lat2) * cos lat)) by ring.
    assert (HA : 0 < wgs84_A) by (unfold wgs84_A; lra).
    rewrite Rabs_mult, (Rabs_pos_eq wgs84_A) by lra.
    apply Rmult_le_compat_l; [lra|].
    rewrite Rabs_mult.
    pose proof (Nc_lipschitz lat2 lat) as L. pose proof (COS_bound lat) as C.
    assert (Rabs (cos lat) <= 1) by (apply Rabs_le; lra).
    pose proof (Rabs_pos (Nc lat - Nc lat2)). pose proof (Rabs_pos (cos lat)).
    nra.
  Qed.

  Lemma z_close : Rabs (geodetic_z wgs84_A lat alt - wgs84_A * uz) <= wgs84_A * (2 / 1000000000000).
  Proof.
    rewrite z_identity.
    replace (wgs84_A * (uz + wgs84_e2 * (NcSin lat2 - NcSin lat) + (Nc lat - Nc lat2) * sin lat) - wgs84_A * uz)
      with (wgs84_A * (wgs84_e2 * (NcSin lat2 - NcSin lat) + (Nc lat - Nc lat2) * sin lat)) by ring.
    assert (HA : 0 < wgs84_A) by (unfold wgs84_A; lra).
    rewrite Rabs_mult, (Rabs_pos_eq wgs84_A) by lra.
    apply Rmult_le_compat_l; [lra|].
    eapply Rle_trans; [apply Rabs_triang|].
    rewrite !Rabs_mult.
    pose proof (Nc_lipschitz lat2 lat) as L1. pose proof (NcSin_lipschitz lat lat2) as L2.
    rewrite (Rabs_minus_sym lat2 lat) in L2.
    pose proof (SIN_bound lat) as S.
    assert (Rabs (sin lat) <= 1) by (apply Rabs_le; lra).
    pose proof e2_bounds as E. rewrite (Rabs_pos_eq wgs84_e2) by lra.
    pose proof (Rabs_pos (Nc lat - Nc lat2)). pose proof (Rabs_pos (sin lat)).
    pose proof (Rabs_pos (NcSin lat2 - NcSin lat)).
    nra.
  Qed.
End OneExit.

(* ---------- tie to the generated paths ---------- *)
Definition rr (x y : R) : R := sqrt ((x / (1275627 / 200)) ^ 2 + (y / (1275627 / 200)) ^ 2).

Lemma rr_scaled x y : rr x y = sqrt (x * x + y * y) / XKMPER.
Proof.
  unfold rr, XKMPER.
  replace ((x / (1275627 / 200)) ^ 2 + (y / (1275627 / 200)) ^ 2)
    with ((x * x + y * y) * ((200 / 1275627) * (200 / 1275627))) by field.
  rewrite sqrt_mult_alt by nra.
  rewrite sqrt_square by lra. field.
Qed.

Lemma rr_pos x y : 0 < x * x + y * y -> 0 < rr x y.
Proof.
  intros H. rewrite rr_scaled. apply Rdiv_lt_0_compat; [apply sqrt_lt_R0; exact H|unfold XKMPER; lra].
Qed.

Ltac it_step_tac a b :=
  unfold a, lat_step, Nc, rr; cbv zeta; rewrite e2_const'; sq_norm; reflexivity.

Lemma it_step_1 x y z d : gen_lla_lat_it1 x y z d = lat_step (rr x y) (z / (1275627 / 200)) (gen_lla_lat_it0 x y z d).
Proof. it_step_tac gen_lla_lat_it1 gen_lla_lat_it0. Qed.
Lemma it_step_2 x y z d : gen_lla_lat_it2 x y z d = lat_step (rr x y) (z / (1275627 / 200)) (gen_lla_lat_it1 x y z d).
Proof. it_step_tac gen_lla_lat_it2 gen_lla_lat_it1. Qed.
Lemma it_step_3 x y z d : gen_lla_lat_it3 x y z d = lat_step (rr x y) (z / (1275627 / 200)) (gen_lla_lat_it2 x y z d).
Proof. it_step_tac gen_lla_lat_it3 gen_lla_lat_it2. Qed.
Lemma it_step_4 x y z d : gen_lla_lat_it4 x y z d = lat_step (rr x y) (z / (1275627 / 200)) (gen_lla_lat_it3 x y z d).
Proof. it_step_tac gen_lla_lat_it4 gen_lla_lat_it3. Qed.
Lemma it_step_5 x y z d : gen_lla_lat_it5 x y z d = lat_step (rr x y) (z / (1275627 / 200)) (gen_lla_lat_it4 x y z d).
Proof. it_step_tac gen_lla_lat_it5 gen_lla_lat_it4. Qed.
Lemma it_step_6 x y z d : gen_lla_lat_it6 x y z d = lat_step (rr x y) (z / (1275627 / 200)) (gen_lla_lat_it5 x y z d).
Proof. it_step_tac gen_lla_lat_it6 gen_lla_lat_it5. Qed.

Ltac alt_tac a :=
  unfold a, alt_of, Nc, rr, wgs84_A; cbv zeta; rewrite e2_const'; sq_norm; reflexivity.
Lemma alt_1 x y z d : gen_lla_alt_p1 x y z d = alt_of (rr x y) (gen_lla_lat_it1 x y z d) (gen_lla_lat_it0 x y z d).
Proof. alt_tac gen_lla_alt_p1. Qed.
Lemma alt_2 x y z d : gen_lla_alt_p2 x y z d = alt_of (rr x y) (gen_lla_lat_it2 x y z d) (gen_lla_lat_it1 x y z d).
Proof. alt_tac gen_lla_alt_p2. Qed.
Lemma alt_3 x y z d : gen_lla_alt_p3 x y z d = alt_of (rr x y) (gen_lla_lat_it3 x y z d) (gen_lla_lat_it2 x y z d).
Proof. alt_tac gen_lla_alt_p3. Qed.
Lemma alt_4 x y z d : gen_lla_alt_p4 x y z d = alt_of (rr x y) (gen_lla_lat_it4 x y z d) (gen_lla_lat_it3 x y z d).
Proof. alt_tac gen_lla_alt_p4. Qed.
Lemma alt_5 x y z d : gen_lla_alt_p5 x y z d = alt_of (rr x y) (gen_lla_lat_it5 x y z d) (gen_lla_lat_it4 x y z d).
Proof. alt_tac gen_lla_alt_p5. Qed.
Lemma alt_6 x y z d : gen_lla_alt_p6 x y z d = alt_of (rr x y) (gen_lla_lat_it6 x y z d) (gen_lla_lat_it5 x y z d).
Proof. alt_tac gen_lla_alt_p6. Qed.

(* longitude: Greenwich angle + longitude is the azimuth of the position, modulo 2*pi *)
Lemma lon_congr x y z d :
  exists k : Z, deg2rad (gen_lla_lon x y z d) = atan2 y x - gen_gmst d + 2 * IZR k * PI.
Proof.
  unfold gen_lla_lon. cbv zeta. rewrite deg2rad_rad2deg.
  replace (y / (1275627 / 200) * (1275627 / 200)) with y by field.
  replace (x / (1275627 / 200) * (1275627 / 200)) with x by field.
  match goal with |- context [pymod ?a ?m] => destruct (pymod_congr a m) as [k E]; rewrite E; clear E end.
  unfold ite_lt, ite_le.
  repeat match goal with |- context [Rlt_dec ?a ?b] => destruct (Rlt_dec a b) end;
  repeat match goal with |- context [Rle_dec ?a ?b] => destruct (Rle_dec a b) end.
  all: first [ exists k; ring | exists (k - 1)%Z; rewrite minus_IZR; ring
             | exists (k + 1)%Z; rewrite plus_IZR; ring ].
Qed.

Lemma lon_direction x y z d : 0 < x * x + y * y ->
  cos (gen_gmst d + deg2rad (gen_lla_lon x y z d)) = x / sqrt (x * x + y * y) /\
  sin (gen_gmst d + deg2rad (gen_lla_lon x y z d)) = y / sqrt (x * x + y * y).
Proof.
  intros H. destruct (lon_congr x y z d) as [k E]. rewrite E.
  replace (gen_gmst d + (atan2 y x - gen_gmst d + 2 * IZR k * PI)) with (atan2 y x + 2 * IZR k * PI) by ring.
  rewrite cos_period_Z, sin_period_Z.
  assert (Hnz : x <> 0 \/ y <> 0).
  { destruct (Req_dec x 0) as [Hx|Hx]; [right|left; exact Hx]. intros Hy. subst. lra. }
  destruct (sin_cos_atan2 y x Hnz) as [S C]. split; assumption.
Qed.

Definition roundtrip_ok (x y z d lat_deg alt : R) : Prop :=
  let lam := deg2rad (gen_lla_lon x y z d) in
  let phi := deg2rad lat_deg in
  let s := wgs84_A / XKMPER in
  let tol := wgs84_A * (2 / 1000000000000) in
  Rabs (eci_x wgs84_A lam phi alt (gen_gmst d) - s * x) <= tol /\
  Rabs (eci_y wgs84_A lam phi alt (gen_gmst d) - s * y) <= tol /\
  Rabs (eci_z wgs84_A lam phi alt (gen_gmst d) - s * z) <= tol.

Lemma roundtrip_generic x y z d lat lat2 :
  0 < x * x + y * y ->
  lat = lat_step (rr x y) (z / (1275627 / 200)) lat2 ->
  Rabs (lat - lat2) < 1 / 10000000000 ->
  roundtrip_ok x y z d (rad2deg lat) (alt_of (rr x y) lat lat2).
Proof.
  intros Hxy El Hexit. unfold roundtrip_ok. cbv zeta. rewrite deg2rad_rad2deg.
  pose proof (rr_pos x y Hxy) as Hr.
  subst lat.
  pose proof (rho_close (rr x y) (z / (1275627 / 200)) lat2 Hr Hexit) as RC.
  pose proof (z_close (rr x y) (z / (1275627 / 200)) lat2 Hr Hexit) as ZC.
  destruct (lon_direction x y z d Hxy) as [C S].
  set (lat := lat_step (rr x y) (z / (1275627 / 200)) lat2) in *.
  set (alt := alt_of (rr x y) lat lat2) in *.
  set (R := sqrt (x * x + y * y)) in *.
  assert (HR : 0 < R) by (apply sqrt_lt_R0; exact Hxy).
  assert (HRR : R * R = x * x + y * y) by (apply sqrt_sqrt; lra).
  assert (EA : wgs84_A * rr x y = wgs84_A / XKMPER * R) by (rewrite rr_scaled; fold R; unfold XKMPER; field).
  rewrite EA in RC.
  assert (Hx1 : Rabs (x / R) <= 1).
  { apply Rabs_le. split.
    - apply Rmult_le_reg_r with R; [lra|]. unfold Rdiv. rewrite Rmult_assoc, Rinv_l by lra. nra.
    - apply Rmult_le_reg_r with R; [lra|]. unfold Rdiv. rewrite Rmult_assoc, Rinv_l by lra. nra. }
  assert (Hy1 : Rabs (y / R) <= 1).
  { apply Rabs_le. split.
    - apply Rmult_le_reg_r with R; [lra|]. unfold Rdiv. rewrite Rmult_assoc, Rinv_l by lra. nra.
    - apply Rmult_le_reg_r with R; [lra|]. unfold Rdiv. rewrite Rmult_assoc, Rinv_l by lra. nra. }
  assert (HA : 0 < wgs84_A) by (unfold wgs84_A; lra).
  split; [|split].
  - unfold eci_x. rewrite C.
    replace (geodetic_rho wgs84_A lat alt * (x / R) - wgs84_A / XKMPER * x)
      with ((geodetic_rho wgs84_A lat alt - wgs84_A / XKMPER * R) * (x / R)) by (unfold XKMPER; field; lra).
    rewrite Rabs_mult.
    pose proof (Rabs_pos (geodetic_rho wgs84_A lat alt - wgs84_A / XKMPER * R)).
    pose proof (Rabs_pos (x / R)). nra.
  - unfold eci_y. rewrite S.
    replace (geodetic_rho wgs84_A lat alt * (y / R) - wgs84_A / XKMPER * y)
      with ((geodetic_rho wgs84_A lat alt - wgs84_A / XKMPER * R) * (y / R)) by (unfold XKMPER; field; lra).
    rewrite Rabs_mult.
    pose proof (Rabs_pos (geodetic_rho wgs84_A lat alt - wgs84_A / XKMPER * R)).
    pose proof (Rabs_pos (y / R)). nra.
  - unfold eci_z.
    replace (wgs84_A / XKMPER * z) with (wgs84_A * (z / (1275627 / 200))) by (unfold XKMPER; field).
    exact ZC.
Qed.

Ltac path_tac itE altE :=
  intros Hxy Hexit;
  rewrite altE; rewrite itE at 1;
  first [ apply roundtrip_generic; [exact Hxy|reflexivity|] | idtac ].

Lemma roundtrip_p1 x y z d : 0 < x * x + y * y -> gen_lla_exit_p1 x y z d ->
  roundtrip_ok x y z d (gen_lla_lat_p1 x y z d) (gen_lla_alt_p1 x y z d).
Proof.
  intros Hxy Hexit. unfold gen_lla_lat_p1. rewrite alt_1.
  apply roundtrip_generic; [exact Hxy|apply it_step_1|exact Hexit].
Qed.
Lemma roundtrip_p2 x y z d : 0 < x * x + y * y -> gen_lla_exit_p2 x y z d ->
  roundtrip_ok x y z d (gen_lla_lat_p2 x y z d) (gen_lla_alt_p2 x y z d).
Proof.
  intros Hxy Hexit. unfold gen_lla_lat_p2. rewrite alt_2.
  apply roundtrip_generic; [exact Hxy|apply it_step_2|apply Hexit].
Qed.
Lemma roundtrip_p3 x y z d : 0 < x * x + y * y -> gen_lla_exit_p3 x y z d ->
  roundtrip_ok x y z d (gen_lla_lat_p3 x y z d) (gen_lla_alt_p3 x y z d).
Proof.
  intros Hxy Hexit. unfold gen_lla_lat_p3. rewrite alt_3.
  apply roundtrip_generic; [exact Hxy|apply it_step_3|apply Hexit].
Qed.
Lemma roundtrip_p4 x y z d : 0 < x * x + y * y -> gen_lla_exit_p4 x y z d ->
  roundtrip_ok x y z d (gen_lla_lat_p4 x y z d) (gen_lla_alt_p4 x y z d).
Proof.
  intros Hxy Hexit. unfold gen_lla_lat_p4. rewrite alt_4.
  apply roundtrip_generic; [exact Hxy|apply it_step_4|apply Hexit].
Qed.
Lemma roundtrip_p5 x y z d : 0 < x * x + y * y -> gen_lla_exit_p5 x y z d ->
  roundtrip_ok x y z d (gen_lla_lat_p5 x y z d) (gen_lla_alt_p5 x y z d).
Proof.
  intros Hxy Hexit. unfold gen_lla_lat_p5. rewrite alt_5.
  apply roundtrip_generic; [exact Hxy|apply it_step_5|apply Hexit].
Qed.
Lemma roundtrip_p6 x y z d : 0 < x * x + y * y -> gen_lla_exit_p6 x y z d ->
  roundtrip_ok x y z d (gen_lla_lat_p6 x y z d) (gen_lla_alt_p6 x y z d).
Proof.
  intros Hxy Hexit. unfold gen_lla_lat_p6. rewrite alt_6.
  apply roundtrip_generic; [exact Hxy|apply it_step_6|apply Hexit].
Qed.

(* the scale factor: the code normalises by XKMPER but scales the height by A *)
Lemma scale_factor : 0 < wgs84_A / XKMPER - 1 < 32 / 100000000.
Proof. unfold wgs84_A, XKMPER. split; lra. Qed.
