(* C04 round trip: on every exit path of the geodetic-latitude iteration, converting
   (lon, lat, alt) back with the WGS-84 formulas reproduces (A/XKMPER) * position up to 2e-12 * A. *)
From Coq Require Import Reals Lra Lia.
From Coquelicot Require Import Coquelicot.
From Interval Require Import Tactic.
From PyOrb.lib Require Import PyReal Atan2Lib.
From PyOrb.spec Require Import Spec_Geodesy.
From PyOrb.gen Require Import Gen_astronomy Gen_orbital.
From PyOrb.proofs Require Import P_Geodesy.
Open Scope R_scope.

Definition dNc (p : R) : R := wgs84_e2 * sin p * cos p * (Nc p)^3.
Definition NcSin (p : R) : R := Nc p * sin p.
Definition dNcSin (p : R) : R := dNc p * sin p + Nc p * cos p.

Lemma Nc_is_derive (p : R) : is_derive Nc p (dNc p).
Proof.
  unfold dNc, Nc.
  pose proof (Nc_den_pos p) as Hd. pose proof (sqrt_Nc_den_pos p) as Hs.
  assert (Eq : 1 + - (wgs84_e2 * (sin p * (sin p * 1))) = 1 - wgs84_e2 * sin p ^ 2) by ring.
  auto_derive.
  - rewrite Eq. split; [exact Hd|]. split; [apply Rgt_not_eq; exact Hs|exact I].
  - replace (1 + - (wgs84_e2 * (sin p * (sin p * 1)))) with (1 - wgs84_e2 * sin p ^ 2) by ring.
    set (s := sqrt (1 - wgs84_e2 * sin p ^ 2)) in *.
    clearbody s. clear Eq Hd. field. lra.
Qed.

Lemma NcSin_is_derive (p : R) : is_derive NcSin p (dNcSin p).
Proof.
  unfold NcSin, dNcSin.
  pose proof (Nc_is_derive p) as H.
  auto_derive.
  - split; [exists (dNc p); exact H|exact I].
  - rewrite (is_derive_unique _ _ _ H). ring.
Qed.

Lemma dNc_bound c : Rabs (dNc c) <= 7 / 1000.
Proof.
  unfold dNc, Nc, wgs84_e2, wgs84_F. interval.
Qed.

Lemma dNcSin_bound c : Rabs (dNcSin c) <= 1011 / 1000.
Proof.
  unfold dNcSin, dNc, Nc, wgs84_e2, wgs84_F. interval.
Qed.

Lemma lipschitz (f df : R -> R) K :
  (forall x, is_derive f x (df x)) -> (forall x, Rabs (df x) <= K) ->
  forall a b, Rabs (f b - f a) <= K * Rabs (b - a).
Proof.
  intros Hd Hb a b.
  destruct (MVT_gen f a b df) as [c [_ Hc]].
  - intros x _. apply Hd.
  - intros x _. apply derivable_continuous_pt. apply ex_derive_Reals_0.
    exists (df x). apply Hd.
  - rewrite Hc, Rabs_mult. apply Rmult_le_compat_r; [apply Rabs_pos|apply Hb].
Qed.

Lemma Nc_lipschitz a b : Rabs (Nc b - Nc a) <= 7 / 1000 * Rabs (b - a).
Proof. apply (lipschitz Nc dNc); [apply Nc_is_derive|apply dNc_bound]. Qed.
Lemma NcSin_lipschitz a b : Rabs (NcSin b - NcSin a) <= 1011 / 1000 * Rabs (b - a).
Proof. apply (lipschitz NcSin dNcSin); [apply NcSin_is_derive|apply dNcSin_bound]. Qed.

(* one step of the iteration and the epilogue, as the code writes them (normalised units) *)
Definition lat_step (r uz lat2 : R) : R := atan2 (uz + Nc lat2 * wgs84_e2 * sin lat2) r.
Definition alt_of (r lat lat2 : R) : R := (r / cos lat - Nc lat2) * wgs84_A.

Section OneExit.
  Variables r uz lat2 : R.
  Hypothesis Hr : 0 < r.
  Let lat := lat_step r uz lat2.
  Let alt := alt_of r lat lat2.

  Lemma cos_lat_pos : 0 < cos lat.
  Proof. apply cos_atan2_pos_x, Hr. Qed.

  Lemma rho_identity :
    geodetic_rho wgs84_A lat alt = wgs84_A * (r + (Nc lat - Nc lat2) * cos lat).
  Proof.
    unfold geodetic_rho, alt, alt_of. field. apply Rgt_not_eq, cos_lat_pos.
  Qed.

  Lemma z_identity :
    geodetic_z wgs84_A lat alt =
    wgs84_A * (uz + wgs84_e2 * (NcSin lat2 - NcSin lat) + (Nc lat - Nc lat2) * sin lat).
  Proof.
    pose proof cos_lat_pos as Hc.
    assert (Ht : sin lat = (uz + Nc lat2 * wgs84_e2 * sin lat2) / r * cos lat).
    { pose proof (tan_atan2_pos_x (uz + Nc lat2 * wgs84_e2 * sin lat2) r Hr) as T.
      fold (lat_step r uz lat2) in T. fold lat in T. unfold tan in T.
      rewrite <- T. field. apply Rgt_not_eq, Hc. }
    unfold geodetic_z, alt, alt_of, NcSin.
    replace ((wgs84_A * Nc lat * (1 - wgs84_e2) + (r / cos lat - Nc lat2) * wgs84_A) * sin lat)
      with (wgs84_A * (Nc lat * (1 - wgs84_e2) * sin lat - Nc lat2 * sin lat + r * (sin lat / cos lat)))
      by (field; apply Rgt_not_eq, Hc).
    replace (sin lat / cos lat) with ((uz + Nc lat2 * wgs84_e2 * sin lat2) / r).
    2:{ rewrite Ht at 1. field. split; apply Rgt_not_eq; assumption. }
    field. apply Rgt_not_eq, Hr.
  Qed.

  Hypothesis Hexit : Rabs (lat - lat2) < 1 / 10000000000.

  Lemma rho_close : Rabs (geodetic_rho wgs84_A lat alt - wgs84_A * r) <= wgs84_A * (1 / 1000000000000).
  Proof.
    rewrite rho_identity.
    replace (wgs84_A * (r + (Nc lat - Nc lat2) * cos lat) - wgs84_A * r)
      with (wgs84_A * ((Nc lat - Nc lat2) * cos lat)) by ring.
    assert (HA : 0 < wgs84_A) by (unfold wgs84_A; lra).
    rewrite Rabs_mult, (Rabs_pos_eq wgs84_A) by lra.
    apply Rmult_le_compat_l; [lra|].
    rewrite Rabs_mult.
    pose proof (Nc_lipschitz lat2 lat) as L. pose proof (COS_bound lat) as C.
    assert (Rabs (cos lat) <= 1) by (apply Rabs_le; lra).
    pose proof (Rabs_pos (Nc lat - Nc lat2)). pose proof (Rabs_pos (cos lat)).
    nra.
  Qed.

  Lemma z_close : Rabs (geodetic_z wgs84_A lat alt - wgs84_A * uz) <= wgs84_A * (2 / 1000000000000).
  Proof.
    rewrite z_identity.
    replace (wgs84_A * (uz + wgs84_e2 * (NcSin lat2 - NcSin lat) + (Nc lat - Nc lat2) * sin lat) - wgs84_A * uz)
      with (wgs84_A * (wgs84_e2 * (NcSin lat2 - NcSin lat) + (Nc lat - Nc lat2) * sin lat)) by ring.
    assert (HA : 0 < wgs84_A) by (unfold wgs84_A; lra).
    rewrite Rabs_mult, (Rabs_pos_eq wgs84_A) by lra.
    apply Rmult_le_compat_l; [lra|].
    eapply Rle_trans; [apply Rabs_triang|].
    rewrite !Rabs_mult.
    pose proof (Nc_lipschitz lat2 lat) as L1. pose proof (NcSin_lipschitz lat lat2) as L2.
    rewrite (Rabs_minus_sym lat2 lat) in L2.
    pose proof (SIN_bound lat) as S.
    assert (Rabs (sin lat) <= 1) by (apply Rabs_le; lra).
    pose proof e2_bounds as E. rewrite (Rabs_pos_eq wgs84_e2) by lra.
    pose proof (Rabs_pos (Nc lat - Nc lat2)). pose proof (Rabs_pos (sin lat)).
    pose proof (Rabs_pos (NcSin lat2 - NcSin lat)).
    nra.
  Qed.
End OneExit.
