From Coq Require Import Reals Lra Lia.
From Flocq Require Import Core.
From Interval Require Import Tactic.
From PyOrb.lib Require Import PyReal Atan2Lib.
From PyOrb.spec Require Import Spec_Geodesy.
From PyOrb.gen Require Import Gen_astronomy Gen_orbital.
Open Scope R_scope.

Lemma e2_const : (-595514447126000000000) / 88957371407509362414969 = - wgs84_e2.
Proof. unfold wgs84_e2, wgs84_F. field. Qed.
Lemma e2_const' : 595514447126000000000 / 88957371407509362414969 = wgs84_e2.
Proof. unfold wgs84_e2, wgs84_F. field. Qed.
Lemma one_minus_e2_const : 88361856960383362414969 / 88957371407509362414969 = 1 - wgs84_e2.
Proof. unfold wgs84_e2, wgs84_F. field. Qed.

Lemma e2_bounds : 0 < wgs84_e2 < 7 / 1000.
Proof. unfold wgs84_e2, wgs84_F. split; interval. Qed.

Lemma Nc_den_pos phi : 0 < 1 - wgs84_e2 * (sin phi)^2.
Proof.
  pose proof e2_bounds. pose proof (SIN_bound phi).
  assert (0 <= (sin phi)^2 <= 1) by nra. nra.
Qed.

Lemma sqrt_Nc_den_pos phi : 0 < sqrt (1 - wgs84_e2 * (sin phi)^2).
Proof. apply sqrt_lt_R0, Nc_den_pos. Qed.

(* ---------- observer_position is the WGS-84 geodetic -> ECI map ---------- *)
Lemma observer_x_spec d lon lat alt :
  gen_observer_x d lon lat alt = eci_x wgs84_A (deg2rad lon) (deg2rad lat) alt (gen_gmst d).
Proof.
  unfold gen_observer_x, eci_x, geodetic_rho, Nc, wgs84_A. cbv zeta.
  rewrite cos_pymod_2PI, e2_const. eq_mod_ring.
Qed.

Lemma observer_y_spec d lon lat alt :
  gen_observer_y d lon lat alt = eci_y wgs84_A (deg2rad lon) (deg2rad lat) alt (gen_gmst d).
Proof.
  unfold gen_observer_y, eci_y, geodetic_rho, Nc, wgs84_A. cbv zeta.
  rewrite sin_pymod_2PI, e2_const. eq_mod_ring.
Qed.

Lemma observer_z_spec d lon lat alt :
  gen_observer_z d lon lat alt = eci_z wgs84_A (deg2rad lon) (deg2rad lat) alt (gen_gmst d).
Proof.
  unfold gen_observer_z, eci_z, geodetic_z, Nc, wgs84_A. cbv zeta.
  rewrite e2_const, one_minus_e2_const.
  replace (1 + - wgs84_e2 * sin (deg2rad lat) ^ 2) with (1 - wgs84_e2 * sin (deg2rad lat) ^ 2) by ring.
  field. apply Rgt_not_eq, sqrt_Nc_den_pos.
Qed.

Lemma observer_velocity d lon lat alt :
  gen_observer_vx d lon lat alt = - earth_rate * gen_observer_y d lon lat alt /\
  gen_observer_vy d lon lat alt = earth_rate * gen_observer_x d lon lat alt /\
  gen_observer_vz d lon lat alt = 0.
Proof.
  unfold gen_observer_vx, gen_observer_vy, gen_observer_vz, earth_rate. repeat split; field.
Qed.

(* ---------- longitude range ---------- *)
Lemma rad2deg_mono a b : a < b -> rad2deg a < rad2deg b.
Proof.
  intros H. unfold rad2deg. apply Rmult_lt_compat_r; [|exact H].
  apply Rdiv_lt_0_compat; [lra|apply PI_RGT_0].
Qed.
Lemma rad2deg_mono_le a b : a <= b -> rad2deg a <= rad2deg b.
Proof.
  intros H. unfold rad2deg. apply Rmult_le_compat_r; [|exact H].
  left. apply Rdiv_lt_0_compat; [lra|apply PI_RGT_0].
Qed.
Lemma rad2deg_PI : rad2deg PI = 180.
Proof. unfold rad2deg. field. apply PI_neq0. Qed.
Lemma rad2deg_opp a : rad2deg (- a) = - rad2deg a.
Proof. unfold rad2deg. ring. Qed.

Lemma lon_range x y z d : -180 < gen_lla_lon x y z d <= 180.
Proof.
  unfold gen_lla_lon. cbv zeta.
  match goal with |- context [ite_lt PI (pymod ?a ?m)] => set (w := pymod a m);
    assert (Hw : 0 <= w < 2 * PI) by (apply pymod_range; pose proof PI_RGT_0; lra) end.
  pose proof PI_RGT_0 as HP.
  match goal with |- _ < rad2deg ?e <= _ =>
    enough (H : rad2deg (- PI) < rad2deg e <= rad2deg PI) by (rewrite rad2deg_opp, rad2deg_PI in H; lra) end.
  unfold ite_lt, ite_le.
  destruct (Rlt_dec PI w) as [H1|H1].
  - destruct (Rle_dec (w - PI * 2) (- PI)) as [H2|H2].
    + split; [apply rad2deg_mono|apply rad2deg_mono_le]; lra.
    + split; [apply rad2deg_mono|apply rad2deg_mono_le]; lra.
  - destruct (Rle_dec w (- PI)) as [H2|H2].
    + lra.
    + split; [apply rad2deg_mono|apply rad2deg_mono_le]; lra.
Qed.

(* ---------- latitude range on every exit path ---------- *)
Lemma rad2deg_half_PI : rad2deg (PI / 2) = 90.
Proof. unfold rad2deg. field. apply PI_neq0. Qed.

Lemma rad2deg_atan2_range a b : 0 <= b -> -90 <= rad2deg (atan2 a b) <= 90.
Proof.
  intros Hb. pose proof (atan2_range_nonneg_x a b Hb) as R.
  assert (H : rad2deg (- (PI / 2)) <= rad2deg (atan2 a b) <= rad2deg (PI / 2))
    by (split; apply rad2deg_mono_le; lra).
  rewrite rad2deg_opp, rad2deg_half_PI in H. lra.
Qed.

Ltac lat_range_tac itdef :=
  unfold itdef; cbv zeta; apply rad2deg_atan2_range; apply sqrt_pos.

Lemma lat_range_p1 x y z d : -90 <= gen_lla_lat_p1 x y z d <= 90.
Proof. unfold gen_lla_lat_p1. lat_range_tac gen_lla_lat_it1. Qed.
Lemma lat_range_p2 x y z d : -90 <= gen_lla_lat_p2 x y z d <= 90.
Proof. unfold gen_lla_lat_p2. lat_range_tac gen_lla_lat_it2. Qed.
Lemma lat_range_p3 x y z d : -90 <= gen_lla_lat_p3 x y z d <= 90.
Proof. unfold gen_lla_lat_p3. lat_range_tac gen_lla_lat_it3. Qed.
Lemma lat_range_p4 x y z d : -90 <= gen_lla_lat_p4 x y z d <= 90.
Proof. unfold gen_lla_lat_p4. lat_range_tac gen_lla_lat_it4. Qed.
Lemma lat_range_p5 x y z d : -90 <= gen_lla_lat_p5 x y z d <= 90.
Proof. unfold gen_lla_lat_p5. lat_range_tac gen_lla_lat_it5. Qed.
Lemma lat_range_p6 x y z d : -90 <= gen_lla_lat_p6 x y z d <= 90.
Proof. unfold gen_lla_lat_p6. lat_range_tac gen_lla_lat_it6. Qed.

(* ---------- object method and module function are the same real function ---------- *)
Lemma method_eq_module x y z d :
  gen_geoloc_lla_lon x y z d = gen_lla_lon x y z d /\
  gen_geoloc_lla_lat_p1 x y z d = gen_lla_lat_p1 x y z d /\ gen_geoloc_lla_alt_p1 x y z d = gen_lla_alt_p1 x y z d /\
  gen_geoloc_lla_lat_p2 x y z d = gen_lla_lat_p2 x y z d /\ gen_geoloc_lla_alt_p2 x y z d = gen_lla_alt_p2 x y z d /\
  gen_geoloc_lla_lat_p3 x y z d = gen_lla_lat_p3 x y z d /\ gen_geoloc_lla_alt_p3 x y z d = gen_lla_alt_p3 x y z d /\
  gen_geoloc_lla_lat_p4 x y z d = gen_lla_lat_p4 x y z d /\ gen_geoloc_lla_alt_p4 x y z d = gen_lla_alt_p4 x y z d /\
  gen_geoloc_lla_lat_p5 x y z d = gen_lla_lat_p5 x y z d /\ gen_geoloc_lla_alt_p5 x y z d = gen_lla_alt_p5 x y z d /\
  gen_geoloc_lla_lat_p6 x y z d = gen_lla_lat_p6 x y z d /\ gen_geoloc_lla_alt_p6 x y z d = gen_lla_alt_p6 x y z d /\
  (gen_geoloc_lla_exit_p1 x y z d <-> gen_lla_exit_p1 x y z d) /\
  (gen_geoloc_lla_exit_p2 x y z d <-> gen_lla_exit_p2 x y z d) /\
  (gen_geoloc_lla_exit_p3 x y z d <-> gen_lla_exit_p3 x y z d) /\
  (gen_geoloc_lla_exit_p4 x y z d <-> gen_lla_exit_p4 x y z d) /\
  (gen_geoloc_lla_exit_p5 x y z d <-> gen_lla_exit_p5 x y z d) /\
  (gen_geoloc_lla_exit_p6 x y z d <-> gen_lla_exit_p6 x y z d).
Proof. repeat (split; [reflexivity|]). repeat (split; [exact (iff_refl _)|]). exact (iff_refl _). Qed.

Lemma local_time d lon : gen_utc2local d lon = d + lon / 15 / 24.
Proof. unfold gen_utc2local. field. Qed.
