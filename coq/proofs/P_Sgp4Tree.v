(* C13 / C01: what the generated decision trees say about outcomes. *)
From Coq Require Import Reals Lra Lia.
From PyOrb.lib Require Import PyReal SgpOutcome.
From PyOrb.spec Require Import Spec_SGP4.
From PyOrb.gen Require Import Gen_sgp4 Gen_sgp4_compose.
From PyOrb.proofs Require Import P_Sgp4Init P_Sgp4Prop.
Open Scope R_scope.

Ltac split_tree :=
  repeat match goal with
         | |- context [Rlt_dec ?a ?b] => destruct (Rlt_dec a b)
         | |- context [Rle_dec ?a ?b] => destruct (Rle_dec a b)
         end.

Section Tree.
  Variables e0 incl_deg raan_deg argp_deg ma_deg n_revday bstar : R.
  Notation "'GA' f" := (f e0 incl_deg raan_deg argp_deg ma_deg n_revday bstar) (at level 9, f at level 9).
  Let El := E e0 incl_deg raan_deg argp_deg ma_deg n_revday bstar.

  (* the element-range guards of the constructor, in the code's order *)
  Definition elements_in_range : Prop :=
    0 < GA gen_oe_mean_motion /\ 0 < e0 /\ e0 < 999999 / 1000000 /\
    GA gen_init_guard0 < GA gen_oe_original_mean_motion /\
    GA gen_oe_original_mean_motion < GA gen_init_guard1 /\
    0 < GA gen_oe_inclination /\ GA gen_oe_inclination < PI.

  Lemma init_orbital_error_iff : GA gen_init_outcome = InitOrbitalError <-> ~ elements_in_range.
  Proof.
    unfold gen_init_outcome, elements_in_range. split.
    - split_tree; intros H; try discriminate H; tauto.
    - intros H. split_tree; try reflexivity; exfalso; apply H; tauto.
  Qed.

  Lemma init_not_implemented_iff :
    GA gen_init_outcome = InitNotImplemented <-> elements_in_range /\ 225 <= GA gen_sgp4_period.
  Proof.
    unfold gen_init_outcome, elements_in_range. split.
    - split_tree; intros H; try discriminate H; tauto.
    - intros [H P]. split_tree; try reflexivity; exfalso; tauto.
  Qed.

  Lemma init_near_simp_iff :
    GA gen_init_outcome = InitMode NearSimp 0 <->
    elements_in_range /\ GA gen_sgp4_period < 225 /\ GA gen_sgp4_perigee < 220.
  Proof.
    unfold gen_init_outcome, elements_in_range. split.
    - split_tree; intros H; try discriminate H; repeat split; try tauto; lra.
    - intros [H [P Q]]. split_tree; try reflexivity; exfalso; try tauto; lra.
  Qed.

  Lemma init_near_norm_iff :
    (exists k, GA gen_init_outcome = InitMode NearNorm k) <->
    elements_in_range /\ GA gen_sgp4_period < 225 /\ 220 <= GA gen_sgp4_perigee.
  Proof.
    unfold gen_init_outcome, elements_in_range. split.
    - intros [k H]. revert H. split_tree; intros H; try discriminate H; repeat split; try tauto; lra.
    - intros [H [P Q]]. split_tree; try (exfalso; try tauto; lra); eexists; reflexivity.
  Qed.

  (* the only other outcomes never occur: the constructor's outcome is one of the four classes *)
  Lemma init_outcome_total :
    GA gen_init_outcome = InitOrbitalError \/ GA gen_init_outcome = InitNotImplemented \/
    GA gen_init_outcome = InitMode NearSimp 0 \/ exists k, (k < 4)%nat /\ GA gen_init_outcome = InitMode NearNorm k.
  Proof.
    unfold gen_init_outcome. split_tree; auto;
      right; right; right; eexists; (split; [|reflexivity]); lia.
  Qed.

  Lemma leaf1_facts : GA gen_init_outcome = InitMode NearNorm 1 ->
    elements_in_range /\ GA gen_sgp4_period < 225 /\ 220 <= GA gen_sgp4_perigee /\ 1 / 10000 < e0 /\
    3 / 2000000000000 <= GA gen_init_guard3.
  Proof.
    unfold gen_init_outcome, elements_in_range.
    split_tree; intros H; try discriminate H; repeat split; try tauto; lra.
  Qed.
End Tree.
