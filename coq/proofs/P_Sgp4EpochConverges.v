(* C01: at its epoch (or drag-free at any time) EVERY accepted ordinary element set - TLE mean motion 6.4 .. 18 rev/day,
   e0 <= 0.9, i.e. everything outside the degenerate island e0 >= 0.9993 - has eL <= 0.47, so its Newton loop leaves by the
   seventh test (P_Sgp4Newton47): a0'' <= 1.94 earth radii (interval arithmetic over the whole box), the constructor's perigee
   guard a0'' (1 - e0) >= 1 + 220/XKMPER then forces e0 <= 0.467, and eL <= e0 + |ayNL| <= 0.47. *)
From Coq Require Import Reals Lra Lia.
From Coquelicot Require Import Rcomplements.
From Interval Require Import Tactic.
From PyOrb.lib Require Import PyReal SgpOutcome.
From PyOrb.spec Require Import Spec_SGP4.
From PyOrb.gen Require Import Gen_sgp4 Gen_sgp4_compose.
From PyOrb.proofs Require Import P_Sgp4Geometry P_Sgp4Init P_Sgp4Prop P_Sgp4Tree P_Sgp4Exits P_Sgp4AnsweredEpoch P_Sgp4Newton47.
Open Scope R_scope.

Lemma a0_upper_wide n e i w m o b : 64 / 10 <= n <= 18 -> 0 <= e <= 9 / 10 ->
  a0'' (mkEl (n * (twopi / min_per_day)) e i w m o b) <= 194 / 100.
Proof.
  intros Hn He.
  unfold a0'', delta0, a0, delta1, a1, powr, theta, k2, ke, twopi, min_per_day, Rpower.
  cbn [el_n0 el_e0 el_i0 el_w0 el_M0 el_O0 el_bstar].
  set (c := cos i). assert (Hc : -1 <= c <= 1) by (unfold c; apply COS_bound). clearbody c.
  interval with (i_bisect n, i_bisect e, i_depth 14).
Qed.

Section Epoch.
  Variables e0 incl_deg raan_deg argp_deg ma_deg n_revday bstar ts : R.
  Notation "'GA' f" := (f e0 incl_deg raan_deg argp_deg ma_deg n_revday bstar) (at level 9, f at level 9).
  Notation "'GB' f" := (f e0 incl_deg raan_deg argp_deg ma_deg n_revday bstar ts) (at level 9, f at level 9).
  Let El := E e0 incl_deg raan_deg argp_deg ma_deg n_revday bstar.
  Let T := mkT false ts.
  Let ec := ecl e0 incl_deg raan_deg argp_deg ma_deg n_revday bstar ts.

  Hypothesis Hleaf : GA gen_init_outcome = InitMode NearNorm 1.
  Hypothesis Hfrozen : bstar = 0 \/ ts = 0.
  Hypothesis Hn : 64 / 10 <= n_revday <= 18.
  Hypothesis He9 : e0 <= 9 / 10.

  Lemma accepted_e0 : e0 <= 467 / 1000.
  Proof.
    pose proof (leaf1_He _ _ _ _ _ _ _ Hleaf) as He.
    pose proof (perigee_guard e0 incl_deg raan_deg argp_deg ma_deg n_revday bstar Hleaf) as Hp. fold El in Hp.
    pose proof (a0_upper_wide n_revday e0 (P_Sgp4Init.i0 incl_deg) (P_Sgp4Init.w0 argp_deg) (P_Sgp4Init.M0 ma_deg) (P_Sgp4Init.O0 raan_deg) bstar Hn ltac:(lra)) as HA.
    change (mkEl (n_revday * (twopi / min_per_day)) e0 (P_Sgp4Init.i0 incl_deg) (P_Sgp4Init.w0 argp_deg) (P_Sgp4Init.M0 ma_deg) (P_Sgp4Init.O0 raan_deg) bstar) with El in HA.
    unfold XKMPER in Hp. set (A := a0'' El) in *.
    assert (0 < A) by nra. nra.
  Qed.

  Theorem eL_at_epoch : eL2 El T ec <= 2209 / 10000.
  Proof.
    pose proof (leaf1_He _ _ _ _ _ _ _ Hleaf) as He. pose proof (leaf1_e_gt _ _ _ _ _ _ _ Hleaf) as Hegt.
    pose proof accepted_e0 as He47.
    pose proof (perigee_guard e0 incl_deg raan_deg argp_deg ma_deg n_revday bstar Hleaf) as Hp. fold El in Hp.
    assert (Hfr : el_bstar El = 0 \/ ts = 0) by exact Hfrozen.
    pose proof (frozen_a El false ts Hfr) as Fa. pose proof (frozen_e El false ts Hfr) as Fe. fold T in Fa, Fe.
    change (el_e0 El) with e0 in Fe.
    assert (Hec : ec = e0).
    { unfold ec, ecl. fold El T. rewrite Fe. apply clamp_e_id.
      destruct (leaf1_facts _ _ _ _ _ _ _ Hleaf) as [[_ [_ [Hhi _]]] _]. lra. }
    rewrite Hec.
    assert (HA : 0 < a0'' El) by (unfold XKMPER in Hp; nra).
    assert (Ha' : 0 < a El T) by (rewrite Fa; exact HA).
    pose proof (ayNL_bound El T e0 Ha' ltac:(lra)) as Hy. rewrite Fa in Hy.
    pose proof (eL_triangle El T e0 ltac:(lra)) as Htri.
    set (y := Rabs (ayNL El T e0)) in *. set (A := a0'' El) in *. set (Q := sqrt (eL2 El T e0)) in *.
    assert (Hy0 : 0 <= y) by apply Rabs_pos.
    assert (HAe : 1 + 220 / XKMPER <= A * (1 - e0 ^ 2)) by (unfold XKMPER in *; nra).
    assert (Hyb : y <= 12 / 10000).
    { assert (y * (1 + 220 / XKMPER) <= A30 / (4 * k2)) by (unfold XKMPER, A30, k2 in *; nra).
      unfold XKMPER, A30, k2 in *. lra. }
    assert (HQ0 : 0 <= Q) by apply sqrt_pos.
    assert (HQQ : Q * Q = eL2 El T e0) by (apply sqrt_sqrt; apply eL2_nonneg).
    rewrite <- HQQ. assert (Q <= 47 / 100) by lra. nra.
  Qed.

  Theorem converges_at_epoch j : GB gen_nn1_prop_outcome = PropOk j -> (j <= 6)%nat.
  Proof.
    intros Hp. exact (newton_loop_exits_by_seventh_test e0 incl_deg raan_deg argp_deg ma_deg n_revday bstar ts j Hleaf Hp eL_at_epoch).
  Qed.
End Epoch.
