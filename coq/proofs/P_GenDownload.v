(* C17, source tie: the model's inner loop over the URIs of a source is, at every URI, the application of the per-URI
   action REGENERATED from Downloader.fetch_plain_tle (Gen_download.v). *)
From Coq Require Import List ZArith Bool.
From PyOrb.model Require Import M_Download.
From PyOrb.gen Require Import Gen_download.
Import ListNotations.
Open Scope Z_scope.

Definition timed_out (o : outcome) : bool := match o with Timeout => true | Resp _ _ => false end.
Definition status_of (o : outcome) : Z := match o with Timeout => 0 | Resp st _ => st end.
Definition body_of (o : outcome) : list line := match o with Timeout => [] | Resp _ b => b end.

(* one turn of `for uri in sources[source]`, driven by an action *)
Definition turn (a : uri_action) (o : outcome) (r : list outcome) (acc : list entry) : res (list entry) :=
  match a with
  | ARaiseTimeout => Raise TimeoutError
  | AAppendParsed => match parse_body (body_of o) with
                     | inl es => fetch_uris r (acc ++ es)
                     | inr e => Raise (ParseError e)
                     end
  | ARecordFailure => fetch_uris r acc
  end.

Theorem fetch_uris_is_generated_turn o r acc :
  fetch_uris (o :: r) acc = turn (gen_uri_action (timed_out o) (status_of o)) o r acc.
Proof.
  destruct o as [st body|]; cbn [fetch_uris timed_out status_of body_of gen_uri_action turn].
  - unfold gen_uri_action. cbn [timed_out]. destruct (st =? 200); reflexivity.
  - reflexivity.
Qed.

(* read off the regenerated action alone *)
Theorem gen_failure_leaves_result st : gen_uri_action false st = ARecordFailure -> st <> gen_ok_status.
Proof. unfold gen_uri_action, gen_ok_status. destruct (st =? 200) eqn:E; [discriminate|]. intros _. apply Z.eqb_neq. exact E. Qed.

Theorem gen_timeout_always_raises st : gen_uri_action true st = ARaiseTimeout.
Proof. reflexivity. Qed.

Theorem gen_success_iff st : gen_uri_action false st = AAppendParsed <-> st = gen_ok_status.
Proof.
  unfold gen_uri_action, gen_ok_status. destruct (st =? 200) eqn:E.
  - apply Z.eqb_eq in E. split; intros; [exact E|reflexivity].
  - apply Z.eqb_neq in E. split; intros H; [discriminate|contradiction].
Qed.

Lemma gen_structure : gen_every_source_initialised = true /\ gen_uris_in_configuration_order = true.
Proof. split; reflexivity. Qed.
