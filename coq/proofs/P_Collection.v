From Coq Require Import List Ascii Bool Arith NArith Lia.
From PyOrb.model Require Import M_Collection.
Import ListNotations.

(* ================================================================== *)
(* strings                                                            *)
(* ================================================================== *)
Lemma leqb_eq a : forall b, leqb a b = true <-> a = b.
Proof.
  induction a as [|x a IH]; intros [|y b]; cbn [leqb]; split; intros H; try discriminate; try reflexivity.
  - apply andb_true_iff in H as [H1 H2]. apply Ascii.eqb_eq in H1. apply IH in H2. subst. reflexivity.
  - inversion H; subst. apply andb_true_iff. split; [apply Ascii.eqb_refl|apply IH; reflexivity].
Qed.

Lemma leqb_refl a : leqb a a = true.
Proof. apply leqb_eq. reflexivity. Qed.

Lemma leqb_neq a b : leqb a b = false <-> a <> b.
Proof.
  split.
  - intros H E. apply leqb_eq in E. congruence.
  - intros H. destruct (leqb a b) eqn:E; [|reflexivity]. apply leqb_eq in E. contradiction.
Qed.

Lemma prefixb_firstn q : forall l, prefixb q l = leqb q (firstn (length q) l).
Proof.
  induction q as [|x q IH]; intros l; cbn [prefixb length firstn leqb]; [reflexivity|].
  destruct l as [|y l]; cbn [firstn leqb]; [reflexivity|]. rewrite IH. reflexivity.
Qed.

Lemma prefixb_app p q : forall l,
  prefixb (p ++ q) l = prefixb p l && leqb q (firstn (length q) (skipn (length p) l)).
Proof.
  induction p as [|a p IH]; intros l; cbn [app prefixb length skipn].
  - apply prefixb_firstn.
  - destruct l as [|y l]; [reflexivity|]. rewrite IH, andb_assoc. reflexivity.
Qed.

Lemma prefixb_app_l p q l : prefixb (p ++ q) l = true -> prefixb p l = true.
Proof. rewrite prefixb_app. intros H. apply andb_true_iff in H. apply H. Qed.

Lemma prefixb_nil_r p l : prefixb (p ++ []) l = prefixb p l.
Proof. rewrite app_nil_r. reflexivity. Qed.

Lemma one_two_disjoint l : prefixb one_sp l = true -> prefixb two_sp l = true -> False.
Proof.
  unfold one_sp, two_sp. destruct l as [|c l]; cbn [prefixb]; [discriminate|]. intros H1 H2.
  apply andb_true_iff in H1 as [H1 _]. apply andb_true_iff in H2 as [H2 _].
  apply Ascii.eqb_eq in H1. apply Ascii.eqb_eq in H2. rewrite <- H1 in H2. discriminate.
Qed.

(* ---- strip ---- *)
Lemma rstrip_snoc_space l c : is_space c = true -> rstrip (l ++ [c]) = rstrip l.
Proof.
  intros Hc. induction l as [|a l IH]; cbn [app rstrip].
  - rewrite Hc. reflexivity.
  - rewrite IH. reflexivity.
Qed.

Lemma strip_snoc_space l c : is_space c = true -> strip (l ++ [c]) = strip l.
Proof. intros Hc. unfold strip. rewrite rstrip_snoc_space by exact Hc. reflexivity. Qed.

Lemma nl_space : is_space nl = true.
Proof. reflexivity. Qed.

Lemma rstrip_tail a t : rstrip (a :: t) = a :: t -> rstrip t = t.
Proof.
  cbn [rstrip]. destruct (rstrip t) as [|b t'] eqn:E.
  - destruct (is_space a); intros H; inversion H. reflexivity.
  - intros H. inversion H. reflexivity.
Qed.

Lemma rstrip_idem l : rstrip (rstrip l) = rstrip l.
Proof.
  induction l as [|a l IH]; cbn [rstrip]; [reflexivity|].
  destruct (rstrip l) as [|b t'] eqn:E.
  - destruct (is_space a) eqn:S; cbn [rstrip]; [reflexivity|]. rewrite S. reflexivity.
  - cbn [rstrip]. cbn [rstrip] in IH. destruct (rstrip t') as [|b' t''] eqn:E'.
    + destruct (is_space b) eqn:S; [discriminate|]. inversion IH; subst. reflexivity.
    + inversion IH; subst. reflexivity.
Qed.

Lemma rstrip_lstrip_fixed m : rstrip m = m -> rstrip (lstrip m) = lstrip m.
Proof.
  induction m as [|a t IH]; intros H; cbn [lstrip]; [reflexivity|].
  destruct (is_space a); [|exact H]. apply IH. apply (rstrip_tail a t H).
Qed.

Lemma lstrip_idem l : lstrip (lstrip l) = lstrip l.
Proof.
  induction l as [|a t IH]; cbn [lstrip]; [reflexivity|].
  destruct (is_space a) eqn:S; [exact IH|]. cbn [lstrip]. rewrite S. reflexivity.
Qed.

Lemma strip_idem l : strip (strip l) = strip l.
Proof.
  unfold strip. rewrite (rstrip_lstrip_fixed (rstrip l)) by apply rstrip_idem. apply lstrip_idem.
Qed.

(* ---- dict ---- *)
Lemma dict_get_set d k v : forall q,
  dict_get (dict_set d k v) q = if leqb q k then Some v else dict_get d q.
Proof.
  induction d as [|[k' v'] t IH]; intros q; cbn [dict_set dict_get]; [reflexivity|].
  destruct (leqb k k') eqn:E.
  - apply leqb_eq in E. subst k'. cbn [dict_get]. destruct (leqb q k); reflexivity.
  - cbn [dict_get]. rewrite IH. destruct (leqb q k') eqn:Q; [|reflexivity].
    destruct (leqb q k) eqn:Q2; [|reflexivity].
    apply leqb_eq in Q. apply leqb_eq in Q2. subst. rewrite leqb_refl in E. discriminate.
Qed.

(* every registered name is non-empty and every id has 5 characters *)
Definition sats_ok (sats : dict) : bool :=
  forallb (fun kv => negb (isempty (fst kv)) && (length (snd kv) =? 5)) sats.

Lemma dict_get_ok sats k v : sats_ok sats = true -> dict_get sats k = Some v -> k <> [] /\ length v = 5.
Proof.
  unfold sats_ok. induction sats as [|[k' v'] t IH]; cbn [forallb dict_get fst snd]; intros H G; [discriminate|].
  apply andb_true_iff in H as [H1 H2]. destruct (leqb k k') eqn:E.
  - apply leqb_eq in E. subst k'. inversion G; subst v'. apply andb_true_iff in H1 as [Ha Hb].
    split; [destruct k; [discriminate|discriminate]|apply Nat.eqb_eq, Hb].
  - apply IH; assumption.
Qed.

Lemma dict_get_nil_none sats : sats_ok sats = true -> dict_get sats [] = None.
Proof.
  intros H. destruct (dict_get sats []) as [v|] eqn:G; [|reflexivity].
  destruct (dict_get_ok sats [] v H G) as [N _]. contradiction.
Qed.

(* ================================================================== *)
(* the scanner on well-formed collections                             *)
(* ================================================================== *)
Definition wf_entry (e : entry) : bool :=
  match e_name e with Some n => negb (prefixb one_sp (strip n)) | None => true end
  && prefixb one_sp (strip (e_l1 e)) && prefixb two_sp (strip (e_l2 e)).

(* the requested name is not itself of the form "1 ..." / "2 ..." *)
Definition plain (p : line) : bool := negb (prefixb one_sp p) && negb (prefixb two_sp p).

Definition name_is (p : line) (e : entry) : bool :=
  negb (isempty p) && match e_name e with Some n => leqb (strip n) p | None => false end.

Definition takes (sats : dict) (p : line) (only_first dummy : bool) (e : entry) : bool :=
  name_is p e || (prefixb (designator sats p) (strip (e_l1 e)) && take_cond sats p only_first dummy).

Lemma scan_cons sats p o d l0 fid1 tles :
  scan sats p o d (l0 :: fid1) tles =
  match classify sats p l0 with
  | BName => match fid1 with
             | l1 :: l2 :: fid3 => if o then Res [(strip l1, strip l2)]
                                   else scan sats p o d fid3 (tles ++ [(strip l1, strip l2)])
             | _ => StopIter
             end
  | BDesig => if take_cond sats p o d then
                match fid1 with
                | l2 :: fid2 => if o then Res [(strip l0, strip l2)]
                                else scan sats p o d fid2 (tles ++ [(strip l0, strip l2)])
                | [] => StopIter
                end
              else scan sats p o d fid1 tles
  | BOther => scan sats p o d fid1 tles
  end.
Proof. reflexivity. Qed.

Lemma designator_one sats p l : prefixb (designator sats p) l = true -> prefixb one_sp l = true.
Proof. unfold designator. apply prefixb_app_l. Qed.

Lemma classify_name sats p n :
  prefixb one_sp (strip n) = false ->
  classify sats p n = if negb (isempty p) && leqb (strip n) p then BName else BOther.
Proof.
  intros W. unfold classify. destruct (negb (isempty p) && leqb (strip n) p); [reflexivity|].
  destruct (prefixb (designator sats p) (strip n)) eqn:D; [|reflexivity].
  apply designator_one in D. congruence.
Qed.

Lemma classify_l1 sats p l1 :
  prefixb one_sp (strip l1) = true -> plain p = true ->
  classify sats p l1 = if prefixb (designator sats p) (strip l1) then BDesig else BOther.
Proof.
  intros W P. unfold classify. destruct (leqb (strip l1) p) eqn:E.
  - apply leqb_eq in E. unfold plain in P. rewrite <- E, W in P. discriminate.
  - rewrite andb_false_r. reflexivity.
Qed.

Lemma classify_l2 sats p l2 :
  prefixb two_sp (strip l2) = true -> plain p = true -> classify sats p l2 = BOther.
Proof.
  intros W P. unfold classify. destruct (leqb (strip l2) p) eqn:E.
  - apply leqb_eq in E. unfold plain in P. rewrite <- E, W in P. rewrite andb_false_r in P. discriminate.
  - rewrite andb_false_r. destruct (prefixb (designator sats p) (strip l2)) eqn:D; [|reflexivity].
    apply designator_one in D. exfalso. exact (one_two_disjoint _ D W).
Qed.

Lemma scan_l1l2 sats p o d l1 l2 rest acc :
  prefixb one_sp (strip l1) = true -> prefixb two_sp (strip l2) = true -> plain p = true ->
  scan sats p o d (l1 :: l2 :: rest) acc =
  if prefixb (designator sats p) (strip l1) && take_cond sats p o d
  then (if o then Res [(strip l1, strip l2)] else scan sats p o d rest (acc ++ [(strip l1, strip l2)]))
  else scan sats p o d rest acc.
Proof.
  intros W1 W2 P. rewrite scan_cons, (classify_l1 _ _ _ W1 P).
  destruct (prefixb (designator sats p) (strip l1)); cbn [andb].
  - destruct (take_cond sats p o d); [reflexivity|].
    rewrite scan_cons, (classify_l2 _ _ _ W2 P). reflexivity.
  - rewrite scan_cons, (classify_l2 _ _ _ W2 P). reflexivity.
Qed.

Lemma scan_entry sats p o d e rest acc :
  wf_entry e = true -> plain p = true ->
  scan sats p o d (entry_lines e ++ rest) acc =
  if takes sats p o d e
  then (if o then Res [entry_tle e] else scan sats p o d rest (acc ++ [entry_tle e]))
  else scan sats p o d rest acc.
Proof.
  intros W P. destruct e as [[n|] l1 l2]; unfold wf_entry in W; cbn [e_name e_l1 e_l2] in W;
    apply andb_true_iff in W as [W W2]; apply andb_true_iff in W as [W0 W1];
    unfold entry_lines, takes, name_is, entry_tle; cbn [e_name e_l1 e_l2 app].
  - apply negb_true_iff in W0. rewrite scan_cons, (classify_name _ _ _ W0).
    destruct (negb (isempty p) && leqb (strip n) p); cbn [orb]; [reflexivity|].
    apply scan_l1l2; assumption.
  - rewrite andb_false_r. cbn [orb]. apply scan_l1l2; assumption.
Qed.

Lemma forallb_cons {A} (f : A -> bool) a l : forallb f (a :: l) = true -> f a = true /\ forallb f l = true.
Proof. cbn [forallb]. intros H. apply andb_true_iff in H. exact H. Qed.

(* only_first = True: the first entry the scanner takes *)
Lemma scan_first sats p d es :
  forallb wf_entry es = true -> plain p = true ->
  scan sats p true d (lines_of es) [] =
  match find (takes sats p true d) es with Some e => Res [entry_tle e] | None => Res [] end.
Proof.
  intros W P. induction es as [|e es IH]; [reflexivity|].
  apply forallb_cons in W as [We Wes]. unfold lines_of. cbn [flat_map find].
  rewrite scan_entry by assumption. destruct (takes sats p true d e); [reflexivity|].
  apply IH, Wes.
Qed.

(* only_first = False: every entry the scanner takes, in order *)
Lemma scan_all sats p d es : forall acc,
  forallb wf_entry es = true -> plain p = true ->
  scan sats p false d (lines_of es) acc = Res (acc ++ map entry_tle (filter (takes sats p false d) es)).
Proof.
  induction es as [|e es IH]; intros acc W P.
  - cbn. rewrite app_nil_r. reflexivity.
  - apply forallb_cons in W as [We Wes]. unfold lines_of. cbn [flat_map filter].
    rewrite scan_entry by assumption. destruct (takes sats p false d e).
    + fold (lines_of es). rewrite IH by assumption. cbn [map]. rewrite <- app_assoc. reflexivity.
    + apply IH; assumption.
Qed.

Lemma read_tle_single sats d p es :
  forallb wf_entry es = true -> plain p = true ->
  read_tle sats d p [lines_of es] =
  match find (takes sats p true d) es with
  | Some e => Found (strip (e_l1 e)) (strip (e_l2 e))
  | None => KeyError
  end.
Proof.
  intros W P. unfold read_tle. cbn [from_uris]. rewrite scan_first by assumption.
  destruct (find (takes sats p true d) es); reflexivity.
Qed.

(* ================================================================== *)
(* the specification: which entry qualifies                           *)
(* ================================================================== *)
Definition cat_field (l : line) : line := firstn 5 (skipn 2 l).     (* line-1 columns 3-7 *)

Definition qualifies (sats : dict) (p : line) (e : entry) : bool :=
  name_is p e ||
  match dict_get sats p with
  | Some id => leqb id (cat_field (strip (e_l1 e)))
  | None => false
  end.

Definition spec_entry (sats : dict) (stream : bool) (p : line) (es : list entry) : option entry :=
  if stream && isempty p then hd_error es else find (qualifies sats p) es.

Definition spec_read (sats : dict) (stream : bool) (p : line) (es : list entry) : outcome :=
  match spec_entry sats stream p es with
  | Some e => Found (strip (e_l1 e)) (strip (e_l2 e))
  | None => KeyError
  end.

Lemma find_ext_in {A} (f g : A -> bool) l : (forall x, In x l -> f x = g x) -> find f l = find g l.
Proof.
  induction l as [|a l IH]; intros H; [reflexivity|]. cbn [find].
  rewrite (H a (or_introl eq_refl)). destruct (g a); [reflexivity|].
  apply IH. intros x Hx. apply H. right. exact Hx.
Qed.

Lemma wf_l1 e : wf_entry e = true -> prefixb one_sp (strip (e_l1 e)) = true.
Proof.
  unfold wf_entry. intros W. apply andb_true_iff in W as [W _]. apply andb_true_iff in W as [_ W]. exact W.
Qed.

Lemma takes_registered sats p d e id :
  dict_get sats p = Some id -> length id = 5 -> wf_entry e = true ->
  takes sats p true d e = qualifies sats p e.
Proof.
  intros G L W. unfold takes, qualifies, designator, take_cond, dict_mem. rewrite G.
  rewrite prefixb_app, (wf_l1 e W), L. cbn [orb andb]. rewrite andb_true_r. reflexivity.
Qed.

Lemma takes_unregistered sats p d e :
  dict_get sats p = None -> p <> [] -> takes sats p true d e = qualifies sats p e.
Proof.
  intros G N. unfold takes, qualifies, take_cond, dict_mem. rewrite G.
  destruct p; [contradiction|]. cbn [isempty negb orb andb]. rewrite !andb_false_r. reflexivity.
Qed.

Lemma takes_empty sats d e :
  dict_get sats [] = None -> wf_entry e = true -> takes sats [] true d e = d.
Proof.
  intros G W. unfold takes, name_is, designator, take_cond, dict_mem. rewrite G.
  rewrite prefixb_nil_r, (wf_l1 e W). cbn. rewrite andb_true_r. reflexivity.
Qed.

Lemma qualifies_empty sats e : dict_get sats [] = None -> qualifies sats [] e = false.
Proof. intros G. unfold qualifies, name_is. rewrite G. reflexivity. Qed.

Lemma forallb_In {A} (f : A -> bool) l x : forallb f l = true -> In x l -> f x = true.
Proof. intros H. apply (proj1 (forallb_forall f l) H). Qed.

Lemma find_const_true {A} (l : list A) : find (fun _ => true) l = hd_error l.
Proof. destruct l; reflexivity. Qed.

Lemma find_const_false {A} (l : list A) : find (fun _ => false) l = None.
Proof. induction l; [reflexivity|exact IHl]. Qed.

(* the entry the scanner takes is the one the property names *)
Lemma find_takes_spec sats stream p es :
  sats_ok sats = true -> forallb wf_entry es = true ->
  find (takes sats p true stream) es = spec_entry sats stream p es.
Proof.
  intros S W. unfold spec_entry. destruct p as [|c p'].
  - pose proof (dict_get_nil_none sats S) as G.
    rewrite (find_ext_in _ (fun _ => stream)).
    2:{ intros e He. apply takes_empty; [exact G|exact (forallb_In _ _ _ W He)]. }
    destruct stream; cbn [andb isempty].
    + apply find_const_true.
    + rewrite find_const_false. symmetry.
      rewrite (find_ext_in _ (fun _ => false)); [apply find_const_false|].
      intros e _. apply qualifies_empty, G.
  - rewrite andb_false_r. apply find_ext_in. intros e He.
    destruct (dict_get sats (c :: p')) as [id|] eqn:G.
    + destruct (dict_get_ok _ _ _ S G) as [_ L].
      apply (takes_registered _ _ _ _ id); [exact G|exact L|exact (forallb_In _ _ _ W He)].
    + apply takes_unregistered; [exact G|discriminate].
Qed.

Theorem first_match sats stream p es :
  sats_ok sats = true -> forallb wf_entry es = true -> plain p = true ->
  read_tle sats stream p [lines_of es] = spec_read sats stream p es.
Proof.
  intros S W P. rewrite read_tle_single by assumption. unfold spec_read.
  rewrite find_takes_spec by assumption. reflexivity.
Qed.

Lemma spec_entry_in sats stream p es e : spec_entry sats stream p es = Some e -> In e es.
Proof.
  unfold spec_entry. destruct (stream && isempty p).
  - destruct es; cbn; intros H; inversion H. left. reflexivity.
  - intros H. apply find_some in H. apply H.
Qed.

(* both result lines come from one and the same entry of the collection *)
Theorem same_entry sats stream p es a b :
  sats_ok sats = true -> forallb wf_entry es = true -> plain p = true ->
  read_tle sats stream p [lines_of es] = Found a b ->
  exists i e, nth_error es i = Some e /\ a = strip (e_l1 e) /\ b = strip (e_l2 e).
Proof.
  intros S W P H. rewrite first_match in H by assumption. unfold spec_read in H.
  destruct (spec_entry sats stream p es) as [e|] eqn:E; [|discriminate].
  inversion H; subst. apply spec_entry_in in E. apply In_nth_error in E as [i Hi].
  exists i, e. auto.
Qed.

(* whatever is returned qualifies (or is the first entry, for an empty name on a stream);
   if nothing qualifies the read fails with KeyError *)
Theorem no_foreign_entry sats stream p es :
  sats_ok sats = true -> forallb wf_entry es = true -> plain p = true ->
  (forall a b, read_tle sats stream p [lines_of es] = Found a b ->
     exists e, In e es /\ a = strip (e_l1 e) /\ b = strip (e_l2 e) /\
               (qualifies sats p e = true \/ (stream = true /\ p = [] /\ hd_error es = Some e)))
  /\ ((forall e, In e es -> qualifies sats p e = false) ->
      (stream = false \/ p <> [] \/ es = []) ->
      read_tle sats stream p [lines_of es] = KeyError).
Proof.
  intros S W P. rewrite first_match by assumption. unfold spec_read. split.
  - intros a b H. destruct (spec_entry sats stream p es) as [e|] eqn:E; [|discriminate].
    inversion H; subst. exists e. split; [exact (spec_entry_in _ _ _ _ _ E)|]. split; [reflexivity|]. split; [reflexivity|].
    unfold spec_entry in E. destruct stream, p as [|c p']; cbn [andb isempty] in E.
    + right. auto.
    + left. apply find_some in E. apply E.
    + left. apply find_some in E. apply E.
    + left. apply find_some in E. apply E.
  - intros NQ C. destruct (spec_entry sats stream p es) as [e|] eqn:E; [|reflexivity]. exfalso.
    unfold spec_entry in E. destruct (stream && isempty p) eqn:B.
    + apply andb_true_iff in B as [B1 B2]. destruct C as [C|[C|C]].
      * congruence.
      * destruct p; [contradiction|discriminate].
      * subst es. discriminate.
    + apply find_some in E as [Hin Hq]. rewrite (NQ e Hin) in Hq. discriminate.
Qed.

(* a requested name that is registered with a 5-character id returns only entries carrying
   that catalogue number or that very name line *)
Lemma qualifies_meaning sats p e :
  qualifies sats p e = true ->
  (p <> [] /\ exists n, e_name e = Some n /\ strip n = p) \/
  (exists id, dict_get sats p = Some id /\ cat_field (strip (e_l1 e)) = id).
Proof.
  unfold qualifies, name_is. intros H. apply orb_true_iff in H as [H|H].
  - left. apply andb_true_iff in H as [H1 H2]. split; [destruct p; [discriminate|discriminate]|].
    destruct (e_name e) as [n|]; [|discriminate]. exists n. split; [reflexivity|apply leqb_eq, H2].
  - right. destruct (dict_get sats p) as [id|]; [|discriminate]. exists id. split; [reflexivity|].
    apply leqb_eq in H. congruence.
Qed.

(* ================================================================== *)
(* scan depends on its lines only through strip(): XML messages       *)
(* ================================================================== *)
Lemma classify_strip sats p l l' : strip l = strip l' -> classify sats p l = classify sats p l'.
Proof. intros E. unfold classify. rewrite E. reflexivity. Qed.

Lemma scan_ext sats p o d n : forall fid fid' acc,
  length fid <= n -> map strip fid = map strip fid' ->
  scan sats p o d fid acc = scan sats p o d fid' acc.
Proof.
  induction n as [|n IH]; intros fid fid' acc L E.
  - destruct fid; [|cbn in L; lia]. destruct fid'; [reflexivity|discriminate].
  - destruct fid as [|l0 fid1]; destruct fid' as [|l0' fid1']; try discriminate; [reflexivity|].
    cbn [map] in E. inversion E as [[E0 E1]]. cbn [length] in L.
    rewrite !scan_cons, (classify_strip _ _ _ _ E0).
    destruct (classify sats p l0').
    + destruct fid1 as [|l1 [|l2 fid3]]; destruct fid1' as [|l1' [|l2' fid3']]; try discriminate; try reflexivity.
      cbn [map] in E1. inversion E1 as [[Ea Eb Ec]]. rewrite Ea, Eb.
      destruct o; [reflexivity|]. apply IH; [cbn [length] in L; lia|exact Ec].
    + destruct (take_cond sats p o d).
      * destruct fid1 as [|l2 fid2]; destruct fid1' as [|l2' fid2']; try discriminate; [reflexivity|].
        cbn [map] in E1. inversion E1 as [[Ea Eb]]. rewrite E0, Ea.
        destruct o; [reflexivity|]. apply IH; [cbn [length] in L; lia|exact Eb].
      * apply IH; [lia|exact E1].
    + apply IH; [lia|exact E1].
Qed.

Lemma scan_strip_ext sats p o d fid fid' acc :
  map strip fid = map strip fid' -> scan sats p o d fid acc = scan sats p o d fid' acc.
Proof. apply (scan_ext sats p o d (length fid)). lia. Qed.

Lemma add_newlines_strip ls : map strip (add_newlines ls) = map strip ls.
Proof.
  induction ls as [|l t IH]; [reflexivity|]. destruct t as [|l' t']; [reflexivity|].
  change (add_newlines (l :: l' :: t')) with ((l ++ [nl]) :: add_newlines (l' :: t')).
  cbn [map]. cbn [map] in IH. rewrite IH, (strip_snoc_space l nl nl_space). reflexivity.
Qed.

Definition nav_entry (p : line * line) : entry := mk_entry None (fst p) (snd p).

Lemma lines_of_navs navs : lines_of (map nav_entry navs) = flat_map (fun p => [fst p; snd p]) navs.
Proof. induction navs as [|p t IH]; [reflexivity|]. cbn. unfold lines_of in IH. rewrite IH. reflexivity. Qed.

(* an XML admin message reads like the stream of its (line-1, line-2) pairs without name lines *)
Theorem xml_as_stream sats p navs :
  read_tle sats true p [xml_lines navs] = read_tle sats true p [lines_of (map nav_entry navs)].
Proof.
  unfold read_tle. cbn [from_uris].
  rewrite (scan_strip_ext sats p true true (xml_lines navs) (lines_of (map nav_entry navs))); [reflexivity|].
  unfold xml_lines. rewrite add_newlines_strip, lines_of_navs. reflexivity.
Qed.

(* ================================================================== *)
(* bulk reads                                                         *)
(* ================================================================== *)
Lemma plain_nil : plain [] = true.
Proof. reflexivity. Qed.

Lemma takes_bulk sats e :
  dict_get sats [] = None -> wf_entry e = true -> takes sats [] false false e = true.
Proof.
  intros G W. unfold takes, name_is, designator, take_cond, dict_mem. rewrite G.
  rewrite prefixb_nil_r, (wf_l1 e W). reflexivity.
Qed.

Lemma filter_all {A} (f : A -> bool) l : (forall x, In x l -> f x = true) -> filter f l = l.
Proof.
  induction l as [|a l IH]; intros H; [reflexivity|]. cbn [filter].
  rewrite (H a (or_introl eq_refl)). f_equal. apply IH. intros x Hx. apply H. right. exact Hx.
Qed.

Lemma from_uris_bulk sats fs :
  dict_get sats [] = None -> forallb (forallb wf_entry) fs = true ->
  from_uris sats [] false false (map lines_of fs) = Res (map entry_tle (concat fs)).
Proof.
  intros G. induction fs as [|es fs IH]; intros W; [reflexivity|].
  apply forallb_cons in W as [We Wfs]. cbn [map from_uris concat].
  rewrite scan_all by (exact We || exact plain_nil). rewrite IH by exact Wfs.
  rewrite filter_all by (intros e He; apply takes_bulk; [exact G|exact (forallb_In _ _ _ We He)]).
  cbn [app]. rewrite map_app. reflexivity.
Qed.

Lemma read_pair sats a b :
  dict_get sats [] = None -> prefixb one_sp (strip a) = true ->
  read_tle sats true [] [[a ++ [nl]; b]] = Found (strip a) (strip b).
Proof.
  intros G W1. unfold read_tle. cbn [from_uris]. rewrite scan_cons.
  assert (C : classify sats [] (a ++ [nl]) = BDesig).
  { unfold classify, designator. rewrite G. cbn [isempty negb andb].
    rewrite prefixb_nil_r, (strip_snoc_space _ nl nl_space), W1. reflexivity. }
  rewrite C. unfold take_cond, dict_mem. rewrite G. cbn [orb negb andb isempty].
  rewrite (strip_snoc_space _ nl nl_space). reflexivity.
Qed.

Lemma tle_of_pair_wf sats e :
  dict_get sats [] = None -> wf_entry e = true ->
  tle_of_pair sats (entry_tle e) = Found (strip (e_l1 e)) (strip (e_l2 e)).
Proof.
  intros G W. pose proof (wf_l1 e W) as W1.
  assert (W2 : prefixb two_sp (strip (e_l2 e)) = true).
  { unfold wf_entry in W. apply andb_true_iff in W as [_ W]. exact W. }
  unfold tle_of_pair, merged_lines, entry_tle. cbn [fst snd].
  destruct (strip (e_l2 e)) as [|c b'] eqn:E2; [discriminate|]. rewrite <- E2.
  rewrite read_pair; [rewrite !strip_idem; reflexivity|exact G|rewrite strip_idem; exact W1].
Qed.

Lemma collect_found sats es :
  dict_get sats [] = None -> forallb wf_entry es = true ->
  collect (map (tle_of_pair sats) (map entry_tle es)) = BulkOk (map entry_tle es).
Proof.
  intros G. induction es as [|e es IH]; intros W; [reflexivity|].
  apply forallb_cons in W as [We Wes]. cbn [map]. rewrite (tle_of_pair_wf sats e G We).
  cbn [collect]. rewrite (IH Wes). reflexivity.
Qed.

Lemma forallb_concat {A} (f : A -> bool) ls : forallb (forallb f) ls = true -> forallb f (concat ls) = true.
Proof.
  induction ls as [|l ls IH]; intros H; [reflexivity|]. apply forallb_cons in H as [H1 H2].
  cbn [concat]. rewrite forallb_app, H1. apply IH, H2.
Qed.

(* Downloader.read_tle_files: every entry of every file, in order *)
Theorem bulk_order sats fs :
  sats_ok sats = true -> forallb (forallb wf_entry) fs = true ->
  read_tle_files sats (map lines_of fs) = BulkOk (map entry_tle (concat fs)).
Proof.
  intros S W. pose proof (dict_get_nil_none sats S) as G.
  unfold read_tle_files. rewrite from_uris_bulk by assumption.
  apply collect_found; [exact G|apply forallb_concat, W].
Qed.

(* read_xml_admin_messages: every (line-1, line-2) pair of every message, in order *)
Theorem bulk_order_xml sats (fs : list (list (line * line))) :
  sats_ok sats = true -> forallb (forallb (fun p => wf_entry (nav_entry p))) fs = true ->
  read_xml_files sats fs = BulkOk (map (fun p => entry_tle (nav_entry p)) (concat fs)).
Proof.
  intros S W. pose proof (dict_get_nil_none sats S) as G. unfold read_xml_files.
  assert (H : forall navs, forallb (fun p => wf_entry (nav_entry p)) navs = true ->
     flat_map (fun p => if isempty (fst p) || isempty (snd p) then []
                        else [read_tle sats true [] [[fst p ++ [nl]; snd p]]]) navs
     = map (fun p => Found (strip (fst p)) (strip (snd p))) navs).
  { induction navs as [|p t IH]; intros Wn; [reflexivity|]. apply forallb_cons in Wn as [Wp Wt].
    cbn [flat_map map]. rewrite (IH Wt).
    unfold wf_entry in Wp. cbn [nav_entry e_name e_l1 e_l2] in Wp.
    apply andb_true_iff in Wp as [Wp W2]. apply andb_true_iff in Wp as [_ W1].
    destruct p as [a b]. cbn [fst snd] in *.
    destruct a as [|ca a']; [discriminate|]. destruct b as [|cb b']; [discriminate|].
    cbn [isempty orb].
    match goal with |- [?x] ++ ?l = _ => change ([x] ++ l) with (x :: l) end.
    f_equal. apply read_pair; assumption. }
  assert (C : forall ps : list (line * line),
     collect (map (fun p => Found (strip (fst p)) (strip (snd p))) ps)
     = BulkOk (map (fun p => entry_tle (nav_entry p)) ps)).
  { induction ps as [|p ps IH]; [reflexivity|]. cbn [map collect]. rewrite IH. reflexivity. }
  rewrite <- C. f_equal.
  induction fs as [|navs fs IH]; [reflexivity|]. apply forallb_cons in W as [W1 W2].
  cbn [flat_map concat]. rewrite (IH W2), (H navs W1), map_app. reflexivity.
Qed.

(* ================================================================== *)
(* read_platform_numbers                                              *)
(* ================================================================== *)
Definition word (w : line) : Prop := w <> [] /\ forallb (fun c => negb (is_space c)) w = true.
Definition spaces (s : line) : Prop := forallb is_space s = true.

(* a row assembled from words, each followed by a run of white space *)
Fixpoint build (toks : list (line * line)) : line :=
  match toks with [] => [] | (w, s) :: t => w ++ s ++ build t end.
Fixpoint good (toks : list (line * line)) : Prop :=
  match toks with
  | [] => True
  | (w, s) :: t => word w /\ spaces s /\ (t <> [] -> s <> []) /\ good t
  end.

Lemma split_aux_spaces s rest : spaces s -> split_aux (s ++ rest) [] = split_aux rest [].
Proof.
  unfold spaces. induction s as [|c s IH]; intros H; [reflexivity|].
  cbn [forallb] in H. apply andb_true_iff in H as [H1 H2]. cbn [app split_aux]. rewrite H1. apply IH, H2.
Qed.

Lemma split_aux_word w : forall rest cur,
  forallb (fun c => negb (is_space c)) w = true -> split_aux (w ++ rest) cur = split_aux rest (rev w ++ cur).
Proof.
  induction w as [|c w IH]; intros rest cur H; [reflexivity|].
  cbn [forallb] in H. apply andb_true_iff in H as [H1 H2]. apply negb_true_iff in H1.
  cbn [app split_aux rev]. rewrite H1, IH by exact H2. rewrite <- app_assoc. reflexivity.
Qed.

Lemma split_build toks : good toks -> split_aux (build toks) [] = map fst toks.
Proof.
  induction toks as [|[w s] t IH]; intros G; [reflexivity|].
  cbn [good] in G. destruct G as ((Wn & Ww) & Ss & Sn & Gt). cbn [build map fst].
  rewrite split_aux_word by exact Ww. rewrite app_nil_r.
  assert (R : rev w <> []). { intros E. apply Wn. rewrite <- (rev_involutive w), E. reflexivity. }
  destruct s as [|c s'].
  - destruct t as [|x t']; [|exfalso; apply Sn; [discriminate|reflexivity]].
    cbn [app build split_aux]. destruct (rev w) eqn:E; [contradiction|]. rewrite <- E, rev_involutive. reflexivity.
  - unfold spaces in Ss. cbn [forallb] in Ss. apply andb_true_iff in Ss as [S1 S2].
    cbn [app split_aux]. rewrite S1. destruct (rev w) eqn:E; [contradiction|]. rewrite <- E, rev_involutive.
    f_equal. rewrite split_aux_spaces by exact S2. apply IH, Gt.
Qed.

Lemma split_ws_build lead toks :
  spaces lead -> good toks -> split_ws (lead ++ build toks) = map fst toks.
Proof. intros L G. unfold split_ws. rewrite split_aux_spaces by exact L. apply split_build, G. Qed.

(* leading words -> last token; comment rows and rows with fewer than two words are skipped *)
Theorem platform_row_spec up lead toks :
  spaces lead -> good toks -> prefixb [ch 35] (lead ++ build toks) = false ->
  platform_row up (lead ++ build toks) =
  if length toks <? 2 then None
  else Some (let name := join_sp (removelast (map fst toks)) in if up then upper name else name,
             last (map fst toks) []).
Proof.
  intros L G C. unfold platform_row. rewrite C, split_ws_build by assumption.
  rewrite map_length. reflexivity.
Qed.

Theorem platform_row_comment up row : prefixb [ch 35] row = true -> platform_row up row = None.
Proof. intros H. unfold platform_row. rewrite H. reflexivity. Qed.

(* the registry: the LAST row naming a platform wins (dict assignment) *)
Definition bindings (up : bool) (rows : list line) : list (line * line) :=
  flat_map (fun r => match platform_row up r with Some kv => [kv] | None => [] end) rows.
Fixpoint last_binding (bs : list (line * line)) (k : line) : option line :=
  match bs with
  | [] => None
  | (k', v) :: t => match last_binding t k with
                    | Some v' => Some v'
                    | None => if leqb k k' then Some v else None
                    end
  end.

Lemma fold_platforms up rows k : forall d,
  dict_get (fold_left (fun d row => match platform_row up row with
                                    | Some (k, v) => dict_set d k v
                                    | None => d
                                    end) rows d) k =
  match last_binding (bindings up rows) k with Some v => Some v | None => dict_get d k end.
Proof.
  induction rows as [|r rows IH]; intros d; [reflexivity|].
  cbn [fold_left]. rewrite IH. unfold bindings. cbn [flat_map].
  destruct (platform_row up r) as [[k' v]|]; cbn [app last_binding]; [|reflexivity].
  fold (bindings up rows). destruct (last_binding (bindings up rows) k); [reflexivity|].
  rewrite dict_get_set. destruct (leqb k k'); reflexivity.
Qed.

Theorem platform_numbers_spec up rows k :
  dict_get (read_platform_numbers up rows) k = last_binding (bindings up rows) k.
Proof.
  unfold read_platform_numbers. rewrite fold_platforms.
  destruct (last_binding (bindings up rows) k); reflexivity.
Qed.

(* ================================================================== *)
(* several sources; registry keys; adjacency                          *)
(* ================================================================== *)
(* ---- several sources (the URL list): every source is scanned, the first hit in source order wins ---- *)
Definition first_hit sats p d (es : list entry) : list tle :=
  match find (takes sats p true d) es with Some e => [entry_tle e] | None => [] end.

Lemma from_uris_first sats p d fs :
  forallb (forallb wf_entry) fs = true -> plain p = true ->
  from_uris sats p true d (map lines_of fs) = Res (flat_map (first_hit sats p d) fs).
Proof.
  intros W P. induction fs as [|es fs IH]; [reflexivity|].
  apply forallb_cons in W as [We Wfs]. cbn [map from_uris flat_map].
  rewrite scan_first by assumption. rewrite (IH Wfs). unfold first_hit.
  destruct (find (takes sats p true d) es); reflexivity.
Qed.

Lemma find_app {A} (f : A -> bool) l1 l2 :
  find f (l1 ++ l2) = match find f l1 with Some x => Some x | None => find f l2 end.
Proof. induction l1 as [|a l1 IH]; [reflexivity|]. cbn [app find]. destruct (f a); [reflexivity|exact IH]. Qed.

Lemma first_hit_concat sats p d fs :
  match flat_map (first_hit sats p d) fs with
  | [] => KeyError
  | (a, b) :: _ => Found a b
  end =
  match find (takes sats p true d) (concat fs) with
  | Some e => Found (strip (e_l1 e)) (strip (e_l2 e))
  | None => KeyError
  end.
Proof.
  induction fs as [|es fs IH]; [reflexivity|]. cbn [flat_map concat]. rewrite find_app.
  unfold first_hit at 1. destruct (find (takes sats p true d) es) as [e|]; [reflexivity|exact IH].
Qed.

Theorem first_match_sources sats stream p fs :
  sats_ok sats = true -> forallb (forallb wf_entry) fs = true -> plain p = true ->
  read_tle sats stream p (map lines_of fs) = spec_read sats stream p (concat fs).
Proof.
  intros S W P. unfold read_tle. rewrite from_uris_first by assumption.
  rewrite first_hit_concat. unfold spec_read.
  rewrite find_takes_spec by (exact S || apply forallb_concat, W). reflexivity.
Qed.

(* ---- registry keys are never empty (so an empty requested name is never "registered") ---- *)
Lemma split_aux_nonempty l : forall cur w, In w (split_aux l cur) -> w <> [].
Proof.
  induction l as [|c t IH]; intros cur w H; cbn [split_aux] in H.
  - destruct cur as [|x cur']; [contradiction|]. destruct H as [<-|[]].
    intros E. apply (f_equal (@rev ascii)) in E. rewrite rev_involutive in E. discriminate.
  - destruct (is_space c).
    + destruct cur as [|x cur']; [exact (IH _ _ H)|]. destruct H as [<-|H]; [|exact (IH _ _ H)].
      intros E. apply (f_equal (@rev ascii)) in E. rewrite rev_involutive in E. discriminate.
    + exact (IH _ _ H).
Qed.

Lemma join_sp_nonempty ws : ws <> [] -> (forall w, In w ws -> w <> []) -> join_sp ws <> [].
Proof.
  destruct ws as [|w t]; [contradiction|]. intros _ H. cbn [join_sp].
  assert (Hw : w <> []) by (apply H; left; reflexivity).
  destruct t; [exact Hw|]. destruct w; [contradiction|discriminate].
Qed.

Lemma removelast_In {A} (l : list A) x : In x (removelast l) -> In x l.
Proof.
  induction l as [|a l IH]; [contradiction|]. cbn [removelast]. destruct l as [|b l']; [contradiction|].
  intros [<-|H]; [left; reflexivity|right; apply IH, H].
Qed.

Lemma platform_row_key_nonempty up row k v : platform_row up row = Some (k, v) -> k <> [].
Proof.
  unfold platform_row. destruct (prefixb [ch 35] row); [discriminate|].
  destruct (length (split_ws row) <? 2) eqn:L; [discriminate|]. apply Nat.ltb_ge in L.
  intros H. inversion H as [[Hk Hv]]. clear H Hv.
  assert (J : join_sp (removelast (split_ws row)) <> []).
  { apply join_sp_nonempty.
    - destruct (split_ws row) as [|a [|b t]]; cbn [length] in L; try lia. cbn [removelast]. discriminate.
    - intros w Hw. apply removelast_In in Hw. exact (split_aux_nonempty row [] w Hw). }
  destruct up; [|exact J]. unfold upper. intros E. apply map_eq_nil in E. contradiction.
Qed.

Lemma dict_set_in d k v : forall kv, In kv (dict_set d k v) -> kv = (k, v) \/ In kv d.
Proof.
  induction d as [|[k' v'] t IH]; intros kv H; cbn [dict_set] in H.
  - destruct H as [<-|[]]. left. reflexivity.
  - destruct (leqb k k').
    + destruct H as [<-|H]; [left; reflexivity|right; right; exact H].
    + destruct H as [<-|H]; [right; left; reflexivity|].
      destruct (IH kv H) as [E|E]; [left; exact E|right; right; exact E].
Qed.

Lemma registry_keys_nonempty up rows : forall d,
  (forall kv, In kv d -> fst kv <> []) ->
  forall kv, In kv (fold_left (fun d row => match platform_row up row with
                                            | Some (k, v) => dict_set d k v
                                            | None => d
                                            end) rows d) -> fst kv <> [].
Proof.
  induction rows as [|r rows IH]; intros d Hd kv H; cbn [fold_left] in H; [exact (Hd kv H)|].
  apply (IH _) in H; [exact H|]. intros kv' H'.
  destruct (platform_row up r) as [[k v]|] eqn:R; [|exact (Hd kv' H')].
  apply dict_set_in in H' as [->|H']; [|exact (Hd kv' H')].
  cbn [fst]. exact (platform_row_key_nonempty up r k v R).
Qed.

Definition ids5 (sats : dict) : bool := forallb (fun kv => length (snd kv) =? 5) sats.

(* for a registry read from ANY platforms file, only "ids have 5 characters" remains to be checked *)
Theorem registry_sats_ok up rows :
  ids5 (read_platform_numbers up rows) = true -> sats_ok (read_platform_numbers up rows) = true.
Proof.
  unfold ids5, sats_ok. intros H. rewrite forallb_forall in *. intros kv Hin.
  rewrite (H kv Hin), andb_true_r.
  pose proof (registry_keys_nonempty up rows [] (fun kv (F : In kv []) => match F with end) kv Hin) as N.
  destruct kv as [k v]. cbn [fst] in *. destruct k as [|c k']; [exfalso; apply N; reflexivity|reflexivity].
Qed.

(* ---- unconditional (no well-formedness at all): whatever the scanner returns is a pair of
   ADJACENT source lines — the two result lines are never picked from distant places ---- *)
Definition adjacent (fid : list line) (t : tle) : Prop :=
  exists pre l1 l2 post, fid = pre ++ l1 :: l2 :: post /\ t = (strip l1, strip l2).

Lemma adjacent_cons l fid t : adjacent fid t -> adjacent (l :: fid) t.
Proof. intros (pre & l1 & l2 & post & E & T). exists (l :: pre), l1, l2, post. subst. split; reflexivity. Qed.

Lemma scan_adjacent sats p o d n : forall fid acc ts,
  length fid <= n -> scan sats p o d fid acc = Res ts ->
  forall t, In t ts -> In t acc \/ adjacent fid t.
Proof.
  induction n as [|n IH]; intros fid acc ts L H t Ht.
  - destruct fid; [|cbn in L; lia]. cbn in H. inversion H; subst. left. exact Ht.
  - destruct fid as [|l0 fid1]; [cbn in H; inversion H; subst; left; exact Ht|].
    cbn [length] in L. rewrite scan_cons in H.
    assert (STEP : forall fid' acc', length fid' <= n -> scan sats p o d fid' acc' = Res ts ->
                     (forall x, In x acc' -> In x acc \/ adjacent (l0 :: fid1) x) ->
                     (forall x, adjacent fid' x -> adjacent (l0 :: fid1) x) ->
                     In t acc \/ adjacent (l0 :: fid1) t).
    { intros fid' acc' L' H' Hacc Hadj. destruct (IH fid' acc' ts L' H' t Ht) as [A|A]; [exact (Hacc t A)|right; exact (Hadj t A)]. }
    destruct (classify sats p l0).
    + destruct fid1 as [|l1 [|l2 fid3]]; try discriminate.
      assert (HERE : adjacent (l0 :: l1 :: l2 :: fid3) (strip l1, strip l2)).
      { exists [l0], l1, l2, fid3. split; reflexivity. }
      destruct o.
      * inversion H; subst. destruct Ht as [<-|[]]. right. exact HERE.
      * apply (STEP fid3 (acc ++ [(strip l1, strip l2)])); [cbn [length] in L; lia|exact H| |].
        -- intros x Hx. apply in_app_or in Hx as [Hx|[<-|[]]]; [left; exact Hx|right; exact HERE].
        -- intros x Hx. do 3 apply adjacent_cons. exact Hx.
    + destruct (take_cond sats p o d).
      * destruct fid1 as [|l2 fid2]; try discriminate.
        assert (HERE : adjacent (l0 :: l2 :: fid2) (strip l0, strip l2)).
        { exists [], l0, l2, fid2. split; reflexivity. }
        destruct o.
        -- inversion H; subst. destruct Ht as [<-|[]]. right. exact HERE.
        -- apply (STEP fid2 (acc ++ [(strip l0, strip l2)])); [cbn [length] in L; lia|exact H| |].
           ++ intros x Hx. apply in_app_or in Hx as [Hx|[<-|[]]]; [left; exact Hx|right; exact HERE].
           ++ intros x Hx. do 2 apply adjacent_cons. exact Hx.
      * apply (STEP fid1 acc); [lia|exact H|intros x Hx; left; exact Hx|intros x Hx; apply adjacent_cons; exact Hx].
    + apply (STEP fid1 acc); [lia|exact H|intros x Hx; left; exact Hx|intros x Hx; apply adjacent_cons; exact Hx].
Qed.

Theorem result_lines_adjacent sats d p fid a b :
  read_tle sats d p [fid] = Found a b -> adjacent fid (a, b).
Proof.
  unfold read_tle. cbn [from_uris]. destruct (scan sats p true d fid []) as [ts|] eqn:E; [|discriminate].
  rewrite app_nil_r. destruct ts as [|[a' b'] ts']; [discriminate|]. intros H. inversion H; subst.
  destruct (scan_adjacent sats p true d (length fid) fid [] _ (le_n _) E (a, b) (or_introl eq_refl)) as [[]|A].
  exact A.
Qed.

(* ================================================================== *)
(* necessity of the hypotheses: witnesses on the faithful model       *)
(* ================================================================== *)
From Coq Require Import String.
Local Notation length := List.length.
Definition s2l (s : string) : line := list_ascii_of_string s.

(* a registered id of 4 characters matches by PREFIX: satellite 25544 is returned for id "2554" *)
Lemma short_id_refuted :
  exists sats p es a b,
    forallb wf_entry es = true /\ plain p = true /\
    (forall e, In e es -> qualifies sats p e = false) /\
    read_tle sats false p [lines_of es] = Found a b.
Proof.
  exists [(s2l "X", s2l "2554")], (s2l "X"),
         [mk_entry None (s2l "1 25544U 98067A") (s2l "2 25544  51.6416")],
         (s2l "1 25544U 98067A"), (s2l "2 25544  51.6416").
  split; [reflexivity|]. split; [reflexivity|]. split; [|reflexivity].
  intros e [<-|[]]. reflexivity.
Qed.

(* a requested name that is itself a line-1 text makes the scanner return (line 2 of that entry,
   line 1 of the NEXT entry): both lines of the result are not from one entry *)
Lemma plain_name_refuted :
  exists sats p es a b,
    sats_ok sats = true /\ forallb wf_entry es = true /\
    read_tle sats true p [lines_of es] = Found a b /\
    ~ exists e, In e es /\ a = strip (e_l1 e) /\ b = strip (e_l2 e).
Proof.
  exists [], (s2l "1 11111U A"),
         [mk_entry None (s2l "1 11111U A") (s2l "2 11111 B"); mk_entry None (s2l "1 22222U C") (s2l "2 22222 D")],
         (s2l "2 11111 B"), (s2l "1 22222U C").
  split; [reflexivity|]. split; [reflexivity|]. split; [reflexivity|].
  intros (e & [<-|[<-|[]]] & Ha & Hb); vm_compute in Ha; discriminate.
Qed.

(* regression witness for the defect fixed in /repo b90fb81: had the designator arm been taken on
   `open_is_dummy` alone, an unregistered name on a stream would return the FIRST entry *)
Definition take_cond_old (sats : dict) (platform : line) (only_first dummy : bool) : bool :=
  (dict_mem sats platform || negb only_first) || dummy.
Lemma old_stream_condition_refuted :
  exists sats p es,
    sats_ok sats = true /\ forallb wf_entry es = true /\ plain p = true /\
    spec_entry sats true p es = nth_error es 1 /\
    find (fun e => name_is p e || (prefixb (designator sats p) (strip (e_l1 e)) && take_cond_old sats p true true)) es
      = nth_error es 0.
Proof.
  exists [], (s2l "FOO SAT"),
         [mk_entry (Some (s2l "BAR")) (s2l "1 11111U A") (s2l "2 11111 B");
          mk_entry (Some (s2l "FOO SAT")) (s2l "1 22222U C") (s2l "2 22222 D")].
  repeat split; reflexivity.
Qed.
