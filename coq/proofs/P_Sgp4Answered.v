(* C01 / C13: a healthy orbit is ANSWERED.  On the near-earth-normal paths, if the decay guards hold at the requested time
   (a >= 1, e >= -0.001), eL^2 <= 4/25 and the perigee of the osculating ellipse a (1 - eL) is at least 1.005 earth radii
   (32 km above the surface), then the propagation regenerated from the source returns a state: none of the error exits is
   taken, the Newton loop meets its stopping rule, and the short-period radius test rk >= 1 passes at whatever exit.
   This makes the hypothesis "outcome = PropOk j" of the accuracy theorems a consequence of conditions on the elements, and
   is the converse direction of the decay detection of C13 (an orbit that is not decaying is not reported as decayed). *)
From Coq Require Import Reals Lra Lia.
From Coquelicot Require Import Rcomplements.
From PyOrb.lib Require Import PyReal SgpOutcome.
From PyOrb.spec Require Import Spec_SGP4.
From PyOrb.gen Require Import Gen_sgp4 Gen_sgp4_compose.
From PyOrb.proofs Require Import P_Kepler P_Lip P_Sgp4Init P_Sgp4Prop P_Sgp4Tree P_Sgp4Exits P_Sgp4SmallE P_Sgp4Lip P_Sgp4Newton.
Open Scope R_scope.

(* the short-period radius is at least 1 earth radius for every value of E + omega *)
Section Radius.
  Variable el : elements.
  Variable t : tstate.
  Variable e : R.
  Hypothesis HA1 : 1 <= a el t.
  Hypothesis HeL : eL2 el t e <= 4 / 25.
  Hypothesis Hperi : 1005 / 1000 <= a el t * (1 - sqrt (eL2 el t e)).

  Lemma K1_low : 997 / 1000 <= K1 el t e.
  Proof.
    unfold K1. pose proof (p2_low el t e HA1 HeL) as Hp. pose proof (th2 el) as Ht. pose proof (b_bounds el t e HeL) as Hb.
    set (b := sqrt (1 - eL2 el t e)) in *. set (p := pL el t e) in *. set (th := theta el) in *.
    assert (HK : Rabs (3 / 2 * k2 * b / p ^ 2 * (3 * th ^ 2 - 1)) <= 3 / 1000).
    { replace (3 / 2 * k2 * b / p ^ 2 * (3 * th ^ 2 - 1)) with ((3 / 2 * k2 * b * (3 * th ^ 2 - 1)) / (p ^ 2)) by (field; nra).
      apply Rle_trans with ((3 / 2 * k2 * 1 * 2) / (441 / 625)).
      - apply Rabs_div_bound; [lra|lra|]. rewrite !Rabs_mult, (Rabs_pos_eq (3 / 2)), (Rabs_pos_eq k2), (Rabs_pos_eq b) by (unfold k2; lra).
        assert (Rabs (3 * th ^ 2 - 1) <= 2) by (apply Rabs_le; lra). pose proof (Rabs_pos (3 * th ^ 2 - 1)). unfold k2 in *. nra.
      - unfold k2. lra. }
    apply Rabs_le_between in HK. lra.
  Qed.

  Lemma rk_at_least_one x : 1 <= rk el t e x.
  Proof.
    rewrite <- (rkf_spec el t e HA1 HeL). unfold rkf.
    pose proof K1_low as HK1. pose proof (K2_le el t e HA1 HeL) as HK2.
    pose proof (LB_bnd _ _ _ (LB_c2 el t e HA1 HeL) x) as Hc.
    assert (Hec : Rabs (axN el t e * cos x + ayN el t e * sin x) <= q (axN el t e) (ayN el t e)).
    { apply lin_bound. pose proof (sin2_cos2 x) as SC. unfold Rsqr in SC. lra. }
    apply Rabs_le_between in Hec. fold (eL2 el t e) in Hec. unfold q in Hec. fold (eL2 el t e) in Hec.
    set (Q := sqrt (eL2 el t e)) in *. set (ec := axN el t e * cos x + ayN el t e * sin x) in *.
    set (A := a el t) in *.
    assert (Hr : 1005 / 1000 <= A * (1 - ec)).
    { apply Rle_trans with (1 := Hperi). apply Rmult_le_compat_l; lra. }
    assert (Hk2 : - (12 / 10000) <= K2 el t e * c2f el t e x).
    { assert (Rabs (K2 el t e * c2f el t e x) <= 12 / 10000).
      { rewrite Rabs_mult. pose proof (Rabs_pos (K2 el t e)). pose proof (Rabs_pos (c2f el t e x)). nra. }
      apply Rabs_le_between in H. lra. }
    assert (997 / 1000 * (1005 / 1000) <= K1 el t e * (A * (1 - ec))) by (apply Rmult_le_compat; lra).
    lra.
  Qed.
End Radius.

Section Answered1.
  Variables e0 incl_deg raan_deg argp_deg ma_deg n_revday bstar ts : R.
  Notation "'GA' f" := (f e0 incl_deg raan_deg argp_deg ma_deg n_revday bstar) (at level 9, f at level 9).
  Notation "'GB' f" := (f e0 incl_deg raan_deg argp_deg ma_deg n_revday bstar ts) (at level 9, f at level 9).
  Let El := E e0 incl_deg raan_deg argp_deg ma_deg n_revday bstar.
  Let T := mkT false ts.
  Let ec := ecl e0 incl_deg raan_deg argp_deg ma_deg n_revday bstar ts.

  Hypothesis Hleaf : GA gen_init_outcome = InitMode NearNorm 1.
  Hypothesis He : - (1 / 1000) <= e_unclamped El T.
  Hypothesis HeL : eL2 El T ec <= 4 / 25.
  Hypothesis Hperi : 1005 / 1000 <= a El T * (1 - sqrt (eL2 El T ec)).

  Lemma healthy_a : 1 <= a El T.
  Proof.
    pose proof (sqrt_pos (eL2 El T ec)) as Hs.
    assert (sqrt (eL2 El T ec) <= 1).
    { rewrite <- sqrt_1. apply sqrt_le_1_alt. lra. }
    destruct (Rle_lt_dec 1 (a El T)) as [H1|H1]; [exact H1|]. exfalso.
    destruct (Rle_lt_dec 0 (a El T)); nra.
  Qed.

  Lemma healthy_apos : 0 < a El T. Proof. pose proof healthy_a. lra. Qed.
  Lemma healthy_eL1 : eL2 El T ec < 1. Proof. lra. Qed.

  Lemma rk_iter Ew : 1 <= gen_nn1_fin_rk e0 incl_deg raan_deg argp_deg ma_deg n_revday bstar ts Ew.
  Proof.
    pose proof healthy_a as Ha. unfold gen_nn1_fin_rk.
    rewrite (fin_rk_spec _ _ _ _ _ _ _ _ (leaf1_He _ _ _ _ _ _ _ Hleaf) (leaf1_Hperi _ _ _ _ _ _ _ Hleaf) Ew healthy_apos healthy_eL1).
    apply rk_at_least_one; assumption.
  Qed.

  Theorem answered_when_healthy : exists j, (j <= 5)%nat /\ GB gen_nn1_prop_outcome = PropOk j.
  Proof.
    pose proof healthy_a as Ha. assert (Ha0 : a El T <> 0) by lra.
    pose proof (sixth_test_passes _ _ _ _ _ _ _ _ Hleaf Ha HeL) as H5.
    pose proof (a_spec _ _ _ _ _ _ _ ts (leaf1_He _ _ _ _ _ _ _ Hleaf) (leaf1_Hperi _ _ _ _ _ _ _ Hleaf)) as Sa. fold El T in Sa.
    pose proof (e_unclamped_spec _ _ _ _ _ _ _ ts (leaf1_He _ _ _ _ _ _ _ Hleaf) (leaf1_Hperi _ _ _ _ _ _ _ Hleaf)) as Se. fold El T in Se.
    pose proof (elsq_spec _ _ _ _ _ _ _ ts (leaf1_He _ _ _ _ _ _ _ Hleaf) (leaf1_Hperi _ _ _ _ _ _ _ Hleaf) Ha0) as Sq. fold El T ec in Sq.
    pose proof (rk_iter (GB gen_nn1_epw_x0)) as R0. rewrite <- compose_nn1_x0_rk in R0.
    pose proof (rk_iter (GB gen_nn1_epw_x1)) as R1. rewrite <- compose_nn1_x1_rk in R1.
    pose proof (rk_iter (GB gen_nn1_epw_x2)) as R2. rewrite <- compose_nn1_x2_rk in R2.
    pose proof (rk_iter (GB gen_nn1_epw_x3)) as R3. rewrite <- compose_nn1_x3_rk in R3.
    pose proof (rk_iter (GB gen_nn1_epw_x4)) as R4. rewrite <- compose_nn1_x4_rk in R4.
    pose proof (rk_iter (GB gen_nn1_epw_x5)) as R5. rewrite <- compose_nn1_x5_rk in R5.
    unfold gen_nn1_prop_outcome.
    destruct (Rlt_dec (GB gen_nn0_a) 1) as [C|_]; [exfalso; lra|].
    destruct (Rlt_dec (GB gen_nn0_guard0) ((-1) / 1000)) as [C|_]; [exfalso; lra|].
    destruct (Rle_dec 1 (GB gen_nn0_elsq)) as [C|_]; [exfalso; lra|].
    destruct (Rlt_dec (GB gen_nn1_guard0) (1 / 1000000000000)) as [_|_].
    { destruct (Rlt_dec (GB gen_nn1_rk_x0) 1) as [C|_]; [exfalso; lra|]. exists 0%nat. split; [lia|reflexivity]. }
    destruct (Rlt_dec (GB gen_nn1_guard1) (1 / 1000000000000)) as [_|_].
    { destruct (Rlt_dec (GB gen_nn1_rk_x1) 1) as [C|_]; [exfalso; lra|]. exists 1%nat. split; [lia|reflexivity]. }
    destruct (Rlt_dec (GB gen_nn1_guard2) (1 / 1000000000000)) as [_|_].
    { destruct (Rlt_dec (GB gen_nn1_rk_x2) 1) as [C|_]; [exfalso; lra|]. exists 2%nat. split; [lia|reflexivity]. }
    destruct (Rlt_dec (GB gen_nn1_guard3) (1 / 1000000000000)) as [_|_].
    { destruct (Rlt_dec (GB gen_nn1_rk_x3) 1) as [C|_]; [exfalso; lra|]. exists 3%nat. split; [lia|reflexivity]. }
    destruct (Rlt_dec (GB gen_nn1_guard4) (1 / 1000000000000)) as [_|_].
    { destruct (Rlt_dec (GB gen_nn1_rk_x4) 1) as [C|_]; [exfalso; lra|]. exists 4%nat. split; [lia|reflexivity]. }
    destruct (Rlt_dec (GB gen_nn1_guard5) (1 / 1000000000000)) as [_|C]; [|exfalso; lra].
    destruct (Rlt_dec (GB gen_nn1_rk_x5) 1) as [C|_]; [exfalso; lra|]. exists 5%nat. split; [lia|reflexivity].
  Qed.
End Answered1.

Section Answered3.
  Variables e0 incl_deg raan_deg argp_deg ma_deg n_revday bstar ts : R.
  Notation "'GA' f" := (f e0 incl_deg raan_deg argp_deg ma_deg n_revday bstar) (at level 9, f at level 9).
  Notation "'GB' f" := (f e0 incl_deg raan_deg argp_deg ma_deg n_revday bstar ts) (at level 9, f at level 9).
  Let El := E e0 incl_deg raan_deg argp_deg ma_deg n_revday bstar.
  Let T := mkT true ts.
  Let ec := ecl3 e0 incl_deg raan_deg argp_deg ma_deg n_revday bstar ts.

  Hypothesis Hleaf : GA gen_init_outcome = InitMode NearNorm 3.
  Hypothesis He : - (1 / 1000) <= e_unclamped El T.
  Hypothesis HeL : eL2 El T ec <= 4 / 25.
  Hypothesis Hperi : 1005 / 1000 <= a El T * (1 - sqrt (eL2 El T ec)).

  Lemma healthy3_a : 1 <= a El T.
  Proof.
    pose proof (sqrt_pos (eL2 El T ec)) as Hs.
    assert (sqrt (eL2 El T ec) <= 1).
    { rewrite <- sqrt_1. apply sqrt_le_1_alt. lra. }
    destruct (Rle_lt_dec 1 (a El T)) as [H1|H1]; [exact H1|]. exfalso.
    destruct (Rle_lt_dec 0 (a El T)); nra.
  Qed.

  Lemma healthy3_apos : 0 < a El T. Proof. pose proof healthy3_a. lra. Qed.
  Lemma healthy3_eL1 : eL2 El T ec < 1. Proof. lra. Qed.

  Lemma rk_iter3 Ew : 1 <= gen_nn3_fin_rk e0 incl_deg raan_deg argp_deg ma_deg n_revday bstar ts Ew.
  Proof.
    pose proof healthy3_a as Ha. unfold gen_nn3_fin_rk.
    rewrite (fin3_rk_spec _ _ _ _ _ _ _ _ (leaf3_He _ _ _ _ _ _ _ Hleaf) (leaf3_Hperi _ _ _ _ _ _ _ Hleaf) Ew healthy3_apos healthy3_eL1).
    apply rk_at_least_one; assumption.
  Qed.

  Theorem answered_when_healthy3 : exists j, (j <= 5)%nat /\ GB gen_nn3_prop_outcome = PropOk j.
  Proof.
    pose proof healthy3_a as Ha. assert (Ha0 : a El T <> 0) by lra.
    pose proof (sixth_test_passes3 _ _ _ _ _ _ _ _ Hleaf Ha HeL) as H5.
    pose proof (a3_spec _ _ _ _ _ _ _ ts (leaf3_He _ _ _ _ _ _ _ Hleaf) (leaf3_Hperi _ _ _ _ _ _ _ Hleaf)) as Sa. fold El T in Sa.
    pose proof (e_unclamped3_spec _ _ _ _ _ _ _ ts (leaf3_He _ _ _ _ _ _ _ Hleaf) (leaf3_Hperi _ _ _ _ _ _ _ Hleaf)) as Se. fold El T in Se.
    pose proof (elsq3_spec _ _ _ _ _ _ _ ts (leaf3_He _ _ _ _ _ _ _ Hleaf) (leaf3_Hperi _ _ _ _ _ _ _ Hleaf) Ha0) as Sq. fold El T ec in Sq.
    pose proof (rk_iter3 (GB gen_nn3_epw_x0)) as R0. rewrite <- compose_nn3_x0_rk in R0.
    pose proof (rk_iter3 (GB gen_nn3_epw_x1)) as R1. rewrite <- compose_nn3_x1_rk in R1.
    pose proof (rk_iter3 (GB gen_nn3_epw_x2)) as R2. rewrite <- compose_nn3_x2_rk in R2.
    pose proof (rk_iter3 (GB gen_nn3_epw_x3)) as R3. rewrite <- compose_nn3_x3_rk in R3.
    pose proof (rk_iter3 (GB gen_nn3_epw_x4)) as R4. rewrite <- compose_nn3_x4_rk in R4.
    pose proof (rk_iter3 (GB gen_nn3_epw_x5)) as R5. rewrite <- compose_nn3_x5_rk in R5.
    unfold gen_nn3_prop_outcome.
    destruct (Rlt_dec (GB gen_nn0_a) 1) as [C|_]; [exfalso; lra|].
    destruct (Rlt_dec (GB gen_nn2_guard0) ((-1) / 1000)) as [C|_]; [exfalso; lra|].
    destruct (Rle_dec 1 (GB gen_nn2_elsq)) as [C|_]; [exfalso; lra|].
    destruct (Rlt_dec (GB gen_nn3_guard0) (1 / 1000000000000)) as [_|_].
    { destruct (Rlt_dec (GB gen_nn3_rk_x0) 1) as [C|_]; [exfalso; lra|]. exists 0%nat. split; [lia|reflexivity]. }
    destruct (Rlt_dec (GB gen_nn3_guard1) (1 / 1000000000000)) as [_|_].
    { destruct (Rlt_dec (GB gen_nn3_rk_x1) 1) as [C|_]; [exfalso; lra|]. exists 1%nat. split; [lia|reflexivity]. }
    destruct (Rlt_dec (GB gen_nn3_guard2) (1 / 1000000000000)) as [_|_].
    { destruct (Rlt_dec (GB gen_nn3_rk_x2) 1) as [C|_]; [exfalso; lra|]. exists 2%nat. split; [lia|reflexivity]. }
    destruct (Rlt_dec (GB gen_nn3_guard3) (1 / 1000000000000)) as [_|_].
    { destruct (Rlt_dec (GB gen_nn3_rk_x3) 1) as [C|_]; [exfalso; lra|]. exists 3%nat. split; [lia|reflexivity]. }
    destruct (Rlt_dec (GB gen_nn3_guard4) (1 / 1000000000000)) as [_|_].
    { destruct (Rlt_dec (GB gen_nn3_rk_x4) 1) as [C|_]; [exfalso; lra|]. exists 4%nat. split; [lia|reflexivity]. }
    destruct (Rlt_dec (GB gen_nn3_guard5) (1 / 1000000000000)) as [_|C]; [|exfalso; lra].
    destruct (Rlt_dec (GB gen_nn3_rk_x5) 1) as [C|_]; [exfalso; lra|]. exists 5%nat. split; [lia|reflexivity].
  Qed.
End Answered3.
