(* C20: the specific orbital energy of the report's state.  The pre-correction state satisfies vis-viva exactly
   (P_Sgp4Geometry.vis_viva); the short-period corrections of the two rates and of the radius move the energy
   (rdotk^2 + rfdotk^2)/2 - ke^2/rk  by at most 1 percent of ke^2/(2a) when eL^2 <= 4/25 and the osculating perigee
   a (1 - eL) is at least 1.03 earth radii (units: earth radii, minutes; mu = ke^2). *)
From Coq Require Import Reals Lra.
From Coquelicot Require Import Rcomplements.
From Interval Require Import Tactic.
From PyOrb.lib Require Import PyReal.
From PyOrb.spec Require Import Spec_SGP4.
From PyOrb.lib Require Import SgpOutcome.
From PyOrb.gen Require Import Gen_sgp4 Gen_sgp4_compose.
From PyOrb.proofs Require Import P_Kepler P_Sgp4Geometry P_Sgp4Radius P_Sgp4Lip P_Sgp4Init P_Sgp4Prop P_Sgp4Exits P_Sgp4SmallE.
Open Scope R_scope.

(* pure algebra: how far the energy moves when the three ingredients move *)
Lemma energy_perturbation (vd vf vdk vfk r rk mu d1 d2 D B1 B2 : R) :
  0 < mu -> 0 < r -> 0 <= D -> D < r ->
  Rabs (vdk - vd) <= d1 -> Rabs (vfk - vf) <= d2 -> Rabs (rk - r) <= D ->
  Rabs vd <= B1 -> Rabs vf <= B2 ->
  Rabs (((vdk ^ 2 + vfk ^ 2) / 2 - mu / rk) - ((vd ^ 2 + vf ^ 2) / 2 - mu / r))
    <= d1 * (B1 + d1 / 2) + d2 * (B2 + d2 / 2) + mu * D / (r * (r - D)).
Proof.
  intros Hmu Hr HD0 HD H1 H2 H3 HB1 HB2.
  assert (Hrk : r - D <= rk) by (apply Rabs_le_between in H3; lra).
  assert (Hrk0 : 0 < rk) by lra.
  replace (((vdk ^ 2 + vfk ^ 2) / 2 - mu / rk) - ((vd ^ 2 + vf ^ 2) / 2 - mu / r))
    with ((vdk - vd) * ((vdk - vd) + 2 * vd) / 2 + (vfk - vf) * ((vfk - vf) + 2 * vf) / 2 + mu * ((rk - r) / (r * rk))) by (field; lra).
  apply Rle_trans with (1 := Rabs_triang _ _). apply Rplus_le_compat.
  - apply Rle_trans with (1 := Rabs_triang _ _). apply Rplus_le_compat.
    + unfold Rdiv. rewrite !Rabs_mult. rewrite (Rabs_pos_eq (/ 2)) by lra.
      assert (Rabs (vdk - vd + 2 * vd) <= d1 + 2 * B1).
      { apply Rle_trans with (1 := Rabs_triang _ _). rewrite Rabs_mult, (Rabs_pos_eq 2) by lra. lra. }
      pose proof (Rabs_pos (vdk - vd)). pose proof (Rabs_pos (vdk - vd + 2 * vd)). nra.
    + unfold Rdiv. rewrite !Rabs_mult. rewrite (Rabs_pos_eq (/ 2)) by lra.
      assert (Rabs (vfk - vf + 2 * vf) <= d2 + 2 * B2).
      { apply Rle_trans with (1 := Rabs_triang _ _). rewrite Rabs_mult, (Rabs_pos_eq 2) by lra. lra. }
      pose proof (Rabs_pos (vfk - vf)). pose proof (Rabs_pos (vfk - vf + 2 * vf)). nra.
  - rewrite Rabs_mult, (Rabs_pos_eq mu) by lra. unfold Rdiv at 2. rewrite Rmult_assoc.
    apply Rmult_le_compat_l; [lra|].
    apply Rabs_div_bound; [apply Rmult_lt_0_compat; lra| |exact H3].
    apply Rmult_le_compat_l; lra.
Qed.

(* the numeric core: in terms of P = a (1 - Q) >= 1.03 and 0 <= Q <= 2/5, with every r-dependent term taken at its
   worst r = P (interval arithmetic); everything is divided by ke^2 and multiplied by a *)
Lemma energy_numbers (P Q : R) : 103 / 100 <= P -> 0 <= Q <= 2 / 5 ->
  let pl := P * (1 + Q) in
  let c := 3 * k2 / pl ^ 2 + k2 / (2 * pl * P) in
  k2 * Q / (pl * P) + 3 * k2 / (P * P) + 5 * k2 ^ 2 / (P * P * (pl * pl)) + c / ((1 - Q) * (1 - c)) <= 1 / 200.
Proof.
  intros HP HQ. cbv zeta. unfold k2.
  assert (HiP : 0 < / P <= 100 / 103).
  { split; [apply Rinv_0_lt_compat; lra|]. replace (100 / 103) with (/ (103 / 100)) by field. apply Rinv_le_contravar; lra. }
  set (u := / P) in *.
  replace (5413080 / 10000000000 * Q / (P * (1 + Q) * P)) with (5413080 / 10000000000 * Q * u * u / (1 + Q)) by (unfold u; field; lra).
  replace (3 * (5413080 / 10000000000) / (P * P)) with (3 * (5413080 / 10000000000) * u * u) by (unfold u; field; lra).
  replace (5 * (5413080 / 10000000000) ^ 2 / (P * P * (P * (1 + Q) * (P * (1 + Q))))) with (5 * (5413080 / 10000000000) ^ 2 * u ^ 4 / (1 + Q) ^ 2) by (unfold u; field; lra).
  replace (3 * (5413080 / 10000000000) / (P * (1 + Q)) ^ 2 + 5413080 / 10000000000 / (2 * (P * (1 + Q)) * P))
    with (3 * (5413080 / 10000000000) * u * u / (1 + Q) ^ 2 + 5413080 / 10000000000 * u * u / (2 * (1 + Q))) by (unfold u; field; lra).
  clearbody u. clear HP. destruct HiP as [Hu0 Hu1].
  interval with (i_bisect Q, i_bisect u, i_depth 12).
Qed.

(* algebra between the two: each term of energy_perturbation, with the model's sizes, against its counterpart in
   energy_numbers (times ke^2 / A) *)
Section Algebra.
  Variables A Q r sa sp kE : R.
  Hypothesis HkE : 0 < kE.
  Hypothesis HQ : 0 <= Q <= 2 / 5.
  Hypothesis HP : 103 / 100 <= A * (1 - Q).
  Hypothesis Hsa : 0 < sa /\ sa * sa = A.
  Hypothesis Hsp : 0 < sp /\ sp * sp = A * (1 - Q) * (1 + Q).
  Hypothesis Hr : A * (1 - Q) <= r.

  Let P := A * (1 - Q).
  Let pl := P * (1 + Q).
  Let c := 3 * k2 / pl ^ 2 + k2 / (2 * pl * P).
  Let nn := kE / (A * sa).
  Let d1 := k2 * nn / pl.
  Let B1 := kE * sa * Q / r.
  Let B2 := kE * sp / r.
  Let D := 3 * k2 / pl ^ 2 * r + k2 / (2 * pl).

  Lemma A_pos : 103 / 100 <= A.
  Proof. clear - HQ HP. destruct (Rle_lt_dec 0 A); nra. Qed.
  Lemma P_ge : 103 / 100 <= P. Proof. exact HP. Qed.
  Lemma pl_ge : P <= pl. Proof. unfold pl. pose proof P_ge. nra. Qed.
  Lemma r_ge : 103 / 100 <= r. Proof. pose proof P_ge. unfold P in *. lra. Qed.
  Lemma K2pos : 0 < k2. Proof. unfold k2. lra. Qed.
  Lemma sasp : P <= sa * sp.
  Proof.
    destruct Hsa as [S0 S1]. destruct Hsp as [T0 T1]. pose proof P_ge as HPg. pose proof A_pos.
    assert (Hsq : P * P <= (sa * sp) * (sa * sp)).
    { replace ((sa * sp) * (sa * sp)) with ((sa * sa) * (sp * sp)) by ring. rewrite S1, T1. fold P.
      assert (HPA : P <= A) by (unfold P; nra). assert (0 <= P * Q) by nra.
      replace (A * (P * (1 + Q))) with (A * P + A * (P * Q)) by ring. nra. }
    assert (0 < sa * sp) by nra. nra.
  Qed.

  Lemma c_small : 0 < c <= 2 / 1000.
  Proof.
    unfold c. pose proof P_ge as HPg. pose proof pl_ge as Hpl. pose proof K2pos.
    assert (Hpl1 : 1 <= pl) by lra. assert (HP1 : 1 <= P) by lra.
    assert (Hpp : 1 <= pl ^ 2) by nra. assert (Hpq : 2 <= 2 * pl * P) by nra.
    assert (I1 : 0 < / pl ^ 2 <= 1). { split; [apply Rinv_0_lt_compat; lra|]. rewrite <- Rinv_1. apply Rinv_le_contravar; lra. }
    assert (I2 : 0 < / (2 * pl * P) <= 1 / 2). { split; [apply Rinv_0_lt_compat; lra|]. replace (1 / 2) with (/ 2) by lra. apply Rinv_le_contravar; lra. }
    unfold Rdiv. set (u := / pl ^ 2) in *. set (v := / (2 * pl * P)) in *. unfold k2 in *. split; nra.
  Qed.

  Lemma D_lt_r : 0 <= D /\ D <= r * c /\ D < r.
  Proof.
    pose proof c_small as [C0 C1]. pose proof r_ge as Hrg. pose proof P_ge as HPg. pose proof pl_ge as Hpl. pose proof K2pos.
    assert (E : r * c = 3 * k2 / pl ^ 2 * r + k2 / (2 * pl) * (r / P)).
    { unfold c. field. nra. }
    assert (Hq : 1 <= r / P).
    { apply Rmult_le_reg_r with P; [lra|]. unfold Rdiv. rewrite Rmult_assoc, Rinv_l by lra. unfold P. lra. }
    assert (Hk : 0 < k2 / (2 * pl)) by (apply Rdiv_lt_0_compat; lra).
    assert (H3 : 0 < 3 * k2 / pl ^ 2) by (apply Rdiv_lt_0_compat; nra).
    unfold D. split; [nra|]. split; [rewrite E; nra|]. apply Rle_lt_trans with (r * c); [rewrite E; nra|nra].
  Qed.

  Lemma term1 : d1 * B1 <= kE ^ 2 / A * (k2 * Q / (pl * P)).
  Proof.
    destruct Hsa as [S0 S1]. pose proof A_pos as HA. pose proof P_ge as HPg. pose proof pl_ge as Hpl. pose proof r_ge as Hrg. pose proof K2pos.
    assert (E : d1 * B1 = kE ^ 2 / A * (k2 * Q) * / (pl * r)).
    { unfold d1, B1, nn. field. repeat split; lra. }
    rewrite E. replace (kE ^ 2 / A * (k2 * Q / (pl * P))) with (kE ^ 2 / A * (k2 * Q) * / (pl * P)) by (field; repeat split; lra).
    apply Rmult_le_compat_l.
    - apply Rmult_le_pos; [apply Rlt_le, Rdiv_lt_0_compat; nra|nra].
    - apply Rinv_le_contravar; [nra|]. apply Rmult_le_compat_l; [lra|]. unfold P. exact Hr.
  Qed.

  Lemma term2 : 3 * d1 * B2 <= kE ^ 2 / A * (3 * k2 / (P * P)).
  Proof.
    destruct Hsa as [S0 S1]. destruct Hsp as [T0 T1]. pose proof A_pos as HA. pose proof P_ge as HPg. pose proof pl_ge as Hpl.
    pose proof r_ge as Hrg. pose proof K2pos. pose proof sasp as Hss.
    assert (Epl : pl = sp * sp) by (unfold pl, P; lra).
    assert (E : 3 * d1 * B2 = kE ^ 2 / A * (3 * k2) * / ((sa * sp) * r)).
    { unfold d1, B2, nn. rewrite Epl. field. repeat split; lra. }
    rewrite E. replace (kE ^ 2 / A * (3 * k2 / (P * P))) with (kE ^ 2 / A * (3 * k2) * / (P * P)) by (field; repeat split; lra).
    apply Rmult_le_compat_l.
    - apply Rmult_le_pos; [apply Rlt_le, Rdiv_lt_0_compat; nra|lra].
    - apply Rinv_le_contravar; [nra|]. apply Rmult_le_compat; try lra. unfold P. exact Hr.
  Qed.

  Lemma term3 : d1 * (d1 / 2) + 3 * d1 * (3 * d1 / 2) <= kE ^ 2 / A * (5 * k2 ^ 2 / (P * P * (pl * pl))).
  Proof.
    destruct Hsa as [S0 S1]. pose proof A_pos as HA. pose proof P_ge as HPg. pose proof pl_ge as Hpl. pose proof K2pos.
    assert (HPA : P <= A) by (unfold P; nra).
    assert (E : d1 * (d1 / 2) + 3 * d1 * (3 * d1 / 2) = kE ^ 2 / A * (5 * k2 ^ 2) * / ((sa * sa) * A * (pl * pl))).
    { unfold d1, nn. field. repeat split; lra. }
    rewrite E, S1. replace (kE ^ 2 / A * (5 * k2 ^ 2 / (P * P * (pl * pl)))) with (kE ^ 2 / A * (5 * k2 ^ 2) * / (P * P * (pl * pl))) by (field; repeat split; lra).
    apply Rmult_le_compat_l.
    - apply Rmult_le_pos; [apply Rlt_le, Rdiv_lt_0_compat; nra|nra].
    - apply Rinv_le_contravar; [|apply Rmult_le_compat_r; nra].
      apply Rmult_lt_0_compat; nra.
  Qed.

  Lemma term4 : kE ^ 2 * D / (r * (r - D)) <= kE ^ 2 / A * (c / ((1 - Q) * (1 - c))).
  Proof.
    pose proof A_pos as HA. pose proof P_ge as HPg. pose proof r_ge as Hrg. pose proof c_small as [C0 C1].
    destruct D_lt_r as [D0 [D1 D2]].
    assert (HQ1 : 0 < 1 - Q) by lra.
    assert (Hrd : r * (1 - c) <= r - D) by lra.
    assert (Hpos : 0 < r * (1 - c)) by nra.
    assert (S1 : D / (r * (r - D)) <= c / (P * (1 - c))).
    { apply Rle_trans with ((r * c) / (r * (r * (1 - c)))).
      - unfold Rdiv. apply Rmult_le_compat; try lra.
        + apply Rlt_le, Rinv_0_lt_compat. nra.
        + apply Rinv_le_contravar; [nra|]. apply Rmult_le_compat_l; lra.
      - replace (r * c / (r * (r * (1 - c)))) with (c * / (r * (1 - c))) by (field; split; lra).
        unfold Rdiv. apply Rmult_le_compat_l; [lra|]. apply Rinv_le_contravar; [nra|].
        apply Rmult_le_compat_r; [lra|]. unfold P. exact Hr. }
    replace (kE ^ 2 * D / (r * (r - D))) with (kE ^ 2 * (D / (r * (r - D)))) by (field; split; lra).
    replace (kE ^ 2 / A * (c / ((1 - Q) * (1 - c)))) with (kE ^ 2 * (c / (P * (1 - c)))) by (unfold P; field; repeat split; lra).
    apply Rmult_le_compat_l; [nra|exact S1].
  Qed.

  Theorem energy_budget :
    d1 * (B1 + d1 / 2) + 3 * d1 * (B2 + 3 * d1 / 2) + kE ^ 2 * D / (r * (r - D)) <= kE ^ 2 / (2 * A) / 100.
  Proof.
    pose proof term1 as T1. pose proof term2 as T2. pose proof term3 as T3. pose proof term4 as T4.
    pose proof (energy_numbers P Q P_ge HQ) as N. cbv zeta in N. fold pl in N. fold c in N.
    pose proof A_pos as HA.
    assert (Hk : 0 < kE ^ 2 / A) by (apply Rdiv_lt_0_compat; nra).
    replace (kE ^ 2 / (2 * A) / 100) with (kE ^ 2 / A * (1 / 200)) by (field; lra).
    set (n1 := k2 * Q / (pl * P)) in *. set (n2 := 3 * k2 / (P * P)) in *. set (n3 := 5 * k2 ^ 2 / (P * P * (pl * pl))) in *.
    set (n4 := c / ((1 - Q) * (1 - c))) in *.
    replace (d1 * (B1 + d1 / 2) + 3 * d1 * (B2 + 3 * d1 / 2)) with (d1 * B1 + 3 * d1 * B2 + (d1 * (d1 / 2) + 3 * d1 * (3 * d1 / 2))) by ring.
    apply Rle_trans with (kE ^ 2 / A * (n1 + n2 + n3 + n4)); [lra|]. apply Rmult_le_compat_l; lra.
  Qed.
End Algebra.

Section Energy.
  Variable el : elements.
  Variable t : tstate.
  Variables e Ew : R.
  Hypothesis HeL : eL2 el t e <= 4 / 25.
  Hypothesis Hperi : 103 / 100 <= a el t * (1 - sqrt (eL2 el t e)).

  Let Q := sqrt (eL2 el t e).
  Let A := a el t.

  Lemma Q_range : 0 <= Q <= 2 / 5.
  Proof. split; [apply sqrt_pos|]. exact (q_le el t e HeL). Qed.
  Lemma A_ge : 103 / 100 <= A.
  Proof. exact (A_pos A Q Q_range Hperi). Qed.
  Lemma QQ : Q * Q = eL2 el t e.
  Proof. apply sqrt_sqrt. apply eL2_nonneg. Qed.
  Lemma pL_is : pL el t e = A * (1 - Q) * (1 + Q).
  Proof. unfold pL. rewrite <- QQ. fold A. ring. Qed.

  Theorem energy_within_one_percent :
    Rabs (((rdotk el t e Ew ^ 2 + rfdotk el t e Ew ^ 2) / 2 - ke ^ 2 / rk el t e Ew) - (- ke ^ 2 / (2 * a el t)))
      <= ke ^ 2 / (2 * a el t) / 100.
  Proof.
    pose proof Q_range as HQ. pose proof A_ge as HA. pose proof QQ as HQQ. pose proof pL_is as HpL.
    assert (Ha : 0 < a el t) by (fold A; lra).
    assert (HeL1 : eL2 el t e < 1) by lra.
    assert (Hke : 0 < ke) by (unfold ke; lra).
    set (sa := sqrt A). assert (Hsa : 0 < sa /\ sa * sa = A).
    { split; [apply sqrt_lt_R0; lra|apply sqrt_sqrt; lra]. }
    assert (HpLpos : 0 < pL el t e) by (rewrite HpL; apply Rmult_lt_0_compat; [apply Rmult_lt_0_compat|]; lra).
    set (sp := sqrt (pL el t e)). assert (Hsp : 0 < sp /\ sp * sp = A * (1 - Q) * (1 + Q)).
    { split; [apply sqrt_lt_R0; exact HpLpos|]. rewrite <- HpL. apply sqrt_sqrt. lra. }
    pose proof (r_band el t e Ew Ha) as [Hr _]. fold Q A in Hr.
    set (r0 := r el t e Ew) in *.
    pose proof (r_ge A Q r0 Hperi Hr) as Hr1.
    rewrite <- (vis_viva el t e Ew Ha HeL1). fold r0.
    (* sizes of the ingredients *)
    assert (Hn : Rabs (n el t) = ke / (A * sa)).
    { unfold n. fold A sa. apply Rabs_pos_eq. apply Rlt_le, Rdiv_lt_0_compat; [lra|]. apply Rmult_lt_0_compat; lra. }
    pose proof (rdotk_band el t e Ew Ha HeL1) as Bd. pose proof (rfdotk_band el t e Ew Ha HeL1) as Bf.
    pose proof (rk_band el t e Ew Ha HeL1) as Bk. fold r0 in Bk.
    rewrite Hn, HpL in Bd, Bf. rewrite HpL in Bk.
    assert (HB1 : Rabs (rdot el t e Ew) <= ke * sa * Q / r0).
    { unfold rdot. fold A sa r0.
      assert (Hes : Rabs (esinE el t e Ew) <= Q).
      { unfold esinE, Q, eL2.
        replace (axN el t e * sin Ew - ayN el t e * cos Ew) with (axN el t e * sin Ew + ayN el t e * (- cos Ew)) by ring.
        apply (lin_bound (axN el t e) (ayN el t e) (sin Ew) (- cos Ew)). pose proof (sincos1 Ew). nra. }
      unfold Rdiv. rewrite !Rabs_mult. rewrite (Rabs_pos_eq ke), (Rabs_pos_eq sa), (Rabs_pos_eq (/ r0)) by (try apply Rlt_le, Rinv_0_lt_compat; lra).
      apply Rmult_le_compat_r; [apply Rlt_le, Rinv_0_lt_compat; lra|]. apply Rmult_le_compat_l; [nra|exact Hes]. }
    assert (HB2 : Rabs (rfdot el t e Ew) <= ke * sp / r0).
    { unfold rfdot. fold sp r0. rewrite Rabs_pos_eq; [lra|]. apply Rlt_le, Rdiv_lt_0_compat; [nra|lra]. }
    destruct (D_lt_r A Q r0 Q_range Hperi Hr) as [D0 [_ D2]].
    pose proof (energy_budget A Q r0 sa sp ke Hke Q_range Hperi Hsa Hsp Hr) as Bud.
    set (d1 := k2 * (ke / (A * sa)) / (A * (1 - Q) * (1 + Q))) in *.
    set (DD := 3 * k2 / (A * (1 - Q) * (1 + Q)) ^ 2 * r0 + k2 / (2 * (A * (1 - Q) * (1 + Q)))) in *.
    assert (Hmu : 0 < ke ^ 2) by nra.
    pose proof (energy_perturbation (rdot el t e Ew) (rfdot el t e Ew) (rdotk el t e Ew) (rfdotk el t e Ew) r0 (rk el t e Ew)
                  (ke ^ 2) d1 (3 * d1) DD (ke * sa * Q / r0) (ke * sp / r0) Hmu ltac:(lra) D0 D2 Bd Bf Bk HB1 HB2) as Pert.
    apply Rle_trans with (1 := Pert). fold A.
    replace (3 * d1 * (ke * sp / r0 + 3 * d1 / 2)) with (3 * d1 * (ke * sp / r0 + 3 * d1 / 2)) by ring.
    exact Bud.
  Qed.
End Energy.

(* in km and seconds, on the returned elements of an answered propagation: mu = ke^2 XKMPER^3 / 3600 = 398600.8 km^3/s^2 *)
Definition mu_km : R := ke ^ 2 * XKMPER ^ 3 / 3600.
Lemma mu_km_value : Rabs (mu_km - 3986008 / 10) <= 1 / 10.
Proof. unfold mu_km, ke, XKMPER. apply Rabs_le. lra. Qed.

Section Answered.
  Variables e0 incl_deg raan_deg argp_deg ma_deg n_revday bstar ts : R.
  Notation "'GA' f" := (f e0 incl_deg raan_deg argp_deg ma_deg n_revday bstar) (at level 9, f at level 9).
  Notation "'GB' f" := (f e0 incl_deg raan_deg argp_deg ma_deg n_revday bstar ts) (at level 9, f at level 9).
  Let El := E e0 incl_deg raan_deg argp_deg ma_deg n_revday bstar.

  Theorem energy_leaf1 j Ew radius theta eqinc ascn rdk rfdk smjaxs :
    GA gen_init_outcome = InitMode NearNorm 1 -> GB gen_nn1_prop_outcome = PropOk j ->
    exit_ok e0 incl_deg raan_deg argp_deg ma_deg n_revday bstar ts Ew radius theta eqinc ascn rdk rfdk smjaxs ->
    let T := mkT false ts in let ec := ecl e0 incl_deg raan_deg argp_deg ma_deg n_revday bstar ts in
    eL2 El T ec <= 4 / 25 -> 103 / 100 <= a El T * (1 - sqrt (eL2 El T ec)) ->
    Rabs (((rdk ^ 2 + rfdk ^ 2) / 2 - mu_km / radius) - (- mu_km / (2 * (a El T * XKMPER)))) <= mu_km / (2 * (a El T * XKMPER)) / 100.
  Proof.
    intros Hleaf Hp Hex T ec HeL Hperi.
    destruct Hex as [Hr [_ [_ [_ [Hd [Hf _]]]]]]. fold El T ec in Hr, Hd, Hf.
    pose proof (energy_within_one_percent El T ec Ew HeL Hperi) as E.
    pose proof (A_ge El T ec HeL Hperi) as HA.
    assert (Hrk : 0 < rk El T ec Ew).
    { assert (Ha : 0 < a El T) by lra. assert (HeL1 : eL2 El T ec < 1) by lra.
      pose proof (rk_band El T ec Ew Ha HeL1) as Bk. apply Rabs_le_between in Bk.
      destruct (D_lt_r (a El T) (sqrt (eL2 El T ec)) (r El T ec Ew) (Q_range El T ec HeL) Hperi (proj1 (r_band El T ec Ew Ha))) as [_ [_ D2]].
      rewrite <- (pL_is El T ec) in D2. lra. }
    rewrite Hr, Hd, Hf.
    set (vd := rdotk El T ec Ew) in *. set (vf := rfdotk El T ec Ew) in *. set (RK := rk El T ec Ew) in *. set (AA := a El T) in *.
    assert (S : ((vd * (XKMPER / aE * min_per_day / 86400)) ^ 2 + (vf * (XKMPER / aE * min_per_day / 86400)) ^ 2) / 2 - mu_km / (RK * XKMPER)
                - - mu_km / (2 * (AA * XKMPER))
                = (XKMPER ^ 2 / 3600) * ((vd ^ 2 + vf ^ 2) / 2 - ke ^ 2 / RK - - ke ^ 2 / (2 * AA))).
    { unfold mu_km, aE, min_per_day, XKMPER. field. split; lra. }
    rewrite S, Rabs_mult, (Rabs_pos_eq (XKMPER ^ 2 / 3600)) by (unfold XKMPER; lra).
    replace (mu_km / (2 * (AA * XKMPER)) / 100) with ((XKMPER ^ 2 / 3600) * (ke ^ 2 / (2 * AA) / 100)) by (unfold mu_km, XKMPER; field; lra).
    apply Rmult_le_compat_l; [unfold XKMPER; lra|exact E].
  Qed.

  Theorem energy_leaf3 j Ew radius theta eqinc ascn rdk rfdk smjaxs :
    GA gen_init_outcome = InitMode NearNorm 3 -> GB gen_nn3_prop_outcome = PropOk j ->
    exit_ok3 e0 incl_deg raan_deg argp_deg ma_deg n_revday bstar ts Ew radius theta eqinc ascn rdk rfdk smjaxs ->
    let T := mkT true ts in let ec := ecl3 e0 incl_deg raan_deg argp_deg ma_deg n_revday bstar ts in
    eL2 El T ec <= 4 / 25 -> 103 / 100 <= a El T * (1 - sqrt (eL2 El T ec)) ->
    Rabs (((rdk ^ 2 + rfdk ^ 2) / 2 - mu_km / radius) - (- mu_km / (2 * (a El T * XKMPER)))) <= mu_km / (2 * (a El T * XKMPER)) / 100.
  Proof.
    intros Hleaf Hp Hex T ec HeL Hperi.
    destruct Hex as [Hr [_ [_ [_ [Hd [Hf _]]]]]]. fold El T ec in Hr, Hd, Hf.
    pose proof (energy_within_one_percent El T ec Ew HeL Hperi) as E.
    pose proof (A_ge El T ec HeL Hperi) as HA.
    assert (Hrk : 0 < rk El T ec Ew).
    { assert (Ha : 0 < a El T) by lra. assert (HeL1 : eL2 El T ec < 1) by lra.
      pose proof (rk_band El T ec Ew Ha HeL1) as Bk. apply Rabs_le_between in Bk.
      destruct (D_lt_r (a El T) (sqrt (eL2 El T ec)) (r El T ec Ew) (Q_range El T ec HeL) Hperi (proj1 (r_band El T ec Ew Ha))) as [_ [_ D2]].
      rewrite <- (pL_is El T ec) in D2. lra. }
    rewrite Hr, Hd, Hf.
    set (vd := rdotk El T ec Ew) in *. set (vf := rfdotk El T ec Ew) in *. set (RK := rk El T ec Ew) in *. set (AA := a El T) in *.
    assert (S : ((vd * (XKMPER / aE * min_per_day / 86400)) ^ 2 + (vf * (XKMPER / aE * min_per_day / 86400)) ^ 2) / 2 - mu_km / (RK * XKMPER)
                - - mu_km / (2 * (AA * XKMPER))
                = (XKMPER ^ 2 / 3600) * ((vd ^ 2 + vf ^ 2) / 2 - ke ^ 2 / RK - - ke ^ 2 / (2 * AA))).
    { unfold mu_km, aE, min_per_day, XKMPER. field. split; lra. }
    rewrite S, Rabs_mult, (Rabs_pos_eq (XKMPER ^ 2 / 3600)) by (unfold XKMPER; lra).
    replace (mu_km / (2 * (AA * XKMPER)) / 100) with ((XKMPER ^ 2 / 3600) * (ke ^ 2 / (2 * AA) / 100)) by (unfold mu_km, XKMPER; field; lra).
    apply Rmult_le_compat_l; [unfold XKMPER; lra|exact E].
  Qed.
End Answered.
