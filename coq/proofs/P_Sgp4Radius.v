(* C20: the geocentric distance of the report's state stays in the band of the osculating ellipse.  For 0 < a, eL^2 < 1 and
   every value Ew of E + omega:  a (1 - eL) <= r <= a (1 + eL)  and the short-period radius rk differs from r by at most
   3 k2 / pL^2 * r + k2 / (2 pL)   (in km for pL >= 1, r <= 2 earth radii: below 23 km). *)
From Coq Require Import Reals Lra.
From Coquelicot Require Import Rcomplements.
From PyOrb.lib Require Import PyReal.
From PyOrb.spec Require Import Spec_SGP4.
From PyOrb.lib Require Import SgpOutcome.
From PyOrb.gen Require Import Gen_sgp4 Gen_sgp4_compose.
From PyOrb.proofs Require Import P_Kepler P_Sgp4Geometry P_Sgp4Init P_Sgp4Prop P_Sgp4Exits P_Sgp4SmallE.
Open Scope R_scope.

Section Radius.
  Variable el : elements.
  Variable t : tstate.
  Variables e Ew : R.
  Hypothesis Ha : 0 < a el t.
  Hypothesis HeL : eL2 el t e < 1.

  Let Q := sqrt (eL2 el t e).

  Lemma ecosE_band : Rabs (ecosE el t e Ew) <= Q.
  Proof. unfold ecosE, Q, eL2. apply (lin_bound (axN el t e) (ayN el t e) (cos Ew) (sin Ew) (sincos1 Ew)). Qed.

  Theorem r_band : a el t * (1 - Q) <= r el t e Ew <= a el t * (1 + Q).
  Proof.
    pose proof ecosE_band as B. apply Rabs_le_between in B. unfold r.
    split; apply Rmult_le_compat_l; lra.
  Qed.

  Lemma Q_lt1 : Q < 1.
  Proof. unfold Q. rewrite <- sqrt_1. apply sqrt_lt_1_alt. pose proof (eL2_nonneg el t e). lra. Qed.

  Lemma r_pos : 0 < r el t e Ew.
  Proof. pose proof r_band as [B _]. pose proof Q_lt1. apply Rlt_le_trans with (2 := B). apply Rmult_lt_0_compat; lra. Qed.

  Lemma pL_pos : 0 < pL el t e.
  Proof. unfold pL. apply Rmult_lt_0_compat; lra. Qed.

  Theorem rk_band :
    Rabs (rk el t e Ew - r el t e Ew) <= 3 * k2 / (pL el t e) ^ 2 * r el t e Ew + k2 / (2 * pL el t e).
  Proof.
    pose proof r_pos as Hr. pose proof pL_pos as Hp.
    assert (Ha' : a el t <> 0) by lra.
    pose proof (cos2u_bound el t e Ew Ha' HeL) as Hc.
    pose proof (eL2_nonneg el t e) as H0.
    set (b := sqrt (1 - eL2 el t e)).
    assert (Hb : 0 <= b <= 1).
    { unfold b. split; [apply sqrt_pos|]. apply Rle_trans with (sqrt 1); [apply sqrt_le_1_alt; lra|rewrite sqrt_1; lra]. }
    set (th := theta el). assert (Ht : 0 <= th ^ 2 <= 1).
    { unfold th, theta. pose proof (COS_bound (el_i0 el)). nra. }
    unfold rk. fold b th.
    set (R := r el t e Ew) in *. set (p := pL el t e) in *. set (c := cos2u el t e Ew) in *.
    assert (Hp2 : 0 < p ^ 2) by nra.
    replace (R * (1 - 3 / 2 * k2 * b / p ^ 2 * (3 * th ^ 2 - 1)) + k2 / (2 * p) * (1 - th ^ 2) * c - R)
      with (- (R * (3 / 2 * k2 / p ^ 2) * (b * (3 * th ^ 2 - 1))) + k2 / (2 * p) * ((1 - th ^ 2) * c)) by (field; lra).
    apply Rle_trans with (1 := Rabs_triang _ _). rewrite Rabs_Ropp.
    assert (K : 0 < k2) by (unfold k2; lra).
    assert (A1 : 0 <= R * (3 / 2 * k2 / p ^ 2)).
    { apply Rmult_le_pos; [lra|]. apply Rmult_le_pos; [lra|]. apply Rlt_le, Rinv_0_lt_compat; lra. }
    assert (A2 : 0 <= k2 / (2 * p)).
    { apply Rmult_le_pos; [lra|]. apply Rlt_le, Rinv_0_lt_compat; lra. }
    assert (B1 : Rabs (b * (3 * th ^ 2 - 1)) <= 2).
    { rewrite Rabs_mult. rewrite (Rabs_pos_eq b) by lra. assert (Rabs (3 * th ^ 2 - 1) <= 2) by (apply Rabs_le; lra).
      pose proof (Rabs_pos (3 * th ^ 2 - 1)). nra. }
    assert (B2 : Rabs ((1 - th ^ 2) * c) <= 1).
    { rewrite Rabs_mult. rewrite (Rabs_pos_eq (1 - th ^ 2)) by lra. pose proof (Rabs_pos c). nra. }
    rewrite (Rabs_mult (R * (3 / 2 * k2 / p ^ 2))), (Rabs_mult (k2 / (2 * p))). rewrite (Rabs_pos_eq _ A1), (Rabs_pos_eq _ A2).
    replace (3 * k2 / p ^ 2 * R) with (R * (3 / 2 * k2 / p ^ 2) * 2) by (field; lra).
    replace (k2 / (2 * p)) with (k2 / (2 * p) * 1) at 2 by ring.
    apply Rplus_le_compat; apply Rmult_le_compat_l; assumption.
  Qed.

  (* in kilometres, for pL >= 1 and r <= 2 earth radii *)
  Corollary rk_band_km : 1 <= pL el t e -> r el t e Ew <= 2 ->
    Rabs (rk el t e Ew * XKMPER - r el t e Ew * XKMPER) <= 23.
  Proof.
    intros Hp1 Hr2. pose proof rk_band as B. pose proof r_pos as Hr.
    replace (rk el t e Ew * XKMPER - r el t e Ew * XKMPER) with ((rk el t e Ew - r el t e Ew) * XKMPER) by ring.
    rewrite Rabs_mult, (Rabs_pos_eq XKMPER) by (unfold XKMPER; lra).
    set (p := pL el t e) in *. set (R := r el t e Ew) in *.
    assert (H1 : 3 * k2 / p ^ 2 * R <= 3 * k2 * 2).
    { assert (I1 : / p ^ 2 <= 1). { rewrite <- Rinv_1. apply Rinv_le_contravar; nra. }
      assert (I0 : 0 < / p ^ 2) by (apply Rinv_0_lt_compat; nra).
      replace (3 * k2 / p ^ 2 * R) with (3 * k2 * (/ p ^ 2 * R)) by (field; nra).
      apply Rmult_le_compat_l; [unfold k2; lra|]. nra. }
    assert (H2 : k2 / (2 * p) <= k2 / 2).
    { unfold Rdiv. apply Rmult_le_compat_l; [unfold k2; lra|]. apply Rinv_le_contravar; lra. }
    unfold XKMPER, k2 in *. pose proof (Rabs_pos (rk el t e Ew - R)). nra.
  Qed.
End Radius.

(* on every answered propagation: the returned radius [km] against the osculating ellipse *)
Section Answered.
  Variables e0 incl_deg raan_deg argp_deg ma_deg n_revday bstar ts : R.
  Notation "'GA' f" := (f e0 incl_deg raan_deg argp_deg ma_deg n_revday bstar) (at level 9, f at level 9).
  Notation "'GB' f" := (f e0 incl_deg raan_deg argp_deg ma_deg n_revday bstar ts) (at level 9, f at level 9).
  Let El := E e0 incl_deg raan_deg argp_deg ma_deg n_revday bstar.

  Theorem distance_leaf1 j Ew radius theta eqinc ascn rdk rfdk smjaxs :
    GA gen_init_outcome = InitMode NearNorm 1 -> GB gen_nn1_prop_outcome = PropOk j ->
    exit_ok e0 incl_deg raan_deg argp_deg ma_deg n_revday bstar ts Ew radius theta eqinc ascn rdk rfdk smjaxs ->
    let T := mkT false ts in let ec := ecl e0 incl_deg raan_deg argp_deg ma_deg n_revday bstar ts in
    let Q := sqrt (eL2 El T ec) in
    a El T * (1 - Q) <= r El T ec Ew <= a El T * (1 + Q) /\
    Rabs (radius - r El T ec Ew * XKMPER) <= (3 * k2 / (pL El T ec) ^ 2 * r El T ec Ew + k2 / (2 * pL El T ec)) * XKMPER /\
    (1 <= pL El T ec -> r El T ec Ew <= 2 -> Rabs (radius - r El T ec Ew * XKMPER) <= 23).
  Proof.
    intros Hleaf Hp Hex T ec Q.
    destruct (prop_ok_guards _ _ _ _ _ _ _ _ Hleaf _ Hp) as [G1 [_ G3]]. fold El T ec in G1, G3.
    destruct Hex as [Hr _]. fold El T ec in Hr.
    assert (Ha : 0 < a El T) by lra.
    split; [exact (r_band El T ec Ew Ha)|]. rewrite Hr. split.
    - pose proof (rk_band El T ec Ew Ha G3) as B.
      replace (rk El T ec Ew * XKMPER - r El T ec Ew * XKMPER) with ((rk El T ec Ew - r El T ec Ew) * XKMPER) by ring.
      rewrite Rabs_mult, (Rabs_pos_eq XKMPER) by (unfold XKMPER; lra).
      apply Rmult_le_compat_r; [unfold XKMPER; lra|exact B].
    - intros H1 H2. exact (rk_band_km El T ec Ew Ha G3 H1 H2).
  Qed.

  Theorem distance_leaf3 j Ew radius theta eqinc ascn rdk rfdk smjaxs :
    GA gen_init_outcome = InitMode NearNorm 3 -> GB gen_nn3_prop_outcome = PropOk j ->
    exit_ok3 e0 incl_deg raan_deg argp_deg ma_deg n_revday bstar ts Ew radius theta eqinc ascn rdk rfdk smjaxs ->
    let T := mkT true ts in let ec := ecl3 e0 incl_deg raan_deg argp_deg ma_deg n_revday bstar ts in
    let Q := sqrt (eL2 El T ec) in
    a El T * (1 - Q) <= r El T ec Ew <= a El T * (1 + Q) /\
    Rabs (radius - r El T ec Ew * XKMPER) <= (3 * k2 / (pL El T ec) ^ 2 * r El T ec Ew + k2 / (2 * pL El T ec)) * XKMPER /\
    (1 <= pL El T ec -> r El T ec Ew <= 2 -> Rabs (radius - r El T ec Ew * XKMPER) <= 23).
  Proof.
    intros Hleaf Hp Hex T ec Q.
    destruct (prop_ok_guards3 _ _ _ _ _ _ _ _ Hleaf _ Hp) as [G1 [_ G3]]. fold El T ec in G1, G3.
    destruct Hex as [Hr _]. fold El T ec in Hr.
    assert (Ha : 0 < a El T) by lra.
    split; [exact (r_band El T ec Ew Ha)|]. rewrite Hr. split.
    - pose proof (rk_band El T ec Ew Ha G3) as B.
      replace (rk El T ec Ew * XKMPER - r El T ec Ew * XKMPER) with ((rk El T ec Ew - r El T ec Ew) * XKMPER) by ring.
      rewrite Rabs_mult, (Rabs_pos_eq XKMPER) by (unfold XKMPER; lra).
      apply Rmult_le_compat_r; [unfold XKMPER; lra|exact B].
    - intros H1 H2. exact (rk_band_km El T ec Ew Ha G3 H1 H2).
  Qed.
End Answered.
