(* P_Download.v — proofs about model/M_Download.v (fetch_plain_tle, fetch_spacetrack, body scanner). *)
From Coq Require Import List ZArith Bool Lia.
From PyOrb.model Require Import M_Download.
Import ListNotations.
Open Scope Z_scope.

(* ---------- independent per-URI reading of an outcome ---------- *)
(* what a URI serves when it is "successful" (status 200 and the text parses) *)
Definition served (o : outcome) : list entry :=
  match o with
  | Resp st b => if st =? 200 then match parse_body b with inl es => es | inr _ => [] end else []
  | Timeout => []
  end.
(* the exception a URI provokes when it is reached *)
Definition raises (o : outcome) : option exn :=
  match o with
  | Timeout => Some TimeoutError
  | Resp st b => if st =? 200 then match parse_body b with inr e => Some (ParseError e) | inl _ => None end
                 else None
  end.
Fixpoint first_raise (us : list outcome) : option exn :=
  match us with
  | [] => None
  | o :: r => match raises o with Some e => Some e | None => first_raise r end
  end.
Definition uris {S} (cfg : list (S * list outcome)) : list outcome := flat_map snd cfg.
Definition expected {S} (cfg : list (S * list outcome)) : list (S * list entry) :=
  map (fun su => (fst su, flat_map served (snd su))) cfg.

Lemma first_raise_app us vs :
  first_raise (us ++ vs) = match first_raise us with Some e => Some e | None => first_raise vs end.
Proof.
  induction us as [|o r IH]; cbn [app first_raise]; [reflexivity|].
  destruct (raises o); [reflexivity|exact IH].
Qed.

Lemma first_raise_none us : first_raise us = None <-> forall o, In o us -> raises o = None.
Proof.
  induction us as [|o r IH]; cbn [first_raise In].
  - split; [intros _ o []|reflexivity].
  - destruct (raises o) eqn:R.
    + split; [discriminate|]. intros H. rewrite <- R. apply H. left. reflexivity.
    + rewrite IH. split.
      * intros H o' [<-|Hin]; [exact R|apply H, Hin].
      * intros H o' Hin. apply H. right. exact Hin.
Qed.

(* ---------- complete characterisation of the two loops ---------- *)
Lemma fetch_uris_spec us : forall acc,
  fetch_uris us acc = match first_raise us with
                      | Some e => Raise e
                      | None => Ok (acc ++ flat_map served us)
                      end.
Proof.
  induction us as [|o r IH]; intros acc; cbn [fetch_uris first_raise flat_map].
  - rewrite app_nil_r. reflexivity.
  - destruct o as [st b|]; cbn [raises served]; [|reflexivity].
    destruct (st =? 200).
    + destruct (parse_body b) as [es|e]; [|reflexivity].
      rewrite IH. destruct (first_raise r); [reflexivity|]. rewrite app_assoc. reflexivity.
    + rewrite IH. destruct (first_raise r); reflexivity.
Qed.

Lemma fetch_sources_spec {S} (cfg : list (S * list outcome)) :
  fetch_sources cfg = match first_raise (uris cfg) with
                      | Some e => Raise e
                      | None => Ok (expected cfg)
                      end.
Proof.
  induction cfg as [|[s us] r IH]; cbn [fetch_sources uris flat_map expected map fst snd]; [reflexivity|].
  rewrite fetch_uris_spec, first_raise_app. fold (uris r).
  destruct (first_raise us); [reflexivity|].
  rewrite IH. destruct (first_raise (uris r)); reflexivity.
Qed.

(* ---------- C17_concat ---------- *)
(* whenever the call returns, the result is the per-source in-order concatenation and every
   configured source is present in configuration order *)
Lemma concat_when_returns {S} (cfg : list (S * list outcome)) r :
  fetch_sources cfg = Ok r ->
  r = expected cfg /\ map fst r = map fst cfg.
Proof.
  rewrite fetch_sources_spec. destruct (first_raise (uris cfg)); [discriminate|].
  intros H. injection H as <-. split; [reflexivity|].
  unfold expected. rewrite map_map. reflexivity.
Qed.

(* it returns exactly when no reached URI times out or serves unparsable text *)
Lemma returns_iff {S} (cfg : list (S * list outcome)) :
  (exists r, fetch_sources cfg = Ok r) <-> (forall o, In o (uris cfg) -> raises o = None).
Proof.
  rewrite fetch_sources_spec, <- first_raise_none.
  destruct (first_raise (uris cfg)); split.
  - intros [r H]. discriminate.
  - discriminate.
  - reflexivity.
  - intros _. eexists. reflexivity.
Qed.

Lemma concat_total {S} (cfg : list (S * list outcome)) :
  (forall o, In o (uris cfg) -> raises o = None) ->
  fetch_sources cfg = Ok (expected cfg).
Proof.
  intros H. apply first_raise_none in H. rewrite fetch_sources_spec, H. reflexivity.
Qed.

(* ---------- C17_isolation ---------- *)
Lemma uris_app {S} (a b : list (S * list outcome)) : uris (a ++ b) = uris a ++ uris b.
Proof. unfold uris. apply flat_map_app. Qed.

Lemma isolation {S} (pre post : list (S * list outcome)) s us1 us2 st b :
  st <> 200 ->
  fetch_sources (pre ++ (s, us1 ++ Resp st b :: us2) :: post) =
  fetch_sources (pre ++ (s, us1 ++ us2) :: post).
Proof.
  intros Hst. rewrite !fetch_sources_spec.
  assert (E : (st =? 200) = false) by (apply Z.eqb_neq; exact Hst).
  assert (R : first_raise (uris (pre ++ (s, us1 ++ Resp st b :: us2) :: post)) =
              first_raise (uris (pre ++ (s, us1 ++ us2) :: post))).
  { rewrite !uris_app. unfold uris at 2 4. cbn [flat_map snd].
    rewrite !first_raise_app. cbn [first_raise raises]. rewrite E. reflexivity. }
  rewrite R. destruct (first_raise (uris (pre ++ (s, us1 ++ us2) :: post))); [reflexivity|].
  f_equal. unfold expected. rewrite !map_app. cbn [map fst snd].
  rewrite !flat_map_app. cbn [flat_map served]. rewrite E. reflexivity.
Qed.

(* ---------- C17_timeout_loud ---------- *)
Lemma no_timeout_in_result {S} (cfg : list (S * list outcome)) r :
  fetch_sources cfg = Ok r -> forall s us, In (s, us) cfg -> ~ In Timeout us.
Proof.
  intros H s us Hin Ht.
  assert (Hr : exists r, fetch_sources cfg = Ok r) by (exists r; exact H).
  pose proof (proj1 (returns_iff cfg) Hr) as Hn. clear Hr. rename Hn into Hr.
  specialize (Hr Timeout). cbn [raises] in Hr.
  assert (In Timeout (uris cfg)).
  { unfold uris. apply in_flat_map. exists (s, us). split; [exact Hin|exact Ht]. }
  specialize (Hr H0). discriminate.
Qed.

Lemma timeout_reached {S} (pre post : list (S * list outcome)) s us1 us2 :
  (forall o, In o (uris pre ++ us1) -> raises o = None) ->
  fetch_sources (pre ++ (s, us1 ++ Timeout :: us2) :: post) = Raise TimeoutError.
Proof.
  intros H. rewrite fetch_sources_spec, uris_app.
  unfold uris at 2. cbn [flat_map snd]. rewrite <- !app_assoc, app_assoc.
  rewrite first_raise_app.
  apply first_raise_none in H. rewrite H. reflexivity.
Qed.

(* all 200-bodies parse: then the call raises TimeoutError iff some URI times out *)
Definition body_clean (o : outcome) : Prop :=
  match o with Resp st b => st = 200 -> exists es, parse_body b = inl es | Timeout => True end.

Lemma first_raise_clean us :
  (forall o, In o us -> body_clean o) ->
  first_raise us = if existsb (fun o => match o with Timeout => true | _ => false end) us
                   then Some TimeoutError else None.
Proof.
  induction us as [|o r IH]; intros H; cbn [first_raise existsb]; [reflexivity|].
  assert (Hr : forall o, In o r -> body_clean o) by (intros o' Ho; apply H; right; exact Ho).
  specialize (IH Hr).
  destruct o as [st b|]; cbn [raises orb]; [|reflexivity].
  destruct (st =? 200) eqn:E; [|exact IH].
  apply Z.eqb_eq in E.
  destruct (H (Resp st b) (or_introl eq_refl) E) as [es ->]. exact IH.
Qed.

Lemma timeout_iff_clean {S} (cfg : list (S * list outcome)) :
  (forall o, In o (uris cfg) -> body_clean o) ->
  (In Timeout (uris cfg) -> fetch_sources cfg = Raise TimeoutError) /\
  (~ In Timeout (uris cfg) -> fetch_sources cfg = Ok (expected cfg)).
Proof.
  intros H. rewrite fetch_sources_spec, (first_raise_clean _ H).
  destruct (existsb _ (uris cfg)) eqn:X.
  - split; [reflexivity|]. intros N. exfalso. apply N.
    apply existsb_exists in X as [o [Ho Hm]]. destruct o; [discriminate|exact Ho].
  - split; [|reflexivity]. intros I. exfalso.
    assert (existsb (fun o => match o with Timeout => true | _ => false end) (uris cfg) = true).
    { apply existsb_exists. exists Timeout. split; [exact I|reflexivity]. }
    congruence.
Qed.

(* ---------- body scanner ---------- *)
Definition starts1 (l : line) : bool := match l with LOne _ | LJunk1 => true | _ => false end.

Lemma scan_filler f : forall r, forallb (fun l => negb (starts1 l)) f = true -> scan (f ++ r) = scan r.
Proof.
  induction f as [|l t IH]; intros r H; [reflexivity|].
  cbn [forallb] in H. apply andb_true_iff in H as [Hl Ht].
  cbn [app]. destruct l; cbn in Hl; try discriminate; cbn [scan]; apply IH; exact Ht.
Qed.

(* text without any line starting with "1 " (blank lines, names, HTML...) yields no entries *)
Lemma nontle_no_entries b : forallb (fun l => negb (starts1 l)) b = true -> parse_body b = inl [].
Proof.
  intros H. unfold parse_body. rewrite <- (app_nil_r b), (scan_filler b [] H). reflexivity.
Qed.

(* a collection: blocks of (filler lines, line 1 of i, line 2 of j), then trailing filler *)
Definition block := (list line * Z * Z)%type.
Definition block_lines (bl : block) : list line :=
  let '(f, i, j) := bl in f ++ [LOne i; LTwo j].
Definition block_entry (bl : block) : entry := let '(f, i, j) := bl in (i, j).
Definition block_ok (bl : block) : bool :=
  let '(f, i, j) := bl in forallb (fun l => negb (starts1 l)) f.

Lemma scan_blocks bs tail :
  forallb block_ok bs = true -> forallb (fun l => negb (starts1 l)) tail = true ->
  scan (flat_map block_lines bs ++ tail) = Some (map (fun bl => (LOne (snd (fst bl)), LTwo (snd bl))) bs).
Proof.
  intros Hb Ht. induction bs as [|[[f i] j] r IH]; cbn [flat_map map app].
  - rewrite <- (app_nil_r tail), (scan_filler tail [] Ht). reflexivity.
  - cbn [forallb] in Hb. apply andb_true_iff in Hb as [Hf Hr].
    cbn [block_lines]. rewrite <- !app_assoc. rewrite (scan_filler f _ Hf).
    cbn [app scan]. rewrite (IH Hr). reflexivity.
Qed.

Lemma wellformed_body bs tail :
  forallb block_ok bs = true -> forallb (fun l => negb (starts1 l)) tail = true ->
  parse_body (flat_map block_lines bs ++ tail) = inl (map block_entry bs).
Proof.
  intros Hb Ht. unfold parse_body. rewrite (scan_blocks bs tail Hb Ht).
  clear. induction bs as [|[[f i] j] r IH]; cbn [map mk_all mk_tle fst snd]; [reflexivity|].
  rewrite IH. reflexivity.
Qed.

(* ---------- Space-Track ---------- *)
Lemma spacetrack_login_failed ls q : ls <> 200 -> fetch_spacetrack ls q = (Ok [], false).
Proof. intros H. unfold fetch_spacetrack. apply Z.eqb_neq in H. rewrite H. reflexivity. Qed.

Lemma spacetrack_query_failed qs b : qs <> 200 -> fetch_spacetrack 200 (qs, b) = (Ok [], true).
Proof. intros H. unfold fetch_spacetrack. apply Z.eqb_neq in H. cbn [fst snd Z.eqb Pos.eqb]. rewrite H. reflexivity. Qed.

Lemma spacetrack_success b es : parse_body b = inl es -> fetch_spacetrack 200 (200, b) = (Ok es, true).
Proof. intros H. unfold fetch_spacetrack. cbn [fst snd Z.eqb Pos.eqb]. rewrite H. reflexivity. Qed.

Lemma spacetrack_all ls qs b :
  fetch_spacetrack ls (qs, b) =
    if negb (ls =? 200) then (Ok [], false)
    else if negb (qs =? 200) then (Ok [], true)
    else (match parse_body b with inl es => Ok es | inr e => Raise (ParseError e) end, true).
Proof. unfold fetch_spacetrack. cbn [fst snd]. destruct (ls =? 200), (qs =? 200); reflexivity. Qed.

(* ---------- the refuted part: a 200 body with a junk line starting with "1 " ---------- *)
Lemma line1_refuted : exists cfg : list (Z * list outcome),
  (forall o, In o (uris cfg) -> exists b, o = Resp 200 b) /\
  served (Resp 200 [LText; LOne 1; LTwo 1]) = [(1, 1)] /\
  fetch_sources cfg = Raise (ParseError ETle).
Proof.
  exists [(7, [Resp 200 [LText; LOne 1; LTwo 1]]); (8, [Resp 200 [LJunk1; LText]])].
  split; [|split; reflexivity].
  intros o [<-|[<-|[]]]; eexists; reflexivity.
Qed.
