(* P_Db.v — proofs about model/M_Db.v: ISO-string order = temporal order; refinement of the
   SQLiteTLE model to an abstract specification over the history of updates; row invariant,
   updated flag, crash safety, export of the newest entry. *)
From Coq Require Import List ZArith NArith Ascii Bool Lia.
From Coq Require Import String.
From PyOrb.model Require Import M_Db.
Import ListNotations.
Local Notation length := List.length.

(* ====================================================================== *)
(* 1. lexical order of ISO strings = order of the civil fields            *)
(* ====================================================================== *)
Definition lexc (c1 c2 : comparison) : comparison := match c1 with Eq => c2 | c => c end.

(* temporal order of datetime values = lexicographic order of (Y, M, D, h, m, s, us) *)
Definition ecmp (a b : epoch) : comparison :=
  lexc (eY a ?= eY b)%N (lexc (eM a ?= eM b)%N (lexc (eD a ?= eD b)%N (lexc (eh a ?= eh b)%N
    (lexc (em a ?= em b)%N (lexc (es a ?= es b)%N (eus a ?= eus b)%N))))).

Definition valid_epoch (e : epoch) : Prop :=
  (eY e < 10000 /\ eM e < 100 /\ eD e < 100 /\ eh e < 100 /\ em e < 100 /\ es e < 100 /\ eus e < 1000000)%N.

Lemma lexc_assoc a b c : lexc (lexc a b) c = lexc a (lexc b c).
Proof. destruct a; reflexivity. Qed.

Lemma lexcmp_cons_same c x y : lexcmp (c :: x) (c :: y) = lexcmp x y.
Proof. cbn [lexcmp]. rewrite N.compare_refl. reflexivity. Qed.

Lemma lexcmp_app a : forall b x y, length a = length b ->
  lexcmp (a ++ x) (b ++ y) = lexc (lexcmp a b) (lexcmp x y).
Proof.
  induction a as [|c a IH]; intros [|d b] x y L; cbn [length] in L; try discriminate.
  - reflexivity.
  - cbn [app lexcmp]. destruct (N_of_ascii c ?= N_of_ascii d)%N; try reflexivity.
    apply IH. lia.
Qed.

Lemma lexcmp_refl a : lexcmp a a = Eq.
Proof. induction a as [|c a IH]; [reflexivity|]. rewrite lexcmp_cons_same. exact IH. Qed.

Lemma lexcmp_eq a : forall b, lexcmp a b = Eq -> a = b.
Proof.
  induction a as [|c a IH]; intros [|d b] H; cbn [lexcmp] in H; try discriminate; [reflexivity|].
  destruct (N_of_ascii c ?= N_of_ascii d)%N eqn:C; try discriminate.
  apply N.compare_eq_iff in C. apply (f_equal ascii_of_N) in C. rewrite !ascii_N_embedding in C.
  subst d. f_equal. apply IH, H.
Qed.

Lemma length_digits w : forall n, length (digits w n) = w.
Proof.
  induction w as [|w IH]; intros n; cbn [digits]; [reflexivity|].
  rewrite app_length, IH. cbn. lia.
Qed.

Lemma digit_cmp a b : (a < 10)%N -> (b < 10)%N ->
  (N_of_ascii (digit a) ?= N_of_ascii (digit b))%N = (a ?= b)%N.
Proof.
  intros Ha Hb. unfold digit. rewrite !N_ascii_embedding by lia.
  destruct (N.compare_spec a b); destruct (N.compare_spec (48 + a) (48 + b)); try reflexivity; lia.
Qed.

Lemma cmp_div_mod n m : (n ?= m)%N = lexc (n / 10 ?= m / 10)%N (n mod 10 ?= m mod 10)%N.
Proof.
  pose proof (N.div_mod n 10 ltac:(lia)) as H1. pose proof (N.div_mod m 10 ltac:(lia)) as H2.
  pose proof (N.mod_lt n 10 ltac:(lia)) as H3. pose proof (N.mod_lt m 10 ltac:(lia)) as H4.
  set (a := (n / 10)%N) in *. set (b := (m / 10)%N) in *.
  set (c := (n mod 10)%N) in *. set (d := (m mod 10)%N) in *.
  unfold lexc.
  destruct (N.compare_spec a b); destruct (N.compare_spec c d); destruct (N.compare_spec n m);
    try reflexivity; lia.
Qed.

Fixpoint pow10 (w : nat) : N := match w with O => 1 | S w' => 10 * pow10 w' end.

Lemma digits_cmp w : forall n m, (n < pow10 w)%N -> (m < pow10 w)%N ->
  lexcmp (digits w n) (digits w m) = (n ?= m)%N.
Proof.
  induction w as [|w IH]; intros n m Hn Hm; cbn [digits pow10] in *.
  - assert (n = 0%N) by lia. assert (m = 0%N) by lia. subst. reflexivity.
  - rewrite lexcmp_app by (rewrite !length_digits; reflexivity).
    rewrite IH by (apply N.div_lt_upper_bound; lia).
    cbn [lexcmp]. rewrite digit_cmp by (apply N.mod_lt; lia).
    rewrite (cmp_div_mod n m).
    destruct (n / 10 ?= m / 10)%N; cbn [lexc]; try reflexivity.
    destruct (n mod 10 ?= m mod 10)%N; reflexivity.
Qed.

Lemma iso_head_cmp a b : valid_epoch a -> valid_epoch b ->
  lexcmp (iso_head a ++ iso_tail a) (iso_head b ++ iso_tail b) =
  lexc (eY a ?= eY b)%N (lexc (eM a ?= eM b)%N (lexc (eD a ?= eD b)%N (lexc (eh a ?= eh b)%N
    (lexc (em a ?= em b)%N (lexc (es a ?= es b)%N (lexcmp (iso_tail a) (iso_tail b))))))).
Proof.
  intros (A1 & A2 & A3 & A4 & A5 & A6 & A7) (B1 & B2 & B3 & B4 & B5 & B6 & B7).
  unfold iso_head.
  repeat (rewrite <- ?app_assoc; cbn [app];
          rewrite lexcmp_app by (rewrite !length_digits; reflexivity);
          rewrite digits_cmp by (cbn; lia);
          f_equal; rewrite ?lexcmp_cons_same).
Qed.

Lemma iso_tail_cmp a b : (eus a < 1000000)%N -> (eus b < 1000000)%N ->
  lexcmp (iso_tail a) (iso_tail b) = (eus a ?= eus b)%N.
Proof.
  intros Ha Hb. unfold iso_tail.
  destruct (N.eqb_spec (eus a) 0) as [Ea|Ea]; destruct (N.eqb_spec (eus b) 0) as [Eb|Eb].
  - rewrite Ea, Eb. reflexivity.
  - rewrite Ea. cbn [lexcmp]. symmetry. apply N.compare_lt_iff. lia.
  - rewrite Eb. cbn [lexcmp]. symmetry. apply N.compare_gt_iff. lia.
  - rewrite lexcmp_cons_same. apply digits_cmp; cbn; lia.
Qed.

(* the lemma asked for: ORDER BY on the ISO strings is the temporal order, although a
   whole-second string is a strict prefix of every other string of the same second *)
Lemma iso_cmp a b : valid_epoch a -> valid_epoch b -> lexcmp (iso a) (iso b) = ecmp a b.
Proof.
  intros Ha Hb. unfold iso. rewrite (iso_head_cmp a b Ha Hb).
  rewrite iso_tail_cmp; [reflexivity| |]; [apply Ha|apply Hb].
Qed.

Lemma ecmp_eq a b : ecmp a b = Eq -> a = b.
Proof.
  destruct a as [a1 a2 a3 a4 a5 a6 a7], b as [b1 b2 b3 b4 b5 b6 b7]. unfold ecmp. cbn.
  destruct (N.compare_spec a1 b1); cbn; try discriminate.
  destruct (N.compare_spec a2 b2); cbn; try discriminate.
  destruct (N.compare_spec a3 b3); cbn; try discriminate.
  destruct (N.compare_spec a4 b4); cbn; try discriminate.
  destruct (N.compare_spec a5 b5); cbn; try discriminate.
  destruct (N.compare_spec a6 b6); cbn; try discriminate.
  destruct (N.compare_spec a7 b7); cbn; try discriminate.
  intros _. subst. reflexivity.
Qed.

Lemma ecmp_refl a : ecmp a a = Eq.
Proof. unfold ecmp. rewrite !N.compare_refl. reflexivity. Qed.

Lemma iso_inj a b : valid_epoch a -> valid_epoch b -> iso a = iso b -> a = b.
Proof.
  intros Ha Hb E. apply ecmp_eq. rewrite <- iso_cmp by assumption. rewrite E. apply lexcmp_refl.
Qed.

(* an order embedding into N (so the order is total and transitive) *)
Definition eord (e : epoch) : N :=
  ((((((eY e * 100 + eM e) * 100 + eD e) * 100 + eh e) * 100 + em e) * 100 + es e) * 1000000 + eus e)%N.

Lemma lexc_pack K a b c d : (b < K)%N -> (d < K)%N ->
  lexc (a ?= c)%N (b ?= d)%N = (a * K + b ?= c * K + d)%N.
Proof.
  intros Hb Hd. unfold lexc.
  destruct (N.compare_spec a c); destruct (N.compare_spec b d);
    destruct (N.compare_spec (a * K + b) (c * K + d)); try reflexivity; nia.
Qed.

Lemma lexc_pack' K c1 a c b d : (b < K)%N -> (d < K)%N -> c1 = (a ?= c)%N ->
  lexc c1 (b ?= d)%N = (a * K + b ?= c * K + d)%N.
Proof. intros Hb Hd ->. apply lexc_pack; assumption. Qed.

Lemma ecmp_ord a b : valid_epoch a -> valid_epoch b -> ecmp a b = (eord a ?= eord b)%N.
Proof.
  intros (A1 & A2 & A3 & A4 & A5 & A6 & A7) (B1 & B2 & B3 & B4 & B5 & B6 & B7).
  unfold ecmp, eord. rewrite <- !lexc_assoc.
  apply lexc_pack'; [assumption..|].
  apply lexc_pack'; [assumption..|].
  apply lexc_pack'; [assumption..|].
  apply lexc_pack'; [assumption..|].
  apply lexc_pack'; [assumption..|].
  apply lexc_pack; assumption.
Qed.

Definition epoch_eqb (a b : epoch) : bool := match ecmp a b with Eq => true | _ => false end.
Lemma epoch_eqb_eq a b : epoch_eqb a b = true <-> a = b.
Proof.
  unfold epoch_eqb. split.
  - destruct (ecmp a b) eqn:E; try discriminate. intros _. apply ecmp_eq, E.
  - intros ->. rewrite ecmp_refl. reflexivity.
Qed.

Lemma key_eqb_iso a b : valid_epoch a -> valid_epoch b -> key_eqb (iso a) (iso b) = epoch_eqb a b.
Proof. intros Ha Hb. unfold key_eqb, epoch_eqb. rewrite iso_cmp by assumption. reflexivity. Qed.

(* ====================================================================== *)
(* 2. association lists                                                   *)
(* ====================================================================== *)
Lemma lookup_app {A} k (l : list (Z * A)) k' v :
  lookup k (l ++ [(k', v)]) =
  match lookup k l with Some x => Some x | None => if (k =? k')%Z then Some v else None end.
Proof.
  induction l as [|[k0 v0] l IH]; cbn [app lookup]; [reflexivity|].
  destruct (k =? k0)%Z; [reflexivity|exact IH].
Qed.

Lemma lookup_set {A} k (v : A) l k' :
  lookup k' (set_assoc k v l) =
  if (k' =? k)%Z then match lookup k l with Some _ => Some v | None => None end else lookup k' l.
Proof.
  induction l as [|[k0 v0] l IH]; cbn [set_assoc lookup].
  - destruct (k' =? k)%Z; reflexivity.
  - destruct (Z.eqb_spec k k0) as [E|E].
    + subst k0. cbn [lookup]. destruct (Z.eqb_spec k' k); reflexivity.
    + cbn [lookup]. destruct (Z.eqb_spec k' k0) as [E2|E2].
      * subst k0. destruct (Z.eqb_spec k' k); [congruence|reflexivity].
      * exact IH.
Qed.

Lemma NoDup_app_one {A} (l : list A) x : NoDup l -> ~ In x l -> NoDup (l ++ [x]).
Proof.
  induction l as [|a l IH]; intros N H; cbn [app].
  - constructor; [intros []|constructor].
  - inversion N as [|? ? Ha Nl]; subst. constructor.
    + rewrite in_app_iff. intros [I|[I|[]]]; [exact (Ha I)|]. apply H. left. symmetry. exact I.
    + apply IH; [exact Nl|]. intros I. apply H. right. exact I.
Qed.

(* ====================================================================== *)
(* 3. the abstract specification: a function of the history of updates    *)
(* ====================================================================== *)
Definition event := (tle * Z)%type.                      (* (tle, source) of a completed update_db *)
Definition akey := (Z * epoch)%type.
Definition amap := list (akey * val).                    (* (sat, epoch) -> first-seen (text, source) *)

Definition configured (cfg : config) (sat : Z) : bool :=
  match lookup sat cfg with Some _ => true | None => false end.
Definition amem (sat : Z) (e : epoch) (m : amap) : bool :=
  existsb (fun x => (fst (fst x) =? sat)%Z && epoch_eqb (snd (fst x)) e) m.
Definition aput (cfg : config) (m : amap) (ev : event) : amap :=
  let t := fst ev in
  if configured cfg (t_sat t) && negb (amem (t_sat t) (t_epoch t) m)
  then m ++ [((t_sat t, t_epoch t), (t_text t, snd ev))] else m.
Definition amap_of (cfg : config) (evs : list event) : amap := fold_left (aput cfg) evs [].
Definition fresh (cfg : config) (evs : list event) (ev : event) : bool :=
  configured cfg (t_sat (fst ev)) && negb (amem (t_sat (fst ev)) (t_epoch (fst ev)) (amap_of cfg evs)).

Definition arows (sat : Z) (m : amap) : list (epoch * val) :=
  map (fun x => (snd (fst x), snd x)) (filter (fun x => (fst (fst x) =? sat)%Z) m).

(* greatest epoch in TEMPORAL order *)
Fixpoint anewest (l : list (epoch * val)) : option (epoch * val) :=
  match l with
  | [] => None
  | r :: t => match anewest t with
              | None => Some r
              | Some m => match ecmp (fst m) (fst r) with Lt => Some r | _ => Some m end
              end
  end.

Definition aexport (cfg : config) (m : amap) (flag write_name write_always : bool) : option (list item) :=
  if negb flag && negb write_always then None
  else Some (flat_map (fun p : Z * Z =>
               match anewest (arows (fst p) m) with
               | None => []
               | Some r => (if write_name then [IName (snd p)] else []) ++ [IText (fst (snd r))]
               end) cfg).

(* the abstract machine: the list of completed updates and "a row was added since open" *)
Definition astate := (list event * bool)%type.
Definition astep (cfg : config) (a : astate) (o : op) : astate * output :=
  match o with
  | Update t src => ((fst a ++ [(t, src)], snd a || fresh cfg (fst a) (t, src)), ONone)
  | Crash _ _ _ => ((fst a, false), ONone)
  | Reopen => ((fst a, false), ONone)
  | Export wn wa => (a, OFile (aexport cfg (amap_of cfg (fst a)) (snd a) wn wa))
  end.
Fixpoint arun (cfg : config) (ops : list op) (a : astate) : astate * list output :=
  match ops with
  | [] => (a, [])
  | o :: r => let (a1, out) := astep cfg a o in
              let (a2, outs) := arun cfg r a1 in (a2, out :: outs)
  end.

Definition op_valid (o : op) : Prop :=
  match o with
  | Update t _ => valid_epoch (t_epoch t)
  | Crash _ t _ => valid_epoch (t_epoch t)
  | _ => True
  end.
Definition events (ops : list op) : list event :=
  flat_map (fun o => match o with Update t src => [(t, src)] | _ => [] end) ops.

(* ---------- facts about the abstract map ---------- *)
Lemma amap_snoc cfg evs ev : amap_of cfg (evs ++ [ev]) = aput cfg (amap_of cfg evs) ev.
Proof. unfold amap_of. rewrite fold_left_app. reflexivity. Qed.

Lemma arows_app sat m x :
  arows sat (m ++ [x]) = arows sat m ++ (if (fst (fst x) =? sat)%Z then [(snd (fst x), snd x)] else []).
Proof.
  unfold arows. rewrite filter_app, map_app. destruct x as [[s e] v]. cbn [filter fst snd].
  destruct (s =? sat)%Z; cbn [map fst snd]; reflexivity.
Qed.

Lemma amem_arows sat e m :
  amem sat e m = existsb (fun r => epoch_eqb (fst r) e) (arows sat m).
Proof.
  unfold amem, arows. induction m as [|x m IH]; [reflexivity|].
  destruct x as [[s e'] v]. cbn [existsb filter fst snd]. rewrite IH.
  destruct (s =? sat)%Z; cbn [map existsb andb fst snd]; reflexivity.
Qed.

Definition evs_valid (evs : list event) : Prop := forall ev, In ev evs -> valid_epoch (t_epoch (fst ev)).

Lemma amap_valid cfg evs : evs_valid evs ->
  forall x, In x (amap_of cfg evs) -> valid_epoch (snd (fst x)) /\ configured cfg (fst (fst x)) = true.
Proof.
  induction evs as [|ev evs IH] using rev_ind; intros V x Hin.
  - destruct Hin.
  - rewrite amap_snoc in Hin. unfold aput in Hin.
    assert (V' : evs_valid evs) by (intros e He; apply V, in_or_app; left; exact He).
    destruct (configured cfg (t_sat (fst ev))) eqn:C; cbn [andb] in Hin; [|apply IH; assumption].
    destruct (negb _); [|apply IH; assumption].
    apply in_app_or in Hin as [Hin|[<-|[]]]; [apply IH; assumption|].
    cbn [fst snd]. split; [|exact C]. apply V, in_or_app. right. left. reflexivity.
Qed.

Lemma arows_valid cfg evs sat : evs_valid evs ->
  forall r, In r (arows sat (amap_of cfg evs)) -> valid_epoch (fst r).
Proof.
  intros V r Hin. unfold arows in Hin. apply in_map_iff in Hin as (x & <- & Hx).
  apply filter_In in Hx as [Hx _]. cbn [fst]. apply (amap_valid cfg evs V x Hx).
Qed.

(* first completed update carrying (sat, e) *)
Fixpoint first_seen (evs : list event) (sat : Z) (e : epoch) : option val :=
  match evs with
  | [] => None
  | ev :: r => if (t_sat (fst ev) =? sat)%Z && epoch_eqb (t_epoch (fst ev)) e
               then Some (t_text (fst ev), snd ev) else first_seen r sat e
  end.

Lemma first_seen_app evs ev sat e :
  first_seen (evs ++ [ev]) sat e =
  match first_seen evs sat e with
  | Some v => Some v
  | None => if (t_sat (fst ev) =? sat)%Z && epoch_eqb (t_epoch (fst ev)) e
            then Some (t_text (fst ev), snd ev) else None
  end.
Proof.
  induction evs as [|x evs IH]; cbn [app first_seen]; [reflexivity|].
  destruct ((t_sat (fst x) =? sat)%Z && epoch_eqb (t_epoch (fst x)) e); [reflexivity|exact IH].
Qed.

Lemma amem_In sat e m : amem sat e m = true <-> exists v, In ((sat, e), v) m.
Proof.
  unfold amem. rewrite existsb_exists. split.
  - intros ([[s e'] v] & Hin & H). cbn [fst snd] in H. apply andb_true_iff in H as [H1 H2].
    apply Z.eqb_eq in H1. apply epoch_eqb_eq in H2. subst. exists v. exact Hin.
  - intros (v & Hin). exists ((sat, e), v). split; [exact Hin|]. cbn [fst snd].
    rewrite Z.eqb_refl. cbn [andb]. apply epoch_eqb_eq. reflexivity.
Qed.

(* the abstract map holds exactly the first-seen value of every (configured sat, epoch) seen *)
Lemma amap_char cfg evs sat e v :
  In ((sat, e), v) (amap_of cfg evs) <-> configured cfg sat = true /\ first_seen evs sat e = Some v.
Proof.
  revert sat e v. induction evs as [|ev evs IH] using rev_ind; intros sat e v.
  - cbn. split; [intros []|intros [_ H]; discriminate].
  - rewrite amap_snoc, first_seen_app. unfold aput.
    destruct (configured cfg (t_sat (fst ev))) eqn:C; cbn [andb].
    + destruct (amem (t_sat (fst ev)) (t_epoch (fst ev)) (amap_of cfg evs)) eqn:M; cbn [negb].
      * (* already present: unchanged; first_seen of that key is already Some *)
        rewrite IH. apply amem_In in M as (v0 & Hv0). apply IH in Hv0 as [_ Hv0].
        destruct (first_seen evs sat e) eqn:F; [reflexivity|].
        destruct ((t_sat (fst ev) =? sat)%Z && epoch_eqb (t_epoch (fst ev)) e) eqn:Q; [|reflexivity].
        apply andb_true_iff in Q as [Q1 Q2]. apply Z.eqb_eq in Q1. apply epoch_eqb_eq in Q2.
        subst. congruence.
      * rewrite in_app_iff, IH. cbn [In].
        destruct (first_seen evs sat e) eqn:F.
        -- split; [intros [H|[H|[]]]; [exact H|]|intros H; left; exact H].
           exfalso. injection H as <- <- <-.
           assert (amem (t_sat (fst ev)) (t_epoch (fst ev)) (amap_of cfg evs) = true).
           { apply amem_In. exists v0. apply IH. split; [exact C|exact F]. }
           congruence.
        -- destruct ((t_sat (fst ev) =? sat)%Z && epoch_eqb (t_epoch (fst ev)) e) eqn:Q.
           ++ apply andb_true_iff in Q as [Q1 Q2]. apply Z.eqb_eq in Q1. apply epoch_eqb_eq in Q2. subst.
              split.
              ** intros [[_ H]|[H|[]]]; [discriminate|]. injection H as <-. split; [exact C|reflexivity].
              ** intros [_ H]. injection H as <-. right. left. reflexivity.
           ++ split; [intros [[_ H]|[H|[]]]; [discriminate|]|intros [_ H]; discriminate].
              injection H as <- <- <-. rewrite Z.eqb_refl in Q. cbn [andb] in Q.
              assert (epoch_eqb (t_epoch (fst ev)) (t_epoch (fst ev)) = true) by (apply epoch_eqb_eq; reflexivity).
              congruence.
    + rewrite IH. destruct (first_seen evs sat e) eqn:F; [reflexivity|].
      destruct ((t_sat (fst ev) =? sat)%Z && epoch_eqb (t_epoch (fst ev)) e) eqn:Q; [|reflexivity].
      apply andb_true_iff in Q as [Q1 _]. apply Z.eqb_eq in Q1. subst sat.
      split; intros [H _]; congruence.
Qed.

Lemma fresh_char cfg evs ev :
  fresh cfg evs ev = configured cfg (t_sat (fst ev)) &&
                     match first_seen evs (t_sat (fst ev)) (t_epoch (fst ev)) with None => true | Some _ => false end.
Proof.
  unfold fresh. destruct (configured cfg (t_sat (fst ev))) eqn:C; cbn [andb]; [|reflexivity].
  destruct (first_seen evs (t_sat (fst ev)) (t_epoch (fst ev))) eqn:F.
  - assert (amem (t_sat (fst ev)) (t_epoch (fst ev)) (amap_of cfg evs) = true) as ->; [|reflexivity].
    apply amem_In. exists v. apply amap_char. split; assumption.
  - destruct (amem _ _ _) eqn:M; [|reflexivity].
    apply amem_In in M as (v & Hv). apply amap_char in Hv as [_ Hv]. congruence.
Qed.

Lemma amap_keys_nodup cfg evs : NoDup (map fst (amap_of cfg evs)).
Proof.
  induction evs as [|ev evs IH] using rev_ind; [constructor|].
  rewrite amap_snoc. unfold aput.
  destruct (configured cfg (t_sat (fst ev)) && negb (amem (t_sat (fst ev)) (t_epoch (fst ev)) (amap_of cfg evs))) eqn:Q;
    [|exact IH].
  apply andb_true_iff in Q as [_ Q]. apply negb_true_iff in Q.
  rewrite map_app. cbn [map fst].
  apply NoDup_app_one; [exact IH|].
  intros Hin. apply in_map_iff in Hin as ([k v] & Hk & Hin). cbn [fst] in Hk. subst k.
  assert (amem (t_sat (fst ev)) (t_epoch (fst ev)) (amap_of cfg evs) = true) by (apply amem_In; exists v; exact Hin).
  congruence.
Qed.

(* ====================================================================== *)
(* 4. effect of update_db / a crashed update_db on the observations       *)
(* ====================================================================== *)
Lemma rows_of_lookup s d : rows_of s d = match lookup s (tables d) with Some r => r | None => [] end.
Proof. reflexivity. Qed.

Lemma update_unconfigured cfg t src st :
  lookup (t_sat t) cfg = None -> update cfg t src st = (mkState (sdb st) (updated st), false).
Proof. intros C. unfold update, plan. rewrite C. reflexivity. Qed.

Lemma update_effect cfg t src st nm :
  lookup (t_sat t) cfg = Some nm ->
  (forall s n, lookup s (names (sdb st)) = Some n -> lookup s (tables (sdb st)) <> None) ->
  let sat := t_sat t in
  let k := iso (t_epoch t) in
  let ins := negb (has_key k (rows_of sat (sdb st))) in
  exists d', update cfg t src st = (mkState d' (updated st || ins), false) /\
    (forall s, rows_of s d' = if (s =? sat)%Z && ins then rows_of s (sdb st) ++ [(k, (t_text t, src))]
                              else rows_of s (sdb st)) /\
    (forall s, lookup s (tables d') = None <-> (lookup s (tables (sdb st)) = None /\ s <> sat)) /\
    (forall s n, lookup s (names d') = Some n ->
                 lookup s (names (sdb st)) = Some n \/ (s = sat /\ n = nm)).
Proof.
  intros C HN sat k ins. unfold update, plan. rewrite C. fold sat. fold k.
  unfold table_exists. subst ins. rewrite (rows_of_lookup sat).
  destruct (lookup sat (tables (sdb st))) as [rows|] eqn:T.
  - (* the table exists: one statement *)
    cbn [app exec_plan exec]. rewrite T.
    destruct (has_key k rows) eqn:HK; cbn [is_row negb exec_plan].
    + exists (sdb st). rewrite orb_false_r. split; [reflexivity|]. split; [|split].
      * intros s. rewrite andb_false_r. reflexivity.
      * intros s. split; [intros H; split; [exact H|]; intros ->; congruence|intros [H _]; exact H].
      * intros s n H. left. exact H.
    + eexists. rewrite orb_true_r. split; [reflexivity|]. cbn [tables names]. split; [|split].
      * intros s. rewrite andb_true_r, !rows_of_lookup. cbn [tables]. rewrite lookup_set, T.
        destruct (Z.eqb_spec s sat) as [->|Ne]; [rewrite T|]; reflexivity.
      * intros s. rewrite lookup_set, T. destruct (Z.eqb_spec s sat) as [->|Ne].
        -- split; [discriminate|intros [_ H]; congruence].
        -- split; [intros H; split; assumption|intros [H _]; exact H].
      * intros s n H. left. exact H.
  - (* no table yet: CREATE TABLE, platform_names INSERT, row INSERT *)
    assert (Nm : lookup sat (names (sdb st)) = None).
    { destruct (lookup sat (names (sdb st))) eqn:Nm; [|reflexivity]. exfalso. exact (HN _ _ Nm T). }
    cbn [app exec_plan exec]. unfold table_exists. rewrite T. cbn [is_row orb tables names].
    rewrite Nm. cbn [is_row orb tables names].
    rewrite lookup_app, T, Z.eqb_refl. cbn [has_key existsb is_row orb app negb].
    eexists. rewrite ?orb_false_r, !orb_true_r. split; [reflexivity|]. cbn [tables names]. split; [|split].
    + intros s. rewrite andb_true_r, !rows_of_lookup. cbn [tables].
      rewrite lookup_set, !lookup_app, T, Z.eqb_refl.
      destruct (Z.eqb_spec s sat) as [->|Ne]; [rewrite T; reflexivity|].
      destruct (lookup s (tables (sdb st))); reflexivity.
    + intros s. rewrite lookup_set, !lookup_app, T, Z.eqb_refl.
      destruct (Z.eqb_spec s sat) as [->|Ne].
      * split; [discriminate|intros [_ H]; congruence].
      * destruct (lookup s (tables (sdb st))); split; try discriminate; try (intros [H _]; discriminate);
          [intros _; split; [reflexivity|exact Ne]|reflexivity].
    + intros s n. rewrite lookup_app.
      destruct (lookup s (names (sdb st))) eqn:E; [intros H; left; exact H|].
      destruct (Z.eqb_spec s sat) as [->|Ne]; [|discriminate].
      intros H. injection H as <-. right. split; reflexivity.
Qed.

Lemma crash_effect cfg c t src st :
  (forall s n, lookup s (names (sdb st)) = Some n -> lookup s (tables (sdb st)) <> None) ->
  exists d', crash cfg c t src st = mkState d' false /\
    (forall s, rows_of s d' = rows_of s (sdb st)) /\
    (forall s, lookup s (tables d') = None -> lookup s (tables (sdb st)) = None) /\
    (forall s, lookup s (tables d') <> None ->
               lookup s (tables (sdb st)) <> None \/ (s = t_sat t /\ lookup s cfg <> None)) /\
    (forall s n, lookup s (names d') = Some n ->
                 lookup s (names (sdb st)) = Some n \/
                 (s = t_sat t /\ lookup s cfg = Some n /\ lookup s (tables d') <> None)).
Proof.
  intros HN. unfold crash, plan.
  assert (Same : exists d', mkState (sdb st) false = mkState d' false /\
    (forall s, rows_of s d' = rows_of s (sdb st)) /\
    (forall s, lookup s (tables d') = None -> lookup s (tables (sdb st)) = None) /\
    (forall s, lookup s (tables d') <> None ->
               lookup s (tables (sdb st)) <> None \/ (s = t_sat t /\ lookup s cfg <> None)) /\
    (forall s n, lookup s (names d') = Some n ->
                 lookup s (names (sdb st)) = Some n \/
                 (s = t_sat t /\ lookup s cfg = Some n /\ lookup s (tables d') <> None))).
  { exists (sdb st). split; [reflexivity|]. split; [reflexivity|]. split; [auto|]. split; [auto|]. auto. }
  destruct (lookup (t_sat t) cfg) as [nm|] eqn:C; [|exact Same].
  unfold table_exists.
  destruct (lookup (t_sat t) (tables (sdb st))) as [rows|] eqn:T.
  - (* table exists: the only statement is the row INSERT, never committed by a crash *)
    cbn [app]. destruct c; cbn; exact Same.
  - assert (Nm : lookup (t_sat t) (names (sdb st)) = None).
    { destruct (lookup (t_sat t) (names (sdb st))) eqn:Nm; [|reflexivity]. exfalso. exact (HN _ _ Nm T). }
    cbn [app].
    destruct c; cbn [committed stmt_level cp_level Nat.leb exec_plan]; try exact Same.
    + (* after CREATE TABLE *)
      cbn [exec]. unfold table_exists. rewrite T. cbn [is_row orb exec_plan].
      eexists. split; [reflexivity|]. cbn [tables names]. split; [|split; [|split]].
      * intros s. rewrite !rows_of_lookup. cbn [tables]. rewrite lookup_app.
        destruct (lookup s (tables (sdb st))); [reflexivity|]. destruct (s =? t_sat t)%Z; reflexivity.
      * intros s. rewrite lookup_app. destruct (lookup s (tables (sdb st))); [discriminate|reflexivity].
      * intros s. rewrite lookup_app. destruct (lookup s (tables (sdb st))) eqn:E.
        -- intros _. left. discriminate.
        -- destruct (Z.eqb_spec s (t_sat t)) as [->|Ne]; [|intros H; exfalso; apply H; reflexivity].
           intros _. right. split; [reflexivity|]. rewrite C. discriminate.
      * intros s n H. left. exact H.
    + (* after the platform_names INSERT *)
      cbn [exec]. unfold table_exists. rewrite T. cbn [is_row orb exec_plan exec tables names].
      rewrite Nm. cbn [is_row orb exec_plan].
      eexists. split; [reflexivity|]. cbn [tables names]. split; [|split; [|split]].
      * intros s. rewrite !rows_of_lookup. cbn [tables]. rewrite lookup_app.
        destruct (lookup s (tables (sdb st))); [reflexivity|]. destruct (s =? t_sat t)%Z; reflexivity.
      * intros s. rewrite lookup_app. destruct (lookup s (tables (sdb st))); [discriminate|reflexivity].
      * intros s. rewrite lookup_app. destruct (lookup s (tables (sdb st))) eqn:E.
        -- intros _. left. discriminate.
        -- destruct (Z.eqb_spec s (t_sat t)) as [->|Ne]; [|intros H; exfalso; apply H; reflexivity].
           intros _. right. split; [reflexivity|]. rewrite C. discriminate.
      * intros s n. rewrite !lookup_app.
        destruct (lookup s (names (sdb st))) eqn:E; [intros H; left; exact H|].
        destruct (Z.eqb_spec s (t_sat t)) as [->|Ne]; [|discriminate].
        intros H. injection H as <-. right. split; [reflexivity|]. split; [exact C|].
        rewrite T, ?Z.eqb_refl. discriminate.
    + (* inside the row transaction: same committed prefix *)
      cbn [exec]. unfold table_exists. rewrite T. cbn [is_row orb exec_plan exec tables names].
      rewrite Nm. cbn [is_row orb exec_plan].
      eexists. split; [reflexivity|]. cbn [tables names]. split; [|split; [|split]].
      * intros s. rewrite !rows_of_lookup. cbn [tables]. rewrite lookup_app.
        destruct (lookup s (tables (sdb st))); [reflexivity|]. destruct (s =? t_sat t)%Z; reflexivity.
      * intros s. rewrite lookup_app. destruct (lookup s (tables (sdb st))); [discriminate|reflexivity].
      * intros s. rewrite lookup_app. destruct (lookup s (tables (sdb st))) eqn:E.
        -- intros _. left. discriminate.
        -- destruct (Z.eqb_spec s (t_sat t)) as [->|Ne]; [|intros H; exfalso; apply H; reflexivity].
           intros _. right. split; [reflexivity|]. rewrite C. discriminate.
      * intros s n. rewrite !lookup_app.
        destruct (lookup s (names (sdb st))) eqn:E; [intros H; left; exact H|].
        destruct (Z.eqb_spec s (t_sat t)) as [->|Ne]; [|discriminate].
        intros H. injection H as <-. right. split; [reflexivity|]. split; [exact C|].
        rewrite T, ?Z.eqb_refl. discriminate.
Qed.

(* ====================================================================== *)
(* 5. refinement: the SQLiteTLE model implements the abstract machine     *)
(* ====================================================================== *)
Definition iso_row (r : epoch * val) : row := (iso (fst r), snd r).

Record R (cfg : config) (st : state) (a : astate) : Prop := mkR {
  R_flag : updated st = snd a;
  R_rows : forall s, rows_of s (sdb st) = map iso_row (arows s (amap_of cfg (fst a)));
  R_uncfg : forall s, lookup s cfg = None -> lookup s (tables (sdb st)) = None;
  R_names : forall s n, lookup s (names (sdb st)) = Some n ->
                        lookup s (tables (sdb st)) <> None /\ lookup s cfg = Some n;
  R_valid : evs_valid (fst a) }.

Lemma epoch_eqb_sym a b : epoch_eqb a b = epoch_eqb b a.
Proof.
  destruct (epoch_eqb a b) eqn:E1, (epoch_eqb b a) eqn:E2; try reflexivity.
  - apply epoch_eqb_eq in E1. subst. assert (epoch_eqb b b = true) by (apply epoch_eqb_eq; reflexivity). congruence.
  - apply epoch_eqb_eq in E2. subst. assert (epoch_eqb a a = true) by (apply epoch_eqb_eq; reflexivity). congruence.
Qed.

Lemma has_key_iso e (l : list (epoch * val)) :
  valid_epoch e -> (forall r, In r l -> valid_epoch (fst r)) ->
  has_key (iso e) (map iso_row l) = existsb (fun r => epoch_eqb (fst r) e) l.
Proof.
  intros Ve Vl. unfold has_key. induction l as [|r l IH]; [reflexivity|].
  cbn [map existsb]. unfold iso_row at 1. cbn [fst].
  rewrite key_eqb_iso by (try exact Ve; apply Vl; left; reflexivity).
  rewrite epoch_eqb_sym. f_equal. apply IH. intros r' H. apply Vl. right. exact H.
Qed.

Lemma has_key_amem cfg evs s e : evs_valid evs -> valid_epoch e ->
  has_key (iso e) (map iso_row (arows s (amap_of cfg evs))) = amem s e (amap_of cfg evs).
Proof.
  intros V Ve. rewrite amem_arows. apply has_key_iso; [exact Ve|]. apply arows_valid. exact V.
Qed.

Lemma evs_valid_snoc evs ev : evs_valid evs -> valid_epoch (t_epoch (fst ev)) -> evs_valid (evs ++ [ev]).
Proof. intros V Ve x H. apply in_app_or in H as [H|[<-|[]]]; [apply V, H|exact Ve]. Qed.

Lemma R_names_tables cfg st a : R cfg st a ->
  forall s n, lookup s (names (sdb st)) = Some n -> lookup s (tables (sdb st)) <> None.
Proof. intros HR s n H. apply (R_names _ _ _ HR s n H). Qed.

Lemma update_refines cfg st a t src :
  R cfg st a -> valid_epoch (t_epoch t) ->
  snd (update cfg t src st) = false /\
  R cfg (fst (update cfg t src st)) (fst (astep cfg a (Update t src))).
Proof.
  intros HR Ve. cbn [astep fst snd].
  assert (V' : evs_valid (fst a ++ [(t, src)])) by (apply evs_valid_snoc; [apply HR|exact Ve]).
  destruct (lookup (t_sat t) cfg) as [nm|] eqn:C.
  - destruct (update_effect cfg t src st nm C (R_names_tables _ _ _ HR)) as (d' & -> & Hrows & Htab & Hnm).
    cbn [fst snd]. split; [reflexivity|].
    assert (HK : has_key (iso (t_epoch t)) (rows_of (t_sat t) (sdb st)) =
                 amem (t_sat t) (t_epoch t) (amap_of cfg (fst a))).
    { rewrite (R_rows _ _ _ HR). apply has_key_amem; [apply HR|exact Ve]. }
    assert (Fr : fresh cfg (fst a) (t, src) = negb (has_key (iso (t_epoch t)) (rows_of (t_sat t) (sdb st)))).
    { unfold fresh, configured. cbn [fst]. rewrite C, HK. reflexivity. }
    constructor; cbn [fst snd sdb updated].
    + rewrite (R_flag _ _ _ HR), Fr. reflexivity.
    + intros s. rewrite Hrows, amap_snoc. unfold aput. cbn [fst snd].
      unfold configured. rewrite C, <- HK. cbn [andb].
      destruct (negb (has_key (iso (t_epoch t)) (rows_of (t_sat t) (sdb st)))).
      * rewrite arows_app. cbn [fst snd]. rewrite map_app, (Z.eqb_sym s).
        destruct (t_sat t =? s)%Z; cbn [andb map]; rewrite (R_rows _ _ _ HR); [reflexivity|].
        rewrite app_nil_r. reflexivity.
      * rewrite andb_false_r. apply HR.
    + intros s Cs. apply Htab. split; [apply HR, Cs|]. intros ->. congruence.
    + intros s n H. destruct (Hnm s n H) as [H0|[-> ->]].
      * destruct (R_names _ _ _ HR s n H0) as [H1 H2]. split; [|exact H2].
        intros Hn. apply Htab in Hn as [Hn _]. exact (H1 Hn).
      * split; [|exact C]. intros Hn. apply Htab in Hn as [_ Hn]. apply Hn. reflexivity.
    + exact V'.
  - rewrite (update_unconfigured cfg t src st C). cbn [fst snd]. split; [reflexivity|].
    assert (Fr : fresh cfg (fst a) (t, src) = false).
    { unfold fresh, configured. cbn [fst]. rewrite C. reflexivity. }
    constructor; cbn [fst snd sdb updated].
    + rewrite Fr, orb_false_r. apply HR.
    + intros s. rewrite amap_snoc. unfold aput, configured. cbn [fst]. rewrite C. cbn [andb]. apply HR.
    + apply HR.
    + apply HR.
    + exact V'.
Qed.

Lemma crash_refines cfg st a c t src :
  R cfg st a -> R cfg (crash cfg c t src st) (fst a, false).
Proof.
  intros HR.
  destruct (crash_effect cfg c t src st (R_names_tables _ _ _ HR)) as (d' & -> & Hrows & Htn & Hts & Hnm).
  constructor; cbn [fst snd sdb updated].
  - reflexivity.
  - intros s. rewrite Hrows. apply HR.
  - intros s Cs. destruct (lookup s (tables d')) eqn:E; [|reflexivity]. exfalso.
    destruct (Hts s) as [H|[_ H]]; [rewrite E; discriminate| |exact (H Cs)].
    apply H. apply HR, Cs.
  - intros s n H. destruct (Hnm s n H) as [H0|(-> & H1 & H2)].
    + destruct (R_names _ _ _ HR s n H0) as [H1 H2]. split; [|exact H2].
      intros Hn. apply Htn in Hn. exact (H1 Hn).
    + split; assumption.
  - apply HR.
Qed.

Lemma reopen_refines cfg st a : R cfg st a -> R cfg (reopen st) (fst a, false).
Proof. intros HR. constructor; cbn [fst snd sdb updated reopen]; try apply HR. reflexivity. Qed.

(* ORDER BY on strings picks the temporally newest abstract row *)
Lemma newest_iso (l : list (epoch * val)) :
  (forall r, In r l -> valid_epoch (fst r)) ->
  newest (map iso_row l) = option_map iso_row (anewest l).
Proof.
  induction l as [|r l IH]; intros V; [reflexivity|].
  cbn [map newest anewest]. rewrite IH by (intros r' H; apply V; right; exact H).
  destruct (anewest l) as [m|] eqn:A; cbn [option_map]; [|reflexivity].
  assert (Vm : valid_epoch (fst m)).
  { apply V. right. clear -A. revert m A. induction l as [|x l IHl]; intros m A; [discriminate|].
    cbn [anewest] in A. destruct (anewest l) as [m'|] eqn:A'.
    - destruct (ecmp (fst m') (fst x)); injection A as <-; try (right; apply IHl; reflexivity); left; reflexivity.
    - injection A as <-. left. reflexivity. }
  unfold iso_row at 1 2. cbn [fst]. rewrite iso_cmp by (try exact Vm; apply V; left; reflexivity).
  destruct (ecmp (fst m) (fst r)); reflexivity.
Qed.

Lemma export_refines cfg st a wn wa :
  R cfg st a -> export cfg st wn wa = aexport cfg (amap_of cfg (fst a)) (snd a) wn wa.
Proof.
  intros HR. unfold export, aexport. rewrite (R_flag _ _ _ HR).
  destruct (negb (snd a) && negb wa); [reflexivity|]. f_equal.
  apply flat_map_ext. intros [sat nm]. cbn [fst snd].
  pose proof (R_rows _ _ _ HR sat) as Hr. rewrite rows_of_lookup in Hr.
  pose proof (newest_iso (arows sat (amap_of cfg (fst a))) (arows_valid cfg (fst a) sat (R_valid _ _ _ HR))) as Hn.
  destruct (lookup sat (tables (sdb st))) as [rows|].
  - rewrite Hr, Hn. destruct (anewest _) as [m|]; reflexivity.
  - destruct (arows sat (amap_of cfg (fst a))); [reflexivity|discriminate].
Qed.

Lemma step_refines cfg st a o :
  R cfg st a -> op_valid o ->
  snd (step cfg st o) = snd (astep cfg a o) /\ R cfg (fst (step cfg st o)) (fst (astep cfg a o)).
Proof.
  intros HR Vo. destruct o as [t src|c t src|wn wa|]; cbn [step].
  - destruct (update_refines cfg st a t src HR Vo) as [H1 H2].
    destruct (update cfg t src st) as [st' raised]. cbn [fst snd] in *. subst raised. split; [reflexivity|exact H2].
  - cbn [astep fst snd]. split; [reflexivity|]. apply crash_refines, HR.
  - cbn [astep fst snd]. split; [|exact HR]. f_equal. apply export_refines, HR.
  - cbn [astep fst snd]. split; [reflexivity|]. apply reopen_refines, HR.
Qed.

Definition ops_valid (ops : list op) : Prop := forall o, In o ops -> op_valid o.

Lemma run_refines cfg ops : forall st a,
  R cfg st a -> ops_valid ops ->
  snd (run cfg ops st) = snd (arun cfg ops a) /\ R cfg (fst (run cfg ops st)) (fst (arun cfg ops a)).
Proof.
  induction ops as [|o r IH]; intros st a HR V; cbn [run arun].
  - split; [reflexivity|exact HR].
  - destruct (step_refines cfg st a o HR (V o (or_introl eq_refl))) as [H1 H2].
    destruct (step cfg st o) as [st1 out]. destruct (astep cfg a o) as [a1 out'].
    cbn [fst snd] in *. subst out'.
    destruct (IH st1 a1 H2 (fun o' H => V o' (or_intror H))) as [H3 H4].
    destruct (run cfg r st1) as [st2 outs]. destruct (arun cfg r a1) as [a2 outs'].
    cbn [fst snd] in *. subst outs'. split; [reflexivity|exact H4].
Qed.

Lemma R_init cfg : R cfg init ([], false).
Proof.
  constructor.
  - reflexivity.
  - intros s. reflexivity.
  - intros s _. reflexivity.
  - intros s n H. discriminate H.
  - intros ev [].
Qed.

(* the abstract machine's event list is the list of completed updates *)
Lemma arun_events cfg ops : forall a, fst (fst (arun cfg ops a)) = fst a ++ events ops.
Proof.
  induction ops as [|o r IH]; intros a; cbn [arun events flat_map].
  - rewrite app_nil_r. reflexivity.
  - destruct (astep cfg a o) as [a1 out] eqn:S. specialize (IH a1).
    destruct (arun cfg r a1) as [a2 outs]. cbn [fst] in *. rewrite IH.
    fold (events r). destruct o; cbn [astep] in S; injection S as <- _; cbn [fst]; rewrite <- ?app_assoc; reflexivity.
Qed.

Lemma arun_app cfg h1 h2 a :
  arun cfg (h1 ++ h2) a =
  let (a1, o1) := arun cfg h1 a in let (a2, o2) := arun cfg h2 a1 in (a2, o1 ++ o2).
Proof.
  revert a. induction h1 as [|o r IH]; intros a; cbn [app arun].
  - destruct (arun cfg h2 a). reflexivity.
  - destruct (astep cfg a o) as [a1 out]. rewrite IH.
    destruct (arun cfg r a1) as [a2 o1]. destruct (arun cfg h2 a2). reflexivity.
Qed.

Theorem refinement cfg ops : ops_valid ops ->
  outputs cfg ops = snd (arun cfg ops ([], false)) /\
  R cfg (final cfg ops) (fst (arun cfg ops ([], false))).
Proof. intros V. apply run_refines; [apply R_init|exact V]. Qed.

(* update_db never lets an exception escape (IntegrityError on platform_names, missing table) *)
Lemma never_raises cfg ops : ops_valid ops -> ~ In ORaised (outputs cfg ops).
Proof.
  intros V. rewrite (proj1 (refinement cfg ops V)). generalize ((@nil event, false) : astate).
  induction ops as [|o r IH]; intros a; cbn [arun]; [intros []|].
  destruct (astep cfg a o) as [a1 out] eqn:S. specialize (IH (fun o' H => V o' (or_intror H)) a1).
  destruct (arun cfg r a1) as [a2 outs]. cbn [snd] in *. intros [H|H]; [|exact (IH H)].
  subst out. destruct o; cbn [astep] in S; discriminate.
Qed.

(* ====================================================================== *)
(* 6. the theorems, in terms of the history                               *)
(* ====================================================================== *)
Lemma final_events cfg ops : fst (fst (arun cfg ops ([], false))) = events ops.
Proof. rewrite arun_events. reflexivity. Qed.

Lemma arows_In sat e v m : In (e, v) (arows sat m) <-> In ((sat, e), v) m.
Proof.
  unfold arows. rewrite in_map_iff. split.
  - intros ([[s e'] v'] & H & Hin). cbn [fst snd] in H. injection H as -> ->.
    apply filter_In in Hin as [Hin Hs]. cbn [fst] in Hs. apply Z.eqb_eq in Hs. subst. exact Hin.
  - intros Hin. exists ((sat, e), v). split; [reflexivity|]. apply filter_In. split; [exact Hin|].
    cbn [fst]. apply Z.eqb_refl.
Qed.

Lemma configured_iff cfg sat : configured cfg sat = true <-> lookup sat cfg <> None.
Proof. unfold configured. destruct (lookup sat cfg); split; congruence. Qed.

Definition seen_rows (cfg : config) (evs : list event) (sat : Z) : list (epoch * val) :=
  arows sat (amap_of cfg evs).

Lemma seen_rows_char cfg evs sat e v :
  In (e, v) (seen_rows cfg evs sat) <-> lookup sat cfg <> None /\ first_seen evs sat e = Some v.
Proof. unfold seen_rows. rewrite arows_In, amap_char, configured_iff. reflexivity. Qed.

Lemma fst_inj_nodup {A B} (m : list (A * B)) : NoDup (map fst m) ->
  forall x y, In x m -> In y m -> fst x = fst y -> x = y.
Proof.
  induction m as [|z m IH]; intros N x y Hx Hy E; [destruct Hx|].
  cbn [map] in N. inversion N as [|? ? Hz Nm]; subst.
  destruct Hx as [<-|Hx], Hy as [<-|Hy].
  - reflexivity.
  - exfalso. apply Hz. rewrite E. apply in_map, Hy.
  - exfalso. apply Hz. rewrite <- E. apply in_map, Hx.
  - apply IH; assumption.
Qed.

Lemma NoDup_map_inj {A B} (f : A -> B) (l : list A) :
  (forall x y, In x l -> In y l -> f x = f y -> x = y) -> NoDup l -> NoDup (map f l).
Proof.
  induction l as [|a l IH]; intros Inj N; [constructor|].
  inversion N as [|? ? Ha Nl]; subst. cbn [map]. constructor.
  - intros H. apply in_map_iff in H as (y & E & Hy). apply Ha.
    rewrite (Inj a y (or_introl eq_refl) (or_intror Hy) (eq_sym E)). exact Hy.
  - apply IH; [|exact Nl]. intros x y Hx Hy. apply Inj; right; assumption.
Qed.

Lemma seen_rows_nodup cfg evs sat : evs_valid evs ->
  NoDup (map (fun r => iso (fst r)) (seen_rows cfg evs sat)).
Proof.
  intros V. unfold seen_rows, arows. rewrite map_map. cbn [fst].
  pose proof (amap_keys_nodup cfg evs) as N.
  apply NoDup_map_inj.
  - intros x y Hx Hy E. apply filter_In in Hx as [Hx Sx]. apply filter_In in Hy as [Hy Sy].
    apply Z.eqb_eq in Sx. apply Z.eqb_eq in Sy.
    apply (fst_inj_nodup _ N x y Hx Hy).
    apply iso_inj in E; [|apply (amap_valid cfg evs V x Hx)|apply (amap_valid cfg evs V y Hy)].
    destruct x as [[sx ex] vx], y as [[sy ey] vy]. cbn [fst snd] in *. congruence.
  - apply NoDup_filter. apply (NoDup_map_inv fst). exact N.
Qed.

(* ---------- C15_rows ---------- *)
Theorem rows_theorem cfg ops : ops_valid ops ->
  let d := sdb (final cfg ops) in
  (forall sat, lookup sat cfg = None -> table_exists sat d = false /\ rows_of sat d = []) /\
  (forall sat, NoDup (map fst (rows_of sat d))) /\
  (forall sat k v, In (k, v) (rows_of sat d) <->
     exists e, k = iso e /\ lookup sat cfg <> None /\ first_seen (events ops) sat e = Some v).
Proof.
  intros V d. destruct (refinement cfg ops V) as [_ HR]. subst d.
  pose proof (R_valid _ _ _ HR) as Vev. rewrite final_events in Vev.
  split; [|split].
  - intros sat C. pose proof (R_uncfg _ _ _ HR sat C) as T.
    unfold table_exists. rewrite rows_of_lookup, T. split; reflexivity.
  - intros sat. rewrite (R_rows _ _ _ HR), final_events, map_map. cbn [iso_row fst].
    apply seen_rows_nodup, Vev.
  - intros sat k v. rewrite (R_rows _ _ _ HR), final_events, in_map_iff. split.
    + intros ([e v'] & E & Hin). unfold iso_row in E. cbn [fst snd] in E. injection E as <- <-.
      exists e. split; [reflexivity|]. apply (seen_rows_char cfg (events ops) sat e v'). exact Hin.
    + intros (e & -> & C & F). exists (e, v). split; [reflexivity|].
      apply (seen_rows_char cfg (events ops) sat e v). split; assumption.
Qed.

(* ---------- C15_updated_iff ---------- *)
Definition resets (o : op) : bool := match o with Reopen | Crash _ _ _ => true | _ => false end.
(* the history up to the moment the current SQLiteTLE object was constructed *)
Definition opens (h : list op) : Prop := h = [] \/ exists h' o, h = h' ++ [o] /\ resets o = true.

Fixpoint adds (cfg : config) (evs : list event) (cur : list op) : bool :=
  match cur with
  | [] => false
  | Update t src :: r => fresh cfg evs (t, src) || adds cfg (evs ++ [(t, src)]) r
  | _ :: r => adds cfg evs r
  end.

Lemma flag_cur cfg cur : forall a, (forall o, In o cur -> resets o = false) ->
  snd (fst (arun cfg cur a)) = snd a || adds cfg (fst a) cur.
Proof.
  induction cur as [|o r IH]; intros a NR; cbn [arun adds].
  - rewrite orb_false_r. reflexivity.
  - assert (NR' : forall o', In o' r -> resets o' = false) by (intros o' H; apply NR; right; exact H).
    pose proof (NR o (or_introl eq_refl)) as No.
    destruct o as [t src|c t src|wn wa|]; try discriminate No; cbn [astep].
    + specialize (IH (fst a ++ [(t, src)], snd a || fresh cfg (fst a) (t, src)) NR').
      destruct (arun cfg r _) as [a2 outs]. cbn [fst snd] in *. rewrite IH, orb_assoc. reflexivity.
    + specialize (IH a NR'). destruct (arun cfg r a) as [a2 outs]. cbn [fst snd] in *. exact IH.
Qed.

Lemma adds_iff cfg cur : forall evs,
  adds cfg evs cur = true <->
  exists a t src b, cur = a ++ Update t src :: b /\ fresh cfg (evs ++ events a) (t, src) = true.
Proof.
  induction cur as [|o r IH]; intros evs; cbn [adds].
  - split; [discriminate|]. intros (a & t & src & b & E & _). destruct a; discriminate.
  - destruct o as [t src|c t src|wn wa|].
    + rewrite orb_true_iff, IH. split.
      * intros [F|(a & t' & src' & b & -> & F)].
        -- exists [], t, src, r. cbn [app events flat_map]. rewrite app_nil_r. split; [reflexivity|exact F].
        -- exists (Update t src :: a), t', src', b. split; [reflexivity|].
           cbn [events flat_map app]. fold (events a). rewrite <- app_assoc in F. exact F.
      * intros (a & t' & src' & b & E & F). destruct a as [|o a].
        -- cbn [app] in E. injection E as -> -> ->. left. cbn [events flat_map] in F. rewrite app_nil_r in F. exact F.
        -- cbn [app] in E. injection E as <- ->. right. exists a, t', src', b. split; [reflexivity|].
           cbn [events flat_map app] in F. fold (events a) in F. rewrite <- app_assoc. exact F.
    + rewrite IH. split.
      * intros (a & t' & src' & b & -> & F). exists (Crash c t src :: a), t', src', b. split; [reflexivity|exact F].
      * intros (a & t' & src' & b & E & F). destruct a as [|o a]; [discriminate|].
        cbn [app] in E. injection E as <- ->. exists a, t', src', b. split; [reflexivity|exact F].
    + rewrite IH. split.
      * intros (a & t' & src' & b & -> & F). exists (Export wn wa :: a), t', src', b. split; [reflexivity|exact F].
      * intros (a & t' & src' & b & E & F). destruct a as [|o a]; [discriminate|].
        cbn [app] in E. injection E as <- ->. exists a, t', src', b. split; [reflexivity|exact F].
    + rewrite IH. split.
      * intros (a & t' & src' & b & -> & F). exists (Reopen :: a), t', src', b. split; [reflexivity|exact F].
      * intros (a & t' & src' & b & E & F). destruct a as [|o a]; [discriminate|].
        cbn [app] in E. injection E as <- ->. exists a, t', src', b. split; [reflexivity|exact F].
Qed.

Lemma flag_after_open cfg h : opens h -> snd (fst (arun cfg h ([], false))) = false.
Proof.
  intros [->|(h' & o & -> & Ro)]; [reflexivity|].
  rewrite arun_app. destruct (arun cfg h' ([], false)) as [a1 o1]. cbn [arun].
  destruct o; try discriminate Ro; reflexivity.
Qed.

Lemma events_app h1 h2 : events (h1 ++ h2) = events h1 ++ events h2.
Proof. unfold events. apply flat_map_app. Qed.

Theorem updated_theorem cfg h cur :
  ops_valid (h ++ cur) -> opens h -> (forall o, In o cur -> resets o = false) ->
  (updated (final cfg (h ++ cur)) = true <->
   exists a t src b, cur = a ++ Update t src :: b /\ lookup (t_sat t) cfg <> None /\
                     first_seen (events (h ++ a)) (t_sat t) (t_epoch t) = None).
Proof.
  intros V Ho NR. destruct (refinement cfg (h ++ cur) V) as [_ HR].
  rewrite (R_flag _ _ _ HR), arun_app.
  pose proof (flag_after_open cfg h Ho) as F0. pose proof (final_events cfg h) as E0.
  destruct (arun cfg h ([], false)) as [[evs0 f0] o1]. cbn [fst snd] in F0, E0. subst f0 evs0.
  pose proof (flag_cur cfg cur (events h, false) NR) as FC.
  destruct (arun cfg cur (events h, false)) as [a2 o2]. cbn [fst snd] in *.
  rewrite FC. cbn [orb]. rewrite adds_iff. split.
  - intros (a & t & src & b & E & F). exists a, t, src, b. split; [exact E|].
    rewrite fresh_char in F. cbn [fst] in F. apply andb_true_iff in F as [F1 F2].
    split; [apply configured_iff, F1|]. rewrite events_app.
    destruct (first_seen _ _ _); [discriminate|reflexivity].
  - intros (a & t & src & b & E & C & F). exists a, t, src, b. split; [exact E|].
    rewrite fresh_char. cbn [fst]. rewrite events_app in F. rewrite F.
    apply configured_iff in C. rewrite C. reflexivity.
Qed.

(* ---------- C15_crash_safe ---------- *)
Lemma arun_crash_reopen cfg h1 c t src h2 a :
  arun cfg (h1 ++ Crash c t src :: h2) a = arun cfg (h1 ++ Reopen :: h2) a.
Proof. rewrite !arun_app. destruct (arun cfg h1 a) as [a1 o1]. reflexivity. Qed.

Lemma ops_valid_crash_reopen h1 c t src h2 :
  ops_valid (h1 ++ Crash c t src :: h2) -> ops_valid (h1 ++ Reopen :: h2).
Proof.
  intros V o H. apply in_app_or in H as [H|[<-|H]].
  - apply V, in_or_app. left. exact H.
  - exact I.
  - apply V, in_or_app. right. right. exact H.
Qed.

(* a process death at any statement boundary of update_db is, for every later observation
   (rows, updated flag, every exported file), indistinguishable from a clean close + reopen
   with that update never issued *)
Theorem crash_theorem cfg h1 c t src h2 :
  ops_valid (h1 ++ Crash c t src :: h2) ->
  let crashed := h1 ++ Crash c t src :: h2 in
  let clean := h1 ++ Reopen :: h2 in
  outputs cfg crashed = outputs cfg clean /\
  updated (final cfg crashed) = updated (final cfg clean) /\
  (forall sat, rows_of sat (sdb (final cfg crashed)) = rows_of sat (sdb (final cfg clean))).
Proof.
  intros V crashed clean.
  destruct (refinement cfg crashed V) as [O1 R1].
  destruct (refinement cfg clean (ops_valid_crash_reopen _ _ _ _ _ V)) as [O2 R2].
  unfold crashed, clean in *. rewrite arun_crash_reopen in O1, R1.
  split; [congruence|]. split.
  - rewrite (R_flag _ _ _ R1), (R_flag _ _ _ R2). reflexivity.
  - intros sat. rewrite (R_rows _ _ _ R1), (R_rows _ _ _ R2). reflexivity.
Qed.

(* ---------- C15_export_newest ---------- *)
Lemma anewest_none l : anewest l = None <-> l = [].
Proof.
  destruct l as [|r t]; [split; reflexivity|]. cbn [anewest].
  destruct (anewest t) as [m|]; [destruct (ecmp (fst m) (fst r))|]; split; discriminate.
Qed.

Lemma anewest_char l : (forall r, In r l -> valid_epoch (fst r)) ->
  forall m, anewest l = Some m -> In m l /\ forall r, In r l -> (eord (fst r) <= eord (fst m))%N.
Proof.
  induction l as [|x t IH]; intros V m A; [discriminate|].
  assert (Vt : forall r, In r t -> valid_epoch (fst r)) by (intros r H; apply V; right; exact H).
  cbn [anewest] in A. destruct (anewest t) as [m'|] eqn:A'.
  - destruct (IH Vt m' eq_refl) as [Hin Hmax].
    pose proof (ecmp_ord (fst m') (fst x) (Vt _ Hin) (V x (or_introl eq_refl))) as Ho.
    rewrite Ho in A.
    destruct (N.compare_spec (eord (fst m')) (eord (fst x))) as [E|L|G]; injection A as <-.
    + split; [right; exact Hin|].
      intros r [<-|Hr]; [lia|apply Hmax, Hr].
    + split; [left; reflexivity|].
      intros r [<-|Hr]; [lia|]. specialize (Hmax r Hr). lia.
    + split; [right; exact Hin|].
      intros r [<-|Hr]; [lia|apply Hmax, Hr].
  - injection A as <-. apply anewest_none in A'. subst t. split; [left; reflexivity|].
    intros r [<-|[]]. lia.
Qed.

Theorem export_theorem cfg ops wn wa : ops_valid ops ->
  export cfg (final cfg ops) wn wa =
    if negb (updated (final cfg ops)) && negb wa then None
    else Some (flat_map (fun p : Z * Z =>
                 match anewest (seen_rows cfg (events ops) (fst p)) with
                 | None => []
                 | Some r => (if wn then [IName (snd p)] else []) ++ [IText (fst (snd r))]
                 end) cfg).
Proof.
  intros V. destruct (refinement cfg ops V) as [_ HR].
  rewrite (export_refines cfg _ _ wn wa HR), (R_flag _ _ _ HR), final_events. reflexivity.
Qed.

(* the entry an export prints for a platform is a first-seen entry with the temporally greatest epoch *)
Theorem newest_theorem cfg evs sat : evs_valid evs ->
  match anewest (seen_rows cfg evs sat) with
  | None => forall e, lookup sat cfg = None \/ first_seen evs sat e = None
  | Some m => lookup sat cfg <> None /\ first_seen evs sat (fst m) = Some (snd m) /\
              forall e v, first_seen evs sat e = Some v -> ecmp e (fst m) <> Gt
  end.
Proof.
  intros V. destruct (anewest (seen_rows cfg evs sat)) as [m|] eqn:A.
  - assert (Vr : forall r, In r (seen_rows cfg evs sat) -> valid_epoch (fst r)) by (apply arows_valid, V).
    destruct (anewest_char _ Vr m A) as [Hin Hmax].
    destruct m as [e0 v0]. apply seen_rows_char in Hin as [C F]. cbn [fst snd].
    split; [exact C|]. split; [exact F|]. intros e v Fe.
    assert (Hin' : In (e, v) (seen_rows cfg evs sat)) by (apply seen_rows_char; split; assumption).
    specialize (Hmax _ Hin'). cbn [fst] in Hmax.
    rewrite (ecmp_ord e e0 (Vr _ Hin')).
    + intros G. apply N.compare_gt_iff in G. lia.
    + apply (Vr (e0, v0)). apply seen_rows_char. split; assumption.
  - apply anewest_none in A. intros e.
    destruct (lookup sat cfg) eqn:C; [|left; reflexivity]. right.
    destruct (first_seen evs sat e) as [v|] eqn:F; [|reflexivity]. exfalso.
    assert (Hin : In (e, v) (seen_rows cfg evs sat)) by (apply seen_rows_char; split; [congruence|exact F]).
    rewrite A in Hin. destruct Hin.
Qed.

(* the driver fetch_tles.run: every update of one process, then one export *)
Lemma outputs_snoc_export cfg ops wn wa :
  outputs cfg (ops ++ [Export wn wa]) = outputs cfg ops ++ [OFile (export cfg (final cfg ops) wn wa)].
Proof.
  unfold outputs, final. generalize init. induction ops as [|o r IH]; intros st; cbn [app run].
  - reflexivity.
  - destruct (step cfg st o) as [st1 out]. specialize (IH st1).
    destruct (run cfg (r ++ [Export wn wa]) st1) as [s2 o2]. destruct (run cfg r st1) as [s3 o3].
    cbn [fst snd] in *. rewrite IH. reflexivity.
Qed.

(* ---------- the platform_names gap (observation C15b) ---------- *)
(* invariant actually re-established: names only for existing tables, with the configured name *)
Theorem names_theorem cfg ops : ops_valid ops ->
  forall s n, lookup s (names (sdb (final cfg ops))) = Some n ->
              table_exists s (sdb (final cfg ops)) = true /\ lookup s cfg = Some n.
Proof.
  intros V s n H. destruct (refinement cfg ops V) as [_ HR].
  destruct (R_names _ _ _ HR s n H) as [H1 H2]. split; [|exact H2].
  unfold table_exists. destruct (lookup s (tables (sdb (final cfg ops)))); [reflexivity|congruence].
Qed.

(* ---------- the permanent platform_names gap ---------- *)
Definition gap (s : Z) (d : db) : Prop := lookup s (tables d) <> None /\ lookup s (names d) = None.
Definition names_other (s : Z) (stm : stmt) : Prop := match stm with SName s' _ => s' <> s | _ => True end.

Lemma gap_exec s stm d : names_other s stm -> gap s d ->
  match exec stm d with Done d' => gap s d' | _ => True end.
Proof.
  intros NO [HT HN]. destruct stm as [s'|s' nm|s' k v]; cbn [exec].
  - destruct (table_exists s' d); [exact I|]. split; cbn [tables names]; [|exact HN].
    rewrite lookup_app. destruct (lookup s (tables d)); [discriminate|congruence].
  - destruct (lookup s' (names d)); [exact I|]. split; cbn [tables names]; [exact HT|].
    rewrite lookup_app, HN. cbn in NO. destruct (Z.eqb_spec s s'); [congruence|reflexivity].
  - destruct (lookup s' (tables d)) as [rows|] eqn:T; [|exact I].
    destruct (has_key k rows); [exact I|]. split; cbn [tables names]; [|exact HN].
    rewrite lookup_set, T. destruct (Z.eqb_spec s s'); [discriminate|exact HT].
Qed.

Lemma gap_exec_plan s p : forall d upd, Forall (names_other s) p -> gap s d ->
  gap s (fst (fst (exec_plan p d upd))).
Proof.
  induction p as [|stm r IH]; intros d upd F G; cbn [exec_plan]; [exact G|].
  inversion F as [|? ? F1 F2]; subst.
  pose proof (gap_exec s stm d F1 G) as GE.
  destruct (exec stm d) as [d'| |].
  - apply IH; assumption.
  - destruct (is_row stm); [apply IH; assumption|exact G].
  - exact G.
Qed.

Lemma plan_names_other cfg t src d s : gap s d -> Forall (names_other s) (plan cfg t src d).
Proof.
  intros [HT _]. unfold plan. destruct (lookup (t_sat t) cfg) as [nm|]; [|constructor].
  unfold table_exists. destruct (lookup (t_sat t) (tables d)) eqn:T; cbn [app].
  - constructor; [exact I|constructor].
  - constructor; [exact I|]. constructor; [|constructor; [exact I|constructor]].
    cbn. intros E. rewrite E in T. exact (HT T).
Qed.

Lemma committed_names_other s c p : Forall (names_other s) p -> Forall (names_other s) (committed c p).
Proof.
  induction p as [|stm r IH]; intros F; cbn [committed]; [constructor|].
  inversion F; subst. destruct (Nat.leb _ _); [constructor; [assumption|apply IH; assumption]|constructor].
Qed.

Lemma gap_step cfg st o s : gap s (sdb st) -> gap s (sdb (fst (step cfg st o))).
Proof.
  intros G. destruct o as [t src|c t src|wn wa|]; cbn [step].
  - unfold update.
    pose proof (gap_exec_plan s _ (sdb st) (updated st) (plan_names_other cfg t src (sdb st) s G) G) as H.
    destruct (exec_plan _ _ _) as [[d u] raised]. cbn [fst sdb] in *. exact H.
  - unfold crash.
    pose proof (gap_exec_plan s _ (sdb st) false
                  (committed_names_other s c _ (plan_names_other cfg t src (sdb st) s G)) G) as H.
    destruct (exec_plan _ _ _) as [[d u] raised]. cbn [fst sdb] in *. exact H.
  - exact G.
  - exact G.
Qed.

Lemma gap_run cfg ops s : forall st, gap s (sdb st) -> gap s (sdb (fst (run cfg ops st))).
Proof.
  induction ops as [|o r IH]; intros st G; cbn [run]; [exact G|].
  pose proof (gap_step cfg st o s G) as G1. destruct (step cfg st o) as [st1 out]. cbn [fst] in G1.
  specialize (IH st1 G1). destruct (run cfg r st1) as [st2 outs]. exact IH.
Qed.

Lemma run_app_fst cfg h1 h2 st : fst (run cfg (h1 ++ h2) st) = fst (run cfg h2 (fst (run cfg h1 st))).
Proof.
  revert st. induction h1 as [|o r IH]; intros st; cbn [app run]; [reflexivity|].
  destruct (step cfg st o) as [st1 out]. specialize (IH st1).
  destruct (run cfg (r ++ h2) st1) as [s2 o2]. destruct (run cfg r st1) as [s3 o3]. exact IH.
Qed.

Theorem names_gap cfg h1 t src h2 :
  ops_valid h1 -> lookup (t_sat t) cfg <> None -> table_exists (t_sat t) (sdb (final cfg h1)) = false ->
  lookup (t_sat t) (names (sdb (final cfg (h1 ++ Crash AfterCreate t src :: h2)))) = None.
Proof.
  intros V C TE. unfold final. rewrite run_app_fst. fold (final cfg h1). cbn [run step].
  assert (G : gap (t_sat t) (sdb (crash cfg AfterCreate t src (final cfg h1)))).
  { destruct (refinement cfg h1 V) as [_ HR].
    unfold table_exists in TE. destruct (lookup (t_sat t) (tables (sdb (final cfg h1)))) eqn:T; [discriminate|].
    assert (Nm : lookup (t_sat t) (names (sdb (final cfg h1))) = None).
    { destruct (lookup (t_sat t) (names (sdb (final cfg h1)))) eqn:Nm; [|reflexivity].
      exfalso. exact (proj1 (R_names _ _ _ HR _ _ Nm) T). }
    unfold crash, plan. destruct (lookup (t_sat t) cfg) as [nm|]; [|congruence].
    unfold table_exists. rewrite T. cbn [app committed stmt_level cp_level Nat.leb exec_plan exec].
    unfold table_exists. rewrite T. cbn [exec_plan sdb]. split; cbn [tables names]; [|exact Nm].
    rewrite lookup_app, T, Z.eqb_refl. discriminate. }
  pose proof (gap_run cfg h2 (t_sat t) _ G) as [_ H].
  destruct (run cfg h2 (crash cfg AfterCreate t src (final cfg h1))) as [s2 o2]. exact H.
Qed.

Lemma inhabited :
  let cfg := [(25544, 1); (28654, 2)]%Z in
  let e0 := E 2008 9 20 12 0 0 0 in
  let e1 := E 2008 9 20 12 0 0 500 in
  let h := [Update (mkTle 25544 e1 5) 2; Update (mkTle 25544 e0 3) 1; Update (mkTle 25544 e0 6) 2;
            Update (mkTle 99999 e0 7) 1; Crash AfterCreate (mkTle 28654 e0 4) 1;
            Export true true; Update (mkTle 28654 e0 4) 3; Export true false; Reopen; Export false false]%Z in
  ops_valid h /\
  outputs cfg h = [ONone; ONone; ONone; ONone; ONone;
                   OFile (Some [IName 1; IText 5]); ONone;
                   OFile (Some [IName 1; IText 5; IName 2; IText 4]); ONone; OFile None]%Z /\
  map fst (rows_of 25544 (sdb (final cfg h))) =
    [String.list_ascii_of_string "2008-09-20T12:00:00.000500"%string; String.list_ascii_of_string "2008-09-20T12:00:00"%string] /\
  map snd (rows_of 25544 (sdb (final cfg h))) = [(5, 2); (3, 1)]%Z /\
  names (sdb (final cfg h)) = [(25544, 1)]%Z.
Proof.
  cbv zeta. split.
  - intros o H. cbn [In] in H.
    repeat (destruct H as [<-|H]; [cbn; unfold valid_epoch; cbn; try exact I; repeat split; lia|]).
    destruct H.
  - vm_compute. repeat split; reflexivity.
Qed.
