(* Non-vacuity of the answered / accuracy theorems: the ISS element set of the test-suite, at epoch, is healthy in the sense
   of P_Sgp4Answered (interval arithmetic on the report's formulas), so its propagation is answered. *)
From Coq Require Import Reals Lra.
From Coquelicot Require Import Rcomplements.
From Interval Require Import Tactic.
From PyOrb.lib Require Import PyReal.
From PyOrb.spec Require Import Spec_SGP4.
From PyOrb.proofs Require Import P_AccuracyExample.
Open Scope R_scope.

Lemma iss_a_tight : 105 / 100 <= a ISS T0.
Proof.
  pose proof iss_a0 as Ha. unfold a, T0. cbn [t_tau].
  replace ((1 - C1 ISS * 0 - D2 ISS * 0 ^ 2 - D3 ISS * 0 ^ 3 - D4 ISS * 0 ^ 4) ^ 2) with 1 by ring. lra.
Qed.

Lemma iss_eL2_tight : eL2 ISS T0 (e_unclamped ISS T0) <= 1 / 1000.
Proof.
  pose proof iss_e_tight as He. pose proof iss_a as Ha.
  set (ee := e_unclamped ISS T0) in *.
  assert (Hy : Rabs (ayNL ISS T0 ee) <= 1 / 100).
  { unfold ayNL, beta, A30, k2. set (AA := a ISS T0) in *. unfold ISS, deg2rad; cbn [el_i0]. interval. }
  unfold eL2, axN, ayN. set (y := ayNL ISS T0 ee) in *. set (W := w ISS T0).
  pose proof (sin2_cos2 W) as SC. unfold Rsqr in SC. apply Rabs_le_between in Hy.
  pose proof (SIN_bound W) as SB.
  replace ((ee * cos W) ^ 2 + (ee * sin W + y) ^ 2) with (ee ^ 2 * (sin W * sin W + cos W * cos W) + 2 * (ee * (sin W * y)) + y ^ 2) by ring.
  rewrite SC.
  assert (H1 : -(1 / 100) <= sin W * y <= 1 / 100) by nra.
  assert (H2 : -(1 / 10000) <= ee * (sin W * y) <= 1 / 10000) by nra.
  assert (H3 : ee ^ 2 <= 1 / 10000) by nra.
  assert (H4 : y ^ 2 <= 1 / 10000) by nra.
  lra.
Qed.

Lemma iss_perigee : 1005 / 1000 <= a ISS T0 * (1 - sqrt (eL2 ISS T0 (e_unclamped ISS T0))).
Proof.
  pose proof iss_a_tight as Ha. pose proof iss_eL2_tight as He.
  set (z := eL2 ISS T0 (e_unclamped ISS T0)) in *.
  assert (Hs : sqrt z <= 4 / 100).
  { replace (4 / 100) with (sqrt ((4 / 100) * (4 / 100))) by (rewrite sqrt_square; lra). apply sqrt_le_1_alt. lra. }
  pose proof (sqrt_pos z). nra.
Qed.
