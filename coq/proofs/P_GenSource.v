(* C16, source tie: the decision tree REGENERATED from _get_uris_and_open_func (Gen_source.v) is the decision of the
   hand model, for every kind of tle_file argument and every state of the TLES environment variable. *)
From Coq Require Import List Bool Arith.
From PyOrb.model Require Import M_Source.
From PyOrb.gen Require Import Gen_source.
Import ListNotations.

(* the four tests of the source on the model's inputs.  "ADMIN_MESSAGE" in tle_file is only evaluated for a
   non-stream argument (it is the elif of the isinstance test) *)
Definition t_file_given (f : file_arg) : bool := match f with FNone => false | _ => true end.
Definition t_is_stream (f : file_arg) : bool := match f with FStream => true | _ => false end.
Definition t_has_admin (f : file_arg) : bool := match f with FXml => true | _ => false end.
Definition t_local_set (local : option (list (nat * nat))) : bool := match local with Some _ => true | None => false end.

Definition opener_of (o : opener_kind) : opener :=
  match o with GDummy => ODummy | GOpen => OOpen | GUrlopen => OUrlopen end.

(* what the chosen pair means on the model's inputs *)
Definition interpret (d : uris_kind * opener_kind) (f : file_arg) (local : option (list (nat * nat)))
  : (list uri * opener) + exn :=
  let o := opener_of (snd d) in
  match fst d with
  | GGiven => inl ([if t_is_stream f then UGivenStream else UPath], o)             (* (tle_file,) *)
  | GXml => inl ([UXmlStream], o)                                                  (* the XML's text as a stream *)
  | GNewest => match local with                                                    (* max(glob(...), key=getctime) *)
               | Some files => match newest files with
                               | Some x => inl ([UTlesFile (fst x)], o)
                               | None => inr EValueError
                               end
               | None => inr EValueError
               end
  | GUrls => inl (map UUrl (seq 0 n_tle_urls), o)                                  (* TLE_URLS *)
  end.

Theorem gen_source_decision_correct f local :
  get_uris_and_open_func f local
  = interpret (gen_source_decision (t_file_given f) (t_is_stream f) (t_has_admin f) (t_local_set local)) f local.
Proof.
  destruct f; destruct local as [files|]; cbn; try reflexivity;
    destruct (newest files); reflexivity.
Qed.

(* consequences read off the regenerated tree alone *)
Theorem gen_network_only_when_nothing_local a b c d :
  snd (gen_source_decision a b c d) = GUrlopen <-> a = false /\ d = false.
Proof. destruct a, b, c, d; cbn; split; intros H; try discriminate; try (destruct H; discriminate); auto. Qed.

Theorem gen_given_file_wins a b c d : a = true -> fst (gen_source_decision a b c d) = GGiven \/ fst (gen_source_decision a b c d) = GXml.
Proof. intros ->. destruct b, c, d; cbn; auto. Qed.
