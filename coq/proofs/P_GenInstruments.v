(* C19, source tie for the NUMBERS: the constants of the line-scanner definitions, evaluated exactly from the source
   (Gen_instruments.v, regenerated on every run), are the ones the hand templates of M_Instruments are built from.
   Each statement is a closed computation over Q. *)
From Coq Require Import ZArith QArith List Bool.
From PyOrb.model Require Import M_Instruments.
From PyOrb.gen Require Import Gen_instruments.
Open Scope Q_scope.

(* what a ramp-type line scanner (across = (p / c - 1) * angle, sample = p * dt + sync, offset = s * rate) must satisfy
   for the template to be the source's formula with the source's numbers *)
Definition ramp_ok (I : inst) (len : Z) (rate angle dt sync : Q) : Prop :=
  npos I = len /\
  period I == rate /\
  swath I == - angle /\
  across I 0 == - angle /\                                  (* (0 / c - 1) * angle *)
  across I (len - 1) == angle /\                            (* c = (len - 1) / 2 *)
  sample I Exact 0 0 == sync /\
  sample I Exact 0 1 - sample I Exact 0 0 == dt /\
  offset I Exact 1 == rate.

Definition ramp_okb (I : inst) (len : Z) (rate angle dt sync : Q) : bool :=
  (npos I =? len)%Z && Qeq_bool (period I) rate && Qeq_bool (swath I) (- angle) && Qeq_bool (across I 0) (- angle) &&
  Qeq_bool (across I (len - 1)) angle && Qeq_bool (sample I Exact 0 0) sync &&
  Qeq_bool (sample I Exact 0 1 - sample I Exact 0 0) dt && Qeq_bool (offset I Exact 1) rate.

Lemma ramp_okb_ok I len rate angle dt sync : ramp_okb I len rate angle dt sync = true -> ramp_ok I len rate angle dt sync.
Proof.
  unfold ramp_okb, ramp_ok. rewrite !andb_true_iff. intros [[[[[[[H1 H2] H3] H4] H5] H6] H7] H8].
  apply Z.eqb_eq in H1. repeat split; try assumption; apply Qeq_bool_iff; assumption.
Qed.

Theorem amsua_numbers : ramp_ok amsua gen_amsua_scan_len gen_amsua_scan_rate gen_amsua_scan_angle gen_amsua_sampling_interval gen_amsua_sync_time.
Proof. apply ramp_okb_ok. vm_compute. reflexivity. Qed.
Theorem mhs_numbers : ramp_ok mhs gen_mhs_scan_len gen_mhs_scan_rate gen_mhs_scan_angle gen_mhs_sampling_interval gen_mhs_sync_time.
Proof. apply ramp_okb_ok. vm_compute. reflexivity. Qed.
Theorem hirs4_numbers : ramp_ok hirs4 gen_hirs4_scan_len gen_hirs4_scan_rate gen_hirs4_scan_angle gen_hirs4_sampling_interval gen_hirs4_sync_time.
Proof. apply ramp_okb_ok. vm_compute. reflexivity. Qed.
Theorem mwhs2_numbers : ramp_ok mwhs2 gen_mwhs2_scan_len gen_mwhs2_scan_rate gen_mwhs2_scan_angle gen_mwhs2_sampling_interval gen_mwhs2_sync_time.
Proof. apply ramp_okb_ok. vm_compute. reflexivity. Qed.
(* atms spreads the angles with linspace(-a, a, len): the same end points *)
Theorem atms_numbers : ramp_ok atms gen_atms_scan_len gen_atms_scan_rate gen_atms_scan_angle gen_atms_sampling_interval gen_atms_sync_time.
Proof. apply ramp_okb_ok. vm_compute. reflexivity. Qed.

(* avhrr: the scan angle is given positive and negated in the formula; 2 * half_width + 1 positions *)
Theorem avhrr_numbers :
  period avhrr == gen_avhrr_scan_rate /\ swath avhrr == gen_avhrr_scan_angle /\
  across avhrr 0 == gen_avhrr_scan_angle /\ across avhrr (npos avhrr - 1) == - gen_avhrr_scan_angle /\
  inject_Z (npos avhrr - 1) == 2 * gen_avhrr_half_width /\
  sample avhrr Exact 0 1 - sample avhrr Exact 0 0 == gen_avhrr_sampling_interval /\
  offset avhrr Exact 1 == gen_avhrr_scan_rate.
Proof. repeat split; apply Qeq_bool_iff; vm_compute; reflexivity. Qed.
